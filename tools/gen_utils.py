#!/usr/bin/env python3
"""gen_utils.py — Python-AST -> Lean 4 translator for /repo/src/sysloss/utils.py (property C20).

    /venv/bin/python tools/gen_utils.py [--src utils.py] [--out lean/SysLoss/Gen/Utils.lean] [--stdout]

Reads the *current* utils.py on every run and emits `SysLoss.Gen.traceRes`, `SysLoss.Gen.planeRes`, their
keyword defaults and the module constants as Lean definitions that are polymorphic over a carrier with
syntactic classes only (`[Add α] [Sub α] [Mul α] [Div α] [Neg α] [OfNat α n]…`), so the same text is evaluated at
`Rat` (lean/UtilsEval.lean) and is the subject of the theorems of lean/SysLoss/Props/C20.lean at any ordered field.

Fragment that is translated (everything that occurs in utils.py today, nothing more than can be given an exact
meaning over a field):

  module level   docstrings; `NAME = <expr>` / `NAME: T = <expr>` (each name bound once); `def`;
                 plain `import x` / `from x import y` (ignored: they cannot rebind a name that is bound once here —
                 a clash with a name we use is an error)
  target `def`   ordinary or keyword-only parameters, optional annotations, defaults that are <expr> over module
                 constants; body = optional docstring, then `name = <expr>` / `name: T = <expr>` / `name op= <expr>`
                 (op in + - * /), then exactly one `return <expr>` as the last statement
  <expr>         names (parameter, earlier local, module constant), int / decimal float literals,
                 binary + - * /, unary minus, parentheses

Semantics used: Python float arithmetic is read as exact field arithmetic (IEEE rounding is outside the model and
is bounded by the correspondence run); a decimal literal is the exact rational of its *source text*
(`1e3` -> `1000`, `0.5` -> `1/2`, `1.724e-8` -> `431/25000000000`); locals follow Python scoping (a name assigned
anywhere in the body is local: reading it before its assignment is an error, as it is in Python).
`x / 0` raises in Python and is 0 in Lean: a literal zero divisor is rejected here, every other divisor is
non-zero under the positivity hypotheses of the theorems.

Anything else — `if`, loops, calls, attributes, `**`, `//`, `%`, comparisons, tuples, several returns, `*args`,
decorators, `global`, non-decimal literals, a changed keyword signature … — stops the translation with exit code 3
and a message naming the construct and its position.  Nothing is guessed, and nothing is written in that case.
"""
import argparse, ast, os, re, sys
from fractions import Fraction

VERIF = os.path.dirname(os.path.dirname(os.path.abspath(__file__)))
DEFAULT_SRC = "/repo/src/sysloss/utils.py"
DEFAULT_OUT = os.path.join(VERIF, "lean", "SysLoss", "Gen", "Utils.lean")

# public interface the property talks about: python name -> (lean name, keyword parameters in the canonical
# order of the Lean definition).  Keyword-only parameters may be reordered freely in the Python source.
TARGETS = {
    "trace_res": ("traceRes", ["w1_mm", "w2_mm", "l_mm", "t_mm", "rho", "temp", "tcr"]),
    "plane_res": ("planeRes", ["w", "l", "t_mm", "rho", "temp", "tcr"]),
}
# module constants that are always emitted (others only when a target refers to them)
CONSTANTS = ["RHO", "TCR", "MILS2MM", "OZ2MM"]

LEAN_RESERVED = set("""abbrev at attribute axiom by calc class def deriving do else end example extends from fun
    have if import in instance let local macro match mutual namespace notation nomatch open opaque private
    protected rec section set_option show structure syntax then theorem universe using variable where with
    Type Prop Sort forall exists infix infixl infixr prefix postfix termination_by decreasing_by
    α""".split())

DECIMAL = re.compile(r"^(?:\d[\d_]*)?(?:\.(?:\d[\d_]*)?)?(?:[eE][+-]?\d[\d_]*)?$")


class Unsupported(Exception):
    pass


class Translator:
    def __init__(self, src, fname):
        self.src, self.fname = src, fname
        self.consts = {}        # python name -> Def
        self.const_order = []
        self.defs = []          # emitted in this order

    # ------------------------------------------------------------------ errors
    def fail(self, node, what, why=""):
        seg = ""
        try:
            seg = ast.get_source_segment(self.src, node) or ""
        except Exception:
            pass
        seg = " ".join(seg.split())
        if len(seg) > 70:
            seg = seg[:67] + "..."
        pos = "%s:%s:%s" % (self.fname, getattr(node, "lineno", "?"), getattr(node, "col_offset", "?"))
        raise Unsupported("%s: unsupported construct: %s%s%s" % (
            pos, what, (" `%s`" % seg) if seg else "", (" — " + why) if why else ""))

    # ------------------------------------------------------------------ expressions
    def literal(self, node):
        v = node.value
        if isinstance(v, bool) or not isinstance(v, (int, float)):
            self.fail(node, "constant of type %s" % type(v).__name__, "only int and decimal float literals are numbers here")
        if isinstance(v, int):
            return Fraction(v)
        text = ast.get_source_segment(self.src, node) or ""
        if not DECIMAL.match(text) or not any(ch.isdigit() for ch in text):
            self.fail(node, "float literal that is not plain decimal", "cannot read its exact value")
        q = Fraction(text.replace("_", ""))
        if float(q) != v:
            self.fail(node, "float literal", "decimal text and parsed value disagree")
        return q

    def expr(self, node, scope, uses):
        """-> (lean text, atomic?)   scope: name -> lean text, or None for 'local, not yet assigned'"""
        if isinstance(node, ast.Constant):
            q = self.literal(node)
            uses["lits"].update({q.numerator, q.denominator} if q.denominator != 1 else {q.numerator})
            if q.denominator == 1:
                return str(q.numerator), True
            uses["ops"].add("Div")
            return "(%d / %d)" % (q.numerator, q.denominator), True
        if isinstance(node, ast.Name):
            if not isinstance(node.ctx, ast.Load):
                self.fail(node, "name in store/del context")
            if node.id in scope:
                if scope[node.id] is None:
                    self.fail(node, "local variable read before assignment", "UnboundLocalError in Python")
                return scope[node.id], True
            if node.id in self.consts:
                d = self.consts[node.id]
                uses["ops"] |= d["uses"]["ops"]
                uses["lits"] |= d["uses"]["lits"]
                uses["consts"] |= d["uses"]["consts"] | {node.id}
                return d["lean"], True
            self.fail(node, "unknown name", "not a parameter, an earlier local or a module constant bound by a translated assignment")
        if isinstance(node, ast.UnaryOp):
            if not isinstance(node.op, ast.USub):
                self.fail(node, "unary operator %s" % type(node.op).__name__)
            a, _ = self.expr(node.operand, scope, uses)
            uses["ops"].add("Neg")
            return "(-%s)" % a, True
        if isinstance(node, ast.BinOp):
            ops = {ast.Add: ("+", "Add"), ast.Sub: ("-", "Sub"), ast.Mult: ("*", "Mul"), ast.Div: ("/", "Div")}
            if type(node.op) not in ops:
                self.fail(node, "binary operator %s" % type(node.op).__name__, "only + - * / have an exact field meaning here")
            sym, cls = ops[type(node.op)]
            if isinstance(node.op, ast.Div) and isinstance(node.right, ast.Constant) \
                    and isinstance(node.right.value, (int, float)) and node.right.value == 0:
                self.fail(node, "division by literal zero", "raises in Python, is 0 in Lean")
            a, aa = self.expr(node.left, scope, uses)
            b, ba = self.expr(node.right, scope, uses)
            uses["ops"].add(cls)
            return "%s %s %s" % (a if aa else "(%s)" % a, sym, b if ba else "(%s)" % b), False
        self.fail(node, type(node).__name__)

    @staticmethod
    def new_uses():
        return {"ops": set(), "lits": set(), "consts": set()}

    @staticmethod
    def ident(name):
        if name in LEAN_RESERVED or not re.match(r"^[A-Za-z_][A-Za-z0-9_]*$", name) or name == "_":
            return "«%s»" % name
        return name

    # ------------------------------------------------------------------ module
    def assign_parts(self, st, where):
        """statement -> (target name, value expr, augmented op or None)"""
        if isinstance(st, ast.Assign):
            if len(st.targets) != 1 or not isinstance(st.targets[0], ast.Name):
                self.fail(st, "assignment target", "only `name = expr` (%s)" % where)
            return st.targets[0].id, st.value, None
        if isinstance(st, ast.AnnAssign):
            if not isinstance(st.target, ast.Name) or st.value is None or not st.simple:
                self.fail(st, "annotated assignment", "only `name: T = expr` (%s)" % where)
            return st.target.id, st.value, None
        if isinstance(st, ast.AugAssign):
            if not isinstance(st.target, ast.Name):
                self.fail(st, "augmented assignment target", "only `name op= expr`")
            return st.target.id, st.value, st.op
        return None

    @staticmethod
    def is_doc(st):
        return isinstance(st, ast.Expr) and isinstance(st.value, ast.Constant) and isinstance(st.value.value, str)

    def module(self, tree):
        funcs = {}
        bound = {}
        imported = {}
        for st in tree.body:
            if self.is_doc(st):
                continue
            if isinstance(st, (ast.Import, ast.ImportFrom)):
                for al in st.names:
                    if al.name == "*":
                        self.fail(st, "star import", "may rebind any module name")
                    imported[(al.asname or al.name).split(".")[0]] = st
                continue
            if isinstance(st, ast.FunctionDef):
                if st.name in funcs or st.name in bound:
                    self.fail(st, "name bound twice at module level", st.name)
                funcs[st.name] = st
                continue
            parts = self.assign_parts(st, "module level")
            if parts is None:
                self.fail(st, "module-level statement %s" % type(st).__name__)
            name, value, aug = parts
            if aug is not None:
                self.fail(st, "augmented assignment at module level", "module constants must be bound exactly once")
            if name in bound or name in funcs:
                self.fail(st, "name bound twice at module level", name)
            bound[name] = st
            uses = self.new_uses()
            text, _ = self.expr(value, {}, uses)
            lean = self.ident(name)
            self.consts[name] = {"py": name, "lean": lean, "uses": uses, "body": text,
                                 "doc": "`%s`" % ast.unparse(st)}
            self.const_order.append(name)
        for name, st in imported.items():
            if name in bound or name in funcs:
                self.fail(st, "import rebinding a module-level name", name)
        for c in CONSTANTS:
            if c not in self.consts:
                raise Unsupported("%s: module constant %s is not defined by a translated assignment" % (self.fname, c))
        for f in funcs.values():
            for sub in ast.walk(f):
                if isinstance(sub, (ast.Global, ast.Nonlocal)):
                    self.fail(sub, type(sub).__name__.lower() + " statement", "could rebind a module constant")
        for py in TARGETS:
            if py not in funcs:
                raise Unsupported("%s: function %s not found at module level" % (self.fname, py))
        self.funcs = {py: self.function(funcs[py], *TARGETS[py]) for py in TARGETS}

    # ------------------------------------------------------------------ functions
    def function(self, fn, lean_name, canon):
        if fn.decorator_list:
            self.fail(fn.decorator_list[0], "decorator on %s" % fn.name)
        a = fn.args
        if a.vararg or a.kwarg:
            self.fail(a.vararg or a.kwarg, "*args / **kwargs parameter")
        if a.posonlyargs:
            self.fail(a.posonlyargs[0], "positional-only parameter")
        params, defaults = [], {}
        pos_defaults = [None] * (len(a.args) - len(a.defaults)) + list(a.defaults)
        for arg, d in list(zip(a.args, pos_defaults)) + list(zip(a.kwonlyargs, a.kw_defaults)):
            params.append(arg.arg)
            if d is not None:
                defaults[arg.arg] = d
        if sorted(params) != sorted(canon):
            raise Unsupported("%s:%d: signature of %s changed: documented keyword parameters %s, found %s"
                              % (self.fname, fn.lineno, fn.name, canon, params))
        for p in params:
            if p in self.consts:
                pass    # a parameter may shadow a module constant inside the body; defaults are evaluated outside
        # defaults are evaluated once, in module scope
        ddefs = []
        for p in canon:
            if p in defaults:
                uses = self.new_uses()
                text, _ = self.expr(defaults[p], {}, uses)
                ddefs.append({"lean": "%s.default_%s" % (lean_name, p), "param": p, "uses": uses, "body": text,
                              "doc": "default of `%s(%s=%s)`" % (fn.name, p, ast.unparse(defaults[p]))})
        body = list(fn.body)
        if body and self.is_doc(body[0]):
            body = body[1:]
        if not body or not isinstance(body[-1], ast.Return) or body[-1].value is None:
            self.fail(body[-1] if body else fn, "function body", "must end in exactly one `return <expr>`")
        assigned = set()
        for st in body[:-1]:
            parts = self.assign_parts(st, "function body")
            if parts is None:
                self.fail(st, "statement %s in %s" % (type(st).__name__, fn.name),
                          "only assignments of arithmetic expressions before the final return")
            assigned.add(parts[0])
        for sub in ast.walk(fn):
            if isinstance(sub, ast.Return) and sub is not body[-1]:
                self.fail(sub, "second return")
        scope = {p: self.ident(p) for p in params}
        for nme in assigned:
            if nme not in scope:
                scope[nme] = None           # local, unassigned so far
        uses = self.new_uses()
        lines = []
        for st in body[:-1]:
            name, value, aug = self.assign_parts(st, "function body")
            if aug is not None:
                value = ast.BinOp(left=ast.Name(id=name, ctx=ast.Load(), lineno=st.lineno, col_offset=st.col_offset),
                                  op=aug, right=value, lineno=st.lineno, col_offset=st.col_offset,
                                  end_lineno=st.end_lineno, end_col_offset=st.end_col_offset)
            text, _ = self.expr(value, scope, uses)
            scope[name] = self.ident(name)
            lines.append("  let %s : α := %s   -- %s" % (self.ident(name), text, ast.unparse(st)))
        text, _ = self.expr(body[-1].value, scope, uses)
        lines.append("  %s   -- %s" % (text, ast.unparse(body[-1])))
        return {"py": fn.name, "lean": lean_name, "params": canon, "uses": uses, "lines": lines, "defaults": ddefs,
                "source_order": params}

    # ------------------------------------------------------------------ output
    @staticmethod
    def binders(uses):
        cls = [c for c in ["Add", "Sub", "Mul", "Div", "Neg"] if c in uses["ops"]]
        return "{α : Type} " + " ".join(["[%s α]" % c for c in cls] + ["[OfNat α %d]" % n for n in sorted(uses["lits"])])

    def render(self):
        out = ["/-",
               "  GENERATED FILE — do not edit.  Written by tools/gen_utils.py from src/sysloss/utils.py on every",
               "  run of `./check C20` (Python `ast` -> Lean).  Decimal literals are the exact rationals of their",
               "  source text; float arithmetic is read as field arithmetic.  Theorems: SysLoss/Props/C20.lean.",
               "-/",
               "namespace SysLoss",
               "namespace Gen",
               ""]
        used = set(CONSTANTS)
        for f in self.funcs.values():
            used |= f["uses"]["consts"]
            for d in f["defaults"]:
                used |= d["uses"]["consts"]
        for c in list(used):
            used |= self.consts[c]["uses"]["consts"]
        for c in self.const_order:
            if c in used:
                d = self.consts[c]
                out += ["/-- %s -/" % d["doc"],
                        "def %s %s : α := %s" % (d["lean"], self.binders(d["uses"]), d["body"]), ""]
        for py in TARGETS:
            f = self.funcs[py]
            out.append("/-- `sysloss.utils.%s(*, %s)`; parameters in the documented order -/" % (py, ", ".join(f["source_order"])))
            out.append("def %s %s (%s : α) : α :=" % (f["lean"], self.binders(f["uses"]),
                                                      " ".join(self.ident(p) for p in f["params"])))
            out += f["lines"]
            out.append("")
            for d in f["defaults"]:
                out += ["/-- %s -/" % d["doc"],
                        "def %s %s : α := %s" % (d["lean"], self.binders(d["uses"]), d["body"]), ""]
        out += ["end Gen", "end SysLoss", ""]
        return "\n".join(out)


def translate(src, fname="utils.py"):
    try:
        tree = ast.parse(src, filename=fname)
    except SyntaxError as e:
        raise Unsupported("%s: does not parse: %s" % (fname, e))
    t = Translator(src, fname)
    t.module(tree)
    return t.render()


def generate(src_path=None, out_path=None):
    """-> (ok, message); writes out_path only on success and only when the text changed"""
    src_path = src_path or os.environ.get("VERIF_UTILS_PY") or DEFAULT_SRC
    out_path = out_path or DEFAULT_OUT
    try:
        src = open(src_path, encoding="utf-8").read()
    except OSError as e:
        return False, "gen_utils: cannot read %s: %s" % (src_path, e)
    try:
        text = translate(src, os.path.basename(src_path))
    except Unsupported as e:
        return False, "gen_utils: %s" % e
    old = None
    if os.path.exists(out_path):
        old = open(out_path, encoding="utf-8").read()
    if old != text:
        os.makedirs(os.path.dirname(out_path), exist_ok=True)
        tmp = out_path + ".tmp%d" % os.getpid()
        with open(tmp, "w", encoding="utf-8") as f:
            f.write(text)
        os.replace(tmp, out_path)
        return True, "gen_utils: wrote %s" % out_path
    return True, "gen_utils: %s up to date" % out_path


def main():
    ap = argparse.ArgumentParser()
    ap.add_argument("--src")
    ap.add_argument("--out")
    ap.add_argument("--stdout", action="store_true")
    a = ap.parse_args()
    if a.stdout:
        path = a.src or os.environ.get("VERIF_UTILS_PY") or DEFAULT_SRC
        try:
            sys.stdout.write(translate(open(path, encoding="utf-8").read(), os.path.basename(path)))
        except (Unsupported, OSError) as e:
            sys.stderr.write("gen_utils: %s\n" % e)
            sys.exit(3)
        return
    ok, msg = generate(a.src, a.out)
    (sys.stdout if ok else sys.stderr).write(msg + "\n")
    sys.exit(0 if ok else 3)


if __name__ == "__main__":
    main()
