#!/usr/bin/env python3
"""tools/mutants.py --n 60 [--seed 1] [--files components.py,system.py,diagram.py] [-j 4] [--out mutants/run1.json]

Systematic complement to the hand-seeded changes: small syntactic mutations of /repo/src/sysloss (comparison / arithmetic /
boolean operator swaps, dropped abs(), tweaked constants, swapped subscripts), each applied to a scratch COPY of the package
under /tmp (never to /repo).  A mutant that the repository's own 91 tests kill is discarded; the survivors — changes that
"still compile and pass the existing tests" — are run against the registered checks (scratch mode, nothing is written into
/verif).  The output lists, per survivor, the first check that reports a VIOLATION, or `undetected`.
Undetected survivors are either equivalent mutants (no observable behaviour changes) or gaps of the checks; they are the
work list for strengthening generators and oracles.  This is a measurement tool for the developer, not a registered check."""
import argparse, ast, json, os, random, shutil, subprocess, sys, tempfile, concurrent.futures as cf

VERIF = os.path.dirname(os.path.dirname(os.path.abspath(__file__)))
SRC = "/repo/src/sysloss"
ALL = ["C%02d" % k for k in range(1, 21)]

CMP = {ast.Lt: "<=", ast.LtE: "<", ast.Gt: ">=", ast.GtE: ">", ast.Eq: "!=", ast.NotEq: "=="}
CMPSRC = {ast.Lt: "<", ast.LtE: "<=", ast.Gt: ">", ast.GtE: ">=", ast.Eq: "==", ast.NotEq: "!="}
BIN = {ast.Add: ("+", "-"), ast.Sub: ("-", "+"), ast.Mult: ("*", "/"), ast.Div: ("/", "*")}


def sites(path):
    """list of (lineno, col, end_col, old_text, new_text, kind, function)"""
    src = open(path, newline="").read()
    lines = src.split("\n")
    tree = ast.parse(src)
    out = []
    func = {}
    for n in ast.walk(tree):
        if isinstance(n, (ast.FunctionDef,)):
            for ln in range(n.lineno, n.end_lineno + 1):
                func[ln] = n.name
    docs = set()
    for n in ast.walk(tree):
        if isinstance(n, (ast.FunctionDef, ast.ClassDef, ast.Module)):
            b = n.body
            if b and isinstance(b[0], ast.Expr) and isinstance(getattr(b[0], "value", None), ast.Constant) and isinstance(b[0].value.value, str):
                docs.update(range(b[0].lineno, b[0].end_lineno + 1))

    def seg(node):
        if node.lineno != node.end_lineno:
            return None
        return lines[node.lineno - 1][node.col_offset:node.end_col_offset]

    def between(a, b):
        """operator text between two sibling expressions on one line"""
        if a.end_lineno != b.lineno:
            return None
        return a.end_lineno, a.end_col_offset, b.col_offset, lines[a.end_lineno - 1][a.end_col_offset:b.col_offset]

    for n in ast.walk(tree):
        ln = getattr(n, "lineno", None)
        if ln is None or ln in docs:
            continue
        f = func.get(ln, "<module>")
        if isinstance(n, ast.Compare) and len(n.ops) == 1 and type(n.ops[0]) in CMP:
            bt = between(n.left, n.comparators[0])
            if bt and CMPSRC[type(n.ops[0])] in bt[3]:
                new = bt[3].replace(CMPSRC[type(n.ops[0])], CMP[type(n.ops[0])], 1)
                out.append((bt[0], bt[1], bt[2], bt[3], new, "cmp", f))
        elif isinstance(n, ast.BinOp) and type(n.op) in BIN:
            bt = between(n.left, n.right)
            o, r = BIN[type(n.op)]
            if bt and bt[3].strip() == o:
                out.append((bt[0], bt[1], bt[2], bt[3], bt[3].replace(o, r, 1), "arith", f))
        elif isinstance(n, ast.BoolOp) and len(n.values) == 2:
            bt = between(n.values[0], n.values[1])
            o, r = ("and", "or") if isinstance(n.op, ast.And) else ("or", "and")
            if bt and bt[3].strip() == o:
                out.append((bt[0], bt[1], bt[2], bt[3], bt[3].replace(o, r, 1), "bool", f))
        elif isinstance(n, ast.Call) and isinstance(n.func, ast.Name) and n.func.id == "abs" and len(n.args) == 1:
            s, a = seg(n), seg(n.args[0])
            if s and a:
                out.append((n.lineno, n.col_offset, n.end_col_offset, s, "(" + a + ")", "abs", f))
        elif isinstance(n, ast.UnaryOp) and isinstance(n.op, ast.Not):
            s, a = seg(n), seg(n.operand)
            if s and a:
                out.append((n.lineno, n.col_offset, n.end_col_offset, s, "(" + a + ")", "not", f))
        elif isinstance(n, ast.Constant) and isinstance(n.value, (int, float)) and not isinstance(n.value, bool):
            s = seg(n)
            if s is None:
                continue
            v = n.value
            new = {0: "1", 1: "2", 2: "1", -1: "0", 100: "10", 24: "12", 3600: "60"}.get(v) if isinstance(v, int) else \
                ("1.0" if v == 0.0 else "0.0" if v == 1.0 else repr(v * 2))
            if new is not None and new != s:
                out.append((n.lineno, n.col_offset, n.end_col_offset, s, new, "const", f))
        elif isinstance(n, ast.Subscript) and isinstance(n.slice, ast.Constant) and n.slice.value in (0, 1) and isinstance(n.ctx, ast.Load):
            s = seg(n.slice)
            if s:
                out.append((n.slice.lineno, n.slice.col_offset, n.slice.end_col_offset, s, "1" if n.slice.value == 0 else "0", "index", f))
    return src, lines, out


def apply(lines, site):
    ln, c0, c1, old, new = site[:5]
    L = list(lines)
    assert L[ln - 1][c0:c1] == old, (L[ln - 1][c0:c1], old)
    L[ln - 1] = L[ln - 1][:c0] + new + L[ln - 1][c1:]
    return "\n".join(L)


def order_for(fname, func):
    if fname == "utils.py":
        return ["C20"]
    if fname == "diagram.py":
        return ["C19", "C17", "C16"]
    if fname == "components.py":
        if "from_file" in func or "cparams" in func:
            return ["C13", "C12"]
        if "__init__" in func or "check_interp" in func or "limits" in func:
            return ["C11", "C10", "C13", "C12", "C09", "C01", "C02"]
        if "interp" in func:
            return ["C10", "C01", "C02", "C11"]
        if "warn" in func:
            return ["C09", "C08", "C07"]
        return ["C01", "C02", "C03", "C04", "C05", "C06", "C09", "C10", "C11", "C07", "C08"]
    m = {"add_comp": ["C14", "C15", "C16", "C12"], "add_source": ["C14", "C15", "C16"], "change_comp": ["C14", "C15", "C16", "C06"],
         "del_comp": ["C14", "C15", "C16"], "_chk": ["C14", "C15"], "_get_index": ["C14", "C15", "C18"], "from_file": ["C12"], "save": ["C12", "C16"],
         "batt_life": ["C18", "C17"], "rail_rep": ["C08"], "phases": ["C16", "C06", "C12"], "params": ["C16", "C11", "C12"], "limits": ["C16", "C12"],
         "_pars_and_limits": ["C16", "C11", "C12"], "tree": ["C14", "C16"], "plot_interp": ["C17"],
         "set_sys_phases": ["C15", "C06", "C16"], "set_comp_phases": ["C15", "C06", "C16"]}
    for k, v in m.items():
        if func.startswith(k) or func == k:
            return v
    return ["C01", "C02", "C03", "C04", "C05", "C06", "C07", "C08", "C09", "C16", "C17", "C18", "C12"]


def run_mutant(k, fname, site, text, all_checks):
    d = tempfile.mkdtemp(prefix="mut.%d." % k, dir="/tmp")
    res = {"k": k, "file": fname, "line": site[0], "func": site[6], "kind": site[5], "old": site[3], "new": site[4]}
    try:
        shutil.copytree("/repo/src", os.path.join(d, "src"))
        shutil.copytree("/repo/tests", os.path.join(d, "tests"))          # pyproject sets pythonpath = "src" relative to the rootdir,
        shutil.copy("/repo/pyproject.toml", os.path.join(d, "pyproject.toml"))   # so the tests must run inside the copy
        with open(os.path.join(d, "src/sysloss", fname), "w", newline="") as f:
            f.write(text)
        env = dict(os.environ, PYTHONPATH=os.path.join(d, "src"), PYTHONDONTWRITEBYTECODE="1")
        p = subprocess.run(["/venv/bin/python", "-m", "pytest", "-x", "-q", "-p", "no:cacheprovider", "--timeout=300"], cwd=d, env=env,
                           stdout=subprocess.PIPE, stderr=subprocess.STDOUT, text=True, timeout=900)
        tail = p.stdout.strip().splitlines()[-1] if p.stdout.strip() else ""
        if p.returncode != 0:
            res["tests"] = "killed"
            return res
        res["tests"] = "survived"
        first = order_for(fname, site[6])
        todo = first + ([c for c in ALL if c not in first] if all_checks else [])
        res["checked"] = []
        for c in todo:
            env2 = dict(env, VERIF_SCRATCH_DIR=os.path.join(d, "scratch"), VERIF_UTILS_PY=os.path.join(d, "src/sysloss/utils.py"))
            try:
                q = subprocess.run(["./check", c], cwd=VERIF, env=env2, stdout=subprocess.PIPE, stderr=subprocess.STDOUT, text=True, timeout=1500)
            except subprocess.TimeoutExpired:
                res["checked"].append([c, "timeout"])
                continue
            viol = [l for l in q.stdout.splitlines() if l.startswith("VIOLATION")]
            if viol:
                res["detected_by"] = c
                res["how"] = "no-failing-input-found" if all("no-failing-input-found" in l for l in viol) else "failing input"
                return res
            res["checked"].append([c, "clean" if q.returncode == 0 else "rc%d" % q.returncode])
        res["detected_by"] = None
        return res
    except Exception as e:        # noqa
        res["error"] = repr(e)
        return res
    finally:
        shutil.rmtree(d, ignore_errors=True)


def main():
    ap = argparse.ArgumentParser()
    ap.add_argument("--n", type=int, default=40); ap.add_argument("--seed", type=int, default=1)
    ap.add_argument("--files", default="components.py,system.py,diagram.py")
    ap.add_argument("-j", type=int, default=4); ap.add_argument("--out", default=None)
    ap.add_argument("--all-checks", action="store_true", help="after the likely checks try every other check too")
    ap.add_argument("--list", action="store_true")
    a = ap.parse_args()
    rng = random.Random(a.seed)
    pool = []
    for fn in a.files.split(","):
        src, lines, ss = sites(os.path.join(SRC, fn))
        for s in ss:
            pool.append((fn, lines, s))
    if a.list:
        import collections
        print(len(pool), collections.Counter(s[5] for _, _, s in pool))
        return
    rng.shuffle(pool)
    pick = pool[:a.n]
    results = []
    with cf.ThreadPoolExecutor(a.j) as ex:
        futs = [ex.submit(run_mutant, k, fn, s, apply(lines, s), a.all_checks) for k, (fn, lines, s) in enumerate(pick)]
        for fu in cf.as_completed(futs):
            r = fu.result()
            results.append(r)
            print(json.dumps(r), flush=True)
    surv = [r for r in results if r.get("tests") == "survived"]
    det = [r for r in surv if r.get("detected_by")]
    print("mutants %d, killed by the repository's tests %d, survivors %d, detected by a check %d, undetected %d" %
          (len(results), sum(1 for r in results if r.get("tests") == "killed"), len(surv), len(det), len(surv) - len(det)))
    if a.out:
        os.makedirs(os.path.dirname(os.path.abspath(a.out)), exist_ok=True)
        json.dump({"seed": a.seed, "n": a.n, "files": a.files, "results": sorted(results, key=lambda r: r["k"])}, open(a.out, "w"), indent=1)


if __name__ == "__main__":
    main()
