#!/usr/bin/env python3
"""tools/seedmatrix.py [--ids C14-A,C15-B | --all] [--checks own|all|C01,C02] [-j 8] [--write]

Runs the registered checks against seeded changes (seeded/<id>/patch.diff).  Each change is applied in its own
scratch worktree of /repo under /tmp (removed afterwards; /repo itself is never touched) and the checks are run
with PYTHONPATH=<worktree>/src and VERIF_SCRATCH_DIR set, so no evidence / replay files of /verif are written.
Prints one line per (change, check): clean | VIOLATION | VIOLATION(no-failing-input-found) | infra.
--write records the result in seeded/<id>/meta.json ("caught_by") and prints the DESIGN.md section-14 table."""
import argparse, json, os, subprocess, sys, tempfile, shutil, concurrent.futures as cf

VERIF = os.path.dirname(os.path.dirname(os.path.abspath(__file__)))
SEEDED = os.path.join(VERIF, "seeded")
ALL = ["C%02d" % k for k in range(1, 21)]


def sh(cmd, **kw):
    return subprocess.run(cmd, stdout=subprocess.PIPE, stderr=subprocess.STDOUT, text=True, **kw)


def run_check(wt, scratch, chk, seed="0", tier="quick"):
    env = dict(os.environ, PYTHONPATH=os.path.join(wt, "src"), VERIF_SCRATCH_DIR=scratch, VERIF_SEED=seed,
               VERIF_UTILS_PY=os.path.join(wt, "src/sysloss/utils.py"))
    try:
        p = sh(["./check", chk, "--tier", tier], cwd=VERIF, env=env, timeout=1500)
    except subprocess.TimeoutExpired:
        return "timeout"
    viol = [l for l in p.stdout.splitlines() if l.startswith("VIOLATION")]
    if p.returncode == 0 and not viol:
        return "clean"
    if p.returncode == 1 and viol:
        return "VIOLATION(no-failing-input-found)" if all("no-failing-input-found" in l for l in viol) else "VIOLATION"
    return "infra(rc=%d)" % p.returncode


def one(sid, checks, seed, tier):
    d = os.path.join(SEEDED, sid)
    meta = json.load(open(os.path.join(d, "meta.json")))
    wt = tempfile.mkdtemp(prefix="seedmx.%s." % sid, dir="/tmp")
    os.rmdir(wt)
    scratch = tempfile.mkdtemp(prefix="seedmx.out.", dir="/tmp")
    res = {}
    try:
        r = sh(["git", "-C", "/repo", "worktree", "add", "-q", "--detach", wt, "HEAD"])
        if r.returncode:
            return sid, {"*": "worktree failed: " + r.stdout[-200:]}
        r = sh(["git", "apply", os.path.join(d, "patch.diff")], cwd=wt)
        if r.returncode:
            return sid, {"*": "patch does not apply: " + r.stdout[-200:]}
        own = meta["property"]
        todo = [own] if checks == "own" else (ALL if checks == "all" else checks.split(","))
        for c in todo:
            res[c] = run_check(wt, scratch, c, seed, tier)
    finally:
        sh(["git", "-C", "/repo", "worktree", "remove", "--force", wt])
        shutil.rmtree(wt, ignore_errors=True)
        shutil.rmtree(scratch, ignore_errors=True)
    return sid, res


def main():
    ap = argparse.ArgumentParser()
    ap.add_argument("--ids"); ap.add_argument("--all", action="store_true")
    ap.add_argument("--checks", default="own"); ap.add_argument("-j", type=int, default=8)
    ap.add_argument("--seed", default="0"); ap.add_argument("--tier", default="quick")
    ap.add_argument("--write", action="store_true")
    a = ap.parse_args()
    ids = sorted(os.listdir(SEEDED)) if a.all or not a.ids else a.ids.split(",")
    ids = [i for i in ids if os.path.isdir(os.path.join(SEEDED, i))]
    out = {}
    with cf.ThreadPoolExecutor(a.j) as ex:
        for sid, res in ex.map(lambda s: one(s, a.checks, a.seed, a.tier), ids):
            out[sid] = res
            print(sid, json.dumps(res), flush=True)
            if a.write:
                mp = os.path.join(SEEDED, sid, "meta.json")
                meta = json.load(open(mp))
                prev = meta.get("check_results", {})
                prev.update(res)
                meta["check_results"] = prev
                meta["caught_by"] = sorted(c + ("(no-failing-input-found)" if "no-failing" in v else "")
                                           for c, v in prev.items() if v.startswith("VIOLATION"))
                json.dump(meta, open(mp, "w"), indent=1)
    missed = [s for s, r in out.items() if not str(r.get(json.load(open(os.path.join(SEEDED, s, "meta.json")))["property"], "")).startswith("VIOLATION")]
    print("not reported by the owning check:", missed or "none")


if __name__ == "__main__":
    main()
