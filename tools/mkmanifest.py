#!/usr/bin/env python3
"""Regenerate MANIFEST.json from the per-property check modules (harness/props/cXX.py).
A property is claimed iff its module exists and defines CLAIM = True."""
import importlib, json, os, sys
VERIF = os.path.dirname(os.path.dirname(os.path.abspath(__file__)))
sys.path.insert(0, VERIF)
props = [json.loads(l) for l in open(os.path.join(VERIF, "properties.jsonl"))]
BASE = ("Trusted: Lean 4.33 kernel + Mathlib v4.33; axioms propext/Classical.choice/Quot.sound only (audited by #print axioms on "
        "every run; no sorry/native_decide/bv_decide/own axioms); the hand-written Lean model (lean/SysLoss/Model) and the "
        "correspondence harness that ties it to /repo's working tree through the public API on every run (differential testing, not proof); "
        "IEEE-754 rounding, numpy/scipy/pandas/rustworkx internals are modelled as parameters, not verified (DESIGN.md section 4).")
checks, na = [], []
# properties the coordinator has verified end to end (seeds 0,1,2 clean on the unchanged tree, files committed)
READY = set(open(os.path.join(VERIF, "tools", "ready.txt")).read().split())
for p in props:
    pid = p["id"]
    try:
        m = importlib.import_module("harness.props.%s" % pid.lower())
    except Exception as e:  # noqa
        m = None
    if m is None or not getattr(m, "CLAIM", False) or pid not in READY:
        na.append({"property_id": pid, "reason": getattr(m, "NA_REASON", None) or
                   "check still under construction in this framework (DESIGN.md section 11); nothing is claimed for it yet"})
        continue
    checks.append({
        "property_id": pid,
        "quick_cmd": "./check %s --tier quick" % pid,
        "thorough_cmd": "./check %s --tier thorough" % pid,
        "evidence_file": "evidence/%s.json" % pid,
        "replay_cmd_template": "./check %s --replay {path}" % pid,
        "engine": "lean-proof+correspondence",
        "level_claimed": {"category": "proof", "text": m.LEVEL_TEXT, "design_ref": "DESIGN.md section 6, %s" % pid},
        "level_note": getattr(m, "LEVEL_NOTE", "") + " " + BASE,
        "technique": getattr(m, "TECHNIQUE", "Lean 4 theorems about a hand-written executable model + checked correspondence with the implementation"),
    })
man = {
    "version": 1,
    "setup_cmd": "./setup.sh",
    "hooks": {"guard": "SYSLOSS_VERIF", "enable": "none required: every check drives the public API of the working tree in-process (editable install); no instrumentation in /repo",
              "baseline_off_cmd": "cd /repo && /venv/bin/python -m pytest -ra -q -p no:cacheprovider --timeout=900 --continue-on-collection-errors",
              "source_commits": [], "add_only": True},
    "engines": [{"name": "lean-proof+correspondence", "path": "lean/ + harness/", "serves_properties": [c["property_id"] for c in checks],
                 "kind_free_text": "Lean 4 model + theorems (lake build, #print axioms audit), compiled Mathlib-free driver exercised against the Python implementation by a differential harness"}],
    "checks": checks,
    "not_applicable": na,
    "notes": "See DESIGN.md. Exit codes: 0 held / only KNOWN-FINDING lines, 1 VIOLATION, 2 infrastructure failure (never a violation).",
}
json.dump(man, open(os.path.join(VERIF, "MANIFEST.json"), "w"), indent=1)
print("claimed:", [c["property_id"] for c in checks])
