#!/bin/bash
# tools/seedtest.sh <patch.diff> <demo.py> <check ids...>  — confirm a seeded change and run checks against it.
# Uses a scratch worktree of /repo under /tmp (removed afterwards); /repo itself is never touched.
patch=$(readlink -f "$1"); demo=$(readlink -f "$2"); shift; shift
WT=/tmp/seedrun.$$
git -C /repo worktree add -q $WT HEAD || exit 2
cd $WT
echo "--- demo on unchanged code: $(PYTHONPATH=$WT/src /venv/bin/python $demo >/dev/null 2>&1; echo exit $?)"
git apply "$patch" || { echo "patch does not apply"; git -C /repo worktree remove --force $WT; exit 2; }
echo "--- tests with change: $(PYTHONPATH=$WT/src /venv/bin/python -m pytest -q -p no:cacheprovider 2>&1 | tail -1)"
echo "--- demo with change: $(PYTHONPATH=$WT/src /venv/bin/python $demo 2>&1 | tail -2 | tr '\n' ' '; PYTHONPATH=$WT/src /venv/bin/python $demo >/dev/null 2>&1; echo exit $?)"
for c in "$@"; do
  out=$(cd /verif && VERIF_UTILS_PY=$WT/src/sysloss/utils.py PYTHONPATH=$WT/src timeout 900 ./check $c 2>&1 | grep -E "VIOLATION|infrastructure|rror" | head -2 | tr '\n' ' ')
  echo "[$c] ${out:-clean}"
done
cd /; git -C /repo worktree remove --force $WT
