#!/bin/bash
# tools/multiseed.sh "<seeds>" "<checks>" [tier] — run checks on the unchanged tree with several seeds (scratch mode: no evidence written);
# prints every run that does not exit 0 or prints a VIOLATION.  Robustness test of the checks themselves (false alarms).
seeds=${1:-"1 2 3"}; checks=${2:-"C01 C02 C03 C04 C05 C06 C07 C08 C09 C10 C11 C12 C13 C14 C15 C16 C17 C18 C19 C20"}; tier=${3:-quick}
out=$(mktemp -d /tmp/multiseed.XXXX)
run() { s=$1; c=$2; VERIF_SEED=$s VERIF_SCRATCH_DIR=$out/scratch ./check $c --tier $tier > $out/$c.$s.log 2>&1; rc=$?;
        if [ $rc -ne 0 ] || grep -q "^VIOLATION" $out/$c.$s.log; then echo "ALARM $c seed=$s rc=$rc: $(grep -E '^VIOLATION|infrastructure|Error' $out/$c.$s.log | head -2 | tr '\n' ' ')"; fi; }
export -f run; export out tier
cd "$(dirname "$0")/.."
for s in $seeds; do for c in $checks; do echo "$s $c"; done; done | xargs -P ${JOBS:-8} -L 1 bash -c 'run $0 $1'
echo "multiseed done: seeds=[$seeds] logs in $out"
