#!/bin/bash
# tools/seedadd.sh <dir with patch.diff demo.py meta.json>  — confirm a candidate seeded change in a scratch worktree
# (demo exits 0 on the unchanged code; with the patch: 91 tests pass, demo exits non-zero) and, if confirmed, copy it
# to seeded/<id>/ with a "confirmed" note.  /repo itself is never touched.
src=$(readlink -f "$1"); id=$(basename "$src")
WT=/tmp/seedadd.$$
git -C /repo worktree add -q --detach $WT HEAD || exit 2
cd $WT
PYTHONPATH=$WT/src /venv/bin/python $src/demo.py >/dev/null 2>&1; d0=$?
git apply "$src/patch.diff" || { echo "$id: patch does not apply"; cd /; git -C /repo worktree remove --force $WT; exit 2; }
tests=$(PYTHONPATH=$WT/src /venv/bin/python -m pytest -q -p no:cacheprovider 2>&1 | tail -1)
PYTHONPATH=$WT/src /venv/bin/python $src/demo.py > /tmp/seedadd.$$.out 2>&1; d1=$?
cd /; git -C /repo worktree remove --force $WT
echo "$id: demo unchanged=$d0 demo changed=$d1 tests: $tests"
if [ $d0 -eq 0 ] && [ $d1 -ne 0 ] && echo "$tests" | grep -q "^91 passed"; then
  mkdir -p /verif/seeded/$id && cp $src/patch.diff $src/demo.py /verif/seeded/$id/
  /venv/bin/python - "$src/meta.json" "/verif/seeded/$id/meta.json" "$id" <<'PY'
import json,sys
m=json.load(open(sys.argv[1])); m["id"]=sys.argv[3]
m["origin"]="fresh sub-agent given only the property text and a scratch worktree of /repo at HEAD (round K)"
m["confirmed"]="tools/seedadd.sh: scratch worktree, demo exits 0 without the patch; with it 91 tests pass and demo exits non-zero"
m.setdefault("caught_by",[])
json.dump(m,open(sys.argv[2],"w"),indent=1)
PY
  echo "$id: CONFIRMED -> seeded/$id"
else
  echo "$id: NOT confirmed"; tail -5 /tmp/seedadd.$$.out
fi
rm -f /tmp/seedadd.$$.out
