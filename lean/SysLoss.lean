-- Root of the `SysLoss` library: model, specifications, property theorems.
import SysLoss.Model.Num
import SysLoss.Model.PV
import SysLoss.Model.Interp
import SysLoss.Model.Comp
import SysLoss.Model.Warn
import SysLoss.Model.Ctor
import SysLoss.Model.Solver
import SysLoss.Model.Table
