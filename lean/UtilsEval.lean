/-
  UtilsEval — standalone evaluator of the *generated* `SysLoss.Gen.traceRes / planeRes` at `Rat` (property C20).

      cd lean && lake env lean --run UtilsEval.lean  < cases.jsonl  > answers.jsonl

  Deliberately not part of the shared driver `drv`: `SysLoss/Gen/Utils.lean` is rewritten from the Python source on
  every run of `./check C20`, and a broken generated file must never be able to break `drv`.

  One JSON object per line in, one per line out:
      {"fn": "trace_res", "args": {"w1_mm": N, "w2_mm": N, "l_mm": N, "t_mm": N [, "rho": N] [, "temp": N] [, "tcr": N]}}
      {"fn": "plane_res", "args": {"w": N, "l": N, "t_mm": N [, "rho": N] [, "temp": N] [, "tcr": N]}}
  with `N` in the exact wire format of `Driver/Wire` (`{"$f": "<IEEE bits>"}`, `{"$i": "<int>"}`).  An omitted
  optional keyword takes the generated default (`traceRes.default_rho` …), as in the Python call.
  Answer: `{"r": "num/den"}`; anything unknown, missing or malformed answers `{"bad-op": …}` — never a default value.
-/
import SysLoss.Driver.Wire
import SysLoss.Gen.Utils

open Lean SysLoss

namespace UtilsEval

def bad (msg : String) : Json := Json.mkObj [("bad-op", Json.str msg)]

/-- keyword `k` of the call: `none` when omitted, error when present but not a number -/
def kw (args : Json) (k : String) : Except String (Option Rat) :=
  match args.getObjVal? k with
  | .ok v => match (numOf v : Option Rat) with
    | some q => .ok (some q)
    | none => .error s!"argument {k} is not a wire number"
  | .error _ => .ok none

def req (args : Json) (k : String) : Except String Rat := do
  match ← kw args k with
  | some q => pure q
  | none => throw s!"missing required keyword {k}"

def opt (args : Json) (k : String) (d : Rat) : Except String Rat := do
  return (← kw args k).getD d

def onlyKeys (args : Json) (allowed : List String) : Except String Unit :=
  match args with
  | .obj kvs =>
    match kvs.toList.find? (fun (k, _) => !allowed.contains k) with
    | some (k, _) => throw s!"unexpected keyword {k}"
    | none => pure ()
  | _ => throw "args is not an object"

def eval (j : Json) : Except String Rat := do
  let args ← match j.getObjVal? "args" with
    | .ok a => pure a
    | .error _ => throw "no args"
  match j.getObjValAs? String "fn" with
  | .ok "trace_res" =>
    onlyKeys args ["w1_mm", "w2_mm", "l_mm", "t_mm", "rho", "temp", "tcr"]
    let w1 ← req args "w1_mm"; let w2 ← req args "w2_mm"; let l ← req args "l_mm"; let t ← req args "t_mm"
    let rho ← opt args "rho" Gen.traceRes.default_rho
    let temp ← opt args "temp" Gen.traceRes.default_temp
    let tcr ← opt args "tcr" Gen.traceRes.default_tcr
    return Gen.traceRes w1 w2 l t rho temp tcr
  | .ok "plane_res" =>
    onlyKeys args ["w", "l", "t_mm", "rho", "temp", "tcr"]
    let w ← req args "w"; let l ← req args "l"; let t ← req args "t_mm"
    let rho ← opt args "rho" Gen.planeRes.default_rho
    let temp ← opt args "temp" Gen.planeRes.default_temp
    let tcr ← opt args "tcr" Gen.planeRes.default_tcr
    return Gen.planeRes w l t rho temp tcr
  | .ok f => throw s!"unknown fn {f}"
  | .error _ => throw "no fn"

def answer (line : String) : Json :=
  match Json.parse line with
  | .error e => bad s!"json: {e}"
  | .ok j =>
    match eval j with
    | .ok q => Json.mkObj [("r", Wire.out q)]
    | .error e => bad e

partial def loop (inp out : IO.FS.Stream) : IO Unit := do
  let line ← inp.getLine
  if line.isEmpty then return
  let l := line.trimAscii.toString
  if !l.isEmpty then
    out.putStrLn (answer l).compress
  loop inp out

end UtilsEval

def main : IO Unit := do
  let inp ← IO.getStdin
  let out ← IO.getStdout
  UtilsEval.loop inp out
  out.flush
