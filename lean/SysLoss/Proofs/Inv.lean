/-
  Proofs/Inv — the two invariants the C14 / C15 proofs carry.

  `Sane s`  : `s` is a state a real rustworkx `PyDAG(check_cycle=True, multigraph=False)` can be in
              (distinct live indices, edges between live nodes, no parallel edges, acyclic, a consistent
              index allocator).  Preserved by every call unconditionally (`Props/C14.sane_step`).
  `WFr s`   : C14's clauses stated on the raw state (node indices instead of names); equivalent to
              `WF (abs s)` for sane states (`wf_abs_iff`).
-/
import SysLoss.Proofs.Reach
import SysLoss.Spec.Structure

set_option linter.unusedSectionVars false
set_option linter.unusedSimpArgs false
set_option linter.unusedVariables false

namespace SysLoss
section
variable {π ν : Type} [CompLike π]

structure Sane (s : Sys π ν) : Prop where
  ids_nodup : s.ids.Nodup
  edges_live : ∀ e ∈ s.edges, e.1 ∈ s.ids ∧ e.2 ∈ s.ids
  edges_nodup : s.edges.Nodup
  acyclic : ∀ a, ¬ Path s.edges a a
  free_fresh : ∀ f ∈ s.free, f ∉ s.ids
  free_nodup : s.free.Nodup
  ids_lt : ∀ n ∈ s.ids, n < s.next
  free_lt : ∀ f ∈ s.free, f < s.next
  /-- Python dict: the keys of `attrs["nodes"]` are unique -/
  nodes_nodup : (dkeys s.nodes).Nodup

namespace Sys

/-- the recorded input names `_get_parents` consults for node `n` (none unless `n` has several predecessors) -/
def consulted (s : Sys π ν) (n : Nat) : List String :=
  if 1 < (s.preds n).length then ((dget s.pnames n).getD []).take (s.preds n).length else []

def names (s : Sys π ν) : List String := s.comps.map fun p => nameOfC p.2
def railNames (s : Sys π ν) : List String := (dvals s.rails).filter fun r => decide (r ≠ "")

end Sys

/-- C14's clauses on the raw state -/
structure WFr (s : Sys π ν) : Prop where
  names_nodup : s.names.Nodup
  rails_nodup : s.railNames.Nodup
  disjoint : ∀ x ∈ s.names, x ∉ s.railNames
  roots : ∀ p ∈ s.comps, (s.preds p.1 = [] ↔ kindOfC p.2 = .source)
  multi : ∀ p ∈ s.comps, 1 < (s.preds p.1).length → kindOfC p.2 = .pmux
  one_mux : (s.comps.filter fun p => decide (kindOfC p.2 = .pmux)).length ≤ 1
  links : ∀ e ∈ s.edges, ∀ pc cc, s.payload? e.1 = some pc → s.payload? e.2 = some cc →
            (kindOfC pc).acceptsChild (kindOfC cc).ctype = true
  nodes_keys : ∀ x ∈ dkeys s.nodes, x ∈ s.names
  nodes_get : ∀ p ∈ s.comps, dget s.nodes (nameOfC p.2) = some p.1
  groups_keys : ∀ x, x ∈ dkeys s.groups ↔ x ∈ s.names
  rails_keys : ∀ x, x ∈ dkeys s.rails ↔ x ∈ s.names
  pconf_keys : ∀ x, x ∈ dkeys s.phaseConf ↔ x ∈ s.names
  inputs : ∀ p ∈ s.comps, 1 < (s.preds p.1).length →
            ∃ l, s.parentsOf p.1 = .ok l ∧ (∀ x ∈ l, ∃ q ∈ s.preds p.1, x = some q) ∧ l.Nodup

/-- the part of `WFr` that `_get_index` relies on -/
structure RegsExact (s : Sys π ν) : Prop where
  nodes_keys : ∀ x ∈ dkeys s.nodes, x ∈ s.names
  nodes_get : ∀ p ∈ s.comps, dget s.nodes (nameOfC p.2) = some p.1
  rails_keys : ∀ x, x ∈ dkeys s.rails ↔ x ∈ s.names

theorem WFr.regs {s : Sys π ν} (hw : WFr s) : RegsExact s := ⟨hw.nodes_keys, hw.nodes_get, hw.rails_keys⟩

/-! ### the graph -/

theorem ids_eq_dkeys (s : Sys π ν) : s.ids = dkeys s.comps := rfl

theorem payload?_of_mem {s : Sys π ν} (hs : Sane s) {n : Nat} {c : π} (h : (n, c) ∈ s.comps) :
    s.payload? n = some c :=
  dget_of_mem_nodup hs.ids_nodup h

theorem mem_of_payload? {s : Sys π ν} {n : Nat} {c : π} (h : s.payload? n = some c) : (n, c) ∈ s.comps :=
  dget_some_mem h

theorem mem_ids_of_payload? {s : Sys π ν} {n : Nat} {c : π} (h : s.payload? n = some c) : n ∈ s.ids :=
  dget_some_key h

theorem payload?_of_mem_ids {s : Sys π ν} {n : Nat} (h : n ∈ s.ids) : ∃ c, s.payload? n = some c :=
  dget_isSome_iff.mpr h

theorem payload?_none {s : Sys π ν} {n : Nat} (h : n ∉ s.ids) : s.payload? n = none :=
  dget_eq_none_iff.mpr h

theorem mem_ids_of_mem {s : Sys π ν} {p : Nat × π} (h : p ∈ s.comps) : p.1 ∈ s.ids :=
  List.mem_map.mpr ⟨p, h, rfl⟩

theorem mem_names_of_mem {s : Sys π ν} {p : Nat × π} (h : p ∈ s.comps) : nameOfC p.2 ∈ s.names :=
  List.mem_map.mpr ⟨p, h, rfl⟩

theorem mem_names {s : Sys π ν} {x : String} : x ∈ s.names ↔ ∃ p ∈ s.comps, nameOfC p.2 = x := by
  simp [Sys.names]

theorem mem_preds {s : Sys π ν} {n q : Nat} : q ∈ s.preds n ↔ (q, n) ∈ s.edges := by
  unfold Sys.preds
  simp only [List.mem_map, List.mem_filter, decide_eq_true_eq]
  constructor
  · rintro ⟨⟨a, b⟩, ⟨h1, h2⟩, h3⟩; simp only at h2 h3; subst h2 h3; exact h1
  · intro h; exact ⟨(q, n), ⟨h, rfl⟩, rfl⟩

theorem mem_succs {s : Sys π ν} {n c : Nat} : c ∈ s.succs n ↔ (n, c) ∈ s.edges := by
  unfold Sys.succs
  simp only [List.mem_map, List.mem_filter, decide_eq_true_eq]
  constructor
  · rintro ⟨⟨a, b⟩, ⟨h1, h2⟩, h3⟩; simp only at h2 h3; subst h2 h3; exact h1
  · intro h; exact ⟨(n, c), ⟨h, rfl⟩, rfl⟩

/-- injectivity of names on live nodes -/
theorem name_inj {s : Sys π ν} (hn : s.names.Nodup) {p q : Nat × π} (hp : p ∈ s.comps) (hq : q ∈ s.comps)
    (h : nameOfC p.2 = nameOfC q.2) : p = q := by
  unfold Sys.names at hn
  exact inj_of_nodup_map hn hp hq h

/-! ### `_get_index` on a state with exact registries -/

theorem getIndex_name {s : Sys π ν} (hw : WFr s) {p : Nat × π} (hp : p ∈ s.comps) :
    s.getIndex (nameOfC p.2) = .ok (some p.1) := by
  unfold Sys.getIndex; rw [hw.nodes_get p hp]

/-- the node a registered name stands for -/
theorem nodes_get_live' {s : Sys π ν} (hw : RegsExact s) {x : String} {n : Nat} (h : dget s.nodes x = some n) :
    ∃ p ∈ s.comps, nameOfC p.2 = x ∧ p.1 = n := by
  obtain ⟨p, hp, hx⟩ := mem_names.mp (hw.nodes_keys x (dget_some_key h))
  have := hw.nodes_get p hp
  rw [hx, h] at this
  exact ⟨p, hp, hx, (Option.some.inj this).symm⟩

theorem nodes_get_live {s : Sys π ν} (hw : WFr s) {x : String} {n : Nat} (h : dget s.nodes x = some n) :
    ∃ p ∈ s.comps, nameOfC p.2 = x ∧ p.1 = n := nodes_get_live' hw.regs h

theorem railOwner_some {s : Sys π ν} {r o : String} (h : s.railOwner r = some o) : (o, r) ∈ s.rails := by
  unfold Sys.railOwner at h
  cases hf : s.rails.find? (fun p => decide (p.2 = r)) with
  | none => simp [hf] at h
  | some p =>
    simp only [hf, Option.map_some, Option.some.injEq] at h
    have h1 := List.mem_of_find?_eq_some hf
    have h2 := List.find?_some hf
    simp only [decide_eq_true_eq] at h2
    rw [← h, ← h2]; exact h1

theorem railOwner_none {s : Sys π ν} {r : String} (h : s.railOwner r = none) : r ∉ dvals s.rails := by
  unfold Sys.railOwner at h
  simp only [Option.map_eq_none_iff, List.find?_eq_none, decide_eq_true_eq] at h
  intro hm
  obtain ⟨k, hk⟩ := mem_dvals.mp hm
  exact h (k, r) hk rfl

theorem railOwner_isSome {s : Sys π ν} {r : String} (h : r ∈ dvals s.rails) : ∃ o, s.railOwner r = some o := by
  cases ho : s.railOwner r with
  | none => exact absurd h (railOwner_none ho)
  | some o => exact ⟨o, rfl⟩

/-- with exact registries `_get_index` never raises, and what it returns is a live node -/
theorem getIndex_ok' {s : Sys π ν} (hw : RegsExact s) (x : String) : ∃ r, s.getIndex x = .ok r := by
  unfold Sys.getIndex
  cases h1 : dget s.nodes x with
  | some i => exact ⟨_, rfl⟩
  | none =>
    by_cases hx0 : x = ""
    · exact ⟨none, by simp [hx0]⟩
    · cases h2 : s.railOwner x with
      | none => exact ⟨none, by simp [hx0]⟩
      | some o =>
        have ho : o ∈ dkeys s.rails := mem_dkeys.mpr ⟨x, railOwner_some h2⟩
        obtain ⟨p, hp, hx⟩ := mem_names.mp ((hw.rails_keys o).mp ho)
        have := hw.nodes_get p hp
        rw [hx] at this
        exact ⟨some p.1, by simp [hx0, this]⟩

theorem getIndex_ok {s : Sys π ν} (hw : WFr s) (x : String) : ∃ r, s.getIndex x = .ok r :=
  getIndex_ok' hw.regs x

theorem getIndex_live {s : Sys π ν} (hw : WFr s) {x : String} {n : Nat} (h : s.getIndex x = .ok (some n)) :
    n ∈ s.ids := by
  unfold Sys.getIndex at h
  cases h1 : dget s.nodes x with
  | some i =>
    simp only [h1, Except.ok.injEq, Option.some.injEq] at h
    obtain ⟨p, hp, _, hn⟩ := nodes_get_live hw h1
    rw [← h, ← hn]; exact mem_ids_of_mem hp
  | none =>
    simp only [h1] at h
    by_cases hx0 : x = ""
    · simp [hx0] at h
    · simp only [hx0, if_false] at h
      cases h2 : s.railOwner x with
      | none => simp [h2] at h
      | some o =>
        simp only [h2] at h
        cases h3 : dget s.nodes o with
        | none => simp [h3] at h
        | some i =>
          simp only [h3, Except.ok.injEq, Option.some.injEq] at h
          obtain ⟨p, hp, _, hn⟩ := nodes_get_live hw h3
          rw [← h, ← hn]; exact mem_ids_of_mem hp

/-- `_chk_parent` passes exactly when `_get_index` finds something -/
theorem chkParent_iff {s : Sys π ν} (hw : WFr s) (x : String) :
    s.chkParent x = true ↔ ∃ n, s.getIndex x = .ok (some n) := by
  unfold Sys.chkParent Sys.getIndex
  simp only [Bool.or_eq_true, Bool.and_eq_true, decide_eq_true_eq]
  cases h1 : dget s.nodes x with
  | some i => simp [dget_some_key h1]
  | none =>
    have hk : x ∉ dkeys s.nodes := dget_eq_none_iff.mp h1
    by_cases hx0 : x = ""
    · subst hx0; simp [hk]
    · cases h2 : s.railOwner x with
      | none => simp [hk, hx0, railOwner_none h2]
      | some o =>
        have hv : x ∈ dvals s.rails := mem_dvals.mpr ⟨o, railOwner_some h2⟩
        have ho : o ∈ dkeys s.rails := mem_dkeys.mpr ⟨x, railOwner_some h2⟩
        obtain ⟨p, hp, hx⟩ := mem_names.mp ((hw.rails_keys o).mp ho)
        have := hw.nodes_get p hp
        rw [hx] at this
        simp [hk, hv, hx0, this]

theorem names_eq_nodes_keys {s : Sys π ν} (hw : WFr s) (x : String) : x ∈ dkeys s.nodes ↔ x ∈ s.names := by
  constructor
  · exact hw.nodes_keys x
  · intro h
    obtain ⟨p, hp, hx⟩ := mem_names.mp h
    exact hx ▸ dget_some_key (hw.nodes_get p hp)

end
end SysLoss
