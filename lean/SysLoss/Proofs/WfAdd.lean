/-
  Proofs/WfAdd — `add_source` and `add_comp` preserve well-formedness (no `Safe` condition needed).
-/
import SysLoss.Proofs.WfBasic

set_option linter.unusedSectionVars false
set_option linter.unusedSimpArgs false
set_option linter.unusedVariables false

namespace SysLoss
section
variable {π ν : Type} [CompLike π]

theorem payload?_append {s s' : Sys π ν} {i : Nat} {c : π} (hcomps : s'.comps = s.comps ++ [(i, c)])
    (hi : i ∉ s.ids) (n : Nat) : s'.payload? n = if n = i then some c else s.payload? n := by
  unfold Sys.payload?
  rw [hcomps]
  by_cases hn : n ∈ s.ids
  · have : n ≠ i := fun e => hi (e ▸ hn)
    rw [dget_append_of_mem hn]; simp [this]
  · rw [dget_append_of_not_mem hn]
    by_cases h : n = i
    · subst h; simp [dget]
    · have : ¬ i = n := fun e => h e.symm
      simp [dget, h, this, dget_eq_none_iff.mpr hn]

theorem preds_append_old {s s' : Sys π ν} {i n : Nat} {X : List (Nat × Nat)} (hedges : s'.edges = s.edges ++ X)
    (hX : ∀ e ∈ X, e.2 = i) (hn : n ≠ i) : s'.preds n = s.preds n := by
  unfold Sys.preds
  rw [hedges, List.filter_append]
  have : X.filter (fun e => decide (e.2 = n)) = [] := by
    apply List.filter_eq_nil_iff.mpr
    intro e he
    simp only [decide_eq_true_eq]
    intro h; exact hn (h.symm.trans (hX e he))
  simp [this]

theorem preds_append_new {s s' : Sys π ν} (hs : Sane s) {i : Nat} {X : List (Nat × Nat)}
    (hedges : s'.edges = s.edges ++ X) (hX : ∀ e ∈ X, e.2 = i) (hi : i ∉ s.ids) : s'.preds i = X.map (·.1) := by
  unfold Sys.preds
  rw [hedges, List.filter_append]
  have h1 : s.edges.filter (fun e => decide (e.2 = i)) = [] := by
    apply List.filter_eq_nil_iff.mpr
    intro e he
    simp only [decide_eq_true_eq]
    intro h; exact hi (h ▸ (hs.edges_live e he).2)
  have h2 : X.filter (fun e => decide (e.2 = i)) = X := by
    apply List.filter_eq_self.mpr
    intro e he; simpa using hX e he
  simp [h1, h2]

/-- inserting one new node below already live ones -/
theorem wfr_insert {s s' : Sys π ν} (hs : Sane s) (hs' : Sane s') (hw : WFr s)
    {i : Nat} {c : π} {pidx : List Nat} {plist : List String} {rail : String} {X : List (Nat × Nat)}
    (hcomps : s'.comps = s.comps ++ [(i, c)]) (hi : i ∉ s.ids)
    (hedges : s'.edges = s.edges ++ X) (hX : ∀ e ∈ X, e.2 = i ∧ e.1 ∈ pidx) (hX' : ∀ p ∈ pidx, (p, i) ∈ X)
    (hnodes : s'.nodes = s.nodes ++ [(nameOfC c, i)])
    (hpc : dkeys s'.phaseConf = dkeys s.phaseConf ++ [nameOfC c])
    (hgr : dkeys s'.groups = dkeys s.groups ++ [nameOfC c])
    (hrails : s'.rails = s.rails ++ [(nameOfC c, rail)])
    (hpn : s'.pnames = dset s.pnames i plist)
    (hn1 : nameOfC c ∉ dkeys s.nodes) (hn2 : nameOfC c ∉ dvals s.rails)
    (hrail : rail = "" ∨ (rail ≠ nameOfC c ∧ rail ∉ dkeys s.nodes ∧ rail ∉ dvals s.rails))
    (hlive : ∀ p ∈ pidx, p ∈ s.ids)
    (hacc : ∀ p ∈ pidx, ∀ pc, s.payload? p = some pc → (kindOfC pc).acceptsChild (kindOfC c).ctype = true)
    (hroot : pidx = [] ↔ kindOfC c = .source)
    (hmulti : 1 < pidx.length → kindOfC c = .pmux)
    (hmux : kindOfC c = .pmux → ∀ p ∈ s.comps, kindOfC p.2 ≠ .pmux)
    (hres : s.resolveAll plist = .ok (pidx.map some)) (hpnd : pidx.Nodup) : WFr s' := by
  rw [resolveAll_eq] at hres
  have hlen : pidx.length = plist.length := by simpa using resolveList_length hres
  have hnames : s'.names = s.names ++ [nameOfC c] := by simp [Sys.names, hcomps]
  have hcn : nameOfC c ∉ s.names := fun h => hn1 ((names_eq_nodes_keys hw _).mpr h)
  have hmem : ∀ p, p ∈ s'.comps ↔ p ∈ s.comps ∨ p = (i, c) := by intro p; simp [hcomps]
  have hold : ∀ p ∈ s.comps, p.1 ≠ i := fun p hp e => hi (e ▸ mem_ids_of_mem hp)
  have hXi : ∀ e ∈ X, e.2 = i := fun e he => (hX e he).1
  have hpreds_i := preds_append_new hs hedges hXi hi
  have hlenX : (X.map (·.1)).length ≤ pidx.length := by
    apply List.Nodup.length_le_of_subset
    · rw [← hpreds_i]; exact preds_nodup hs' i
    · intro q hq
      obtain ⟨e, he, rfl⟩ := List.mem_map.mp hq
      exact (hX e he).2
  have hrn : s'.railNames = s.railNames ++ (if rail ≠ "" then [rail] else []) := by
    simp only [Sys.railNames, hrails, dvals_append, List.filter_append, dvals_cons, dvals_nil]
    congr 1
    by_cases h : rail = "" <;> simp [List.filter_cons, h]
  -- resolution of names that resolved before is unchanged
  have hstable : ∀ x q, s.getIndex x = .ok (some q) → s'.getIndex x = .ok (some q) := by
    intro x q hx
    rw [getIndex_eq_resolve] at hx ⊢
    rw [hnodes, hrails]
    apply resolve_append _ _ _ hx
    intro hnone e
    rcases resolve_some hx with h1 | ⟨_, _, o, h2, _⟩
    · rw [hnone] at h1; simp at h1
    · have : (o, x) ∈ s.rails := List.mem_of_find?_eq_some h2
      exact hn2 (e ▸ mem_dvals.mpr ⟨o, this⟩)
  constructor
  · -- names_nodup
    rw [hnames]
    apply List.nodup_append.mpr
    refine ⟨hw.names_nodup, by simp, ?_⟩
    intro a ha b hb
    simp at hb; subst hb
    exact fun e => hcn (e ▸ ha)
  · -- rails_nodup
    rw [hrn]
    split
    · next hr =>
      rcases hrail with h | ⟨_, _, h⟩
      · exact absurd h hr
      · apply List.nodup_append.mpr
        refine ⟨hw.rails_nodup, by simp, ?_⟩
        intro a ha b hb
        simp at hb; subst hb
        intro e; subst e
        exact h (List.mem_filter.mp ha).1
    · simpa using hw.rails_nodup
  · -- disjoint
    intro x hx
    rw [hnames] at hx
    rw [hrn]
    simp only [List.mem_append, not_or]
    rcases List.mem_append.mp hx with hx | hx
    · refine ⟨hw.disjoint x hx, ?_⟩
      split
      · next hr =>
        rcases hrail with h | ⟨_, h, _⟩
        · exact absurd h hr
        · simp only [List.mem_singleton]
          intro e; exact h (e ▸ (names_eq_nodes_keys hw x).mpr hx)
      · simp
    · simp only [List.mem_singleton] at hx; subst hx
      refine ⟨fun h => hn2 (List.mem_filter.mp h).1, ?_⟩
      split
      · next hr =>
        rcases hrail with h | ⟨h, _, _⟩
        · exact absurd h hr
        · simp only [List.mem_singleton]; exact fun e => h e.symm
      · simp
  · -- roots
    intro p hp
    rcases (hmem p).mp hp with hp | rfl
    · rw [preds_append_old hedges hXi (hold p hp)]; exact hw.roots p hp
    · simp only [hpreds_i]
      rw [← hroot]
      constructor
      · intro h
        cases hpi : pidx with
        | nil => rfl
        | cons q t =>
          have := hX' q (by simp [hpi])
          have h' : X = [] := by simpa using h
          simp [h'] at this
      · intro h
        cases hx : X with
        | nil => rfl
        | cons e t =>
          have := (hX e (by simp [hx])).2
          simp [h] at this
  · -- multi
    intro p hp hm
    rcases (hmem p).mp hp with hp | rfl
    · rw [preds_append_old hedges hXi (hold p hp)] at hm; exact hw.multi p hp hm
    · simp only [hpreds_i] at hm
      exact hmulti (by omega)
  · -- one_mux
    rw [hcomps, List.filter_append, List.length_append]
    by_cases hk : kindOfC c = .pmux
    · have : s.comps.filter (fun p => decide (kindOfC p.2 = .pmux)) = [] := by
        apply List.filter_eq_nil_iff.mpr
        intro p hp; simpa using hmux hk p hp
      simp [this, List.filter_cons, hk]
    · have := hw.one_mux
      simp only [List.filter_cons, hk, decide_false, List.filter_nil]
      simpa using this
  · -- links
    intro e he pc cc h1 h2
    rw [payload?_append hcomps hi] at h1 h2
    rw [hedges] at he
    rcases List.mem_append.mp he with he | he
    · have hl := hs.edges_live e he
      have n1 : e.1 ≠ i := fun h => hi (h ▸ hl.1)
      have n2 : e.2 ≠ i := fun h => hi (h ▸ hl.2)
      simp only [n1, n2, if_false] at h1 h2
      exact hw.links e he pc cc h1 h2
    · obtain ⟨hx1, hx2⟩ := hX e he
      have n1 : e.1 ≠ i := fun h => hi (h ▸ hlive _ hx2)
      simp only [n1, hx1, if_false, if_true, Option.some.injEq] at h1 h2
      subst h2
      exact hacc _ hx2 pc h1
  · -- nodes_keys
    intro x hx
    rw [hnodes, dkeys_append] at hx
    rw [hnames]
    rcases List.mem_append.mp hx with hx | hx
    · exact List.mem_append_left _ (hw.nodes_keys x hx)
    · exact List.mem_append_right _ (by simpa using hx)
  · -- nodes_get
    intro p hp
    rw [hnodes]
    rcases (hmem p).mp hp with hp | rfl
    · rw [dget_append_of_mem (dget_some_key (hw.nodes_get p hp))]; exact hw.nodes_get p hp
    · rw [dget_append_of_not_mem hn1]; simp [dget]
  · intro x; rw [hgr, hnames]; simp only [List.mem_append, hw.groups_keys x]
  · intro x; rw [hrails, hnames, dkeys_append]; simp only [List.mem_append, hw.rails_keys x]; simp
  · intro x; rw [hpc, hnames]; simp only [List.mem_append, hw.pconf_keys x]
  · -- inputs
    intro p hp hm
    rcases (hmem p).mp hp with hp | rfl
    · have hpi := hold p hp
      have hpr := preds_append_old hedges hXi hpi
      rw [hpr] at hm ⊢
      obtain ⟨l, hl, hl', hlnd⟩ := hw.inputs p hp hm
      refine ⟨l, ?_, hl', hlnd⟩
      apply parentsOf_congr hpr _ hl
      · intro x hx r hr
        obtain ⟨r', hr', hx'⟩ := (parentsOf_multi hm hl).2 x hx
        rw [getIndex_eq_resolve, hr] at hx'
        simp only [Except.ok.injEq] at hx'
        subst hx'
        obtain ⟨q, _, rfl⟩ := hl' r hr'
        exact hstable x q hr
      · rw [hpn, dget_dset]; simp [hpi]
    · simp only [hpreds_i] at hm ⊢
      -- the new node's predecessors are exactly `pidx`
      have hsubP : ∀ q ∈ pidx, q ∈ X.map (·.1) := fun q hq => List.mem_map.mpr ⟨(q, i), hX' q hq, rfl⟩
      have hkeq : (X.map (·.1)).length = pidx.length :=
        Nat.le_antisymm hlenX (hpnd.length_le_of_subset hsubP)
      have hstab' : resolveList s'.nodes s'.rails plist = .ok (pidx.map some) := by
        apply resolveList_congr hres
        intro x hx r hr
        obtain ⟨r', hr', hx'⟩ := (resolveList_mem hres).2 x hx
        rw [hr] at hx'
        simp only [Except.ok.injEq] at hx'
        subst hx'
        obtain ⟨q, _, rfl⟩ := List.mem_map.mp hr'
        have := hstable x q (by rw [getIndex_eq_resolve]; exact hr)
        rw [getIndex_eq_resolve] at this; exact this
      refine ⟨pidx.map some, ?_, ?_, ?_⟩
      · unfold Sys.parentsOf
        simp only [hpreds_i]
        have hle : ¬ (X.map (·.1)).length ≤ 1 := by omega
        have hlt : ¬ plist.length < (X.map (·.1)).length := by omega
        simp only [hle, if_false, hpn, dget_dset, if_true, hlt]
        rw [resolveAll_eq, hkeq, hlen, List.take_length]
        exact hstab'
      · intro r hr
        obtain ⟨q, hq, rfl⟩ := List.mem_map.mp hr
        exact ⟨q, hsubP q hq, rfl⟩
      · exact nodup_map_on (fun a _ b _ h => Option.some.inj h) hpnd

/-! ### add_source -/

theorem chkName_spec {s : Sys π ν} {n r : String} (h : s.chkName n r = true) :
    n ∉ dkeys s.nodes ∧ n ∉ dvals s.rails ∧ (r = "" ∨ (r ≠ n ∧ r ∉ dkeys s.nodes ∧ r ∉ dvals s.rails)) := by
  unfold Sys.chkName at h
  simp only [Bool.and_eq_true, Bool.not_eq_true', Bool.or_eq_false_iff, decide_eq_false_iff_not, Bool.or_eq_true,
    decide_eq_true_eq, ne_eq] at h
  obtain ⟨⟨h1, h2⟩, h3⟩ := h
  refine ⟨h1, h2, ?_⟩
  rcases h3 with h3 | ⟨h3, h4, h5⟩
  · exact Or.inl h3
  · exact Or.inr ⟨fun e => h3 e.symm, h4, h5⟩

theorem wfr_addSource {s : Sys π ν} (hs : Sane s) (hw : WFr s) (c : π) (g r : String) :
    WFr (s.addSource c g r).1 := by
  have hsane := sane_addSource hs c g r
  unfold Sys.addSource Sys.fail at hsane ⊢
  split
  · exact hw
  · next hchk =>
    split
    · exact hw
    · next hk =>
      simp only [Bool.not_eq_true, Bool.not_eq_false'] at hchk
      simp only [ne_eq, Decidable.not_not] at hk
      rw [if_neg (by simp [hchk]), if_neg (by simp [hk])] at hsane
      obtain ⟨h1, h2, h3⟩ := chkName_spec hchk
      obtain ⟨hfresh, a2, a3, a4, a5, a6, a7, a8, _, _, _⟩ := addNode_spec s c hs
      generalize s.addNode c = res at hfresh a2 a3 a4 a5 a6 a7 a8 hsane ⊢
      obtain ⟨s1, i⟩ := res
      simp only at hfresh a2 a3 a4 a5 a6 a7 a8 hsane ⊢
      have hk1 : nameOfC c ∉ dkeys s.phaseConf := fun h => h1 ((names_eq_nodes_keys hw _).mpr ((hw.pconf_keys _).mp h))
      have hk2 : nameOfC c ∉ dkeys s.groups := fun h => h1 ((names_eq_nodes_keys hw _).mpr ((hw.groups_keys _).mp h))
      have hk3 : nameOfC c ∉ dkeys s.rails := fun h => h1 ((names_eq_nodes_keys hw _).mpr ((hw.rails_keys _).mp h))
      apply wfr_insert hs hsane hw (i := i) (c := c) (pidx := []) (plist := []) (rail := r) (X := [])
        a2 hfresh
      · simp [a3]
      · simp
      · simp
      · simp [a4, dset_of_not_mem h1]
      · simp [a5, dset_of_not_mem hk1]
      · simp [a6, dset_of_not_mem hk2]
      · simp [a7, dset_of_not_mem hk3]
      · simp [a8]
      · exact h1
      · exact h2
      · exact h3
      · simp
      · simp
      · simp [hk]
      · simp
      · intro h; rw [hk] at h; simp at h
      · rfl
      · simp

/-! ### add_comp -/

theorem addEdges_spec (s : Sys π ν) (i : Nat) (l : List Nat) :
    ∃ X, (s.addEdges i l).edges = s.edges ++ X ∧ (∀ e ∈ X, e.2 = i ∧ e.1 ∈ l) ∧
      (∀ p ∈ l, (p, i) ∈ (s.addEdges i l).edges) ∧
      (s.addEdges i l).comps = s.comps ∧ (s.addEdges i l).nodes = s.nodes ∧
      (s.addEdges i l).phaseConf = s.phaseConf ∧ (s.addEdges i l).groups = s.groups ∧
      (s.addEdges i l).rails = s.rails ∧ (s.addEdges i l).pnames = s.pnames := by
  induction l generalizing s with
  | nil => exact ⟨[], by simp [Sys.addEdges]⟩
  | cons p t ih =>
    unfold Sys.addEdges
    obtain ⟨X, h1, h2, h3, h4⟩ := ih (s.addEdge p i)
    by_cases hmem : (p, i) ∈ s.edges
    · have hE : s.addEdge p i = s := by simp [Sys.addEdge, hmem]
      rw [hE] at h1 h3 h4 ⊢
      refine ⟨X, h1, ?_, ?_, h4⟩
      · intro e he; exact ⟨(h2 e he).1, List.mem_cons_of_mem _ (h2 e he).2⟩
      · intro q hq
        rcases List.mem_cons.mp hq with rfl | hq
        · rw [h1]; exact List.mem_append_left _ hmem
        · exact h3 q hq
    · have hE : s.addEdge p i = { s with edges := s.edges ++ [(p, i)] } := by simp [Sys.addEdge, hmem]
      rw [hE] at h1 h3 h4 ⊢
      simp only at h1 h4
      refine ⟨(p, i) :: X, by simpa using h1, ?_, ?_, h4⟩
      · intro e he
        rcases List.mem_cons.mp he with rfl | he
        · simp
        · exact ⟨(h2 e he).1, List.mem_cons_of_mem _ (h2 e he).2⟩
      · intro q hq
        rcases List.mem_cons.mp hq with rfl | hq
        · rw [h1]; simp
        · exact h3 q hq

theorem resolveParents_spec {s : Sys π ν} {c : π} {l : List String} {pidx : List Nat}
    (h : s.resolveParents c l = .ok pidx) :
    pidx.length = l.length ∧ (∀ e ∈ l, ∃ q ∈ pidx, s.getIndex e = .ok (some q)) ∧
    (∀ p ∈ pidx, ∀ pc, s.payload? p = some pc → (kindOfC pc).acceptsChild (kindOfC c).ctype = true) := by
  induction l generalizing pidx with
  | nil => simp [Sys.resolveParents] at h; subst h; simp
  | cons x xs ih =>
    unfold Sys.resolveParents at h
    split at h
    · simp at h
    · simp at h
    · next i hi =>
      split at h
      · simp at h
      · next pc hpc =>
        split at h
        · simp at h
        · next hacc =>
          split at h
          · simp at h
          · next l' hl' =>
            simp only [Except.ok.injEq] at h; subst h
            obtain ⟨i1, i2, i3⟩ := ih hl'
            refine ⟨by simp [i1], ?_, ?_⟩
            · intro e he
              rcases List.mem_cons.mp he with rfl | he
              · exact ⟨i, by simp, hi⟩
              · obtain ⟨q, hq, hq'⟩ := i2 e he
                exact ⟨q, List.mem_cons_of_mem _ hq, hq'⟩
            · intro p hp pc' hpc'
              rcases List.mem_cons.mp hp with rfl | hp
              · rw [hpc] at hpc'; simp only [Option.some.injEq] at hpc'; subst hpc'
                simpa using hacc
              · exact i3 p hp pc' hpc'

theorem muxScan_none {s : Sys π ν} {l : List (String × Nat)} (h : s.muxScan l = none) :
    ∀ e ∈ l, ∀ pc, s.payload? e.2 = some pc → kindOfC pc ≠ .pmux := by
  induction l with
  | nil => simp
  | cons e t ih =>
    obtain ⟨k, i⟩ := e
    unfold Sys.muxScan at h
    split at h
    · simp at h
    · next pc hpc =>
      split at h
      · simp at h
      · next hk =>
        intro e' he' pc' hpc'
        rcases List.mem_cons.mp he' with rfl | he'
        · simp only at hpc'; rw [hpc] at hpc'; simp only [Option.some.injEq] at hpc'; subst hpc'; exact hk
        · exact ih h e' he' pc' hpc'

theorem ctype_source_iff (k : Kind) : k.ctype = .SOURCE ↔ k = .source := by cases k <;> simp [Kind.ctype]
theorem ctype_pmux_iff (k : Kind) : k.ctype = .PMUX ↔ k = .pmux := by cases k <;> simp [Kind.ctype]

theorem accepts_not_source {p : Kind} {c : CType} (h : p.acceptsChild c = true) : c ≠ .SOURCE := by
  unfold Kind.acceptsChild at h
  split at h
  · simp at h
  · simpa using h

theorem accepts_not_load {p : Kind} {c : CType} (h : p.acceptsChild c = true) : p.ctype ≠ .LOAD := by
  unfold Kind.acceptsChild at h
  split at h
  · simp at h
  · next hne => exact hne

theorem accepts_of {p : Kind} {c : CType} (h1 : p.ctype ≠ .LOAD) (h2 : c ≠ .SOURCE) : p.acceptsChild c = true := by
  unfold Kind.acceptsChild
  split
  · next h => exact absurd h h1
  · simpa using h2

theorem resolveParents_resolveAll {s : Sys π ν} {c : π} {l : List String} {pidx : List Nat}
    (h : s.resolveParents c l = .ok pidx) : s.resolveAll l = .ok (pidx.map some) := by
  induction l generalizing pidx with
  | nil => simp [Sys.resolveParents] at h; subst h; rfl
  | cons x xs ih =>
    unfold Sys.resolveParents at h
    split at h
    · simp at h
    · simp at h
    · next i hi =>
      split at h
      · simp at h
      · split at h
        · simp at h
        · split at h
          · simp at h
          · next l' hl' =>
            simp only [Except.ok.injEq] at h; subst h
            unfold Sys.resolveAll
            rw [hi, ih hl']
            rfl

/-- what the parent argument of an accepted `add_comp` looks like -/
theorem plistArg_spec {s : Sys π ν} {c : π} {par : ParentArg} {plist : List String}
    (h : (match par with
      | .many ps =>
        if ps = [] then (.error "ValueError" : Except String (List String))
        else if ¬ ps.Nodup then .error "ValueError"
        else if (kindOfC c).ctype ≠ CType.PMUX then .error "ValueError"
        else if !ps.all s.chkParent then .error "ValueError"
        else
          match s.resolveAll ps with
          | .error e => .error e
          | .ok rl => if ¬ rl.Nodup then .error "ValueError" else .ok ps
      | .one p => if s.chkParent p then .ok [p] else .error "ValueError") = .ok plist) :
    (1 < plist.length → (kindOfC c).ctype = .PMUX) ∧ (∀ rl, s.resolveAll plist = .ok rl → rl.Nodup) := by
  cases par with
  | one p =>
    simp only at h
    split at h
    · simp only [Except.ok.injEq] at h; subst h
      refine ⟨by simp, ?_⟩
      intro rl hrl
      rw [resolveAll_eq] at hrl
      have := resolveList_length hrl
      match rl, this with
      | [_], _ => simp
    · simp at h
  | many ps =>
    simp only at h
    split at h
    · simp at h
    · split at h
      · simp at h
      · split at h
        · simp at h
        · next hp =>
          split at h
          · simp at h
          · split at h
            · simp at h
            · next rl hrl =>
              split at h
              · simp at h
              · next hnd =>
                simp only [Except.ok.injEq] at h; subst h
                refine ⟨fun _ => by simpa using hp, ?_⟩
                intro rl' hrl'
                rw [hrl] at hrl'
                simp only [Except.ok.injEq] at hrl'
                subst hrl'
                simpa using hnd

theorem wfr_addComp {s : Sys π ν} (hs : Sane s) (hw : WFr s) (par : ParentArg) (c : π) (g r : String) :
    WFr (s.addComp par c g r).1 := by
  have hsane := sane_addComp hs par c g r
  unfold Sys.addComp Sys.fail at hsane ⊢
  simp only at hsane ⊢
  split
  · exact hw
  · next plist hplist =>
    simp only [hplist] at hsane
    split
    · exact hw
    · next hchk =>
      simp only [Bool.not_eq_true, Bool.not_eq_false'] at hchk
      rw [if_neg (by simp [hchk])] at hsane
      split
      · exact hw
      · next pidx hpidx =>
        simp only [hpidx] at hsane
        split
        · exact hw
        · next hmux =>
          simp only [hmux] at hsane
          split
          · exact hw
          · next p0 prest =>
            obtain ⟨h1, h2, h3⟩ := chkName_spec hchk
            obtain ⟨hfresh, a2, a3, a4, a5, a6, a7, a8, _, _, _⟩ := addNode_spec s c hs
            obtain ⟨r1, r2, r3⟩ := resolveParents_spec hpidx
            have hlive := resolveParents_live hpidx
            generalize s.addNode c = res at hfresh a2 a3 a4 a5 a6 a7 a8 hsane ⊢
            obtain ⟨s1, i⟩ := res
            simp only at hfresh a2 a3 a4 a5 a6 a7 a8 hsane ⊢
            obtain ⟨X, e1, e2, e3, e4, e5, e6, e7, e8, e9⟩ := addEdges_spec
              ({ s1 with edges := s1.edges ++ [(p0, i)],
                         nodes := dset s1.nodes (nameOfC c) i,
                         phaseConf := dset s1.phaseConf (nameOfC c) (.table []),
                         groups := dset s1.groups (nameOfC c) g,
                         pnames := dset s1.pnames i plist,
                         rails := dset s1.rails (nameOfC c) (Sys.effRail c r) } : Sys π ν) i prest
            generalize Sys.addEdges _ i prest = s' at e1 e2 e3 e4 e5 e6 e7 e8 e9 hsane ⊢
            simp only at e1 e3 e4 e5 e6 e7 e8 e9
            have hk1 : nameOfC c ∉ dkeys s.phaseConf := fun h => h1 ((names_eq_nodes_keys hw _).mpr ((hw.pconf_keys _).mp h))
            have hk2 : nameOfC c ∉ dkeys s.groups := fun h => h1 ((names_eq_nodes_keys hw _).mpr ((hw.groups_keys _).mp h))
            have hk3 : nameOfC c ∉ dkeys s.rails := fun h => h1 ((names_eq_nodes_keys hw _).mpr ((hw.rails_keys _).mp h))
            have hp0 : ∀ pc, s.payload? p0 = some pc → (kindOfC pc).acceptsChild (kindOfC c).ctype = true :=
              r3 p0 (by simp)
            obtain ⟨pc0, hpc0⟩ := payload?_of_mem_ids (hlive p0 (by simp))
            have hnsrc : (kindOfC c).ctype ≠ .SOURCE := accepts_not_source (hp0 pc0 hpc0)
            apply wfr_insert hs hsane hw (i := i) (c := c) (pidx := p0 :: prest) (plist := plist)
              (rail := Sys.effRail c r) (X := (p0, i) :: X)
            · rw [e4, a2]
            · exact hfresh
            · rw [e1, a3]; simp
            · intro e he
              rcases List.mem_cons.mp he with rfl | he
              · simp
              · exact ⟨(e2 e he).1, List.mem_cons_of_mem _ (e2 e he).2⟩
            · intro p hp
              rcases List.mem_cons.mp hp with rfl | hp
              · simp
              · have := e3 p hp
                rw [e1] at this
                rcases List.mem_append.mp this with h | h
                · rcases List.mem_append.mp h with h | h
                  · rw [a3] at h
                    exact absurd (hs.edges_live _ h).2 hfresh
                  · simp at h; simp [h]
                · exact List.mem_cons_of_mem _ h
            · rw [e5, a4, dset_of_not_mem h1]
            · rw [e6, a5, dset_of_not_mem hk1]; simp
            · rw [e7, a6, dset_of_not_mem hk2]; simp
            · rw [e8, a7, dset_of_not_mem hk3]
            · rw [e9, a8]
            · exact h1
            · exact h2
            · unfold Sys.effRail
              split
              · exact Or.inl rfl
              · exact h3
            · exact hlive
            · exact r3
            · simp only [List.cons_ne_nil, false_iff]
              intro h; exact hnsrc ((ctype_source_iff _).mpr h)
            · intro hlen
              -- several parents: the argument was a list, which is only accepted for a PMux
              exact (ctype_pmux_iff _).mp ((plistArg_spec hplist).1 (by rw [← r1]; exact hlen))
            · intro hk p hp
              have hct : (kindOfC c).ctype = .PMUX := (ctype_pmux_iff _).mpr hk
              simp only [hct, if_true] at hmux
              have := muxScan_none hmux (nameOfC p.2, p.1) (dget_some_mem (hw.nodes_get p hp)) p.2
                (payload?_of_mem hs hp)
              exact this
            · exact resolveParents_resolveAll hpidx
            · have := (plistArg_spec hplist).2 _ (resolveParents_resolveAll hpidx)
              exact nodup_of_nodup_map _ this

end
end SysLoss
