/-
  Proofs/WfChange — `change_comp`, `set_sys_phases`, `set_comp_phases` preserve well-formedness for `Safe` calls.
-/
import SysLoss.Proofs.WfAdd

set_option linter.unusedSectionVars false
set_option linter.unusedSimpArgs false
set_option linter.unusedVariables false

namespace SysLoss
section
variable {π ν : Type} [CompLike π]

/-- at most one element of a duplicate-free list satisfies `P` iff any two that do are equal -/
theorem filter_length_le_one {α : Type} {P : α → Bool} {l : List α}
    (h : ∀ a ∈ l, ∀ b ∈ l, P a = true → P b = true → a = b) (hn : l.Nodup) : (l.filter P).length ≤ 1 := by
  induction l with
  | nil => simp
  | cons x t ih =>
    simp only [List.nodup_cons] at hn
    have iht := ih (fun a ha b hb => h a (List.mem_cons_of_mem _ ha) b (List.mem_cons_of_mem _ hb)) hn.2
    by_cases hx : P x = true
    · have : t.filter P = [] := by
        apply List.filter_eq_nil_iff.mpr
        intro a ha hpa
        have := h a (List.mem_cons_of_mem _ ha) x (by simp) hpa hx
        exact hn.1 (this ▸ ha)
      simp [List.filter_cons, hx, this]
    · simp only [Bool.not_eq_true] at hx
      simpa [List.filter_cons, hx] using iht

theorem filter_length_le_one_inv {α : Type} {P : α → Bool} {l : List α} (h : (l.filter P).length ≤ 1) :
    ∀ a ∈ l, ∀ b ∈ l, P a = true → P b = true → a = b := by
  induction l with
  | nil => simp
  | cons x t ih =>
    by_cases hx : P x = true
    · simp only [List.filter_cons, hx, if_true, List.length_cons] at h
      have ht : t.filter P = [] := List.eq_nil_of_length_eq_zero (by omega)
      have hnone : ∀ a ∈ t, P a ≠ true := fun a ha hpa => by
        have : a ∈ t.filter P := List.mem_filter.mpr ⟨ha, hpa⟩
        rw [ht] at this; simp at this
      intro a ha b hb hpa hpb
      rcases List.mem_cons.mp ha with ha1 | ha1
      · rcases List.mem_cons.mp hb with hb1 | hb1
        · rw [ha1, hb1]
        · exact absurd hpb (hnone b hb1)
      · exact absurd hpa (hnone a ha1)
    · simp only [Bool.not_eq_true] at hx
      simp only [List.filter_cons, hx] at h
      intro a ha b hb hpa hpb
      rcases List.mem_cons.mp ha with ha1 | ha1
      · rw [ha1, hx] at hpa; simp at hpa
      · rcases List.mem_cons.mp hb with hb1 | hb1
        · rw [hb1, hx] at hpb; simp at hpb
        · exact ih (by simpa using h) a ha1 b hb1 hpa hpb

theorem comps_nodup {s : Sys π ν} (hs : Sane s) : s.comps.Nodup := by
  have := hs.ids_nodup
  unfold Sys.ids at this
  exact nodup_of_nodup_map _ this

theorem eq_of_mem_same_id {s : Sys π ν} (hs : Sane s) {p q : Nat × π} (hp : p ∈ s.comps) (hq : q ∈ s.comps)
    (h : p.1 = q.1) : p = q :=
  inj_of_nodup_map (f := fun p : Nat × π => p.1) hs.ids_nodup hp hq h

/-- an entry with a non-empty rail value is the only one with that value -/
theorem rail_owner_unique {s : Sys π ν} (hw : WFr s) {o o' e : String} (he : e ≠ "") (h1 : (o, e) ∈ s.rails)
    (h2 : (o', e) ∈ s.rails) : o = o' := by
  have hn := hw.rails_nodup
  unfold Sys.railNames dvals at hn
  rw [List.filter_map] at hn
  have m1 : (o, e) ∈ s.rails.filter ((fun r => decide (r ≠ "")) ∘ fun p => p.2) :=
    List.mem_filter.mpr ⟨h1, by simpa using he⟩
  have m2 : (o', e) ∈ s.rails.filter ((fun r => decide (r ≠ "")) ∘ fun p => p.2) :=
    List.mem_filter.mpr ⟨h2, by simpa using he⟩
  have := inj_of_nodup_map hn m1 m2 rfl
  exact (Prod.mk.inj this).1

/-- replacing the component object of node `t` (registries: old name deleted, new name appended) -/
theorem wfr_replace {s s' : Sys π ν} (hs : Sane s) (hw : WFr s) {t : Nat} {old c : π} {x r' : String}
    (hold : (t, old) ∈ s.comps) (hx : nameOfC old = x)
    (hcomps : s'.comps = s.comps.map (fun p => if p.1 = t then (t, c) else p))
    (hedges : s'.edges = s.edges)
    (hpn : s'.pnames = s.pnames.map fun (kp : Nat × List String) =>
        (kp.1, kp.2.map fun p => if s.refersTo t p then nameOfC c else p))
    (hnodes : s'.nodes = ddel s.nodes x ++ [(nameOfC c, t)])
    (hpc : dkeys s'.phaseConf = dkeys (ddel s.phaseConf x) ++ [nameOfC c])
    (hgr : dkeys s'.groups = dkeys (ddel s.groups x) ++ [nameOfC c])
    (hrails : s'.rails = ddel s.rails x ++ [(nameOfC c, r')])
    (hname : nameOfC c = x ∨ (nameOfC c ∉ dkeys s.nodes ∧ nameOfC c ∉ dvals s.rails))
    (hrail : r' = "" ∨ (r' ≠ nameOfC c ∧ r' ∉ dkeys s.nodes ∧ r' ∉ dvals (ddel s.rails x)))
    (hsrc : kindOfC c = .source ↔ s.preds t = [])
    (hmul : 1 < (s.preds t).length → kindOfC c = .pmux)
    (hmux : kindOfC c = .pmux → ∀ p ∈ s.comps, p.1 ≠ t → kindOfC p.2 ≠ .pmux)
    (hkids : ∀ k ∈ s.succs t, ∀ kc, s.payload? k = some kc → (kindOfC c).acceptsChild (kindOfC kc).ctype = true) :
    WFr s' := by
  have hxget : dget s.nodes x = some t := hx ▸ hw.nodes_get (t, old) hold
  have hxkey : x ∈ dkeys s.nodes := dget_some_key hxget
  -- membership in the new component list
  have hmem : ∀ p', p' ∈ s'.comps ↔ (p' ∈ s.comps ∧ p'.1 ≠ t) ∨ p' = (t, c) := by
    intro p'
    rw [hcomps, List.mem_map]
    constructor
    · rintro ⟨p, hp, rfl⟩
      by_cases h : p.1 = t
      · simp [h]
      · simp only [h, if_false]; exact Or.inl ⟨hp, h⟩
    · rintro (⟨hp, h⟩ | rfl)
      · exact ⟨p', hp, by simp [h]⟩
      · exact ⟨(t, old), hold, by simp⟩
  have hother : ∀ p ∈ s.comps, p.1 ≠ t → nameOfC p.2 ≠ x := by
    intro p hp hne e
    have := name_inj hw.names_nodup hp hold (e.trans hx.symm)
    exact hne (by rw [this])
  have hpay : ∀ n, s'.payload? n = if n = t then some c else s.payload? n := by
    intro n
    by_cases hn : n = t
    · subst hn
      simp only [if_true]
      have hs' : s'.ids.Nodup := by
        have : s'.ids = s.ids := by
          unfold Sys.ids; rw [hcomps, List.map_map]
          apply List.map_congr_left
          intro p _; simp only [Function.comp]; split <;> simp_all
        rw [this]; exact hs.ids_nodup
      exact dget_of_mem_nodup hs' ((hmem _).mpr (Or.inr rfl))
    · simp only [hn, if_false]
      cases hp : s.payload? n with
      | none =>
        apply dget_eq_none_iff.mpr
        intro hk
        obtain ⟨v, hv⟩ := mem_dkeys.mp hk
        rcases (hmem (n, v)).mp hv with ⟨h1, _⟩ | h1
        · have := payload?_of_mem hs h1; rw [hp] at this; simp at this
        · exact hn (Prod.mk.inj h1).1
      | some v =>
        have hv := mem_of_payload? hp
        have hs' : s'.ids.Nodup := by
          have : s'.ids = s.ids := by
            unfold Sys.ids; rw [hcomps, List.map_map]
            apply List.map_congr_left
            intro p _; simp only [Function.comp]; split <;> simp_all
          rw [this]; exact hs.ids_nodup
        exact dget_of_mem_nodup hs' ((hmem _).mpr (Or.inl ⟨hv, hn⟩))
  have hpreds : ∀ n, s'.preds n = s.preds n := by intro n; unfold Sys.preds; rw [hedges]
  have hnames : ∀ y, y ∈ s'.names ↔ (y ∈ s.names ∧ y ≠ x) ∨ y = nameOfC c := by
    intro y
    rw [mem_names]
    constructor
    · rintro ⟨p', hp', rfl⟩
      rcases (hmem p').mp hp' with ⟨h1, h2⟩ | rfl
      · exact Or.inl ⟨mem_names_of_mem h1, hother p' h1 h2⟩
      · exact Or.inr rfl
    · rintro (⟨h1, h2⟩ | rfl)
      · obtain ⟨p, hp, rfl⟩ := mem_names.mp h1
        have : p.1 ≠ t := fun e => h2 (by rw [eq_of_mem_same_id hs hp hold e]; exact hx)
        exact ⟨p, (hmem p).mpr (Or.inl ⟨hp, this⟩), rfl⟩
      · exact ⟨(t, c), (hmem _).mpr (Or.inr rfl), rfl⟩
  have hcfresh : nameOfC c ∉ dkeys (ddel s.nodes x) := by
    rcases hname with h | ⟨h, _⟩
    · rw [h]; exact not_mem_dkeys_ddel _ _
    · intro h'; exact h (mem_dkeys_ddel.mp h').1
  have hkeys : ∀ (K : List String), (∀ y, y ∈ K ↔ y ∈ s.names) →
      ∀ y, y ∈ K.filter (fun k => decide (k ≠ x)) ++ [nameOfC c] ↔ y ∈ s'.names := by
    intro K hK y
    rw [hnames y]
    simp only [List.mem_append, List.mem_filter, decide_eq_true_eq, List.mem_singleton, hK y]
  have hrn : s'.railNames = (dvals (ddel s.rails x)).filter (fun r => decide (r ≠ "")) ++
      (if r' ≠ "" then [r'] else []) := by
    simp only [Sys.railNames, hrails, dvals_append, List.filter_append, dvals_cons, dvals_nil]
    congr 1
    by_cases h : r' = "" <;> simp [List.filter_cons, h]
  have hsubrail : ∀ y, y ∈ (dvals (ddel s.rails x)).filter (fun r => decide (r ≠ "")) → y ∈ s.railNames := by
    intro y hy
    have := List.mem_filter.mp hy
    exact List.mem_filter.mpr ⟨mem_dvals_ddel this.1, this.2⟩
  -- resolution of names that resolve to a node other than `t` is unchanged
  have hstab : ∀ e q, s.getIndex e = .ok (some q) → q ≠ t → s'.getIndex e = .ok (some q) := by
    intro e q he hq
    rw [getIndex_eq_resolve] at he ⊢
    rw [hnodes, hrails, ddel_eq_filter, ddel_eq_filter]
    apply resolve_append
    · apply resolve_filter (fun k => decide (k ≠ x)) he
      intro k hk
      simp only [decide_eq_true_eq]
      intro e'; subst e'
      rw [hxget] at hk; exact hq (Option.some.inj hk).symm
    · intro hnone e'
      subst e'
      rcases hname with h | ⟨h1, h2⟩
      · rw [h] at he
        rw [resolve_of_name hxget] at he
        exact hq (by simpa using he.symm)
      · rcases resolve_some he with h3 | ⟨_, _, o, h4, _⟩
        · exact h1 (dget_some_key h3)
        · exact h2 (mem_dvals.mpr ⟨o, List.mem_of_find?_eq_some h4⟩)
  -- the new name resolves to `t`
  have hnew : s'.getIndex (nameOfC c) = .ok (some t) := by
    rw [getIndex_eq_resolve, hnodes]
    apply resolve_of_name
    rw [dget_append_of_not_mem hcfresh]; simp [dget]
  have hrefers : ∀ e, s.refersTo t e = true ↔ s.getIndex e = .ok (some t) := by
    intro e
    unfold Sys.refersTo
    cases hg : s.getIndex e with
    | error _ => simp
    | ok r => cases r <;> simp
  have hdgetpn : ∀ n, dget s'.pnames n = (dget s.pnames n).map
      (List.map fun p => if s.refersTo t p then nameOfC c else p) := by
    intro n
    rw [hpn]
    generalize s.pnames = d
    induction d with
    | nil => rfl
    | cons kp rest ih =>
      by_cases hk : kp.1 = n
      · simp [dget, hk]
      · simp [dget, hk, ih]
  constructor
  · -- names_nodup
    unfold Sys.names
    rw [hcomps, List.map_map]
    apply nodup_map_on _ (comps_nodup hs)
    intro p hp q hq hpq
    simp only [Function.comp] at hpq
    by_cases h1 : p.1 = t <;> by_cases h2 : q.1 = t
    · exact eq_of_mem_same_id hs hp hq (h1.trans h2.symm)
    · simp only [h1, h2, if_true, if_false] at hpq
      exfalso
      rcases hname with h | ⟨h, _⟩
      · exact hother q hq h2 (hpq.symm.trans h)
      · exact h ((names_eq_nodes_keys hw _).mpr (hpq ▸ mem_names_of_mem hq))
    · simp only [h1, h2, if_true, if_false] at hpq
      exfalso
      rcases hname with h | ⟨h, _⟩
      · exact hother p hp h1 (hpq.trans h)
      · exact h ((names_eq_nodes_keys hw _).mpr (hpq ▸ mem_names_of_mem hp))
    · simp only [h1, h2, if_false] at hpq
      exact name_inj hw.names_nodup hp hq hpq
  · -- rails_nodup
    rw [hrn]
    have hsub : ((dvals (ddel s.rails x)).filter (fun r => decide (r ≠ ""))).Nodup := by
      have : ((dvals (ddel s.rails x)).filter (fun r => decide (r ≠ ""))).Sublist s.railNames := by
        unfold Sys.railNames dvals ddel
        exact (List.filter_sublist.map _).filter _
      exact this.nodup hw.rails_nodup
    split
    · next hr =>
      rcases hrail with h | ⟨_, _, h⟩
      · exact absurd h hr
      · apply List.nodup_append.mpr
        refine ⟨hsub, by simp, ?_⟩
        intro a ha b hb
        simp at hb; subst hb
        intro e; subst e
        exact h (List.mem_filter.mp ha).1
    · simpa using hsub
  · -- disjoint
    intro y hy
    rw [hrn]
    simp only [List.mem_append, not_or]
    rcases (hnames y).mp hy with ⟨h1, h2⟩ | rfl
    · refine ⟨fun h => hw.disjoint y h1 (hsubrail y h), ?_⟩
      split
      · next hr =>
        rcases hrail with h | ⟨_, h, _⟩
        · exact absurd h hr
        · simp only [List.mem_singleton]
          intro e; exact h (e ▸ (names_eq_nodes_keys hw y).mpr h1)
      · simp
    · constructor
      · intro h
        rcases hname with h' | ⟨_, h'⟩
        · exact hw.disjoint _ (h' ▸ hx ▸ mem_names_of_mem hold) (hsubrail _ h)
        · exact h' (mem_dvals_ddel (List.mem_filter.mp h).1)
      · split
        · next hr =>
          rcases hrail with h | ⟨h, _, _⟩
          · exact absurd h hr
          · simp only [List.mem_singleton]; exact fun e => h e.symm
        · simp
  · -- roots
    intro p' hp'
    rw [hpreds]
    rcases (hmem p').mp hp' with ⟨h1, _⟩ | rfl
    · exact hw.roots p' h1
    · exact hsrc.symm
  · -- multi
    intro p' hp'
    rw [hpreds]
    rcases (hmem p').mp hp' with ⟨h1, _⟩ | rfl
    · exact hw.multi p' h1
    · exact hmul
  · -- one_mux
    have hnd : s'.comps.Nodup := by
      have : s'.ids = s.ids := by
        unfold Sys.ids; rw [hcomps, List.map_map]
        apply List.map_congr_left
        intro p _; simp only [Function.comp]; split <;> simp_all
      have h2 := hs.ids_nodup
      rw [← this] at h2
      exact nodup_of_nodup_map _ h2
    apply filter_length_le_one _ hnd
    intro a ha b hb hpa hpb
    simp only [decide_eq_true_eq] at hpa hpb
    have hone := filter_length_le_one_inv hw.one_mux
    rcases (hmem a).mp ha with ⟨a1, a2⟩ | rfl <;> rcases (hmem b).mp hb with ⟨b1, b2⟩ | rfl
    · exact hone a a1 b b1 (by simpa using hpa) (by simpa using hpb)
    · exact absurd hpa (hmux hpb a a1 a2)
    · exact absurd hpb (hmux hpa b b1 b2)
    · rfl
  · -- links
    intro e he pc cc h1 h2
    rw [hedges] at he
    rw [hpay] at h1 h2
    by_cases e1 : e.1 = t <;> by_cases e2 : e.2 = t
    · exfalso
      have : (t, t) ∈ s.edges := by
        have : e = (t, t) := Prod.ext e1 e2
        rw [← this]; exact he
      exact hs.acyclic t (.single this)
    · simp only [e1, e2, if_true, if_false, Option.some.injEq] at h1 h2
      rw [← h1]
      exact hkids e.2 (mem_succs.mpr (by rw [← e1]; exact he)) cc h2
    · simp only [e1, e2, if_true, if_false, Option.some.injEq] at h1 h2
      rw [← h2]
      obtain ⟨oc, hoc⟩ : ∃ oc, s.payload? e.2 = some oc := ⟨old, by rw [e2]; exact payload?_of_mem hs hold⟩
      have hacc := hw.links e he pc oc h1 hoc
      have hne : s.preds t ≠ [] := by
        intro h
        have : e.1 ∈ s.preds t := mem_preds.mpr (by rw [← e2]; exact he)
        rw [h] at this; simp at this
      have : (kindOfC c).ctype ≠ .SOURCE := fun h => hne (hsrc.mp ((ctype_source_iff _).mp h))
      exact accepts_of (accepts_not_load hacc) this
    · simp only [e1, e2, if_false] at h1 h2
      exact hw.links e he pc cc h1 h2
  · -- nodes_keys
    intro y hy
    rw [hnodes, dkeys_append, dkeys_ddel] at hy
    exact (hkeys (dkeys s.nodes) (names_eq_nodes_keys hw) y).mp (by simpa using hy)
  · -- nodes_get
    intro p' hp'
    rw [hnodes]
    rcases (hmem p').mp hp' with ⟨h1, h2⟩ | rfl
    · have hne := hother p' h1 h2
      have hk : nameOfC p'.2 ∈ dkeys (ddel s.nodes x) :=
        mem_dkeys_ddel.mpr ⟨dget_some_key (hw.nodes_get p' h1), hne⟩
      rw [dget_append_of_mem hk, dget_ddel]
      simp [hne, hw.nodes_get p' h1]
    · rw [dget_append_of_not_mem hcfresh]; simp [dget]
  · intro y; rw [hgr, dkeys_ddel]; exact hkeys _ hw.groups_keys y
  · intro y; rw [hrails, dkeys_append, dkeys_ddel]; exact hkeys _ hw.rails_keys y
  · intro y; rw [hpc, dkeys_ddel]; exact hkeys _ hw.pconf_keys y
  · -- inputs
    intro p' hp' hm
    rw [hpreds] at hm ⊢
    have key : ∀ p ∈ s.comps, 1 < (s.preds p.1).length →
        ∃ l, s'.parentsOf p.1 = .ok l ∧ (∀ y ∈ l, ∃ q ∈ s.preds p.1, y = some q) ∧ l.Nodup := by
      intro p hp hm
      obtain ⟨l, hl, hl', hlnd⟩ := hw.inputs p hp hm
      refine ⟨l, ?_, hl', hlnd⟩
      apply parentsOf_map (fun p => if s.refersTo t p then nameOfC c else p) (hpreds _) (hdgetpn _) hl
      intro e he r hr
      obtain ⟨r', hr', hx'⟩ := (parentsOf_multi hm hl).2 e he
      rw [getIndex_eq_resolve, hr] at hx'
      simp only [Except.ok.injEq] at hx'
      subst hx'
      obtain ⟨q, _, rfl⟩ := hl' r hr'
      rw [← getIndex_eq_resolve] at hr ⊢
      by_cases hq : q = t
      · rw [hq] at hr
        simp only [(hrefers e).mpr hr, if_true]
        rw [hq]; exact hnew
      · have hfalse : s.refersTo t e = false := by
          cases h : s.refersTo t e with
          | false => rfl
          | true =>
            have := (hrefers e).mp h
            rw [hr] at this
            simp only [Except.ok.injEq, Option.some.injEq] at this
            exact absurd this hq
        simp only [hfalse]
        exact hstab e q hr hq
    rcases (hmem p').mp hp' with ⟨h1, _⟩ | rfl
    · exact key p' h1 hm
    · exact key (t, old) hold hm

/-! ### change_comp -/

theorem kidsScan_none {s : Sys π ν} {c : π} {l : List Nat} (h : s.kidsScan c l = none) :
    ∀ k ∈ l, ∀ kc, s.payload? k = some kc → (kindOfC c).acceptsChild (kindOfC kc).ctype = true := by
  induction l with
  | nil => simp
  | cons k ks ih =>
    unfold Sys.kidsScan at h
    split at h
    · simp at h
    · next kc hkc =>
      split at h
      · simp at h
      · next hacc =>
        intro k' hk' kc' hkc'
        rcases List.mem_cons.mp hk' with rfl | hk'
        · rw [hkc] at hkc'; simp only [Option.some.injEq] at hkc'; subst hkc'
          simpa using hacc
        · exact ih h k' hk' kc' hkc'

theorem wfr_changeComp {s : Sys π ν} (hs : Sane s) (hw : WFr s) (x : String) (c : π) (g r : String) :
    WFr (s.changeComp x c g r).1 := by
  unfold Sys.changeComp Sys.fail
  simp only
  split
  · exact hw
  · next hchk =>
    split
    · exact hw
    · next hname =>
      split
      · exact hw
      · exact hw
      · next t ht =>
        split
        · exact hw
        · next old hold =>
          split
          · exact hw
          · next hsrcg =>
            split
            · exact hw
            · next hmuxg =>
              split
              · exact hw
              · next hone =>
                split
                · exact hw
                · split
                  · exact hw
                  · next pe hpe =>
                    split
                    · exact hw
                    · next hchk2 =>
                      split
                      · exact hw
                      · next hkids =>
                        split
                        · exact hw
                        · -- facts
                          simp only [Bool.not_eq_true, Bool.not_eq_false', Sys.chkComp, decide_eq_true_eq] at hchk
                          have hxget : dget s.nodes x = some t := by
                            unfold Sys.getIndex at ht
                            obtain ⟨v, hv⟩ := dget_isSome_iff.mpr hchk
                            simp only [hv, Except.ok.injEq, Option.some.injEq] at ht
                            rw [hv, ht]
                          have holdm : (t, old) ∈ s.comps := mem_of_payload? hold
                          have hxn : nameOfC old = x := by
                            obtain ⟨p, hp, hpn, hpt⟩ := nodes_get_live hw hxget
                            have := eq_of_mem_same_id hs hp holdm hpt
                            subst this; exact hpn
                          have hxnames : x ∈ s.names := hxn ▸ mem_names_of_mem holdm
                          have hk1 : x ∈ dkeys s.phaseConf := (hw.pconf_keys x).mpr hxnames
                          have hk2 : x ∈ dkeys s.groups := (hw.groups_keys x).mpr hxnames
                          have hk3 : x ∈ dkeys s.rails := (hw.rails_keys x).mpr hxnames
                          -- name / rail conditions
                          have hnm : nameOfC c = x ∨ (nameOfC c ∉ dkeys s.nodes ∧ nameOfC c ∉ dvals s.rails) := by
                            by_cases h : x = nameOfC c
                            · exact Or.inl h.symm
                            · right
                              simp only [ne_eq, h, not_false_eq_true, if_true] at hname
                              have : s.chkName (nameOfC c) r = true := by
                                cases hcn : s.chkName (nameOfC c) r with
                                | true => rfl
                                | false => simp [hcn] at hname
                              exact ⟨(chkName_spec this).1, (chkName_spec this).2.1⟩
                          have hrl : Sys.effRail c r = "" ∨ (Sys.effRail c r ≠ nameOfC c ∧
                              Sys.effRail c r ∉ dkeys s.nodes ∧ Sys.effRail c r ∉ dvals (ddel s.rails x)) := by
                            have hr0 : r = "" ∨ (r ≠ nameOfC c ∧ r ∉ dkeys s.nodes ∧ r ∉ dvals (ddel s.rails x)) := by
                              by_cases h : x = nameOfC c
                              · simp only [ne_eq, h, not_true_eq_false, if_false] at hname
                                by_cases hr : r = ""
                                · exact Or.inl hr
                                · right
                                  simp only [hr, if_false] at hname
                                  obtain ⟨cur, hcur⟩ := dget_isSome_iff.mpr hk3
                                  rw [← h, hcur] at hname
                                  simp only at hname
                                  by_cases hrc : r = cur
                                  · -- the component keeps its own rail
                                    have hmem : (x, r) ∈ s.rails := hrc ▸ dget_some_mem hcur
                                    have hrn : r ∈ s.railNames :=
                                      List.mem_filter.mpr ⟨mem_dvals.mpr ⟨x, hmem⟩, by simpa using hr⟩
                                    refine ⟨?_, ?_, ?_⟩
                                    · intro e; exact hw.disjoint x hxnames (h ▸ e ▸ hrn)
                                    · intro hk
                                      exact hw.disjoint r ((names_eq_nodes_keys hw r).mp hk) hrn
                                    · intro hv
                                      obtain ⟨o, ho⟩ := mem_dvals.mp hv
                                      obtain ⟨ho1, ho2⟩ := mem_ddel.mp ho
                                      exact ho2 (rail_owner_unique hw hr ho1 hmem)
                                  · simp only [hrc, if_false] at hname
                                    split at hname
                                    · simp at hname
                                    · next hrx =>
                                      split at hname
                                      · simp at hname
                                      · next hfree =>
                                        simp only [not_or] at hfree
                                        exact ⟨h ▸ hrx, hfree.1, fun hv => hfree.2 (mem_dvals_ddel hv)⟩
                              · simp only [ne_eq, h, not_false_eq_true, if_true] at hname
                                have : s.chkName (nameOfC c) r = true := by
                                  cases hcn : s.chkName (nameOfC c) r with
                                  | true => rfl
                                  | false => simp [hcn] at hname
                                rcases (chkName_spec this).2.2 with h3 | ⟨a1, a2, a3⟩
                                · exact Or.inl h3
                                · exact Or.inr ⟨a1, a2, fun hv => a3 (mem_dvals_ddel hv)⟩
                            unfold Sys.effRail
                            split
                            · exact Or.inl rfl
                            · exact hr0
                          have hcf : ∀ (β : Type) (d : List (String × β)), (∀ y, y ∈ dkeys d → y ∈ dkeys s.nodes) →
                              nameOfC c ∉ dkeys (ddel d x) := by
                            intro β d hd
                            rcases hnm with h | ⟨h, _⟩
                            · rw [h]; exact not_mem_dkeys_ddel _ _
                            · intro h'; exact h (hd _ (mem_dkeys_ddel.mp h').1)
                          have hcf0 := hcf _ s.nodes (fun y hy => hy)
                          have hcf1 := hcf _ s.phaseConf (fun y hy => (names_eq_nodes_keys hw y).mpr ((hw.pconf_keys y).mp hy))
                          have hcf2 := hcf _ s.groups (fun y hy => (names_eq_nodes_keys hw y).mpr ((hw.groups_keys y).mp hy))
                          have hcf3 := hcf _ s.rails (fun y hy => (names_eq_nodes_keys hw y).mpr ((hw.rails_keys y).mp hy))
                          obtain ⟨l, hl, hl', hlnil⟩ := parentsOf_ok hw holdm
                          simp only at hl hlnil hl'
                          rw [hl] at hpe
                          simp only [Except.ok.injEq] at hpe
                          subst hpe
                          -- the new component is a source iff the node is a root
                          have hsrc : kindOfC c = .source ↔ s.preds t = [] := by
                            have hr := hw.roots (t, old) holdm
                            simp only at hr
                            constructor
                            · intro hk
                              apply Decidable.byContradiction
                              intro hne
                              have hlne : l ≠ [] := fun e => hne (hlnil.mp e)
                              cases hlc : l with
                              | nil => exact hlne hlc
                              | cons y ys =>
                                obtain ⟨q, hq, rfl⟩ := hl' y (by simp [hlc])
                                simp only [hlc] at hchk2
                                obtain ⟨qc, hqc⟩ := payload?_of_mem_ids (preds_live hs hq).1
                                simp only [hqc] at hchk2
                                split at hchk2
                                · simp at hchk2
                                · next hacc =>
                                  simp only [Bool.not_eq_true, Bool.not_eq_false'] at hacc
                                  exact accepts_not_source hacc ((ctype_source_iff _).mpr hk)
                            · intro hp
                              have hos : kindOfC old = .source := hr.mp hp
                              apply Decidable.byContradiction
                              intro hk
                              exact hsrcg ⟨(ctype_source_iff _).mpr hos, hk⟩
                          have hmul : 1 < (s.preds t).length → kindOfC c = .pmux := by
                            intro hm
                            have := hw.multi (t, old) holdm hm
                            apply Decidable.byContradiction
                            intro hk
                            exact hmuxg ⟨(ctype_pmux_iff _).mpr this, hk⟩
                          -- no second PMux
                          have hmux : kindOfC c = .pmux → ∀ p ∈ s.comps, p.1 ≠ t → kindOfC p.2 ≠ .pmux := by
                            intro hk p hp hpt hpk
                            by_cases hold_mux : kindOfC old = .pmux
                            · have := filter_length_le_one_inv hw.one_mux p hp (t, old) holdm (by simpa using hpk)
                                (by simpa using hold_mux)
                              exact hpt (by rw [this])
                            · apply hone
                              refine ⟨(ctype_pmux_iff _).mpr hk, fun h => hold_mux ((ctype_pmux_iff _).mp h), ?_⟩
                              exact List.any_eq_true.mpr ⟨p, hp, by simpa using hpk⟩
                          -- the registry deletions succeed
                          rw [if_neg (by simpa [Sys.setPayload] using hk1)]
                          rw [if_neg (by simpa [Sys.setPayload] using hk2)]
                          rw [if_neg (by simpa [Sys.setPayload] using hk3)]
                          simp only
                          apply wfr_replace hs hw (t := t) (old := old) (c := c) (x := x) (r' := Sys.effRail c r) holdm hxn
                          · rfl
                          · rfl
                          · rfl
                          · show dset (ddel s.nodes x) (nameOfC c) t = _
                            rw [dset_of_not_mem hcf0]
                          · show dkeys (dset (ddel s.phaseConf x) (nameOfC c) _) = _
                            rw [dset_of_not_mem hcf1]; simp
                          · show dkeys (dset (ddel s.groups x) (nameOfC c) _) = _
                            rw [dset_of_not_mem hcf2]; simp
                          · show dset (ddel s.rails x) (nameOfC c) _ = _
                            rw [dset_of_not_mem hcf3]
                          · exact hnm
                          · exact hrl
                          · exact hsrc
                          · exact hmul
                          · exact hmux
                          · exact kidsScan_none hkids

/-! ### set_sys_phases, set_comp_phases -/

/-- `WFr` reads the graph, `nodes`, `rails`, `pnames` and the key sets of `groups` / `phase_conf` only -/
theorem wfr_congr {s s' : Sys π ν} (hw : WFr s) (h1 : s'.comps = s.comps) (h2 : s'.edges = s.edges)
    (h3 : s'.nodes = s.nodes) (h4 : s'.rails = s.rails) (h5 : s'.pnames = s.pnames)
    (h6 : ∀ y, y ∈ dkeys s'.groups ↔ y ∈ dkeys s.groups)
    (h7 : ∀ y, y ∈ dkeys s'.phaseConf ↔ y ∈ dkeys s.phaseConf) : WFr s' := by
  have e1 : s'.names = s.names := by unfold Sys.names; rw [h1]
  have e2 : s'.railNames = s.railNames := by unfold Sys.railNames; rw [h4]
  have e3 : ∀ n, s'.preds n = s.preds n := by intro n; unfold Sys.preds; rw [h2]
  have e4 : ∀ n, s'.payload? n = s.payload? n := by intro n; unfold Sys.payload?; rw [h1]
  have e5 : ∀ n, s'.parentsOf n = s.parentsOf n := by
    intro n; unfold Sys.parentsOf; simp only [e3, h5, resolveAll_eq, h3, h4]
  constructor
  · rw [e1]; exact hw.names_nodup
  · rw [e2]; exact hw.rails_nodup
  · rw [e1, e2]; exact hw.disjoint
  · intro p hp; rw [e3]; exact hw.roots p (h1 ▸ hp)
  · intro p hp; rw [e3]; exact hw.multi p (h1 ▸ hp)
  · rw [h1]; exact hw.one_mux
  · intro e he pc cc; rw [e4, e4]; exact hw.links e (h2 ▸ he) pc cc
  · rw [h3, e1]; exact hw.nodes_keys
  · intro p hp; rw [h3]; exact hw.nodes_get p (h1 ▸ hp)
  · intro y; rw [h6, e1]; exact hw.groups_keys y
  · intro y; rw [h4, e1]; exact hw.rails_keys y
  · intro y; rw [h7, e1]; exact hw.pconf_keys y
  · intro p hp; rw [e3, e5]; exact hw.inputs p (h1 ▸ hp)

theorem wfr_setSysPhases {s : Sys π ν} (hw : WFr s) (ph : List (String × ν)) : WFr (s.setSysPhases ph).1 := by
  unfold Sys.setSysPhases Sys.fail
  split
  · exact hw
  · split
    · exact hw
    · exact wfr_congr hw rfl rfl rfl rfl rfl (fun _ => Iff.rfl) (fun _ => Iff.rfl)

theorem wfr_setCompPhases {s : Sys π ν} (hw : WFr s) (x : String) (pc : PConfArg ν) :
    WFr (s.setCompPhases x pc).1 := by
  unfold Sys.setCompPhases Sys.fail
  split
  · exact hw
  · next cidx hc =>
    split
    · exact hw
    · split
      · exact hw
      · split
        · exact hw
        · split
          · exact hw
          · have hx : x ∈ dkeys s.nodes := dget_some_key hc
            have hk : x ∈ dkeys s.phaseConf := (hw.pconf_keys x).mpr ((names_eq_nodes_keys hw x).mp hx)
            refine wfr_congr hw rfl rfl rfl rfl rfl (fun _ => Iff.rfl) ?_
            intro y
            show y ∈ dkeys (dset s.phaseConf x _) ↔ _
            rw [dkeys_dset_of_mem hk]

end
end SysLoss
