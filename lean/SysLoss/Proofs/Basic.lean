/-
  Proofs/Basic — the numeric primitives of Model/Num at a linearly ordered field coincide with the
  usual mathematical notions.
-/
import SysLoss.Model.Num
import Mathlib.Algebra.Order.Field.Basic
import Mathlib.Tactic.Linarith
import Mathlib.Tactic.Ring
import Mathlib.Tactic.FieldSimp

set_option linter.unusedSectionVars false

namespace SysLoss
variable {α : Type} [Field α] [LinearOrder α] [IsStrictOrderedRing α]

@[simp] theorem nabs_eq_abs (x : α) : nabs x = |x| := by
  unfold nabs; split_ifs with h
  · exact (abs_of_neg h).symm
  · exact (abs_of_nonneg (not_lt.mp h)).symm

@[simp] theorem isZ_iff (x : α) : isZ x = true ↔ x = 0 := by
  unfold isZ
  simp only [Bool.and_eq_true, Bool.not_eq_true', decide_eq_false_iff_not, not_lt]
  constructor
  · rintro ⟨h1, h2⟩; exact le_antisymm h2 h1
  · rintro rfl; exact ⟨le_refl _, le_refl _⟩

theorem isZ_false_iff (x : α) : isZ x = false ↔ x ≠ 0 := by
  rw [← Bool.not_eq_true, isZ_iff]

@[simp] theorem eqB_iff (a b : α) : eqB a b = true ↔ a = b := by
  unfold eqB
  simp only [Bool.and_eq_true, Bool.not_eq_true', decide_eq_false_iff_not, not_lt]
  constructor
  · rintro ⟨h1, h2⟩; exact le_antisymm h2 h1
  · rintro rfl; exact ⟨le_refl _, le_refl _⟩

@[simp] theorem leB_iff (a b : α) : leB a b = true ↔ a ≤ b := by
  unfold leB; simp

@[simp] theorem gtB_iff (a b : α) : gtB a b = true ↔ b < a := by
  unfold gtB; simp

@[simp] theorem nmin_eq_min (a b : α) : nmin a b = min a b := by
  unfold nmin; split_ifs with h
  · exact (min_eq_right h.le).symm
  · exact (min_eq_left (not_lt.mp h)).symm

@[simp] theorem nmax_eq_max (a b : α) : nmax a b = max a b := by
  unfold nmax; split_ifs with h
  · exact (max_eq_right h.le).symm
  · exact (max_eq_left (not_lt.mp h)).symm

theorem nsign_of_pos {x : α} (h : 0 < x) : nsign x = 1 := by
  unfold nsign; rw [if_neg (not_lt.mpr h.le), if_pos h]

theorem nsign_of_neg {x : α} (h : x < 0) : nsign x = -1 := by
  unfold nsign; rw [if_pos h]

@[simp] theorem nsign_zero : nsign (0 : α) = 0 := by
  unfold nsign; simp

theorem nsign_mul_abs (x : α) : nsign x * |x| = x := by
  rcases lt_trichotomy x 0 with h | h | h
  · rw [nsign_of_neg h, abs_of_neg h]; ring
  · subst h; simp
  · rw [nsign_of_pos h, abs_of_pos h]; ring

theorem nsign_eq_iff_pos {x y : α} (hy : 0 < y) : nsign x = nsign y ↔ 0 < x := by
  rw [nsign_of_pos hy]
  constructor
  · intro h
    by_contra hx
    rcases lt_or_eq_of_le (not_lt.mp hx) with h' | h'
    · rw [nsign_of_neg h'] at h; linarith [show (-1 : α) < 1 by norm_num]
    · subst h'; simp at h
  · intro h; exact nsign_of_pos h

theorem nsign_eq_iff_neg {x y : α} (hy : y < 0) : nsign x = nsign y ↔ x < 0 := by
  rw [nsign_of_neg hy]
  constructor
  · intro h
    by_contra hx
    rcases lt_or_eq_of_le (not_lt.mp hx) with h' | h'
    · rw [nsign_of_pos h'] at h; linarith [show (-1 : α) < 1 by norm_num]
    · subst h'; simp at h
  · intro h; exact nsign_of_neg h

theorem sumL_eq_sum (xs : List α) : sumL xs = xs.sum := by
  unfold sumL
  have : ∀ (a : α) (l : List α), l.foldl (· + ·) a = a + l.sum := by
    intro a l; induction l generalizing a with
    | nil => simp
    | cons x xs ih => simp [List.foldl_cons, ih, add_assoc]
  simpa using this 0 xs

end SysLoss
