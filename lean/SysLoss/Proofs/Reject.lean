/-
  Proofs/Reject — a call that raises (C15): from a well-formed state it leaves the state literally unchanged
  and the exception class is `ValueError`.
-/
import SysLoss.Proofs.Legal

set_option linter.unusedSectionVars false
set_option linter.unusedSimpArgs false
set_option linter.unusedVariables false

namespace SysLoss
section
variable {π ν : Type} [CompLike π]

/-- what C15 says about one call -/
def Rejects (s : Sys π ν) (r : Sys.Res π ν) : Prop :=
  ∀ e, r.2 = .raised e → r.1 = s ∧ e = "ValueError"

theorem rejects_fail_ve (s : Sys π ν) : Rejects s (Sys.fail s "ValueError") := by
  intro e he
  simp only [Sys.fail, Outcome.raised.injEq] at he
  exact ⟨rfl, he.symm⟩

theorem rejects_ok (s s' : Sys π ν) : Rejects s (s', .ok) := by
  intro e he; simp at he

theorem rejects_fail_of (s : Sys π ν) {e : String} (h : e = "ValueError") : Rejects s (Sys.fail s e) := by
  subst h; exact rejects_fail_ve s

theorem reject_addSource (s : Sys π ν) (c : π) (g r : String) : Rejects s (s.addSource c g r) := by
  unfold Sys.addSource
  split
  · exact rejects_fail_ve s
  · split
    · exact rejects_fail_ve s
    · exact rejects_ok s _

theorem resolveAll_ok {s : Sys π ν} (hw : WFr s) (l : List String) : ∃ res, s.resolveAll l = .ok res := by
  rw [resolveAll_eq]
  exact resolveList_total (fun x _ => by rw [← getIndex_eq_resolve]; exact getIndex_ok hw x)

theorem resolveParents_err {s : Sys π ν} (hw : WFr s) {c : π} {l : List String} {e : String}
    (hl : ∀ x ∈ l, s.chkParent x = true) (h : s.resolveParents c l = .error e) : e = "ValueError" := by
  induction l with
  | nil => simp [Sys.resolveParents] at h
  | cons x xs ih =>
    unfold Sys.resolveParents at h
    obtain ⟨n, hn⟩ := (chkParent_iff hw x).mp (hl x (by simp))
    rw [hn] at h
    simp only at h
    obtain ⟨pc, hpc⟩ := payload?_of_mem_ids (getIndex_live hw hn)
    rw [hpc] at h
    simp only at h
    split at h
    · simpa using h.symm
    · split at h
      · next e' he' =>
        simp only [Except.error.injEq] at h
        subst h
        exact ih (fun y hy => hl y (List.mem_cons_of_mem _ hy)) he'
      · simp at h

theorem muxScan_err {s : Sys π ν} (hs : Sane s) (hw : WFr s) {l : List (String × Nat)} (hl : ∀ p ∈ l, p ∈ s.nodes)
    {e : String} (h : s.muxScan l = some e) : e = "ValueError" := by
  induction l with
  | nil => simp [Sys.muxScan] at h
  | cons p t ih =>
    obtain ⟨k, i⟩ := p
    unfold Sys.muxScan at h
    have hk : (k, i) ∈ s.nodes := hl _ (by simp)
    obtain ⟨p, hp, _, hpi⟩ := nodes_get_live hw (dget_of_mem_nodup hs.nodes_nodup hk)
    have hpay : s.payload? i = some p.2 := by rw [← hpi]; exact payload?_of_mem hs hp
    rw [hpay] at h
    simp only at h
    split at h
    · simpa using h.symm
    · exact ih (fun q hq => hl q (List.mem_cons_of_mem _ hq)) h

theorem reject_addComp {s : Sys π ν} (hs : Sane s) (hw : WFr s) (par : ParentArg) (c : π) (g r : String) :
    Rejects s (s.addComp par c g r) := by
  unfold Sys.addComp
  simp only
  split
  · next e he =>
    apply rejects_fail_of
    cases par with
    | one p =>
      simp only at he
      split at he
      · simp at he
      · simpa using he.symm
    | many ps =>
      simp only at he
      split at he
      · simpa using he.symm
      · split at he
        · simpa using he.symm
        · split at he
          · simpa using he.symm
          · split at he
            · simpa using he.symm
            · obtain ⟨res, hres⟩ := resolveAll_ok hw ps
              rw [hres] at he
              simp only at he
              split at he
              · simpa using he.symm
              · simp at he
  · next plist hplist =>
    have hchk : ∀ x ∈ plist, s.chkParent x = true := by
      cases par with
      | one p =>
        simp only at hplist
        split at hplist
        · next h => simp only [Except.ok.injEq] at hplist; subst hplist; simpa using h
        · simp at hplist
      | many ps =>
        simp only at hplist
        split at hplist
        · simp at hplist
        · split at hplist
          · simp at hplist
          · split at hplist
            · simp at hplist
            · split at hplist
              · simp at hplist
              · next h =>
                split at hplist
                · simp at hplist
                · split at hplist
                  · simp at hplist
                  · simp only [Except.ok.injEq] at hplist; subst hplist
                    simpa using h
    have hne : plist ≠ [] := by
      cases par with
      | one p =>
        simp only at hplist
        split at hplist
        · simp only [Except.ok.injEq] at hplist; subst hplist; simp
        · simp at hplist
      | many ps =>
        simp only at hplist
        split at hplist
        · simp at hplist
        · next hps =>
          split at hplist
          · simp at hplist
          · split at hplist
            · simp at hplist
            · split at hplist
              · simp at hplist
              · split at hplist
                · simp at hplist
                · split at hplist
                  · simp at hplist
                  · simp only [Except.ok.injEq] at hplist; subst hplist; exact hps
    split
    · exact rejects_fail_ve s
    · split
      · next e he => exact rejects_fail_of s (resolveParents_err hw hchk he)
      · next pidx hpidx =>
        split
        · next e he =>
          apply rejects_fail_of
          split at he
          · exact muxScan_err hs hw (fun p hp => hp) he
          · simp at he
        · split
          · exfalso
            have hlen := (resolveParents_spec hpidx).1
            simp only [List.length_nil] at hlen
            exact hne (List.eq_nil_of_length_eq_zero hlen.symm)
          · exact rejects_ok s _

theorem kidsScan_err {s : Sys π ν} (hs : Sane s) {c : π} {l : List Nat} (hl : ∀ k ∈ l, k ∈ s.ids) {e : String}
    (h : s.kidsScan c l = some e) : e = "ValueError" := by
  induction l with
  | nil => simp [Sys.kidsScan] at h
  | cons k ks ih =>
    unfold Sys.kidsScan at h
    obtain ⟨kc, hkc⟩ := payload?_of_mem_ids (hl k (by simp))
    rw [hkc] at h
    simp only at h
    split at h
    · simpa using h.symm
    · exact ih (fun q hq => hl q (List.mem_cons_of_mem _ hq)) h

theorem refsErr_none {s : Sys π ν} (hw : WFr s) (d : List (Nat × List String)) : s.refsErr d = none := by
  induction d with
  | nil => rfl
  | cons kp t ih =>
    obtain ⟨k, pl⟩ := kp
    unfold Sys.refsErr
    obtain ⟨res, hres⟩ := resolveAll_ok hw pl
    rw [hres]
    exact ih

theorem reject_changeComp {s : Sys π ν} (hs : Sane s) (hw : WFr s) (x : String) (c : π) (g r : String) :
    Rejects s (s.changeComp x c g r) := by
  unfold Sys.changeComp
  simp only
  split
  · exact rejects_fail_ve s
  · next hchk =>
    simp only [Bool.not_eq_true, Bool.not_eq_false', Sys.chkComp, decide_eq_true_eq] at hchk
    have hxnames : x ∈ s.names := (names_eq_nodes_keys hw x).mp hchk
    split
    · next e he =>
      apply rejects_fail_of
      split at he
      · split at he
        · simpa using he.symm
        · simp at he
      · split at he
        · simp at he
        · obtain ⟨cur, hcur⟩ := dget_isSome_iff.mpr ((hw.rails_keys x).mpr hxnames)
          rw [hcur] at he
          simp only at he
          split at he
          · simp at he
          · split at he
            · simpa using he.symm
            · split at he
              · simpa using he.symm
              · simp at he
    · obtain ⟨t, hxget⟩ := dget_isSome_iff.mpr hchk
      have ht : s.getIndex x = .ok (some t) := by unfold Sys.getIndex; rw [hxget]
      rw [ht]
      simp only
      obtain ⟨p, hpm, hpn, hpt⟩ := nodes_get_live hw hxget
      obtain ⟨t', old⟩ := p
      simp only at hpn hpt; subst hpt
      rw [payload?_of_mem hs hpm]
      simp only
      split
      · exact rejects_fail_ve s
      · split
        · exact rejects_fail_ve s
        · split
          · exact rejects_fail_ve s
          · rw [parentsErr_none hw]
            simp only
            obtain ⟨l, hl, hl', _⟩ := parentsOf_ok hw hpm
            simp only at hl hl'
            rw [hl]
            simp only
            split
            · next e he =>
              apply rejects_fail_of
              cases hlc : l with
              | nil => rw [hlc] at he; simp at he
              | cons y ys =>
                obtain ⟨q, hq, rfl⟩ := hl' y (by simp [hlc])
                rw [hlc] at he
                simp only at he
                obtain ⟨qc, hqc⟩ := payload?_of_mem_ids (preds_live hs hq).1
                rw [hqc] at he
                simp only at he
                split at he
                · simpa using he.symm
                · simp at he
            · split
              · next e he =>
                exact rejects_fail_of s (kidsScan_err hs (fun k hk => (hs.edges_live _ (mem_succs.mp hk)).2) he)
              · rw [refsErr_none hw]
                simp only
                have hnm := mem_names_of_mem hpm
                simp only at hnm
                rw [hpn] at hnm
                rw [if_neg (by simpa [Sys.setPayload] using (hw.pconf_keys x).mpr hnm)]
                rw [if_neg (by simpa [Sys.setPayload] using (hw.groups_keys x).mpr hnm)]
                rw [if_neg (by simpa [Sys.setPayload] using (hw.rails_keys x).mpr hnm)]
                exact rejects_ok s _

theorem reject_setSysPhases (s : Sys π ν) (ph : List (String × ν)) : Rejects s (s.setSysPhases ph) := by
  unfold Sys.setSysPhases
  split
  · exact rejects_fail_ve s
  · split
    · exact rejects_fail_ve s
    · exact rejects_ok s _

theorem reject_setCompPhases {s : Sys π ν} (hs : Sane s) (hw : WFr s) (x : String) (pc : PConfArg ν) :
    Rejects s (s.setCompPhases x pc) := by
  unfold Sys.setCompPhases
  split
  · exact rejects_fail_ve s
  · next cidx hc =>
    split
    · exact rejects_fail_ve s
    · obtain ⟨p, hp, _, hpi⟩ := nodes_get_live hw hc
      have hpay : s.payload? cidx = some p.2 := by rw [← hpi]; exact payload?_of_mem hs hp
      rw [hpay]
      simp only
      split
      · exact rejects_fail_ve s
      · split
        · exact rejects_fail_ve s
        · exact rejects_ok s _

theorem reject_delComp {s : Sys π ν} (hl : Legal s) (hw : WFr s) (x : String) (d : Bool) :
    Rejects s (s.delComp x d) := by
  intro e he
  rcases delComp_spec hl.sane hw hl.pnames_total x d with h | ⟨h, _⟩
  · rw [h] at he ⊢
    simp only [Outcome.raised.injEq] at he
    exact ⟨rfl, he.symm⟩
  · rw [h] at he; simp at he

/-- C15 for one call -/
theorem reject_step {s : Sys π ν} (hl : Legal s) (hw : WFr s) (op : Op π ν) : Rejects s (s.step op) := by
  cases op with
  | addSource c g r => exact reject_addSource s c g r
  | addComp p c g r => exact reject_addComp hl.sane hw p c g r
  | changeComp x c g r => exact reject_changeComp hl.sane hw x c g r
  | delComp x d => exact reject_delComp hl hw x d
  | setSysPhases ph => exact reject_setSysPhases s ph
  | setCompPhases x pc => exact reject_setCompPhases hl.sane hw x pc

end
end SysLoss
