/-
  Proofs/Reject — a call that raises (C15): from a well-formed state, and unless it is `del_comp(<rail name>)`
  (`Safe15`), the state is left literally unchanged and the class is `ValueError`
  (except `add_comp(parent=[])`: `IndexError`, state unchanged — `SafeErr`).
-/
import SysLoss.Proofs.WfAbs

set_option linter.unusedSectionVars false
set_option linter.unusedSimpArgs false
set_option linter.unusedVariables false

namespace SysLoss
section
variable {π ν : Type} [CompLike π]

/-- what C15 says about one call -/
def Rejects (s : Sys π ν) (r : Sys.Res π ν) (errOk : Prop) : Prop :=
  ∀ e, r.2 = .raised e → r.1 = s ∧ (errOk → e = "ValueError")

theorem rejects_fail_ve (s : Sys π ν) (P : Prop) : Rejects s (Sys.fail s "ValueError") P := by
  intro e he
  simp only [Sys.fail, Outcome.raised.injEq] at he
  exact ⟨rfl, fun _ => he.symm⟩

theorem rejects_ok (s s' : Sys π ν) (P : Prop) : Rejects s (s', .ok) P := by
  intro e he; simp at he

theorem reject_addSource (s : Sys π ν) (c : π) (g r : String) : Rejects s (s.addSource c g r) True := by
  unfold Sys.addSource
  split
  · exact rejects_fail_ve s _
  · split
    · exact rejects_fail_ve s _
    · exact rejects_ok s _ _

theorem resolveParents_err {s : Sys π ν} (hw : WFr s) {c : π} {l : List String} {e : String}
    (hl : ∀ x ∈ l, s.chkParent x = true) (h : s.resolveParents c l = .error e) : e = "ValueError" := by
  induction l with
  | nil => simp [Sys.resolveParents] at h
  | cons x xs ih =>
    unfold Sys.resolveParents at h
    obtain ⟨n, hn⟩ := (chkParent_iff hw x).mp (hl x (by simp))
    rw [hn] at h
    simp only at h
    obtain ⟨pc, hpc⟩ := payload?_of_mem_ids (getIndex_live hw hn)
    rw [hpc] at h
    simp only at h
    split at h
    · simpa using h.symm
    · split at h
      · next e' he' =>
        simp only [Except.error.injEq] at h
        subst h
        exact ih (fun y hy => hl y (List.mem_cons_of_mem _ hy)) he'
      · simp at h

theorem muxScan_err {s : Sys π ν} (hs : Sane s) (hw : WFr s) {l : List (String × Nat)} (hl : ∀ p ∈ l, p ∈ s.nodes)
    {e : String} (h : s.muxScan l = some e) : e = "ValueError" := by
  induction l with
  | nil => simp [Sys.muxScan] at h
  | cons p t ih =>
    obtain ⟨k, i⟩ := p
    unfold Sys.muxScan at h
    have hk : (k, i) ∈ s.nodes := hl _ (by simp)
    obtain ⟨p, hp, _, hpi⟩ := nodes_get_live hw (dget_of_mem_nodup hs.nodes_nodup hk)
    have hpay : s.payload? i = some p.2 := by rw [← hpi]; exact payload?_of_mem hs hp
    rw [hpay] at h
    simp only at h
    split at h
    · simpa using h.symm
    · exact ih (fun q hq => hl q (List.mem_cons_of_mem _ hq)) h

theorem reject_addComp {s : Sys π ν} (hs : Sane s) (hw : WFr s) (par : ParentArg) (c : π) (g r : String) :
    Rejects s (s.addComp par c g r) (Sys.SafeErr (.addComp par c g r : Op π ν)) := by
  unfold Sys.addComp
  simp only
  split
  · exact rejects_fail_ve s _
  · next plist hplist =>
    have hchk : ∀ x ∈ plist, s.chkParent x = true := by
      cases par with
      | one p =>
        simp only at hplist
        split at hplist
        · next h => simp only [Option.some.injEq] at hplist; subst hplist; simpa using h
        · simp at hplist
      | many ps =>
        simp only at hplist
        split at hplist
        · simp at hplist
        · split at hplist
          · simp at hplist
          · split at hplist
            · next h => simp only [Option.some.injEq] at hplist; subst hplist; simpa using h
            · simp at hplist
    split
    · exact rejects_fail_ve s _
    · split
      · next e he =>
        intro e' he'
        simp only [Sys.fail, Outcome.raised.injEq] at he'
        exact ⟨rfl, fun _ => he' ▸ resolveParents_err hw hchk he⟩
      · next pidx hpidx =>
        split
        · next e he =>
          intro e' he'
          simp only [Sys.fail, Outcome.raised.injEq] at he'
          refine ⟨rfl, fun _ => he' ▸ ?_⟩
          split at he
          · exact muxScan_err hs hw (fun p hp => hp) he
          · simp at he
        · split
          · -- `pidx = []`: only for `parent = []`
            intro e' he'
            refine ⟨rfl, fun hsafe => ?_⟩
            exfalso
            have hlen := (resolveParents_spec hpidx).1
            simp only [List.length_nil] at hlen
            have hpl : plist = [] := List.eq_nil_of_length_eq_zero hlen.symm
            subst hpl
            cases par with
            | one p =>
              simp only at hplist
              split at hplist <;> simp at hplist
            | many ps =>
              simp only at hplist
              split at hplist
              · simp at hplist
              · split at hplist
                · simp at hplist
                · split at hplist
                  · simp only [Option.some.injEq] at hplist
                    subst hplist
                    exact hsafe
                  · simp at hplist
          · exact rejects_ok s _ _

theorem reject_changeComp {s : Sys π ν} (hs : Sane s) (hw : WFr s) (x : String) (c : π) (g r : String) :
    Rejects s (s.changeComp x c g r) True := by
  unfold Sys.changeComp
  simp only
  split
  · exact rejects_fail_ve s _
  · next hchk =>
    split
    · exact rejects_fail_ve s _
    · simp only [Bool.not_eq_true, Bool.not_eq_false', Sys.chkComp, decide_eq_true_eq] at hchk
      obtain ⟨t, hxget⟩ := dget_isSome_iff.mpr hchk
      have ht : s.getIndex x = .ok (some t) := by unfold Sys.getIndex; rw [hxget]
      rw [ht]
      simp only
      obtain ⟨p, hpm, hpn, hpt⟩ := nodes_get_live hw hxget
      obtain ⟨t', old⟩ := p
      simp only at hpn hpt; subst hpt
      rw [payload?_of_mem hs hpm]
      simp only
      split
      · exact rejects_fail_ve s _
      · split
        · exact rejects_fail_ve s _
        · rw [parentsErr_none hw]
          simp only
          obtain ⟨l, hl, hl', _⟩ := parentsOf_ok hw hpm
          simp only at hl hl'
          rw [hl]
          simp only
          split
          · next e he =>
            intro e' he'
            simp only [Sys.fail, Outcome.raised.injEq] at he'
            refine ⟨rfl, fun _ => he' ▸ ?_⟩
            cases hlc : l with
            | nil => rw [hlc] at he; simp at he
            | cons y ys =>
              obtain ⟨q, hq, rfl⟩ := hl' y (by simp [hlc])
              rw [hlc] at he
              simp only at he
              obtain ⟨qc, hqc⟩ := payload?_of_mem_ids (preds_live hs hq).1
              rw [hqc] at he
              simp only at he
              split at he
              · simpa using he.symm
              · simp at he
          · have hnm := mem_names_of_mem hpm
            simp only at hnm
            rw [hpn] at hnm
            rw [if_neg (by simpa [Sys.setPayload] using (hw.pconf_keys x).mpr hnm)]
            rw [if_neg (by simpa [Sys.setPayload] using (hw.groups_keys x).mpr hnm)]
            rw [if_neg (by simpa [Sys.setPayload] using (hw.rails_keys x).mpr hnm)]
            exact rejects_ok s _ _

theorem reject_setSysPhases (s : Sys π ν) (ph : List (String × ν)) : Rejects s (s.setSysPhases ph) True := by
  unfold Sys.setSysPhases
  split
  · exact rejects_fail_ve s _
  · split
    · exact rejects_fail_ve s _
    · exact rejects_ok s _ _

theorem reject_setCompPhases {s : Sys π ν} (hs : Sane s) (hw : WFr s) (x : String) (pc : PConfArg ν) :
    Rejects s (s.setCompPhases x pc) True := by
  unfold Sys.setCompPhases
  obtain ⟨r, hr⟩ := getIndex_ok hw x
  rw [hr]
  cases r with
  | none => exact rejects_fail_ve s _
  | some cidx =>
    simp only
    split
    · exact rejects_fail_ve s _
    · obtain ⟨c, hc⟩ := payload?_of_mem_ids (getIndex_live hw hr)
      rw [hc]
      simp only
      split
      · exact rejects_fail_ve s _
      · exact rejects_ok s _ _

theorem reject_delComp {s : Sys π ν} (hs : Sane s) (hw : WFr s) (x : String) (d : Bool) (hsafe : s.byName x) :
    Rejects s (s.delComp x d) True := by
  unfold Sys.delComp
  simp only
  obtain ⟨r, hr⟩ := getIndex_ok hw x
  rw [hr]
  cases r with
  | none => exact rejects_fail_ve s _
  | some t =>
    simp only
    rw [parentsErr_none hw]
    simp only
    have htl : t ∈ s.ids := getIndex_live hw hr
    rw [if_neg (by simpa using htl)]
    have hx : x ∈ dkeys s.nodes := by
      rcases hsafe with h | h
      · exact h
      · rw [h] at hr; simp at hr
    have hxget : dget s.nodes x = some t := by
      unfold Sys.getIndex at hr
      obtain ⟨v, hv⟩ := dget_isSome_iff.mpr hx
      simp only [hv, Except.ok.injEq, Option.some.injEq] at hr
      rw [hv, hr]
    obtain ⟨p, hpm, hpn, hpt⟩ := nodes_get_live hw hxget
    obtain ⟨t', tc⟩ := p
    simp only at hpn hpt; subst hpt
    obtain ⟨l, hl, hl', hlnil⟩ := parentsOf_ok hw hpm
    simp only at hl hl' hlnil
    rw [hl]
    simp only
    split
    · exact rejects_fail_ve s _
    · next hg1 =>
      split
      · exact rejects_fail_ve s _
      · have hrk := regsKnow_of_wfr hw
        have htpay : s.payload? t' = some tc := payload?_of_mem hs hpm
        cases d with
        | true =>
          simp only [if_true]
          have hDlive : ∀ c ∈ s.descendants t', c ∈ s.ids := by
            intro c hc
            obtain ⟨b, hb⟩ := (mem_descendants.mp hc).2.last_mem
            exact (hs.edges_live _ hb).2
          obtain ⟨o1, p1⟩ := delDescendants_spec hs hrk (s.descendants t') (nodup_descendants s t') hDlive
          generalize hr1 : s.delDescendants (s.descendants t') = r1 at o1 p1 ⊢
          obtain ⟨s1, out1⟩ := r1
          simp only at o1 p1; subst o1
          unfold Sys.andThen
          simp only
          have hs1 : Sane s1 := by
            have := sane_delDescendants hs (s.descendants t')
            rw [hr1] at this; exact this
          have hrk1 := regsKnow_pruned hs hrk p1
          have htD : t' ∉ s.descendants t' := fun h => (mem_descendants.mp h).1 rfl
          have htpay1 : s1.payload? t' = some tc := by
            rw [payload?_filter hs p1.comps]; simp [htD, htpay]
          have hm1 := mem_of_payload? htpay1
          obtain ⟨o2, _⟩ := pruned_one' hs1 htpay1 (hrk1.nodes _ hm1) (hrk1.pconf _ hm1) (hrk1.groups _ hm1)
            (hrk1.rails _ hm1)
          rw [hpn] at o2
          generalize hr2 : (s1.removeNode t').delRegs x = r2 at o2 ⊢
          obtain ⟨s2, out2⟩ := r2
          simp only at o2; subst o2
          exact rejects_ok s _ _
        | false =>
          simp only [Bool.false_eq_true, if_false]
          unfold Sys.andThen
          simp only
          obtain ⟨o2, p2⟩ := pruned_one' hs htpay (hrk.nodes _ hpm) (hrk.pconf _ hpm) (hrk.groups _ hpm)
            (hrk.rails _ hpm)
          rw [hpn] at o2 p2
          generalize hr2 : (s.removeNode t').delRegs x = r2 at o2 p2 ⊢
          obtain ⟨s2, out2⟩ := r2
          simp only at o2 p2; subst o2
          simp only
          have hs2 : Sane s2 := by
            have := sane_delRegs (sane_removeNode hs t') x
            rw [hr2] at this; exact this
          have hlne : l ≠ [] := by
            intro e; apply hg1; simp [e]
          cases hsucc : s.succs t' with
          | nil => exact rejects_ok s _ _
          | cons c0 cs0 =>
            cases hlc : l with
            | nil => exact absurd hlc hlne
            | cons y ys =>
              obtain ⟨p0, hp0, rfl⟩ := hl' y (by simp [hlc])
              simp only
              rw [← hsucc]
              have hacyc := hs.acyclic
              have hp0e : (p0, t') ∈ s.edges := mem_preds.mp hp0
              have hp0t : p0 ≠ t' := fun e => hacyc t' (.single (by rw [e] at hp0e; exact hp0e))
              have hids2 : ∀ n, n ∈ s2.ids ↔ n ∈ s.ids ∧ n ≠ t' := by
                intro n; unfold Sys.ids; rw [p2.comps]
                simp only [List.mem_map, List.mem_filter, List.mem_singleton, decide_eq_true_eq]
                constructor
                · rintro ⟨q, ⟨h1, h2⟩, rfl⟩; exact ⟨⟨q, h1, rfl⟩, h2⟩
                · rintro ⟨⟨q, h1, rfl⟩, h2⟩; exact ⟨q, ⟨h1, h2⟩, rfl⟩
              have hsub2 : ∀ e ∈ s2.edges, e ∈ s.edges := by
                intro e he; rw [p2.edges] at he; exact (List.mem_filter.mp he).1
              have hL : ∀ c ∈ s.succs t', c ∈ s2.ids ∧ c ≠ p0 ∧ ¬ Path s2.edges c p0 := by
                intro c hc
                have hce : (t', c) ∈ s.edges := mem_succs.mp hc
                have hct : c ≠ t' := fun e => hacyc t' (.single (by rw [e] at hce; exact hce))
                refine ⟨(hids2 c).mpr ⟨(hs.edges_live _ hce).2, hct⟩, ?_, ?_⟩
                · intro e; subst e
                  exact hacyc t' (.cons hce (.single hp0e))
                · intro hpath
                  exact hacyc t' (.cons hce ((hpath.mono hsub2).snoc hp0e))
              obtain ⟨o3, _⟩ := relink_spec hs2 p0 (s.succs t')
                ((hids2 p0).mpr ⟨(hs.edges_live _ hp0e).1, hp0t⟩) hL
              intro e he
              rw [o3] at he; simp at he

/-- C15 for one call -/
theorem reject_step {s : Sys π ν} (hs : Sane s) (hw : WFr s) (op : Op π ν) (hsafe : s.Safe15 op) :
    Rejects s (s.step op) (Sys.SafeErr op) := by
  cases op with
  | addSource c g r => intro e he; exact ⟨(reject_addSource s c g r e he).1, fun _ => (reject_addSource s c g r e he).2 trivial⟩
  | addComp p c g r => exact reject_addComp hs hw p c g r
  | changeComp x c g r => intro e he; exact ⟨(reject_changeComp hs hw x c g r e he).1, fun _ => (reject_changeComp hs hw x c g r e he).2 trivial⟩
  | delComp x d => intro e he; exact ⟨(reject_delComp hs hw x d hsafe e he).1, fun _ => (reject_delComp hs hw x d hsafe e he).2 trivial⟩
  | setSysPhases ph => intro e he; exact ⟨(reject_setSysPhases s ph e he).1, fun _ => (reject_setSysPhases s ph e he).2 trivial⟩
  | setCompPhases x pc => intro e he; exact ⟨(reject_setCompPhases hs hw x pc e he).1, fun _ => (reject_setCompPhases hs hw x pc e he).2 trivial⟩

end
end SysLoss
