/-
  Proofs/Persist — a component that a constructor built, dumped by `save` and rebuilt by `from_file`, is the
  same component (`reload_*`), at a linearly ordered field.  Used by Props/C12.
-/
import SysLoss.Proofs.Ctor
import SysLoss.Model.Persist

set_option linter.unusedSectionVars false
set_option linter.unusedVariables false
set_option linter.unusedSimpArgs false

namespace SysLoss
variable {α : Type} [Field α] [LinearOrder α] [IsStrictOrderedRing α]

/-! ### equivalence of components -/

/-- the same interpolation data (the diagonal choice of a 2-D table is scipy's, a function of the data) -/
def Param.sameData : Param α → Param α → Prop
  | .const a, .const b => a = b
  | .tab1 xs fs, .tab1 xs' fs' => xs = xs' ∧ fs = fs'
  | .tab2 xs ys f _, .tab2 xs' ys' f' _ => xs = xs' ∧ ys = ys' ∧ f = f'
  | _, _ => False

theorem Param.sameData_refl (p : Param α) : p.sameData p := by
  cases p <;> simp [Param.sameData]

/-- forget scipy's diagonal choice -/
def Param.dropDiag : Param α → Param α
  | .tab2 xs ys f _ => .tab2 xs ys f (boolGrid (none : Option (PV α)))
  | p => p

theorem Param.sameData_dropDiag (p : Param α) : p.dropDiag.sameData p := by
  cases p <;> simp [Param.sameData, Param.dropDiag]

/-- `c'` is `c` as far as the property goes: kind, name, every normalised parameter, the interpolation data,
    the rectifier mode, the stored `_params`, and the limits applicable to the kind -/
structure CompEquiv (c' c : Comp α) : Prop where
  name : c'.name = c.name
  kind : c'.kind = c.kind
  vo : c'.vo = c.vo
  rs : c'.rs = c.rs
  rsList : c'.rsList = c.rsList
  par : c'.par.sameData c.par
  vdrop : c'.vdrop = c.vdrop
  iq : c'.iq = c.iq
  iis : c'.iis = c.iis
  rt : c'.rt = c.rt
  pwr : c'.pwr = c.pwr
  pwrs : c'.pwrs = c.pwrs
  ii : c'.ii = c.ii
  loss : c'.loss = c.loss
  diode : c'.diode = c.diode
  params : c'.params = c.params
  limits : ∀ key ∈ c.kind.limitKeys, lookupLimit c'.limits key = lookupLimit c.limits key

/-! ### tables without the `__diag` annotation -/

theorem lookup_filter_ne {β : Type} (d : List (String × β)) (k x : String) (h : (k == x) = false) :
    (d.filter fun kv => kv.1 != x).lookup k = d.lookup k := by
  induction d with
  | nil => rfl
  | cons p rest ih =>
    obtain ⟨a, b⟩ := p
    by_cases hax : a = x
    · subst hax
      have : (k == a) = false := h
      simp [List.filter, List.lookup, this, ih]
    · have : (a != x) = true := by simpa using hax
      simp only [List.filter, this, List.lookup]
      cases hka : (k == a) <;> simp [ih]

theorem lookup_filter_self {β : Type} (d : List (String × β)) (x : String) :
    (d.filter fun kv => kv.1 != x).lookup x = none := by
  induction d with
  | nil => rfl
  | cons p rest ih =>
    obtain ⟨a, b⟩ := p
    by_cases hax : a = x
    · subst hax; simp [List.filter, ih]
    · have h1 : (a != x) = true := by simpa using hax
      have h2 : (x == a) = false := by simpa using (Ne.symm hax)
      simp [List.filter, h1, List.lookup, h2, ih]

theorem stripDiag_idem (x : PV α) : stripDiag (stripDiag x) = stripDiag x := by
  cases x <;> simp [stripDiag, List.filter_filter]

theorem mkTable_stripDiag (d : List (String × PV α)) (z : String) (hz : (z == "__diag") = false)
    (chk : List α → Except Err Unit) :
    mkTable (d.filter fun kv => kv.1 != "__diag") z chk =
      (mkTable d z chk).map (fun pv => (pv.1.dropDiag, pv.2)) := by
  unfold mkTable
  rw [lookup_filter_ne d "vi" "__diag" (by decide), lookup_filter_ne d "io" "__diag" (by decide),
    lookup_filter_ne d z "__diag" hz, lookup_filter_self]
  cases d.lookup "vi" <;> cases d.lookup "io" <;> cases d.lookup z <;> try rfl
  rename_i vi io zz
  simp only
  cases ioAxis io with
  | error e => rfl
  | ok ios =>
    simp only [ex_bind_ok]
    by_cases h1 : (!strictlyIncreasing (ios.map nabs)) = true
    · simp only [if_pos h1]; rfl
    · simp only [if_neg h1]
      cases tableRows vi zz ios.length z with
      | error e => rfl
      | ok rows =>
        simp only [ex_bind_ok]
        cases chk rows.flatten with
        | error e => rfl
        | ok u =>
          simp only [ex_bind_ok]
          by_cases h2 : (rows.length == 1) = true
          · simp only [if_pos h2]; rfl
          · simp only [if_neg h2]
            cases numList "vi" vi with
            | error e => rfl
            | ok vis =>
              simp only [ex_bind_ok]
              by_cases h3 : ios.isEmpty = true
              · simp only [if_pos h3]; rfl
              · simp only [if_neg h3]
                by_cases h4 : (allSame ios || allSame vis) = true
                · simp only [if_pos h4]; rfl
                · simp only [if_neg h4]; rfl

theorem map_bind_pure {β γ δ : Type} (x : Except Err β) (g : β → γ) (f : γ → δ) :
    Except.map f (x >>= fun v => pure (g v)) = x >>= fun v => pure (f (g v)) := by
  cases x <;> rfl

theorem map_bind_fix {β γ : Type} (x : Except Err β) (k : β → Except Err γ) (f : γ → γ)
    (h : ∀ v, Except.map f (k v) = k v) : Except.map f (x >>= k) = x >>= k := by
  cases x with
  | error e => rfl
  | ok v => exact h v

theorem mkIg_stripDiag (ig : PV α) : mkIg (stripDiag ig) = (mkIg ig).map Param.dropDiag := by
  cases ig with
  | dict d =>
    simp only [stripDiag, mkIg, mkTable_stripDiag d "ig" (by decide)]
    cases mkTable d "ig" chkIg <;> rfl
  | _ => exact (map_bind_pure _ _ _).symm

theorem mkEff_stripDiag (eff : PV α) : mkEff (stripDiag eff) = (mkEff eff).map Param.dropDiag := by
  cases eff with
  | dict d =>
    simp only [stripDiag, mkEff, mkTable_stripDiag d "eff" (by decide)]
    cases mkTable d "eff" chkEff <;> rfl
  | _ =>
    simp only [stripDiag, mkEff]
    refine (map_bind_fix _ _ _ ?_).symm
    intro e
    split_ifs <;> rfl

theorem isZ_zero : isZ (0 : α) = true := by simp

theorem isZ_abs (x : α) : isZ |x| = isZ x := by
  rw [Bool.eq_iff_iff]; simp [isZ_iff]

/-- the stored `vdrop` rebuilds the same interpolator and is stored unchanged; zero-ness is kept -/
theorem mkVdrop_reload {vd st : PV α} {p : Param α} (h : mkVdrop vd = .ok (p, st)) :
    mkVdrop st = .ok (p.dropDiag, st) ∧ nonZeroArg st = nonZeroArg vd := by
  cases vd with
  | dict d =>
    simp only [mkVdrop] at h
    obtain ⟨pv, hpv, h⟩ := ex_bind_eq_ok h
    simp only [ex_pure, Except.ok.injEq, Prod.mk.injEq] at h
    obtain ⟨rfl, rfl⟩ := h
    constructor
    · simp only [stripDiag, mkVdrop, mkTable_stripDiag d "vdrop" (by decide), hpv, List.filter_filter,
        Bool.and_self]
      rfl
    · rfl
  | null => simp [mkVdrop, absArg, PV.num?] at h
  | str s => simp [mkVdrop, absArg, PV.num?] at h
  | list l => simp [mkVdrop, absArg, PV.num?] at h
  | bool b =>
    simp only [mkVdrop] at h
    obtain ⟨v, hv, h⟩ := ex_bind_eq_ok h
    simp only [ex_pure, Except.ok.injEq, Prod.mk.injEq] at h
    obtain ⟨rfl, rfl⟩ := h
    obtain ⟨w, hw, rfl⟩ := absArg_ok hv
    simp only [PV.num?, Option.some.injEq] at hw
    subst hw
    constructor
    · simp [mkVdrop, absArg, PV.num?, Param.dropDiag]
    · cases b <;> simp [nonZeroArg, PV.num?, isZ_iff]
  | int x =>
    simp only [mkVdrop] at h
    obtain ⟨v, hv, h⟩ := ex_bind_eq_ok h
    simp only [ex_pure, Except.ok.injEq, Prod.mk.injEq] at h
    obtain ⟨rfl, rfl⟩ := h
    obtain ⟨w, hw, rfl⟩ := absArg_ok hv
    simp only [PV.num?, Option.some.injEq] at hw
    subst hw
    constructor
    · simp [mkVdrop, absArg, PV.num?, Param.dropDiag]
    · simp [nonZeroArg, PV.num?, isZ_abs]
  | float x =>
    simp only [mkVdrop] at h
    obtain ⟨v, hv, h⟩ := ex_bind_eq_ok h
    simp only [ex_pure, Except.ok.injEq, Prod.mk.injEq] at h
    obtain ⟨rfl, rfl⟩ := h
    obtain ⟨w, hw, rfl⟩ := absArg_ok hv
    simp only [PV.num?, Option.some.injEq] at hw
    subst hw
    constructor
    · simp [mkVdrop, absArg, PV.num?, Param.dropDiag]
    · simp [nonZeroArg, PV.num?, isZ_abs]

/-- the stored `rs` of a PMux rebuilds the same triple -/
theorem mkRsMux_reload {rsA : PV α} {rr : α × Option (List α) × PV α} (h : mkRsMux rsA = .ok rr) :
    mkRsMux rr.2.2 = .ok rr := by
  cases rsA with
  | list l =>
    simp only [mkRsMux] at h ⊢
    split_ifs at h with hl
    · simp only [ex_pure, Except.ok.injEq] at h
      subst h
      simp [mkRsMux, hl]
  | null => simp [mkRsMux, absArg, PV.num?] at h
  | str s => simp [mkRsMux, absArg, PV.num?] at h
  | dict d => simp [mkRsMux, absArg, PV.num?] at h
  | bool b =>
    simp only [mkRsMux] at h
    obtain ⟨v, hv, h⟩ := ex_bind_eq_ok h
    simp only [ex_pure, Except.ok.injEq] at h
    subst h
    obtain ⟨w, -, rfl⟩ := absArg_ok hv
    simp [mkRsMux, absArg, PV.num?]
  | int x =>
    simp only [mkRsMux] at h
    obtain ⟨v, hv, h⟩ := ex_bind_eq_ok h
    simp only [ex_pure, Except.ok.injEq] at h
    subst h
    obtain ⟨w, -, rfl⟩ := absArg_ok hv
    simp [mkRsMux, absArg, PV.num?]
  | float x =>
    simp only [mkRsMux] at h
    obtain ⟨v, hv, h⟩ := ex_bind_eq_ok h
    simp only [ex_pure, Except.ok.injEq] at h
    subst h
    obtain ⟨w, -, rfl⟩ := absArg_ok hv
    simp [mkRsMux, absArg, PV.num?]

/-- the stored `rs` of a MOSFET Rectifier rebuilds the same triple -/
theorem mkRsRect_reload {rsA : PV α} {rr : α × Option (List α) × PV α} (h : mkRsRect rsA = .ok rr) :
    mkRsRect rr.2.2 = .ok rr := by
  cases rsA with
  | list l =>
    simp only [mkRsRect] at h ⊢
    split_ifs at h with hl
    · simp only [ex_pure, Except.ok.injEq] at h
      subst h
      simp [mkRsRect, hl]
  | null => simp [mkRsRect, PV.isNumber] at h
  | str s => simp [mkRsRect, PV.isNumber] at h
  | dict d => simp [mkRsRect, PV.isNumber] at h
  | bool b =>
    simp only [mkRsRect, PV.isNumber, Bool.not_true, Bool.false_eq_true, if_false] at h
    obtain ⟨v, hv, h⟩ := ex_bind_eq_ok h
    simp only [ex_pure, Except.ok.injEq] at h
    subst h
    obtain ⟨w, -, rfl⟩ := absArg_ok hv
    simp [mkRsRect, PV.isNumber, absArg, PV.num?]
  | int x =>
    simp only [mkRsRect, PV.isNumber, Bool.not_true, Bool.false_eq_true, if_false] at h
    obtain ⟨v, hv, h⟩ := ex_bind_eq_ok h
    simp only [ex_pure, Except.ok.injEq] at h
    subst h
    obtain ⟨w, -, rfl⟩ := absArg_ok hv
    simp [mkRsRect, PV.isNumber, absArg, PV.num?]
  | float x =>
    simp only [mkRsRect, PV.isNumber, Bool.not_true, Bool.false_eq_true, if_false] at h
    obtain ⟨v, hv, h⟩ := ex_bind_eq_ok h
    simp only [ex_pure, Except.ok.injEq] at h
    subst h
    obtain ⟨w, -, rfl⟩ := absArg_ok hv
    simp [mkRsRect, PV.isNumber, absArg, PV.num?]

/-! ### limits -/

theorem checkLimits_applims (c : Comp α) :
    checkLimits (applims c) = .ok (c.kind.limitKeys.map fun k => (k, lookupLimit c.limits k)) := by
  cases hk : c.kind <;>
    simp [checkLimits, applims, hk, Kind.limitKeys, allLimitKeys, List.foldlM, List.lookup, PV.num?]

theorem lookup_map_self {β : Type} (ks : List String) (f : String → β) (key : String) (h : key ∈ ks) :
    (ks.map fun k => (k, f k)).lookup key = some (f key) := by
  induction ks with
  | nil => simp at h
  | cons a rest ih =>
    by_cases hka : key = a
    · subst hka; simp [List.lookup]
    · have hne : (key == a) = false := by simpa using hka
      have hr : key ∈ rest := by
        rcases List.mem_cons.mp h with e | hr
        · exact absurd e hka
        · exact hr
      simp [List.lookup, hne, ih hr]

theorem lookupLimit_reload (c : Comp α) (key : String) (h : key ∈ c.kind.limitKeys) :
    lookupLimit (c.kind.limitKeys.map fun k => (k, lookupLimit c.limits k)) key = lookupLimit c.limits key := by
  unfold lookupLimit
  rw [lookup_map_self _ _ _ h]

/-! ### dictionary access on literal documents -/

theorem getOpt_dict (P : Args α) (key : String) (d : PV α) :
    getOpt (.dict P) key d = .ok ((P.lookup key).getD d) := by
  simp only [getOpt, pyLookup, bind, Except.bind, pure, Except.pure]
  cases P.lookup key <;> rfl

theorem getMand_dict_some (P : Args α) (key : String) (v : PV α) (h : P.lookup key = some v) :
    getMand (.dict P) key = .ok v := by
  simp only [getMand, pyLookup, bind, Except.bind, pure, Except.pure, h]

theorem pySub_dict_some (P : Args α) (key : String) (v : PV α) (h : P.lookup key = some v) :
    pySub (.dict P) key = .ok v := by
  simp only [pySub, h]

theorem pyLookup_dict (P : Args α) (key : String) : pyLookup (.dict P) key = .ok (P.lookup key) := rfl

/-! ### reloading one component -/

/-- what `from_file` makes of a saved component: the same record with the diagonal annotation of a 2-D table
    dropped and the limits replaced by the applicable ones (defaults filled in) -/
def reloaded (c : Comp α) : Comp α :=
  { c with par := c.par.dropDiag, limits := c.kind.limitKeys.map fun k => (k, lookupLimit c.limits k) }

theorem reloaded_equiv (c : Comp α) : CompEquiv (reloaded c) c where
  name := rfl
  kind := rfl
  vo := rfl
  rs := rfl
  rsList := rfl
  par := Param.sameData_dropDiag c.par
  vdrop := rfl
  iq := rfl
  iis := rfl
  rt := rfl
  pwr := rfl
  pwrs := rfl
  ii := rfl
  loss := rfl
  diode := rfl
  params := rfl
  limits := fun key h => lookupLimit_reload c key h

/-- `childCall` on a dumped component: only the branch for its type is left -/
theorem childCall_dump (c : Comp α) (n : String) (hn : c.params.lookup "name" = some (.str n)) :
    childCall (.dict (dumpComp c)) =
      (childBranch c.kind.ctype.name (.dict c.params) [("limits", applims c)]
        ((c.params.lookup "iq").getD (.float 0)) ((c.params.lookup "ig").getD (.float 0))
        ((c.params.lookup "rs").getD (.float 0)) ((c.params.lookup "iis").getD (.float 0))
        ((c.params.lookup "rt").getD (.float 0))).bind
      (fun r => match r with
        | some (k, a) => .ok (some (n, k, a))
        | none => .ok none) := by
  have e1 : pySub (PV.dict (dumpComp c)) "params" = .ok (.dict c.params) := by
    simp [pySub, dumpComp, List.lookup]
  have e2 : pySub (PV.dict (dumpComp c)) "type" = .ok (.str c.kind.ctype.name) := by
    simp [pySub, dumpComp, List.lookup]
  have e3 : blockLimits (PV.dict (dumpComp c)) = [("limits", applims c)] := by
    simp [blockLimits, dumpComp, List.lookup]
  simp only [childCall, e1, e2, e3, getMand_dict_some _ _ _ hn, getOpt_dict, strOf, ex_bind_ok, bind, Except.bind,
    pure, Except.pure]
  cases childBranch c.kind.ctype.name (.dict c.params) [("limits", applims c)]
      ((c.params.lookup "iq").getD (.float 0)) ((c.params.lookup "ig").getD (.float 0))
      ((c.params.lookup "rs").getD (.float 0)) ((c.params.lookup "iis").getD (.float 0))
      ((c.params.lookup "rt").getD (.float 0)) with
  | error e => rfl
  | ok r => cases r with
    | none => rfl
    | some ka => rfl

theorem loadChild_of_call (blk : PV α) (n : String) (k : Kind) (a : Args α) (c : Comp α)
    (h1 : childCall blk = .ok (some (n, k, a))) (h2 : mkComp k n a = .ok c) :
    loadChild blk = .ok (some c) := by
  simp [loadChild, h1, h2, bind, Except.bind, Functor.map, Except.map]

theorem reload_rloss (n : String) (a : Args α) (c : Comp α) (h : mkComp .rloss n a = .ok c) :
    loadChild (.dict (dumpComp c)) = .ok (some (reloaded c)) := by
  unfold mkComp at h
  simp only [] at h
  obtain ⟨rsA, -, h⟩ := ex_bind_eq_ok h
  obtain ⟨rs, h2, h⟩ := ex_bind_eq_ok h
  obtain ⟨rt, h3, h⟩ := ex_bind_eq_ok h
  obtain ⟨lim, -, h⟩ := ex_bind_eq_ok h
  simp only [ex_pure, Except.ok.injEq] at h
  obtain ⟨w, -, rfl⟩ := absArg_ok h2
  obtain ⟨wt, -, rfl⟩ := absArg_ok h3
  clear h2 h3
  have hp : c.params = [("name", .str n), ("rs", .float |w|), ("rt", .float |wt|)] := by rw [← h]
  have hk : c.kind = .rloss := by rw [← h]
  refine loadChild_of_call _ n .rloss [("rs", .float |w|), ("rt", .float |wt|), ("limits", applims c)] _ ?_ ?_
  · rw [childCall_dump _ n (by simp [hp, List.lookup])]
    simp [hp, hk, childBranch, Kind.ctype, CType.name, pyLookup_dict, getMand_dict_some, List.lookup]
    rfl
  · unfold mkComp
    simp [req, arg, List.lookup, absArg, PV.num?, checkLimits_applims]
    rw [← h]
    simp [reloaded, Param.dropDiag]

theorem abs_arg_float (k : String) (w : α) : absArg k (PV.float |w|) = .ok |w| := by
  simp [absArg, PV.num?]

theorem reload_pload (n : String) (a : Args α) (c : Comp α) (h : mkComp .pload n a = .ok c) :
    loadChild (.dict (dumpComp c)) = .ok (some (reloaded c)) := by
  unfold mkComp at h
  simp only [] at h
  generalize arg a "loss" (.bool false) = L at h
  obtain ⟨pA, -, h⟩ := ex_bind_eq_ok h
  obtain ⟨pwr, h1, h⟩ := ex_bind_eq_ok h
  obtain ⟨pwrs, h2, h⟩ := ex_bind_eq_ok h
  obtain ⟨rt, h3, h⟩ := ex_bind_eq_ok h
  obtain ⟨lim, -, h⟩ := ex_bind_eq_ok h
  simp only [ex_pure, Except.ok.injEq] at h
  obtain ⟨w1, -, rfl⟩ := absArg_ok h1
  obtain ⟨w2, -, rfl⟩ := absArg_ok h2
  obtain ⟨w3, -, rfl⟩ := absArg_ok h3
  clear h1 h2 h3
  have hp : c.params = [("name", .str n), ("pwr", .float |w1|), ("pwrs", .float |w2|), ("rt", .float |w3|),
      ("loss", L)] := by rw [← h]
  have hk : c.kind = .pload := by rw [← h]
  refine loadChild_of_call _ n .pload ([("pwr", .float |w1|)] ++ [("limits", applims c)] ++
    [("pwrs", .float |w2|), ("rt", .float |w3|), ("loss", L)]) _ ?_ ?_
  · rw [childCall_dump _ n (by simp [hp, List.lookup])]
    simp [hp, hk, childBranch, Kind.ctype, CType.name, pyLookup_dict, getMand_dict_some, getOpt_dict, List.lookup]
    rfl
  · unfold mkComp
    simp [req, arg, List.lookup, abs_arg_float, checkLimits_applims]
    rw [← h]
    simp [reloaded, Param.dropDiag]

theorem reload_iload (n : String) (a : Args α) (c : Comp α) (h : mkComp .iload n a = .ok c) :
    loadChild (.dict (dumpComp c)) = .ok (some (reloaded c)) := by
  unfold mkComp at h
  simp only [] at h
  generalize arg a "loss" (.bool false) = L at h
  obtain ⟨iA, -, h⟩ := ex_bind_eq_ok h
  obtain ⟨ii, h1, h⟩ := ex_bind_eq_ok h
  obtain ⟨lim, -, h⟩ := ex_bind_eq_ok h
  obtain ⟨iis, h2, h⟩ := ex_bind_eq_ok h
  obtain ⟨rt, h3, h⟩ := ex_bind_eq_ok h
  simp only [ex_pure, Except.ok.injEq] at h
  obtain ⟨w1, -, rfl⟩ := absArg_ok h1
  obtain ⟨w2, -, rfl⟩ := absArg_ok h2
  obtain ⟨w3, -, rfl⟩ := absArg_ok h3
  clear h1 h2 h3
  have hp : c.params = [("name", .str n), ("ii", .float |w1|), ("iis", .float |w2|), ("rt", .float |w3|),
      ("loss", L)] := by rw [← h]
  have hk : c.kind = .iload := by rw [← h]
  refine loadChild_of_call _ n .iload ([("ii", .float |w1|)] ++ [("limits", applims c)] ++
    [("iis", .float |w2|), ("rt", .float |w3|), ("loss", L)]) _ ?_ ?_
  · rw [childCall_dump _ n (by simp [hp, List.lookup])]
    simp [hp, hk, childBranch, Kind.ctype, CType.name, pyLookup_dict, getMand_dict_some, getOpt_dict, List.lookup]
    rfl
  · unfold mkComp
    simp [req, arg, List.lookup, abs_arg_float, checkLimits_applims]
    rw [← h]
    simp [reloaded, Param.dropDiag]

theorem reload_rload (n : String) (a : Args α) (c : Comp α) (h : mkComp .rload n a = .ok c) :
    loadChild (.dict (dumpComp c)) = .ok (some (reloaded c)) := by
  unfold mkComp at h
  simp only [] at h
  generalize arg a "loss" (.bool false) = L at h
  obtain ⟨rA, -, h⟩ := ex_bind_eq_ok h
  obtain ⟨rs, h1, h⟩ := ex_bind_eq_ok h
  obtain ⟨w1, -, rfl⟩ := absArg_ok h1
  by_cases hz : isZ |w1| = true
  · rw [if_pos hz] at h; simp at h
  rw [if_neg hz] at h
  obtain ⟨rt, h3, h⟩ := ex_bind_eq_ok h
  obtain ⟨lim, -, h⟩ := ex_bind_eq_ok h
  simp only [ex_pure, Except.ok.injEq] at h
  obtain ⟨w3, -, rfl⟩ := absArg_ok h3
  clear h1 h3
  have hp : c.params = [("name", .str n), ("rs", .float |w1|), ("rt", .float |w3|), ("loss", L)] := by rw [← h]
  have hk : c.kind = .rload := by rw [← h]
  refine loadChild_of_call _ n .rload ([("rs", .float |w1|), ("rt", .float |w3|)] ++ [("limits", applims c)] ++
    [("loss", L)]) _ ?_ ?_
  · rw [childCall_dump _ n (by simp [hp, List.lookup])]
    simp [hp, hk, childBranch, Kind.ctype, CType.name, pyLookup_dict, getMand_dict_some, getOpt_dict, List.lookup]
    rfl
  · unfold mkComp
    simp only [req, arg, List.lookup, List.cons_append, List.nil_append]
    have hw : ¬ w1 = 0 := by intro e; apply hz; simp [e]
    simp [abs_arg_float, checkLimits_applims, hw]
    rw [← h]
    simp [reloaded, Param.dropDiag]

theorem map_ok {β γ : Type} {x : Except Err β} {v : β} (f : β → γ) (h : x = .ok v) : x.map f = .ok (f v) := by
  rw [h]; rfl

theorem reload_vloss (n : String) (a : Args α) (c : Comp α) (h : mkComp .vloss n a = .ok c) :
    loadChild (.dict (dumpComp c)) = .ok (some (reloaded c)) := by
  unfold mkComp at h
  simp only [] at h
  obtain ⟨vd, -, h⟩ := ex_bind_eq_ok h
  obtain ⟨rt, h1, h⟩ := ex_bind_eq_ok h
  obtain ⟨ps, h2, h⟩ := ex_bind_eq_ok h
  obtain ⟨lim, -, h⟩ := ex_bind_eq_ok h
  simp only [ex_pure, Except.ok.injEq] at h
  obtain ⟨w1, -, rfl⟩ := absArg_ok h1
  obtain ⟨p, st⟩ := ps
  obtain ⟨h3, -⟩ := mkVdrop_reload h2
  clear h1 h2
  have hp : c.params = [("name", .str n), ("rt", .float |w1|), ("vdrop", st)] := by rw [← h]
  have hk : c.kind = .vloss := by rw [← h]
  refine loadChild_of_call _ n .vloss ([("vdrop", st), ("rt", .float |w1|)] ++ [("limits", applims c)]) _ ?_ ?_
  · rw [childCall_dump _ n (by simp [hp, List.lookup])]
    simp [hp, hk, childBranch, Kind.ctype, CType.name, pyLookup_dict, getMand_dict_some, getOpt_dict, List.lookup]
    rfl
  · unfold mkComp
    simp only [req, arg, List.lookup, List.cons_append, List.nil_append]
    simp [abs_arg_float, checkLimits_applims, h3]
    rw [← h]
    simp [reloaded]

theorem reload_converter (n : String) (a : Args α) (c : Comp α) (h : mkComp .converter n a = .ok c) :
    loadChild (.dict (dumpComp c)) = .ok (some (reloaded c)) := by
  unfold mkComp at h
  simp only [] at h
  obtain ⟨vo, -, h⟩ := ex_bind_eq_ok h
  obtain ⟨eff, -, h⟩ := ex_bind_eq_ok h
  obtain ⟨par, h0, h⟩ := ex_bind_eq_ok h
  obtain ⟨iq, h1, h⟩ := ex_bind_eq_ok h
  obtain ⟨iis, h2, h⟩ := ex_bind_eq_ok h
  obtain ⟨rt, h3, h⟩ := ex_bind_eq_ok h
  obtain ⟨lim, -, h⟩ := ex_bind_eq_ok h
  obtain ⟨vov, h4, h⟩ := ex_bind_eq_ok h
  simp only [ex_pure, Except.ok.injEq] at h
  obtain ⟨w1, -, rfl⟩ := absArg_ok h1
  obtain ⟨w2, -, rfl⟩ := absArg_ok h2
  obtain ⟨w3, -, rfl⟩ := absArg_ok h3
  have h5 : mkEff (stripDiag eff) = .ok par.dropDiag := by rw [mkEff_stripDiag]; exact map_ok _ h0
  clear h1 h2 h3 h0
  have hp : c.params = [("name", .str n), ("vo", vo), ("eff", stripDiag eff), ("iq", .float |w1|),
      ("iis", .float |w2|), ("rt", .float |w3|)] := by rw [← h]
  have hk : c.kind = .converter := by rw [← h]
  refine loadChild_of_call _ n .converter ([("vo", vo), ("eff", stripDiag eff), ("iq", .float |w1|)] ++
    [("limits", applims c)] ++ [("iis", .float |w2|), ("rt", .float |w3|)]) _ ?_ ?_
  · rw [childCall_dump _ n (by simp [hp, List.lookup])]
    simp [hp, hk, childBranch, Kind.ctype, CType.name, pyLookup_dict, getMand_dict_some, getOpt_dict, List.lookup]
    rfl
  · unfold mkComp
    simp only [req, arg, List.lookup, List.cons_append, List.nil_append]
    simp [abs_arg_float, checkLimits_applims, h5, h4, stripDiag_idem]
    rw [← h]
    simp [reloaded]

theorem nonZeroArg_zero : nonZeroArg (PV.float (0 : α)) = false := by
  simp [nonZeroArg, PV.num?]

theorem reload_linreg (n : String) (a : Args α) (c : Comp α) (h : mkComp .linreg n a = .ok c) :
    loadChild (.dict (dumpComp c)) = .ok (some (reloaded c)) := by
  unfold mkComp at h
  simp only [] at h
  obtain ⟨vo, -, h⟩ := ex_bind_eq_ok h
  obtain ⟨vov, h4, h⟩ := ex_bind_eq_ok h
  obtain ⟨vdrop, h1, h⟩ := ex_bind_eq_ok h
  obtain ⟨w1, -, rfl⟩ := absArg_ok h1
  by_cases hd : (!decide (|w1| < nabs vov)) = true
  · rw [if_pos hd] at h; simp at h
  rw [if_neg hd] at h
  obtain ⟨igc, -, h⟩ := ex_bind_eq_ok h
  obtain ⟨par, h0, h⟩ := ex_bind_eq_ok h
  obtain ⟨iis, h2, h⟩ := ex_bind_eq_ok h
  obtain ⟨rt, h3, h⟩ := ex_bind_eq_ok h
  obtain ⟨lim, -, h⟩ := ex_bind_eq_ok h
  simp only [ex_pure, Except.ok.injEq] at h
  obtain ⟨w2, -, rfl⟩ := absArg_ok h2
  obtain ⟨w3, -, rfl⟩ := absArg_ok h3
  have h5 : mkIg (stripDiag igc) = .ok par.dropDiag := by rw [mkIg_stripDiag]; exact map_ok _ h0
  clear h1 h2 h3 h0
  have hp : c.params = [("name", .str n), ("vo", vo), ("vdrop", .float |w1|), ("ig", stripDiag igc),
      ("iis", .float |w2|), ("rt", .float |w3|)] := by rw [← h]
  have hk : c.kind = .linreg := by rw [← h]
  refine loadChild_of_call _ n .linreg ([("vo", vo), ("vdrop", .float |w1|), ("iq", .float 0),
    ("ig", stripDiag igc)] ++ [("limits", applims c)] ++ [("iis", .float |w2|), ("rt", .float |w3|)]) _ ?_ ?_
  · rw [childCall_dump _ n (by simp [hp, List.lookup])]
    simp [hp, hk, childBranch, Kind.ctype, CType.name, pyLookup_dict, getMand_dict_some, getOpt_dict, List.lookup]
    rfl
  · unfold mkComp
    simp only [req, arg, linregIgc, List.lookup, List.cons_append, List.nil_append]
    have hlt : |w1| < |vov| := by simpa using hd
    simp [nonZeroArg_zero, h4, abs_arg_float, hlt, not_le.mpr hlt, h5, checkLimits_applims, stripDiag_idem]
    rw [← h]
    simp [reloaded]

theorem reload_pswitch (n : String) (a : Args α) (c : Comp α) (h : mkComp .pswitch n a = .ok c) :
    loadChild (.dict (dumpComp c)) = .ok (some (reloaded c)) := by
  unfold mkComp at h
  simp only [] at h
  generalize arg a "ig" (.float 0) = ig at h
  obtain ⟨rs, h1, h⟩ := ex_bind_eq_ok h
  obtain ⟨par, h0, h⟩ := ex_bind_eq_ok h
  obtain ⟨iis, h2, h⟩ := ex_bind_eq_ok h
  obtain ⟨rt, h3, h⟩ := ex_bind_eq_ok h
  obtain ⟨lim, -, h⟩ := ex_bind_eq_ok h
  simp only [ex_pure, Except.ok.injEq] at h
  obtain ⟨w1, -, rfl⟩ := absArg_ok h1
  obtain ⟨w2, -, rfl⟩ := absArg_ok h2
  obtain ⟨w3, -, rfl⟩ := absArg_ok h3
  have h5 : mkIg (stripDiag ig) = .ok par.dropDiag := by rw [mkIg_stripDiag]; exact map_ok _ h0
  clear h1 h2 h3 h0
  have hp : c.params = [("name", .str n), ("rs", .float |w1|), ("ig", stripDiag ig),
      ("iis", .float |w2|), ("rt", .float |w3|)] := by rw [← h]
  have hk : c.kind = .pswitch := by rw [← h]
  refine loadChild_of_call _ n .pswitch ([("rs", .float |w1|), ("ig", stripDiag ig)] ++
    [("limits", applims c)] ++ [("iis", .float |w2|), ("rt", .float |w3|)]) _ ?_ ?_
  · rw [childCall_dump _ n (by simp [hp, List.lookup])]
    simp [hp, hk, childBranch, Kind.ctype, CType.name, pyLookup_dict, getMand_dict_some, getOpt_dict, List.lookup]
    rfl
  · unfold mkComp
    simp only [req, arg, List.lookup, List.cons_append, List.nil_append]
    simp [abs_arg_float, checkLimits_applims, h5, stripDiag_idem]
    rw [← h]
    simp [reloaded]

theorem reload_rectifier (n : String) (a : Args α) (c : Comp α) (h : mkComp .rectifier n a = .ok c) :
    loadChild (.dict (dumpComp c)) = .ok (some (reloaded c)) := by
  unfold mkComp at h
  simp only [] at h
  generalize arg a "vdrop" (.float 0) = vd at h
  generalize arg a "ig" (.float 0) = ig at h
  generalize arg a "rs" (.float 0) = rsA at h
  by_cases hnz : nonZeroArg vd = true
  · -- diode bridge (finding F14, repaired: the loader passes `vdrop`)
    rw [if_pos hnz] at h
    obtain ⟨ps, h2, h⟩ := ex_bind_eq_ok h
    obtain ⟨rt, h1, h⟩ := ex_bind_eq_ok h
    obtain ⟨lim, -, h⟩ := ex_bind_eq_ok h
    simp only [ex_pure, Except.ok.injEq] at h
    obtain ⟨w1, -, rfl⟩ := absArg_ok h1
    obtain ⟨p, st⟩ := ps
    obtain ⟨h3, h6⟩ := mkVdrop_reload h2
    rw [hnz] at h6
    clear h1 h2
    have hp : c.params = [("name", .str n), ("type", .str "diode"), ("vdrop", st), ("rt", .float |w1|)] := by
      rw [← h]
    have hk : c.kind = .rectifier := by rw [← h]
    refine loadChild_of_call _ n .rectifier ([("vdrop", st), ("rs", .float 0), ("ig", .float 0),
      ("iq", .float 0)] ++ [("limits", applims c)] ++ [("rt", .float |w1|)]) _ ?_ ?_
    · rw [childCall_dump _ n (by simp [hp, List.lookup])]
      simp [hp, hk, childBranch, Kind.ctype, CType.name, pyLookup_dict, getMand_dict_some, getOpt_dict, List.lookup]
      rfl
    · unfold mkComp
      simp only [req, arg, List.lookup, List.cons_append, List.nil_append]
      simp [abs_arg_float, checkLimits_applims, h3, h6]
      rw [← h]
      simp [reloaded]
  · rw [if_neg hnz] at h
    obtain ⟨rr, h4, h⟩ := ex_bind_eq_ok h
    obtain ⟨par, h0, h⟩ := ex_bind_eq_ok h
    obtain ⟨iq, h1, h⟩ := ex_bind_eq_ok h
    obtain ⟨rt, h2, h⟩ := ex_bind_eq_ok h
    obtain ⟨lim, -, h⟩ := ex_bind_eq_ok h
    simp only [ex_pure, Except.ok.injEq] at h
    obtain ⟨w1, -, rfl⟩ := absArg_ok h1
    obtain ⟨w2, -, rfl⟩ := absArg_ok h2
    have h5 : mkIg (stripDiag ig) = .ok par.dropDiag := by rw [mkIg_stripDiag]; exact map_ok _ h0
    clear h1 h2 h0
    have h4 := mkRsRect_reload h4
    have hp : c.params = [("name", .str n), ("type", .str "mosfet"), ("rs", rr.2.2), ("ig", stripDiag ig),
        ("iq", .float |w1|), ("rt", .float |w2|)] := by rw [← h]
    have hk : c.kind = .rectifier := by rw [← h]
    refine loadChild_of_call _ n .rectifier ([("vdrop", .float 0), ("rs", rr.2.2), ("ig", stripDiag ig),
      ("iq", .float |w1|)] ++ [("limits", applims c)] ++ [("rt", .float |w2|)]) _ ?_ ?_
    · rw [childCall_dump _ n (by simp [hp, List.lookup])]
      simp [hp, hk, childBranch, Kind.ctype, CType.name, pyLookup_dict, getMand_dict_some, getOpt_dict, List.lookup]
      rfl
    · unfold mkComp
      simp only [req, arg, List.lookup, List.cons_append, List.nil_append]
      simp [abs_arg_float, checkLimits_applims, h5, h4, nonZeroArg_zero, stripDiag_idem]
      rw [← h]
      simp [reloaded]

/-! ### top-level blocks: Source and PMux -/

theorem reload_source (n : String) (a : Args α) (c : Comp α) (h : mkComp .source n a = .ok c) :
    ∃ vo rs, c.params = [("name", .str n), ("vo", vo), ("rs", rs), ("rt", .float 0)] ∧ c.kind = .source ∧
      c.name = n ∧ mkComp .source n ([("vo", vo), ("rs", rs)] ++ [("limits", applims c)]) = .ok (reloaded c) := by
  unfold mkComp at h
  simp only [] at h
  obtain ⟨vo, -, h⟩ := ex_bind_eq_ok h
  obtain ⟨rs, h1, h⟩ := ex_bind_eq_ok h
  obtain ⟨lim, -, h⟩ := ex_bind_eq_ok h
  obtain ⟨vov, h4, h⟩ := ex_bind_eq_ok h
  simp only [ex_pure, Except.ok.injEq] at h
  obtain ⟨w1, -, rfl⟩ := absArg_ok h1
  refine ⟨vo, .float |w1|, by rw [← h], by rw [← h], by rw [← h], ?_⟩
  unfold mkComp
  simp only [req, arg, List.lookup, List.cons_append, List.nil_append]
  simp [abs_arg_float, checkLimits_applims, h4]
  rw [← h]
  simp [reloaded, Param.dropDiag]

theorem reload_pmux (n : String) (a : Args α) (c : Comp α) (h : mkComp .pmux n a = .ok c) :
    ∃ rs ig iis rt, c.params = [("name", .str n), ("rs", rs), ("ig", ig), ("iis", iis), ("rt", rt)] ∧
      c.kind = .pmux ∧ c.name = n ∧
      mkComp .pmux n ([("rs", rs), ("ig", ig), ("iis", iis), ("rt", rt)] ++ [("limits", applims c)]) =
        .ok (reloaded c) := by
  unfold mkComp at h
  simp only [] at h
  generalize arg a "ig" (.float 0) = ig at h
  generalize arg a "rs" (.float 0) = rsA at h
  obtain ⟨rr, h4, h⟩ := ex_bind_eq_ok h
  obtain ⟨par, h0, h⟩ := ex_bind_eq_ok h
  obtain ⟨iis, h2, h⟩ := ex_bind_eq_ok h
  obtain ⟨rt, h3, h⟩ := ex_bind_eq_ok h
  obtain ⟨lim, -, h⟩ := ex_bind_eq_ok h
  simp only [ex_pure, Except.ok.injEq] at h
  obtain ⟨w2, -, rfl⟩ := absArg_ok h2
  obtain ⟨w3, -, rfl⟩ := absArg_ok h3
  have h5 : mkIg (stripDiag ig) = .ok par.dropDiag := by rw [mkIg_stripDiag]; exact map_ok _ h0
  have h4 := mkRsMux_reload h4
  refine ⟨rr.2.2, stripDiag ig, .float |w2|, .float |w3|, by rw [← h], by rw [← h], by rw [← h], ?_⟩
  unfold mkComp
  simp only [req, arg, List.lookup, List.cons_append, List.nil_append]
  simp [abs_arg_float, checkLimits_applims, h5, h4, stripDiag_idem]
  rw [← h]
  simp [reloaded]

/-! ### the loader on a layout -/

/-- a component some constructor call built -/
def Built (c : Comp α) : Prop := ∃ a, mkComp c.kind c.name a = .ok c

theorem reload_child (c : Comp α) (hb : Built c) (h1 : c.kind ≠ .source) (h2 : c.kind ≠ .pmux) :
    loadChild (.dict (dumpComp c)) = .ok (some (reloaded c)) := by
  obtain ⟨a, h⟩ := hb
  cases hk : c.kind <;> rw [hk] at h
  · exact absurd hk h1
  · exact reload_pload _ a c h
  · exact reload_iload _ a c h
  · exact reload_rload _ a c h
  · exact reload_rloss _ a c h
  · exact reload_vloss _ a c h
  · exact reload_converter _ a c h
  · exact reload_linreg _ a c h
  · exact reload_pswitch _ a c h
  · exact absurd hk h2
  · exact reload_rectifier _ a c h

/-- a node as the loader rebuilds it -/
def rl (n : Node α) : Node α := { comp := reloaded n.comp, parents := n.parents }

@[simp] theorem rl_name (n : Node α) : (rl n).name = n.name := rfl
@[simp] theorem rl_kind (n : Node α) : (rl n).comp.kind = n.comp.kind := rfl

theorem map_rl_names (l : List (Node α)) : (l.map rl).map Node.name = l.map Node.name := by
  simp [Function.comp_def]

/-- the conditions `add_comp` checks for a child `n` listed under parent `p`, with `seen` loaded before -/
structure ChildOK (seen : List (Node α)) (p : String) (n : Node α) : Prop where
  built : Built n.comp
  notSource : n.comp.kind ≠ .source
  notMux : n.comp.kind ≠ .pmux
  parents : n.parents = [p]
  parentLoaded : ∃ pn ∈ seen, pn.name = p
  parentAccepts : ∀ pn ∈ seen, pn.name = p → pn.comp.kind.ctype ≠ .LOAD
  fresh : n.name ∉ seen.map Node.name
  named : n.name ≠ ""

theorem find_parent (seen : List (Node α)) (p : String) (h : ∃ pn ∈ seen, pn.name = p) :
    ∃ pn ∈ seen, pn.name = p ∧ (seen.map rl).find? (fun n => n.name == p) = some (rl pn) := by
  induction seen with
  | nil => obtain ⟨pn, hm, _⟩ := h; simp at hm
  | cons a rest ih =>
    by_cases ha : a.name = p
    · exact ⟨a, by simp, ha, by simp [List.find?, ha]⟩
    · obtain ⟨pn, hm, hp⟩ := h
      have hr : ∃ pn ∈ rest, pn.name = p := by
        rcases List.mem_cons.mp hm with e | hr
        · subst e; exact absurd hp ha
        · exact ⟨pn, hr, hp⟩
      obtain ⟨q, hq, hqp, hf⟩ := ih hr
      refine ⟨q, by simp [hq], hqp, ?_⟩
      have : ((rl a).name == p) = false := by simpa using ha
      simp only [List.map_cons, List.find?, this]
      exact hf

theorem ctype_pmux_iff (k : Kind) : k.ctype = .PMUX ↔ k = .pmux := by cases k <;> simp [Kind.ctype]
theorem ctype_source_iff (k : Kind) : k.ctype = .SOURCE ↔ k = .source := by cases k <;> simp [Kind.ctype]

theorem addComp_child (seen : List (Node α)) (p : String) (n : Node α) (h : ChildOK seen p n) :
    addComp (seen.map rl) [p] false (reloaded n.comp) = .ok ((seen ++ [n]).map rl) := by
  obtain ⟨pn, hpn, hpp, hfind⟩ := find_parent seen p h.parentLoaded
  have hacc : pn.comp.kind.acceptsChild n.comp.kind.ctype = true := by
    have h1 := h.parentAccepts pn hpn hpp
    have h2 : n.comp.kind.ctype ≠ .SOURCE := fun e => h.notSource ((ctype_source_iff _).mp e)
    unfold Kind.acceptsChild
    cases hc : pn.comp.kind.ctype <;> simp_all
  have hnt : nameTaken (seen.map rl) (reloaded n.comp).name = false := by
    have hf := h.fresh
    have hn := h.named
    simp only [nameTaken, map_rl_names]
    have e : (reloaded n.comp).name = n.name := rfl
    rw [e]
    simp [hf, hn]
  have hmux : ((reloaded n.comp).kind.ctype == CType.PMUX) = false := by
    have : n.comp.kind.ctype ≠ .PMUX := fun e => h.notMux ((ctype_pmux_iff _).mp e)
    simpa [reloaded] using this
  simp only [addComp, Bool.false_and, Bool.false_eq_true, if_false, List.mapM_cons, List.mapM_nil, resolveParent,
    hfind, ex_bind_ok, ex_pure, hnt, bind, Except.bind, pure, Except.pure]
  have hmux' : ¬ n.comp.kind.ctype = CType.PMUX := fun e => h.notMux ((ctype_pmux_iff _).mp e)
  have hpp' : pn.comp.name = p := hpp
  simp [List.find?, hacc, hmux', reloaded, rl, h.parents, Node.name, hpp']

/-- the children listed under `p`, processed left to right -/
def ChildsOK : List (Node α) → String → List (Node α) → Prop
  | _, _, [] => True
  | seen, p, n :: rest => ChildOK seen p n ∧ ChildsOK (seen ++ [n]) p rest

/-- the `childs` entries of one block, processed in order -/
def EntriesOK : List (Node α) → List (String × List (Node α)) → Prop
  | _, [] => True
  | seen, e :: rest => ChildsOK seen e.1 e.2 ∧ EntriesOK (seen ++ e.2) rest

def nodeDoc (n : Node α) : PV α := .dict (dumpComp n.comp)

theorem childStep_ok (seen : List (Node α)) (p : String) (n : Node α) (h : ChildOK seen p n) :
    childStep p (seen.map rl) (nodeDoc n) = .ok ((seen ++ [n]).map rl) := by
  simp only [childStep, nodeDoc, reload_child n.comp h.built h.notSource h.notMux, ex_bind_ok, bind, Except.bind]
  exact addComp_child seen p n h

theorem childList_ok (seen : List (Node α)) (p : String) (cs : List (Node α)) (h : ChildsOK seen p cs) :
    (cs.map nodeDoc).foldlM (childStep p) (seen.map rl) = .ok ((seen ++ cs).map rl) := by
  induction cs generalizing seen with
  | nil => simp [List.foldlM, pure, Except.pure]
  | cons n rest ih =>
    obtain ⟨h1, h2⟩ := h
    simp only [List.map_cons, List.foldlM_cons, childStep_ok seen p n h1, ex_bind_ok, bind, Except.bind]
    have := ih (seen ++ [n]) h2
    simpa using this

/-- the entries as `save` writes them when no two entries share a key -/
def entriesDoc (entries : List (String × List (Node α))) : List (String × PV α) :=
  entries.map fun e => (e.1, .list (e.2.map nodeDoc))

theorem entries_ok (seen : List (Node α)) (entries : List (String × List (Node α)))
    (h : EntriesOK seen entries) :
    (entriesDoc entries).foldlM entryStep (seen.map rl) = .ok ((seen ++ entries.flatMap (·.2)).map rl) := by
  induction entries generalizing seen with
  | nil => simp [entriesDoc, List.foldlM, pure, Except.pure]
  | cons e rest ih =>
    obtain ⟨h1, h2⟩ := h
    simp only [entriesDoc, List.map_cons, List.foldlM_cons, entryStep, childList_ok seen e.1 e.2 h1, bind,
      Except.bind]
    have := ih (seen ++ e.2) h2
    simpa [entriesDoc] using this

theorem dictSet_new {β : Type} (l : List (String × β)) (k : String) (v : β) (h : k ∉ l.map (·.1)) :
    dictSet l k v = l ++ [(k, v)] := by
  induction l with
  | nil => rfl
  | cons p rest ih =>
    obtain ⟨a, b⟩ := p
    simp only [List.map_cons, List.mem_cons, not_or] at h
    have hne : (a == k) = false := by simpa using (Ne.symm h.1)
    simp [dictSet, hne, ih h.2]

theorem foldl_dictSet_new {β γ : Type} (l : List γ) (key : γ → String) (val : γ → β) (acc : List (String × β))
    (hn : (l.map key).Nodup) (hd : ∀ x ∈ l, key x ∉ acc.map (·.1)) :
    l.foldl (fun acc x => dictSet acc (key x) (val x)) acc = acc ++ l.map fun x => (key x, val x) := by
  induction l generalizing acc with
  | nil => simp
  | cons x rest ih =>
    simp only [List.map_cons, List.nodup_cons] at hn
    simp only [List.foldl_cons]
    rw [dictSet_new acc (key x) (val x) (hd x (by simp))]
    rw [ih _ hn.2]
    · simp
    · intro y hy
      simp only [List.map_append, List.map_cons, List.map_nil, List.mem_append, List.mem_cons, List.not_mem_nil,
        or_false, not_or]
      refine ⟨hd y (by simp [hy]), ?_⟩
      intro e
      exact hn.1 (e ▸ List.mem_map_of_mem (f := key) hy)

theorem childsDoc_eq (entries : List (String × List (Node α))) (hn : (entries.map (·.1)).Nodup) :
    childsDoc entries = .dict (entriesDoc entries) := by
  unfold childsDoc entriesDoc
  have := foldl_dictSet_new entries (·.1) (fun e => PV.list (e.2.map fun n => PV.dict (dumpComp n.comp))) []
    hn (by simp)
  simp only [List.nil_append] at this
  rw [this]
  rfl

theorem loadChilds_ok (seen : List (Node α)) (entries : List (String × List (Node α)))
    (hn : (entries.map (·.1)).Nodup) (h : EntriesOK seen entries) :
    loadChilds (seen.map rl) (childsDoc entries) = .ok ((seen ++ entries.flatMap (·.2)).map rl) := by
  rw [childsDoc_eq entries hn]
  exact entries_ok seen entries h

/-! ### one top-level block -/

structure SourceBlockOK (seen : List (Node α)) (b : Block α) : Prop where
  built : Built b.root.comp
  isSource : b.root.comp.kind = .source
  notMux : b.isMux = false
  noParents : b.root.parents = []
  fresh : b.root.name ∉ seen.map Node.name
  named : b.root.name ≠ ""
  keys : (b.childs.map (·.1)).Nodup
  entries : EntriesOK (seen ++ [b.root]) b.childs

structure MuxBlockOK (seen : List (Node α)) (b : Block α) : Prop where
  built : Built b.root.comp
  isPMux : b.root.comp.kind = .pmux
  isMux : b.isMux = true
  fresh : b.root.name ∉ seen.map Node.name
  named : b.root.name ≠ ""
  keys : (b.childs.map (·.1)).Nodup
  entries : EntriesOK (seen ++ [b.root]) b.childs
  parentsNonempty : b.root.parents ≠ []
  parentsNodup : b.root.parents.Nodup
  parentsLoaded : ∀ p ∈ b.root.parents, ∃ pn ∈ seen, pn.name = p
  parentsAccept : ∀ p ∈ b.root.parents, ∀ pn ∈ seen, pn.name = p → pn.comp.kind.ctype ≠ .LOAD
  onlyMux : ∀ x ∈ seen, x.comp.kind ≠ .pmux

theorem pySub_block (b : Block α) (key : String) (v : PV α)
    (h : (dumpComp b.root.comp ++ [("childs", childsDoc b.childs)] ++
      (if b.isMux then [("parents", PV.list (b.root.parents.map PV.str))] else [])).lookup key = some v) :
    pySub (blockDoc b) key = .ok v := by
  simp only [blockDoc, pySub, h]

theorem nameTaken_fresh (seen : List (Node α)) (name : String) (hf : name ∉ seen.map Node.name)
    (hn : name ≠ "") : nameTaken (seen.map rl) name = false := by
  simp only [nameTaken, map_rl_names]
  simp [hf, hn]

theorem loadBlock_source (seen : List (Node α)) (b : Block α) (first : Bool) (hf : first = true → seen = [])
    (h : SourceBlockOK seen b) :
    loadBlock (seen.map rl) first b.root.name (blockDoc b) =
      .ok ((seen ++ b.root :: b.childs.flatMap (·.2)).map rl) := by
  obtain ⟨a, hb⟩ := h.built
  rw [h.isSource] at hb
  obtain ⟨vo, rs, hp, hk, hname, hmk⟩ := reload_source _ a _ hb
  have e1 : pySub (blockDoc b) "type" = .ok (.str "SOURCE") :=
    pySub_block b _ _ (by simp [dumpComp, List.lookup, hk, Kind.ctype, CType.name])
  have e2 : pySub (blockDoc b) "params" = .ok (.dict b.root.comp.params) :=
    pySub_block b _ _ (by simp [dumpComp, List.lookup])
  have e3 : pySub (blockDoc b) "childs" = .ok (childsDoc b.childs) :=
    pySub_block b _ _ (by simp [dumpComp, List.lookup])
  have e4 : blockLimits (blockDoc b) = [("limits", applims b.root.comp)] := by
    simp [blockLimits, blockDoc, dumpComp, List.lookup]
  have e5 : getMand (PV.dict b.root.comp.params) "vo" = .ok vo := getMand_dict_some _ _ _ (by simp [hp, List.lookup])
  have e6 : getOpt (PV.dict b.root.comp.params) "rs" (.float 0) = .ok rs := by
    rw [getOpt_dict]; simp [hp, List.lookup]
  have hroot : (rl b.root) = { comp := reloaded b.root.comp, parents := [] } := by
    simp [rl, h.noParents]
  have hload : loadRoot (seen.map rl) first b.root.name (blockDoc b) = .ok ((seen ++ [b.root]).map rl) := by
    simp only [loadRoot, e1, e2, e4, e5, e6, ex_bind_ok, bind, Except.bind, pure, Except.pure, if_true]
    have hmk' : mkComp .source b.root.name [("vo", vo), ("rs", rs), ("limits", applims b.root.comp)] =
        .ok (reloaded b.root.comp) := hmk
    cases first with
    | true =>
      have := hf rfl
      subst this
      simp [hmk', hroot]
    | false =>
      simp [hmk', nameTaken_fresh seen _ h.fresh h.named, hroot]
  have key := loadChilds_ok _ _ h.keys h.entries
  rw [childsDoc_eq _ h.keys] at key e3
  simp only [loadBlock, hload, e3, ex_bind_ok, bind, Except.bind]
  have hfin : (seen ++ [b.root] ++ b.childs.flatMap (·.2)) = seen ++ b.root :: b.childs.flatMap (·.2) := by simp
  rw [hfin] at key
  cases hd : entriesDoc b.childs with
  | nil =>
    rw [hd] at key
    simpa [loadChilds, List.foldlM, pure, Except.pure] using key
  | cons e rest =>
    rw [hd] at key
    exact key

theorem accepts_of_not_load (k : Kind) (c : CType) (h : k.ctype ≠ .LOAD) (hc : c ≠ .SOURCE) :
    k.acceptsChild c = true := by
  cases k <;> simp_all [Kind.acceptsChild, Kind.ctype]

theorem mapM_strOf (l : List String) : (l.map (PV.str : String → PV α)).mapM strOf = .ok l := by
  induction l with
  | nil => rfl
  | cons a rest ih => simp [List.mapM_cons, strOf, ih, bind, Except.bind, pure, Except.pure]

theorem hasDup_nodup (l : List String) (h : l.Nodup) : hasDup l = false := by
  induction l with
  | nil => rfl
  | cons a rest ih =>
    simp only [List.nodup_cons] at h
    simp [hasDup, h.1, ih h.2]

theorem resolve_all (seen : List (Node α)) (ps : List String) (h : ∀ p ∈ ps, ∃ pn ∈ seen, pn.name = p) :
    ∃ found : List (Node α), ps.mapM (resolveParent (seen.map rl)) = .ok (found.map rl) ∧
      found.map Node.name = ps ∧ ∀ x ∈ found, x ∈ seen := by
  induction ps with
  | nil => exact ⟨[], rfl, rfl, by simp⟩
  | cons p rest ih =>
    obtain ⟨found, hm, hn, hs⟩ := ih (fun q hq => h q (by simp [hq]))
    obtain ⟨pn, hpn, hpp, hfind⟩ := find_parent seen p (h p (by simp))
    refine ⟨pn :: found, ?_, by simp [hpp, hn], ?_⟩
    · simp [List.mapM_cons, resolveParent, hfind, hm, bind, Except.bind, pure, Except.pure]
    · intro x hx
      rcases List.mem_cons.mp hx with e | hr
      · subst e; exact hpn
      · exact hs x hr

theorem loadBlock_mux (seen : List (Node α)) (b : Block α) (h : MuxBlockOK seen b) :
    loadBlock (seen.map rl) false b.root.name (blockDoc b) =
      .ok ((seen ++ b.root :: b.childs.flatMap (·.2)).map rl) := by
  obtain ⟨a, hb⟩ := h.built
  rw [h.isPMux] at hb
  obtain ⟨rs, ig, iis, rt, hp, hk, hname, hmk⟩ := reload_pmux _ a _ hb
  have hmux := h.isMux
  have e1 : pySub (blockDoc b) "type" = .ok (.str "PMUX") :=
    pySub_block b _ _ (by simp [dumpComp, List.lookup, hk, Kind.ctype, CType.name])
  have e2 : pySub (blockDoc b) "params" = .ok (.dict b.root.comp.params) :=
    pySub_block b _ _ (by simp [dumpComp, List.lookup])
  have e3 : pySub (blockDoc b) "childs" = .ok (childsDoc b.childs) :=
    pySub_block b _ _ (by simp [dumpComp, List.lookup])
  have e7 : pySub (blockDoc b) "parents" = .ok (.list (b.root.parents.map PV.str)) :=
    pySub_block b _ _ (by simp [dumpComp, List.lookup, hmux])
  have e4 : blockLimits (blockDoc b) = [("limits", applims b.root.comp)] := by
    simp [blockLimits, blockDoc, dumpComp, List.lookup]
  have g1 : getOpt (PV.dict b.root.comp.params) "rs" (.float 0) = .ok rs := by
    rw [getOpt_dict]; simp [hp, List.lookup]
  have g2 : getOpt (PV.dict b.root.comp.params) "ig" (.float 0) = .ok ig := by
    rw [getOpt_dict]; simp [hp, List.lookup]
  have g3 : getOpt (PV.dict b.root.comp.params) "iis" (.float 0) = .ok iis := by
    rw [getOpt_dict]; simp [hp, List.lookup]
  have g4 : getOpt (PV.dict b.root.comp.params) "rt" (.float 0) = .ok rt := by
    rw [getOpt_dict]; simp [hp, List.lookup]
  have hmk' : mkComp .pmux b.root.name [("rs", rs), ("ig", ig), ("iis", iis), ("rt", rt),
      ("limits", applims b.root.comp)] = .ok (reloaded b.root.comp) := hmk
  obtain ⟨found, hres, hnames, hmem⟩ := resolve_all seen b.root.parents h.parentsLoaded
  have hacc : (found.map rl).find? (fun p => !(p.comp.kind.acceptsChild (reloaded b.root.comp).kind.ctype)) = none := by
    rw [List.find?_eq_none]
    intro x hx
    obtain ⟨y, hy, rfl⟩ := List.mem_map.mp hx
    have hyp : y.name ∈ b.root.parents := by rw [← hnames]; exact List.mem_map_of_mem (f := Node.name) hy
    have hnl := h.parentsAccept _ hyp y (hmem y hy) rfl
    have : (reloaded b.root.comp).kind = .pmux := hk
    simp only [rl_kind, this]
    rw [accepts_of_not_load _ _ hnl (by simp [Kind.ctype])]
    simp
  have hany : (seen.map rl).any (fun n => n.comp.kind.ctype == CType.PMUX) = false := by
    rw [List.any_eq_false]
    intro x hx
    obtain ⟨y, hy, rfl⟩ := List.mem_map.mp hx
    have := h.onlyMux y hy
    simp only [rl_kind, beq_iff_eq]
    exact fun e => this ((ctype_pmux_iff _).mp e)
  have hpn : (found.map rl).map Node.name = b.root.parents := by rw [map_rl_names, hnames]
  have hroot : rl b.root = { comp := reloaded b.root.comp, parents := (found.map rl).map Node.name } := by
    rw [hpn]; rfl
  have hk' : ((reloaded b.root.comp).kind.ctype != CType.PMUX) = false := by
    have : (reloaded b.root.comp).kind = .pmux := hk
    rw [this]; rfl
  have hk'' : ((reloaded b.root.comp).kind.ctype == CType.PMUX) = true := by
    have : (reloaded b.root.comp).kind = .pmux := hk
    rw [this]; rfl
  have hnt : nameTaken (seen.map rl) (reloaded b.root.comp).name = false :=
    nameTaken_fresh seen _ h.fresh h.named
  have hadd : addComp (seen.map rl) b.root.parents true (reloaded b.root.comp) = .ok ((seen ++ [b.root]).map rl) := by
    have hne : b.root.parents.isEmpty = false := by
      cases hp' : b.root.parents with
      | nil => exact absurd hp' h.parentsNonempty
      | cons _ _ => rfl
    unfold addComp
    simp only [Bool.true_and, hne, hasDup_nodup _ h.parentsNodup, hk', Bool.false_eq_true, if_false, hres, ex_bind_ok,
      hnt, hacc, hk'', hany, Bool.and_false, ex_pure, bind, Except.bind, pure, Except.pure]
    rw [List.map_append, List.map_singleton, hroot]
  have hload : loadRoot (seen.map rl) false b.root.name (blockDoc b) = .ok ((seen ++ [b.root]).map rl) := by
    simp only [loadRoot, e1, e2, e4, e7, g1, g2, g3, g4, ex_bind_ok, bind, Except.bind, pure, Except.pure]
    simp only [Bool.false_eq_true, if_false, List.cons_append, List.nil_append, hmk', mapM_strOf]
    exact hadd
  have key := loadChilds_ok _ _ h.keys h.entries
  rw [childsDoc_eq _ h.keys] at key e3
  simp only [loadBlock, hload, e3, ex_bind_ok, bind, Except.bind]
  have hfin : (seen ++ [b.root] ++ b.childs.flatMap (·.2)) = seen ++ b.root :: b.childs.flatMap (·.2) := by simp
  rw [hfin] at key
  cases hd : entriesDoc b.childs with
  | nil =>
    rw [hd] at key
    simpa [loadChilds, List.foldlM, pure, Except.pure] using key
  | cons e rest =>
    rw [hd] at key
    exact key

/-! ### the whole layout -/

def Block.nodes (b : Block α) : List (Node α) := b.root :: b.childs.flatMap (·.2)

def flatLayout (L : List (Block α)) : List (Node α) := L.flatMap Block.nodes

/-- every block is loadable after the blocks before it (`seen` = the nodes loaded so far) -/
def LayoutOK : List (Node α) → List (Block α) → Prop
  | _, [] => True
  | seen, b :: rest =>
    (if b.isMux then MuxBlockOK seen b else SourceBlockOK seen b) ∧ LayoutOK (seen ++ b.nodes) rest

def layoutDoc (L : List (Block α)) : List (String × PV α) := L.map fun b => (b.root.name, blockDoc b)

theorem loadBlocks_ok (seen : List (Node α)) (L : List (Block α)) (first : Bool)
    (hf : first = true → seen = []) (hhead : first = true → ∀ b, L.head? = some b → b.isMux = false)
    (h : LayoutOK seen L) :
    loadBlocks (seen.map rl) first (layoutDoc L) = .ok ((seen ++ flatLayout L).map rl) := by
  induction L generalizing seen first with
  | nil => simp [layoutDoc, loadBlocks, flatLayout, pure, Except.pure]
  | cons b rest ih =>
    obtain ⟨hb, hrest⟩ := h
    have hstep : loadBlock (seen.map rl) first b.root.name (blockDoc b) = .ok ((seen ++ b.nodes).map rl) := by
      cases hm : b.isMux with
      | true =>
        rw [hm] at hb
        have hfalse : first = false := by
          cases first with
          | false => rfl
          | true => have := hhead rfl b rfl; rw [hm] at this; cases this
        subst hfalse
        exact loadBlock_mux seen b hb
      | false =>
        rw [hm] at hb
        exact loadBlock_source seen b first hf hb
    simp only [layoutDoc, List.map_cons, loadBlocks, hstep, ex_bind_ok, bind, Except.bind]
    have := ih (seen ++ b.nodes) false (by simp) (by simp) hrest
    simp only [layoutDoc] at this
    rw [this]
    simp [flatLayout]

theorem layout_roots_fresh (seen : List (Node α)) (L : List (Block α)) (h : LayoutOK seen L) :
    (L.map fun b => b.root.name).Nodup ∧ ∀ b ∈ L, b.root.name ∉ seen.map Node.name := by
  induction L generalizing seen with
  | nil => simp
  | cons b rest ih =>
    obtain ⟨hb, hrest⟩ := h
    obtain ⟨hn, hfr⟩ := ih _ hrest
    have hbf : b.root.name ∉ seen.map Node.name := by
      cases hm : b.isMux <;> rw [hm] at hb
      · exact hb.fresh
      · exact hb.fresh
    refine ⟨?_, ?_⟩
    · simp only [List.map_cons, List.nodup_cons]
      refine ⟨?_, hn⟩
      intro hmem
      obtain ⟨c, hc, hce⟩ := List.mem_map.mp hmem
      apply hfr c hc
      rw [hce]
      simp [Block.nodes, Node.name]
    · intro c hc
      rcases List.mem_cons.mp hc with e | hr
      · subst e; exact hbf
      · intro hmem
        apply hfr c hr
        simp only [List.map_append, List.mem_append]
        exact Or.inl hmem

/-- the document of a layout whose top-level names are distinct and not `"system"` -/
theorem docOf_eq (ver : String) (s : SysDesc α) (L : List (Block α)) (hn : (L.map fun b => b.root.name).Nodup)
    (hres : ∀ b ∈ L, b.root.name ≠ "system") :
    docOf ver s L = .dict (("system", sysBlock ver s) :: layoutDoc L) := by
  unfold docOf layoutDoc
  rw [foldl_dictSet_new L (fun b => b.root.name) blockDoc [("system", sysBlock ver s)] hn]
  · rfl
  · intro b hb
    simpa using hres b hb

theorem backfill_nonempty (r pc : PV α) (h : r ≠ .dict []) : backfill r pc = .ok r := by
  unfold backfill
  split
  · exact absurd rfl h
  · rfl

/-! ### the executable layout conditions imply the hypothesis of the round-trip theorem -/

theorem hasDupS_false {l : List String} (h : hasDupS l = false) : l.Nodup := by
  induction l with
  | nil => exact List.nodup_nil
  | cons a rest ih =>
    simp only [hasDupS, Bool.or_eq_false_iff] at h
    exact List.nodup_cons.mpr ⟨by simpa using h.1, ih h.2⟩

theorem childOKb_sound {seen : List (Node α)} {p : String} {n : Node α} (hb : Built n.comp)
    (h : childOKb seen p n = true) : ChildOK seen p n := by
  simp only [childOKb, Bool.and_eq_true, bne_iff_ne, ne_eq, beq_iff_eq, List.any_eq_true, List.all_eq_true,
    Bool.or_eq_true, Bool.not_eq_true', List.contains_eq_mem, decide_eq_false_iff_not] at h
  obtain ⟨⟨⟨⟨⟨⟨h1, h2⟩, h3⟩, h4⟩, h5⟩, h6⟩, h7⟩ := h
  exact { built := hb, notSource := h1, notMux := h2, parents := h3,
          parentLoaded := by obtain ⟨pn, hm, e⟩ := h4; exact ⟨pn, hm, e⟩,
          parentAccepts := by
            intro pn hm e
            rcases h5 pn hm with h | h
            · exact absurd e h
            · exact h,
          fresh := h6, named := h7 }

theorem childsOKb_sound {seen : List (Node α)} {p : String} {cs : List (Node α)}
    (hb : ∀ n ∈ cs, Built n.comp) (h : childsOKb seen p cs = true) : ChildsOK seen p cs := by
  induction cs generalizing seen with
  | nil => trivial
  | cons n rest ih =>
    simp only [childsOKb, Bool.and_eq_true] at h
    exact ⟨childOKb_sound (hb n (by simp)) h.1, ih (fun m hm => hb m (by simp [hm])) h.2⟩

theorem entriesOKb_sound {seen : List (Node α)} {es : List (String × List (Node α))}
    (hb : ∀ e ∈ es, ∀ n ∈ e.2, Built n.comp) (h : entriesOKb seen es = true) : EntriesOK seen es := by
  induction es generalizing seen with
  | nil => trivial
  | cons e rest ih =>
    simp only [entriesOKb, Bool.and_eq_true] at h
    exact ⟨childsOKb_sound (hb e (by simp)) h.1, ih (fun e' he' => hb e' (by simp [he'])) h.2⟩

theorem blockOKb_sound {seen : List (Node α)} {b : Block α} (hb : ∀ n ∈ b.nodes, Built n.comp)
    (h : blockOKb seen b = true) : if b.isMux then MuxBlockOK seen b else SourceBlockOK seen b := by
  simp only [blockOKb, Bool.and_eq_true, Bool.not_eq_true', List.contains_eq_mem, decide_eq_false_iff_not,
    bne_iff_ne, ne_eq] at h
  obtain ⟨⟨⟨⟨h1, h2⟩, h3⟩, h4⟩, h5⟩ := h
  have hroot : Built b.root.comp := hb b.root (by simp [Block.nodes])
  have hent : EntriesOK (seen ++ [b.root]) b.childs :=
    entriesOKb_sound (fun e he n hn => hb n (by
      simp only [Block.nodes, List.mem_cons, List.mem_flatMap]
      exact Or.inr ⟨e, he, hn⟩)) h4
  cases hm : b.isMux with
  | true =>
    simp only [hm, if_true, Bool.and_eq_true, beq_iff_eq, Bool.not_eq_true', List.all_eq_true, List.any_eq_true,
      Bool.or_eq_true, bne_iff_ne, ne_eq] at h5 ⊢
    obtain ⟨⟨⟨⟨k1, k2⟩, k3⟩, k4⟩, k5⟩ := h5
    exact { built := hroot, isPMux := k1, isMux := hm, fresh := h1, named := h2, keys := hasDupS_false h3,
            entries := hent,
            parentsNonempty := by intro e; rw [e] at k2; simp at k2,
            parentsNodup := hasDupS_false k3,
            parentsLoaded := fun p hp => by obtain ⟨⟨pn, hq, e⟩, _⟩ := k4 p hp; exact ⟨pn, hq, e⟩,
            parentsAccept := fun p hp pn hq e => by
              rcases (k4 p hp).2 pn hq with h | h
              · exact absurd e h
              · exact h,
            onlyMux := k5 }
  | false =>
    simp only [hm, Bool.false_eq_true, if_false, Bool.and_eq_true, beq_iff_eq, List.isEmpty_iff] at h5 ⊢
    exact { built := hroot, isSource := h5.1, notMux := hm, noParents := h5.2, fresh := h1, named := h2,
            keys := hasDupS_false h3, entries := hent }

theorem layoutOKb_sound {seen : List (Node α)} {L : List (Block α)} (hb : ∀ n ∈ flatLayout L, Built n.comp)
    (h : layoutOKb seen L = true) : LayoutOK seen L := by
  induction L generalizing seen with
  | nil => trivial
  | cons b rest ih =>
    simp only [layoutOKb, Bool.and_eq_true] at h
    refine ⟨blockOKb_sound (fun n hn => hb n (by simp [flatLayout, hn])) h.1, ?_⟩
    exact ih (fun n hn => hb n (by
      simp only [flatLayout, List.flatMap_cons, List.mem_append] at hn ⊢
      exact Or.inr hn)) h.2

end SysLoss
