/-
  Proofs/Interp — helper lemmas about the interpolators of Model/Interp.lean at a linearly ordered field
  (used by Props/C10 and Props/C11).

  1-D : `interp1Aux` on knot lists with strictly increasing abscissae — value below the first / above the
        last knot, affine on every segment, constant tables, non-negativity on ANY knot list.
  2-D : `findCell` finds an enclosing interval; `cellVal` on the four edges of a cell is the affine
        interpolant of the two knots of that edge whichever diagonal cuts the cell; hence the value does
        not depend on which of the enclosing cells is used (`interp2In_eq_cellAt`); convexity bounds.
-/
import SysLoss.Proofs.Basic
import SysLoss.Model.Interp
import Mathlib.Tactic.NormNum
import Mathlib.Tactic.SplitIfs

set_option linter.unusedSectionVars false
set_option linter.unusedVariables false
set_option linter.unusedSimpArgs false

namespace SysLoss
variable {α : Type} [Field α] [LinearOrder α] [IsStrictOrderedRing α]

/-! ### lists with strictly increasing entries -/

theorem getD_eq_getElem' {β : Type} (l : List β) (d : β) {n : Nat} (h : n < l.length) : l.getD n d = l[n] :=
  (List.getElem_eq_getD d).symm

theorem getD_lt_of_pairwise {xs : List α} (hs : xs.Pairwise (· < ·)) {i j : Nat} (hij : i < j)
    (hj : j < xs.length) : xs.getD i 0 < xs.getD j 0 := by
  rw [getD_eq_getElem' _ _ (by omega), getD_eq_getElem' _ _ hj]
  exact (List.pairwise_iff_getElem.mp hs) i j (by omega) hj hij

theorem getD_le_of_pairwise {xs : List α} (hs : xs.Pairwise (· < ·)) {i j : Nat} (hij : i ≤ j)
    (hj : j < xs.length) : xs.getD i 0 ≤ xs.getD j 0 := by
  rcases Nat.lt_or_eq_of_le hij with h | h
  · exact (getD_lt_of_pairwise hs h hj).le
  · subst h; exact le_refl _

theorem map_nabs_of_nonneg {xs : List α} (h : ∀ x ∈ xs, 0 ≤ x) : xs.map nabs = xs := by
  induction xs with
  | nil => rfl
  | cons a l ih =>
    simp only [List.map_cons, nabs_eq_abs]
    rw [abs_of_nonneg (h a (by simp)), ih (fun x hx => h x (by simp [hx]))]

theorem headD_le_getLastD {xs : List α} (hs : xs.Pairwise (· < ·)) : xs.headD 0 ≤ xs.getLastD 0 := by
  cases xs with
  | nil => simp
  | cons a l =>
    have h0 : (a :: l).headD 0 = (a :: l).getD 0 0 := by simp
    have h1 : (a :: l).getLastD 0 = (a :: l).getD ((a :: l).length - 1) 0 := by
      rw [getD_eq_getElem' _ _ (by simp)]
      simp [List.getLastD, List.getLast_eq_getElem]
    rw [h0, h1]
    exact getD_le_of_pairwise hs (by omega) (by simp)

theorem getLastD_eq_getD {xs : List α} (h : xs ≠ []) : xs.getLastD 0 = xs.getD (xs.length - 1) 0 := by
  cases xs with
  | nil => exact absurd rfl h
  | cons a l =>
    rw [getD_eq_getElem' _ _ (by simp)]
    simp [List.getLastD, List.getLast_eq_getElem]

/-! ### 1-D -/

/-- abscissae strictly increasing -/
def KeysInc (ps : List (α × α)) : Prop := ps.Pairwise (fun p q => p.1 < q.1)

theorem KeysInc.tail {p : α × α} {ps : List (α × α)} (h : KeysInc (p :: ps)) : KeysInc ps :=
  (List.pairwise_cons.mp h).2

theorem KeysInc.head_lt {p : α × α} {ps : List (α × α)} (h : KeysInc (p :: ps)) :
    ∀ q ∈ ps, p.1 < q.1 := (List.pairwise_cons.mp h).1

theorem keysInc_zip {xs : List α} (hs : xs.Pairwise (· < ·)) (gs : List α) : KeysInc (xs.zip gs) := by
  induction xs generalizing gs with
  | nil => simp [KeysInc]
  | cons a l ih =>
    cases gs with
    | nil => simp [KeysInc]
    | cons g gs =>
      simp only [List.zip_cons_cons, KeysInc, List.pairwise_cons]
      refine ⟨?_, ih (List.pairwise_cons.mp hs).2 gs⟩
      intro q hq
      exact (List.pairwise_cons.mp hs).1 q.1 (List.of_mem_zip (a := q.1) (b := q.2) hq).1

/-- at or below the first knot: the first value (`np.interp` never extrapolates to the left) -/
theorem interp1Aux_le_head (p : α × α) (rest : List (α × α)) (h : KeysInc (p :: rest)) {x : α}
    (hx : x ≤ p.1) : interp1Aux (p :: rest) x = p.2 := by
  obtain ⟨x0, f0⟩ := p
  cases rest with
  | nil => simp [interp1Aux]
  | cons q r =>
    obtain ⟨x1, f1⟩ := q
    have h01 : x0 < x1 := h.head_lt (x1, f1) (by simp)
    simp only at hx
    rw [interp1Aux, if_pos (lt_of_le_of_lt hx h01), if_neg (not_lt.mpr hx)]

theorem keysInc_head_le_getElem {q : α × α} {rest : List (α × α)} (h : KeysInc (q :: rest)) (j : Nat)
    (hj : j < (q :: rest).length) : q.1 ≤ ((q :: rest)[j]).1 := by
  cases j with
  | zero => simp
  | succ j =>
    simp only [List.getElem_cons_succ]
    exact (h.head_lt _ (List.getElem_mem _)).le

/-- at or above the last knot: the last value (never extrapolated to the right) -/
theorem interp1Aux_ge_last (ps : List (α × α)) (h : KeysInc ps) (hne : ps ≠ []) {x : α}
    (hx : (ps.getLast hne).1 ≤ x) : interp1Aux ps x = (ps.getLast hne).2 := by
  induction ps with
  | nil => exact absurd rfl hne
  | cons p rest ih =>
    cases rest with
    | nil => obtain ⟨x0, f0⟩ := p; simp [interp1Aux]
    | cons q r =>
      obtain ⟨x0, f0⟩ := p
      obtain ⟨x1, f1⟩ := q
      have hl : ((x0, f0) :: (x1, f1) :: r).getLast hne = ((x1, f1) :: r).getLast (by simp) := by
        simp [List.getLast_cons]
      rw [hl] at hx ⊢
      have hle : x1 ≤ (((x1, f1) :: r).getLast (by simp)).1 := by
        have := keysInc_head_le_getElem h.tail (((x1, f1) :: r).length - 1) (by simp)
        rwa [← List.getLast_eq_getElem] at this
      rw [interp1Aux, if_neg (not_lt.mpr (le_trans hle hx))]
      exact ih h.tail (by simp) hx

/-- on the segment between two consecutive knots: the affine interpolant of the two knots -/
theorem interp1Aux_seg (ps : List (α × α)) (h : KeysInc ps) (j : Nat) (hj : j + 1 < ps.length) (x : α)
    (h0 : (ps[j]).1 ≤ x) (h1 : x ≤ (ps[j + 1]).1) :
    interp1Aux ps x =
      ((ps[j + 1]).2 - (ps[j]).2) / ((ps[j + 1]).1 - (ps[j]).1) * (x - (ps[j]).1) + (ps[j]).2 := by
  induction ps generalizing j with
  | nil => simp at hj
  | cons p rest ih =>
    cases rest with
    | nil => simp at hj
    | cons q r =>
      obtain ⟨x0, f0⟩ := p
      obtain ⟨x1, f1⟩ := q
      have h01 : x0 < x1 := h.head_lt (x1, f1) (by simp)
      cases j with
      | zero =>
        simp only [List.getElem_cons_zero, List.getElem_cons_succ] at h0 h1 ⊢
        rw [interp1Aux]
        by_cases hlt : x < x1
        · rw [if_pos hlt]
          by_cases hgt : x0 < x
          · rw [if_pos hgt]
          · rw [if_neg hgt]
            have : x = x0 := le_antisymm (not_lt.mp hgt) h0
            subst this; ring
        · rw [if_neg hlt]
          have hx : x = x1 := le_antisymm h1 (not_lt.mp hlt)
          subst hx
          rw [interp1Aux_le_head _ _ h.tail (le_refl _)]
          have : x - x0 ≠ 0 := sub_ne_zero.mpr (ne_of_gt h01)
          field_simp
          ring
      | succ j =>
        simp only [List.getElem_cons_succ] at h0 h1 ⊢
        have hj' : j < ((x1, f1) :: r).length := by simp at hj ⊢; omega
        have hle : x1 ≤ (((x1, f1) :: r)[j]).1 := keysInc_head_le_getElem h.tail j hj'
        rw [interp1Aux, if_neg (not_lt.mpr (le_trans hle h0))]
        exact ih h.tail j (by simp at hj ⊢; omega) h0 h1

/-- a table whose values all equal `c` evaluates to `c` -/
theorem interp1Aux_const (ps : List (α × α)) (c : α) (hc : ∀ p ∈ ps, p.2 = c) (hne : ps ≠ []) (x : α) :
    interp1Aux ps x = c := by
  induction ps with
  | nil => exact absurd rfl hne
  | cons p rest ih =>
    cases rest with
    | nil => obtain ⟨x0, f0⟩ := p; simpa [interp1Aux] using hc (x0, f0) (by simp)
    | cons q r =>
      obtain ⟨x0, f0⟩ := p
      obtain ⟨x1, f1⟩ := q
      have e0 : f0 = c := hc (x0, f0) (by simp)
      have e1 : f1 = c := hc (x1, f1) (by simp)
      rw [interp1Aux]
      split_ifs
      · rw [e0, e1]; simp
      · exact e0
      · exact ih (fun p hp => hc p (by simp [hp])) (by simp)

/-- on ANY knot list (sorted or not) the value lies between the smallest and the largest tabulated
    value that bounds every entry: the branch conditions themselves put `x` strictly inside the segment. -/
theorem interp1Aux_bounds (ps : List (α × α)) (lo hi : α) (hb : ∀ p ∈ ps, lo ≤ p.2 ∧ p.2 ≤ hi)
    (hne : ps ≠ []) (x : α) : lo ≤ interp1Aux ps x ∧ interp1Aux ps x ≤ hi := by
  induction ps with
  | nil => exact absurd rfl hne
  | cons p rest ih =>
    cases rest with
    | nil => obtain ⟨x0, f0⟩ := p; simpa [interp1Aux] using hb (x0, f0) (by simp)
    | cons q r =>
      obtain ⟨x0, f0⟩ := p
      obtain ⟨x1, f1⟩ := q
      have b0 := hb (x0, f0) (by simp)
      have b1 := hb (x1, f1) (by simp)
      simp only at b0 b1
      rw [interp1Aux]
      split_ifs with hlt hgt
      · have hd : 0 < x1 - x0 := by linarith
        set t := (x - x0) / (x1 - x0) with ht
        have ht0 : 0 ≤ t := div_nonneg (by linarith) hd.le
        have ht1 : t ≤ 1 := by rw [ht, div_le_one hd]; linarith
        have e : (f1 - f0) / (x1 - x0) * (x - x0) + f0 = (1 - t) * f0 + t * f1 := by
          rw [ht]; field_simp; ring
        rw [e]
        constructor <;> nlinarith [mul_nonneg ht0 (sub_nonneg.mpr b1.1), mul_nonneg ht0 (sub_nonneg.mpr b1.2),
          mul_nonneg (sub_nonneg.mpr ht1) (sub_nonneg.mpr b0.1), mul_nonneg (sub_nonneg.mpr ht1) (sub_nonneg.mpr b0.2)]
      · exact b0
      · exact ih (fun p hp => hb p (by simp [hp])) (by simp)

/-! ### 2-D : the cell search -/

/-- `findCell` returns an interval of the axis that contains `x` (and the right-most such interval unless
    it is the last one). -/
theorem findCell_spec : ∀ (xs : List α) (x : α), xs.Pairwise (· < ·) → 2 ≤ xs.length →
    xs.headD 0 ≤ x → x ≤ xs.getLastD 0 →
    findCell xs x + 1 < xs.length ∧ xs.getD (findCell xs x) 0 ≤ x ∧ x ≤ xs.getD (findCell xs x + 1) 0 ∧
      (x < xs.getD (findCell xs x + 1) 0 ∨ findCell xs x + 2 = xs.length)
  | [], _, _, hl, _, _ => by simp at hl
  | [_], _, _, hl, _, _ => by simp at hl
  | [a, b], x, _, _, h0, h1 => by
    simp only [findCell, List.length_cons, List.length_nil, List.getD_cons_zero, List.getD_cons_succ]
    simp only [List.headD_cons, List.getLastD] at h0 h1
    simp at h1
    exact ⟨by omega, h0, h1, Or.inr (by simp)⟩
  | a :: b :: c :: rest, x, hs, _, h0, h1 => by
    have ih := findCell_spec (b :: c :: rest) x (List.pairwise_cons.mp hs).2 (by simp)
    rw [findCell]
    split_ifs with hlt
    · simp only [List.headD_cons] at h0
      simp only [List.getD_cons_zero, List.getD_cons_succ, List.length_cons]
      exact ⟨by omega, h0, hlt.le, Or.inl hlt⟩
    · have h1' : x ≤ (b :: c :: rest).getLastD 0 := by
        simpa [List.getLastD, List.getLast_cons] using h1
      obtain ⟨i1, i2, i3, i4⟩ := ih (by simpa using not_lt.mp hlt) h1'
      simp only [List.getD_cons_succ, List.length_cons] at i1 i2 i3 i4 ⊢
      refine ⟨by omega, i2, i3, ?_⟩
      rcases i4 with i4 | i4
      · exact Or.inl i4
      · exact Or.inr (by omega)

/-- which interval `findCell` picks for a point of `[xs[j], xs[j+1]]`: that interval, or the next one when the
    point is its right end -/
theorem findCell_cases {xs : List α} (hs : xs.Pairwise (· < ·)) {x : α} {j : Nat} (hj : j + 1 < xs.length)
    (h0 : xs.getD j 0 ≤ x) (h1 : x ≤ xs.getD (j + 1) 0) :
    findCell xs x = j ∨ (findCell xs x = j + 1 ∧ x = xs.getD (j + 1) 0 ∧ j + 2 < xs.length) := by
  have hne : xs ≠ [] := by intro e; simp [e] at hj
  have hh : xs.headD 0 ≤ x := by
    have : xs.headD 0 = xs.getD 0 0 := by cases xs <;> simp
    rw [this]; exact le_trans (getD_le_of_pairwise hs (Nat.zero_le j) (by omega)) h0
  have hl : x ≤ xs.getLastD 0 := by
    rw [getLastD_eq_getD hne]
    exact le_trans h1 (getD_le_of_pairwise hs (by omega) (by omega))
  obtain ⟨k1, k2, k3, k4⟩ := findCell_spec xs x hs (by omega) hh hl
  generalize findCell xs x = k at *
  rcases lt_trichotomy k j with hk | hk | hk
  · exfalso
    have : xs.getD (k + 1) 0 ≤ x := le_trans (getD_le_of_pairwise hs (by omega) (by omega)) h0
    rcases k4 with k4 | k4
    · exact absurd k4 (not_lt.mpr this)
    · omega
  · exact Or.inl hk
  · right
    have hle : xs.getD (j + 1) 0 ≤ xs.getD k 0 := getD_le_of_pairwise hs (by omega) (by omega)
    have hx : x = xs.getD (j + 1) 0 := le_antisymm h1 (le_trans hle k2)
    have hkj : k = j + 1 := by
      by_contra hne'
      have : xs.getD (j + 1) 0 < xs.getD k 0 := getD_lt_of_pairwise hs (by omega) (by omega)
      rw [← hx] at this
      exact absurd k2 (not_le.mpr this)
    exact ⟨hkj, hx, by omega⟩

/-! ### 2-D : one cell -/

section cell
variable (d : Bool) (f00 f10 f01 f11 s t : α)

theorem cellVal_s0 (h0 : 0 ≤ t) (h1 : t ≤ 1) : cellVal d f00 f10 f01 f11 0 t = f00 + t * (f01 - f00) := by
  unfold cellVal
  cases d
  · simp only [Bool.false_eq_true, if_false, zero_add]
    rw [if_neg (not_lt.mpr h1)]; ring
  · simp only [if_true]
    split_ifs with h
    · ring
    · have : t = 0 := le_antisymm (not_lt.mp h) h0
      subst this; ring

theorem cellVal_s1 (h0 : 0 ≤ t) (h1 : t ≤ 1) : cellVal d f00 f10 f01 f11 1 t = f10 + t * (f11 - f10) := by
  unfold cellVal
  cases d
  · simp only [Bool.false_eq_true, if_false]
    split_ifs with h
    · ring
    · have : t = 0 := le_antisymm (by linarith [not_lt.mp h]) h0
      subst this; ring
  · simp only [if_true]
    rw [if_neg (not_lt.mpr h1)]; ring

theorem cellVal_t0 (h0 : 0 ≤ s) (h1 : s ≤ 1) : cellVal d f00 f10 f01 f11 s 0 = f00 + s * (f10 - f00) := by
  unfold cellVal
  cases d
  · simp only [Bool.false_eq_true, if_false, add_zero]
    rw [if_neg (not_lt.mpr h1)]; ring
  · simp only [if_true]
    rw [if_neg (not_lt.mpr h0)]; ring

theorem cellVal_t1 (h0 : 0 ≤ s) (h1 : s ≤ 1) : cellVal d f00 f10 f01 f11 s 1 = f01 + s * (f11 - f01) := by
  unfold cellVal
  cases d
  · simp only [Bool.false_eq_true, if_false]
    split_ifs with h
    · ring
    · have : s = 0 := le_antisymm (by linarith [not_lt.mp h]) h0
      subst this; ring
  · simp only [if_true]
    split_ifs with h
    · ring
    · have : s = 1 := le_antisymm h1 (not_lt.mp h)
      subst this; ring

theorem cellVal_const (c : α) : cellVal d c c c c s t = c := by
  unfold cellVal; split_ifs <;> ring

/-- inside the cell the value is a convex combination of three corner values: it lies between any lower
    and upper bound of the four corners -/
theorem cellVal_bounds (lo hi : α) (hs0 : 0 ≤ s) (hs1 : s ≤ 1) (ht0 : 0 ≤ t) (ht1 : t ≤ 1)
    (b00 : lo ≤ f00 ∧ f00 ≤ hi) (b10 : lo ≤ f10 ∧ f10 ≤ hi) (b01 : lo ≤ f01 ∧ f01 ≤ hi)
    (b11 : lo ≤ f11 ∧ f11 ≤ hi) :
    lo ≤ cellVal d f00 f10 f01 f11 s t ∧ cellVal d f00 f10 f01 f11 s t ≤ hi := by
  unfold cellVal
  cases d
  · simp only [Bool.false_eq_true, if_false]
    split_ifs with h
    · have e : f11 + (1 - s) * (f01 - f11) + (1 - t) * (f10 - f11)
          = (s + t - 1) * f11 + (1 - s) * f01 + (1 - t) * f10 := by ring
      rw [e]
      have w1 : 0 ≤ s + t - 1 := by linarith
      have w2 : 0 ≤ 1 - s := by linarith
      have w3 : 0 ≤ 1 - t := by linarith
      constructor <;> nlinarith [mul_nonneg w1 (sub_nonneg.mpr b11.1), mul_nonneg w1 (sub_nonneg.mpr b11.2),
        mul_nonneg w2 (sub_nonneg.mpr b01.1), mul_nonneg w2 (sub_nonneg.mpr b01.2),
        mul_nonneg w3 (sub_nonneg.mpr b10.1), mul_nonneg w3 (sub_nonneg.mpr b10.2)]
    · have e : f00 + s * (f10 - f00) + t * (f01 - f00) = (1 - s - t) * f00 + s * f10 + t * f01 := by ring
      rw [e]
      have w1 : 0 ≤ 1 - s - t := by linarith [not_lt.mp h]
      constructor <;> nlinarith [mul_nonneg w1 (sub_nonneg.mpr b00.1), mul_nonneg w1 (sub_nonneg.mpr b00.2),
        mul_nonneg hs0 (sub_nonneg.mpr b10.1), mul_nonneg hs0 (sub_nonneg.mpr b10.2),
        mul_nonneg ht0 (sub_nonneg.mpr b01.1), mul_nonneg ht0 (sub_nonneg.mpr b01.2)]
  · simp only [if_true]
    split_ifs with h
    · have e : f00 + t * (f01 - f00) + s * (f11 - f01) = (1 - t) * f00 + (t - s) * f01 + s * f11 := by ring
      rw [e]
      have w1 : 0 ≤ 1 - t := by linarith
      have w2 : 0 ≤ t - s := by linarith
      constructor <;> nlinarith [mul_nonneg w1 (sub_nonneg.mpr b00.1), mul_nonneg w1 (sub_nonneg.mpr b00.2),
        mul_nonneg w2 (sub_nonneg.mpr b01.1), mul_nonneg w2 (sub_nonneg.mpr b01.2),
        mul_nonneg hs0 (sub_nonneg.mpr b11.1), mul_nonneg hs0 (sub_nonneg.mpr b11.2)]
    · have e : f00 + s * (f10 - f00) + t * (f11 - f10) = (1 - s) * f00 + (s - t) * f10 + t * f11 := by ring
      rw [e]
      have w1 : 0 ≤ 1 - s := by linarith
      have w2 : 0 ≤ s - t := by linarith [not_lt.mp h]
      constructor <;> nlinarith [mul_nonneg w1 (sub_nonneg.mpr b00.1), mul_nonneg w1 (sub_nonneg.mpr b00.2),
        mul_nonneg w2 (sub_nonneg.mpr b10.1), mul_nonneg w2 (sub_nonneg.mpr b10.2),
        mul_nonneg ht0 (sub_nonneg.mpr b11.1), mul_nonneg ht0 (sub_nonneg.mpr b11.2)]

end cell

/-! ### 2-D : the grid -/

/-- relative coordinate of `x` in the interval `[xs[k], xs[k+1]]` -/
def rel (xs : List α) (k : Nat) (x : α) : α := (x - xs.getD k 0) / (xs.getD (k + 1) 0 - xs.getD k 0)

theorem rel_left (xs : List α) (k : Nat) : rel xs k (xs.getD k 0) = 0 := by simp [rel]

theorem rel_right {xs : List α} (hs : xs.Pairwise (· < ·)) {k : Nat} (hk : k + 1 < xs.length) :
    rel xs k (xs.getD (k + 1) 0) = 1 := by
  have : xs.getD k 0 < xs.getD (k + 1) 0 := getD_lt_of_pairwise hs (Nat.lt_succ_self k) hk
  unfold rel
  exact div_self (sub_ne_zero.mpr (ne_of_gt this))

theorem rel_mem {xs : List α} (hs : xs.Pairwise (· < ·)) {k : Nat} (hk : k + 1 < xs.length) {x : α}
    (h0 : xs.getD k 0 ≤ x) (h1 : x ≤ xs.getD (k + 1) 0) : 0 ≤ rel xs k x ∧ rel xs k x ≤ 1 := by
  have hd : 0 < xs.getD (k + 1) 0 - xs.getD k 0 :=
    sub_pos.mpr (getD_lt_of_pairwise hs (Nat.lt_succ_self k) hk)
  unfold rel
  exact ⟨div_nonneg (sub_nonneg.mpr h0) hd.le, by rw [div_le_one hd]; linarith⟩

/-- the value the cell `(k, r)` of the grid assigns to `(x, y)` -/
def cellAt (xs ys : List α) (f : List (List α)) (diag : List (List Bool)) (k r : Nat) (x y : α) : α :=
  cellVal ((diag.getD r []).getD k true) (getD2 f r k) (getD2 f r (k + 1)) (getD2 f (r + 1) k)
    (getD2 f (r + 1) (k + 1)) (rel xs k x) (rel ys r y)

theorem interp2In_eq_found (xs ys : List α) (f : List (List α)) (diag : List (List Bool)) (x y : α)
    (hk : findCell xs x + 1 < xs.length) (hr : findCell ys y + 1 < ys.length) :
    interp2In xs ys f diag x y = cellAt xs ys f diag (findCell xs x) (findCell ys y) x y := by
  unfold interp2In cellAt rel
  simp only [List.getElem?_eq_getElem hk, List.getElem?_eq_getElem hr, getD_eq_getElem' _ _ hk,
    getD_eq_getElem' _ _ hr]

/-- on the grid line shared by the cells `(j, r)` and `(j+1, r)` both cells give the same value -/
theorem cellAt_shift_x {xs ys : List α} (f : List (List α)) (diag : List (List Bool))
    (hs : xs.Pairwise (· < ·)) {j : Nat} (hj : j + 1 < xs.length) (r : Nat) (y : α)
    (ht : 0 ≤ rel ys r y ∧ rel ys r y ≤ 1) :
    cellAt xs ys f diag (j + 1) r (xs.getD (j + 1) 0) y = cellAt xs ys f diag j r (xs.getD (j + 1) 0) y := by
  unfold cellAt
  rw [rel_left, rel_right hs hj, cellVal_s0 _ _ _ _ _ _ ht.1 ht.2, cellVal_s1 _ _ _ _ _ _ ht.1 ht.2]

theorem cellAt_shift_y {xs ys : List α} (f : List (List α)) (diag : List (List Bool))
    (hs : ys.Pairwise (· < ·)) {q : Nat} (hq : q + 1 < ys.length) (k : Nat) (x : α)
    (ht : 0 ≤ rel xs k x ∧ rel xs k x ≤ 1) :
    cellAt xs ys f diag k (q + 1) x (ys.getD (q + 1) 0) = cellAt xs ys f diag k q x (ys.getD (q + 1) 0) := by
  unfold cellAt
  rw [rel_left, rel_right hs hq, cellVal_t0 _ _ _ _ _ _ ht.1 ht.2, cellVal_t1 _ _ _ _ _ _ ht.1 ht.2]

/-- **cell independence**: inside the table rectangle the interpolant can be computed in ANY cell whose
    closed rectangle contains the query (the scan's own choice does not matter: the triangulated
    interpolant is continuous across grid lines, whichever diagonals cut the cells). -/
theorem interp2In_eq_cellAt {xs ys : List α} (f : List (List α)) (diag : List (List Bool))
    (hsx : xs.Pairwise (· < ·)) (hsy : ys.Pairwise (· < ·)) {j q : Nat}
    (hj : j + 1 < xs.length) (hq : q + 1 < ys.length) {x y : α}
    (hx0 : xs.getD j 0 ≤ x) (hx1 : x ≤ xs.getD (j + 1) 0)
    (hy0 : ys.getD q 0 ≤ y) (hy1 : y ≤ ys.getD (q + 1) 0) :
    interp2In xs ys f diag x y = cellAt xs ys f diag j q x y := by
  have cx := findCell_cases hsx hj hx0 hx1
  have cy := findCell_cases hsy hq hy0 hy1
  have hk : findCell xs x + 1 < xs.length := by rcases cx with h | ⟨h, _, h2⟩ <;> omega
  have hr : findCell ys y + 1 < ys.length := by rcases cy with h | ⟨h, _, h2⟩ <;> omega
  rw [interp2In_eq_found xs ys f diag x y hk hr]
  have rx := rel_mem hsx hj hx0 hx1
  have ry := rel_mem hsy hq hy0 hy1
  rcases cx with ex | ⟨ex, hx, hj2⟩ <;> rcases cy with ey | ⟨ey, hy, hq2⟩
  · rw [ex, ey]
  · rw [ex, ey, hy]
    exact cellAt_shift_y f diag hsy hq j x rx
  · rw [ex, ey, hx]
    exact cellAt_shift_x f diag hsx hj q y ry
  · rw [ex, ey, hx, hy]
    rw [cellAt_shift_x f diag hsx hj (q + 1) _ (by rw [rel_left]; exact ⟨le_refl _, zero_le_one⟩)]
    exact cellAt_shift_y f diag hsy hq j _ (by rw [rel_right hsx hj]; exact ⟨zero_le_one, le_refl _⟩)

/-- every point of the table rectangle lies in some cell -/
theorem exists_cell {xs : List α} (hs : xs.Pairwise (· < ·)) (hl : 2 ≤ xs.length) {x : α}
    (h0 : xs.headD 0 ≤ x) (h1 : x ≤ xs.getLastD 0) :
    ∃ k, k + 1 < xs.length ∧ xs.getD k 0 ≤ x ∧ x ≤ xs.getD (k + 1) 0 := by
  obtain ⟨a, b, c, _⟩ := findCell_spec xs x hs hl h0 h1
  exact ⟨_, a, b, c⟩

/-! ### 2-D : `interp2` on a well-conditioned table -/

/-- clamping puts a point into `[lo, hi]` -/
theorem clamp_mem {lo hi : α} (h : lo ≤ hi) (x : α) : lo ≤ clamp lo hi x ∧ clamp lo hi x ≤ hi := by
  unfold clamp; split_ifs with h1 h2
  · exact ⟨le_refl _, h⟩
  · exact ⟨h, le_refl _⟩
  · exact ⟨not_lt.mp h1, not_lt.mp h2⟩

theorem clamp_of_mem {lo hi x : α} (h0 : lo ≤ x) (h1 : x ≤ hi) : clamp lo hi x = x := by
  unfold clamp; rw [if_neg (not_lt.mpr h0), if_neg (not_lt.mpr h1)]

theorem clamp_eq_max_min {lo hi : α} (h : lo ≤ hi) (x : α) : clamp lo hi x = max lo (min hi x) := by
  unfold clamp; split_ifs with h1 h2
  · rw [max_eq_left]; exact le_trans (min_le_right _ _) h1.le
  · rw [min_eq_left h2.le, max_eq_right h]
  · rw [min_eq_right (not_lt.mp h2), max_eq_right (not_lt.mp h1)]

/-- table values in magnitude -/
def absF (f : List (List α)) : List (List α) := f.map (·.map nabs)

theorem getD2_absF (f : List (List α)) (r k : Nat) : getD2 (absF f) r k = |getD2 f r k| := by
  unfold getD2 absF
  simp only [List.getD_eq_getElem?_getD, List.getElem?_map]
  cases f[r]? with
  | none => simp
  | some row =>
    simp only [Option.map_some, Option.getD_some, List.getElem?_map]
    cases row[k]? <;> simp

theorem pairwise_fst_zip {β : Type} {xs : List α} (hs : xs.Pairwise (· < ·)) (gs : List β) :
    (xs.zip gs).Pairwise (fun p q => p.1 < q.1) := by
  induction xs generalizing gs with
  | nil => simp
  | cons a l ih =>
    cases gs with
    | nil => simp
    | cons g gs =>
      simp only [List.zip_cons_cons, List.pairwise_cons]
      refine ⟨?_, ih (List.pairwise_cons.mp hs).2 gs⟩
      intro q hq
      exact (List.pairwise_cons.mp hs).1 q.1 (List.of_mem_zip (a := q.1) (b := q.2) hq).1

/-- rows already in increasing order of the vi axis are left alone by the sort -/
theorem sortRows_of_inc (rows : List (α × List α)) (h : rows.Pairwise (fun p q => p.1 < q.1)) :
    sortRows rows = rows := by
  induction rows with
  | nil => rfl
  | cons p rest ih =>
    have hr := ih (List.pairwise_cons.mp h).2
    unfold sortRows at hr ⊢
    rw [List.foldr_cons, hr]
    cases rest with
    | nil => rfl
    | cons q r =>
      have : p.1 < q.1 := (List.pairwise_cons.mp h).1 q (by simp)
      simp [insRow, this]

/-- a well-conditioned 2-D table: both axes strictly increasing and non-negative, at least one cell,
    one row of values per vi entry -/
structure Grid (xs ys : List α) (f : List (List α)) : Prop where
  xs_inc : xs.Pairwise (· < ·)
  xs_nonneg : ∀ x ∈ xs, 0 ≤ x
  ys_inc : ys.Pairwise (· < ·)
  ys_nonneg : ∀ y ∈ ys, 0 ≤ y
  nx : 2 ≤ xs.length
  ny : 2 ≤ ys.length
  rows : f.length = ys.length

/-- On a well-conditioned table `interp2` is the in-rectangle interpolant of the magnitudes, evaluated at
    the query clamped into the rectangle (the nine-way case split of components.py:218-234). -/
theorem interp2_eq {xs ys : List α} {f : List (List α)} (g : Grid xs ys f) (diag : List (List Bool))
    (x y : α) :
    interp2 xs ys f diag x y =
      interp2In xs ys (absF f) diag (clamp (xs.headD 0) (xs.getLastD 0) x)
        (clamp (ys.headD 0) (ys.getLastD 0) y) := by
  have e1 : xs.map nabs = xs := map_nabs_of_nonneg g.xs_nonneg
  have e2 : ys.map nabs = ys := map_nabs_of_nonneg g.ys_nonneg
  have hlen : ys.length = (absF f).length := by simp [absF, g.rows]
  have e3 : sortRows (ys.zip (absF f)) = ys.zip (absF f) := sortRows_of_inc _ (pairwise_fst_zip g.ys_inc _)
  have e4 : (ys.zip (absF f)).map (·.1) = ys := List.map_fst_zip (le_of_eq hlen)
  have e5 : (ys.zip (absF f)).map (·.2) = absF f := List.map_snd_zip (le_of_eq hlen.symm)
  unfold interp2 clamp
  unfold absF at e3 e4 e5 ⊢
  simp only [e1, e2, e3, e4, e5]
  split_ifs <;> rfl

/-! ### 2-D : tables in any row order (the model sorts the rows by |vi|) -/

/-- `findCell` needs no sortedness at all to return an interval that contains the point -/
theorem findCell_spec' : ∀ (xs : List α) (x : α), 2 ≤ xs.length → xs.headD 0 ≤ x → x ≤ xs.getLastD 0 →
    findCell xs x + 1 < xs.length ∧ xs.getD (findCell xs x) 0 ≤ x ∧ x ≤ xs.getD (findCell xs x + 1) 0
  | [], _, hl, _, _ => by simp at hl
  | [_], _, hl, _, _ => by simp at hl
  | [a, b], x, _, h0, h1 => by
    simp only [findCell, List.length_cons, List.length_nil, List.getD_cons_zero, List.getD_cons_succ]
    simp only [List.headD_cons, List.getLastD] at h0 h1
    simp at h1
    exact ⟨by omega, h0, h1⟩
  | a :: b :: c :: rest, x, _, h0, h1 => by
    have ih := findCell_spec' (b :: c :: rest) x (by simp)
    rw [findCell]
    split_ifs with hlt
    · simp only [List.headD_cons] at h0
      simp only [List.getD_cons_zero, List.getD_cons_succ, List.length_cons]
      exact ⟨by omega, h0, hlt.le⟩
    · have h1' : x ≤ (b :: c :: rest).getLastD 0 := by
        simpa [List.getLastD, List.getLast_cons] using h1
      obtain ⟨i1, i2, i3⟩ := ih (by simpa using not_lt.mp hlt) h1'
      simp only [List.getD_cons_succ, List.length_cons] at i1 i2 i3 ⊢
      exact ⟨by omega, i2, i3⟩

/-- the relative coordinate of a point sandwiched between two consecutive axis entries is in [0, 1] -/
theorem rel_mem' {xs : List α} {k : Nat} {x : α} (h0 : xs.getD k 0 ≤ x) (h1 : x ≤ xs.getD (k + 1) 0) :
    0 ≤ rel xs k x ∧ rel xs k x ≤ 1 := by
  unfold rel
  rcases (le_trans h0 h1).lt_or_eq with hd | hd
  · have hd' : 0 < xs.getD (k + 1) 0 - xs.getD k 0 := sub_pos.mpr hd
    exact ⟨div_nonneg (sub_nonneg.mpr h0) hd'.le, by rw [div_le_one hd']; linarith⟩
  · rw [← hd, sub_self, div_zero]; exact ⟨le_refl _, zero_le_one⟩

theorem mem_insRow {p q : α × List α} : ∀ {l : List (α × List α)}, q ∈ insRow p l ↔ q = p ∨ q ∈ l
  | [] => by simp [insRow]
  | r :: rest => by
    unfold insRow
    split_ifs
    · simp
    · simp only [List.mem_cons, mem_insRow (l := rest)]
      tauto

theorem length_insRow (p : α × List α) : ∀ (l : List (α × List α)), (insRow p l).length = l.length + 1
  | [] => by simp [insRow]
  | r :: rest => by
    unfold insRow
    split_ifs
    · simp
    · simp [length_insRow p rest]

theorem insRow_sorted (p : α × List α) : ∀ {l : List (α × List α)}, l.Pairwise (fun a b => a.1 ≤ b.1) →
    (insRow p l).Pairwise (fun a b => a.1 ≤ b.1)
  | [], _ => by simp [insRow]
  | r :: rest, h => by
    unfold insRow
    split_ifs with hlt
    · refine List.pairwise_cons.mpr ⟨?_, h⟩
      intro b hb
      rcases List.mem_cons.mp hb with rfl | hb
      · exact hlt.le
      · exact le_trans hlt.le ((List.pairwise_cons.mp h).1 b hb)
    · refine List.pairwise_cons.mpr ⟨?_, insRow_sorted p (List.pairwise_cons.mp h).2⟩
      intro b hb
      rcases mem_insRow.mp hb with rfl | hb
      · exact not_lt.mp hlt
      · exact (List.pairwise_cons.mp h).1 b hb

theorem sortRows_sorted (rows : List (α × List α)) : (sortRows rows).Pairwise (fun a b => a.1 ≤ b.1) := by
  induction rows with
  | nil => simp [sortRows]
  | cons p rest ih => unfold sortRows at ih ⊢; rw [List.foldr_cons]; exact insRow_sorted p ih

theorem mem_sortRows {q : α × List α} (rows : List (α × List α)) : q ∈ sortRows rows ↔ q ∈ rows := by
  induction rows with
  | nil => simp [sortRows]
  | cons p rest ih =>
    unfold sortRows at ih ⊢
    rw [List.foldr_cons, mem_insRow, ih]; simp

theorem length_sortRows (rows : List (α × List α)) : (sortRows rows).length = rows.length := by
  induction rows with
  | nil => simp [sortRows]
  | cons p rest ih =>
    unfold sortRows at ih ⊢
    rw [List.foldr_cons, length_insRow, ih]; simp

theorem headD_le_getLastD_of_le {xs : List α} (hs : xs.Pairwise (· ≤ ·)) : xs.headD 0 ≤ xs.getLastD 0 := by
  cases xs with
  | nil => simp
  | cons a l =>
    rw [getLastD_eq_getD (by simp)]
    simp only [List.headD_cons]
    by_cases hl : l = []
    · subst hl; simp
    · have hpos : 0 < l.length := List.length_pos_iff.mpr hl
      have h1 : (a :: l).length - 1 < (a :: l).length := by simp
      rw [getD_eq_getElem' _ _ h1]
      have := (List.pairwise_iff_getElem.mp hs) 0 ((a :: l).length - 1) (by simp) h1 (by simp; omega)
      simpa using this

/-- the nine-way clamp of `_Interp2d._interp`, for every table -/
theorem interp2_eq_clamp (xs ys : List α) (f : List (List α)) (diag : List (List Bool)) (x y : α) :
    interp2 xs ys f diag x y =
      interp2In (xs.map nabs) ((sortRows ((ys.map nabs).zip (f.map (·.map nabs)))).map (·.1))
        ((sortRows ((ys.map nabs).zip (f.map (·.map nabs)))).map (·.2)) diag
        (clamp ((xs.map nabs).headD 0) ((xs.map nabs).getLastD 0) x)
        (clamp (((sortRows ((ys.map nabs).zip (f.map (·.map nabs)))).map (·.1)).headD 0)
          (((sortRows ((ys.map nabs).zip (f.map (·.map nabs)))).map (·.1)).getLastD 0) y) := by
  unfold interp2 clamp
  simp only []
  split_ifs <;> rfl

/-- **never extrapolated, whatever the order and the signs of the vi rows**: if the io axis is increasing in
    magnitude and the table is rectangular with at least one cell, every query — inside or outside, for
    every diagonal choice — returns a value between any two bounds of the tabulated magnitudes. -/
theorem interp2_bounds (xs ys : List α) (f : List (List α)) (diag : List (List Bool)) (lo hi : α)
    (hxs : (xs.map nabs).Pairwise (· < ·)) (hx2 : 2 ≤ xs.length) (hy2 : 2 ≤ ys.length)
    (hrows : f.length = ys.length) (hcols : ∀ row ∈ f, row.length = xs.length)
    (hb : ∀ row ∈ f, ∀ v ∈ row, lo ≤ |v| ∧ |v| ≤ hi) (x y : α) :
    lo ≤ interp2 xs ys f diag x y ∧ interp2 xs ys f diag x y ≤ hi := by
  rw [interp2_eq_clamp]
  set axs := xs.map nabs with haxs
  set rows := sortRows ((ys.map nabs).zip (f.map (·.map nabs))) with hrowsd
  set ays := rows.map (·.1) with hays
  set af := rows.map (·.2) with haf
  have hlen : rows.length = ys.length := by
    rw [hrowsd, length_sortRows]; simp [hrows]
  have hax2 : 2 ≤ axs.length := by simp [haxs, hx2]
  have hay2 : 2 ≤ ays.length := by simp [hays, hlen, hy2]
  have hsy : ays.Pairwise (· ≤ ·) := by
    rw [hays, List.pairwise_map]; exact sortRows_sorted _
  have mx := clamp_mem (headD_le_getLastD hxs) x
  have my := clamp_mem (headD_le_getLastD_of_le hsy) y
  obtain ⟨hk, a, b⟩ := findCell_spec' axs _ hax2 mx.1 mx.2
  obtain ⟨hr, c, d⟩ := findCell_spec' ays _ hay2 my.1 my.2
  rw [interp2In_eq_found axs ays af diag _ _ hk hr]
  have rx := rel_mem' a b
  have ry := rel_mem' c d
  -- every entry of the sorted magnitude table is the magnitude of an entry of the table
  have hv : ∀ r' k', r' < ays.length → k' < axs.length → lo ≤ getD2 af r' k' ∧ getD2 af r' k' ≤ hi := by
    intro r' k' h1 h2
    have h1' : r' < af.length := by simpa [haf, hays] using h1
    unfold getD2
    rw [getD_eq_getElem' _ _ h1']
    have hm : af[r'] ∈ af := List.getElem_mem h1'
    generalize af[r'] = rowv at hm ⊢
    obtain ⟨p, hp, hp2⟩ := List.mem_map.mp (show rowv ∈ rows.map (·.2) from hm)
    have hp := (mem_sortRows _).mp (show p ∈ sortRows ((ys.map nabs).zip (f.map (·.map nabs))) from hp)
    have hp' := (List.of_mem_zip (a := p.1) (b := p.2) hp).2
    rw [List.mem_map] at hp'
    obtain ⟨row, hrow, hrow2⟩ := hp'
    have e : rowv = row.map nabs := by rw [← hp2, ← hrow2]
    subst e
    have hl : k' < (row.map nabs).length := by
      have : axs.length = xs.length := by simp [haxs]
      simp [hcols row hrow]; omega
    rw [getD_eq_getElem' _ _ hl]
    simp only [List.getElem_map, nabs_eq_abs]
    exact hb row hrow _ (List.getElem_mem _)
  unfold cellAt
  exact cellVal_bounds _ _ _ _ _ _ _ lo hi rx.1 rx.2 ry.1 ry.2
    (hv _ _ (by omega) (by omega)) (hv _ _ (by omega) hk) (hv _ _ hr (by omega)) (hv _ _ hr hk)

end SysLoss
