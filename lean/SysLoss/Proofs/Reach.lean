/-
  Proofs/Reach — the saturation `reachSet` of Model/Graph computes exactly reachability:
  `x ∈ reachSet E S ↔ x ∈ S ∨ ∃ a ∈ S, Path E a x`, hence
  `x ∈ descendants s n ↔ x ≠ n ∧ Path s.edges n x`.
-/
import SysLoss.Proofs.Dict

set_option linter.unusedSectionVars false
set_option linter.unusedSimpArgs false
set_option linter.unusedVariables false

namespace SysLoss

/-- a directed path with at least one edge -/
inductive Path (E : List (Nat × Nat)) : Nat → Nat → Prop where
  | single {a b : Nat} : (a, b) ∈ E → Path E a b
  | cons {a b c : Nat} : (a, b) ∈ E → Path E b c → Path E a c

theorem Path.snoc {E : List (Nat × Nat)} {a b c : Nat} (h : Path E a b) (e : (b, c) ∈ E) : Path E a c := by
  induction h with
  | single h1 => exact .cons h1 (.single e)
  | cons h1 _ ih => exact .cons h1 (ih e)

theorem Path.trans {E : List (Nat × Nat)} {a b c : Nat} (h : Path E a b) (h2 : Path E b c) : Path E a c := by
  induction h with
  | single h1 => exact .cons h1 h2
  | cons h1 _ ih => exact .cons h1 (ih h2)

theorem Path.mono {E E' : List (Nat × Nat)} {a b : Nat} (hs : ∀ e ∈ E, e ∈ E') (h : Path E a b) : Path E' a b := by
  induction h with
  | single h1 => exact .single (hs _ h1)
  | cons h1 _ ih => exact .cons (hs _ h1) ih

/-- the first edge of a path starts at its source; the last ends at its target -/
theorem Path.head_mem {E : List (Nat × Nat)} {a b : Nat} (h : Path E a b) : ∃ c, (a, c) ∈ E := by
  cases h with
  | single h1 => exact ⟨_, h1⟩
  | cons h1 _ => exact ⟨_, h1⟩

theorem Path.last_mem {E : List (Nat × Nat)} {a b : Nat} (h : Path E a b) : ∃ c, (c, b) ∈ E := by
  induction h with
  | single h1 => exact ⟨_, h1⟩
  | cons _ _ ih => exact ih

theorem mem_newSuccs {E : List (Nat × Nat)} {S : List Nat} {x : Nat} :
    x ∈ newSuccs E S ↔ x ∉ S ∧ ∃ a ∈ S, (a, x) ∈ E := by
  unfold newSuccs
  simp only [List.mem_eraseDups, List.mem_filter, List.mem_map, decide_eq_true_eq, Prod.exists,
    exists_eq_right]
  constructor
  · rintro ⟨⟨a, h1, h2⟩, h3⟩; exact ⟨h3, a, h2, h1⟩
  · rintro ⟨h3, a, h2, h1⟩; exact ⟨⟨a, h1, h2⟩, h3⟩

/-- `S` is closed under successors -/
def Closed (E : List (Nat × Nat)) (S : List Nat) : Prop := ∀ a b, (a, b) ∈ E → a ∈ S → b ∈ S

theorem closed_of_newSuccs_nil {E : List (Nat × Nat)} {S : List Nat} (h : newSuccs E S = []) : Closed E S := by
  intro a b hab ha
  by_cases hb : b ∈ S
  · exact hb
  · have : b ∈ newSuccs E S := mem_newSuccs.mpr ⟨hb, a, ha, hab⟩
    rw [h] at this; simp at this

theorem subset_reachAux (k : Nat) (E : List (Nat × Nat)) (S : List Nat) : ∀ x ∈ S, x ∈ reachAux k E S := by
  induction k generalizing S with
  | zero => intro x hx; simpa [reachAux] using hx
  | succ k ih =>
    intro x hx
    unfold reachAux
    simp only
    split
    · exact hx
    · exact ih _ x (List.mem_append_left _ hx)

/-- what is still missing from `S` among the edge targets -/
def missing (E : List (Nat × Nat)) (S : List Nat) : Nat := ((E.map (·.2)).filter (fun x => decide (x ∉ S))).length

theorem missing_lt {E : List (Nat × Nat)} {S : List Nat} (h : newSuccs E S ≠ []) :
    missing E (S ++ newSuccs E S) < missing E S := by
  obtain ⟨x, hx⟩ := List.exists_mem_of_ne_nil _ h
  obtain ⟨hxS, a, haS, hax⟩ := mem_newSuccs.mp hx
  unfold missing
  apply length_filter_lt (a := x)
  · intro y hy
    simp only [List.mem_append, not_or, decide_eq_true_eq] at hy ⊢
    exact hy.1
  · exact List.mem_map.mpr ⟨(a, x), hax, rfl⟩
  · simpa using hxS
  · simp only [List.mem_append, not_or, decide_eq_false_iff_not, not_and]
    intro _ h'; exact h' hx

theorem closed_reachAux (k : Nat) (E : List (Nat × Nat)) (S : List Nat) (h : missing E S < k) :
    Closed E (reachAux k E S) := by
  induction k generalizing S with
  | zero => omega
  | succ k ih =>
    unfold reachAux
    simp only
    split
    · next hnil => exact closed_of_newSuccs_nil hnil
    · next hne =>
      apply ih
      have := missing_lt hne
      omega

theorem closed_reachSet (E : List (Nat × Nat)) (S : List Nat) : Closed E (reachSet E S) := by
  apply closed_reachAux
  unfold missing
  have := List.length_filter_le (fun x => decide (x ∉ S)) (E.map (·.2))
  simp only [List.length_map] at this
  omega

theorem subset_reachSet (E : List (Nat × Nat)) (S : List Nat) : ∀ x ∈ S, x ∈ reachSet E S :=
  subset_reachAux _ E S

theorem sound_reachAux (k : Nat) (E : List (Nat × Nat)) (S0 S : List Nat)
    (hS : ∀ x ∈ S, x ∈ S0 ∨ ∃ a ∈ S0, Path E a x) :
    ∀ x ∈ reachAux k E S, x ∈ S0 ∨ ∃ a ∈ S0, Path E a x := by
  induction k generalizing S with
  | zero => simpa [reachAux] using hS
  | succ k ih =>
    unfold reachAux
    simp only
    split
    · exact hS
    · apply ih
      intro x hx
      rcases List.mem_append.mp hx with hx | hx
      · exact hS x hx
      · obtain ⟨_, a, haS, hax⟩ := mem_newSuccs.mp hx
        rcases hS a haS with h0 | ⟨a0, ha0, hp⟩
        · exact Or.inr ⟨a, h0, .single hax⟩
        · exact Or.inr ⟨a0, ha0, hp.snoc hax⟩

theorem mem_reachSet {E : List (Nat × Nat)} {S : List Nat} {x : Nat} :
    x ∈ reachSet E S ↔ x ∈ S ∨ ∃ a ∈ S, Path E a x := by
  constructor
  · exact sound_reachAux _ E S S (fun x hx => Or.inl hx) x
  · rintro (h | ⟨a, ha, hp⟩)
    · exact subset_reachSet E S x h
    · have ha' := subset_reachSet E S a ha
      clear ha
      induction hp with
      | single h1 => exact closed_reachSet E S _ _ h1 ha'
      | cons h1 _ ih => exact ih (closed_reachSet E S _ _ h1 ha')

section
variable {π ν : Type} [CompLike π]

theorem mem_descendants {s : Sys π ν} {n x : Nat} : x ∈ s.descendants n ↔ x ≠ n ∧ Path s.edges n x := by
  unfold Sys.descendants
  simp only [List.mem_filter, mem_reachSet, List.mem_singleton, exists_eq_left, decide_eq_true_eq]
  constructor
  · rintro ⟨h | h, hne⟩
    · exact absurd h hne
    · exact ⟨hne, h⟩
  · rintro ⟨hne, h⟩; exact ⟨Or.inr h, hne⟩

end
end SysLoss
