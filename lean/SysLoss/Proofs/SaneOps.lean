/-
  Proofs/SaneOps — every call keeps the rustworkx graph of the model a legal `PyDAG` state (`Sane`),
  unconditionally: accepted or rejected, safe or not, well-formed or not.
-/
import SysLoss.Proofs.Inv

set_option linter.unusedSectionVars false
set_option linter.unusedSimpArgs false
set_option linter.unusedVariables false

namespace SysLoss
section
variable {π ν : Type} [CompLike π]

/-- `Sane` only looks at node indices, edges and the allocator -/
theorem sane_congr {s s' : Sys π ν} (hs : Sane s) (h1 : s'.ids = s.ids) (h2 : s'.edges = s.edges)
    (h3 : s'.free = s.free) (h4 : s'.next = s.next) (h5 : (dkeys s'.nodes).Nodup) : Sane s' := by
  constructor
  · rw [h1]; exact hs.ids_nodup
  · rw [h1, h2]; exact hs.edges_live
  · rw [h2]; exact hs.edges_nodup
  · rw [h2]; exact hs.acyclic
  · rw [h1, h3]; exact hs.free_fresh
  · rw [h3]; exact hs.free_nodup
  · rw [h1, h4]; exact hs.ids_lt
  · rw [h3, h4]; exact hs.free_lt
  · exact h5

/-! ### paths after adding one edge -/

theorem path_add {E : List (Nat × Nat)} {p c a b : Nat} (h : Path (E ++ [(p, c)]) a b) :
    Path E a b ∨ ((a = p ∨ Path E a p) ∧ (b = c ∨ Path E c b)) := by
  induction h with
  | @single a b h1 =>
    rcases List.mem_append.mp h1 with h1 | h1
    · exact Or.inl (.single h1)
    · simp only [List.mem_singleton, Prod.mk.injEq] at h1
      exact Or.inr ⟨Or.inl h1.1, Or.inl h1.2⟩
  | @cons a x b h1 _ ih =>
    rcases List.mem_append.mp h1 with he | he
    · rcases ih with ih | ⟨ih1, ih2⟩
      · exact Or.inl (.cons he ih)
      · refine Or.inr ⟨Or.inr ?_, ih2⟩
        rcases ih1 with ih1 | ih1
        · exact .single (ih1 ▸ he)
        · exact .cons he ih1
    · simp only [List.mem_singleton, Prod.mk.injEq] at he
      obtain ⟨rfl, rfl⟩ := he
      rcases ih with ih | ⟨_, ih2⟩
      · exact Or.inr ⟨Or.inl rfl, Or.inr ih⟩
      · exact Or.inr ⟨Or.inl rfl, ih2⟩

theorem acyclic_add {E : List (Nat × Nat)} {p c : Nat} (h : ∀ a, ¬ Path E a a) (hne : p ≠ c)
    (hcp : ¬ Path E c p) : ∀ a, ¬ Path (E ++ [(p, c)]) a a := by
  intro a ha
  rcases path_add ha with h1 | ⟨h1, h2⟩
  · exact h a h1
  · rcases h1 with rfl | h1 <;> rcases h2 with h2 | h2
    · exact hne h2
    · exact hcp h2
    · exact hcp (h2 ▸ h1)
    · exact hcp (h2.trans h1)

/-! ### graph primitives -/

theorem addNode_spec (s : Sys π ν) (c : π) (hs : Sane s) :
    (s.addNode c).2 ∉ s.ids ∧ (s.addNode c).1.comps = s.comps ++ [((s.addNode c).2, c)] ∧
    (s.addNode c).1.edges = s.edges ∧ (s.addNode c).1.nodes = s.nodes ∧
    (s.addNode c).1.phaseConf = s.phaseConf ∧ (s.addNode c).1.groups = s.groups ∧
    (s.addNode c).1.rails = s.rails ∧ (s.addNode c).1.pnames = s.pnames ∧
    (s.addNode c).1.phases = s.phases ∧ (s.addNode c).1.name = s.name ∧ Sane (s.addNode c).1 := by
  unfold Sys.addNode
  cases hf : s.free with
  | nil =>
    have hfresh : s.next ∉ s.ids := fun h => by have := hs.ids_lt _ h; omega
    refine ⟨hfresh, rfl, rfl, rfl, rfl, rfl, rfl, rfl, rfl, rfl, ?_⟩
    constructor
    · show (List.map (·.1) (s.comps ++ [(s.next, c)])).Nodup
      rw [List.map_append]
      apply List.nodup_append.mpr
      refine ⟨hs.ids_nodup, by simp, ?_⟩
      intro a ha b hb
      simp at hb; subst hb
      exact fun e => hfresh (e ▸ ha)
    · intro e he
      have := hs.edges_live e he
      simp only [Sys.ids, List.map_append, List.mem_append] at this ⊢
      exact ⟨Or.inl this.1, Or.inl this.2⟩
    · exact hs.edges_nodup
    · exact hs.acyclic
    · simp [hf]
    · simp [hf]
    · intro n hn
      simp only [Sys.ids, List.map_append, List.mem_append, List.map_cons, List.map_nil, List.mem_singleton] at hn
      rcases hn with hn | hn
      · have := hs.ids_lt n hn; show n < s.next + 1; omega
      · show n < s.next + 1; omega
    · simp [hf]
    · exact hs.nodes_nodup
  | cons f rest =>
    have hfresh : f ∉ s.ids := hs.free_fresh f (by simp [hf])
    refine ⟨hfresh, rfl, rfl, rfl, rfl, rfl, rfl, rfl, rfl, rfl, ?_⟩
    have hnd := hs.free_nodup
    rw [hf, List.nodup_cons] at hnd
    constructor
    · show (List.map (·.1) (s.comps ++ [(f, c)])).Nodup
      rw [List.map_append]
      apply List.nodup_append.mpr
      refine ⟨hs.ids_nodup, by simp, ?_⟩
      intro a ha b hb
      simp at hb; subst hb
      exact fun e => hfresh (e ▸ ha)
    · intro e he
      have := hs.edges_live e he
      simp only [Sys.ids, List.map_append, List.mem_append] at this ⊢
      exact ⟨Or.inl this.1, Or.inl this.2⟩
    · exact hs.edges_nodup
    · exact hs.acyclic
    · intro g hg
      show g ∉ List.map (·.1) (s.comps ++ [(f, c)])
      simp only [List.map_append, List.mem_append, List.map_cons, List.map_nil, List.mem_singleton, not_or]
      refine ⟨hs.free_fresh g (by simp [hf, hg]), ?_⟩
      intro e; subst e; exact hnd.1 hg
    · exact hnd.2
    · intro n hn
      simp only [Sys.ids, List.map_append, List.mem_append, List.map_cons, List.map_nil, List.mem_singleton] at hn
      rcases hn with hn | hn
      · exact hs.ids_lt n hn
      · subst hn; exact hs.free_lt _ (by simp [hf])
    · intro g hg; exact hs.free_lt g (by simp [hf, hg])
    · exact hs.nodes_nodup

theorem sane_addEdge {s : Sys π ν} (hs : Sane s) {p c : Nat} (hp : p ∈ s.ids) (hc : c ∈ s.ids) (hne : p ≠ c)
    (hcp : ¬ Path s.edges c p) : Sane (s.addEdge p c) := by
  unfold Sys.addEdge
  split
  · exact hs
  · next hnot =>
    constructor
    · exact hs.ids_nodup
    · intro e he
      rcases List.mem_append.mp he with he | he
      · exact hs.edges_live e he
      · simp only [List.mem_singleton] at he; subst he; exact ⟨hp, hc⟩
    · show (s.edges ++ [(p, c)]).Nodup
      apply List.nodup_append.mpr
      refine ⟨hs.edges_nodup, by simp, ?_⟩
      intro a ha b hb
      simp at hb; subst hb
      exact fun e => hnot (e ▸ ha)
    · exact acyclic_add hs.acyclic hne hcp
    · exact hs.free_fresh
    · exact hs.free_nodup
    · exact hs.ids_lt
    · exact hs.free_lt
    · exact hs.nodes_nodup

theorem sane_removeNode {s : Sys π ν} (hs : Sane s) (n : Nat) : Sane (s.removeNode n) := by
  unfold Sys.removeNode
  split
  · next hn =>
    have hsub : ∀ x, x ∈ (s.comps.filter (fun p => decide (p.1 ≠ n))).map (·.1) → x ∈ s.ids ∧ x ≠ n := by
      intro x hx
      simp only [List.mem_map, List.mem_filter, decide_eq_true_eq] at hx
      obtain ⟨p, ⟨hp, hpn⟩, rfl⟩ := hx
      exact ⟨mem_ids_of_mem hp, hpn⟩
    constructor
    · show ((s.comps.filter (fun p => decide (p.1 ≠ n))).map (·.1)).Nodup
      exact (List.filter_sublist.map _).nodup hs.ids_nodup
    · intro e he
      simp only [List.mem_filter, Bool.and_eq_true, decide_eq_true_eq] at he
      obtain ⟨he, h1, h2⟩ := he
      have := hs.edges_live e he
      simp only [Sys.ids, List.mem_map, List.mem_filter, decide_eq_true_eq] at this ⊢
      obtain ⟨⟨a, ha, ha'⟩, ⟨b, hb, hb'⟩⟩ := this
      exact ⟨⟨a, ⟨ha, ha' ▸ h1⟩, ha'⟩, ⟨b, ⟨hb, hb' ▸ h2⟩, hb'⟩⟩
    · exact hs.edges_nodup.filter _
    · intro a ha
      exact hs.acyclic a (ha.mono fun e he => (List.mem_filter.mp he).1)
    · intro f hf
      rcases List.mem_cons.mp hf with rfl | hf
      · intro h; exact (hsub _ h).2 rfl
      · intro h; exact hs.free_fresh f hf (hsub _ h).1
    · show (n :: s.free).Nodup
      exact List.nodup_cons.mpr ⟨fun h => hs.free_fresh n h hn, hs.free_nodup⟩
    · intro x hx; exact hs.ids_lt x (hsub x hx).1
    · intro f hf
      rcases List.mem_cons.mp hf with rfl | hf
      · exact hs.ids_lt _ hn
      · exact hs.free_lt f hf
    · exact hs.nodes_nodup
  · exact hs

theorem ids_setPayload (s : Sys π ν) (n : Nat) (c : π) : (s.setPayload n c).ids = s.ids := by
  unfold Sys.setPayload Sys.ids
  simp only [List.map_map]
  apply List.map_congr_left
  intro p _
  simp only [Function.comp]
  split <;> simp_all

theorem sane_setPayload {s : Sys π ν} (hs : Sane s) (n : Nat) (c : π) : Sane (s.setPayload n c) :=
  sane_congr hs (ids_setPayload s n c) rfl rfl rfl hs.nodes_nodup

/-! ### the four registry deletions do not touch the graph -/

theorem delRegs_graph (s : Sys π ν) (x : String) :
    (s.delRegs x).1.comps = s.comps ∧ (s.delRegs x).1.edges = s.edges ∧ (s.delRegs x).1.free = s.free ∧
    (s.delRegs x).1.next = s.next := by
  unfold Sys.delRegs Sys.fail
  simp only
  split
  · exact ⟨rfl, rfl, rfl, rfl⟩
  · split
    · exact ⟨rfl, rfl, rfl, rfl⟩
    · split
      · exact ⟨rfl, rfl, rfl, rfl⟩
      · split <;> exact ⟨rfl, rfl, rfl, rfl⟩

theorem delRegs_nodes (s : Sys π ν) (x : String) :
    (s.delRegs x).1.nodes = s.nodes ∨ (s.delRegs x).1.nodes = ddel s.nodes x := by
  unfold Sys.delRegs Sys.fail
  simp only
  split
  · exact Or.inl rfl
  · split
    · exact Or.inr rfl
    · split
      · exact Or.inr rfl
      · split <;> exact Or.inr rfl

theorem sane_delRegs {s : Sys π ν} (hs : Sane s) (x : String) : Sane (s.delRegs x).1 := by
  obtain ⟨h1, h2, h3, h4⟩ := delRegs_graph s x
  refine sane_congr hs (by simp [Sys.ids, h1]) h2 h3 h4 ?_
  rcases delRegs_nodes s x with h | h
  · rw [h]; exact hs.nodes_nodup
  · rw [h]; exact nodup_dkeys_ddel hs.nodes_nodup

theorem sane_andThen {r : Sys.Res π ν} {f : Sys π ν → Sys.Res π ν} (hr : Sane r.1)
    (hf : ∀ s, Sane s → Sane (f s).1) : Sane (Sys.andThen r f).1 := by
  unfold Sys.andThen
  split
  · exact hf _ hr
  · exact hr

/-! ### the six methods -/

theorem sane_addSource {s : Sys π ν} (hs : Sane s) (c : π) (g r : String) : Sane (s.addSource c g r).1 := by
  unfold Sys.addSource Sys.fail
  split
  · exact hs
  · split
    · exact hs
    · obtain ⟨_, h2, h3, _, _, _, _, _, _, _, h11⟩ := addNode_spec s c hs
      exact sane_congr h11 rfl rfl rfl rfl (nodup_dkeys_dset h11.nodes_nodup)

theorem sane_addEdges_sink {s : Sys π ν} (hs : Sane s) (i : Nat) (hi : i ∈ s.ids) (hsink : ∀ b, (i, b) ∉ s.edges)
    (l : List Nat) (hl : ∀ p ∈ l, p ∈ s.ids ∧ p ≠ i) : Sane (s.addEdges i l) := by
  induction l generalizing s with
  | nil => exact hs
  | cons p t ih =>
    unfold Sys.addEdges
    have hp := hl p (by simp)
    have hs1 : Sane (s.addEdge p i) :=
      sane_addEdge hs hp.1 hi hp.2 (fun h => by obtain ⟨b, hb⟩ := h.head_mem; exact hsink b hb)
    apply ih hs1
    · unfold Sys.addEdge; split <;> exact hi
    · intro b hb
      unfold Sys.addEdge at hb
      split at hb
      · exact hsink b hb
      · rcases List.mem_append.mp hb with hb | hb
        · exact hsink b hb
        · simp only [List.mem_singleton, Prod.mk.injEq] at hb
          exact hp.2 hb.1.symm
    · intro q hq
      have := hl q (List.mem_cons_of_mem _ hq)
      unfold Sys.addEdge; split <;> exact this

theorem resolveParents_live {s : Sys π ν} {c : π} {l : List String} {pidx : List Nat}
    (h : s.resolveParents c l = .ok pidx) : ∀ p ∈ pidx, p ∈ s.ids := by
  induction l generalizing pidx with
  | nil => simp [Sys.resolveParents] at h; subst h; simp
  | cons x xs ih =>
    unfold Sys.resolveParents at h
    split at h
    · simp at h
    · simp at h
    · next i hi =>
      split at h
      · simp at h
      · next pc hpc =>
        split at h
        · simp at h
        · split at h
          · simp at h
          · next l' hl' =>
            simp only [Except.ok.injEq] at h; subst h
            intro p hp
            rcases List.mem_cons.mp hp with rfl | hp
            · exact mem_ids_of_payload? hpc
            · exact ih hl' p hp

theorem sane_addComp {s : Sys π ν} (hs : Sane s) (par : ParentArg) (c : π) (g r : String) :
    Sane (s.addComp par c g r).1 := by
  unfold Sys.addComp Sys.fail
  simp only
  split
  · exact hs
  · split
    · exact hs
    · split
      · exact hs
      · next pidx hpidx =>
        split
        · exact hs
        · split
          · exact hs
          · next p0 prest =>
            obtain ⟨hfresh, h2, h3, _, _, _, _, _, _, _, h11⟩ := addNode_spec s c hs
            have hlive := resolveParents_live hpidx
            generalize hr : s.addNode c = r at hfresh h2 h3 h11
            obtain ⟨s1, i⟩ := r
            simp only at hfresh h2 h3 h11 ⊢
            have hi1 : i ∈ s1.ids := by simp [Sys.ids, h2]
            have hsub : ∀ p ∈ s.ids, p ∈ s1.ids := by
              intro p hp; simp only [Sys.ids, h2, List.map_append, List.mem_append]; exact Or.inl hp
            have hnoedge : ∀ a b, (a, b) ∈ s1.edges → a ≠ i ∧ b ≠ i := by
              intro a b hab
              rw [h3] at hab
              have := hs.edges_live _ hab
              exact ⟨fun e => hfresh (e ▸ this.1), fun e => hfresh (e ▸ this.2)⟩
            have hp0 : p0 ∈ s.ids := hlive p0 (by simp)
            have hp0i : p0 ≠ i := fun e => hfresh (e ▸ hp0)
            -- the state after add_child
            have hs2 : Sane ({ s1 with edges := s1.edges ++ [(p0, i)] } : Sys π ν) := by
              have := sane_addEdge (s := s1) h11 (hsub p0 hp0) hi1 hp0i
                (fun h => by obtain ⟨b, hb⟩ := h.head_mem; exact (hnoedge _ _ hb).1 rfl)
              unfold Sys.addEdge at this
              rw [if_neg (fun h => (hnoedge _ _ h).2 rfl)] at this
              exact this
            refine sane_addEdges_sink ?_ i ?_ ?_ prest ?_
            · exact sane_congr hs2 rfl rfl rfl rfl (nodup_dkeys_dset hs2.nodes_nodup)
            · exact hi1
            · intro b hb
              rcases List.mem_append.mp hb with hb | hb
              · exact (hnoedge _ _ hb).1 rfl
              · simp only [List.mem_singleton, Prod.mk.injEq] at hb; exact hp0i hb.1.symm
            · intro p hp
              have := hlive p (List.mem_cons_of_mem _ hp)
              exact ⟨hsub p this, fun e => hfresh (e ▸ this)⟩

theorem sane_changeComp {s : Sys π ν} (hs : Sane s) (x : String) (c : π) (g r : String) :
    Sane (s.changeComp x c g r).1 := by
  unfold Sys.changeComp Sys.fail
  simp only
  repeat' split
  all_goals first
    | exact hs
    | exact sane_congr (sane_setPayload hs _ c) rfl rfl rfl rfl (nodup_dkeys_dset (nodup_dkeys_ddel hs.nodes_nodup))

theorem sane_delDescendants {s : Sys π ν} (hs : Sane s) (l : List Nat) : Sane (s.delDescendants l).1 := by
  induction l generalizing s with
  | nil => exact hs
  | cons c cs ih =>
    unfold Sys.delDescendants Sys.fail
    split
    · exact hs
    · exact sane_andThen (sane_delRegs hs _) fun s1 h1 => ih (sane_removeNode h1 c)

theorem sane_relink {s : Sys π ν} (hs : Sane s) (p0 : Nat) (l : List Nat) : Sane (s.relink p0 l).1 := by
  induction l generalizing s with
  | nil => exact hs
  | cons c cs ih =>
    unfold Sys.relink Sys.fail
    split
    · exact hs
    · next h1 =>
      split
      · exact hs
      · next h2 =>
        simp only [not_or, Decidable.not_not] at h1 h2
        apply ih
        exact sane_addEdge hs h1.1 h1.2 h2.1 (fun hp => h2.2 (mem_descendants.mpr ⟨h2.1, hp⟩))

theorem dedupeChilds_graph (s : Sys π ν) (l : List Nat) :
    (s.dedupeChilds l).1.comps = s.comps ∧ (s.dedupeChilds l).1.edges = s.edges ∧
    (s.dedupeChilds l).1.free = s.free ∧ (s.dedupeChilds l).1.next = s.next ∧
    (s.dedupeChilds l).1.nodes = s.nodes := by
  induction l generalizing s with
  | nil => exact ⟨rfl, rfl, rfl, rfl, rfl⟩
  | cons c cs ih =>
    unfold Sys.dedupeChilds Sys.fail
    split
    · exact ⟨rfl, rfl, rfl, rfl, rfl⟩
    · split
      · exact ⟨rfl, rfl, rfl, rfl, rfl⟩
      · next pl' _ => exact ih _

theorem sane_dedupeChilds {s : Sys π ν} (hs : Sane s) (l : List Nat) : Sane (s.dedupeChilds l).1 := by
  obtain ⟨h1, h2, h3, h4, h5⟩ := dedupeChilds_graph s l
  exact sane_congr hs (by simp [Sys.ids, h1]) h2 h3 h4 (h5 ▸ hs.nodes_nodup)

theorem sane_delComp {s : Sys π ν} (hs : Sane s) (x : String) (d : Bool) : Sane (s.delComp x d).1 := by
  unfold Sys.delComp Sys.fail
  simp only
  split
  · exact hs
  · split
    · exact hs
    · split
      · exact hs
      · split
        · exact hs
        · split
          · exact hs
          · split
            · exact hs
            · split
              · exact hs
              · apply sane_andThen
                · split
                  · exact sane_delDescendants hs _
                  · exact hs
                · intro s1 h1
                  apply sane_andThen (sane_delRegs (sane_removeNode h1 _) _)
                  intro s2 h2
                  split
                  · exact h2
                  · split
                    · exact h2
                    · exact h2
                    · exact h2
                    · apply sane_andThen (sane_relink h2 _ _)
                      intro s3 h3
                      split
                      · exact h3
                      · apply sane_dedupeChilds
                        exact sane_congr h3 rfl rfl rfl rfl h3.nodes_nodup

theorem sane_setSysPhases {s : Sys π ν} (hs : Sane s) (ph : List (String × ν)) : Sane (s.setSysPhases ph).1 := by
  unfold Sys.setSysPhases Sys.fail
  repeat' split
  all_goals first
    | exact hs
    | exact sane_congr hs rfl rfl rfl rfl hs.nodes_nodup

theorem sane_setCompPhases {s : Sys π ν} (hs : Sane s) (x : String) (pc : PConfArg ν) :
    Sane (s.setCompPhases x pc).1 := by
  unfold Sys.setCompPhases Sys.fail
  repeat' split
  all_goals first
    | exact hs
    | exact sane_congr hs rfl rfl rfl rfl hs.nodes_nodup

theorem sane_step_all {s : Sys π ν} (hs : Sane s) (op : Op π ν) : Sane (s.step op).1 := by
  cases op with
  | addSource c g r => exact sane_addSource hs c g r
  | addComp p c g r => exact sane_addComp hs p c g r
  | changeComp x c g r => exact sane_changeComp hs x c g r
  | delComp x d => exact sane_delComp hs x d
  | setSysPhases ph => exact sane_setSysPhases hs ph
  | setCompPhases x pc => exact sane_setCompPhases hs x pc

theorem sane_init_all {name : String} {src : π} {g r : String} {s : Sys π ν}
    (h : Sys.init name src g r = some s) : Sane s := by
  unfold Sys.init at h
  split at h
  · simp at h
  · split at h
    · simp at h
    · simp only [Option.some.injEq] at h
      subst h
      constructor <;> simp [Sys.ids]
      intro a ha
      obtain ⟨b, hb⟩ := ha.head_mem
      simp at hb

end
end SysLoss
