/-
  Proofs/Tree — sums over a forest given by a "feeder" map: every non-root node is attributed to
  exactly one parent, so a double sum over (node, its children) is a single sum over non-root nodes.
-/
import SysLoss.Proofs.Basic
import Mathlib.Algebra.BigOperators.Group.Finset.Basic
import Mathlib.Algebra.BigOperators.Ring.Finset
import Mathlib.Algebra.BigOperators.Group.Finset.Piecewise
import Mathlib.Algebra.BigOperators.Group.Finset.Sigma

set_option linter.unusedSectionVars false

namespace SysLoss
open Finset

variable {α : Type} [Field α] [LinearOrder α] [IsStrictOrderedRing α]
variable {ι : Type} [DecidableEq ι]

/-- children of `n`: the nodes whose feeder is `n` -/
def kidsOf (ns : Finset ι) (par : ι → Option ι) (n : ι) : Finset ι := ns.filter fun c => par c = some n

/-- Σ_n Σ_{c ∈ kids n} h n c = Σ_{c non-root} h (feeder c) c, when feeders stay inside the node set. -/
theorem sum_kids_exchange (ns : Finset ι) (par : ι → Option ι)
    (hclosed : ∀ c ∈ ns, ∀ p, par c = some p → p ∈ ns) (h : ι → ι → α) :
    ∑ n ∈ ns, ∑ c ∈ kidsOf ns par n, h n c
      = ∑ c ∈ ns, (match par c with | some p => h p c | none => 0) := by
  unfold kidsOf
  simp only [Finset.sum_filter]
  rw [Finset.sum_comm]
  apply Finset.sum_congr rfl
  intro c hc
  cases hp : par c with
  | none => simp
  | some p =>
    have hp' : p ∈ ns := hclosed c hc p hp
    simp only [Option.some.injEq]
    rw [Finset.sum_ite_eq ns p (fun n => h n c)]
    simp [hp']

end SysLoss
