/-
  Proofs/WfBasic — `_get_index` as a function of the two registries it reads, and how it behaves when the
  registries grow at the end or lose entries; predecessor lists; parent resolution depends only on what it reads.
-/
import SysLoss.Proofs.SaneOps

set_option linter.unusedSectionVars false
set_option linter.unusedSimpArgs false
set_option linter.unusedVariables false

namespace SysLoss

/-- `_get_index` on explicit registries -/
def resolve (N : List (String × Nat)) (R : List (String × String)) (x : String) : Except String (Option Nat) :=
  match dget N x with
  | some i => .ok (some i)
  | none =>
    if x = "" then .ok none else
    match (R.find? (fun p => decide (p.2 = x))).map (·.1) with
    | none => .ok none
    | some c =>
      match dget N c with
      | some i => .ok (some i)
      | none => .error "KeyError"

def resolveList (N : List (String × Nat)) (R : List (String × String)) :
    List String → Except String (List (Option Nat))
  | [] => .ok []
  | x :: xs =>
    match resolve N R x with
    | .error e => .error e
    | .ok r =>
      match resolveList N R xs with
      | .error e => .error e
      | .ok l => .ok (r :: l)

section
variable {π ν : Type} [CompLike π]

theorem getIndex_eq_resolve (s : Sys π ν) (x : String) : s.getIndex x = resolve s.nodes s.rails x := rfl

theorem resolveAll_eq (s : Sys π ν) (l : List String) : s.resolveAll l = resolveList s.nodes s.rails l := by
  induction l with
  | nil => rfl
  | cons x xs ih =>
    unfold Sys.resolveAll resolveList
    rw [getIndex_eq_resolve, ih]
    cases resolve s.nodes s.rails x with
    | error e => rfl
    | ok r => cases resolveList s.nodes s.rails xs <;> rfl

end

/-- the key under which `resolve` found node `q`: `x` itself or the owner of the (non-empty) rail `x` -/
theorem resolve_some {N : List (String × Nat)} {R : List (String × String)} {x : String} {q : Nat}
    (h : resolve N R x = .ok (some q)) :
    dget N x = some q ∨
    (dget N x = none ∧ x ≠ "" ∧ ∃ o, R.find? (fun p => decide (p.2 = x)) = some (o, x) ∧ dget N o = some q) := by
  unfold resolve at h
  cases h1 : dget N x with
  | some i => simp only [h1, Except.ok.injEq, Option.some.injEq] at h; exact Or.inl (by rw [h])
  | none =>
    simp only [h1] at h
    by_cases hx0 : x = ""
    · simp [hx0] at h
    · simp only [hx0, if_false] at h
      cases h2 : R.find? (fun p => decide (p.2 = x)) with
      | none => simp [h2] at h
      | some p =>
        simp only [h2, Option.map_some] at h
        have hp : p.2 = x := by simpa using List.find?_some h2
        cases h3 : dget N p.1 with
        | none => simp [h3] at h
        | some i =>
          simp only [h3, Except.ok.injEq, Option.some.injEq] at h
          refine Or.inr ⟨rfl, hx0, p.1, ?_, by rw [h3, h]⟩
          rw [← hp]

theorem resolve_of_name {N : List (String × Nat)} {R : List (String × String)} {x : String} {q : Nat}
    (h : dget N x = some q) : resolve N R x = .ok (some q) := by
  unfold resolve; rw [h]

theorem resolve_of_rail {N : List (String × Nat)} {R : List (String × String)} {x o : String} {q : Nat}
    (h1 : dget N x = none) (h0 : x ≠ "") (h2 : R.find? (fun p => decide (p.2 = x)) = some (o, x))
    (h3 : dget N o = some q) : resolve N R x = .ok (some q) := by
  unfold resolve; simp [h1, h0, h2, h3]

/-- appending one entry to both registries does not change what an already resolving name resolves to -/
theorem resolve_append {N : List (String × Nat)} {R : List (String × String)} {x : String} {q : Nat}
    (n' : String) (i' : Nat) (r' : String) (h : resolve N R x = .ok (some q)) (hne : dget N x = none → x ≠ n') :
    resolve (N ++ [(n', i')]) (R ++ [(n', r')]) x = .ok (some q) := by
  rcases resolve_some h with h1 | ⟨h1, h0, o, h2, h3⟩
  · exact resolve_of_name (by rw [dget_append_of_mem (dget_some_key h1), h1])
  · apply resolve_of_rail (o := o) _ h0
    · exact find?_append_of_find? h2
    · rw [dget_append_of_mem (dget_some_key h3), h3]
    · rw [dget_append_of_not_mem (dget_eq_none_iff.mp h1)]
      have : ¬ n' = x := fun e => hne h1 e.symm
      simp [dget, this]

/-- dropping entries (by key) from both registries does not change what a name resolves to, as long as the
    entry it was found under is kept -/
theorem resolve_filter {N : List (String × Nat)} {R : List (String × String)} {x : String} {q : Nat}
    (keep : String → Bool) (h : resolve N R x = .ok (some q)) (hk : ∀ k, dget N k = some q → keep k = true) :
    resolve (N.filter fun p => keep p.1) (R.filter fun p => keep p.1) x = .ok (some q) := by
  rcases resolve_some h with h1 | ⟨h1, h0, o, h2, h3⟩
  · exact resolve_of_name (by rw [dget_filter_key, hk x h1]; simpa using h1)
  · apply resolve_of_rail (o := o) _ h0
    · exact find?_filter_of_find? h2 (hk o h3)
    · rw [dget_filter_key, hk o h3]; simpa using h3
    · rw [dget_filter_key]; split <;> simp [h1]

theorem resolveList_congr {N N' : List (String × Nat)} {R R' : List (String × String)} {l : List String}
    {res : List (Option Nat)} (h : resolveList N R l = .ok res)
    (hall : ∀ x ∈ l, ∀ r, resolve N R x = .ok r → resolve N' R' x = .ok r) :
    resolveList N' R' l = .ok res := by
  induction l generalizing res with
  | nil => simpa [resolveList] using h
  | cons x xs ih =>
    unfold resolveList at h ⊢
    cases h1 : resolve N R x with
    | error e => simp [h1] at h
    | ok r =>
      simp only [h1] at h
      cases h2 : resolveList N R xs with
      | error e => simp [h2] at h
      | ok l' =>
        simp only [h2, Except.ok.injEq] at h
        rw [hall x (by simp) r h1, ih h2 (fun y hy => hall y (List.mem_cons_of_mem _ hy))]
        simp [h]

theorem resolveList_mem {N : List (String × Nat)} {R : List (String × String)} {l : List String}
    {res : List (Option Nat)} (h : resolveList N R l = .ok res) :
    (∀ r ∈ res, ∃ x ∈ l, resolve N R x = .ok r) ∧ (∀ x ∈ l, ∃ r ∈ res, resolve N R x = .ok r) := by
  induction l generalizing res with
  | nil => simp [resolveList] at h; subst h; simp
  | cons x xs ih =>
    unfold resolveList at h
    cases h1 : resolve N R x with
    | error e => simp [h1] at h
    | ok r =>
      simp only [h1] at h
      cases h2 : resolveList N R xs with
      | error e => simp [h2] at h
      | ok l' =>
        simp only [h2, Except.ok.injEq] at h
        subst h
        obtain ⟨ih1, ih2⟩ := ih h2
        constructor
        · intro r' hr'
          rcases List.mem_cons.mp hr' with rfl | hr'
          · exact ⟨x, by simp, h1⟩
          · obtain ⟨y, hy, hy'⟩ := ih1 r' hr'
            exact ⟨y, List.mem_cons_of_mem _ hy, hy'⟩
        · intro y hy
          rcases List.mem_cons.mp hy with rfl | hy
          · exact ⟨r, by simp, h1⟩
          · obtain ⟨r', hr', hy'⟩ := ih2 y hy
            exact ⟨r', List.mem_cons_of_mem _ hr', hy'⟩

theorem resolveList_length {N : List (String × Nat)} {R : List (String × String)} {l : List String}
    {res : List (Option Nat)} (h : resolveList N R l = .ok res) : res.length = l.length := by
  induction l generalizing res with
  | nil => simp [resolveList] at h; subst h; rfl
  | cons x xs ih =>
    unfold resolveList at h
    cases h1 : resolve N R x with
    | error e => simp [h1] at h
    | ok r =>
      simp only [h1] at h
      cases h2 : resolveList N R xs with
      | error e => simp [h2] at h
      | ok l' =>
        simp only [h2, Except.ok.injEq] at h
        subst h
        simp [ih h2]

theorem resolveList_total {N : List (String × Nat)} {R : List (String × String)} {l : List String}
    (h : ∀ x ∈ l, ∃ r, resolve N R x = .ok r) : ∃ res, resolveList N R l = .ok res := by
  induction l with
  | nil => exact ⟨[], rfl⟩
  | cons x xs ih =>
    obtain ⟨r, hr⟩ := h x (by simp)
    obtain ⟨res, hres⟩ := ih (fun y hy => h y (List.mem_cons_of_mem _ hy))
    exact ⟨r :: res, by simp [resolveList, hr, hres]⟩

section
variable {π ν : Type} [CompLike π]

/-! ### predecessor lists -/

theorem preds_nodup {s : Sys π ν} (hs : Sane s) (n : Nat) : (s.preds n).Nodup := by
  unfold Sys.preds
  have h1 : (s.edges.filter (fun e => decide (e.2 = n))).Nodup := hs.edges_nodup.filter _
  refine nodup_map_on ?_ h1
  intro a ha b hb hab
  simp only [List.mem_filter, decide_eq_true_eq] at ha hb
  exact Prod.ext hab (ha.2.trans hb.2.symm)

theorem preds_live {s : Sys π ν} (hs : Sane s) {n q : Nat} (h : q ∈ s.preds n) : q ∈ s.ids ∧ n ∈ s.ids := by
  have := hs.edges_live _ (mem_preds.mp h)
  exact this

/-- `parentsOf` reads the predecessor list, `pnames[n]` and the two registries only -/
theorem parentsOf_congr {s s' : Sys π ν} {n : Nat} (h1 : s'.preds n = s.preds n)
    (h2 : dget s'.pnames n = dget s.pnames n) {l : List (Option Nat)} (h : s.parentsOf n = .ok l)
    (h3 : ∀ x ∈ s.consulted n, ∀ r, resolve s.nodes s.rails x = .ok r → resolve s'.nodes s'.rails x = .ok r) :
    s'.parentsOf n = .ok l := by
  unfold Sys.parentsOf at h ⊢
  simp only [h1, h2]
  split
  · next hle => simpa [hle] using h
  · next hle =>
    simp only [hle, if_false] at h
    cases hp : dget s.pnames n with
    | none => simp [hp] at h
    | some pl =>
      simp only [hp] at h ⊢
      split
      · next hlt => simp [hlt] at h
      · next hlt =>
        simp only [hlt, if_false] at h
        rw [resolveAll_eq] at h ⊢
        apply resolveList_congr h
        intro x hx r hr
        apply h3 x _ r hr
        unfold Sys.consulted
        have : 1 < (s.preds n).length := by omega
        simp [this, hp, hx]

theorem resolveList_map {N N' : List (String × Nat)} {R R' : List (String × String)} {l : List String}
    {f : String → String} {res : List (Option Nat)} (h : resolveList N R l = .ok res)
    (hall : ∀ x ∈ l, ∀ r, resolve N R x = .ok r → resolve N' R' (f x) = .ok r) :
    resolveList N' R' (l.map f) = .ok res := by
  induction l generalizing res with
  | nil => simpa [resolveList] using h
  | cons x xs ih =>
    unfold resolveList at h
    simp only [List.map_cons]
    unfold resolveList
    cases h1 : resolve N R x with
    | error e => simp [h1] at h
    | ok r =>
      simp only [h1] at h
      cases h2 : resolveList N R xs with
      | error e => simp [h2] at h
      | ok l' =>
        simp only [h2, Except.ok.injEq] at h
        rw [hall x (by simp) r h1, ih h2 (fun y hy => hall y (List.mem_cons_of_mem _ hy))]
        simp [h]

/-- `parentsOf` when the recorded names are rewritten by `f` and every consulted name keeps its meaning -/
theorem parentsOf_map {s s' : Sys π ν} {n : Nat} (f : String → String) (h1 : s'.preds n = s.preds n)
    (h2 : dget s'.pnames n = (dget s.pnames n).map (List.map f)) {l : List (Option Nat)}
    (h : s.parentsOf n = .ok l)
    (h3 : ∀ x ∈ s.consulted n, ∀ r, resolve s.nodes s.rails x = .ok r → resolve s'.nodes s'.rails (f x) = .ok r) :
    s'.parentsOf n = .ok l := by
  unfold Sys.parentsOf at h ⊢
  simp only [h1, h2]
  split
  · next hle => simpa [hle] using h
  · next hle =>
    simp only [hle, if_false] at h
    cases hp : dget s.pnames n with
    | none => simp [hp] at h
    | some pl =>
      simp only [hp, Option.map_some, List.length_map] at h ⊢
      split
      · next hlt => simp [hlt] at h
      · next hlt =>
        simp only [hlt, if_false] at h
        rw [resolveAll_eq] at h ⊢
        rw [← List.map_take]
        apply resolveList_map h
        intro x hx r hr
        apply h3 x _ r hr
        unfold Sys.consulted
        have : 1 < (s.preds n).length := by omega
        simp [this, hp, hx]

/-- the resolved inputs of a multi-input node are what its consulted names resolve to -/
theorem parentsOf_multi {s : Sys π ν} {n : Nat} (hm : 1 < (s.preds n).length) {l : List (Option Nat)}
    (h : s.parentsOf n = .ok l) :
    (∀ r ∈ l, ∃ x ∈ s.consulted n, s.getIndex x = .ok r) ∧ (∀ x ∈ s.consulted n, ∃ r ∈ l, s.getIndex x = .ok r) := by
  unfold Sys.parentsOf at h
  have hle : ¬ (s.preds n).length ≤ 1 := by omega
  simp only [hle, if_false] at h
  cases hp : dget s.pnames n with
  | none => simp [hp] at h
  | some pl =>
    simp only [hp] at h
    split at h
    · simp at h
    · rw [resolveAll_eq] at h
      have := resolveList_mem h
      unfold Sys.consulted
      simpa [hm, hp, getIndex_eq_resolve] using this

theorem parentsOf_single {s : Sys π ν} {n : Nat} (hm : (s.preds n).length ≤ 1) :
    s.parentsOf n = .ok ((s.preds n).map some) := by
  unfold Sys.parentsOf; simp [hm]

/-- under `WFr`, `_get_parents()[n]` never raises and lists predecessors of `n` only -/
theorem parentsOf_ok {s : Sys π ν} (hw : WFr s) {p : Nat × π} (hp : p ∈ s.comps) :
    ∃ l, s.parentsOf p.1 = .ok l ∧ (∀ x ∈ l, ∃ q ∈ s.preds p.1, x = some q) ∧ (l = [] ↔ s.preds p.1 = []) := by
  by_cases hm : 1 < (s.preds p.1).length
  · obtain ⟨l, hl, hl', _⟩ := hw.inputs p hp hm
    refine ⟨l, hl, hl', ?_⟩
    constructor
    · intro he
      -- l is the image of a non-empty prefix of pnames
      exfalso
      unfold Sys.parentsOf at hl
      have hle : ¬ (s.preds p.1).length ≤ 1 := by omega
      simp only [hle, if_false] at hl
      cases hpn : dget s.pnames p.1 with
      | none => simp [hpn] at hl
      | some pl =>
        simp only [hpn] at hl
        split at hl
        · simp at hl
        · next hlt =>
          rw [resolveAll_eq] at hl
          subst he
          have := (resolveList_mem hl).2
          have hne : pl.take (s.preds p.1).length ≠ [] := by
            intro e
            have := congrArg List.length e
            simp only [List.length_take, List.length_nil] at this
            omega
          obtain ⟨x, hx⟩ := List.exists_mem_of_ne_nil _ hne
          obtain ⟨r, hr, _⟩ := this x hx
          simp at hr
    · intro he; rw [he] at hm; simp at hm
  · have hle : (s.preds p.1).length ≤ 1 := by omega
    refine ⟨_, parentsOf_single hle, ?_, by simp⟩
    intro x hx
    simp only [List.mem_map] at hx
    obtain ⟨q, hq, rfl⟩ := hx
    exact ⟨q, hq, rfl⟩

theorem parentsErrAux_none {s : Sys π ν} {l : List Nat} (h : ∀ n ∈ l, ∃ r, s.parentsOf n = .ok r) :
    s.parentsErrAux l = none := by
  induction l with
  | nil => rfl
  | cons n ns ih =>
    unfold Sys.parentsErrAux
    obtain ⟨r, hr⟩ := h n (by simp)
    rw [hr]
    exact ih fun m hm => h m (List.mem_cons_of_mem _ hm)

theorem parentsErr_none {s : Sys π ν} (hw : WFr s) : s.parentsErr = none := by
  apply parentsErrAux_none
  intro n hn
  simp only [Sys.ids, List.mem_map] at hn
  obtain ⟨p, hp, rfl⟩ := hn
  obtain ⟨l, hl, _⟩ := parentsOf_ok hw hp
  exact ⟨l, hl⟩

end
end SysLoss
