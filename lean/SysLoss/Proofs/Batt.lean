/-
  Proofs/Batt — lemmas about the depletion loop of `Model/Batt`, by induction over the script.
-/
import SysLoss.Proofs.Basic
import SysLoss.Spec.Batt
import Mathlib.Logic.Function.Iterate
import Mathlib.Data.List.Basic

set_option linter.unusedSectionVars false
set_option linter.unusedVariables false

namespace SysLoss
namespace Batt
variable {α : Type} [Field α] [LinearOrder α] [IsStrictOrderedRing α]

theorem live_iff (cutoff : α) (b : BState α) : live cutoff b = true ↔ Live cutoff b := by
  unfold live Live; simp

theorem live_false_iff (cutoff : α) (b : BState α) : live cutoff b = false ↔ ¬ Live cutoff b := by
  rw [← live_iff]; simp

/-- `phidx = (phidx + 1) % len(phase_list)` -/
def nextIdx (n p : Nat) : Nat := (p + 1) % n

theorem iter_nextIdx (n k : Nat) : (nextIdx n)^[k] 0 = k % n := by
  induction k with
  | zero => simp
  | succ k ih =>
    rw [Function.iterate_succ_apply', ih]
    unfold nextIdx
    exact Nat.mod_add_mod k n 1

/-! ### one iteration of the loop, case by case -/
section
variable (cutoff cap0 : α) (phases : List (String × α)) (solveI : α → α → String → Except Err (α × Nat))

theorem loop_dead (script : List (Cb α)) (b : BState α) (p : Nat) (tlast vo rs : α) (hl : live cutoff b = false) :
    loop cutoff cap0 phases solveI script b p tlast vo rs = ⟨[], [], vo, rs, .ok⟩ := by
  rw [loop]; simp [hl]

theorem loop_err (script : List (Cb α)) (b : BState α) (p : Nat) (tlast vo rs : α) (hl : live cutoff b = true)
    (e : Err) (hs : solveI b.volt b.rs ((phaseList phases).getD p "") = .error e) :
    loop cutoff cap0 phases solveI script b p tlast vo rs = ⟨[], [], b.volt, b.rs, .raised e⟩ := by
  rw [loop]; simp only [hl, if_true, hs]

theorem loop_nonconv (script : List (Cb α)) (b : BState α) (p : Nat) (tlast vo rs : α) (hl : live cutoff b = true)
    (i : α) (it : Nat) (hs : solveI b.volt b.rs ((phaseList phases).getD p "") = .ok (i, it)) (hit : it > 10000) :
    loop cutoff cap0 phases solveI script b p tlast vo rs =
      ⟨[], [], b.volt, b.rs, .raised (.runtime "Steady-state not achieved")⟩ := by
  rw [loop]; simp only [hl, if_true, hs, hit]

theorem loop_nil (b : BState α) (p : Nat) (tlast vo rs : α) (hl : live cutoff b = true)
    (i : α) (it : Nat) (hs : solveI b.volt b.rs ((phaseList phases).getD p "") = .ok (i, it)) (hit : ¬ it > 10000) :
    loop cutoff cap0 phases solveI [] b p tlast vo rs = ⟨[], [], b.volt, b.rs, .exhausted⟩ := by
  rw [loop]; simp only [hl, if_true, hs, hit, if_false]

theorem loop_raise (e : Err) (rest : List (Cb α)) (b : BState α) (p : Nat) (tlast vo rs : α) (hl : live cutoff b = true)
    (i : α) (it : Nat) (hs : solveI b.volt b.rs ((phaseList phases).getD p "") = .ok (i, it)) (hit : ¬ it > 10000) :
    loop cutoff cap0 phases solveI (.raise e :: rest) b p tlast vo rs =
      ⟨[], [(deltaT phases cap0 i ((phaseList phases).getD p ""), i)], b.volt, b.rs, .raised e⟩ := by
  rw [loop]; simp only [hl, if_true, hs, hit, if_false]

theorem loop_ret (b' : BState α) (rest : List (Cb α)) (b : BState α) (p : Nat) (tlast vo rs : α) (hl : live cutoff b = true)
    (i : α) (it : Nat) (hs : solveI b.volt b.rs ((phaseList phases).getD p "") = .ok (i, it)) (hit : ¬ it > 10000) :
    loop cutoff cap0 phases solveI (.ret b' :: rest) b p tlast vo rs =
      (let dt := deltaT phases cap0 i ((phaseList phases).getD p "")
       let r := loop cutoff cap0 phases solveI rest b' ((p + 1) % (phaseList phases).length)
                  (if live cutoff b' then tlast + dt else tlast) b.volt b.rs
       ⟨(if live cutoff b' then [⟨tlast + dt, b'.cap, b'.volt, b'.rs⟩] else []) ++ r.rows, (dt, i) :: r.calls,
        r.vo, r.rs, r.outcome⟩) := by
  rw [loop]; simp only [hl, if_true, hs, hit, if_false]
  by_cases hl' : live cutoff b' = true <;> simp [hl']

/-! ### the argument stream -/

theorem stateBefore_succ (b b' : BState α) (rest : List (Cb α)) (k : Nat) :
    stateBefore b (.ret b' :: rest) (k + 1) = stateBefore b' rest k := by
  cases k <;> simp [stateBefore]

/-- every `(Δt, I)` handed to the deplete callback is the solved — and converged — current of the state the previous
    callback returned, in the phase the index has cycled to, with the matching `deltat` -/
theorem loop_calls (script : List (Cb α)) :
    ∀ (b : BState α) (p : Nat) (tlast vo rs : α) (k : Nat) (dt i : α),
      (loop cutoff cap0 phases solveI script b p tlast vo rs).calls[k]? = some (dt, i) →
      ∃ bk it, stateBefore b script k = some bk ∧
        solveI bk.volt bk.rs ((phaseList phases).getD ((nextIdx (phaseList phases).length)^[k] p) "") = .ok (i, it) ∧
        it ≤ 10000 ∧
        dt = deltaT phases cap0 i ((phaseList phases).getD ((nextIdx (phaseList phases).length)^[k] p) "") := by
  induction script with
  | nil =>
    intro b p tlast vo rs k dt i h
    by_cases hl : live cutoff b = true
    · cases hs : solveI b.volt b.rs ((phaseList phases).getD p "") with
      | error e => rw [loop_err _ _ _ _ _ _ _ _ _ _ hl e hs] at h; simp at h
      | ok r0 =>
        obtain ⟨i0, it⟩ := r0
        by_cases hit : it > 10000
        · rw [loop_nonconv _ _ _ _ _ _ _ _ _ _ hl i0 it hs hit] at h; simp at h
        · rw [loop_nil _ _ _ _ _ _ _ _ _ hl i0 it hs hit] at h; simp at h
    · rw [loop_dead _ _ _ _ _ _ _ _ _ _ (by simpa using hl)] at h; simp at h
  | cons c rest ih =>
    intro b p tlast vo rs k dt i h
    by_cases hl : live cutoff b = true
    · cases hs : solveI b.volt b.rs ((phaseList phases).getD p "") with
      | error e => rw [loop_err _ _ _ _ _ _ _ _ _ _ hl e hs] at h; simp at h
      | ok r0 =>
        obtain ⟨i0, it⟩ := r0
        by_cases hit : it > 10000
        · rw [loop_nonconv _ _ _ _ _ _ _ _ _ _ hl i0 it hs hit] at h; simp at h
        · have h0 : ∀ (l : List (α × α)), ((deltaT phases cap0 i0 ((phaseList phases).getD p ""), i0) :: l)[0]? = some (dt, i) →
              ∃ bk it, stateBefore b (c :: rest) 0 = some bk ∧
                solveI bk.volt bk.rs ((phaseList phases).getD ((nextIdx (phaseList phases).length)^[0] p) "") = .ok (i, it) ∧
                it ≤ 10000 ∧
                dt = deltaT phases cap0 i ((phaseList phases).getD ((nextIdx (phaseList phases).length)^[0] p) "") := by
            intro l h
            simp only [List.getElem?_cons_zero, Option.some.injEq, Prod.mk.injEq] at h
            obtain ⟨h1, h2⟩ := h
            subst h2
            exact ⟨b, it, rfl, hs, by omega, h1.symm⟩
          cases c with
          | raise e =>
            rw [loop_raise _ _ _ _ _ _ _ _ _ _ _ hl i0 it hs hit] at h
            cases k with
            | zero => exact h0 _ h
            | succ k => simp at h
          | ret b' =>
            rw [loop_ret _ _ _ _ _ _ _ _ _ _ _ hl i0 it hs hit] at h
            cases k with
            | zero => exact h0 _ h
            | succ k' =>
              simp only [List.getElem?_cons_succ] at h
              obtain ⟨bk, itk, hb, hsol, hle, hdt⟩ := ih b' _ _ b.volt b.rs k' dt i h
              refine ⟨bk, itk, ?_, ?_, hle, ?_⟩
              · rw [stateBefore_succ]; exact hb
              · rw [Function.iterate_succ_apply]; exact hsol
              · rw [Function.iterate_succ_apply]; exact hdt
    · rw [loop_dead _ _ _ _ _ _ _ _ _ _ (by simpa using hl)] at h; simp at h

/-! ### the log -/

theorem row_state (t : α) (b : BState α) : (Row.mk t b.cap b.volt b.rs).state = b := by
  cases b; rfl

/-- when a DataFrame is returned, the rows appended by the loop are exactly the returned states while live,
    and the state that ended the loop is the first one that is not -/
theorem loop_rows (script : List (Cb α)) :
    ∀ (b : BState α) (p : Nat) (tlast vo rs : α),
      (loop cutoff cap0 phases solveI script b p tlast vo rs).outcome = .ok →
      (loop cutoff cap0 phases solveI script b p tlast vo rs).rows.map Row.state =
        (if live cutoff b then (rets script).takeWhile (live cutoff) else []) ∧
      (live cutoff b = true → ∃ bd,
        (rets script)[(loop cutoff cap0 phases solveI script b p tlast vo rs).rows.length]? = some bd ∧
        live cutoff bd = false) := by
  induction script with
  | nil =>
    intro b p tlast vo rs h
    by_cases hl : live cutoff b = true
    · cases hs : solveI b.volt b.rs ((phaseList phases).getD p "") with
      | error e => rw [loop_err _ _ _ _ _ _ _ _ _ _ hl e hs] at h; simp at h
      | ok r0 =>
        obtain ⟨i0, it⟩ := r0
        by_cases hit : it > 10000
        · rw [loop_nonconv _ _ _ _ _ _ _ _ _ _ hl i0 it hs hit] at h; simp at h
        · rw [loop_nil _ _ _ _ _ _ _ _ _ hl i0 it hs hit] at h; simp at h
    · rw [loop_dead _ _ _ _ _ _ _ _ _ _ (by simpa using hl)]; simp [hl]
  | cons c rest ih =>
    intro b p tlast vo rs h
    by_cases hl : live cutoff b = true
    · cases hs : solveI b.volt b.rs ((phaseList phases).getD p "") with
      | error e => rw [loop_err _ _ _ _ _ _ _ _ _ _ hl e hs] at h; simp at h
      | ok r0 =>
        obtain ⟨i0, it⟩ := r0
        by_cases hit : it > 10000
        · rw [loop_nonconv _ _ _ _ _ _ _ _ _ _ hl i0 it hs hit] at h; simp at h
        · cases c with
          | raise e => rw [loop_raise _ _ _ _ _ _ _ _ _ _ _ hl i0 it hs hit] at h; simp at h
          | ret b' =>
            rw [loop_ret _ _ _ _ _ _ _ _ _ _ _ hl i0 it hs hit] at h ⊢
            simp only at h ⊢
            obtain ⟨ih1, ih2⟩ := ih b' _ _ b.volt b.rs h
            by_cases hl' : live cutoff b' = true
            · simp only [hl', if_true] at ih1 ih2 ⊢
              obtain ⟨bd, hbd, hd⟩ := ih2 trivial
              refine ⟨?_, fun _ => ⟨bd, ?_, hd⟩⟩
              · simp only [hl, if_true, List.cons_append, List.nil_append, List.map_cons, rets, List.takeWhile_cons, hl', ih1]
                rw [row_state]
              · simpa [rets] using hbd
            · have hl'' : live cutoff b' = false := by simpa using hl'
              simp only [hl'', Bool.false_eq_true, if_false, List.map_eq_nil_iff] at ih1 ⊢
              refine ⟨?_, fun _ => ⟨b', ?_, hl''⟩⟩
              · simp [hl, ih1, rets, hl'']
              · simp [ih1, rets]
    · rw [loop_dead _ _ _ _ _ _ _ _ _ _ (by simpa using hl)]; simp [hl]

/-! ### the time column -/

theorem loop_time (script : List (Cb α)) :
    ∀ (b : BState α) (p : Nat) (tlast vo rs : α),
      (∀ c ∈ (loop cutoff cap0 phases solveI script b p tlast vo rs).calls, 0 < c.1) →
      (∀ r ∈ (loop cutoff cap0 phases solveI script b p tlast vo rs).rows, tlast < r.t) ∧
      ((loop cutoff cap0 phases solveI script b p tlast vo rs).rows.map Row.t).Pairwise (· < ·) := by
  induction script with
  | nil =>
    intro b p tlast vo rs h
    by_cases hl : live cutoff b = true
    · cases hs : solveI b.volt b.rs ((phaseList phases).getD p "") with
      | error e => rw [loop_err _ _ _ _ _ _ _ _ _ _ hl e hs]; simp
      | ok r0 =>
        obtain ⟨i0, it⟩ := r0
        by_cases hit : it > 10000
        · rw [loop_nonconv _ _ _ _ _ _ _ _ _ _ hl i0 it hs hit]; simp
        · rw [loop_nil _ _ _ _ _ _ _ _ _ hl i0 it hs hit]; simp
    · rw [loop_dead _ _ _ _ _ _ _ _ _ _ (by simpa using hl)]; simp
  | cons c rest ih =>
    intro b p tlast vo rs h
    by_cases hl : live cutoff b = true
    · cases hs : solveI b.volt b.rs ((phaseList phases).getD p "") with
      | error e => rw [loop_err _ _ _ _ _ _ _ _ _ _ hl e hs]; simp
      | ok r0 =>
        obtain ⟨i0, it⟩ := r0
        by_cases hit : it > 10000
        · rw [loop_nonconv _ _ _ _ _ _ _ _ _ _ hl i0 it hs hit]; simp
        · cases c with
          | raise e => rw [loop_raise _ _ _ _ _ _ _ _ _ _ _ hl i0 it hs hit]; simp
          | ret b' =>
            rw [loop_ret _ _ _ _ _ _ _ _ _ _ _ hl i0 it hs hit] at h ⊢
            simp only [List.mem_cons, forall_eq_or_imp] at h ⊢
            obtain ⟨hdt, hrest⟩ := h
            obtain ⟨ih1, ih2⟩ := ih b' _ _ b.volt b.rs hrest
            by_cases hl' : live cutoff b' = true
            · simp only [hl', if_true] at ih1 ih2 ⊢
              have hlt : tlast < tlast + deltaT phases cap0 i0 ((phaseList phases).getD p "") := by linarith
              refine ⟨?_, ?_⟩
              · intro r hr
                simp only [List.cons_append, List.nil_append, List.mem_cons] at hr
                rcases hr with rfl | hr
                · exact hlt
                · exact lt_trans hlt (ih1 r hr)
              · simp only [List.cons_append, List.nil_append, List.map_cons, List.pairwise_cons]
                refine ⟨?_, ih2⟩
                intro t ht
                simp only [List.mem_map] at ht
                obtain ⟨r, hr, rfl⟩ := ht
                exact ih1 r hr
            · have hl'' : live cutoff b' = false := by simpa using hl'
              simp only [hl'', Bool.false_eq_true, if_false, List.nil_append] at ih1 ih2 ⊢
              exact ⟨ih1, ih2⟩
    · rw [loop_dead _ _ _ _ _ _ _ _ _ _ (by simpa using hl)]; simp

theorem loop_timechain (script : List (Cb α)) :
    ∀ (b : BState α) (p : Nat) (tlast vo rs : α),
      TimeChain tlast ((loop cutoff cap0 phases solveI script b p tlast vo rs).rows.map Row.t)
        ((loop cutoff cap0 phases solveI script b p tlast vo rs).calls.map (·.1)) := by
  induction script with
  | nil =>
    intro b p tlast vo rs
    by_cases hl : live cutoff b = true
    · cases hs : solveI b.volt b.rs ((phaseList phases).getD p "") with
      | error e => rw [loop_err _ _ _ _ _ _ _ _ _ _ hl e hs]; simp [TimeChain]
      | ok r0 =>
        obtain ⟨i0, it⟩ := r0
        by_cases hit : it > 10000
        · rw [loop_nonconv _ _ _ _ _ _ _ _ _ _ hl i0 it hs hit]; simp [TimeChain]
        · rw [loop_nil _ _ _ _ _ _ _ _ _ hl i0 it hs hit]; simp [TimeChain]
    · rw [loop_dead _ _ _ _ _ _ _ _ _ _ (by simpa using hl)]; simp [TimeChain]
  | cons c rest ih =>
    intro b p tlast vo rs
    by_cases hl : live cutoff b = true
    · cases hs : solveI b.volt b.rs ((phaseList phases).getD p "") with
      | error e => rw [loop_err _ _ _ _ _ _ _ _ _ _ hl e hs]; simp [TimeChain]
      | ok r0 =>
        obtain ⟨i0, it⟩ := r0
        by_cases hit : it > 10000
        · rw [loop_nonconv _ _ _ _ _ _ _ _ _ _ hl i0 it hs hit]; simp [TimeChain]
        · cases c with
          | raise e => rw [loop_raise _ _ _ _ _ _ _ _ _ _ _ hl i0 it hs hit]; simp [TimeChain]
          | ret b' =>
            rw [loop_ret _ _ _ _ _ _ _ _ _ _ _ hl i0 it hs hit]
            by_cases hl' : live cutoff b' = true
            · simp only [hl', if_true, List.cons_append, List.nil_append, List.map_cons, TimeChain, true_and]
              exact ih b' _ _ b.volt b.rs
            · have hl'' : live cutoff b' = false := by simpa using hl'
              simp only [hl'', Bool.false_eq_true, if_false, List.nil_append]
              rw [loop_dead _ _ _ _ _ _ _ _ _ _ hl'']
              simp [TimeChain]
    · rw [loop_dead _ _ _ _ _ _ _ _ _ _ (by simpa using hl)]; simp [TimeChain]
end

/-! ### phases are a dict: the lookup by key is positional -/

theorem lookup_of_getElem? (l : List (String × α)) (hn : (l.map (·.1)).Nodup) (i : Nat) (p : String × α)
    (h : l[i]? = some p) : l.lookup p.1 = some p.2 := by
  induction l generalizing i with
  | nil => simp at h
  | cons q l ih =>
    simp only [List.map_cons, List.nodup_cons] at hn
    cases i with
    | zero =>
      simp only [List.getElem?_cons_zero, Option.some.injEq] at h
      subst h
      simp [List.lookup]
    | succ i =>
      simp only [List.getElem?_cons_succ] at h
      have hmem : p.1 ∈ l.map (·.1) := List.mem_map.mpr ⟨p, List.mem_of_getElem? h, rfl⟩
      have hne : p.1 ≠ q.1 := fun e => hn.1 (e ▸ hmem)
      rw [List.lookup_cons]
      have : (p.1 == q.1) = false := by simpa using hne
      rw [this]
      exact ih hn.2 i h

theorem mem_of_lookup {β : Type} {l : List (String × β)} {a : String} {b : β} (h : l.lookup a = some b) :
    (a, b) ∈ l := by
  obtain ⟨l₁, l₂, rfl, _⟩ := List.lookup_eq_some_iff.mp h
  simp

end Batt
end SysLoss
