/-
  Proofs/Legal — `Legal s`: `s` is a state the Python data structures can be in:
  the graph is a legal rustworkx `PyDAG` state with unique `nodes` keys (`Sane`), and every live node has an entry
  in `attrs["pnames"]` (each `add_*` writes one, nothing ever deletes one).  Preserved by every call, unconditionally.
-/
import SysLoss.Proofs.WfAbs

set_option linter.unusedSectionVars false
set_option linter.unusedSimpArgs false
set_option linter.unusedVariables false

namespace SysLoss
section
variable {π ν : Type} [CompLike π]

/-- every live node has a `pnames` entry -/
def PN (s : Sys π ν) : Prop := ∀ n ∈ s.ids, n ∈ dkeys s.pnames

structure Legal (s : Sys π ν) : Prop where
  sane : Sane s
  pnames_total : PN s

/-- no new nodes, no lost `pnames` keys -/
def Shrink (s s' : Sys π ν) : Prop := (∀ n ∈ s'.ids, n ∈ s.ids) ∧ (∀ k ∈ dkeys s.pnames, k ∈ dkeys s'.pnames)

theorem Shrink.refl (s : Sys π ν) : Shrink s s := ⟨fun _ h => h, fun _ h => h⟩

theorem Shrink.trans {a b c : Sys π ν} (h1 : Shrink a b) (h2 : Shrink b c) : Shrink a c :=
  ⟨fun n h => h1.1 n (h2.1 n h), fun k h => h2.2 k (h1.2 k h)⟩

theorem Shrink.pn {s s' : Sys π ν} (h : Shrink s s') (hp : PN s) : PN s' :=
  fun n hn => h.2 n (hp n (h.1 n hn))

theorem shrink_of_eq {s s' : Sys π ν} (h1 : s'.comps = s.comps) (h2 : s'.pnames = s.pnames) : Shrink s s' :=
  ⟨fun n h => by simpa [Sys.ids, h1] using h, fun k h => by rw [h2]; exact h⟩

theorem shrink_delRegs (s : Sys π ν) (x : String) : Shrink s (s.delRegs x).1 := by
  unfold Sys.delRegs Sys.fail
  simp only
  split
  · exact Shrink.refl s
  · split
    · exact shrink_of_eq rfl rfl
    · split
      · exact shrink_of_eq rfl rfl
      · split <;> exact shrink_of_eq rfl rfl

theorem shrink_removeNode (s : Sys π ν) (n : Nat) : Shrink s (s.removeNode n) := by
  unfold Sys.removeNode
  split
  · refine ⟨?_, fun k h => h⟩
    intro m hm
    simp only [Sys.ids, List.mem_map, List.mem_filter] at hm ⊢
    obtain ⟨p, ⟨hp, _⟩, rfl⟩ := hm
    exact ⟨p, hp, rfl⟩
  · exact Shrink.refl s

theorem shrink_andThen {s : Sys π ν} {r : Sys.Res π ν} {f : Sys π ν → Sys.Res π ν} (hr : Shrink s r.1)
    (hf : ∀ s1, Shrink s s1 → Shrink s (f s1).1) : Shrink s (Sys.andThen r f).1 := by
  unfold Sys.andThen
  split
  · exact hf _ hr
  · exact hr

theorem shrink_delDescendants (s : Sys π ν) (l : List Nat) : Shrink s (s.delDescendants l).1 := by
  induction l generalizing s with
  | nil => exact Shrink.refl s
  | cons c cs ih =>
    unfold Sys.delDescendants Sys.fail
    split
    · exact Shrink.refl s
    · apply shrink_andThen (shrink_delRegs s _)
      intro s1 h1
      exact h1.trans ((shrink_removeNode s1 c).trans (ih _))

theorem shrink_relink (s : Sys π ν) (p0 : Nat) (l : List Nat) : Shrink s (s.relink p0 l).1 := by
  induction l generalizing s with
  | nil => exact Shrink.refl s
  | cons c cs ih =>
    unfold Sys.relink Sys.fail
    split
    · exact Shrink.refl s
    · split
      · exact Shrink.refl s
      · have : Shrink s (s.addEdge p0 c) := by
          unfold Sys.addEdge; split
          · exact Shrink.refl s
          · exact shrink_of_eq rfl rfl
        exact this.trans (ih _)

theorem dkeys_map_snd {κ β γ : Type} (d : List (κ × β)) (f : κ × β → γ) :
    dkeys (d.map fun kp => (kp.1, f kp)) = dkeys d := by
  simp [dkeys, List.map_map, Function.comp]

theorem shrink_mapPnames (s : Sys π ν) (ks : List Nat) (f : String → String) : Shrink s (s.mapPnames ks f) := by
  refine ⟨fun n h => h, ?_⟩
  intro k hk
  unfold Sys.mapPnames
  simp only
  have : (s.pnames.map fun (kp : Nat × List String) => if kp.1 ∈ ks then (kp.1, kp.2.map f) else kp) =
      s.pnames.map fun kp => (kp.1, if kp.1 ∈ ks then kp.2.map f else kp.2) := by
    apply List.map_congr_left
    intro kp _
    split <;> rfl
  rw [this, dkeys_map_snd]
  exact hk

theorem shrink_dedupeChilds (s : Sys π ν) (l : List Nat) : Shrink s (s.dedupeChilds l).1 := by
  induction l generalizing s with
  | nil => exact Shrink.refl s
  | cons c cs ih =>
    unfold Sys.dedupeChilds Sys.fail
    split
    · exact Shrink.refl s
    · split
      · exact Shrink.refl s
      · next pl' _ =>
        have : Shrink s ({ s with pnames := dset s.pnames c pl' } : Sys π ν) :=
          ⟨fun n h => h, fun k hk => mem_dkeys_dset.mpr (Or.inr hk)⟩
        exact this.trans (ih _)

theorem shrink_delComp (s : Sys π ν) (x : String) (d : Bool) : Shrink s (s.delComp x d).1 := by
  unfold Sys.delComp Sys.fail
  simp only
  split
  · exact Shrink.refl s
  · split
    · exact Shrink.refl s
    · split
      · exact Shrink.refl s
      · split
        · exact Shrink.refl s
        · split
          · exact Shrink.refl s
          · split
            · exact Shrink.refl s
            · split
              · exact Shrink.refl s
              · apply shrink_andThen
                · split
                  · exact shrink_delDescendants s _
                  · exact Shrink.refl s
                · intro s1 h1
                  apply shrink_andThen (h1.trans ((shrink_removeNode s1 _).trans (shrink_delRegs _ _)))
                  intro s2 h2
                  split
                  · exact h2
                  · split
                    · exact h2
                    · exact h2
                    · exact h2
                    · apply shrink_andThen (h2.trans (shrink_relink s2 _ _))
                      intro s3 h3
                      split
                      · exact h3
                      · exact h3.trans ((shrink_mapPnames s3 _ _).trans (shrink_dedupeChilds _ _))

theorem shrink_changeComp (s : Sys π ν) (x : String) (c : π) (g r : String) : Shrink s (s.changeComp x c g r).1 := by
  have hA : ∀ (n : Nat) (s' : Sys π ν), s'.comps = (s.setPayload n c).comps → s'.pnames = s.pnames → Shrink s s' := by
    intro n s' h1 h2
    refine ⟨?_, fun k h => by rw [h2]; exact h⟩
    intro m hm
    have : s'.ids = s.ids := by
      unfold Sys.ids; rw [h1]; exact ids_setPayload s n c
    rw [this] at hm; exact hm
  have hB : ∀ (n : Nat) (s' : Sys π ν) (f : String → String), s'.comps = (s.setPayload n c).comps →
      s'.pnames = s.pnames.map (fun (kp : Nat × List String) => (kp.1, kp.2.map f)) → Shrink s s' := by
    intro n s' f h1 h2
    refine ⟨?_, ?_⟩
    · intro m hm
      have : s'.ids = s.ids := by
        unfold Sys.ids; rw [h1]; exact ids_setPayload s n c
      rw [this] at hm; exact hm
    · intro k hk
      rw [h2, dkeys_map_snd s.pnames (fun kp => kp.2.map f)]
      exact hk
  unfold Sys.changeComp Sys.fail
  simp only
  repeat' split
  all_goals first
    | exact Shrink.refl s
    | exact hA _ _ rfl rfl
    | exact hB _ _ _ rfl rfl

theorem pn_addSource {s : Sys π ν} (hs : Sane s) (hp : PN s) (c : π) (g r : String) : PN (s.addSource c g r).1 := by
  unfold Sys.addSource Sys.fail
  split
  · exact hp
  · split
    · exact hp
    · obtain ⟨_, h2, _, _, _, _, _, h8, _⟩ := addNode_spec s c hs
      generalize s.addNode c = res at h2 h8 ⊢
      obtain ⟨s1, i⟩ := res
      simp only at h2 h8 ⊢
      intro n hn
      simp only [Sys.ids, h2, List.map_append, List.mem_append, List.map_cons, List.map_nil,
        List.mem_singleton] at hn
      rw [h8]
      rcases hn with hn | hn
      · exact mem_dkeys_dset.mpr (Or.inr (hp n hn))
      · exact mem_dkeys_dset.mpr (Or.inl hn)

theorem addEdges_comps_pnames (s : Sys π ν) (i : Nat) (l : List Nat) :
    (s.addEdges i l).comps = s.comps ∧ (s.addEdges i l).pnames = s.pnames := by
  obtain ⟨_, _, _, _, h4, _, _, _, _, h9⟩ := addEdges_spec s i l
  exact ⟨h4, h9⟩

theorem pn_addComp {s : Sys π ν} (hs : Sane s) (hp : PN s) (par : ParentArg) (c : π) (g r : String) :
    PN (s.addComp par c g r).1 := by
  unfold Sys.addComp Sys.fail
  simp only
  split
  · exact hp
  · split
    · exact hp
    · split
      · exact hp
      · split
        · exact hp
        · split
          · exact hp
          · next p0 prest _ =>
            obtain ⟨_, h2, _, _, _, _, _, h8, _⟩ := addNode_spec s c hs
            generalize s.addNode c = res at h2 h8 ⊢
            obtain ⟨s1, i⟩ := res
            simp only at h2 h8 ⊢
            intro n hn
            rw [(addEdges_comps_pnames _ i prest).2]
            simp only [Sys.ids, (addEdges_comps_pnames _ i prest).1, h2, List.map_append, List.mem_append,
              List.map_cons, List.map_nil, List.mem_singleton] at hn
            simp only
            rw [h8]
            rcases hn with hn | hn
            · exact mem_dkeys_dset.mpr (Or.inr (hp n hn))
            · exact mem_dkeys_dset.mpr (Or.inl hn)

theorem pn_step {s : Sys π ν} (hs : Sane s) (hp : PN s) (op : Op π ν) : PN (s.step op).1 := by
  cases op with
  | addSource c g r => exact pn_addSource hs hp c g r
  | addComp p c g r => exact pn_addComp hs hp p c g r
  | changeComp x c g r => exact (shrink_changeComp s x c g r).pn hp
  | delComp x d => exact (shrink_delComp s x d).pn hp
  | setSysPhases ph =>
    show PN (s.setSysPhases ph).1
    unfold Sys.setSysPhases Sys.fail
    repeat' split
    all_goals exact hp
  | setCompPhases x pc =>
    show PN (s.setCompPhases x pc).1
    unfold Sys.setCompPhases Sys.fail
    repeat' split
    all_goals exact hp

theorem legal_step_all {s : Sys π ν} (hl : Legal s) (op : Op π ν) : Legal (s.step op).1 :=
  ⟨sane_step_all hl.sane op, pn_step hl.sane hl.pnames_total op⟩

theorem legal_init_all {name : String} {src : π} {g r : String} {s : Sys π ν}
    (h : Sys.init name src g r = some s) : Legal s := by
  refine ⟨sane_init_all h, ?_⟩
  unfold Sys.init at h
  split at h
  · simp at h
  · split at h
    · simp at h
    · simp only [Option.some.injEq] at h
      subst h
      intro n hn
      simpa [Sys.ids, dkeys] using hn

end
end SysLoss
