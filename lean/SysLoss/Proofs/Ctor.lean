/-
  Proofs/Ctor — helper lemmas about the constructor model (Model/Ctor.lean) at a linearly ordered field:
  the Except monad, `absArg` / `numArg`, `listMin` / `listMax` and the range checks, `strictlyIncreasing`,
  `mapM`, inversion of `tableRows` / `mkTable` / `mkIg`, `checkLimits`.
-/
import SysLoss.Proofs.Interp
import SysLoss.Model.Ctor
import SysLoss.Spec.Phys

set_option linter.unusedSectionVars false
set_option linter.unusedVariables false
set_option linter.unusedSimpArgs false

namespace SysLoss
variable {α : Type} [Field α] [LinearOrder α] [IsStrictOrderedRing α]

/-! ### the Except monad -/
section monad
variable {β γ : Type}
@[simp] theorem ex_bind_ok (x : β) (f : β → Except Err γ) : (Except.ok x >>= f) = f x := rfl
@[simp] theorem ex_bind_error (e : Err) (f : β → Except Err γ) :
    ((Except.error e : Except Err β) >>= f) = Except.error e := rfl
@[simp] theorem ex_throw (e : Err) : (throw e : Except Err β) = Except.error e := rfl
@[simp] theorem ex_pure (x : β) : (pure x : Except Err β) = Except.ok x := rfl

theorem ex_bind_eq_ok {x : Except Err β} {f : β → Except Err γ} {c : γ} (h : (x >>= f) = .ok c) :
    ∃ v, x = .ok v ∧ f v = .ok c := by
  cases x with
  | error e => simp at h
  | ok v => exact ⟨v, rfl, by simpa using h⟩

theorem mapM_ok_length {f : β → Except Err γ} : ∀ {l : List β} {vs : List γ}, l.mapM f = .ok vs →
    vs.length = l.length
  | [], vs, h => by simp [List.mapM_nil] at h; subst h; rfl
  | a :: l, vs, h => by
    rw [List.mapM_cons] at h
    obtain ⟨b, hb, h⟩ := ex_bind_eq_ok h
    obtain ⟨bs, hbs, h⟩ := ex_bind_eq_ok h
    simp at h; subst h
    simp [mapM_ok_length hbs]

theorem mapM_ok_mem {f : β → Except Err γ} : ∀ {l : List β} {vs : List γ}, l.mapM f = .ok vs →
    ∀ v ∈ vs, ∃ x ∈ l, f x = .ok v
  | [], vs, h => by simp [List.mapM_nil] at h; subst h; simp
  | a :: l, vs, h => by
    rw [List.mapM_cons] at h
    obtain ⟨b, hb, h⟩ := ex_bind_eq_ok h
    obtain ⟨bs, hbs, h⟩ := ex_bind_eq_ok h
    simp at h; subst h
    intro v hv
    rcases List.mem_cons.mp hv with rfl | hv
    · exact ⟨a, by simp, hb⟩
    · obtain ⟨x, hx, e⟩ := mapM_ok_mem hbs v hv
      exact ⟨x, by simp [hx], e⟩
end monad

/-! ### numeric arguments -/

theorem absArg_num {k : String} {x : PV α} {v : α} (h : x.num? = some v) : absArg k x = .ok |v| := by
  simp [absArg, h]

theorem numArg_num {k : String} {x : PV α} {v : α} (h : x.num? = some v) : numArg k x = .ok v := by
  simp [numArg, h]

theorem absArg_ok {k : String} {x : PV α} {v : α} (h : absArg k x = .ok v) :
    ∃ w, x.num? = some w ∧ v = |w| := by
  unfold absArg at h
  cases hn : x.num? with
  | none => simp [hn] at h
  | some w => simp [hn] at h; exact ⟨w, rfl, h.symm⟩

theorem absArg_nonneg {k : String} {x : PV α} {v : α} (h : absArg k x = .ok v) : 0 ≤ v := by
  obtain ⟨w, _, rfl⟩ := absArg_ok h; exact abs_nonneg w

theorem numArg_ok {k : String} {x : PV α} {v : α} (h : numArg k x = .ok v) : x.num? = some v := by
  unfold numArg at h
  cases hn : x.num? with
  | none => simp [hn] at h
  | some w => simp [hn] at h; rw [h]

/-- the default `0.0` of an optional magnitude argument -/
theorem absArg_zero (k : String) : absArg k (PV.float (0 : α)) = .ok 0 := by
  simp [absArg, PV.num?]

/-! ### minimum / maximum of the table values, the range checks -/

theorem foldl_nmin_le (xs : List α) (x : α) : xs.foldl nmin x ≤ x ∧ ∀ v ∈ xs, xs.foldl nmin x ≤ v := by
  induction xs generalizing x with
  | nil => simp
  | cons a l ih =>
    simp only [List.foldl_cons, nmin_eq_min]
    obtain ⟨h1, h2⟩ := ih (min x a)
    refine ⟨le_trans h1 (min_le_left _ _), ?_⟩
    intro v hv
    rcases List.mem_cons.mp hv with rfl | hv
    · exact le_trans h1 (min_le_right _ _)
    · exact h2 v hv

theorem le_foldl_nmax (xs : List α) (x : α) : x ≤ xs.foldl nmax x ∧ ∀ v ∈ xs, v ≤ xs.foldl nmax x := by
  induction xs generalizing x with
  | nil => simp
  | cons a l ih =>
    simp only [List.foldl_cons, nmax_eq_max]
    obtain ⟨h1, h2⟩ := ih (max x a)
    refine ⟨le_trans (le_max_left _ _) h1, ?_⟩
    intro v hv
    rcases List.mem_cons.mp hv with rfl | hv
    · exact le_trans (le_max_right _ _) h1
    · exact h2 v hv

theorem listMin_le {xs : List α} {m : α} (h : listMin xs = some m) : ∀ v ∈ xs, m ≤ v := by
  cases xs with
  | nil => simp [listMin] at h
  | cons a l =>
    simp only [listMin, Option.some.injEq] at h; subst h
    intro v hv
    rcases List.mem_cons.mp hv with rfl | hv
    · exact (foldl_nmin_le l _).1
    · exact (foldl_nmin_le l _).2 v hv

theorem le_listMax {xs : List α} {m : α} (h : listMax xs = some m) : ∀ v ∈ xs, v ≤ m := by
  cases xs with
  | nil => simp [listMax] at h
  | cons a l =>
    simp only [listMax, Option.some.injEq] at h; subst h
    intro v hv
    rcases List.mem_cons.mp hv with rfl | hv
    · exact (le_foldl_nmax l _).1
    · exact (le_foldl_nmax l _).2 v hv

/-- every failure of the ground-current range check is a ValueError -/
theorem chkIg_error {vals : List α} {e : Err} (h : chkIg vals = .error e) : e.cls = "ValueError" := by
  unfold chkIg at h
  cases hm : listMin vals with
  | none => simp [hm] at h; subst h; rfl
  | some m =>
    simp only [hm] at h
    split_ifs at h
    · simp at h; subst h; rfl
    · simp at h

theorem chkIg_ok {vals : List α} (h : chkIg vals = .ok ()) : vals ≠ [] ∧ ∀ v ∈ vals, 0 ≤ v := by
  unfold chkIg at h
  cases hm : listMin vals with
  | none => simp [hm] at h
  | some m =>
    simp only [hm] at h
    split_ifs at h with hneg
    exact ⟨by intro e; simp [e, listMin] at hm, fun v hv => le_trans (not_lt.mp hneg) (listMin_le hm v hv)⟩

theorem chkEff_error {vals : List α} {e : Err} (h : chkEff vals = .error e) : e.cls = "ValueError" := by
  unfold chkEff at h
  cases hm : listMin vals <;> cases hx : listMax vals <;> simp only [hm, hx] at h
  · simp at h; subst h; rfl
  · simp at h; subst h; rfl
  · simp at h; subst h; rfl
  · split_ifs at h
    · simp at h; subst h; rfl
    · simp at h; subst h; rfl
    · simp at h

theorem chkEff_ok {vals : List α} (h : chkEff vals = .ok ()) : vals ≠ [] ∧ ∀ v ∈ vals, 0 < v ∧ v ≤ 1 := by
  unfold chkEff at h
  cases hm : listMin vals <;> cases hx : listMax vals <;> simp only [hm, hx] at h
  · simp at h
  · simp at h
  · simp at h
  · rename_i mn mx
    split_ifs at h with h1 h2
    simp only [Bool.not_eq_true', decide_eq_false_iff_not, not_not] at h1
    exact ⟨by intro e; simp [e, listMin] at hm,
      fun v hv => ⟨lt_of_lt_of_le h1 (listMin_le hm v hv), le_trans (le_listMax hx v hv) (not_lt.mp h2)⟩⟩

/-! ### the io axis -/

theorem strictlyIncreasing_pairwise : ∀ {l : List α}, strictlyIncreasing l = true → l.Pairwise (· < ·)
  | [], _ => List.Pairwise.nil
  | [a], _ => by simp
  | a :: b :: rest, h => by
    simp only [strictlyIncreasing, Bool.and_eq_true, decide_eq_true_eq] at h
    have ih := strictlyIncreasing_pairwise h.2
    refine List.pairwise_cons.mpr ⟨?_, ih⟩
    intro c hc
    rcases List.mem_cons.mp hc with rfl | hc
    · exact h.1
    · exact lt_trans h.1 ((List.pairwise_cons.mp ih).1 c hc)

theorem pairwise_strictlyIncreasing : ∀ {l : List α}, l.Pairwise (· < ·) → strictlyIncreasing l = true
  | [], _ => rfl
  | [a], _ => rfl
  | a :: b :: rest, h => by
    simp only [strictlyIncreasing, Bool.and_eq_true, decide_eq_true_eq]
    exact ⟨(List.pairwise_cons.mp h).1 b (by simp), pairwise_strictlyIncreasing (List.pairwise_cons.mp h).2⟩

theorem allSame_false_length {l : List α} (h : allSame l = false) : 2 ≤ l.length := by
  cases l with
  | nil => simp [allSame] at h
  | cons a m =>
    cases m with
    | nil => simp [allSame] at h
    | cons b r => simp

/-! ### `_check_interp` and the interpolator that is built -/

theorem numList_ok {k : String} {x : PV α} {vs : List α} (h : numList k x = .ok vs) :
    ∃ l, x = .list l ∧ vs.length = l.length := by
  unfold numList at h
  cases x <;> simp at h
  rename_i l
  exact ⟨l, rfl, mapM_ok_length h⟩

theorem tableShape_some {zz : PV α} {n m : Nat} (h : tableShape zz = .ok (some (n, some m))) :
    ∃ rs, zz = .list rs ∧ rs.length = n ∧ ∀ x ∈ rs, ∃ l, x = PV.list l ∧ l.length = m := by
  unfold tableShape at h
  cases zz with
  | list rs =>
    cases rs with
    | nil => simp at h
    | cons r rs' =>
      simp only at h
      split_ifs at h with ha hb <;> simp at h
      obtain ⟨hn, hm⟩ := h
      refine ⟨r :: rs', rfl, by simp [← hn], ?_⟩
      intro x hx
      have hxl := List.all_eq_true.mp ha x hx
      cases x <;> simp [PV.isList] at hxl
      rename_i l
      refine ⟨l, rfl, ?_⟩
      rcases List.mem_cons.mp hx with e | hx'
      · rw [← e] at hm; simpa [pvLen] using hm
      · have := List.all_eq_true.mp hb _ hx'
        simp [pvLen] at this; rw [← hm]; exact this
  | _ => simp at h

/-- what an accepted table looks like: as many rows as vi entries, every row as long as the io axis -/
theorem tableRows_ok {vi zz : PV α} {nio : Nat} {z : String} {rows : List (List α)}
    (h : tableRows vi zz nio z = .ok rows) :
    ∃ lv, vi = .list lv ∧ rows.length = lv.length ∧ ∀ row ∈ rows, row.length = nio := by
  unfold tableRows at h
  obtain ⟨zsh, hsh, h⟩ := ex_bind_eq_ok h
  cases vi with
  | list lv =>
    cases zsh with
    | none => simp at h
    | some sh =>
      obtain ⟨n, m?⟩ := sh
      cases m? with
      | none =>
        simp only at h
        by_cases h1 : (lv.length != n) = true
        · rw [if_pos h1] at h; simp at h
        · rw [if_neg h1] at h; simp at h
      | some m =>
        simp only at h
        by_cases h1 : (lv.length != n) = true
        · rw [if_pos h1] at h; simp at h
        · rw [if_neg h1] at h
          by_cases h2 : (nio != m) = true
          · rw [if_pos h2] at h; simp at h
          · rw [if_neg h2] at h
            simp only [bne_iff_ne, ne_eq, not_not] at h1 h2
            obtain ⟨rs, rfl, hn, hall⟩ := tableShape_some hsh
            simp only at h
            refine ⟨lv, rfl, by rw [mapM_ok_length h, hn, h1], ?_⟩
            intro row hrow
            obtain ⟨x, hx, ex⟩ := mapM_ok_mem h row hrow
            obtain ⟨l, rfl, hl⟩ := hall x hx
            obtain ⟨l', e, hl'⟩ := numList_ok ex
            cases e
            rw [hl', hl, h2]
  | _ => simp at h

/-- inversion of `mkTable`: what is known about an accepted table -/
theorem mkTable_ok {d : List (String × PV α)} {z : String} {chk : List α → Except Err Unit}
    {p : Param α} {vals : List α} (h : mkTable d z chk = .ok (p, vals)) :
    ∃ ios rows, (ios.map nabs).Pairwise (· < ·) ∧ chk vals = .ok () ∧ vals = rows.flatten ∧
      (∀ row ∈ rows, row.length = ios.length) ∧
      ((rows.length = 1 ∧ p = .tab1 ios (rows.headD [])) ∨
       (∃ vis, rows.length = vis.length ∧ 2 ≤ ios.length ∧ 2 ≤ vis.length ∧
          p = .tab2 ios vis rows (boolGrid (d.lookup "__diag")))) := by
  unfold mkTable at h
  cases hvi : d.lookup "vi" <;> cases hio : d.lookup "io" <;> cases hz : d.lookup z <;>
    simp only [hvi, hio, hz, ex_throw] at h <;> try (simp at h; done)
  rename_i vi io zz
  obtain ⟨ios, hios, h⟩ := ex_bind_eq_ok h
  by_cases hinc : (!strictlyIncreasing (ios.map nabs)) = true
  · rw [if_pos hinc] at h; simp at h
  · rw [if_neg hinc] at h
    simp only [Bool.not_eq_true', Bool.not_eq_false] at hinc
    obtain ⟨rows, hrows, h⟩ := ex_bind_eq_ok h
    obtain ⟨u, hchk, h⟩ := ex_bind_eq_ok h
    obtain ⟨lv, hlv, hlen, hcols⟩ := tableRows_ok hrows
    by_cases h1 : (rows.length == 1) = true
    · rw [if_pos h1] at h
      simp only [ex_pure, Except.ok.injEq, Prod.mk.injEq] at h
      obtain ⟨rfl, rfl⟩ := h
      exact ⟨ios, rows, strictlyIncreasing_pairwise hinc, hchk, rfl, hcols, Or.inl ⟨by simpa using h1, rfl⟩⟩
    · rw [if_neg h1] at h
      obtain ⟨vis, hvis, h⟩ := ex_bind_eq_ok h
      by_cases h2 : ios.isEmpty = true
      · rw [if_pos h2] at h; simp at h
      · rw [if_neg h2] at h
        by_cases h3 : (allSame ios || allSame vis) = true
        · rw [if_pos h3] at h; simp at h
        · rw [if_neg h3] at h
          simp only [ex_pure, Except.ok.injEq, Prod.mk.injEq] at h
          obtain ⟨rfl, rfl⟩ := h
          simp only [Bool.or_eq_true, not_or, Bool.not_eq_true] at h3
          obtain ⟨lv', e, hl'⟩ := numList_ok hvis
          rw [hlv] at e; cases e
          exact ⟨ios, rows, strictlyIncreasing_pairwise hinc, hchk, rfl, hcols,
            Or.inr ⟨vis, by rw [hlen, hl'], allSame_false_length h3.1, allSame_false_length h3.2, rfl⟩⟩

/-- a failing range check fails an otherwise well-formed table with the same error -/
theorem mkTable_chk_error {d : List (String × PV α)} {z : String} {chk : List α → Except Err Unit}
    {p : Param α} {vals : List α} (h : mkTable d z (fun _ => pure ()) = .ok (p, vals)) {e : Err}
    (hc : chk vals = .error e) : mkTable d z chk = .error e := by
  obtain ⟨ios0, rows0, _, _, hv0, _⟩ := mkTable_ok h
  unfold mkTable at h ⊢
  cases hvi : d.lookup "vi" <;> cases hio : d.lookup "io" <;> cases hz : d.lookup z <;>
    simp only [hvi, hio, hz, ex_throw] at h ⊢ <;> try (simp at h; done)
  rename_i vi io zz
  obtain ⟨ios, hios, h⟩ := ex_bind_eq_ok h
  rw [hios]
  simp only [ex_bind_ok]
  by_cases hinc : (!strictlyIncreasing (ios.map nabs)) = true
  · rw [if_pos hinc] at h; simp at h
  · rw [if_neg hinc] at h ⊢
    obtain ⟨rows, hrows, h⟩ := ex_bind_eq_ok h
    rw [hrows]
    simp only [ex_bind_ok, ex_pure] at h ⊢
    have hv : vals = rows.flatten := by
      by_cases h1 : (rows.length == 1) = true
      · rw [if_pos h1] at h; simp at h; exact h.2.symm
      · rw [if_neg h1] at h
        obtain ⟨vis, _, h⟩ := ex_bind_eq_ok h
        by_cases h2 : ios.isEmpty = true
        · rw [if_pos h2] at h; simp at h
        · rw [if_neg h2] at h
          by_cases h3 : (allSame ios || allSame vis) = true
          · rw [if_pos h3] at h; simp at h
          · rw [if_neg h3] at h; simp at h; exact h.2.symm
    rw [← hv, hc]
    rfl

/-! ### rejections at table level -/

/-- the table is refused with a `ValueError` -/
def TableRejects (r : Except Err (Param α × List α)) : Prop := ∃ e, r = .error e ∧ e.cls = "ValueError"

theorem mkTable_missing_key (d : List (String × PV α)) (z : String) (chk : List α → Except Err Unit)
    (h : d.lookup "vi" = none ∨ d.lookup "io" = none ∨ d.lookup z = none) : TableRejects (mkTable d z chk) := by
  unfold mkTable
  refine ⟨.value ("interpolation data must contain vi, io and " ++ z), ?_, rfl⟩
  rcases h with h | h | h
  · simp [h]
  · cases d.lookup "vi" <;> simp [h]
  · cases d.lookup "vi" <;> cases d.lookup "io" <;> simp [h]

theorem mkTable_io_not_increasing {d : List (String × PV α)} {z : String} (chk : List α → Except Err Unit)
    {vi zz : PV α} {l : List (PV α)} {ios : List α}
    (hvi : d.lookup "vi" = some vi) (hio : d.lookup "io" = some (.list l)) (hz : d.lookup z = some zz)
    (hl : l.mapM (numArg "io") = .ok ios) (h : ¬ (ios.map nabs).Pairwise (· < ·)) :
    TableRejects (mkTable d z chk) := by
  unfold mkTable
  simp only [hvi, hio, hz, ioAxis, hl, ex_bind_ok]
  have : strictlyIncreasing (ios.map nabs) = false := by
    cases hs : strictlyIncreasing (ios.map nabs)
    · rfl
    · exact absurd (strictlyIncreasing_pairwise hs) h
  simp only [this, Bool.not_false, if_true, ex_throw]
  exact ⟨_, rfl, rfl⟩

theorem tableRows_shape_mismatch {lv rs : List (PV α)} {nio : Nat} (z : String) (hne : rs ≠ [])
    (hall : ∀ x ∈ rs, ∃ l, x = PV.list l)
    (h : rs.length ≠ lv.length ∨ ∃ x ∈ rs, ∃ l, x = PV.list l ∧ l.length ≠ nio) :
    ∃ e, tableRows (.list lv) (.list rs) nio z = .error e ∧ e.cls = "ValueError" := by
  unfold tableRows tableShape
  cases rs with
  | nil => exact absurd rfl hne
  | cons r rs' =>
    have hlist : ((r :: rs').all PV.isList) = true := by
      rw [List.all_eq_true]; intro x hx
      obtain ⟨l, rfl⟩ := hall x hx; rfl
    simp only [hlist, if_true]
    by_cases hsame : (rs'.all fun x => pvLen x == pvLen r) = true
    · simp only [hsame, if_true, ex_pure, ex_bind_ok]
      by_cases h1 : (lv.length != rs'.length + 1) = true
      · rw [if_pos h1]; exact ⟨_, rfl, rfl⟩
      · rw [if_neg h1]
        have h1' : lv.length = rs'.length + 1 := by simpa using h1
        rcases h with h | ⟨x, hx, l, rfl, hl⟩
        · exact absurd h1'.symm (by simpa using h)
        · have hm : pvLen r = l.length := by
            rcases List.mem_cons.mp hx with e | hx'
            · rw [← e]; rfl
            · have := List.all_eq_true.mp hsame _ hx'
              simp [pvLen] at this; exact this.symm
          have h2 : (nio != pvLen r) = true := by
            rw [hm]; simpa using (Ne.symm hl)
          rw [if_pos h2]; exact ⟨_, rfl, rfl⟩
    · simp only [hsame, Bool.false_eq_true, if_false, ex_throw, ex_bind_error]
      exact ⟨_, rfl, rfl⟩

theorem mkTable_shape_mismatch {d : List (String × PV α)} {z : String} (chk : List α → Except Err Unit)
    {l lv rs : List (PV α)} {ios : List α}
    (hvi : d.lookup "vi" = some (.list lv)) (hio : d.lookup "io" = some (.list l))
    (hz : d.lookup z = some (.list rs)) (hl : l.mapM (numArg "io") = .ok ios)
    (hne : rs ≠ []) (hall : ∀ x ∈ rs, ∃ l, x = PV.list l)
    (h : rs.length ≠ lv.length ∨ ∃ x ∈ rs, ∃ l, x = PV.list l ∧ l.length ≠ ios.length) :
    TableRejects (mkTable d z chk) := by
  unfold mkTable
  simp only [hvi, hio, hz, ioAxis, hl, ex_bind_ok]
  by_cases hinc : (!strictlyIncreasing (ios.map nabs)) = true
  · rw [if_pos hinc]; exact ⟨_, rfl, rfl⟩
  · rw [if_neg hinc]
    obtain ⟨e, he, hc⟩ := tableRows_shape_mismatch (nio := ios.length) z hne hall h
    rw [he]; exact ⟨e, rfl, hc⟩

theorem mkTable_ig_negative {d : List (String × PV α)} {p : Param α} {vals : List α}
    (h : mkTable d "ig" (fun _ => pure ()) = .ok (p, vals)) (hneg : ∃ v ∈ vals, v < 0) :
    TableRejects (mkTable d "ig" chkIg) := by
  cases hc : chkIg vals with
  | error e => exact ⟨e, mkTable_chk_error h hc, chkIg_error hc⟩
  | ok u =>
    obtain ⟨v, hv, hlt⟩ := hneg
    exact absurd ((chkIg_ok hc).2 v hv) (not_le.mpr hlt)

theorem mkTable_eff_range {d : List (String × PV α)} {p : Param α} {vals : List α}
    (h : mkTable d "eff" (fun _ => pure ()) = .ok (p, vals)) (hbad : ∃ v ∈ vals, v ≤ 0 ∨ 1 < v) :
    TableRejects (mkTable d "eff" chkEff) := by
  cases hc : chkEff vals with
  | error e => exact ⟨e, mkTable_chk_error h hc, chkEff_error hc⟩
  | ok u =>
    obtain ⟨v, hv, hb⟩ := hbad
    have := (chkEff_ok hc).2 v hv
    rcases hb with hb | hb
    · exact absurd this.1 (not_lt.mpr hb)
    · exact absurd this.2 (not_le.mpr hb)

/-! ### limits -/

/-- the value stored for a limits key is a list of two numbers -/
def GoodLimit (v : PV α) : Prop := ∃ a b x y, v = .list [a, b] ∧ a.num? = some x ∧ b.num? = some y

/-- one step of `_check_limits` -/
def limStep (d : List (String × PV α)) (acc : List (String × (α × α))) (key : String) :
    Except Err (List (String × (α × α))) :=
  match d.lookup key with
  | none => pure acc
  | some (.list [a, b]) =>
    (match a.num?, b.num? with
     | some x, some y => pure (acc ++ [(key, (x, y))])
     | _, _ => .error (.value ("\"" ++ key ++ "\" value is not a list of two numbers!")))
  | some (.list _) => .error (.value ("\"" ++ key ++ "\" value is not a list of two numbers!"))
  | some _ => .error (.value ("\"" ++ key ++ "\" value is not a list!"))

theorem checkLimits_dict (d : List (String × PV α)) :
    checkLimits (.dict d) = allLimitKeys.foldlM (limStep d) [] := rfl

theorem limStep_error_cls {d : List (String × PV α)} {acc : List (String × (α × α))} {key : String} {e : Err}
    (h : limStep d acc key = .error e) : e.cls = "ValueError" := by
  unfold limStep at h
  split at h
  · simp at h
  · split at h
    · simp at h
    · simp at h; subst h; rfl
  · simp at h; subst h; rfl
  · simp at h; subst h; rfl

theorem limStep_bad {d : List (String × PV α)} {key : String} {v : PV α} (hl : d.lookup key = some v)
    (hb : ¬ GoodLimit v) (acc : List (String × (α × α))) : ∃ e, limStep d acc key = .error e := by
  unfold limStep
  rw [hl]
  split
  · rename_i h; simp at h
  · rename_i a b h
    simp only [Option.some.injEq] at h
    split
    · rename_i x y hx hy
      exact absurd ⟨a, b, x, y, h, hx, hy⟩ hb
    · exact ⟨_, rfl⟩
  · exact ⟨_, rfl⟩
  · exact ⟨_, rfl⟩

theorem foldlM_limStep_error_cls {d : List (String × PV α)} : ∀ {keys : List String}
    {acc : List (String × (α × α))} {e : Err}, keys.foldlM (limStep d) acc = .error e → e.cls = "ValueError"
  | [], acc, e, h => by simp [List.foldlM_nil] at h
  | k :: ks, acc, e, h => by
    rw [List.foldlM_cons] at h
    cases hs : limStep d acc k with
    | error e' => rw [hs] at h; simp at h; subst h; exact limStep_error_cls hs
    | ok acc' => rw [hs] at h; exact foldlM_limStep_error_cls (by simpa using h)

theorem foldlM_limStep_bad {d : List (String × PV α)} {key : String} {v : PV α} (hl : d.lookup key = some v)
    (hb : ¬ GoodLimit v) : ∀ {keys : List String} (acc : List (String × (α × α))), key ∈ keys →
    ∃ e, keys.foldlM (limStep d) acc = .error e
  | [], _, h => by simp at h
  | k :: ks, acc, h => by
    rw [List.foldlM_cons]
    cases hs : limStep d acc k with
    | error e' => exact ⟨e', rfl⟩
    | ok acc' =>
      rcases List.mem_cons.mp h with rfl | h'
      · obtain ⟨e, he⟩ := limStep_bad hl hb acc
        rw [hs] at he; simp at he
      · simpa using foldlM_limStep_bad hl hb acc' h'

/-- **malformed limits**: a limits dict with a LIMITS_DEFAULT key whose value is not a two-number list is
    refused with a ValueError -/
theorem checkLimits_malformed {d : List (String × PV α)} {key : String} {v : PV α}
    (hk : key ∈ allLimitKeys) (hl : d.lookup key = some v) (hb : ¬ GoodLimit v) :
    ∃ e, checkLimits (.dict d) = .error e ∧ e.cls = "ValueError" := by
  rw [checkLimits_dict]
  obtain ⟨e, he⟩ := foldlM_limStep_bad hl hb [] hk
  exact ⟨e, he, foldlM_limStep_error_cls he⟩

/-! ### the parameter that is built -/

theorem mkIg_ok {ig : PV α} {p : Param α} (h : mkIg ig = .ok p) :
    (∃ v, ig.num? = some v ∧ p = .const |v|) ∨
    (∃ d vals, ig = .dict d ∧ mkTable d "ig" chkIg = .ok (p, vals)) := by
  unfold mkIg at h
  cases ig with
  | dict d =>
    right
    simp only at h
    obtain ⟨pv, hpv, h⟩ := ex_bind_eq_ok h
    obtain ⟨p', vals⟩ := pv
    simp at h; subst h
    exact ⟨d, vals, rfl, hpv⟩
  | _ =>
    left
    simp only at h
    obtain ⟨v, hv, h⟩ := ex_bind_eq_ok h
    obtain ⟨w, hw, rfl⟩ := absArg_ok hv
    simp at h
    exact ⟨w, hw, h.symm⟩

theorem interp1Aux_nonneg (ps : List (α × α)) (hb : ∀ p ∈ ps, 0 ≤ p.2) (x : α) : 0 ≤ interp1Aux ps x := by
  cases ps with
  | nil => simp [interp1Aux]
  | cons p rest =>
    have hhi : ∀ q ∈ p :: rest, (0 : α) ≤ q.2 ∧ q.2 ≤ ((p :: rest).map (·.2)).foldl max 0 := by
      intro q hq
      refine ⟨hb q hq, ?_⟩
      have := (le_foldl_nmax ((p :: rest).map (·.2)) 0).2 q.2 (List.mem_map.mpr ⟨q, hq, rfl⟩)
      have e : ((p :: rest).map (·.2)).foldl nmax 0 = ((p :: rest).map (·.2)).foldl max 0 := by
        congr 1; funext a b; exact nmax_eq_max a b
      rwa [e] at this
    exact (interp1Aux_bounds (p :: rest) 0 _ hhi (by simp) x).1

/-- a 1-D table returns non-negative values for EVERY query, whatever its axis looks like -/
theorem tab1_nonneg (xs fs : List α) : (Param.tab1 xs fs).Nonneg := by
  intro x y
  show 0 ≤ interp1 xs fs x
  unfold interp1
  apply interp1Aux_nonneg
  intro p hp
  have := (List.of_mem_zip (a := p.1) (b := p.2) hp).2
  simp only [List.mem_map, nabs_eq_abs] at this
  obtain ⟨v, _, e⟩ := this
  rw [← e]; exact abs_nonneg v

theorem const_nonneg {c : α} (h : 0 ≤ c) : (Param.const c).Nonneg := fun _ _ => h

/-- a well-conditioned 2-D table returns non-negative values for every query and every diagonal choice -/
theorem tab2_nonneg {xs ys : List α} {f : List (List α)} (g : Grid xs ys f) (diag : List (List Bool)) :
    (Param.tab2 xs ys f diag).Nonneg := by
  intro x y
  show 0 ≤ interp2 xs ys f diag x y
  have mx := clamp_mem (headD_le_getLastD g.xs_inc) x
  have my := clamp_mem (headD_le_getLastD g.ys_inc) y
  obtain ⟨k, hk, a, b⟩ := exists_cell g.xs_inc g.nx mx.1 mx.2
  obtain ⟨r, hr, c, d⟩ := exists_cell g.ys_inc g.ny my.1 my.2
  rw [interp2_eq g, interp2In_eq_cellAt _ diag g.xs_inc g.ys_inc hk hr a b c d]
  have rx := rel_mem g.xs_inc hk a b
  have ry := rel_mem g.ys_inc hr c d
  unfold cellAt
  simp only [getD2_absF]
  exact (cellVal_bounds _ _ _ _ _ _ _ 0 (max (max _ _) (max _ _)) rx.1 rx.2 ry.1 ry.2
    ⟨abs_nonneg _, le_trans (le_max_left _ _) (le_max_left _ _)⟩
    ⟨abs_nonneg _, le_trans (le_max_right _ _) (le_max_left _ _)⟩
    ⟨abs_nonneg _, le_trans (le_max_left _ _) (le_max_right _ _)⟩
    ⟨abs_nonneg _, le_trans (le_max_right _ _) (le_max_right _ _)⟩).1

/-- 1-D efficiency table with all entries in (0, 1]: every lookup is in (0, 1] -/
theorem tab1_unit {xs fs : List α} (hl : xs.length = fs.length) (hne : xs ≠ [])
    (hf : ∀ v ∈ fs, 0 < v ∧ v ≤ 1) (x y : α) :
    0 < (Param.tab1 xs fs).interp x y ∧ (Param.tab1 xs fs).interp x y ≤ 1 := by
  show 0 < interp1 xs fs x ∧ interp1 xs fs x ≤ 1
  unfold interp1
  have hfs : fs ≠ [] := by intro e; rw [e] at hl; exact hne (List.length_eq_zero_iff.mp hl)
  obtain ⟨m, hm⟩ : ∃ m, listMin fs = some m := by
    cases fs with
    | nil => exact absurd rfl hfs
    | cons a l => exact ⟨_, rfl⟩
  have hmpos : 0 < m := by
    -- the minimum is one of the entries or bounded below by positivity of all
    cases fs with
    | nil => exact absurd rfl hfs
    | cons a l =>
      simp only [listMin, Option.some.injEq] at hm
      subst hm
      have : ∀ (l : List α) (b : α), 0 < b → (∀ v ∈ l, 0 < v) → 0 < l.foldl nmin b := by
        intro l; induction l with
        | nil => intro b hb _; simpa using hb
        | cons c l ih =>
          intro b hb hl
          simp only [List.foldl_cons, nmin_eq_min]
          exact ih _ (lt_min hb (hl c (by simp))) (fun v hv => hl v (by simp [hv]))
      exact this l a (hf a (by simp)).1 (fun v hv => (hf v (by simp [hv])).1)
  have hb : ∀ p ∈ (xs.map nabs).zip (fs.map nabs), m ≤ p.2 ∧ p.2 ≤ 1 := by
    intro p hp
    have := (List.of_mem_zip (a := p.1) (b := p.2) hp).2
    simp only [List.mem_map, nabs_eq_abs] at this
    obtain ⟨v, hv, e⟩ := this
    rw [← e, abs_of_pos (hf v hv).1]
    exact ⟨listMin_le hm v hv, (hf v hv).2⟩
  have hne' : (xs.map nabs).zip (fs.map nabs) ≠ [] := by
    intro e
    have : ((xs.map nabs).zip (fs.map nabs)).length = 0 := by rw [e]; rfl
    simp [hl] at this
    exact hfs this
  obtain ⟨b1, b2⟩ := interp1Aux_bounds _ m 1 hb hne' (nabs x)
  exact ⟨lt_of_lt_of_le hmpos b1, b2⟩

/-- well-conditioned 2-D efficiency table with all entries in (0, 1]: every lookup is in (0, 1] -/
theorem tab2_unit {xs ys : List α} {f : List (List α)} (g : Grid xs ys f) (diag : List (List Bool))
    (hcols : ∀ row ∈ f, row.length = xs.length) (hf : ∀ row ∈ f, ∀ v ∈ row, 0 < v ∧ v ≤ 1) (x y : α) :
    0 < (Param.tab2 xs ys f diag).interp x y ∧ (Param.tab2 xs ys f diag).interp x y ≤ 1 := by
  show 0 < interp2 xs ys f diag x y ∧ interp2 xs ys f diag x y ≤ 1
  have mx := clamp_mem (headD_le_getLastD g.xs_inc) x
  have my := clamp_mem (headD_le_getLastD g.ys_inc) y
  obtain ⟨k, hk, a, b⟩ := exists_cell g.xs_inc g.nx mx.1 mx.2
  obtain ⟨r, hr, c, d⟩ := exists_cell g.ys_inc g.ny my.1 my.2
  have hv : ∀ r' k', r' < ys.length → k' < xs.length → 0 < getD2 f r' k' ∧ getD2 f r' k' ≤ 1 := by
    intro r' k' h1 h2
    have h1' : r' < f.length := g.rows ▸ h1
    unfold getD2
    rw [getD_eq_getElem' _ _ h1']
    have hrow := hcols _ (List.getElem_mem h1')
    rw [getD_eq_getElem' _ _ (hrow ▸ h2)]
    exact hf _ (List.getElem_mem h1') _ (List.getElem_mem _)
  rw [interp2_eq g, interp2In_eq_cellAt _ diag g.xs_inc g.ys_inc hk hr a b c d]
  have rx := rel_mem g.xs_inc hk a b
  have ry := rel_mem g.ys_inc hr c d
  have c00 := hv r k (by omega) (by omega)
  have c10 := hv r (k + 1) (by omega) hk
  have c01 := hv (r + 1) k hr (by omega)
  have c11 := hv (r + 1) (k + 1) hr hk
  unfold cellAt
  simp only [getD2_absF]
  rw [abs_of_pos c00.1, abs_of_pos c10.1, abs_of_pos c01.1, abs_of_pos c11.1]
  set lo := min (min (getD2 f r k) (getD2 f r (k + 1))) (min (getD2 f (r + 1) k) (getD2 f (r + 1) (k + 1)))
  have hlo : 0 < lo := lt_min (lt_min c00.1 c10.1) (lt_min c01.1 c11.1)
  obtain ⟨b1, b2⟩ := cellVal_bounds ((diag.getD r []).getD k true) _ _ _ _ _ _ lo 1 rx.1 rx.2 ry.1 ry.2
    ⟨le_trans (min_le_left _ _) (min_le_left _ _), c00.2⟩
    ⟨le_trans (min_le_left _ _) (min_le_right _ _), c10.2⟩
    ⟨le_trans (min_le_right _ _) (min_le_left _ _), c01.2⟩
    ⟨le_trans (min_le_right _ _) (min_le_right _ _), c11.2⟩
  exact ⟨lt_of_lt_of_le hlo b1, b2⟩

/-! ### 2-D tables as the constructors accept them (any row order, any signs) -/

theorem exists_upper (vals : List α) : ∃ m, ∀ v ∈ vals, |v| ≤ m := by
  refine ⟨(vals.map (fun v => |v|)).foldl nmax 0, ?_⟩
  intro v hv
  exact (le_foldl_nmax (vals.map (fun v => |v|)) 0).2 |v| (List.mem_map.mpr ⟨v, hv, rfl⟩)

theorem exists_pos_lower {vals : List α} (hne : vals ≠ []) (hpos : ∀ v ∈ vals, 0 < v) :
    ∃ m, 0 < m ∧ ∀ v ∈ vals, m ≤ v := by
  cases vals with
  | nil => exact absurd rfl hne
  | cons a l =>
    refine ⟨l.foldl nmin a, ?_, ?_⟩
    · have : ∀ (l : List α) (b : α), 0 < b → (∀ v ∈ l, 0 < v) → 0 < l.foldl nmin b := by
        intro l; induction l with
        | nil => intro b hb _; simpa using hb
        | cons c l ih =>
          intro b hb hl
          simp only [List.foldl_cons, nmin_eq_min]
          exact ih _ (lt_min hb (hl c (by simp))) (fun v hv => hl v (by simp [hv]))
      exact this l a (hpos a (by simp)) (fun v hv => hpos v (by simp [hv]))
    · intro v hv
      rcases List.mem_cons.mp hv with rfl | hv
      · exact (foldl_nmin_le l _).1
      · exact (foldl_nmin_le l _).2 v hv

/-- a rectangular 2-D table with an io axis increasing in magnitude returns non-negative values for every
    query, every diagonal choice, whatever the order and the signs of its vi rows -/
theorem tab2_nonneg_any (xs ys : List α) (f : List (List α)) (diag : List (List Bool))
    (hxs : (xs.map nabs).Pairwise (· < ·)) (hx2 : 2 ≤ xs.length) (hy2 : 2 ≤ ys.length)
    (hrows : f.length = ys.length) (hcols : ∀ row ∈ f, row.length = xs.length) :
    (Param.tab2 xs ys f diag).Nonneg := by
  intro x y
  obtain ⟨m, hm⟩ := exists_upper f.flatten
  exact (interp2_bounds xs ys f diag 0 m hxs hx2 hy2 hrows hcols
    (fun row hr v hv => ⟨abs_nonneg v, hm v (List.mem_flatten.mpr ⟨row, hr, hv⟩)⟩) x y).1

/-- … and values in (0, 1] when all its entries are in (0, 1] -/
theorem tab2_unit_any (xs ys : List α) (f : List (List α)) (diag : List (List Bool))
    (hxs : (xs.map nabs).Pairwise (· < ·)) (hx2 : 2 ≤ xs.length) (hy2 : 2 ≤ ys.length)
    (hrows : f.length = ys.length) (hcols : ∀ row ∈ f, row.length = xs.length)
    (hne : f.flatten ≠ []) (hf : ∀ v ∈ f.flatten, 0 < v ∧ v ≤ 1) (x y : α) :
    0 < (Param.tab2 xs ys f diag).interp x y ∧ (Param.tab2 xs ys f diag).interp x y ≤ 1 := by
  obtain ⟨m, hm0, hm⟩ := exists_pos_lower hne (fun v hv => (hf v hv).1)
  have := interp2_bounds xs ys f diag m 1 hxs hx2 hy2 hrows hcols
    (fun row hr v hv => by
      have hv' := List.mem_flatten.mpr ⟨row, hr, hv⟩
      rw [abs_of_pos (hf v hv').1]
      exact ⟨hm v hv', (hf v hv').2⟩) x y
  exact ⟨lt_of_lt_of_le hm0 this.1, this.2⟩

end SysLoss
