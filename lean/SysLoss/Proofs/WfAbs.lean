/-
  Proofs/WfAbs — for a sane state, C14's clauses on the abstract structure (`WF (abs s)`, Spec/Structure) say
  exactly what the raw invariant `WFr s` says.
-/
import SysLoss.Proofs.WfDel

set_option linter.unusedSectionVars false
set_option linter.unusedSimpArgs false
set_option linter.unusedVariables false

namespace SysLoss
section
variable {π ν : Type} [CompLike π]

theorem filterMap_eq_map_of_some {α β : Type} {f : α → Option β} {g : α → β} {l : List α}
    (h : ∀ x ∈ l, f x = some (g x)) : l.filterMap f = l.map g := by
  induction l with
  | nil => rfl
  | cons x t ih =>
    rw [List.filterMap_cons, h x (by simp), List.map_cons, ih (fun y hy => h y (List.mem_cons_of_mem _ hy))]

theorem predInfo_length {s : Sys π ν} (hs : Sane s) (n : Nat) : (s.predInfo n).length = (s.preds n).length := by
  unfold Sys.predInfo
  have : ∀ q ∈ s.preds n, ((s.payload? q).map fun c => (nameOfC c, kindOfC c)) =
      some (match s.payload? q with | some c => (nameOfC c, kindOfC c) | none => ("", Kind.source)) := by
    intro q hq
    obtain ⟨c, hc⟩ := payload?_of_mem_ids (preds_live hs hq).1
    simp [hc]
  rw [filterMap_eq_map_of_some this, List.length_map]

theorem mem_predInfo {s : Sys π ν} {n : Nat} {pi : String × Kind} :
    pi ∈ s.predInfo n ↔ ∃ q ∈ s.preds n, ∃ c, s.payload? q = some c ∧ pi = (nameOfC c, kindOfC c) := by
  unfold Sys.predInfo
  simp only [List.mem_filterMap, Option.map_eq_some_iff]
  constructor
  · rintro ⟨q, hq, c, hc, rfl⟩; exact ⟨q, hq, c, hc, rfl⟩
  · rintro ⟨q, hq, c, hc, rfl⟩; exact ⟨q, hq, c, hc, rfl⟩

theorem abs_names (s : Sys π ν) : s.abs.names = s.names := by
  simp [AStruct.names, Sys.abs, Sys.names, Sys.absEntry, List.map_map, Function.comp]

theorem abs_railNames (s : Sys π ν) : s.abs.railNames = s.railNames := rfl

theorem mem_abs_comps {s : Sys π ν} {e : AEntry π} : e ∈ s.abs.comps ↔ ∃ p ∈ s.comps, e = s.absEntry p := by
  simp only [Sys.abs, List.mem_map]
  constructor
  · rintro ⟨p, hp, rfl⟩; exact ⟨p, hp, rfl⟩
  · rintro ⟨p, hp, rfl⟩; exact ⟨p, hp, rfl⟩

theorem nameOf_of_mem {s : Sys π ν} (hs : Sane s) {p : Nat × π} (hp : p ∈ s.comps) :
    s.nameOf p.1 = some (nameOfC p.2) := by
  unfold Sys.nameOf; rw [payload?_of_mem hs hp]; rfl

theorem wf_abs_of_wfr {s : Sys π ν} (hs : Sane s) (hw : WFr s) : s.abs.WF := by
  refine ⟨?_, ?_, ?_, ?_, ?_, ?_, ?_, ?_, ?_, ?_⟩
  · unfold AStruct.namesDistinct; rw [abs_names]; exact hw.names_nodup
  · unfold AStruct.railsDistinct; rw [abs_railNames]; exact hw.rails_nodup
  · unfold AStruct.namesRailsDisjoint; rw [abs_names, abs_railNames]; exact hw.disjoint
  · intro e he
    obtain ⟨p, hp, rfl⟩ := mem_abs_comps.mp he
    have := hw.roots p hp
    show s.predInfo p.1 = [] ↔ kindOfC p.2 = .source
    rw [← this]
    constructor
    · intro h; have := predInfo_length hs p.1; rw [h] at this; exact List.eq_nil_of_length_eq_zero this.symm
    · intro h; have := predInfo_length hs p.1; rw [h] at this; exact List.eq_nil_of_length_eq_zero this
  · intro e he pi hpi
    obtain ⟨p, hp, rfl⟩ := mem_abs_comps.mp he
    obtain ⟨q, hq, c, hc, rfl⟩ := mem_predInfo.mp hpi
    exact accepts_not_load (hw.links (q, p.1) (mem_preds.mp hq) c p.2 hc (payload?_of_mem hs hp))
  · intro e he hm
    obtain ⟨p, hp, rfl⟩ := mem_abs_comps.mp he
    have h2 : 1 < (s.predInfo p.1).length := hm
    rw [predInfo_length hs] at h2
    exact hw.multi p hp h2
  · unfold AStruct.oneMux
    have : (s.abs.comps.filter fun e => decide (e.kind = .pmux)).length =
        (s.comps.filter fun p => decide (kindOfC p.2 = .pmux)).length := by
      simp only [Sys.abs, List.filter_map, List.length_map]
      rfl
    rw [this]; exact hw.one_mux
  · intro e he pi hpi
    obtain ⟨p, hp, rfl⟩ := mem_abs_comps.mp he
    obtain ⟨q, hq, c, hc, rfl⟩ := mem_predInfo.mp hpi
    exact hw.links (q, p.1) (mem_preds.mp hq) c p.2 hc (payload?_of_mem hs hp)
  · unfold AStruct.registriesExact AStruct.sameKeys
    rw [abs_names]
    refine ⟨⟨hw.nodes_keys, fun x hx => (names_eq_nodes_keys hw x).mpr hx⟩,
      ⟨fun x hx => (hw.groups_keys x).mp hx, fun x hx => (hw.groups_keys x).mpr hx⟩,
      ⟨fun x hx => (hw.rails_keys x).mp hx, fun x hx => (hw.rails_keys x).mpr hx⟩,
      ⟨fun x hx => (hw.pconf_keys x).mp hx, fun x hx => (hw.pconf_keys x).mpr hx⟩, ?_⟩
    intro e he
    obtain ⟨p, hp, rfl⟩ := mem_abs_comps.mp he
    simp [Sys.absEntry, hw.nodes_get p hp]
  · intro e he hm
    obtain ⟨p, hp, rfl⟩ := mem_abs_comps.mp he
    have h2 : 1 < (s.predInfo p.1).length := hm
    rw [predInfo_length hs] at h2
    obtain ⟨l, hl, hl', hlnd⟩ := hw.inputs p hp h2
    have hpar : (s.absEntry p).parents = l.map fun o => o.bind s.nameOf := by simp [Sys.absEntry, hl]
    constructor
    · intro x hx
      rw [hpar] at hx
      obtain ⟨o, ho, rfl⟩ := List.mem_map.mp hx
      obtain ⟨q, hq, rfl⟩ := hl' o ho
      obtain ⟨c, hc⟩ := payload?_of_mem_ids (preds_live hs hq).1
      refine ⟨nameOfC c, by simp [Sys.nameOf, hc], ?_⟩
      exact List.mem_map.mpr ⟨(nameOfC c, kindOfC c), mem_predInfo.mpr ⟨q, hq, c, hc, rfl⟩, rfl⟩
    · rw [hpar]
      apply nodup_map_on _ hlnd
      intro o1 h1 o2 h2' heq
      obtain ⟨q1, hq1, rfl⟩ := hl' o1 h1
      obtain ⟨q2, hq2, rfl⟩ := hl' o2 h2'
      obtain ⟨c1, hc1⟩ := payload?_of_mem_ids (preds_live hs hq1).1
      obtain ⟨c2, hc2⟩ := payload?_of_mem_ids (preds_live hs hq2).1
      simp only [Option.bind_some, Sys.nameOf, hc1, hc2, Option.map_some, Option.some.injEq] at heq
      have := name_inj hw.names_nodup (mem_of_payload? hc1) (mem_of_payload? hc2) heq
      simp only [Prod.mk.injEq] at this
      rw [this.1]

theorem wfr_of_wf_abs {s : Sys π ν} (hs : Sane s) (h : s.abs.WF) : WFr s := by
  obtain ⟨a1, a2, a3, a4, a5, a6, a7, a8, a9, a10⟩ := h
  have hnn : s.names.Nodup := by
    unfold AStruct.namesDistinct at a1; rw [abs_names] at a1; exact a1
  unfold AStruct.registriesExact AStruct.sameKeys at a9
  rw [abs_names] at a9
  obtain ⟨⟨k1, k1'⟩, ⟨k2, k2'⟩, ⟨k3, k3'⟩, ⟨k4, k4'⟩, k5⟩ := a9
  have hent : ∀ p ∈ s.comps, s.absEntry p ∈ s.abs.comps := fun p hp => mem_abs_comps.mpr ⟨p, hp, rfl⟩
  constructor
  · exact hnn
  · unfold AStruct.railsDistinct at a2; rw [abs_railNames] at a2; exact a2
  · unfold AStruct.namesRailsDisjoint at a3; rw [abs_names, abs_railNames] at a3; exact a3
  · intro p hp
    have := a4 _ (hent p hp)
    have h1 : s.predInfo p.1 = [] ↔ kindOfC p.2 = .source := this
    rw [← h1]
    constructor
    · intro h; have := predInfo_length hs p.1; rw [h] at this; exact List.eq_nil_of_length_eq_zero this
    · intro h; have := predInfo_length hs p.1; rw [h] at this; exact List.eq_nil_of_length_eq_zero this.symm
  · intro p hp hm
    apply a6 _ (hent p hp)
    show 1 < (s.predInfo p.1).length
    rw [predInfo_length hs]; exact hm
  · unfold AStruct.oneMux at a7
    have : (s.abs.comps.filter fun e => decide (e.kind = .pmux)).length =
        (s.comps.filter fun p => decide (kindOfC p.2 = .pmux)).length := by
      simp only [Sys.abs, List.filter_map, List.length_map]
      rfl
    rw [this] at a7; exact a7
  · intro e he pc cc h1 h2
    have hcc := mem_of_payload? h2
    have := a8 _ (hent _ hcc) (nameOfC pc, kindOfC pc)
      (mem_predInfo.mpr ⟨e.1, mem_preds.mpr he, pc, h1, rfl⟩)
    exact this
  · exact k1
  · intro p hp
    have := k5 _ (hent p hp)
    simpa [Sys.absEntry] using this
  · intro x; exact ⟨k2 x, k2' x⟩
  · intro x; exact ⟨k3 x, k3' x⟩
  · intro x; exact ⟨k4 x, k4' x⟩
  · intro p hp hm
    have hm' : 1 < (s.predInfo p.1).length := by rw [predInfo_length hs]; exact hm
    obtain ⟨hin, hnd⟩ := a10 _ (hent p hp) hm'
    cases hl : s.parentsOf p.1 with
    | error e =>
      have : (s.absEntry p).parents = [none] := by simp [Sys.absEntry, hl]
      obtain ⟨q, hq, _⟩ := hin none (by rw [this]; simp)
      simp at hq
    | ok l =>
      have hpar : (s.absEntry p).parents = l.map fun o => o.bind s.nameOf := by simp [Sys.absEntry, hl]
      refine ⟨l, rfl, ?_, ?_⟩
      · intro o ho
        obtain ⟨pn, hpn, hpm⟩ := hin (o.bind s.nameOf) (by rw [hpar]; exact List.mem_map.mpr ⟨o, ho, rfl⟩)
        obtain ⟨pi, hpi, rfl⟩ := List.mem_map.mp hpm
        obtain ⟨q, hq, c, hc, rfl⟩ := mem_predInfo.mp hpi
        cases o with
        | none => simp at hpn
        | some q' =>
          simp only [Option.bind_some, Sys.nameOf, Option.map_eq_some_iff] at hpn
          obtain ⟨c', hc', hn⟩ := hpn
          have := name_inj hnn (mem_of_payload? hc') (mem_of_payload? hc) hn
          simp only [Prod.mk.injEq] at this
          exact ⟨q, hq, by rw [this.1]⟩
      · rw [hpar] at hnd
        exact nodup_of_nodup_map _ hnd

theorem wf_abs_iff {s : Sys π ν} (hs : Sane s) : s.abs.WF ↔ WFr s :=
  ⟨wfr_of_wf_abs hs, wf_abs_of_wfr hs⟩

end
end SysLoss
