/-
  Proofs/Dict — facts about Python dicts as association lists (`dget / dset / ddel / dkeys / dvals` of
  Model/Graph) and two list lemmas used by the reachability argument.
-/
import SysLoss.Model.Graph

set_option linter.unusedSectionVars false
set_option linter.unusedSimpArgs false
set_option linter.unusedVariables false

namespace SysLoss
section
variable {κ β : Type} [DecidableEq κ]

@[simp] theorem dkeys_nil : dkeys ([] : List (κ × β)) = [] := rfl
@[simp] theorem dkeys_cons (p : κ × β) (t : List (κ × β)) : dkeys (p :: t) = p.1 :: dkeys t := rfl
@[simp] theorem dkeys_append (a b : List (κ × β)) : dkeys (a ++ b) = dkeys a ++ dkeys b := by
  simp [dkeys]
@[simp] theorem dvals_nil : dvals ([] : List (κ × β)) = [] := rfl
@[simp] theorem dvals_cons (p : κ × β) (t : List (κ × β)) : dvals (p :: t) = p.2 :: dvals t := rfl
@[simp] theorem dvals_append (a b : List (κ × β)) : dvals (a ++ b) = dvals a ++ dvals b := by
  simp [dvals]

theorem mem_dkeys {d : List (κ × β)} {k : κ} : k ∈ dkeys d ↔ ∃ v, (k, v) ∈ d := by
  simp [dkeys]

theorem mem_dvals {d : List (κ × β)} {v : β} : v ∈ dvals d ↔ ∃ k, (k, v) ∈ d := by
  simp [dvals]

theorem dget_eq_none_iff {d : List (κ × β)} {k : κ} : dget d k = none ↔ k ∉ dkeys d := by
  induction d with
  | nil => simp [dget]
  | cons p t ih =>
    obtain ⟨k', v⟩ := p
    by_cases h : k' = k
    · simp [dget, h]
    · have : ¬ k = k' := fun e => h e.symm
      simp [dget, h, ih, this]

theorem dget_some_mem {d : List (κ × β)} {k : κ} {v : β} (h : dget d k = some v) : (k, v) ∈ d := by
  induction d with
  | nil => simp [dget] at h
  | cons p t ih =>
    obtain ⟨k', v'⟩ := p
    by_cases hk : k' = k
    · simp [dget, hk] at h; simp [hk, h]
    · simp [dget, hk] at h; exact List.mem_cons_of_mem _ (ih h)

theorem dget_some_key {d : List (κ × β)} {k : κ} {v : β} (h : dget d k = some v) : k ∈ dkeys d :=
  mem_dkeys.mpr ⟨v, dget_some_mem h⟩

theorem dget_isSome_iff {d : List (κ × β)} {k : κ} : (∃ v, dget d k = some v) ↔ k ∈ dkeys d := by
  constructor
  · rintro ⟨v, hv⟩; exact dget_some_key hv
  · intro h
    cases hg : dget d k with
    | none => exact absurd h (dget_eq_none_iff.mp hg)
    | some v => exact ⟨v, rfl⟩

theorem dget_of_mem_nodup {d : List (κ × β)} {k : κ} {v : β} (hn : (dkeys d).Nodup) (h : (k, v) ∈ d) :
    dget d k = some v := by
  induction d with
  | nil => simp at h
  | cons p t ih =>
    obtain ⟨k', v'⟩ := p
    simp only [dkeys_cons, List.nodup_cons] at hn
    rcases List.mem_cons.mp h with h | h
    · simp only [Prod.mk.injEq] at h; simp [dget, h.1, h.2]
    · have : k' ≠ k := fun e => hn.1 (e ▸ mem_dkeys.mpr ⟨v, h⟩)
      simp [dget, this, ih hn.2 h]

theorem dget_append {a b : List (κ × β)} {k : κ} :
    dget (a ++ b) k = match dget a k with | some v => some v | none => dget b k := by
  induction a with
  | nil => simp [dget]
  | cons p t ih =>
    obtain ⟨k', v'⟩ := p
    by_cases hk : k' = k <;> simp [dget, hk, ih]

theorem dget_append_of_mem {a b : List (κ × β)} {k : κ} (h : k ∈ dkeys a) : dget (a ++ b) k = dget a k := by
  rw [dget_append]
  obtain ⟨v, hv⟩ := dget_isSome_iff.mpr h
  simp [hv]

theorem dget_append_of_not_mem {a b : List (κ × β)} {k : κ} (h : k ∉ dkeys a) : dget (a ++ b) k = dget b k := by
  rw [dget_append, dget_eq_none_iff.mpr h]

theorem dset_of_not_mem {d : List (κ × β)} {k : κ} {v : β} (h : k ∉ dkeys d) : dset d k v = d ++ [(k, v)] := by
  induction d with
  | nil => rfl
  | cons p t ih =>
    obtain ⟨k', v'⟩ := p
    simp only [dkeys_cons, List.mem_cons, not_or] at h
    have : k' ≠ k := fun e => h.1 e.symm
    simp [dset, this, ih h.2]

theorem dkeys_dset_of_mem {d : List (κ × β)} {k : κ} {v : β} (h : k ∈ dkeys d) : dkeys (dset d k v) = dkeys d := by
  induction d with
  | nil => simp at h
  | cons p t ih =>
    obtain ⟨k', v'⟩ := p
    by_cases hk : k' = k
    · simp [dset, hk]
    · have : k ∈ dkeys t := by
        simp only [dkeys_cons, List.mem_cons] at h
        rcases h with h | h
        · exact absurd h.symm hk
        · exact h
      simp [dset, hk, ih this]

theorem mem_dkeys_dset {d : List (κ × β)} {k x : κ} {v : β} : x ∈ dkeys (dset d k v) ↔ x = k ∨ x ∈ dkeys d := by
  by_cases h : k ∈ dkeys d
  · rw [dkeys_dset_of_mem h]; constructor
    · exact Or.inr
    · rintro (rfl | h') <;> assumption
  · rw [dset_of_not_mem h]; simp [or_comm]

theorem nodup_dkeys_dset {d : List (κ × β)} {k : κ} {v : β} (hn : (dkeys d).Nodup) : (dkeys (dset d k v)).Nodup := by
  by_cases h : k ∈ dkeys d
  · rw [dkeys_dset_of_mem h]; exact hn
  · rw [dset_of_not_mem h, dkeys_append]
    apply List.nodup_append.mpr
    refine ⟨hn, by simp, ?_⟩
    intro a ha b hb
    simp at hb; subst hb
    exact fun e => h (e ▸ ha)

theorem dget_dset {d : List (κ × β)} {k x : κ} {v : β} :
    dget (dset d k v) x = if x = k then some v else dget d x := by
  induction d with
  | nil => by_cases h : k = x <;> simp [dset, dget, h, eq_comm]
  | cons p t ih =>
    obtain ⟨k', v'⟩ := p
    by_cases hk : k' = k
    · subst hk
      by_cases hx : k' = x
      · simp [dset, dget, hx]
      · have : x ≠ k' := fun e => hx e.symm
        simp [dset, dget, hx, this]
    · by_cases hx : k' = x
      · subst hx; simp [dset, dget, hk]
      · simp [dset, dget, hk, hx, ih]

@[simp] theorem dkeys_ddel (d : List (κ × β)) (k : κ) : dkeys (ddel d k) = (dkeys d).filter (fun x => decide (x ≠ k)) := by
  induction d with
  | nil => rfl
  | cons p t ih =>
    obtain ⟨k', v'⟩ := p
    by_cases hk : k' = k <;> simp [ddel, hk, List.filter_cons] <;> simpa [ddel] using ih

theorem mem_dkeys_ddel {d : List (κ × β)} {k x : κ} : x ∈ dkeys (ddel d k) ↔ x ∈ dkeys d ∧ x ≠ k := by
  simp

theorem not_mem_dkeys_ddel (d : List (κ × β)) (k : κ) : k ∉ dkeys (ddel d k) := by simp

theorem nodup_dkeys_ddel {d : List (κ × β)} {k : κ} (hn : (dkeys d).Nodup) : (dkeys (ddel d k)).Nodup := by
  rw [dkeys_ddel]; exact hn.filter _

theorem mem_ddel {d : List (κ × β)} {k : κ} {p : κ × β} : p ∈ ddel d k ↔ p ∈ d ∧ p.1 ≠ k := by
  simp [ddel]

theorem dget_ddel {d : List (κ × β)} {k x : κ} : dget (ddel d k) x = if x = k then none else dget d x := by
  induction d with
  | nil => simp [ddel, dget]
  | cons p t ih =>
    obtain ⟨k', v'⟩ := p
    by_cases hk : k' = k
    · subst hk
      by_cases hx : x = k'
      · subst hx; simpa [ddel, List.filter_cons, dget] using ih
      · have : k' ≠ x := fun e => hx e.symm
        simpa [ddel, List.filter_cons, dget, this, hx] using ih
    · by_cases hx : k' = x
      · subst hx; simp [ddel, List.filter_cons, dget, hk]
      · simp only [ddel, List.filter_cons, hk, ne_eq, not_false_eq_true, decide_true, if_true, dget, hx, if_false]
        simpa [ddel] using ih

theorem mem_dvals_ddel {d : List (κ × β)} {k : κ} {v : β} (h : v ∈ dvals (ddel d k)) : v ∈ dvals d := by
  obtain ⟨k', hk'⟩ := mem_dvals.mp h
  exact mem_dvals.mpr ⟨k', (mem_ddel.mp hk').1⟩

/-- filtering a dict by a predicate on keys -/
theorem dget_filter_key {d : List (κ × β)} {q : κ → Bool} {x : κ} :
    dget (d.filter fun p => q p.1) x = if q x then dget d x else none := by
  induction d with
  | nil => simp [dget]
  | cons p t ih =>
    obtain ⟨k', v'⟩ := p
    by_cases hk : k' = x
    · subst hk
      by_cases hq : q k' = true
      · simp [List.filter_cons, hq, dget]
      · simp only [Bool.not_eq_true] at hq
        simp [List.filter_cons, hq, ih]
    · by_cases hq : q k' = true
      · simp [List.filter_cons, hq, dget, hk, ih]
      · simp only [Bool.not_eq_true] at hq
        simp [List.filter_cons, hq, dget, hk, ih]

theorem dkeys_filter_key {d : List (κ × β)} {q : κ → Bool} :
    dkeys (d.filter fun p => q p.1) = (dkeys d).filter q := by
  induction d with
  | nil => rfl
  | cons p t ih =>
    by_cases hq : q p.1 = true
    · simp [List.filter_cons, hq, ih]
    · simp only [Bool.not_eq_true] at hq
      simp [List.filter_cons, hq, ih]

theorem ddel_eq_filter (d : List (κ × β)) (k : κ) : ddel d k = d.filter (fun p => (fun x => decide (x ≠ k)) p.1) := rfl

end

/-! ### list lemmas -/

/-- the first match of `find?` survives a filter that keeps it -/
theorem find?_filter_of_find? {α : Type} {p q : α → Bool} {l : List α} {a : α}
    (h : l.find? p = some a) (hq : q a = true) : (l.filter q).find? p = some a := by
  induction l with
  | nil => simp at h
  | cons x t ih =>
    by_cases hp : p x = true
    · simp only [List.find?_cons, hp] at h
      simp only [Option.some.injEq] at h; subst h
      simp [List.filter_cons, hq, hp]
    · simp only [Bool.not_eq_true] at hp
      simp only [List.find?_cons, hp] at h
      by_cases hqx : q x = true
      · simp [List.filter_cons, hqx, hp, ih h]
      · simp only [Bool.not_eq_true] at hqx
        simp [List.filter_cons, hqx, ih h]

theorem inj_of_nodup_map {α β : Type} {f : α → β} {l : List α} (hn : (l.map f).Nodup) {a b : α}
    (ha : a ∈ l) (hb : b ∈ l) (h : f a = f b) : a = b := by
  induction l with
  | nil => simp at ha
  | cons x t ih =>
    simp only [List.map_cons, List.nodup_cons, List.mem_map, not_exists, not_and] at hn
    rcases List.mem_cons.mp ha with rfl | ha' <;> rcases List.mem_cons.mp hb with rfl | hb'
    · rfl
    · exact absurd h.symm (hn.1 b hb')
    · exact absurd h (hn.1 a ha')
    · exact ih hn.2 ha' hb'

theorem nodup_map_on {α β : Type} {f : α → β} {l : List α}
    (hinj : ∀ a ∈ l, ∀ b ∈ l, f a = f b → a = b) (hn : l.Nodup) : (l.map f).Nodup := by
  induction l with
  | nil => simp
  | cons x t ih =>
    simp only [List.nodup_cons] at hn
    simp only [List.map_cons, List.nodup_cons, List.mem_map, not_exists, not_and]
    refine ⟨?_, ih (fun a ha b hb => hinj a (List.mem_cons_of_mem _ ha) b (List.mem_cons_of_mem _ hb)) hn.2⟩
    intro y hy hxy
    have := hinj y (List.mem_cons_of_mem _ hy) x (by simp) hxy
    exact hn.1 (this ▸ hy)

theorem nodup_of_nodup_map {α β : Type} (f : α → β) {l : List α} (hn : (l.map f).Nodup) : l.Nodup := by
  induction l with
  | nil => simp
  | cons x t ih =>
    simp only [List.map_cons, List.nodup_cons, List.mem_map, not_exists, not_and] at hn
    exact List.nodup_cons.mpr ⟨fun h => hn.1 x h rfl, ih hn.2⟩

theorem find?_append_of_find? {α : Type} {p : α → Bool} {l r : List α} {a : α}
    (h : l.find? p = some a) : (l ++ r).find? p = some a := by
  simp [List.find?_append, h]

/-- a filter that keeps strictly less has a strictly shorter result -/
theorem length_filter_lt {α : Type} {p q : α → Bool} {l : List α} {a : α}
    (hsub : ∀ x, q x = true → p x = true) (ha : a ∈ l) (hpa : p a = true) (hqa : q a = false) :
    (l.filter q).length < (l.filter p).length := by
  induction l with
  | nil => simp at ha
  | cons x t ih =>
    have hle : (t.filter q).length ≤ (t.filter p).length := by
      clear ih ha
      induction t with
      | nil => simp
      | cons y t' ih' =>
        by_cases hqy : q y = true
        · simp [List.filter_cons, hqy, hsub y hqy]; omega
        · simp only [Bool.not_eq_true] at hqy
          by_cases hpy : p y = true
          · simp [List.filter_cons, hqy, hpy]; omega
          · simp only [Bool.not_eq_true] at hpy
            simp [List.filter_cons, hqy, hpy]; omega
    rcases List.mem_cons.mp ha with rfl | ha'
    · simp [List.filter_cons, hpa, hqa]; omega
    · have := ih ha'
      by_cases hqx : q x = true
      · simp [List.filter_cons, hqx, hsub x hqx]; omega
      · simp only [Bool.not_eq_true] at hqx
        by_cases hpx : p x = true
        · simp [List.filter_cons, hqx, hpx]; omega
        · simp only [Bool.not_eq_true] at hpx
          simp [List.filter_cons, hqx, hpx]; omega

end SysLoss
