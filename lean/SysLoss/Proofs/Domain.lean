/-
  Proofs/Domain — the Domain column of `solve()` over a whole table (induction over `_topo_nodes`).
-/
import SysLoss.Proofs.Basic
import SysLoss.Model.Table

set_option linter.unusedSectionVars false
set_option linter.unusedVariables false

namespace SysLoss
variable {α : Type} [Field α] [LinearOrder α] [IsStrictOrderedRing α]

/-- one step of the table loop: a Source is its own domain, a PMux takes the source above its first
    input at non-zero voltage, every other component keeps the domain `inherited` from its first parent -/
theorem C07aux_domain_step (s : SSys α) (phase : String) (ta : α) (v i : Vec α) (st : St) (n : Nat)
    (nd : SNode α) (hnode : s.node? n = some nd) (inherited : String) :
    (s.compRow phase ta v i st n inherited).1.domain = (s.compRow phase ta v i st n inherited).2 ∧
    (nd.comp.kind = .source → (s.compRow phase ta v i st n inherited).2 = nd.comp.name) ∧
    (nd.comp.kind ≠ .source → nd.comp.kind ≠ .pmux → (s.compRow phase ta v i st n inherited).2 = inherited) ∧
    (nd.comp.kind = .pmux → (s.compRow phase ta v i st n inherited).2 =
        s.nameOf (s.rootOf s.hidx (nd.parents.getD (firstNonZero (nd.parents.map (vget v)) 0) 0))) := by
  unfold SSys.compRow SSys.findDomain
  simp only [hnode]
  refine ⟨trivial, ?_, ?_, ?_⟩
  · intro hk; simp [hk]
  · intro h1 h2; cases hk : nd.comp.kind <;> simp_all
  · intro hk; simp [hk]

/-- one iteration of the loop of `compRows` -/
def rowStep (s : SSys α) (phase : String) (ta : α) (v i : Vec α) (st : St)
    (acc : List (Row α) × String × List (Nat × String)) (n : Nat) :
    List (Row α) × String × List (Nat × String) :=
  let start := match s.node? n with
    | some node => (match node.parents with
        | [] => acc.2.1
        | p :: _ => (acc.2.2.lookup p).getD acc.2.1)
    | none => acc.2.1
  let rd := s.compRow phase ta v i st n start
  (acc.1 ++ [rd.1], rd.2, (n, rd.2) :: acc.2.2)

theorem compRows_eq_foldl (s : SSys α) (phase : String) (ta : α) (v i : Vec α) (st : St) :
    s.compRows phase ta v i st = (s.topo.foldl (rowStep s phase ta v i st) ([], "none", [])).1 := by
  unfold SSys.compRows rowStep
  rfl

/-- what the loop has established after processing the nodes `done` (in that order) -/
structure DomInv (s : SSys α) (phase : String) (ta : α) (v i : Vec α) (st : St)
    (done : List Nat) (acc : List (Row α) × String × List (Nat × String)) : Prop where
  len : acc.1.length = done.length
  look : ∀ j (hj : j < done.length) (hj' : j < acc.1.length), acc.2.2.lookup done[j] = some (acc.1[j]).domain
  src : ∀ k (hk : k < done.length) (hk' : k < acc.1.length) nd, s.node? done[k] = some nd →
          nd.comp.kind = .source → (acc.1[k]).domain = nd.comp.name
  inh : ∀ k (hk : k < done.length) (hk' : k < acc.1.length) nd p rest, s.node? done[k] = some nd →
          nd.parents = p :: rest → nd.comp.kind ≠ .source → nd.comp.kind ≠ .pmux →
          ∃ j, ∃ (hj : j < k) (hj' : j < acc.1.length), done[j]'(by omega) = p ∧ (acc.1[k]).domain = (acc.1[j]).domain

theorem lookup_cons_ne (l : List (Nat × String)) (a b : Nat) (d : String) (h : b ≠ a) :
    ((a, d) :: l).lookup b = l.lookup b := by
  simp only [List.lookup_cons]
  have : (b == a) = false := by simpa using h
  rw [this]

theorem lookup_cons_self' (l : List (Nat × String)) (a : Nat) (d : String) :
    ((a, d) :: l).lookup a = some d := by
  simp [List.lookup_cons]

/-- the invariant is preserved by processing the remaining nodes `l` -/
theorem domInv_foldl (s : SSys α) (phase : String) (ta : α) (v i : Vec α) (st : St) :
    ∀ (l done : List Nat) (acc : List (Row α) × String × List (Nat × String)),
      DomInv s phase ta v i st done acc → (done ++ l).Nodup →
      (∀ n ∈ l, ∃ nd, s.node? n = some nd) →
      (∀ (pre : List Nat) (n : Nat) (post : List Nat), l = pre ++ n :: post →
          ∀ nd p rest, s.node? n = some nd → nd.parents = p :: rest → p ∈ done ++ pre) →
      DomInv s phase ta v i st (done ++ l) (l.foldl (rowStep s phase ta v i st) acc) := by
  intro l
  induction l with
  | nil => intro done acc h _ _ _; simpa using h
  | cons n l' ih =>
    intro done acc h hnd hnodes hpar
    have hstep : DomInv s phase ta v i st (done ++ [n]) (rowStep s phase ta v i st acc n) := by
      obtain ⟨node, hnode⟩ := hnodes n (by simp)
      have hn_notin : n ∉ done := by
        intro hm
        have := (List.nodup_append.mp hnd).2.2 n hm n (by simp)
        exact this rfl
      -- the row appended for `n`
      set start := (match node.parents with
        | [] => acc.2.1
        | p :: _ => (acc.2.2.lookup p).getD acc.2.1) with hstart
      have hrs : rowStep s phase ta v i st acc n =
          (acc.1 ++ [(s.compRow phase ta v i st n start).1], (s.compRow phase ta v i st n start).2,
            (n, (s.compRow phase ta v i st n start).2) :: acc.2.2) := by
        unfold rowStep; simp only [hnode]; rfl
      have hds := C07aux_domain_step s phase ta v i st n node hnode start
      rw [hrs]
      refine ⟨by simp [h.len], ?_, ?_, ?_⟩
      · intro j hj hj'
        simp only [List.length_append, List.length_cons, List.length_nil] at hj hj'
        by_cases hjd : j < done.length
        · have hne : (done ++ [n])[j] ≠ n := by
            rw [List.getElem_append_left hjd]
            intro e; exact hn_notin (e ▸ List.getElem_mem hjd)
          rw [lookup_cons_ne _ _ _ _ hne, List.getElem_append_left hjd,
            List.getElem_append_left (by rw [h.len]; exact hjd)]
          exact h.look j hjd (by rw [h.len]; exact hjd)
        · have hj_eq : j = done.length := by omega
          subst hj_eq
          have e1 : (done ++ [n])[done.length]'(by simp) = n := by simp
          have e2 : (acc.1 ++ [(s.compRow phase ta v i st n start).1])[done.length]'(by simp [h.len])
              = (s.compRow phase ta v i st n start).1 := by
            rw [List.getElem_append_right (by rw [h.len])]; simp [h.len]
          rw [e1, lookup_cons_self', e2, hds.1]
      · intro k hk hk' nd hnd' hsrc
        simp only [List.length_append, List.length_cons, List.length_nil] at hk hk'
        by_cases hkd : k < done.length
        · rw [List.getElem_append_left hkd] at hnd'
          rw [List.getElem_append_left (by rw [h.len]; exact hkd)]
          exact h.src k hkd (by rw [h.len]; exact hkd) nd hnd' hsrc
        · have hk_eq : k = done.length := by omega
          subst hk_eq
          have e1 : (done ++ [n])[done.length]'(by simp) = n := by simp
          rw [e1, hnode] at hnd'
          simp only [Option.some.injEq] at hnd'
          subst hnd'
          have e2 : (acc.1 ++ [(s.compRow phase ta v i st n start).1])[done.length]'(by simp [h.len])
              = (s.compRow phase ta v i st n start).1 := by
            rw [List.getElem_append_right (by rw [h.len])]; simp [h.len]
          rw [e2, hds.1]; exact hds.2.1 hsrc
      · intro k hk hk' nd p rest hnd' hp hns hnm
        simp only [List.length_append, List.length_cons, List.length_nil] at hk hk'
        by_cases hkd : k < done.length
        · rw [List.getElem_append_left hkd] at hnd'
          obtain ⟨j, hj, hj', hdj, hdom⟩ := h.inh k hkd (by rw [h.len]; exact hkd) nd p rest hnd' hp hns hnm
          refine ⟨j, hj, by simp; omega, ?_, ?_⟩
          · rw [List.getElem_append_left (by omega)]; exact hdj
          · rw [List.getElem_append_left (by rw [h.len]; exact hkd), List.getElem_append_left hj']
            exact hdom
        · have hk_eq : k = done.length := by omega
          subst hk_eq
          have e1 : (done ++ [n])[done.length]'(by simp) = n := by simp
          rw [e1, hnode] at hnd'
          simp only [Option.some.injEq] at hnd'
          subst hnd'
          have hpin : p ∈ done := by
            have := hpar [] n l' rfl node p rest hnode hp
            simpa using this
          obtain ⟨j, hj, hjp⟩ := List.getElem_of_mem hpin
          have hj'' : j < acc.1.length := by rw [h.len]; exact hj
          refine ⟨j, hj, by simp; omega, ?_, ?_⟩
          · rw [List.getElem_append_left hj]; exact hjp
          · have e2 : (acc.1 ++ [(s.compRow phase ta v i st n start).1])[done.length]'(by simp [h.len])
                = (s.compRow phase ta v i st n start).1 := by
              rw [List.getElem_append_right (by rw [h.len])]; simp [h.len]
            rw [e2, List.getElem_append_left hj'', hds.1, hds.2.2.1 hns hnm]
            have hl := h.look j hj hj''
            rw [hjp] at hl
            rw [hstart, hp]; simp only [hl, Option.getD_some]
    have := ih (done ++ [n]) (rowStep s phase ta v i st acc n) hstep
      (by simpa [List.append_assoc] using hnd)
      (fun m hm => hnodes m (by simp [hm]))
      (by
        intro pre m post hl nd p rest hnm hp
        have := hpar (n :: pre) m post (by simp [hl]) nd p rest hnm hp
        simpa [List.append_assoc] using this)
    simpa [List.append_assoc] using this

end SysLoss
