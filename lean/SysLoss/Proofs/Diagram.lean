/-
  Proofs/Diagram — helper lemmas for Props/C19: attribute dictionaries, `mapE`, the cluster layout,
  round-half-even, decades, and the digits `_nice_float` shows.
-/
import SysLoss.Proofs.Basic
import SysLoss.Model.Diagram
import Mathlib.Data.Rat.Floor
import Mathlib.Algebra.Order.Floor.Ring
import Mathlib.Data.Nat.Log
import Mathlib.Data.List.Perm.Basic
import Mathlib.Tactic.NormNum
import Mathlib.Tactic.Positivity
import Mathlib.Tactic.Push

set_option linter.unusedSectionVars false
set_option linter.unusedVariables false

namespace SysLoss
namespace Diagram

/-! ### attribute dictionaries -/

theorem aget_append_single (d : Attrs) (k' v k : String) :
    aget (d ++ [(k', v)]) k = if k' = k then some v else aget d k := by
  induction d with
  | nil => simp [aget]
  | cons h t ih =>
    obtain ⟨a, b⟩ := h
    simp only [List.cons_append, aget, ih]
    by_cases hk : k' = k
    · simp [hk]
    · simp [hk]

theorem ahas_false_aget (d : Attrs) (k : String) (h : ahas d k = false) : aget d k = none := by
  induction d with
  | nil => rfl
  | cons hd t ih =>
    obtain ⟨a, b⟩ := hd
    simp only [ahas, List.any_cons, Bool.or_eq_false_iff, beq_eq_false_iff_ne, ne_eq] at h
    have := ih (by simpa [ahas] using h.2)
    simp [aget, this, h.1]

theorem map_set_id (d : Attrs) (k' v : String) (h : ahas d k' = false) :
    d.map (fun kv => if kv.1 == k' then (k', v) else kv) = d := by
  induction d with
  | nil => rfl
  | cons hd t ih =>
    obtain ⟨a, b⟩ := hd
    simp only [ahas, List.any_cons, Bool.or_eq_false_iff] at h
    have h2 : ahas t k' = false := h.2
    simp only [List.map_cons, ih h2, h.1, Bool.false_eq_true, if_false]

theorem aget_map_set_ne (d : Attrs) (k' v k : String) (hk : k' ≠ k) :
    aget (d.map (fun kv => if kv.1 == k' then (k', v) else kv)) k = aget d k := by
  induction d with
  | nil => rfl
  | cons hd t ih =>
    obtain ⟨a, b⟩ := hd
    simp only [List.map_cons, aget, ih]
    by_cases ha : a = k'
    · subst ha; simp [hk]
    · have : (a == k') = false := by simpa using ha
      simp [this]

theorem aget_map_set_self (d : Attrs) (k' v : String) (h : ahas d k' = true) :
    aget (d.map (fun kv => if kv.1 == k' then (k', v) else kv)) k' = some v := by
  induction d with
  | nil => simp [ahas] at h
  | cons hd t ih =>
    obtain ⟨a, b⟩ := hd
    simp only [List.map_cons, aget]
    by_cases ht : ahas t k' = true
    · rw [ih ht]
    · have ht' : ahas t k' = false := by simpa using ht
      rw [map_set_id t k' v ht', ahas_false_aget t k' ht']
      simp only [ahas, List.any_cons, Bool.or_eq_true] at h
      have ha : (a == k') = true := by
        rcases h with h | h
        · exact h
        · exact absurd h ht
      simp [ha]

/-- `d[k] = v; d[k]` -/
theorem aget_aset_self (d : Attrs) (k v : String) : aget (aset d k v) k = some v := by
  unfold aset
  split
  · rename_i h; exact aget_map_set_self d k v h
  · rw [aget_append_single]; simp

/-- `d[k'] = v` leaves the other keys alone -/
theorem aget_aset_ne (d : Attrs) (k' v k : String) (h : k' ≠ k) : aget (aset d k' v) k = aget d k := by
  unfold aset
  split
  · exact aget_map_set_ne d k' v k h
  · rw [aget_append_single]; simp [h]

/-- after `for key in o: d[key] = o[key]` a key has `o`'s value if `o` has one, else `d`'s -/
theorem aget_aupd (d o : Attrs) (k : String) :
    aget (aupd d o) k = match aget o k with | some v => some v | none => aget d k := by
  unfold aupd
  induction o generalizing d with
  | nil => simp [aget]
  | cons hd t ih =>
    obtain ⟨a, b⟩ := hd
    simp only [List.foldl_cons, ih, aget]
    cases ht : aget t k with
    | some w => simp
    | none =>
      by_cases ha : a = k
      · subst ha; simp [aget_aset_self]
      · simp [ha, aget_aset_ne _ _ _ _ ha]

theorem ahas_true_aget (d : Attrs) (k : String) (h : ahas d k = true) : ∃ v, aget d k = some v := by
  induction d with
  | nil => simp [ahas] at h
  | cons hd t ih =>
    obtain ⟨a, b⟩ := hd
    simp only [aget]
    cases ht : aget t k with
    | some w => exact ⟨w, rfl⟩
    | none =>
      have hf : ahas t k = false := by
        by_contra hc
        obtain ⟨v, hv⟩ := ih (by simpa using hc)
        rw [ht] at hv; cases hv
      simp only [ahas, List.any_cons, Bool.or_eq_true, beq_iff_eq] at h
      rcases h with h | h
      · exact ⟨b, by simp [h]⟩
      · have : ahas t k = true := h
        rw [hf] at this; cases this

/-- `if "label" not in conf: conf["label"] = name` -/
theorem aget_withLabel (name : String) (conf : Attrs) (k : String) :
    aget (withLabel name conf) k =
      if k = "label" then some ((aget conf "label").getD name) else aget conf k := by
  unfold withLabel
  by_cases hh : ahas conf "label" = true
  · obtain ⟨v, hv⟩ := ahas_true_aget _ _ hh
    simp only [hh, if_true]
    split_ifs with hk
    · subst hk; simp [hv]
    · rfl
  · have hf : ahas conf "label" = false := by simpa using hh
    simp only [hf, Bool.false_eq_true, if_false]
    split_ifs with hk
    · subst hk; simp [aget_aset_self, ahas_false_aget _ _ hf]
    · exact aget_aset_ne _ _ _ _ (Ne.symm hk)

/-! ### `mapE` -/

theorem mapE_forall₂ {ε β γ : Type} (f : β → Except ε γ) :
    ∀ (l : List β) (r : List γ), mapE f l = .ok r → List.Forall₂ (fun a b => f a = .ok b) l r
  | [], r, h => by simp [mapE] at h; subst h; exact List.Forall₂.nil
  | a :: t, r, h => by
    unfold mapE at h
    split at h
    · cases h
    · rename_i b hb
      split at h
      · cases h
      · rename_i bs hbs
        cases h
        exact List.Forall₂.cons hb (mapE_forall₂ f t bs hbs)

theorem mapE_map {ε β γ δ : Type} (f : β → Except ε γ) (g : γ → δ) (h' : β → δ)
    (hf : ∀ a b, f a = .ok b → g b = h' a) (l : List β) (r : List γ) (h : mapE f l = .ok r) :
    r.map g = l.map h' := by
  have := mapE_forall₂ f l r h
  clear h
  induction this with
  | nil => rfl
  | cons hab _ ih => simp [hf _ _ hab, ih]

/-! ### groups and layout -/

theorem groupsOf_aux (comps : List CompIn) (gs : List String) (hn : gs.Nodup) (he : "" ∉ gs) :
    let r := comps.foldl (fun gs c => if c.group = "" ∨ c.group ∈ gs then gs else gs ++ [c.group]) gs
    r.Nodup ∧ "" ∉ r ∧ ∀ g, g ∈ r ↔ (g ∈ gs ∨ (g ≠ "" ∧ ∃ c ∈ comps, c.group = g)) := by
  induction comps generalizing gs with
  | nil => simp [hn, he]
  | cons c t ih =>
    simp only [List.foldl_cons]
    by_cases hc : c.group = "" ∨ c.group ∈ gs
    · simp only [hc, if_true]
      obtain ⟨h1, h2, h3⟩ := ih gs hn he
      refine ⟨h1, h2, fun g => ?_⟩
      rw [h3 g]
      constructor
      · rintro (h | ⟨hg, c', hc', rfl⟩)
        · exact Or.inl h
        · exact Or.inr ⟨hg, c', List.mem_cons_of_mem _ hc', rfl⟩
      · rintro (h | ⟨hg, c', hc', rfl⟩)
        · exact Or.inl h
        · rcases List.mem_cons.mp hc' with rfl | hc'
          · rcases hc with hc | hc
            · exact absurd hc hg
            · exact Or.inl hc
          · exact Or.inr ⟨hg, c', hc', rfl⟩
    · simp only [hc, if_false]
      rw [not_or] at hc
      have hn' : (gs ++ [c.group]).Nodup := by
        rw [List.nodup_append]
        refine ⟨hn, by simp, ?_⟩
        intro a ha b hb
        simp only [List.mem_singleton] at hb
        subst hb
        intro hab; subst hab; exact hc.2 ha
      have he' : "" ∉ gs ++ [c.group] := by
        simp only [List.mem_append, List.mem_singleton, not_or]
        exact ⟨he, fun h => hc.1 h.symm⟩
      obtain ⟨h1, h2, h3⟩ := ih (gs ++ [c.group]) hn' he'
      refine ⟨h1, h2, fun g => ?_⟩
      rw [h3 g]
      simp only [List.mem_append, List.mem_singleton]
      constructor
      · rintro ((h | rfl) | ⟨hg, c', hc', rfl⟩)
        · exact Or.inl h
        · exact Or.inr ⟨hc.1, c, List.mem_cons_self, rfl⟩
        · exact Or.inr ⟨hg, c', List.mem_cons_of_mem _ hc', rfl⟩
      · rintro (h | ⟨hg, c', hc', rfl⟩)
        · exact Or.inl (Or.inl h)
        · rcases List.mem_cons.mp hc' with rfl | hc'
          · exact Or.inl (Or.inr rfl)
          · exact Or.inr ⟨hg, c', hc', rfl⟩

theorem groupsOf_nodup (comps : List CompIn) : (groupsOf comps).Nodup :=
  (groupsOf_aux comps [] List.nodup_nil (by simp)).1

/-- the clusters are exactly the non-empty group names in use -/
theorem mem_groupsOf (comps : List CompIn) (g : String) :
    g ∈ groupsOf comps ↔ g ≠ "" ∧ ∃ c ∈ comps, c.group = g := by
  have := (groupsOf_aux comps [] List.nodup_nil (by simp)).2.2 g
  simpa [groupsOf] using this

/-- splitting a list by a key over a duplicate-free list of key values loses and repeats nothing -/
theorem partition_perm {β κ : Type} [DecidableEq κ] (key : β → κ) (l : List β) :
    ∀ (gs : List κ), gs.Nodup →
      (gs.flatMap (fun g => l.filter (fun c => key c = g)) ++ l.filter (fun c => key c ∉ gs)).Perm l
  | [], _ => by simp
  | g :: gs, hn => by
    have hn' := (List.nodup_cons.mp hn).2
    have hg : g ∉ gs := (List.nodup_cons.mp hn).1
    have ih := partition_perm key l gs hn'
    -- split the remainder of `gs` by `key = g`
    have hsplit : (l.filter (fun c => key c ∉ gs)).Perm
        (l.filter (fun c => key c = g) ++ l.filter (fun c => key c ∉ g :: gs)) := by
      have h1 := (List.filter_append_perm (fun c => decide (key c = g)) (l.filter (fun c => key c ∉ gs))).symm
      have e1 : (l.filter (fun c => key c ∉ gs)).filter (fun c => decide (key c = g))
          = l.filter (fun c => key c = g) := by
        rw [List.filter_filter]
        apply List.filter_congr
        intro c _
        by_cases h : key c = g
        · subst h; simp [hg]
        · simp [h]
      have e2 : (l.filter (fun c => key c ∉ gs)).filter (fun c => !decide (key c = g))
          = l.filter (fun c => key c ∉ g :: gs) := by
        rw [List.filter_filter]
        apply List.filter_congr
        intro c _
        by_cases h : key c = g <;> simp [h]
      rw [e1, e2] at h1
      exact h1
    simp only [List.flatMap_cons]
    calc (l.filter (fun c => key c = g) ++ gs.flatMap (fun g => l.filter (fun c => key c = g)))
            ++ l.filter (fun c => key c ∉ g :: gs)
        = l.filter (fun c => key c = g) ++ (gs.flatMap (fun g => l.filter (fun c => key c = g))
            ++ l.filter (fun c => key c ∉ g :: gs)) := by rw [List.append_assoc]
      _ |>.Perm (gs.flatMap (fun g => l.filter (fun c => key c = g))
            ++ (l.filter (fun c => key c = g) ++ l.filter (fun c => key c ∉ g :: gs))) := by
          rw [← List.append_assoc, ← List.append_assoc]
          exact List.Perm.append_right _ List.perm_append_comm
      _ |>.Perm (gs.flatMap (fun g => l.filter (fun c => key c = g)) ++ l.filter (fun c => key c ∉ gs)) :=
          List.Perm.append_left _ hsplit.symm
      _ |>.Perm l := ih

/-- every component is placed exactly once: cluster members followed by the top level is a permutation of
    the component list -/
theorem layout_perm (comps : List CompIn) (group : Bool) :
    ((layout comps group).1.flatMap (·.2) ++ (layout comps group).2).Perm comps := by
  unfold layout
  cases group with
  | false => simp
  | true =>
    simp only [Bool.true_and, Bool.not_true, Bool.or_false]
    by_cases he : (groupsOf comps).isEmpty = true
    · simp only [he, Bool.not_true, Bool.false_eq_true, if_false, List.flatMap_nil, List.nil_append]
      have hall : ∀ c ∈ comps, c.group = "" := by
        intro c hc
        by_contra hne
        have : c.group ∈ groupsOf comps := (mem_groupsOf comps c.group).mpr ⟨hne, c, hc, rfl⟩
        rw [List.isEmpty_iff] at he
        rw [he] at this
        simp at this
      rw [List.filter_eq_self.mpr (by intro c hc; simp [hall c hc])]
    · simp only [he, Bool.not_false, if_true, List.flatMap_map]
      have hp := partition_perm (fun c : CompIn => c.group) comps (groupsOf comps) (groupsOf_nodup comps)
      have e : comps.filter (fun c => decide (c.group = "")) = comps.filter (fun c => c.group ∉ groupsOf comps) := by
        apply List.filter_congr
        intro c hc
        by_cases h : c.group = ""
        · have : c.group ∉ groupsOf comps := by
            rw [mem_groupsOf]; simp [h]
          simp [h]
          rw [h] at this; exact this
        · have : c.group ∈ groupsOf comps := (mem_groupsOf comps c.group).mpr ⟨h, c, hc, rfl⟩
          simp [h, this]
      rw [e]
      exact hp

/-! ### round-half-even, decades, `_nice_float` -/

theorem rat_floor_eq (x : ℚ) : x.floor = ⌊x⌋ := rfl

/-- the three cases of `rhe` -/
theorem rhe_cases (x : ℚ) :
    (x - ⌊x⌋ < 1/2 ∧ rhe x = ⌊x⌋) ∨ (1/2 < x - ⌊x⌋ ∧ rhe x = ⌊x⌋ + 1) ∨
    (x - ⌊x⌋ = 1/2 ∧ (rhe x = ⌊x⌋ ∨ rhe x = ⌊x⌋ + 1)) := by
  have hfl : x.floor = ⌊x⌋ := rfl
  unfold rhe
  generalize x.floor = f at hfl ⊢
  subst hfl
  simp only []
  by_cases ha : x - (⌊x⌋ : ℚ) < 1/2
  · left; exact ⟨ha, by rw [if_pos ha]⟩
  · by_cases hb : 1/2 < x - (⌊x⌋ : ℚ)
    · right; left; exact ⟨hb, by rw [if_neg ha, if_pos hb]⟩
    · right; right
      refine ⟨le_antisymm (not_lt.mp hb) (not_lt.mp ha), ?_⟩
      rw [if_neg ha, if_neg hb]
      by_cases hc : ⌊x⌋ % 2 = 0
      · left; rw [if_pos hc]
      · right; rw [if_neg hc]

/-- round-half-even is within half a unit -/
theorem rhe_abs_le (x : ℚ) : |((rhe x : ℤ) : ℚ) - x| ≤ 1/2 := by
  have h1 := Int.floor_le x
  have h2 := Int.lt_floor_add_one x
  rw [abs_le]
  rcases rhe_cases x with ⟨h, e⟩ | ⟨h, e⟩ | ⟨h, e | e⟩ <;> rw [e] <;> push_cast <;> constructor <;> linarith

/-- an integer within less than half a unit is the rounding -/
theorem rhe_eq_of_abs_lt (x : ℚ) (n : ℤ) (h : |(n : ℚ) - x| < 1/2) : rhe x = n := by
  have hb := rhe_abs_le x
  rw [abs_lt] at h
  rw [abs_le] at hb
  have : |((rhe x - n : ℤ) : ℚ)| < 1 := by
    rw [abs_lt]; push_cast; constructor <;> linarith
  have h3 : |rhe x - n| < 1 := by exact_mod_cast this
  have := Int.abs_lt_one_iff.mp h3
  omega

theorem rhe_intCast (n : ℤ) : rhe (n : ℚ) = n := rhe_eq_of_abs_lt _ n (by simp)

theorem rhe_mono {x y : ℚ} (h : x ≤ y) : rhe x ≤ rhe y := by
  have hf : ⌊x⌋ ≤ ⌊y⌋ := Int.floor_mono h
  rcases lt_or_eq_of_le hf with hlt | heq
  · -- ⌊x⌋ + 1 ≤ ⌊y⌋ ≤ rhe y
    have hx : rhe x ≤ ⌊x⌋ + 1 := by
      rcases rhe_cases x with ⟨_, e⟩ | ⟨_, e⟩ | ⟨_, e | e⟩ <;> omega
    have hy : ⌊y⌋ ≤ rhe y := by
      rcases rhe_cases y with ⟨_, e⟩ | ⟨_, e⟩ | ⟨_, e | e⟩ <;> omega
    omega
  · -- same floor: compare the fractional parts; at a tie both take the same branch
    have hfr : x - (⌊x⌋ : ℚ) ≤ y - (⌊y⌋ : ℚ) := by rw [heq]; linarith
    by_cases hxe : x - (⌊x⌋ : ℚ) = 1/2 ∧ y - (⌊y⌋ : ℚ) = 1/2
    · have : x = y := by
        have := hxe.1; have := hxe.2; rw [heq] at *; linarith
      rw [this]
    · rcases rhe_cases x with ⟨hx, ex⟩ | ⟨hx, ex⟩ | ⟨hx, ex | ex⟩ <;>
      rcases rhe_cases y with ⟨hy, ey⟩ | ⟨hy, ey⟩ | ⟨hy, ey | ey⟩ <;>
      first
        | omega
        | (exfalso; linarith)
        | (exfalso; exact hxe ⟨hx, hy⟩)

theorem p10_eq (n : ℕ) : p10 n = (10:ℚ)^n := by unfold p10; push_cast; rfl

theorem scale10_eq (x : ℚ) (e : ℤ) : scale10 x e = x * (10:ℚ)^e := by
  cases e with
  | ofNat n => simp [scale10, p10_eq]
  | negSucc n => simp [scale10, p10_eq, zpow_negSucc, div_eq_mul_inv]

theorem log10Aux_eq : ∀ (fuel n : ℕ), n ≤ fuel → log10Aux fuel n = Nat.log 10 n
  | 0, n, h => by
    have : n = 0 := by omega
    subst this; simp [log10Aux]
  | fuel + 1, n, h => by
    unfold log10Aux
    split_ifs with hn
    · exact (Nat.log_of_lt hn).symm
    · rw [Nat.log_of_one_lt_of_le (by norm_num) (by omega), log10Aux_eq fuel (n / 10) (by omega)]

theorem natLog10_eq (n : ℕ) : natLog10 n = Nat.log 10 n := log10Aux_eq n n (le_refl n)

theorem natLog10_spec (n : ℕ) (hn : n ≠ 0) : 10 ^ natLog10 n ≤ n ∧ n < 10 ^ (natLog10 n + 1) := by
  rw [natLog10_eq]
  exact ⟨Nat.pow_log_le_self 10 hn, Nat.lt_pow_succ_log_self (by norm_num) n⟩

/-- `decade x = ⌊log₁₀ x⌋` -/
theorem decade_spec (x : ℚ) (hx : 0 < x) : (10:ℚ) ^ decade x ≤ x ∧ x < (10:ℚ) ^ (decade x + 1) := by
  have hnum : 0 < x.num := Rat.num_pos.mpr hx
  have hn0 : x.num.natAbs ≠ 0 := by omega
  have hd0 : x.den ≠ 0 := x.den_nz
  obtain ⟨hn1, hn2⟩ := natLog10_spec _ hn0
  obtain ⟨hd1, hd2⟩ := natLog10_spec _ hd0
  set a := natLog10 x.num.natAbs
  set b := natLog10 x.den
  have hxd : x * (x.den : ℚ) = (x.num.natAbs : ℚ) := by
    have h1 : x * (x.den : ℚ) = (x.num : ℚ) := Rat.mul_den_eq_num x
    have h2 : ((x.num.natAbs : ℤ) : ℚ) = (x.num : ℚ) := by
      rw [Int.natAbs_of_nonneg hnum.le]
    rw [h1, ← h2]; exact Int.cast_natCast _
  have hn1' : (10:ℚ) ^ a ≤ (x.num.natAbs : ℚ) := by exact_mod_cast hn1
  have hn2' : (x.num.natAbs : ℚ) < (10:ℚ) ^ (a + 1) := by exact_mod_cast hn2
  have hd1' : (10:ℚ) ^ b ≤ (x.den : ℚ) := by exact_mod_cast hd1
  have hd2' : (x.den : ℚ) < (10:ℚ) ^ (b + 1) := by exact_mod_cast hd2
  have h10 : (10:ℚ) ≠ 0 := by norm_num
  have hpb : (0:ℚ) < 10 ^ b := by positivity
  have hpb1 : (0:ℚ) < 10 ^ (b + 1) := by positivity
  -- x < 10^(a-b+1)
  have up : x < (10:ℚ) ^ ((a : ℤ) - (b : ℤ) + 1) := by
    have e : (10:ℚ) ^ ((a : ℤ) - (b : ℤ) + 1) = 10 ^ (a + 1) / 10 ^ b := by
      rw [show (a : ℤ) - (b : ℤ) + 1 = ((a + 1 : ℕ) : ℤ) - ((b : ℕ) : ℤ) by push_cast; ring,
        zpow_sub₀ h10, zpow_natCast, zpow_natCast]
    rw [e, lt_div_iff₀ hpb]
    calc x * 10 ^ b ≤ x * (x.den : ℚ) := by exact mul_le_mul_of_nonneg_left hd1' hx.le
      _ = (x.num.natAbs : ℚ) := hxd
      _ < 10 ^ (a + 1) := hn2'
  have lo : (10:ℚ) ^ ((a : ℤ) - (b : ℤ) - 1) < x := by
    have e : (10:ℚ) ^ ((a : ℤ) - (b : ℤ) - 1) = 10 ^ a / 10 ^ (b + 1) := by
      rw [show (a : ℤ) - (b : ℤ) - 1 = ((a : ℕ) : ℤ) - ((b + 1 : ℕ) : ℤ) by push_cast; ring,
        zpow_sub₀ h10, zpow_natCast, zpow_natCast]
    rw [e, div_lt_iff₀ hpb1]
    calc (10:ℚ) ^ a ≤ (x.num.natAbs : ℚ) := hn1'
      _ = x * (x.den : ℚ) := hxd.symm
      _ < x * 10 ^ (b + 1) := by exact mul_lt_mul_of_pos_left hd2' hx
  unfold decade
  simp only [scale10_eq, one_mul]
  split_ifs with hc
  · exact ⟨hc, up⟩
  · refine ⟨lo.le, ?_⟩
    rw [show (a : ℤ) - (b : ℤ) - 1 + 1 = (a : ℤ) - (b : ℤ) by ring]
    exact not_le.mp hc

/-- the decade is unique -/
theorem decade_unique (x : ℚ) (hx : 0 < x) (d : ℤ) (h1 : (10:ℚ) ^ d ≤ x) (h2 : x < (10:ℚ) ^ (d + 1)) :
    decade x = d := by
  obtain ⟨s1, s2⟩ := decade_spec x hx
  have h10 : (1:ℚ) < 10 := by norm_num
  have a : decade x < d + 1 := (zpow_lt_zpow_iff_right₀ h10).mp (lt_of_le_of_lt s1 h2)
  have b : d < decade x + 1 := (zpow_lt_zpow_iff_right₀ h10).mp (lt_of_le_of_lt h1 s2)
  omega

/-- rounding to a multiple of `u` is within `u/2` -/
theorem round_unit (f u : ℚ) (hu : 0 < u) : |((rhe (f / u) : ℤ) : ℚ) * u - f| ≤ u / 2 := by
  have h := rhe_abs_le (f / u)
  have e : ((rhe (f / u) : ℤ) : ℚ) * u - f = (((rhe (f / u) : ℤ) : ℚ) - f / u) * u := by
    field_simp
  rw [e, abs_mul, abs_of_pos hu]
  calc |((rhe (f / u) : ℤ) : ℚ) - f / u| * u ≤ (1/2) * u := mul_le_mul_of_nonneg_right h hu.le
    _ = u / 2 := by ring


theorem rabs_pos {f : ℚ} (h : 0 < f) : rabs f = f := by
  unfold rabs; rw [if_neg (not_lt.mpr h.le)]

theorem expOf_cases (f : ℚ) (hf : 0 < f) :
    expOf f = decade f ∨
      (expOf f = decade f + 1 ∧ rhe (f * (10:ℚ) ^ (6 - decade f)) = 10000000) := by
  unfold expOf
  simp only [rabs_pos hf, scale10_eq]
  rw [if_neg hf.ne']
  split_ifs with h
  · right; exact ⟨rfl, h⟩
  · left; rfl

theorem niceSel_sum (pwr : ℤ) (p : String) (k nd : ℤ) (h : niceSel pwr = some (p, k, nd)) :
    k + nd = 2 - pwr ∧ 1 ≤ nd ∧ nd ≤ 3 ∧ -13 ≤ pwr ∧ pwr ≤ 7 := by
  unfold niceSel at h
  split_ifs at h <;>
    (simp only [Option.some.injEq, Prod.mk.injEq] at h
     obtain ⟨_, rfl, rfl⟩ := h
     omega)

theorem niceSel_none (pwr : ℤ) (h : niceSel pwr = none) : pwr < -13 ∨ 7 < pwr := by
  unfold niceSel at h
  split_ifs at h with h1
  exact h1

/-- the value shown is `f` rounded (half-even) to a multiple of `10^(E−2)`, where `E` is the `"{:e}"`
    exponent (SI form) or the decade (`%.2e` form) -/
theorem niceVal_eq (f : ℚ) (hf : 0 < f) :
    ∃ E : ℤ, (E = expOf f ∨ E = decade f) ∧
      niceVal f = ((rhe (f / (10:ℚ) ^ (E - 2)) : ℤ) : ℚ) * (10:ℚ) ^ (E - 2) := by
  have h10 : (10:ℚ) ≠ 0 := by norm_num
  unfold niceVal niceParts
  cases hs : niceSel (expOf f) with
  | some t =>
    obtain ⟨p, k, nd⟩ := t
    obtain ⟨hsum, _, _⟩ := niceSel_sum _ _ _ _ hs
    refine ⟨expOf f, Or.inl rfl, ?_⟩
    simp only [scale10_eq]
    have e1 : f * (10:ℚ) ^ k * (10:ℚ) ^ nd = f / (10:ℚ) ^ (expOf f - 2) := by
      rw [mul_assoc, ← zpow_add₀ h10, hsum, show (2 - expOf f) = -(expOf f - 2) by ring, zpow_neg,
        div_eq_mul_inv]
    rw [e1, show -(k + nd) = expOf f - 2 by omega]
  | none =>
    refine ⟨decade f, Or.inr rfl, ?_⟩
    have e1 : f * (10:ℚ) ^ (2 - decade f) = f / (10:ℚ) ^ (decade f - 2) := by
      rw [show (2 - decade f) = -(decade f - 2) by ring, zpow_neg, div_eq_mul_inv]
    simp only [e2Parts, rabs_pos hf, if_neg hf.ne', if_neg (not_lt.mpr hf.le), scale10_eq, e1]
    by_cases hm : rhe (f / (10:ℚ) ^ (decade f - 2)) = 1000
    · simp only [hm, if_true]
      rw [show decade f + 1 - 2 = (decade f - 2) + 1 by ring, zpow_add_one₀ h10]
      push_cast; ring
    · simp only [hm, if_false]

/-- **three significant digits**: for every positive `f`, the number `_nice_float` shows (SI prefix or
    `%.2e` form) differs from `f` by at most half a unit of `f`'s third significant digit -/
theorem niceVal_3sig (f : ℚ) (hf : 0 < f) :
    |niceVal f - f| ≤ (1/2) * (10:ℚ) ^ (decade f - 2) := by
  have h10 : (10:ℚ) ≠ 0 := by norm_num
  obtain ⟨E, hE, hv⟩ := niceVal_eq f hf
  have direct : ∀ E : ℤ, E = decade f →
      niceVal f = ((rhe (f / (10:ℚ) ^ (E - 2)) : ℤ) : ℚ) * (10:ℚ) ^ (E - 2) →
      |niceVal f - f| ≤ (1/2) * (10:ℚ) ^ (decade f - 2) := by
    intro E hE hv
    subst hE
    rw [hv]
    have := round_unit f ((10:ℚ) ^ (decade f - 2)) (zpow_pos (by norm_num) _)
    linarith
  rcases hE with hE | hE
  · rcases expOf_cases f hf with hc | ⟨hc, hr⟩
    · exact direct E (hE.trans hc) hv
    · -- the band just below a power of ten: `"{:e}"` rounds the mantissa up to 10.00000
      obtain ⟨s1, s2⟩ := decade_spec f hf
      set d := decade f with hd
      set w : ℚ := (10:ℚ) ^ (d - 2) with hw
      have hwpos : 0 < w := zpow_pos (by norm_num) _
      have e6 : (10:ℚ) ^ (6 - d) = 10 ^ 4 / w := by
        rw [show (6 - d) = (4 : ℤ) - (d - 2) by ring, zpow_sub₀ h10]; norm_num [hw]
      have eu : (10:ℚ) ^ (E - 2) = w * 10 := by
        rw [hE, hc, show d + 1 - 2 = (d - 2) + 1 by ring, zpow_add_one₀ h10]
      have etop : (10:ℚ) ^ (d + 1) = w * 1000 := by
        rw [show d + 1 = (d - 2) + 3 by ring, zpow_add₀ h10]; norm_num [hw]
      set g : ℚ := f / w with hg
      have hfg : f = g * w := by rw [hg]; field_simp
      have hg1 : g < 1000 := by
        rw [hg, div_lt_iff₀ hwpos]; linarith
      have hg0 : 1000 - 1 / 20000 ≤ g := by
        have h := rhe_abs_le (f * (10:ℚ) ^ (6 - d))
        rw [hr, e6, abs_le] at h
        have : f * (10 ^ 4 / w) = 10 ^ 4 * g := by rw [hg]; ring
        rw [this] at h
        push_cast at h
        linarith [h.1, h.2]
      have hN : rhe (f / (w * 10)) = 100 := by
        apply rhe_eq_of_abs_lt
        have : f / (w * 10) = g / 10 := by rw [hg]; field_simp
        rw [this, abs_lt]; push_cast
        constructor <;> linarith
      rw [hv, eu, hN, hfg]
      have : ((100 : ℤ) : ℚ) * (w * 10) - g * w = (1000 - g) * w := by push_cast; ring
      rw [this, abs_of_nonneg (mul_nonneg (by linarith) hwpos.le)]
      nlinarith
  · exact direct E hE hv

/-! ### what a successful `diag` consists of -/

theorem forall₂_flatMap {β γ δ : Type} {R : β → γ → Prop} (g : γ → List δ) (h' : β → List δ)
    (hR : ∀ a b, R a b → g b = h' a) {l : List β} {r : List γ} (h : List.Forall₂ R l r) :
    r.flatMap g = l.flatMap h' := by
  induction h with
  | nil => rfl
  | cons hab _ ih => simp [hR _ _ hab, ih]

theorem forall₂_mem_right {β γ : Type} {R : β → γ → Prop} {l : List β} {r : List γ}
    (h : List.Forall₂ R l r) : ∀ b ∈ r, ∃ a ∈ l, R a b := by
  induction h with
  | nil => simp
  | cons hab _ ih =>
    intro b hb
    rcases List.mem_cons.mp hb with rfl | hb
    · exact ⟨_, List.mem_cons_self, hab⟩
    · obtain ⟨a, ha, hr⟩ := ih b hb
      exact ⟨a, List.mem_cons_of_mem _ ha, hr⟩

theorem heatNode_inv {rows : List (HeatRow Rat)} {name : String} {conf conf' : Attrs}
    (h : heatNode rows name conf = .ok conf') :
    ∃ r col, rows.find? (fun r => r.name = name) = some r ∧ gcolor r.mix = .ok col ∧
      conf' = aset (aset (aset conf "fillcolor" col) "fontcolor" "silver") "label"
                (name ++ "\n" ++ niceFloat r.loss ++ "W") := by
  unfold heatNode at h
  split at h
  · cases h
  · rename_i r hr
    split at h
    · cases h
    · rename_i col hc
      cases h
      exact ⟨r, col, hr, hc, rfl⟩

theorem mkNode_inv {node : Option Sect} {ldf : Option (List (HeatRow Rat))} {c : CompIn} {n : DNode}
    (h : mkNode node ldf c = .ok n) :
    n.name = c.name ∧ ∃ ns conf, node = some ns ∧ nodeConf ns c.kind.className c.name = .ok conf ∧
      match ldf with
      | none => n.attrs = withLabel c.name conf
      | some rows => ∃ conf', heatNode rows c.name conf = .ok conf' ∧ n.attrs = withLabel c.name conf' := by
  cases node with
  | none => simp [mkNode] at h
  | some ns =>
    cases hconf : nodeConf ns c.kind.className c.name with
    | error e => simp [mkNode, hconf] at h
    | ok conf =>
      cases ldf with
      | none =>
        simp only [mkNode, hconf, Except.ok.injEq] at h
        subst h
        exact ⟨rfl, ns, conf, rfl, hconf, rfl⟩
      | some rows =>
        cases hh : heatNode rows c.name conf with
        | error e => simp [mkNode, hconf, hh] at h
        | ok conf' =>
          simp only [mkNode, hconf, hh, Except.ok.injEq] at h
          subst h
          exact ⟨rfl, ns, conf, rfl, hconf, conf', hh, rfl⟩

theorem mkNode_name {node : Option Sect} {ldf : Option (List (HeatRow Rat))} (c : CompIn) (n : DNode)
    (h : mkNode node ldf c = .ok n) : n.name = c.name := (mkNode_inv h).1

theorem mkCluster_inv {bd : Config} {ldf : Option (List (HeatRow Rat))} {gm : String × List CompIn}
    {cl : DCluster} (h : mkCluster bd ldf gm = .ok cl) :
    cl.name = "cluster_" ++ gm.1 ∧ cl.label = gm.1 ∧ mapE (mkNode bd.node ldf) gm.2 = .ok cl.nodes ∧
      ∃ cs, bd.cluster = some cs ∧ clusterConf cs gm.1 = .ok cl.attrs := by
  unfold mkCluster at h
  split at h
  · cases h
  · rename_i cs hcs
    split at h
    · cases h
    · rename_i cconf hcc
      split at h
      · cases h
      · split at h
        · cases h
        · rename_i ns hns
          cases h
          exact ⟨rfl, rfl, hns, cs, hcs, hcc⟩

theorem mkScale_inv {names : List String} {gconf : Attrs} {ls : List Rat} {s : DNode}
    (h : mkScale names gconf ls = .ok s) :
    s.name = freshScale names ∧ ∃ rd, aget gconf "rankdir" = some rd ∧
      aget s.attrs "label" = some (if rd = "TB" ∨ rd = "BT" then "{" ++ (niceFloat (maxOf ls) ++ "W|  |  | 0W") ++ "}"
                                  else niceFloat (maxOf ls) ++ "W|  |  | 0W") := by
  unfold mkScale at h
  split at h
  · cases h
  · rename_i rd hrd
    cases h
    exact ⟨rfl, rd, hrd, by simp only [aget_aset_self]⟩

/-- what a successful `diag` consists of -/
theorem diag_inv {sn : String} {comps : List CompIn} {edges : List (String × String)} {cfg : Config}
    {group : Bool} {heat : Option (HeatIn Rat)} {d : DotGraph}
    (h : diag sn comps edges cfg group heat = .ok d) :
    mapE (mkCluster (effConf cfg) (heat.map prepLoss)) (layout comps group).1 = .ok d.clusters ∧
    mapE (mkNode (effConf cfg).node (heat.map prepLoss)) (layout comps group).2 = .ok d.nodes ∧
    (match heat with
     | none => d.scale = none
     | some hh => ∃ gconf s, (effConf cfg).graph = some gconf ∧ mkScale (comps.map CompIn.name) gconf (heatLosses hh) = .ok s ∧
         d.scale = some s) ∧
    d.edges.map (fun e => (e.src, e.dst)) = edges ∧
    (∀ e ∈ d.edges, (effConf cfg).edge = some e.attrs) ∧
    ∃ gconf, (effConf cfg).graph = some gconf ∧
      d.attrs = ("label", sn ++ (if heat.isSome then " - Loss heat map" else "")) :: gconf := by
  unfold diag at h
  simp only at h
  split at h
  · cases h
  · rename_i gconf hg
    split at h
    · cases h
    · split at h
      · cases h
      · rename_i cls hcls
        split at h
        · cases h
        · rename_i top htop
          split at h
          · cases h
          · rename_i sc hsc
            split at h
            · cases h
            · rename_i es hes
              cases h
              refine ⟨hcls, htop, ?_, ?_, ?_, gconf, hg, rfl⟩
              · cases heat with
                | none => simp at hsc; exact hsc.symm
                | some hh =>
                  simp only [Except.map] at hsc
                  split at hsc
                  · cases hsc
                  · rename_i s hs
                    cases hsc
                    exact ⟨gconf, s, hg, hs, rfl⟩
              · split at hes
                · rename_i he
                  cases hes
                  simp only [List.isEmpty_iff] at he
                  simp [he]
                · split at hes
                  · cases hes
                  · cases hes
                    simp [List.map_map, Function.comp_def]
              · split at hes
                · cases hes; simp
                · split at hes
                  · cases hes
                  · rename_i ec hec
                    cases hes
                    intro e he
                    simp only [List.mem_map] at he
                    obtain ⟨x, _, rfl⟩ := he
                    exact hec

/-! ### heat map -/

section Heat
variable {α : Type} [Field α] [LinearOrder α] [IsStrictOrderedRing α]

theorem foldl_nmax_ge (l : List α) (x : α) :
    x ≤ l.foldl nmax x ∧ ∀ y ∈ l, y ≤ l.foldl nmax x := by
  induction l generalizing x with
  | nil => simp
  | cons a t ih =>
    simp only [List.foldl_cons, nmax_eq_max]
    obtain ⟨h1, h2⟩ := ih (max x a)
    refine ⟨le_trans (le_max_left _ _) h1, ?_⟩
    intro y hy
    rcases List.mem_cons.mp hy with rfl | hy
    · exact le_trans (le_max_right _ _) h1
    · exact h2 y hy

theorem foldl_nmax_mem (l : List α) (x : α) : l.foldl nmax x = x ∨ l.foldl nmax x ∈ l := by
  induction l generalizing x with
  | nil => simp
  | cons a t ih =>
    simp only [List.foldl_cons, nmax_eq_max]
    rcases ih (max x a) with h | h
    · rcases max_choice x a with hm | hm
      · left; rw [h, hm]
      · right; rw [h, hm]; exact List.mem_cons_self
    · right; exact List.mem_cons_of_mem _ h

/-- every entry is at most `Series.max()` -/
theorem le_maxOf {l : List α} {x : α} (h : x ∈ l) : x ≤ maxOf l := by
  cases l with
  | nil => simp at h
  | cons a t =>
    unfold maxOf
    rcases List.mem_cons.mp h with rfl | h
    · exact (foldl_nmax_ge t _).1
    · exact (foldl_nmax_ge t a).2 x h

/-- the maximum is attained -/
theorem maxOf_mem {l : List α} (h : l ≠ []) : maxOf l ∈ l := by
  cases l with
  | nil => exact absurd rfl h
  | cons a t =>
    show List.foldl nmax a t ∈ a :: t
    rcases foldl_nmax_mem t a with h | h
    · rw [h]; exact List.mem_cons_self
    · exact List.mem_cons_of_mem _ h

theorem mixDen_pos (ls : List α) (h : 0 ≤ maxOf ls) : 0 < mixDen ls := by
  unfold mixDen
  split_ifs with hz
  · exact one_pos
  · exact lt_of_le_of_ne h (fun e => hz ((isZ_iff _).mpr e.symm))

theorem mixDen_of_ne (ls : List α) (h : maxOf ls ≠ 0) : mixDen ls = maxOf ls := by
  unfold mixDen
  rw [if_neg (fun hz => h ((isZ_iff _).mp hz))]

/-- the rows of `_prep_loss` -/
theorem prepLoss_mem {h : HeatIn α} {r : HeatRow α} (hr : r ∈ prepLoss h) :
    ∃ i, h.rows[i]? = some r.name ∧ r.loss = wloss h i ∧
      r.mix = r.loss / mixDen (heatLosses h) ∧ r.loss ∈ heatLosses h := by
  unfold prepLoss at hr
  simp only [List.mem_map] at hr
  obtain ⟨⟨n, i⟩, hmem, rfl⟩ := hr
  have hi := List.mem_zipIdx_iff_getElem?.mp hmem
  refine ⟨i, hi, rfl, rfl, ?_⟩
  unfold heatLosses
  simp only [List.mem_map, List.mem_range]
  refine ⟨i, ?_, rfl⟩
  simp only at hi
  by_contra hlt
  rw [List.getElem?_eq_none (by omega)] at hi
  cases hi

/-- colours are ordered as the losses: the mix is monotone in the loss -/
theorem mix_mono {h : HeatIn α} (hmax : 0 ≤ maxOf (heatLosses h)) {a b : HeatRow α}
    (ha : a ∈ prepLoss h) (hb : b ∈ prepLoss h) (hab : a.loss ≤ b.loss) : a.mix ≤ b.mix := by
  obtain ⟨_, _, _, ea, _⟩ := prepLoss_mem ha
  obtain ⟨_, _, _, eb, _⟩ := prepLoss_mem hb
  rw [ea, eb]
  exact div_le_div_of_nonneg_right hab (mixDen_pos _ hmax).le

/-- the largest loss has mix 1 -/
theorem mix_at_max {h : HeatIn α} {r : HeatRow α} (hr : r ∈ prepLoss h)
    (hm : r.loss = maxOf (heatLosses h)) (hne : maxOf (heatLosses h) ≠ 0) : r.mix = 1 := by
  obtain ⟨_, _, _, e, _⟩ := prepLoss_mem hr
  rw [e, mixDen_of_ne _ hne, hm, div_self hne]

/-- zero loss has mix 0 -/
theorem mix_at_zero {h : HeatIn α} {r : HeatRow α} (hr : r ∈ prepLoss h) (hz : r.loss = 0) :
    r.mix = 0 := by
  obtain ⟨_, _, _, e, _⟩ := prepLoss_mem hr
  rw [e, hz, zero_div]

/-- with non-negative losses the mix stays in `[0, 1]` -/
theorem mix_range {h : HeatIn α} (hpos : ∀ l ∈ heatLosses h, 0 ≤ l) {r : HeatRow α}
    (hr : r ∈ prepLoss h) : 0 ≤ r.mix ∧ r.mix ≤ 1 := by
  obtain ⟨_, _, _, e, hl⟩ := prepLoss_mem hr
  have h0 := hpos _ hl
  have hmax : 0 ≤ maxOf (heatLosses h) := le_trans h0 (le_maxOf hl)
  have hd := mixDen_pos _ hmax
  rw [e]
  refine ⟨div_nonneg h0 hd.le, ?_⟩
  rw [div_le_one hd]
  have hle := le_maxOf hl
  by_cases hz : maxOf (heatLosses h) = 0
  · have : mixDen (heatLosses h) = 1 := by
      unfold mixDen; rw [if_pos ((isZ_iff _).mpr hz)]
    rw [this]; linarith
  · rw [mixDen_of_ne _ hz]; exact hle

/-- the label loss with phases is the duration-weighted mean -/
theorem wloss_weighted (h : HeatIn α) (hp : h.phases ≠ []) (i : ℕ) :
    wloss h i = (List.zipWith (fun p l => p.2 * l.getD i 0) h.phases h.loss).sum
                  / (h.phases.map (·.2)).sum := by
  unfold wloss
  have : h.phases.isEmpty = false := by
    cases hh : h.phases with
    | nil => exact absurd hh hp
    | cons _ _ => rfl
  simp only [this, Bool.false_eq_true, if_false, sumL_eq_sum]

theorem wloss_single (h : HeatIn α) (hp : h.phases = []) (i : ℕ) :
    wloss h i = (h.loss.headD []).getD i 0 := by
  unfold wloss
  simp [hp]

end Heat

/-! ### colour channels -/

theorem gchan_mono {c1 c2 : ℕ} (hc : c1 ≤ c2) {m m' : ℚ} (h : m ≤ m') : gchan c1 c2 m ≤ gchan c1 c2 m' := by
  unfold gchan
  have : (c1 : ℚ) ≤ c2 := by exact_mod_cast hc
  nlinarith

theorem gchan_anti {c1 c2 : ℕ} (hc : c2 ≤ c1) {m m' : ℚ} (h : m ≤ m') : gchan c1 c2 m' ≤ gchan c1 c2 m := by
  unfold gchan
  have : (c2 : ℚ) ≤ c1 := by exact_mod_cast hc
  nlinarith

theorem gchannels_inv {m : ℚ} {c : ℕ × ℕ × ℕ} (h : gchannels m = .ok c) :
    c = ((rhe (gchan 33 255 m)).toNat, (rhe (gchan 32 18 m)).toNat, (rhe (gchan 255 16 m)).toNat) := by
  unfold gchannels at h
  simp only at h
  split_ifs at h
  cases h
  rfl

/-- channel-wise monotone colour: more mix → more red, less green, less blue -/
theorem gchannels_mono {m m' : ℚ} (h : m ≤ m') {c c' : ℕ × ℕ × ℕ}
    (hc : gchannels m = .ok c) (hc' : gchannels m' = .ok c') :
    c.1 ≤ c'.1 ∧ c'.2.1 ≤ c.2.1 ∧ c'.2.2 ≤ c.2.2 := by
  rw [gchannels_inv hc, gchannels_inv hc']
  refine ⟨Int.toNat_le_toNat (rhe_mono (gchan_mono (by norm_num) h)),
          Int.toNat_le_toNat (rhe_mono (gchan_anti (by norm_num) h)),
          Int.toNat_le_toNat (rhe_mono (gchan_anti (by norm_num) h))⟩

/-- a mix in `[0, 1]` always has a colour (no `ValueError` from `to_hex`) -/
theorem gchannels_ok {m : ℚ} (h0 : 0 ≤ m) (h1 : m ≤ 1) : ∃ c, gchannels m = .ok c := by
  unfold gchannels
  simp only []
  split_ifs with hbad
  · exfalso
    unfold gchan at hbad
    push_cast at hbad
    rcases hbad with h | h | h | h | h | h <;> nlinarith
  · exact ⟨_, rfl⟩

/-- between 1e-13 and 99999995 the SI form is used (from 99999995 up `"{:e}"` already prints `e+08`, and the
    `%.2e` form `1.00e+08` is shown) -/
theorem nice_si_form (f : ℚ) (h1 : (10:ℚ) ^ (-13 : ℤ) ≤ f) (h2 : f < 99999995) :
    ∃ p k nd, niceSel (expOf f) = some (p, k, nd) := by
  have h10 : (1:ℚ) < 10 := by norm_num
  have hf : 0 < f := lt_of_lt_of_le (zpow_pos (by norm_num) _) h1
  obtain ⟨s1, s2⟩ := decade_spec f hf
  have lo : (-13 : ℤ) < decade f + 1 := (zpow_lt_zpow_iff_right₀ h10).mp (lt_of_le_of_lt h1 s2)
  have hi : decade f < 8 := by
    have : (10:ℚ) ^ decade f < (10:ℚ) ^ (8 : ℤ) := lt_of_le_of_lt s1 (by norm_num; linarith)
    exact (zpow_lt_zpow_iff_right₀ h10).mp this
  have hE : -13 ≤ expOf f ∧ expOf f ≤ 7 := by
    rcases expOf_cases f hf with hc | ⟨hc, hr⟩
    · omega
    · by_cases h7 : decade f = 7
      · exfalso
        have h := rhe_abs_le (f * (10:ℚ) ^ (6 - decade f))
        rw [hr, h7, abs_le] at h
        norm_num at h
        linarith [h.1, h.2]
      · omega
  cases hs : niceSel (expOf f) with
  | none => rcases niceSel_none _ hs with h | h <;> omega
  | some t => exact ⟨t.1, t.2.1, t.2.2, rfl⟩

/-! ### the legend's name is fresh -/

theorem countP_len_lt (names : List String) (s : String) (h : s ∈ names) :
    names.countP (fun n => decide ((s ++ "_").length ≤ n.length)) + 1
      ≤ names.countP (fun n => decide (s.length ≤ n.length)) := by
  have hl : (s ++ "_").length = s.length + 1 := by
    rw [String.length_append]; rfl
  induction names with
  | nil => simp at h
  | cons a t ih =>
    simp only [List.countP_cons, hl]
    rcases List.mem_cons.mp h with rfl | h
    · have mono : t.countP (fun n => decide (s.length + 1 ≤ n.length)) ≤ t.countP (fun n => decide (s.length ≤ n.length)) := by
        apply List.countP_mono_left
        intro x _ hx
        simp only [decide_eq_true_eq] at hx ⊢
        omega
      simp
      omega
    · have := ih h
      simp only [hl] at this
      by_cases h1 : s.length + 1 ≤ a.length
      · have h2 : s.length ≤ a.length := by omega
        simp [h1, h2]; omega
      · by_cases h2 : s.length ≤ a.length
        · simp [h1, h2]; omega
        · simp [h1, h2]; omega

theorem freshFrom_not_mem (names : List String) :
    ∀ (fuel : ℕ) (s : String), names.countP (fun n => decide (s.length ≤ n.length)) ≤ fuel →
      freshFrom names fuel s ∉ names
  | 0, s, h => by
    unfold freshFrom
    intro hm
    have : 0 < names.countP (fun n => decide (s.length ≤ n.length)) :=
      List.countP_pos_iff.mpr ⟨s, hm, by simp⟩
    omega
  | fuel + 1, s, h => by
    unfold freshFrom
    split_ifs with hm
    · exact freshFrom_not_mem names fuel (s ++ "_") (by have := countP_len_lt names s hm; omega)
    · exact hm

/-- the legend node never has a component's name -/
theorem freshScale_not_mem (names : List String) : freshScale names ∉ names :=
  freshFrom_not_mem names names.length "Scale" (List.countP_le_length)

theorem freshScale_of_not_mem (names : List String) (h : "Scale" ∉ names) : freshScale names = "Scale" := by
  unfold freshScale
  cases hn : names.length with
  | zero => rfl
  | succ k => unfold freshFrom; rw [if_neg h]

/-! ### quoted identifiers are read back as the name -/

theorem dotLex_quote (l : List Char) :
    (bsOk false l = true → dotLex false (quoteBody l ++ ['"']) = some l) ∧
    (bsOk true l = true → dotLex true (quoteBody l ++ ['"']) = some ('\\' :: l)) := by
  induction l with
  | nil =>
    constructor
    · intro _; simp [quoteBody, dotLex]
    · intro h; simp [bsOk] at h
  | cons c t ih =>
    obtain ⟨P, Q⟩ := ih
    by_cases hq : c = '"'
    · subst hq
      constructor
      · intro h
        have h' : bsOk false t = true := by simpa [bsOk] using h
        simp [quoteBody, dotLex, P h']
      · intro h; simp [bsOk] at h
    · by_cases hb : c = '\\'
      · subst hb
        constructor
        · intro h
          have h' : bsOk true t = true := by simpa [bsOk] using h
          simp [quoteBody, dotLex, Q h']
        · intro h
          have h' : bsOk false t = true := by simpa [bsOk] using h
          simp [quoteBody, dotLex, P h']
      · constructor
        · intro h
          have h' : bsOk false t = true := by simpa [bsOk, hb] using h
          simp [quoteBody, dotLex, hq, hb, P h']
        · intro h
          have h' : bsOk false t = true := by simpa [bsOk, hq] using h
          simp [quoteBody, dotLex, hq, hb, P h']

/-- Graphviz reads `_q(name)` back as `name`, for every name DOT can express -/
theorem renderedId_eq (name : String) (h : nameOk name = true) : renderedId name = some name := by
  unfold renderedId
  rw [(dotLex_quote name.toList).1 h]
  simp

theorem bsOk_of_no_backslash (l : List Char) (h : '\\' ∉ l) : bsOk false l = true := by
  induction l with
  | nil => rfl
  | cons c t ih =>
    have hc : c ≠ '\\' := fun e => h (e ▸ List.mem_cons_self)
    simp [bsOk, hc, ih (fun e => h (List.mem_cons_of_mem _ e))]

theorem bsOk_append_of_no_backslash (l1 l2 : List Char) (h : '\\' ∉ l1) :
    bsOk false (l1 ++ l2) = bsOk false l2 := by
  induction l1 with
  | nil => rfl
  | cons c t ih =>
    have hc : c ≠ '\\' := fun e => h (e ▸ List.mem_cons_self)
    simp [bsOk, hc, ih (fun e => h (List.mem_cons_of_mem _ e))]

/-! ### clamped mix -/

theorem clamp01_eq (m : ℚ) : clamp01 m = min (max m 0) 1 := by
  unfold clamp01; simp

theorem clamp01_range (m : ℚ) : 0 ≤ clamp01 m ∧ clamp01 m ≤ 1 := by
  rw [clamp01_eq]
  exact ⟨le_min (le_max_right _ _) zero_le_one, min_le_right _ _⟩

theorem clamp01_mono {m m' : ℚ} (h : m ≤ m') : clamp01 m ≤ clamp01 m' := by
  rw [clamp01_eq, clamp01_eq]
  exact min_le_min (max_le_max h le_rfl) le_rfl

theorem clamp01_of_range {m : ℚ} (h0 : 0 ≤ m) (h1 : m ≤ 1) : clamp01 m = m := by
  rw [clamp01_eq, max_eq_left h0, min_eq_left h1]

/-- `_gcolor` never raises -/
theorem gcolor_ok (m : ℚ) : ∃ col, gcolor m = .ok col := by
  obtain ⟨h0, h1⟩ := clamp01_range m
  obtain ⟨c, hc⟩ := gchannels_ok h0 h1
  exact ⟨hexColor c, by simp [gcolor, hc, Except.map]⟩

end Diagram
end SysLoss
