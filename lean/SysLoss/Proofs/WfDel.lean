/-
  Proofs/WfDel — `del_comp` preserves well-formedness for `Safe` calls.

  `Pruned s K s'`: `s'` is `s` without the nodes `K`, their edges and their registry entries (closed form of the
  deletion loop followed by `remove_node(eidx)` and the four `del`).  With `del_childs=True`, `K` is the node and
  its descendants — closed under successors, so nobody loses a parent; with `del_childs=False`, `K` is the node
  alone and its children are re-linked to its (first) parent.
-/
import SysLoss.Proofs.WfChange

set_option linter.unusedSectionVars false
set_option linter.unusedSimpArgs false
set_option linter.unusedVariables false

namespace SysLoss

theorem nodup_eraseDups {α : Type} [DecidableEq α] (l : List α) : l.eraseDups.Nodup := by
  generalize hn : l.length = n
  induction n using Nat.strongRecOn generalizing l with
  | _ n ih =>
    cases l with
    | nil => simp
    | cons a as =>
      rw [List.eraseDups_cons]
      apply List.nodup_cons.mpr
      constructor
      · simp
      · apply ih (as.filter fun b => !b == a).length _ _ rfl
        have := List.length_filter_le (fun b => !b == a) as
        simp at hn; omega

theorem nodup_reachAux (k : Nat) (E : List (Nat × Nat)) (S : List Nat) (h : S.Nodup) : (reachAux k E S).Nodup := by
  induction k generalizing S with
  | zero => simpa [reachAux] using h
  | succ k ih =>
    unfold reachAux
    simp only
    split
    · exact h
    · apply ih
      apply List.nodup_append.mpr
      refine ⟨h, ?_, ?_⟩
      · unfold newSuccs; exact nodup_eraseDups _
      · intro a ha b hb e
        subst e
        exact (mem_newSuccs.mp hb).1 ha

section
variable {π ν : Type} [CompLike π]

theorem nodup_descendants (s : Sys π ν) (n : Nat) : (s.descendants n).Nodup := by
  unfold Sys.descendants reachSet
  exact (nodup_reachAux _ _ _ (by simp)).filter _

namespace Sys
/-- the names of the live nodes among `K` -/
def namesOf (s : Sys π ν) (K : List Nat) : List String := K.filterMap s.nameOf
end Sys

structure Pruned (s : Sys π ν) (K : List Nat) (s' : Sys π ν) : Prop where
  comps : s'.comps = s.comps.filter fun p => decide (p.1 ∉ K)
  edges : s'.edges = s.edges.filter fun e => decide (e.1 ∉ K) && decide (e.2 ∉ K)
  nodes : s'.nodes = s.nodes.filter fun p => decide (p.1 ∉ s.namesOf K)
  pconf : s'.phaseConf = s.phaseConf.filter fun p => decide (p.1 ∉ s.namesOf K)
  groups : s'.groups = s.groups.filter fun p => decide (p.1 ∉ s.namesOf K)
  rails : s'.rails = s.rails.filter fun p => decide (p.1 ∉ s.namesOf K)
  pnames : s'.pnames = s.pnames

theorem pruned_nil (s : Sys π ν) : Pruned s [] s := by
  constructor <;> first | rfl | (symm; apply List.filter_eq_self.mpr; intro a _; simp [Sys.namesOf])

theorem mem_namesOf {s : Sys π ν} {K : List Nat} {x : String} :
    x ∈ s.namesOf K ↔ ∃ k ∈ K, ∃ c, s.payload? k = some c ∧ nameOfC c = x := by
  unfold Sys.namesOf Sys.nameOf
  simp only [List.mem_filterMap, Option.map_eq_some_iff]

/-- all registries know every live name (part of `WFr`, in the form the deletion loop needs) -/
structure RegsKnow (s : Sys π ν) : Prop where
  names_nodup : s.names.Nodup
  nodes : ∀ p ∈ s.comps, nameOfC p.2 ∈ dkeys s.nodes
  pconf : ∀ p ∈ s.comps, nameOfC p.2 ∈ dkeys s.phaseConf
  groups : ∀ p ∈ s.comps, nameOfC p.2 ∈ dkeys s.groups
  rails : ∀ p ∈ s.comps, nameOfC p.2 ∈ dkeys s.rails

theorem regsKnow_of_wfr {s : Sys π ν} (hw : WFr s) : RegsKnow s :=
  ⟨hw.names_nodup, fun p hp => dget_some_key (hw.nodes_get p hp),
   fun p hp => (hw.pconf_keys _).mpr (mem_names_of_mem hp),
   fun p hp => (hw.groups_keys _).mpr (mem_names_of_mem hp),
   fun p hp => (hw.rails_keys _).mpr (mem_names_of_mem hp)⟩

theorem delRegs_ok {s : Sys π ν} {x : String} (h1 : x ∈ dkeys s.nodes) (h2 : x ∈ dkeys s.phaseConf)
    (h3 : x ∈ dkeys s.groups) (h4 : x ∈ dkeys s.rails) :
    s.delRegs x = ({ s with nodes := ddel s.nodes x, phaseConf := ddel s.phaseConf x, groups := ddel s.groups x,
                            rails := ddel s.rails x }, .ok) := by
  unfold Sys.delRegs
  simp [h1, h2, h3, h4]

/-- one round of the deletion loop: registries of node `c`, then the node -/
theorem pruned_one {s : Sys π ν} (hs : Sane s) {c : Nat} {pc : π} (hpc : s.payload? c = some pc) :
    Pruned s [c] (({ s with nodes := ddel s.nodes (nameOfC pc), phaseConf := ddel s.phaseConf (nameOfC pc),
                            groups := ddel s.groups (nameOfC pc), rails := ddel s.rails (nameOfC pc) } :
                      Sys π ν).removeNode c) := by
  have hc : c ∈ s.ids := mem_ids_of_payload? hpc
  have hn : s.namesOf [c] = [nameOfC pc] := by simp [Sys.namesOf, Sys.nameOf, hpc]
  unfold Sys.removeNode
  have : c ∈ ({ s with nodes := ddel s.nodes (nameOfC pc), phaseConf := ddel s.phaseConf (nameOfC pc),
                       groups := ddel s.groups (nameOfC pc), rails := ddel s.rails (nameOfC pc) } : Sys π ν).ids := hc
  rw [if_pos this]
  constructor
  · show List.filter _ s.comps = _
    apply List.filter_congr; intro p _; simp
  · show List.filter _ s.edges = _
    apply List.filter_congr; intro p _; simp
  · show ddel s.nodes _ = _
    rw [hn]; unfold ddel; apply List.filter_congr; intro p _; simp
  · show ddel s.phaseConf _ = _
    rw [hn]; unfold ddel; apply List.filter_congr; intro p _; simp
  · show ddel s.groups _ = _
    rw [hn]; unfold ddel; apply List.filter_congr; intro p _; simp
  · show ddel s.rails _ = _
    rw [hn]; unfold ddel; apply List.filter_congr; intro p _; simp
  · rfl

/-- the same with the two statements in the other order (`remove_node(eidx)` first, then the four `del`) -/
theorem pruned_one' {s : Sys π ν} (hs : Sane s) {c : Nat} {pc : π} (hpc : s.payload? c = some pc)
    (h1 : nameOfC pc ∈ dkeys s.nodes) (h2 : nameOfC pc ∈ dkeys s.phaseConf)
    (h3 : nameOfC pc ∈ dkeys s.groups) (h4 : nameOfC pc ∈ dkeys s.rails) :
    ((s.removeNode c).delRegs (nameOfC pc)).2 = .ok ∧ Pruned s [c] ((s.removeNode c).delRegs (nameOfC pc)).1 := by
  have hc : c ∈ s.ids := mem_ids_of_payload? hpc
  have hn : s.namesOf [c] = [nameOfC pc] := by simp [Sys.namesOf, Sys.nameOf, hpc]
  have hr : s.removeNode c = ({ s with comps := s.comps.filter (fun p => decide (p.1 ≠ c)), edges := s.edges.filter (fun e => decide (e.1 ≠ c) && decide (e.2 ≠ c)), free := c :: s.free } : Sys π ν) := by
    unfold Sys.removeNode; rw [if_pos hc]
  rw [hr, delRegs_ok (by exact h1) (by exact h2) (by exact h3) (by exact h4)]
  refine ⟨rfl, ?_⟩
  constructor
  · show List.filter _ s.comps = _
    apply List.filter_congr; intro p _; simp
  · show List.filter _ s.edges = _
    apply List.filter_congr; intro p _; simp
  · show ddel s.nodes _ = _
    rw [hn]; unfold ddel; apply List.filter_congr; intro p _; simp
  · show ddel s.phaseConf _ = _
    rw [hn]; unfold ddel; apply List.filter_congr; intro p _; simp
  · show ddel s.groups _ = _
    rw [hn]; unfold ddel; apply List.filter_congr; intro p _; simp
  · show ddel s.rails _ = _
    rw [hn]; unfold ddel; apply List.filter_congr; intro p _; simp
  · rfl

theorem payload?_filter {s s' : Sys π ν} (hs : Sane s) {K : List Nat}
    (hc : s'.comps = s.comps.filter fun p => decide (p.1 ∉ K)) (n : Nat) :
    s'.payload? n = if n ∈ K then none else s.payload? n := by
  unfold Sys.payload?
  rw [hc]
  have := dget_filter_key (d := s.comps) (q := fun k => decide (k ∉ K)) (x := n)
  simp only [decide_eq_true_eq] at this
  rw [this]
  by_cases h : n ∈ K <;> simp [h]

/-- pruning `K1`, then `K2` (seen from the intermediate state), is pruning `K1 ++ K2` -/
theorem pruned_trans {s s1 s2 : Sys π ν} (hs : Sane s) {K1 K2 : List Nat} (hdis : ∀ k ∈ K2, k ∉ K1)
    (h1 : Pruned s K1 s1) (h2 : Pruned s1 K2 s2) : Pruned s (K1 ++ K2) s2 := by
  have hpay := payload?_filter hs h1.comps
  have hnames : ∀ x, x ∈ s.namesOf (K1 ++ K2) ↔ x ∈ s.namesOf K1 ∨ x ∈ s1.namesOf K2 := by
    intro x
    simp only [mem_namesOf, List.mem_append]
    constructor
    · rintro ⟨k, hk | hk, pc, hp, hx⟩
      · exact Or.inl ⟨k, hk, pc, hp, hx⟩
      · refine Or.inr ⟨k, hk, pc, ?_, hx⟩
        rw [hpay]
        simp [hdis k hk, hp]
    · rintro (⟨k, hk, pc, hp, hx⟩ | ⟨k, hk, pc, hp, hx⟩)
      · exact ⟨k, Or.inl hk, pc, hp, hx⟩
      · refine ⟨k, Or.inr hk, pc, ?_, hx⟩
        rw [hpay] at hp
        simpa [hdis k hk] using hp
  have hreg : ∀ {β : Type} (d d1 d2 : List (String × β)),
      d1 = d.filter (fun p => decide (p.1 ∉ s.namesOf K1)) →
      d2 = d1.filter (fun p => decide (p.1 ∉ s1.namesOf K2)) →
      d2 = d.filter (fun p => decide (p.1 ∉ s.namesOf (K1 ++ K2))) := by
    intro β d d1 d2 e1 e2
    rw [e2, e1, List.filter_filter]
    apply List.filter_congr
    intro p _
    have := hnames p.1
    by_cases a : p.1 ∈ s.namesOf K1 <;> by_cases b : p.1 ∈ s1.namesOf K2 <;> simp_all
  constructor
  · rw [h2.comps, h1.comps, List.filter_filter]
    apply List.filter_congr; intro p _
    by_cases a : p.1 ∈ K1 <;> by_cases b : p.1 ∈ K2 <;> simp [a, b]
  · rw [h2.edges, h1.edges, List.filter_filter]
    apply List.filter_congr; intro e _
    by_cases a : e.1 ∈ K1 <;> by_cases b : e.1 ∈ K2 <;> by_cases a' : e.2 ∈ K1 <;> by_cases b' : e.2 ∈ K2 <;>
      simp [a, b, a', b']
  · exact hreg _ _ _ h1.nodes h2.nodes
  · exact hreg _ _ _ h1.pconf h2.pconf
  · exact hreg _ _ _ h1.groups h2.groups
  · exact hreg _ _ _ h1.rails h2.rails
  · rw [h2.pnames, h1.pnames]

theorem pruned_cons {s s1 s2 : Sys π ν} (hs : Sane s) {c : Nat} {L : List Nat} (hcL : c ∉ L)
    (h1 : Pruned s [c] s1) (h2 : Pruned s1 L s2) : Pruned s (c :: L) s2 :=
  pruned_trans (K1 := [c]) hs (fun k hk h => hcL (by simp at h; exact h ▸ hk)) h1 h2

theorem pruned_perm {s s' : Sys π ν} {K K' : List Nat} (h : Pruned s K s') (hk : ∀ x, x ∈ K ↔ x ∈ K') :
    Pruned s K' s' := by
  have hn : ∀ x, x ∈ s.namesOf K ↔ x ∈ s.namesOf K' := by
    intro x; simp only [mem_namesOf, hk]
  constructor
  · rw [h.comps]; apply List.filter_congr; intro p _; simp [hk]
  · rw [h.edges]; apply List.filter_congr; intro p _; simp [hk]
  · rw [h.nodes]; apply List.filter_congr; intro p _; simp [hn]
  · rw [h.pconf]; apply List.filter_congr; intro p _; simp [hn]
  · rw [h.groups]; apply List.filter_congr; intro p _; simp [hn]
  · rw [h.rails]; apply List.filter_congr; intro p _; simp [hn]
  · exact h.pnames

/-- registries keep knowing the remaining names -/
theorem regsKnow_pruned {s s' : Sys π ν} (hs : Sane s) (hr : RegsKnow s) {K : List Nat} (hp : Pruned s K s') :
    RegsKnow s' := by
  have hsub : ∀ p, p ∈ s'.comps → p ∈ s.comps ∧ p.1 ∉ K := by
    intro p h; rw [hp.comps] at h; simpa using h
  have hkeep : ∀ p, p ∈ s'.comps → nameOfC p.2 ∉ s.namesOf K := by
    intro p h hx
    obtain ⟨h1, h2⟩ := hsub p h
    obtain ⟨k, hk, pc, hpc, hx⟩ := mem_namesOf.mp hx
    have := name_inj hr.names_nodup (mem_of_payload? hpc) h1 hx
    exact h2 (by rw [← this]; exact hk)
  have hkey : ∀ {β : Type} (d d' : List (String × β)), d' = d.filter (fun p => decide (p.1 ∉ s.namesOf K)) →
      ∀ p ∈ s'.comps, nameOfC p.2 ∈ dkeys d → nameOfC p.2 ∈ dkeys d' := by
    intro β d d' e p h hk
    rw [e]
    rw [dkeys_filter_key (d := d) (q := fun k => decide (k ∉ s.namesOf K))]
    exact List.mem_filter.mpr ⟨hk, by simpa using hkeep p h⟩
  constructor
  · unfold Sys.names
    rw [hp.comps]
    exact (List.filter_sublist.map _).nodup hr.names_nodup
  · intro p h; exact hkey _ _ hp.nodes p h (hr.nodes p (hsub p h).1)
  · intro p h; exact hkey _ _ hp.pconf p h (hr.pconf p (hsub p h).1)
  · intro p h; exact hkey _ _ hp.groups p h (hr.groups p (hsub p h).1)
  · intro p h; exact hkey _ _ hp.rails p h (hr.rails p (hsub p h).1)

/-- the deletion loop succeeds and prunes exactly its list -/
theorem delDescendants_spec {s : Sys π ν} (hs : Sane s) (hr : RegsKnow s) (L : List Nat) (hL : L.Nodup)
    (hlive : ∀ c ∈ L, c ∈ s.ids) : (s.delDescendants L).2 = .ok ∧ Pruned s L (s.delDescendants L).1 := by
  induction L generalizing s with
  | nil => exact ⟨rfl, pruned_nil s⟩
  | cons c cs ih =>
    obtain ⟨pc, hpc⟩ := payload?_of_mem_ids (hlive c (by simp))
    have hm := mem_of_payload? hpc
    unfold Sys.delDescendants
    simp only [hpc]
    rw [delRegs_ok (hr.nodes _ hm) (hr.pconf _ hm) (hr.groups _ hm) (hr.rails _ hm)]
    unfold Sys.andThen
    simp only
    have h1 := pruned_one hs hpc
    generalize hs1 : Sys.removeNode _ c = s1 at h1 ⊢
    have hsane1 : Sane s1 := by
      rw [← hs1]
      apply sane_removeNode
      exact sane_congr hs rfl rfl rfl rfl (nodup_dkeys_ddel hs.nodes_nodup)
    simp only [List.nodup_cons] at hL
    have hlive1 : ∀ d ∈ cs, d ∈ s1.ids := by
      intro d hd
      unfold Sys.ids
      rw [h1.comps]
      obtain ⟨pd, hpd⟩ := payload?_of_mem_ids (hlive d (List.mem_cons_of_mem _ hd))
      refine List.mem_map.mpr ⟨(d, pd), List.mem_filter.mpr ⟨mem_of_payload? hpd, ?_⟩, rfl⟩
      simp only [List.mem_singleton, decide_eq_true_eq]
      intro e; exact hL.1 (e ▸ hd)
    obtain ⟨i1, i2⟩ := ih hsane1 (regsKnow_pruned hs hr h1) hL.2 hlive1
    exact ⟨i1, pruned_cons hs hL.1 h1 i2⟩


/-! ### what pruning preserves, whatever happens to the edges afterwards -/

/-- names that resolved to a node outside `K` keep resolving to it after pruning `K` -/
theorem pruned_stab {s s0 s' : Sys π ν} (hs : Sane s) (hw : WFr s) {K : List Nat} (hp : Pruned s K s0)
    (c2 : s'.nodes = s0.nodes) (c5 : s'.rails = s0.rails) {e : String} {q : Nat}
    (he : s.getIndex e = .ok (some q)) (hq : q ∉ K) : s'.getIndex e = .ok (some q) := by
  rw [getIndex_eq_resolve] at he ⊢
  rw [c2, c5, hp.nodes, hp.rails]
  apply resolve_filter (fun k => decide (k ∉ s.namesOf K)) he
  intro k hk
  simp only [decide_eq_true_eq]
  intro hx
  obtain ⟨k', hk', pc, hpc, hx⟩ := mem_namesOf.mp hx
  obtain ⟨p, hp', hpn, hpq⟩ := nodes_get_live hw hk
  have := name_inj hw.names_nodup (mem_of_payload? hpc) hp' (hx.trans hpn.symm)
  rw [← hpq, ← this] at hq
  exact hq hk'

/-- a multi-input node whose predecessors, none of them pruned, and recorded names are untouched keeps its inputs -/
theorem inputs_kept {s s0 s' : Sys π ν} (hs : Sane s) (hw : WFr s) {K : List Nat} (hp : Pruned s K s0)
    (c2 : s'.nodes = s0.nodes) (c5 : s'.rails = s0.rails) {p : Nat × π} (hpm : p ∈ s.comps)
    (hm : 1 < (s'.preds p.1).length) (e1 : s'.preds p.1 = s.preds p.1) (e2 : ∀ q ∈ s.preds p.1, q ∉ K)
    (e3 : dget s'.pnames p.1 = dget s.pnames p.1) :
    ∃ l, s'.parentsOf p.1 = .ok l ∧ (∀ x ∈ l, ∃ q ∈ s'.preds p.1, x = some q) ∧ l.Nodup := by
  rw [e1] at hm ⊢
  obtain ⟨l, hl, hl', hlnd⟩ := hw.inputs p hpm hm
  refine ⟨l, ?_, hl', hlnd⟩
  apply parentsOf_congr e1 e3 hl
  intro x hx r hr
  obtain ⟨r', hr', hx'⟩ := (parentsOf_multi hm hl).2 x hx
  rw [getIndex_eq_resolve, hr] at hx'
  simp only [Except.ok.injEq] at hx'
  subst hx'
  obtain ⟨q, hq, rfl⟩ := hl' r hr'
  rw [← getIndex_eq_resolve] at hr ⊢
  exact pruned_stab hs hw hp c2 c5 hr (e2 q hq)

/-- a state whose nodes and registries are those of `s` pruned by `K`: if its edges are type-legal, roots are
    sources, only the mux has several inputs, and the recorded inputs of every multi-input node resolve to its
    predecessors, each once, then it is well-formed -/
theorem wfr_of_pruned {s s0 s' : Sys π ν} (hs : Sane s) (hw : WFr s) {K : List Nat} (hp : Pruned s K s0)
    (c1 : s'.comps = s0.comps) (c2 : s'.nodes = s0.nodes) (c3 : s'.phaseConf = s0.phaseConf)
    (c4 : s'.groups = s0.groups) (c5 : s'.rails = s0.rails)
    (hroots : ∀ p ∈ s'.comps, (s'.preds p.1 = [] ↔ kindOfC p.2 = .source))
    (hmulti : ∀ p ∈ s'.comps, 1 < (s'.preds p.1).length → kindOfC p.2 = .pmux)
    (hlinks : ∀ e ∈ s'.edges, ∀ pc cc, s'.payload? e.1 = some pc → s'.payload? e.2 = some cc →
        (kindOfC pc).acceptsChild (kindOfC cc).ctype = true)
    (hinputs : ∀ p ∈ s'.comps, 1 < (s'.preds p.1).length →
        ∃ l, s'.parentsOf p.1 = .ok l ∧ (∀ x ∈ l, ∃ q ∈ s'.preds p.1, x = some q) ∧ l.Nodup) :
    WFr s' := by
  have hmem : ∀ p, p ∈ s'.comps ↔ p ∈ s.comps ∧ p.1 ∉ K := by
    intro p; rw [c1, hp.comps]; simp
  have hkeep : ∀ p, p ∈ s'.comps → nameOfC p.2 ∉ s.namesOf K := by
    intro p h hx
    obtain ⟨h1, h2⟩ := (hmem p).mp h
    obtain ⟨k, hk, pc, hpc, hx⟩ := mem_namesOf.mp hx
    have := name_inj hw.names_nodup (mem_of_payload? hpc) h1 hx
    exact h2 (by rw [← this]; exact hk)
  have hnames : ∀ y, y ∈ s'.names ↔ y ∈ s.names ∧ y ∉ s.namesOf K := by
    intro y
    constructor
    · intro h
      obtain ⟨p, hp', rfl⟩ := mem_names.mp h
      exact ⟨mem_names_of_mem ((hmem p).mp hp').1, hkeep p hp'⟩
    · rintro ⟨h1, h2⟩
      obtain ⟨p, hp', rfl⟩ := mem_names.mp h1
      refine mem_names.mpr ⟨p, (hmem p).mpr ⟨hp', ?_⟩, rfl⟩
      intro hk
      exact h2 (mem_namesOf.mpr ⟨p.1, hk, p.2, payload?_of_mem hs hp', rfl⟩)
  have hkeys : ∀ {β : Type} (d : List (String × β)), (∀ y, y ∈ dkeys d ↔ y ∈ s.names) →
      ∀ y, y ∈ dkeys (d.filter fun p => decide (p.1 ∉ s.namesOf K)) ↔ y ∈ s'.names := by
    intro β d hd y
    rw [dkeys_filter_key (d := d) (q := fun k => decide (k ∉ s.namesOf K)), hnames y]
    simp [hd y]
  have hrsub : ∀ y, y ∈ s'.railNames → y ∈ s.railNames := by
    intro y hy
    unfold Sys.railNames at hy ⊢
    rw [c5, hp.rails] at hy
    obtain ⟨h1, h2⟩ := List.mem_filter.mp hy
    obtain ⟨k, hk⟩ := mem_dvals.mp h1
    exact List.mem_filter.mpr ⟨mem_dvals.mpr ⟨k, (List.mem_filter.mp hk).1⟩, h2⟩
  constructor
  · unfold Sys.names
    rw [c1, hp.comps]
    exact (List.filter_sublist.map _).nodup hw.names_nodup
  · have : s'.railNames.Sublist s.railNames := by
      unfold Sys.railNames dvals
      rw [c5, hp.rails]
      exact (List.filter_sublist.map _).filter _
    exact this.nodup hw.rails_nodup
  · intro y hy hr
    exact hw.disjoint y ((hnames y).mp hy).1 (hrsub y hr)
  · exact hroots
  · exact hmulti
  · have : (s'.comps.filter fun p => decide (kindOfC p.2 = .pmux)).Sublist
        (s.comps.filter fun p => decide (kindOfC p.2 = .pmux)) := by
      rw [c1, hp.comps]; exact List.filter_sublist.filter _
    exact Nat.le_trans this.length_le hw.one_mux
  · exact hlinks
  · intro y hy
    rw [c2, hp.nodes] at hy
    exact (hkeys s.nodes (names_eq_nodes_keys hw) y).mp hy
  · intro p hp'
    rw [c2, hp.nodes, dget_filter_key (d := s.nodes) (q := fun k => decide (k ∉ s.namesOf K))]
    have := hkeep p hp'
    simp only [this, not_false_eq_true, decide_true, if_true]
    exact hw.nodes_get p ((hmem p).mp hp').1
  · intro y; rw [c4, hp.groups]; exact hkeys _ hw.groups_keys y
  · intro y; rw [c5, hp.rails]; exact hkeys _ hw.rails_keys y
  · intro y; rw [c3, hp.pconf]; exact hkeys _ hw.pconf_keys y
  · exact hinputs

/-- the registries of a pruned state are exact (so `_get_index` is total there) -/
theorem regsExact_of_pruned {s s0 s' : Sys π ν} (hs : Sane s) (hw : WFr s) {K : List Nat} (hp : Pruned s K s0)
    (c1 : s'.comps = s0.comps) (c2 : s'.nodes = s0.nodes) (c5 : s'.rails = s0.rails) : RegsExact s' := by
  have hmem : ∀ p, p ∈ s'.comps ↔ p ∈ s.comps ∧ p.1 ∉ K := by
    intro p; rw [c1, hp.comps]; simp
  have hkeep : ∀ p, p ∈ s'.comps → nameOfC p.2 ∉ s.namesOf K := by
    intro p h hx
    obtain ⟨h1, h2⟩ := (hmem p).mp h
    obtain ⟨k, hk, pc, hpc, hx⟩ := mem_namesOf.mp hx
    have := name_inj hw.names_nodup (mem_of_payload? hpc) h1 hx
    exact h2 (by rw [← this]; exact hk)
  have hnames : ∀ y, y ∈ s'.names ↔ y ∈ s.names ∧ y ∉ s.namesOf K := by
    intro y
    constructor
    · intro h
      obtain ⟨p, hp', rfl⟩ := mem_names.mp h
      exact ⟨mem_names_of_mem ((hmem p).mp hp').1, hkeep p hp'⟩
    · rintro ⟨h1, h2⟩
      obtain ⟨p, hp', rfl⟩ := mem_names.mp h1
      refine mem_names.mpr ⟨p, (hmem p).mpr ⟨hp', ?_⟩, rfl⟩
      intro hk
      exact h2 (mem_namesOf.mpr ⟨p.1, hk, p.2, payload?_of_mem hs hp', rfl⟩)
  have hkeys : ∀ {β : Type} (d : List (String × β)), (∀ y, y ∈ dkeys d ↔ y ∈ s.names) →
      ∀ y, y ∈ dkeys (d.filter fun p => decide (p.1 ∉ s.namesOf K)) ↔ y ∈ s'.names := by
    intro β d hd y
    rw [dkeys_filter_key (d := d) (q := fun k => decide (k ∉ s.namesOf K)), hnames y]
    simp [hd y]
  constructor
  · intro y hy
    rw [c2, hp.nodes] at hy
    exact (hkeys s.nodes (names_eq_nodes_keys hw) y).mp hy
  · intro p hp'
    rw [c2, hp.nodes, dget_filter_key (d := s.nodes) (q := fun k => decide (k ∉ s.namesOf K))]
    have := hkeep p hp'
    simp only [this, not_false_eq_true, decide_true, if_true]
    exact hw.nodes_get p ((hmem p).mp hp').1
  · intro y; rw [c5, hp.rails]; exact hkeys _ hw.rails_keys y

/-- `del_comp(.., del_childs=True)`: the pruned set is closed under successors -/
theorem wfr_pruned_closed {s s' : Sys π ν} (hs : Sane s) (hw : WFr s) {K : List Nat} (hp : Pruned s K s')
    (hclosed : ∀ e ∈ s.edges, e.1 ∈ K → e.2 ∈ K) : WFr s' := by
  have hpay := payload?_filter hs hp.comps
  have hmem : ∀ p, p ∈ s'.comps → p ∈ s.comps ∧ p.1 ∉ K := by
    intro p h; rw [hp.comps] at h; simpa using h
  have hpreds : ∀ n, n ∉ K → s'.preds n = s.preds n := by
    intro n hn
    unfold Sys.preds
    rw [hp.edges, List.filter_filter]
    congr 1
    apply List.filter_congr
    intro e he
    by_cases h2 : e.2 = n
    · have h1 : e.1 ∉ K := fun h => hn (h2 ▸ hclosed e he h)
      simp [h2, hn, h1]
    · simp [h2]
  apply wfr_of_pruned hs hw hp rfl rfl rfl rfl rfl
  · intro p h; rw [hpreds _ (hmem p h).2]; exact hw.roots p (hmem p h).1
  · intro p h; rw [hpreds _ (hmem p h).2]; exact hw.multi p (hmem p h).1
  · intro e he pc cc h1 h2
    rw [hp.edges] at he
    obtain ⟨he, hk⟩ := List.mem_filter.mp he
    simp only [Bool.and_eq_true, decide_eq_true_eq] at hk
    rw [hpay] at h1 h2
    simp only [hk.1, hk.2, if_false] at h1 h2
    exact hw.links e he pc cc h1 h2
  · intro p h hm
    have hn := (hmem p h).2
    apply inputs_kept hs hw hp rfl rfl (hmem p h).1 hm (hpreds _ hn)
    · intro q hq hqK
      exact hn (hclosed (q, p.1) (mem_preds.mp hq) hqK)
    · rw [hp.pnames]

/-! ### `del_childs=False`: the children are re-linked to the (first) parent -/

theorem relink_spec {s : Sys π ν} (hs : Sane s) (p0 : Nat) (L : List Nat) (hp0 : p0 ∈ s.ids)
    (hL : ∀ c ∈ L, c ∈ s.ids ∧ c ≠ p0 ∧ ¬ Path s.edges c p0) :
    (s.relink p0 L).2 = .ok ∧ ∃ X, (s.relink p0 L).1.edges = s.edges ++ X ∧ (∀ e ∈ X, e.1 = p0 ∧ e.2 ∈ L) ∧
      (∀ c ∈ L, (p0, c) ∈ (s.relink p0 L).1.edges) ∧
      (s.relink p0 L).1.comps = s.comps ∧ (s.relink p0 L).1.nodes = s.nodes ∧
      (s.relink p0 L).1.phaseConf = s.phaseConf ∧ (s.relink p0 L).1.groups = s.groups ∧
      (s.relink p0 L).1.rails = s.rails ∧ (s.relink p0 L).1.pnames = s.pnames := by
  induction L generalizing s with
  | nil => exact ⟨rfl, [], by simp [Sys.relink]⟩
  | cons c cs ih =>
    obtain ⟨hc1, hc2, hc3⟩ := hL c (by simp)
    unfold Sys.relink
    rw [if_neg (by simp [hp0, hc1])]
    have hnd : ¬ (p0 = c ∨ p0 ∈ s.descendants c) := by
      rintro (h | h)
      · exact hc2 h.symm
      · exact hc3 (mem_descendants.mp h).2
    rw [if_neg hnd]
    have hs1 : Sane (s.addEdge p0 c) := sane_addEdge hs hp0 hc1 (fun e => hc2 e.symm) hc3
    have hE : (s.addEdge p0 c).edges = s.edges ∨ (s.addEdge p0 c).edges = s.edges ++ [(p0, c)] := by
      unfold Sys.addEdge; split
      · exact Or.inl rfl
      · exact Or.inr rfl
    have hF : (s.addEdge p0 c).comps = s.comps ∧ (s.addEdge p0 c).nodes = s.nodes ∧
        (s.addEdge p0 c).phaseConf = s.phaseConf ∧ (s.addEdge p0 c).groups = s.groups ∧
        (s.addEdge p0 c).rails = s.rails ∧ (s.addEdge p0 c).pnames = s.pnames := by
      unfold Sys.addEdge; split <;> exact ⟨rfl, rfl, rfl, rfl, rfl, rfl⟩
    have hin : (p0, c) ∈ (s.addEdge p0 c).edges := by
      unfold Sys.addEdge; split
      · next h => exact h
      · simp
    have hids : (s.addEdge p0 c).ids = s.ids := by unfold Sys.ids; rw [hF.1]
    have hL1 : ∀ d ∈ cs, d ∈ (s.addEdge p0 c).ids ∧ d ≠ p0 ∧ ¬ Path (s.addEdge p0 c).edges d p0 := by
      intro d hd
      obtain ⟨d1, d2, d3⟩ := hL d (List.mem_cons_of_mem _ hd)
      refine ⟨hids ▸ d1, d2, ?_⟩
      rcases hE with h | h
      · rw [h]; exact d3
      · rw [h]
        intro hp
        rcases path_add hp with h' | ⟨h', _⟩
        · exact d3 h'
        · rcases h' with h' | h'
          · exact d2 h'
          · exact d3 h'
    obtain ⟨i1, X, i2, i3, i4, i5, i6, i7, i8, i9, i10⟩ := ih hs1 (hids ▸ hp0) hL1
    refine ⟨i1, ?_⟩
    rcases hE with h | h
    · refine ⟨X, by rw [i2, h], ?_, ?_, by rw [i5, hF.1], by rw [i6, hF.2.1], by rw [i7, hF.2.2.1],
        by rw [i8, hF.2.2.2.1], by rw [i9, hF.2.2.2.2.1], by rw [i10, hF.2.2.2.2.2]⟩
      · intro e he; exact ⟨(i3 e he).1, List.mem_cons_of_mem _ (i3 e he).2⟩
      · intro d hd
        rcases List.mem_cons.mp hd with rfl | hd
        · rw [i2]; exact List.mem_append_left _ hin
        · exact i4 d hd
    · refine ⟨(p0, c) :: X, by rw [i2, h]; simp, ?_, ?_, by rw [i5, hF.1], by rw [i6, hF.2.1], by rw [i7, hF.2.2.1],
        by rw [i8, hF.2.2.2.1], by rw [i9, hF.2.2.2.2.1], by rw [i10, hF.2.2.2.2.2]⟩
      · intro e he
        rcases List.mem_cons.mp he with rfl | he
        · simp
        · exact ⟨(i3 e he).1, List.mem_cons_of_mem _ (i3 e he).2⟩
      · intro d hd
        rcases List.mem_cons.mp hd with rfl | hd
        · rw [i2]; exact List.mem_append_left _ hin
        · exact i4 d hd

/-! ### the de-duplication of the children's recorded inputs -/

/-- `seen, plist = [], []; for p in l: if g(p) not in seen: …` as a pure function -/
def dedupeP {α β : Type} [DecidableEq β] (g : α → β) : List α → List β → List α
  | [], _ => []
  | p :: ps, seen => if g p ∈ seen then dedupeP g ps seen else p :: dedupeP g ps (seen ++ [g p])

theorem dedupeP_cons_of_mem {α β : Type} [DecidableEq β] {g : α → β} {p : α} {ps : List α} {seen : List β}
    (h : g p ∈ seen) : dedupeP g (p :: ps) seen = dedupeP g ps seen := by simp [dedupeP, h]

theorem dedupeP_cons_of_not_mem {α β : Type} [DecidableEq β] {g : α → β} {p : α} {ps : List α} {seen : List β}
    (h : g p ∉ seen) : dedupeP g (p :: ps) seen = p :: dedupeP g ps (seen ++ [g p]) := by simp [dedupeP, h]

theorem mem_dedupeP_map {α β : Type} [DecidableEq β] (g : α → β) (l : List α) (seen : List β) (x : β) :
    x ∈ (dedupeP g l seen).map g ↔ x ∈ l.map g ∧ x ∉ seen := by
  induction l generalizing seen with
  | nil => simp [dedupeP]
  | cons p ps ih =>
    by_cases h : g p ∈ seen
    · rw [dedupeP_cons_of_mem h, ih]
      simp only [List.map_cons, List.mem_cons]
      constructor
      · rintro ⟨h1, h2⟩; exact ⟨Or.inr h1, h2⟩
      · rintro ⟨h1 | h1, h2⟩
        · exact absurd (h1 ▸ h) h2
        · exact ⟨h1, h2⟩
    · rw [dedupeP_cons_of_not_mem h]
      have ih' := ih (seen ++ [g p])
      simp only [List.map_cons, List.mem_cons, ih']
      constructor
      · rintro (h1 | ⟨h1, h2⟩)
        · exact ⟨Or.inl h1, h1 ▸ h⟩
        · exact ⟨Or.inr h1, fun hs => h2 (List.mem_append_left _ hs)⟩
      · rintro ⟨h1 | h1, h2⟩
        · exact Or.inl h1
        · by_cases hx : x = g p
          · exact Or.inl hx
          · refine Or.inr ⟨h1, ?_⟩
            intro hm
            rcases List.mem_append.mp hm with hm | hm
            · exact h2 hm
            · simp at hm; exact hx hm

theorem nodup_dedupeP_map {α β : Type} [DecidableEq β] (g : α → β) (l : List α) (seen : List β) :
    ((dedupeP g l seen).map g).Nodup := by
  induction l generalizing seen with
  | nil => simp [dedupeP]
  | cons p ps ih =>
    by_cases h : g p ∈ seen
    · rw [dedupeP_cons_of_mem h]; exact ih seen
    · rw [dedupeP_cons_of_not_mem h]
      simp only [List.map_cons, List.nodup_cons]
      refine ⟨?_, ih _⟩
      intro hm
      have := (mem_dedupeP_map g ps (seen ++ [g p]) (g p)).mp hm
      exact this.2 (by simp)

theorem dedupeP_append {α β : Type} [DecidableEq β] (g : α → β) (a b : List α) (seen : List β) :
    dedupeP g (a ++ b) seen = dedupeP g a seen ++ dedupeP g b (seen ++ (dedupeP g a seen).map g) := by
  induction a generalizing seen with
  | nil => simp [dedupeP]
  | cons p ps ih =>
    simp only [List.cons_append]
    by_cases h : g p ∈ seen
    · rw [dedupeP_cons_of_mem h, dedupeP_cons_of_mem h]; exact ih seen
    · rw [dedupeP_cons_of_not_mem h, dedupeP_cons_of_not_mem h, ih]
      simp [List.append_assoc]

theorem resolveList_of_total {N : List (String × Nat)} {R : List (String × String)} {g : String → Option Nat}
    (hg : ∀ p, resolve N R p = .ok (g p)) (l : List String) : resolveList N R l = .ok (l.map g) := by
  induction l with
  | nil => rfl
  | cons x xs ih => simp [resolveList, hg x, ih]

theorem dedupe_eq {s : Sys π ν} {g : String → Option Nat} (hg : ∀ p, s.getIndex p = .ok (g p))
    (l : List String) (seen : List (Option Nat)) : s.dedupe l seen = .ok (dedupeP g l seen) := by
  induction l generalizing seen with
  | nil => rfl
  | cons p ps ih =>
    unfold Sys.dedupe
    rw [hg p]
    simp only
    by_cases h : g p ∈ seen
    · rw [dedupeP_cons_of_mem h]; simp only [h, if_true]; exact ih seen
    · rw [dedupeP_cons_of_not_mem h]; simp only [h, if_false, ih]

/-- the final loop over the children, when `_get_index` is total -/
theorem dedupeChilds_spec {s : Sys π ν} {g : String → Option Nat} (L : List Nat) (hL : L.Nodup)
    (hg : ∀ p, resolve s.nodes s.rails p = .ok (g p)) (hpn : ∀ c ∈ L, ∃ pl, dget s.pnames c = some pl) :
    (s.dedupeChilds L).2 = .ok ∧ (s.dedupeChilds L).1.comps = s.comps ∧ (s.dedupeChilds L).1.edges = s.edges ∧
    (s.dedupeChilds L).1.nodes = s.nodes ∧ (s.dedupeChilds L).1.phaseConf = s.phaseConf ∧
    (s.dedupeChilds L).1.groups = s.groups ∧ (s.dedupeChilds L).1.rails = s.rails ∧
    ∀ k, dget (s.dedupeChilds L).1.pnames k =
      if k ∈ L then (dget s.pnames k).map (fun pl => dedupeP g pl []) else dget s.pnames k := by
  induction L generalizing s with
  | nil => exact ⟨rfl, rfl, rfl, rfl, rfl, rfl, rfl, fun k => by simp [Sys.dedupeChilds]⟩
  | cons c cs ih =>
    obtain ⟨pl, hpl⟩ := hpn c (by simp)
    simp only [List.nodup_cons] at hL
    unfold Sys.dedupeChilds
    rw [hpl]
    simp only
    rw [dedupe_eq (g := g) (fun p => by rw [getIndex_eq_resolve]; exact hg p)]
    simp only
    have hpn' : ∀ d ∈ cs, ∃ pl', dget ({ s with pnames := dset s.pnames c (dedupeP g pl []) } : Sys π ν).pnames d = some pl' := by
      intro d hd
      obtain ⟨pl', hpl'⟩ := hpn d (List.mem_cons_of_mem _ hd)
      have : d ≠ c := fun e => hL.1 (e ▸ hd)
      exact ⟨pl', by simp [dget_dset, this, hpl']⟩
    obtain ⟨i1, i2, i3, i4, i5, i6, i7, i8⟩ := ih (s := { s with pnames := dset s.pnames c (dedupeP g pl []) }) hL.2 hg hpn'
    refine ⟨i1, i2, i3, i4, i5, i6, i7, ?_⟩
    intro k
    rw [i8 k]
    by_cases hk : k = c
    · subst hk
      simp [hL.1, dget_dset, hpl]
    · by_cases hk' : k ∈ cs
      · simp [hk, hk', dget_dset]
      · simp [hk, hk', dget_dset]

/-- a duplicate-free list inside a list that is not longer covers it -/
theorem subset_of_nodup_of_length_le {α : Type} [DecidableEq α] {l m : List α} (hn : l.Nodup)
    (hsub : ∀ x ∈ l, x ∈ m) (hlen : m.length ≤ l.length) : ∀ x ∈ m, x ∈ l := by
  intro x hx
  apply Decidable.byContradiction
  intro hxl
  have h1 : ∀ y ∈ l, y ∈ m.erase x := by
    intro y hy
    have : y ≠ x := fun e => hxl (e ▸ hy)
    exact (List.mem_erase_of_ne this).mpr (hsub y hy)
  have h2 := hn.length_le_of_subset h1
  rw [List.length_erase_of_mem hx] at h2
  have : 0 < m.length := List.length_pos_of_mem hx
  omega

theorem parentsOf_multi_unfold {s : Sys π ν} {n : Nat} (hm : 1 < (s.preds n).length) {l : List (Option Nat)}
    (h : s.parentsOf n = .ok l) :
    ∃ pl, dget s.pnames n = some pl ∧ (s.preds n).length ≤ pl.length ∧
      resolveList s.nodes s.rails (pl.take (s.preds n).length) = .ok l := by
  unfold Sys.parentsOf at h
  have hle : ¬ (s.preds n).length ≤ 1 := by omega
  simp only [hle, if_false] at h
  cases hp : dget s.pnames n with
  | none => simp [hp] at h
  | some pl =>
    simp only [hp] at h
    split at h
    · simp at h
    · next hlt =>
      rw [resolveAll_eq] at h
      exact ⟨pl, rfl, by omega, h⟩

/-- the state after `remove_node(t)`, the four `del`, the re-linking of `t`'s children to `p0`, and the update of the
    children's recorded inputs -/
theorem wfr_relinked {s s2 s' : Sys π ν} (hs : Sane s) (hs' : Sane s') (hw : WFr s) {t p0 : Nat} {tc pc0 : π}
    (ht : (t, tc) ∈ s.comps) (hp0 : p0 ∈ s.preds t) (hpc0 : s.payload? p0 = some pc0) (hp : Pruned s [t] s2)
    {X : List (Nat × Nat)}
    (e1 : s'.edges = s2.edges ++ X) (e2 : ∀ e ∈ X, e.1 = p0 ∧ e.2 ∈ s.succs t)
    (e3 : ∀ c ∈ s.succs t, (p0, c) ∈ s'.edges)
    (c1 : s'.comps = s2.comps) (c2 : s'.nodes = s2.nodes) (c3 : s'.phaseConf = s2.phaseConf)
    (c4 : s'.groups = s2.groups) (c5 : s'.rails = s2.rails)
    (g : String → Option Nat) (hg : ∀ p, s'.getIndex p = .ok (g p))
    (c6 : ∀ k, dget s'.pnames k =
      if k ∈ s.succs t then
        (dget s.pnames k).map fun pl => dedupeP g (pl.map fun p => if s.refersTo t p then nameOfC pc0 else p) []
      else dget s.pnames k) : WFr s' := by
  have hpay : ∀ n, s'.payload? n = if n = t then none else s.payload? n := by
    intro n
    have := payload?_filter hs hp.comps n
    unfold Sys.payload? at this ⊢
    rw [c1, this]; simp
  have hmem : ∀ p, p ∈ s'.comps ↔ p ∈ s.comps ∧ p.1 ≠ t := by
    intro p; rw [c1, hp.comps]; simp
  have hp0t : p0 ≠ t := fun e => hs.acyclic t (.single (by have := mem_preds.mp hp0; rw [e] at this; exact this))
  have hedge : ∀ q n, (q, n) ∈ s'.edges ↔ ((q, n) ∈ s.edges ∧ q ≠ t ∧ n ≠ t) ∨ (q = p0 ∧ n ∈ s.succs t) := by
    intro q n
    rw [e1, hp.edges]
    simp only [List.mem_append, List.mem_filter, List.mem_singleton, Bool.and_eq_true, decide_eq_true_eq]
    constructor
    · rintro (h | h)
      · exact Or.inl h
      · exact Or.inr (e2 _ h)
    · rintro (h | ⟨rfl, h⟩)
      · exact Or.inl h
      · have := e3 n h
        rw [e1, hp.edges] at this
        simpa using this
  -- a node that is not a child of `t` keeps its predecessor list
  have hsame : ∀ n, n ≠ t → n ∉ s.succs t → s'.preds n = s.preds n := by
    intro n hnt hn
    unfold Sys.preds
    rw [e1, hp.edges, List.filter_append, List.filter_filter]
    have hx : X.filter (fun e => decide (e.2 = n)) = [] := by
      apply List.filter_eq_nil_iff.mpr
      intro e he
      simp only [decide_eq_true_eq]
      intro h; exact hn (h ▸ (e2 e he).2)
    rw [hx, List.append_nil]
    congr 1
    apply List.filter_congr
    intro e he
    by_cases h2 : e.2 = n
    · have h1 : e.1 ≠ t := fun h => hn (mem_succs.mpr (by rw [← h, ← h2]; exact he))
      simp [h2, hnt, h1]
    · simp [h2]
  -- the predecessors of a child of `t` afterwards
  have hpredc : ∀ c ∈ s.succs t, ∀ q, q ∈ s'.preds c ↔ (q ∈ s.preds c ∧ q ≠ t) ∨ q = p0 := by
    intro c hc q
    have hct : c ≠ t := fun h => hs.acyclic t (.single (by rw [h] at hc; exact mem_succs.mp hc))
    rw [mem_preds, hedge]
    constructor
    · rintro (⟨h1, h2, _⟩ | ⟨h1, _⟩)
      · exact Or.inl ⟨mem_preds.mpr h1, h2⟩
      · exact Or.inr h1
    · rintro (⟨h1, h2⟩ | h1)
      · exact Or.inl ⟨mem_preds.mp h1, h2, hct⟩
      · exact Or.inr ⟨h1, hc⟩
  -- a child of `t` that had `t` as its only input now has `p0` as its only input
  have hchild : ∀ n, n ∈ s.succs t → (s.preds n).length ≤ 1 → (s'.preds n).length ≤ 1 := by
    intro n hn hle
    have htn : t ∈ s.preds n := mem_preds.mpr (mem_succs.mp hn)
    have hsub : ∀ q ∈ s'.preds n, q ∈ [p0] := by
      intro q hq
      rcases (hpredc n hn q).mp hq with ⟨h1, h2⟩ | h1
      · exfalso
        match hl : s.preds n, hle, htn, h1 with
        | [a], _, h3, h4 => simp at h3 h4; exact h2 (h4.trans h3.symm)
      · simp [h1]
    exact (preds_nodup hs' n).length_le_of_subset hsub
  have hreg := regsExact_of_pruned hs hw hp c1 c2 c5
  have hp0live : (p0, pc0) ∈ s'.comps := (hmem _).mpr ⟨mem_of_payload? hpc0, hp0t⟩
  have hgp0 : g (nameOfC pc0) = some p0 := by
    have h1 := hreg.nodes_get (p0, pc0) hp0live
    have h2 : s'.getIndex (nameOfC pc0) = .ok (some p0) := by
      rw [getIndex_eq_resolve]; exact resolve_of_name h1
    rw [hg] at h2
    simpa using h2
  have hrefers : ∀ e, s.refersTo t e = true ↔ s.getIndex e = .ok (some t) := by
    intro e
    unfold Sys.refersTo
    cases hgi : s.getIndex e with
    | error _ => simp
    | ok r => cases r <;> simp
  apply wfr_of_pruned hs hw hp c1 c2 c3 c4 c5
  · -- roots
    intro p hp'
    obtain ⟨h1, h2⟩ := (hmem p).mp hp'
    by_cases hn : p.1 ∈ s.succs t
    · have hne : s'.preds p.1 ≠ [] := by
        intro h
        have : p0 ∈ s'.preds p.1 := (hpredc _ hn p0).mpr (Or.inr rfl)
        rw [h] at this; simp at this
      have hne' : s.preds p.1 ≠ [] := by
        intro h
        have : t ∈ s.preds p.1 := mem_preds.mpr (mem_succs.mp hn)
        rw [h] at this; simp at this
      have := hw.roots p h1
      constructor
      · intro h; exact absurd h hne
      · intro h; exact absurd (this.mpr h) hne'
    · rw [hsame _ h2 hn]; exact hw.roots p h1
  · -- multi
    intro p hp' hm
    obtain ⟨h1, h2⟩ := (hmem p).mp hp'
    by_cases hn : p.1 ∈ s.succs t
    · by_cases hm0 : 1 < (s.preds p.1).length
      · exact hw.multi p h1 hm0
      · have := hchild _ hn (by omega); omega
    · rw [hsame _ h2 hn] at hm; exact hw.multi p h1 hm
  · -- links
    intro e he pc cc h1 h2
    rw [hpay] at h1 h2
    rcases (hedge e.1 e.2).mp he with ⟨h3, h4, h5⟩ | ⟨h3, h4⟩
    · simp only [h4, h5, if_false] at h1 h2
      exact hw.links e h3 pc cc h1 h2
    · have n1 : e.1 ≠ t := h3 ▸ hp0t
      have n2 : e.2 ≠ t := fun h => hs.acyclic t (.single (by rw [h] at h4; exact mem_succs.mp h4))
      simp only [n1, n2, if_false] at h1 h2
      rw [h3] at h1
      have a1 := hw.links (p0, t) (mem_preds.mp hp0) pc tc h1 (payload?_of_mem hs ht)
      have hne' : s.preds e.2 ≠ [] := by
        intro h
        have : t ∈ s.preds e.2 := mem_preds.mpr (mem_succs.mp h4)
        rw [h] at this; simp at this
      have hcc := mem_of_payload? h2
      have : kindOfC cc ≠ .source := fun h => hne' ((hw.roots (e.2, cc) hcc).mpr h)
      exact accepts_of (accepts_not_load a1) (fun h => this ((ctype_source_iff _).mp h))
  · -- recorded inputs
    intro p hp' hm
    obtain ⟨h1, h2⟩ := (hmem p).mp hp'
    by_cases hn : p.1 ∈ s.succs t
    · -- a child of `t` that still has several inputs: the PMux
      have hm0 : 1 < (s.preds p.1).length := by
        apply Decidable.byContradiction
        intro h
        have := hchild _ hn (by omega); omega
      obtain ⟨l, hl, hl', hlnd⟩ := hw.inputs p h1 hm0
      obtain ⟨pl, hpl, hklen, hres⟩ := parentsOf_multi_unfold hm0 hl
      have hllen : l.length = (s.preds p.1).length := by
        have := resolveList_length hres
        rw [List.length_take] at this
        omega
      -- `l` covers all predecessors
      have hcover : ∀ q ∈ s.preds p.1, some q ∈ l := by
        intro q hq
        have := subset_of_nodup_of_length_le (l := l) (m := (s.preds p.1).map some) hlnd
          (fun x hx => by obtain ⟨q', hq', rfl⟩ := hl' x hx; exact List.mem_map.mpr ⟨q', hq', rfl⟩)
          (by simp [hllen])
        exact this _ (List.mem_map.mpr ⟨q, hq, rfl⟩)
      -- what a consulted name means after the rewrite
      let f : String → String := fun e => if s.refersTo t e then nameOfC pc0 else e
      have hgf : ∀ e ∈ pl.take (s.preds p.1).length, ∀ q, resolve s.nodes s.rails e = .ok (some q) →
          g (f e) = if q = t then some p0 else some q := by
        intro e he q hq
        rw [← getIndex_eq_resolve] at hq
        by_cases hqt : q = t
        · have : s.refersTo t e = true := (hrefers e).mpr (hqt ▸ hq)
          simp only [f, this, if_true, hqt]
          exact hgp0
        · have hfalse : s.refersTo t e = false := by
            cases h : s.refersTo t e with
            | false => rfl
            | true =>
              have := (hrefers e).mp h
              rw [hq] at this
              simp only [Except.ok.injEq, Option.some.injEq] at this
              exact absurd this hqt
          simp only [f, hfalse, hqt, if_false]
          have := pruned_stab hs hw hp c2 c5 hq (by simpa using hqt)
          rw [hg] at this
          simpa using this
      let A := (pl.take (s.preds p.1).length).map f
      let B := (pl.drop (s.preds p.1).length).map f
      have hsplit : pl.map f = A ++ B := by
        simp only [A, B, ← List.map_append, List.take_append_drop]
      let D := dedupeP g A []
      -- the values of `A` are exactly the new predecessors
      have hAvals : ∀ x, x ∈ A.map g ↔ ∃ q ∈ s'.preds p.1, x = some q := by
        intro x
        simp only [A, List.map_map, List.mem_map, Function.comp]
        constructor
        · rintro ⟨e, he, rfl⟩
          obtain ⟨r, hr, her⟩ := (resolveList_mem hres).2 e he
          obtain ⟨q, hq, rfl⟩ := hl' r hr
          rw [hgf e he q her]
          by_cases hqt : q = t
          · simp only [hqt, if_true]
            exact ⟨p0, (hpredc _ hn p0).mpr (Or.inr rfl), rfl⟩
          · simp only [hqt, if_false]
            exact ⟨q, (hpredc _ hn q).mpr (Or.inl ⟨hq, hqt⟩), rfl⟩
        · rintro ⟨q, hq, rfl⟩
          rcases (hpredc _ hn q).mp hq with ⟨hq1, hq2⟩ | hq1
          · obtain ⟨e, he, her⟩ := (resolveList_mem hres).1 _ (hcover q hq1)
            exact ⟨e, he, by rw [hgf e he q her]; simp [hq2]⟩
          · have htp : t ∈ s.preds p.1 := mem_preds.mpr (mem_succs.mp hn)
            obtain ⟨e, he, her⟩ := (resolveList_mem hres).1 _ (hcover t htp)
            exact ⟨e, he, by rw [hgf e he t her]; simp [hq1]⟩
      have hDvals : ∀ x, x ∈ D.map g ↔ ∃ q ∈ s'.preds p.1, x = some q := by
        intro x
        rw [mem_dedupeP_map]
        simp only [List.not_mem_nil, not_false_eq_true, and_true]
        exact hAvals x
      have hDnd : (D.map g).Nodup := nodup_dedupeP_map g A []
      have hDlen : D.length = (s'.preds p.1).length := by
        have h1 : (D.map g).length ≤ ((s'.preds p.1).map some).length :=
          hDnd.length_le_of_subset (fun x hx => by
            obtain ⟨q, hq, rfl⟩ := (hDvals x).mp hx; exact List.mem_map.mpr ⟨q, hq, rfl⟩)
        have h2 : ((s'.preds p.1).map some).length ≤ (D.map g).length :=
          (nodup_map_on (fun a _ b _ h => Option.some.inj h) (preds_nodup hs' p.1)).length_le_of_subset
            (fun x hx => by
              obtain ⟨q, hq, rfl⟩ := List.mem_map.mp hx; exact (hDvals _).mpr ⟨q, hq, rfl⟩)
        simp only [List.length_map] at h1 h2
        omega
      have hpn' : dget s'.pnames p.1 = some (D ++ dedupeP g B ([] ++ D.map g)) := by
        rw [c6, if_pos hn, hpl]
        simp only [Option.map_some]
        show some (dedupeP g (pl.map f) []) = _
        rw [hsplit, dedupeP_append]
      refine ⟨D.map g, ?_, ?_, hDnd⟩
      · unfold Sys.parentsOf
        have hle : ¬ (s'.preds p.1).length ≤ 1 := by omega
        simp only [hle, if_false, hpn']
        rw [if_neg (by simp [hDlen])]
        rw [resolveAll_eq, ← hDlen, List.take_left']
        · exact resolveList_of_total (fun q => by rw [← getIndex_eq_resolve]; exact hg q) D
        · rfl
      · intro x hx; exact (hDvals x).mp hx
    · apply inputs_kept hs hw hp c2 c5 h1 hm (hsame _ h2 hn)
      · intro q hq
        simp only [List.mem_singleton]
        intro e
        exact hn (mem_succs.mpr (e ▸ mem_preds.mp hq))
      · rw [c6, if_neg hn]


/-! ### del_comp -/

theorem childRefsErr_none {s : Sys π ν} (hw : WFr s) {L : List Nat} (hpn : ∀ c ∈ L, c ∈ dkeys s.pnames) :
    s.childRefsErr L = none := by
  induction L with
  | nil => rfl
  | cons c cs ih =>
    unfold Sys.childRefsErr
    obtain ⟨pl, hpl⟩ := dget_isSome_iff.mpr (hpn c (by simp))
    rw [hpl]
    simp only
    rw [resolveAll_eq]
    obtain ⟨res, hres⟩ := resolveList_total (N := s.nodes) (R := s.rails) (l := pl)
      (fun x _ => by rw [← getIndex_eq_resolve]; exact getIndex_ok hw x)
    rw [hres]
    exact ih (fun d hd => hpn d (List.mem_cons_of_mem _ hd))

theorem dget_map_snd {κ β γ : Type} [DecidableEq κ] (d : List (κ × β)) (f : κ → β → γ) (k : κ) :
    dget (d.map fun kp => (kp.1, f kp.1 kp.2)) k = (dget d k).map (f k) := by
  induction d with
  | nil => rfl
  | cons kp rest ih =>
    by_cases hk : kp.1 = k
    · subst hk; simp [dget]
    · simp [dget, hk, ih]

/-- what `del_comp` does to a well-formed state: rejected with the state untouched, or accepted with a
    well-formed result -/
theorem delComp_spec {s : Sys π ν} (hs : Sane s) (hw : WFr s) (hpn : ∀ n ∈ s.ids, n ∈ dkeys s.pnames)
    (x : String) (d : Bool) :
    (s.delComp x d = (s, .raised "ValueError")) ∨ ((s.delComp x d).2 = .ok ∧ WFr (s.delComp x d).1) := by
  have hsane := sane_delComp hs x d
  unfold Sys.delComp Sys.fail at hsane ⊢
  simp only at hsane ⊢
  split
  · exact Or.inl rfl
  · next t hxget =>
    simp only [hxget] at hsane
    rw [parentsErr_none hw] at hsane ⊢
    simp only at hsane ⊢
    obtain ⟨p, hpm, hpn', hpt⟩ := nodes_get_live hw hxget
    obtain ⟨t', tc⟩ := p
    simp only at hpn' hpt; subst hpt
    have htl : t' ∈ s.ids := mem_ids_of_mem hpm
    rw [if_neg (by simpa using htl)] at hsane ⊢
    obtain ⟨l, hl, hl', hlnil⟩ := parentsOf_ok hw hpm
    simp only at hl hl' hlnil
    rw [hl] at hsane ⊢
    simp only at hsane ⊢
    split
    · exact Or.inl rfl
    · next hg1 =>
      rw [if_neg hg1] at hsane
      split
      · exact Or.inl rfl
      · next hg2 =>
        rw [if_neg hg2] at hsane
        right
        have hrk := regsKnow_of_wfr hw
        have htpay : s.payload? t' = some tc := payload?_of_mem hs hpm
        have hsucc_pn : ∀ c ∈ s.succs t', c ∈ dkeys s.pnames := fun c hc =>
          hpn c (hs.edges_live _ (mem_succs.mp hc)).2
        have hcre : (if (!d) = true then s.childRefsErr (s.succs t') else none) = none := by
          split
          · exact childRefsErr_none hw hsucc_pn
          · rfl
        rw [hcre] at hsane ⊢
        simp only at hsane ⊢
        cases d with
        | true =>
          simp only [if_true] at hsane ⊢
          have hDlive : ∀ c ∈ s.descendants t', c ∈ s.ids := by
            intro c hc
            obtain ⟨b, hb⟩ := (mem_descendants.mp hc).2.last_mem
            exact (hs.edges_live _ hb).2
          obtain ⟨o1, p1⟩ := delDescendants_spec hs hrk (s.descendants t') (nodup_descendants s t') hDlive
          generalize hr1 : s.delDescendants (s.descendants t') = r1 at o1 p1 hsane ⊢
          obtain ⟨s1, out1⟩ := r1
          simp only at o1 p1; subst o1
          unfold Sys.andThen at hsane ⊢
          simp only at hsane ⊢
          have hs1 : Sane s1 := by
            have := sane_delDescendants hs (s.descendants t')
            rw [hr1] at this; exact this
          have hrk1 := regsKnow_pruned hs hrk p1
          have htD : t' ∉ s.descendants t' := fun h => (mem_descendants.mp h).1 rfl
          have htpay1 : s1.payload? t' = some tc := by
            rw [payload?_filter hs p1.comps]; simp [htD, htpay]
          have hm1 := mem_of_payload? htpay1
          obtain ⟨o2, p2⟩ := pruned_one' hs1 htpay1 (hrk1.nodes _ hm1) (hrk1.pconf _ hm1) (hrk1.groups _ hm1)
            (hrk1.rails _ hm1)
          rw [hpn'] at o2 p2
          generalize hr2 : (s1.removeNode t').delRegs x = r2 at o2 p2 hsane ⊢
          obtain ⟨s2, out2⟩ := r2
          simp only at o2 p2; subst o2
          simp only
          refine ⟨by first | rfl | trivial, ?_⟩
          have hP := pruned_trans hs (K1 := s.descendants t') (K2 := [t'])
            (fun k hk h => by simp at hk; subst hk; exact htD h) p1 p2
          apply wfr_pruned_closed hs hw hP
          intro e he h1
          simp only [List.mem_append, List.mem_singleton] at h1 ⊢
          by_cases h2 : e.2 = t'
          · exact Or.inr h2
          · left
            apply mem_descendants.mpr ⟨h2, ?_⟩
            rcases h1 with h1 | h1
            · exact (mem_descendants.mp h1).2.snoc (by exact he)
            · exact .single (by rw [← h1]; exact he)
        | false =>
          simp only [Bool.false_eq_true, if_false] at hsane ⊢
          unfold Sys.andThen at hsane ⊢
          simp only at hsane ⊢
          obtain ⟨o2, p2⟩ := pruned_one' hs htpay (hrk.nodes _ hpm) (hrk.pconf _ hpm) (hrk.groups _ hpm)
            (hrk.rails _ hpm)
          rw [hpn'] at o2 p2
          generalize hr2 : (s.removeNode t').delRegs x = r2 at o2 p2 hsane ⊢
          obtain ⟨s2, out2⟩ := r2
          simp only at o2 p2; subst o2
          simp only at hsane ⊢
          have hs2 : Sane s2 := by
            have := sane_delRegs (sane_removeNode hs t') x
            rw [hr2] at this; exact this
          have hlne : l ≠ [] := by
            intro e; apply hg1; simp [e]
          cases hsucc : s.succs t' with
          | nil =>
            simp only
            refine ⟨by first | rfl | trivial, ?_⟩
            apply wfr_pruned_closed hs hw p2
            intro e he h1
            simp only [List.mem_singleton] at h1
            have : e.2 ∈ s.succs t' := mem_succs.mpr (by rw [← h1]; exact he)
            rw [hsucc] at this; simp at this
          | cons c0 cs0 =>
            cases hlc : l with
            | nil => exact absurd hlc hlne
            | cons y ys =>
              obtain ⟨p0, hp0, rfl⟩ := hl' y (by simp [hlc])
              simp only [hsucc, hlc] at hsane
              simp only at hsane ⊢
              rw [← hsucc] at hsane ⊢
              have hacyc := hs.acyclic
              have hp0e : (p0, t') ∈ s.edges := mem_preds.mp hp0
              have hp0t : p0 ≠ t' := fun e => hacyc t' (.single (by rw [e] at hp0e; exact hp0e))
              have hids2 : ∀ n, n ∈ s2.ids ↔ n ∈ s.ids ∧ n ≠ t' := by
                intro n; unfold Sys.ids; rw [p2.comps]
                simp only [List.mem_map, List.mem_filter, List.mem_singleton, decide_eq_true_eq]
                constructor
                · rintro ⟨q, ⟨h1, h2⟩, rfl⟩; exact ⟨⟨q, h1, rfl⟩, h2⟩
                · rintro ⟨⟨q, h1, rfl⟩, h2⟩; exact ⟨q, ⟨h1, h2⟩, rfl⟩
              have hsub2 : ∀ e ∈ s2.edges, e ∈ s.edges := by
                intro e he; rw [p2.edges] at he; exact (List.mem_filter.mp he).1
              have hL : ∀ c ∈ s.succs t', c ∈ s2.ids ∧ c ≠ p0 ∧ ¬ Path s2.edges c p0 := by
                intro c hc
                have hce : (t', c) ∈ s.edges := mem_succs.mp hc
                have hct : c ≠ t' := fun e => hacyc t' (.single (by rw [e] at hce; exact hce))
                refine ⟨(hids2 c).mpr ⟨(hs.edges_live _ hce).2, hct⟩, ?_, ?_⟩
                · intro e; subst e
                  exact hacyc t' (.cons hce (.single hp0e))
                · intro hpath
                  exact hacyc t' (.cons hce ((hpath.mono hsub2).snoc hp0e))
              obtain ⟨o3, X, x1, x2, x3, x4, x5, x6, x7, x8, x9⟩ := relink_spec hs2 p0 (s.succs t')
                ((hids2 p0).mpr ⟨(hs.edges_live _ hp0e).1, hp0t⟩) hL
              generalize hr3 : s2.relink p0 (s.succs t') = r3 at o3 x1 x3 x4 x5 x6 x7 x8 x9 hsane ⊢
              obtain ⟨s3, out3⟩ := r3
              simp only at o3 x1 x3 x4 x5 x6 x7 x8 x9 hsane ⊢
              subst o3
              simp only at hsane ⊢
              -- pname
              obtain ⟨pc0, hpc0⟩ := payload?_of_mem_ids (hs.edges_live _ hp0e).1
              have hpc0' : s3.payload? p0 = some pc0 := by
                have := payload?_filter hs p2.comps p0
                unfold Sys.payload? at this ⊢
                rw [x4, this]; simp [hp0t, show dget s.comps p0 = some pc0 from hpc0]
              rw [hpc0'] at hsane ⊢
              simp only at hsane ⊢
              -- the state before the de-duplication loop
              generalize hs4 : s3.mapPnames (s.succs t') (fun p => if s.refersTo t' p then nameOfC pc0 else p) = s4
                at hsane ⊢
              have h4c : s4.comps = s3.comps := by rw [← hs4]; rfl
              have h4e : s4.edges = s3.edges := by rw [← hs4]; rfl
              have h4n : s4.nodes = s3.nodes := by rw [← hs4]; rfl
              have h4p : s4.phaseConf = s3.phaseConf := by rw [← hs4]; rfl
              have h4g : s4.groups = s3.groups := by rw [← hs4]; rfl
              have h4r : s4.rails = s3.rails := by rw [← hs4]; rfl
              have h4pn : ∀ k, dget s4.pnames k =
                  if k ∈ s.succs t' then
                    (dget s.pnames k).map (List.map fun p => if s.refersTo t' p then nameOfC pc0 else p)
                  else dget s.pnames k := by
                intro k
                rw [← hs4]
                unfold Sys.mapPnames
                simp only
                rw [x9, p2.pnames]
                let F : Nat → List String → List String := fun k' pl =>
                  if (k' ∈ s.succs t') then pl.map (fun p => if s.refersTo t' p then nameOfC pc0 else p) else pl
                have := dget_map_snd s.pnames F k
                have hfun : (s.pnames.map fun (kp : Nat × List String) =>
                    if kp.1 ∈ s.succs t' then
                      (kp.1, kp.2.map fun p => if s.refersTo t' p then nameOfC pc0 else p)
                    else kp) = s.pnames.map fun kp => (kp.1, F kp.1 kp.2) := by
                  apply List.map_congr_left
                  intro kp _
                  simp only [F]
                  split <;> rfl
                rw [hfun, this]
                simp only [F]
                split
                · rfl
                · cases dget s.pnames k <;> rfl
              have hreg4 : RegsExact s4 :=
                regsExact_of_pruned hs hw p2 (by rw [h4c, x4]) (by rw [h4n, x5]) (by rw [h4r, x8])
              let g : String → Option Nat := fun p => match s4.getIndex p with | .ok r => r | .error _ => none
              have hg : ∀ p, s4.getIndex p = .ok (g p) := by
                intro p
                obtain ⟨r, hr⟩ := getIndex_ok' hreg4 p
                simp only [g, hr]
              have hsucc_nd : (s.succs t').Nodup := by
                unfold Sys.succs
                refine nodup_map_on ?_ (hs.edges_nodup.filter _)
                intro a ha b hb hab
                simp only [List.mem_filter, decide_eq_true_eq] at ha hb
                exact Prod.ext (ha.2.trans hb.2.symm) hab
              obtain ⟨o5, d1, d2, d3, d4, d5, d6, d7⟩ := dedupeChilds_spec (s := s4) (g := g) (s.succs t') hsucc_nd
                (fun p => by rw [← getIndex_eq_resolve]; exact hg p)
                (fun c hc => by
                  obtain ⟨pl, hpl⟩ := dget_isSome_iff.mpr (hsucc_pn c hc)
                  rw [h4pn, if_pos hc, hpl]; exact ⟨_, rfl⟩)
              generalize hr5 : s4.dedupeChilds (s.succs t') = r5 at o5 d1 d2 d3 d4 d5 d6 d7 hsane ⊢
              obtain ⟨s5, out5⟩ := r5
              simp only at o5 d1 d2 d3 d4 d5 d6 d7 hsane ⊢
              subst o5
              refine ⟨by first | rfl | trivial, ?_⟩
              have hg5 : ∀ p, s5.getIndex p = .ok (g p) := by
                intro p
                rw [getIndex_eq_resolve, d3, d6, ← getIndex_eq_resolve]; exact hg p
              apply wfr_relinked hs hsane hw hpm hp0 hpc0 p2 (X := X)
                (by rw [d2, h4e, x1]) x2 (by intro c hc; rw [d2, h4e]; exact x3 c hc)
                (by rw [d1, h4c, x4]) (by rw [d3, h4n, x5]) (by rw [d4, h4p, x6]) (by rw [d5, h4g, x7])
                (by rw [d6, h4r, x8]) g hg5
              intro k
              rw [d7 k, h4pn k]
              split
              · cases dget s.pnames k <;> rfl
              · rfl

end
end SysLoss
