/-
  Model/Solver — the fixed-point solver of system.py (`_sys_init`, `_child_curr`, `_fwd_prop`,
  `_back_prop`, `_solve`, and the exception mapping at the top of `solve`).

  A `SSys` is the system as the solver sees it *after* `_rel_update()`:
  node payloads indexed by rustworkx node id, `_parents[n]` (ordered, after the `pnames`
  indirection), `_childs[n]`, the topological order `_topo_nodes` (a parameter: rustworkx's choice),
  `hidx = max id + 1`, and per node the phase configuration.

  `_fwd_prop` / `_back_prop` loop over `_topo_nodes`, but each iteration reads only the *old* vectors
  and writes one fresh cell, so both are pointwise maps (`fwdAt`, `backAt`); the loops just tabulate
  them.  The off-flags (`state[n]["off"]`) are threaded exactly as in the Python, including the
  initial state in which a non-root node holds its *parents'* flags.
-/
import SysLoss.Model.Warn

namespace SysLoss
section
variable {α : Type} [Add α] [Sub α] [Mul α] [Div α] [Neg α] [LT α] [DecidableLT α]
  [OfNat α 0] [OfNat α 1] [OfNat α 2] [OfNat α 100] [OfNat α 1000000]

/-- a component's entry in `attrs["phase_conf"]` -/
inductive PhaseConf (α : Type) where
  | names (l : List String)            -- list form (sources, converters, regulators, switches, mux)
  | table (t : List (String × α))      -- dict form (loads); `{}` is `table []`
  deriving Inhabited

def PhaseConf.ctx (pc : PhaseConf α) (phase : String) : PhaseCtx α :=
  match pc with
  | .names l => ⟨!l.isEmpty, l.contains phase, 0⟩
  | .table t => ⟨!t.isEmpty, (t.lookup phase).isSome, (t.lookup phase).getD 0⟩

structure SNode (α : Type) where
  comp    : Comp α
  parents : List Nat            -- `_parents[n]`, `[]` for a root (`-1` in the Python)
  childs  : List Nat            -- `_childs[n]`,  `[]` for a leaf (`-1` in the Python)
  pconf   : PhaseConf α := .table []
  group   : String := ""
  rail    : String := ""

structure SSys (α : Type) where
  nodes  : Array (Option (SNode α))      -- indexed by node id, size `hidx`
  topo   : List Nat                      -- `_topo_nodes`
  phases : List (String × α) := []       -- `attrs["phases"]` in declaration order

def SSys.hidx (s : SSys α) : Nat := s.nodes.size
def SSys.node? (s : SSys α) (n : Nat) : Option (SNode α) := (s.nodes.getD n none)

abbrev Vec (α : Type) := Array α
/-- `state[n]["off"]` for every id -/
abbrev St := Array (List Bool)

def vget (v : Vec α) (n : Nat) : α := v.getD n 0
/-- `state[n]["off"][0]` -/
def sget (st : St) (n : Nat) : Bool := (st.getD n []).headD false

/-- `_sys_init(phase)` -/
def SSys.init (s : SSys α) (phase : String) : Vec α × Vec α × St :=
  let ids := List.range s.hidx
  let v := ids.map fun n => match s.node? n with
    | some nd => nd.comp.initVolt (nd.pconf.ctx phase) | none => 0
  let i := ids.map fun n => match s.node? n with
    | some nd => nd.comp.initCurr (nd.pconf.ctx phase) | none => 0
  let offOf := fun (n : Nat) => match s.node? n with
    | some nd => nd.comp.initOff (nd.pconf.ctx phase) | none => false
  let st := ids.map fun n => match s.node? n with
    | some nd => if nd.parents.isEmpty then [offOf n] else nd.parents.map offOf
    | none => []
  (v.toArray, i.toArray, st.toArray)

/-- contribution of child `c` to the output current of `node` (one iteration of `_child_curr`) -/
def SSys.childShare (s : SSys α) (node : Nat) (i v : Vec α) (st : St) (c : Nat) : α :=
  match s.node? c with
  | none => 0
  | some cd =>
    let pp := cd.parents
    let vc := pp.map (vget v)
    let offs := pp.map (sget st)
    match cd.comp.priInp offs vc with
    | some k => if pp.length > 1 then (if pp.getD k 0 == node then vget i c else 0) else vget i c
    | none => vget i c

/-- `_child_curr(node, i, v, state)` -/
def SSys.childCurr (s : SSys α) (node : Nat) (i v : Vec α) (st : St) : α :=
  match s.node? node with
  | none => 0
  | some nd => sumL (nd.childs.map (s.childShare node i v st))

/-- the `(vi, pstate["off"], io)` every pass hands to a law for node `n` -/
def SSys.lawArgs (s : SSys α) (nd : SNode α) (n : Nat) (v i : Vec α) (st : St) :
    List α × List Bool × α :=
  let vi := if nd.parents.isEmpty then [vget v n] else nd.parents.map (vget v)
  let offs := if nd.parents.isEmpty then st.getD n [] else nd.parents.map (sget st)
  let io := if nd.childs.isEmpty then 0 else s.childCurr n i v st
  (vi, offs, io)

/-- one cell of `_fwd_prop` -/
def SSys.fwdAt (s : SSys α) (phase : String) (v i : Vec α) (st : St) (n : Nat) :
    Except Err (α × Bool) :=
  match s.node? n with
  | none => .ok (0, false)
  | some nd =>
    let (vi, offs, io) := s.lawArgs nd n v i st
    nd.comp.solvOutpVolt vi io (nd.pconf.ctx phase) offs

/-- one cell of `_back_prop` (`v` is the freshly propagated voltage vector) -/
def SSys.backAt (s : SSys α) (phase : String) (v i : Vec α) (st : St) (n : Nat) : α :=
  match s.node? n with
  | none => 0
  | some nd =>
    let (vi, offs, io) := s.lawArgs nd n v i st
    nd.comp.solvInpCurr vi io (nd.pconf.ctx phase) offs

/-- `_fwd_prop`: tabulate `fwdAt` over `_topo_nodes`; the first exception in loop order escapes -/
def SSys.fwdProp (s : SSys α) (phase : String) (v i : Vec α) (st : St) : Except Err (Vec α × St) :=
  s.topo.foldlM (init := (Array.replicate s.hidx (0 : α), Array.replicate s.hidx ([] : List Bool)))
    fun (acc : Vec α × St) n => do
      let (x, b) ← s.fwdAt phase v i st n
      pure (acc.1.setIfInBounds n x, acc.2.setIfInBounds n [b])

/-- `_back_prop` -/
def SSys.backProp (s : SSys α) (phase : String) (v i : Vec α) (st : St) : Vec α :=
  s.topo.reverse.foldl (init := Array.replicate s.hidx (0 : α))
    fun acc n => acc.setIfInBounds n (s.backAt phase v i st n)

/-- solver settings -/
structure Cfg (α : Type) where
  atol : α          -- numpy's fixed `atol = 1e-8`
  vtol : α
  itol : α
  maxiter : Nat

/-- the exit test of `_solve` -/
def converged (cfg : Cfg α) (v v' i i' : Vec α) : Bool :=
  allClose cfg.atol cfg.vtol v.toList v'.toList && allClose cfg.atol cfg.itol i.toList i'.toList

/-- result of `_solve`: `(v, i, iters, state)` -/
structure SolveOut (α : Type) where
  v : Vec α
  i : Vec α
  iters : Nat
  st : St

/-- `while iters <= maxiter: …` with `fuel` = number of remaining permitted sweeps.
    On the exit test firing the *previous* iterate is returned, as in the Python. -/
def SSys.loop (s : SSys α) (cfg : Cfg α) (phase : String) :
    Nat → Vec α → Vec α → St → Nat → Except Err (SolveOut α)
  | 0, v, i, st, iters => .ok ⟨v, i, iters, st⟩
  | fuel + 1, v, i, st, iters => do
    let (v', st') ← s.fwdProp phase v i st
    let i' := s.backProp phase v' i st
    if converged cfg v v' i i' then .ok ⟨v, i, iters + 1, st⟩
    else s.loop cfg phase fuel v' i' st' (iters + 1)

/-- `_solve(vtol, itol, maxiter, quiet, phase)` -/
def SSys.solveRaw (s : SSys α) (cfg : Cfg α) (phase : String) : Except Err (SolveOut α) :=
  let (v, i, st) := s.init phase
  s.loop cfg phase (cfg.maxiter + 1) v i st 0

/-- `_solve` followed by the `iters > maxiter → RuntimeError` test of `solve()` -/
def SSys.solvePhase (s : SSys α) (cfg : Cfg α) (phase : String) : Except Err (SolveOut α) := do
  let r ← s.solveRaw cfg phase
  if r.iters > cfg.maxiter then .error (.runtime "Steady-state not achieved") else pure r

end
end SysLoss
