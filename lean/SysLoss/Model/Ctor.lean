/-
  Model/Ctor — the eleven constructors of components.py: argument checks, sign normalisation, the
  interpolator that is built, and the `_params` dictionary that is stored (`mkComp`).

  Statement order inside each `__init__` is kept (it decides which exception wins).
  Keyword arguments arrive as an association list `String × PV`; an absent key means "use the default".
-/
import SysLoss.Model.Warn

namespace SysLoss
section
variable {α : Type} [Add α] [Sub α] [Mul α] [Div α] [Neg α] [LT α] [DecidableLT α]
  [OfNat α 0] [OfNat α 1] [OfNat α 2] [OfNat α 100] [OfNat α 1000000]

abbrev Args (α : Type) := List (String × PV α)

/-- numeric value of a Python number (`bool` is an `int`) -/
def PV.num? : PV α → Option α
  | .int x | .float x => some x
  | .bool b => some (if b then 1 else 0)
  | _ => none

/-- `abs(x)`; `TypeError` for non-numbers -/
def absArg (k : String) (x : PV α) : Except Err α :=
  match x.num? with
  | some v => .ok (nabs v)
  | none => .error (.type ("bad operand type for abs(): " ++ k))

def numArg (k : String) (x : PV α) : Except Err α :=
  match x.num? with
  | some v => .ok v
  | none => .error (.type ("not a number: " ++ k))

def arg (a : Args α) (k : String) (dflt : PV α) : PV α := (a.lookup k).getD dflt

/-- `_check_limits(limits)` followed by the conversion of the entries the model ever reads -/
def checkLimits (lim : PV α) : Except Err (List (String × (α × α))) :=
  match lim with
  | .dict d =>
    allLimitKeys.foldlM (init := []) fun acc key =>
      match d.lookup key with
      | none => pure acc
      | some (.list [a, b]) =>
        (match a.num?, b.num? with
         | some x, some y => pure (acc ++ [(key, (x, y))])
         | _, _ => .error (.value ("\"" ++ key ++ "\" value is not a list of two numbers!")))
      | some (.list _) => .error (.value ("\"" ++ key ++ "\" value is not a list of two numbers!"))
      | some _ => .error (.value ("\"" ++ key ++ "\" value is not a list!"))
  | .null => pure []           -- keyword not given: `LIMITS_DEFAULT`
  | _ => .error (.type "argument of type is not iterable")

def numList (k : String) (x : PV α) : Except Err (List α) :=
  match x with
  | .list l => l.mapM (numArg k)
  | _ => .error (.type (k ++ " is not a list"))

def strictlyIncreasing : List α → Bool
  | a :: b :: rest => decide (a < b) && strictlyIncreasing (b :: rest)
  | _ => true

def boolGrid (x : Option (PV α)) : List (List Bool) :=
  match x with
  | some (.list rows) => rows.map fun r => match r with
      | .list bs => bs.map fun b => match b with | .bool v => v | _ => true
      | _ => []
  | _ => []

/-- `len(x)` of a list (0 for anything else) -/
def pvLen : PV α → Nat
  | .list l => l.length
  | _ => 0

/-- `np.array(z).shape` as far as `_check_interp` reads it: `none` = 0-d (not a list), `some (n, none)` = 1-d
    (`[]` or a flat list), `some (n, some m)` = `n` rows of equal length `m`; ragged or mixed nesting is
    numpy's "inhomogeneous shape" `ValueError`. -/
def tableShape (zz : PV α) : Except Err (Option (Nat × Option Nat)) :=
  match zz with
  | .list [] => pure (some (0, none))
  | .list (r :: rs) =>
    if (r :: rs).all PV.isList then
      if rs.all (fun x => pvLen x == pvLen r) then pure (some (rs.length + 1, some (pvLen r)))
      else throw (.value "inhomogeneous shape")
    else if (r :: rs).any PV.isList then throw (.value "inhomogeneous shape")
    else pure (some (rs.length + 1, none))
  | _ => pure none

/-- the shape test of `_check_interp` (`vsh[0] != zsh[0] or ish[0] != zsh[1]`, with the `IndexError`s of
    0-d / 1-d data), then the numeric rows of the table -/
def tableRows (vi zz : PV α) (nio : Nat) (z : String) : Except Err (List (List α)) := do
  let zsh ← tableShape zz
  match vi, zsh with
  | .list lv, some (n, some m) =>
    if lv.length != n then throw (.value "dimensions of interpolation data do not match")
    else if nio != m then throw (.value "dimensions of interpolation data do not match")
    else match zz with
      | .list rs => rs.mapM (numList z)
      | _ => throw (.other "IndexError")
  | .list lv, some (n, none) =>
    if lv.length != n then throw (.value "dimensions of interpolation data do not match")
    else throw (.other "IndexError")
  | _, _ => throw (.other "IndexError")

/-- all grid points on one line: Qhull cannot triangulate (`QhullError`, a `RuntimeError`) -/
def allSame : List α → Bool
  | [] => true
  | x :: xs => xs.all fun y => eqB (nabs y) (nabs x)

/-- `np.all(np.diff(np.abs(idata["io"])) > 0)` needs a sequence of numbers: `np.abs` of anything that is not
    numeric is a TypeError, `np.diff` of a single number a ValueError -/
def ioAxis (io : PV α) : Except Err (List α) :=
  match io with
  | .list l => l.mapM (numArg "io")
  | x => if x.isNumber then throw (.value "diff requires input that is at least one dimensional")
         else throw (.type "bad operand type for abs()")

/-- `_check_interp(idata, z)`, the range check `chk` the caller applies to the table values, then the
    choice and construction of `_Interp1d` / `_Interp2d`; also returns the flat list of table values.
    The key `"__diag"` (never seen by the Python) carries scipy's observed diagonal choice. -/
def mkTable (d : List (String × PV α)) (z : String)
    (chk : List α → Except Err Unit := fun _ => pure ()) : Except Err (Param α × List α) := do
  match d.lookup "vi", d.lookup "io", d.lookup z with
  | some vi, some io, some zz =>
    let ios ← ioAxis io
    -- `np.all(np.diff(np.abs(idata["io"])) > 0)`
    if !(strictlyIncreasing (ios.map nabs)) then throw (.value "io values must be monotonic increasing")
    else do
      let rows ← tableRows vi zz ios.length z
      chk rows.flatten
      if rows.length == 1 then pure (.tab1 ios (rows.headD []), rows.flatten)
      else do
        let vis ← numList "vi" vi
        if ios.isEmpty then throw (.value "min() arg is an empty sequence")
        else if allSame ios || allSame vis then throw (.runtime "QhullError")
        else pure (.tab2 ios vis rows (boolGrid (d.lookup "__diag")), rows.flatten)
  | _, _, _ => throw (.value ("interpolation data must contain vi, io and " ++ z))

def listMin : List α → Option α
  | [] => none
  | x :: xs => some (xs.foldl nmin x)
def listMax : List α → Option α
  | [] => none
  | x :: xs => some (xs.foldl nmax x)

/-- `np.min(ig["ig"]) < 0.0` → ValueError (`np.min` of an empty array is a ValueError itself) -/
def chkIg (vals : List α) : Except Err Unit :=
  match listMin vals with
  | some m => if m < 0 then throw (.value "ig values must be >= 0.0") else pure ()
  | none => throw (.value "zero-size array to reduction operation minimum which has no identity")

/-- `np.min(eff["eff"]) <= 0.0`, `np.max(eff["eff"]) > 1.0` → ValueError -/
def chkEff (vals : List α) : Except Err Unit :=
  match listMin vals, listMax vals with
  | some mn, some mx =>
    if !(0 < mn) then throw (.value "Efficiency values must be > 0.0")
    else if 1 < mx then throw (.value "Efficiency values must be <= 1.0")
    else pure ()
  | _, _ => throw (.value "zero-size array to reduction operation minimum which has no identity")

/-- ground-current argument of LinReg / PSwitch / PMux / Rectifier: table (entries ≥ 0) or constant -/
def mkIg (ig : PV α) : Except Err (Param α) :=
  match ig with
  | .dict d => do
    let (p, _) ← mkTable d "ig" chkIg
    pure p
  | x => do pure (.const (← absArg "ig" x))

def stripDiag (x : PV α) : PV α :=
  match x with
  | .dict d => .dict (d.filter fun kv => kv.1 != "__diag")
  | y => y

/-- a mandatory keyword argument -/
def req (a : Args α) (k : String) : Except Err (PV α) :=
  match a.lookup k with
  | some x => pure x
  | none => throw (.type ("missing " ++ k))

/-- Python truthiness of the `loss` flag -/
def truthy (x : PV α) : Bool :=
  match x with
  | .bool b => b
  | y => (y.num?.map fun v => !isZ v).getD true

/-- `x != 0.0` for an argument that may be a number, a dict, or anything else -/
def nonZeroArg (x : PV α) : Bool :=
  match x with
  | .dict _ => true
  | y => (y.num?.map fun v => !isZ v).getD true

/-- `vdrop` argument of VLoss / diode Rectifier: the interpolator and the value stored in `_params` -/
def mkVdrop (vd : PV α) : Except Err (Param α × PV α) :=
  match vd with
  | .dict d => do
    let (p, _) ← mkTable d "vdrop"
    pure (p, stripDiag vd)
  | x => do
    let v ← absArg "vdrop" x
    pure (Param.const v, PV.float v)

/-- `eff` argument of a Converter: table with entries in (0, 1], or a constant in (0, 1] -/
def mkEff (eff : PV α) : Except Err (Param α) :=
  match eff with
  | .dict d => do
    let (p, _) ← mkTable d "eff" chkEff
    pure p
  | x => do
    let e ← numArg "eff" x
    if !(0 < e) then throw (.value "Efficiency must be > 0.0")
    else if 1 < e then throw (.value "Efficiency must be <= 1.0")
    else pure (Param.const e)

/-- PMux `rs`: `if not isinstance(rs, list): rs = abs(rs)  elif not all numbers: raise`, then
    `_params["rs"] = rs`: a scalar is stored in magnitude, a list as given (its entries are used through
    `abs`).  Returns the scalar resistance, the list form, and the stored value. -/
def mkRsMux (rsA : PV α) : Except Err (α × Option (List α) × PV α) :=
  match rsA with
  | .list l =>
    if l.all PV.isNumber then pure ((0 : α), some (l.filterMap PV.num?), rsA)
    else throw (.value "rs values must be numbers!")
  | x => do
    let v ← absArg "rs" x
    pure (v, none, .float v)

/-- MOSFET Rectifier `rs`: as PMux, with an explicit number test for the scalar form -/
def mkRsRect (rsA : PV α) : Except Err (α × Option (List α) × PV α) :=
  match rsA with
  | .list l =>
    if l.all PV.isNumber then pure ((0 : α), some (l.filterMap PV.num?), rsA)
    else throw (.value "rs values must be numbers!")
  | x =>
    if !x.isNumber then throw (.value "rs values must be numbers!")
    else do
      let v ← absArg "rs" x
      pure (v, none, .float v)

/-- LinReg: which argument carries the ground current (`iq` is the deprecated spelling; a dict given as
    `iq` has its `"iq"` entry, if any, renamed to `"ig"`) -/
def linregIgc (a : Args α) : Except Err (PV α) :=
  let iqA := arg a "iq" (.float 0)
  if nonZeroArg iqA then
    match iqA with
    | .dict d =>
      match d.lookup "iq" with
      | some z => pure (.dict ((d.filter fun kv => kv.1 != "iq") ++ [("ig", z)]))
      | none => pure iqA
    | x => pure x
  else pure (arg a "ig" (.float 0))

/-- `Kind(name, **args)` -/
def mkComp (kind : Kind) (name : String) (a : Args α) : Except Err (Comp α) := do
  let zero : PV α := .float 0
  let limArg := arg a "limits" .null
  match kind with
  | .source =>
    let vo ← req a "vo"
    let rs ← absArg "rs" (arg a "rs" zero)
    let lim ← checkLimits limArg
    let vov ← numArg "vo" vo
    pure { name, kind, vo := vov, rs, par := .const 0, limits := lim,
           params := [("name", .str name), ("vo", vo), ("rs", .float rs), ("rt", .float 0)] }
  | .pload =>
    let pwrA ← req a "pwr"
    let pwr ← absArg "pwr" pwrA
    let pwrs ← absArg "pwrs" (arg a "pwrs" zero)
    let rt ← absArg "rt" (arg a "rt" zero)
    let lim ← checkLimits limArg
    let loss := arg a "loss" (.bool false)
    pure { name, kind, pwr, pwrs, rt, par := .const 0, limits := lim, loss := truthy loss,
           params := [("name", .str name), ("pwr", .float pwr), ("pwrs", .float pwrs),
                      ("rt", .float rt), ("loss", loss)] }
  | .iload =>
    let iiA ← req a "ii"
    let ii ← absArg "ii" iiA
    let lim ← checkLimits limArg
    let iis ← absArg "iis" (arg a "iis" zero)
    let rt ← absArg "rt" (arg a "rt" zero)
    let loss := arg a "loss" (.bool false)
    pure { name, kind, ii, iis, rt, par := .const 0, limits := lim, loss := truthy loss,
           params := [("name", .str name), ("ii", .float ii), ("iis", .float iis),
                      ("rt", .float rt), ("loss", loss)] }
  | .rload =>
    let rsA ← req a "rs"
    let rs ← absArg "rs" rsA
    if isZ rs then throw (.value "rs must be > 0!")
    else do
      let rt ← absArg "rt" (arg a "rt" zero)
      let lim ← checkLimits limArg
      let loss := arg a "loss" (.bool false)
      pure { name, kind, rs, rt, par := .const 0, limits := lim, loss := truthy loss,
             params := [("name", .str name), ("rs", .float rs), ("rt", .float rt), ("loss", loss)] }
  | .rloss =>
    let rsA ← req a "rs"
    let rs ← absArg "rs" rsA
    let rt ← absArg "rt" (arg a "rt" zero)
    let lim ← checkLimits limArg
    pure { name, kind, rs, rt, par := .const 0, limits := lim,
           params := [("name", .str name), ("rs", .float rs), ("rt", .float rt)] }
  | .vloss =>
    let vd ← req a "vdrop"
    let rt ← absArg "rt" (arg a "rt" zero)
    let ps ← mkVdrop vd
    let lim ← checkLimits limArg
    pure { name, kind, rt, par := ps.1, limits := lim,
           params := [("name", .str name), ("rt", .float rt), ("vdrop", ps.2)] }
  | .converter =>
    let vo ← req a "vo"
    let eff ← req a "eff"
    let par ← mkEff eff
    let iq ← absArg "iq" (arg a "iq" zero)
    let iis ← absArg "iis" (arg a "iis" zero)
    let rt ← absArg "rt" (arg a "rt" zero)
    let lim ← checkLimits limArg
    let vov ← numArg "vo" vo
    pure { name, kind, vo := vov, par, iq, iis, rt, limits := lim,
           params := [("name", .str name), ("vo", vo), ("eff", stripDiag eff), ("iq", .float iq),
                      ("iis", .float iis), ("rt", .float rt)] }
  | .linreg =>
    let vo ← req a "vo"
    let vov ← numArg "vo" vo
    let vdrop ← absArg "vdrop" (arg a "vdrop" zero)
    if !(vdrop < nabs vov) then throw (.value "Voltage drop must be < vo")
    else do
      let igc ← linregIgc a
      let par ← mkIg igc
      let iis ← absArg "iis" (arg a "iis" zero)
      let rt ← absArg "rt" (arg a "rt" zero)
      let lim ← checkLimits limArg
      pure { name, kind, vo := vov, vdrop, par, iis, rt, limits := lim,
             params := [("name", .str name), ("vo", vo), ("vdrop", .float vdrop), ("ig", stripDiag igc),
                        ("iis", .float iis), ("rt", .float rt)] }
  | .pswitch =>
    let rs ← absArg "rs" (arg a "rs" zero)
    let ig := arg a "ig" zero
    let par ← mkIg ig
    let iis ← absArg "iis" (arg a "iis" zero)
    let rt ← absArg "rt" (arg a "rt" zero)
    let lim ← checkLimits limArg
    pure { name, kind, rs, par, iis, rt, limits := lim,
           params := [("name", .str name), ("rs", .float rs), ("ig", stripDiag ig),
                      ("iis", .float iis), ("rt", .float rt)] }
  | .pmux =>
    let rsA := arg a "rs" zero
    let rr ← mkRsMux rsA
    let ig := arg a "ig" zero
    let par ← mkIg ig
    let iis ← absArg "iis" (arg a "iis" zero)
    let rt ← absArg "rt" (arg a "rt" zero)
    let lim ← checkLimits limArg
    pure { name, kind, rs := rr.1, rsList := rr.2.1, par, iis, rt, limits := lim,
           params := [("name", .str name), ("rs", rr.2.2), ("ig", stripDiag ig),
                      ("iis", .float iis), ("rt", .float rt)] }
  | .rectifier =>
    let vd := arg a "vdrop" zero
    if nonZeroArg vd then do
      let ps ← mkVdrop vd
      let rt ← absArg "rt" (arg a "rt" zero)     -- "common params" come last in the Python
      let lim ← checkLimits limArg
      pure { name, kind, par := ps.1, rt, diode := true, limits := lim,
             params := [("name", .str name), ("type", .str "diode"), ("vdrop", ps.2),
                        ("rt", .float rt)] }
    else do
      let rsA := arg a "rs" zero
      let rr ← mkRsRect rsA
      let ig := arg a "ig" zero
      let par ← mkIg ig
      let iq ← absArg "iq" (arg a "iq" zero)
      let rt ← absArg "rt" (arg a "rt" zero)
      let lim ← checkLimits limArg
      pure { name, kind, rs := rr.1, rsList := rr.2.1, par, iq, rt, diode := false, limits := lim,
             params := [("name", .str name), ("type", .str "mosfet"), ("rs", rr.2.2),
                        ("ig", stripDiag ig), ("iq", .float iq), ("rt", .float rt)] }

end
end SysLoss
