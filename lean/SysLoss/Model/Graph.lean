/-
  Model/Graph — the state of a `System` (system.py) and its editing / configuration methods.

  `Sys π ν` is what `System._g` holds: the rustworkx graph (node payloads keyed by node index, edge list
  parent → child, the free list of the index allocator) and the six registries
  `attrs["nodes" | "phase_conf" | "groups" | "rails" | "pnames" | "phases"]`, each an association list in
  Python dict insertion order.  `π` is the component payload — only its name and kind are ever asked by an
  edit (`CompLike`), so the same definitions serve `Comp α` (solver) and the light `PComp` (driver, witnesses);
  `ν` is the type of per-phase numbers.

  `step : Sys → Op → Sys × Outcome` mirrors `add_source / add_comp / change_comp / del_comp / set_sys_phases /
  set_comp_phases` STATEMENT BY STATEMENT: the returned `Sys` is the state Python is left in, also when a later
  statement raises, and the exception class is the one Python raises (`KeyError` from `del attrs[..][name]`,
  `IndexError` from `pidx[0]` or a stale node index, `OverflowError` from `self._g[-1]`).

  rustworkx, modelled not verified (checked by experiment against rustworkx 0.18.1):
   * `add_node/add_child` take the most recently freed index (petgraph StableGraph free list, LIFO), else the
     next unused one; `remove_node` of an absent index is a no-op;
   * `multigraph=False`: `add_edge` on an existing edge adds nothing;
   * `rx.descendants(g, n)` = every node reachable from `n` by ≥ 1 edge, without `n` itself.  It returns a
     Python `set`; the iteration order of the deletion loop is unspecified there and is the discovery order
     here — it only matters if a `del` inside the loop raises, which needs a name missing from a registry.
   * `check_cycle=True`: `add_edge` raises `DAGWouldCycle` when the child already reaches the parent (modelled
     in `relink`); the edges `add_comp` adds end in the node it has just created, which has no outgoing edge,
     so the check cannot fire there and is not spelled out.
-/
import SysLoss.Model.Solver

namespace SysLoss

/-- what the edits ask of a component object: `_params["name"]` and its class -/
class CompLike (π : Type) where
  name : π → String
  kind : π → Kind

instance {α : Type} : CompLike (Comp α) := ⟨Comp.name, Comp.kind⟩

/-- light payload: name, kind and an opaque tag standing for the parameters -/
structure PComp where
  name : String
  kind : Kind
  tag  : String := ""
  deriving DecidableEq, Repr, Inhabited

instance : CompLike PComp := ⟨PComp.name, PComp.kind⟩

deriving instance DecidableEq for PhaseConf
deriving instance DecidableEq for Except

inductive Outcome where
  | ok
  | raised (cls : String)
  deriving DecidableEq, Repr, Inhabited

/-! ### Python `dict` as an association list in insertion order -/
section Dict
variable {κ β : Type} [DecidableEq κ]

def dkeys (d : List (κ × β)) : List κ := d.map (·.1)
def dvals (d : List (κ × β)) : List β := d.map (·.2)

/-- `d[k]` / `d.get(k)` -/
def dget : List (κ × β) → κ → Option β
  | [], _ => none
  | (k', v) :: t, k => if k' = k then some v else dget t k

/-- `d[k] = v`: an existing key keeps its position, a new key goes to the end -/
def dset : List (κ × β) → κ → β → List (κ × β)
  | [], k, v => [(k, v)]
  | (k', v') :: t, k, v => if k' = k then (k, v) :: t else (k', v') :: dset t k v

/-- `del d[k]` (the caller tests `k ∈ dkeys d` first: `KeyError`) -/
def ddel (d : List (κ × β)) (k : κ) : List (κ × β) := d.filter (fun p => decide (p.1 ≠ k))

end Dict

/-- `System._g` -/
structure Sys (π ν : Type) where
  name      : String                          -- attrs["name"]
  comps     : List (Nat × π)                  -- live nodes: index ↦ component object
  edges     : List (Nat × Nat)                -- parent → child
  free      : List Nat                        -- freed node indices, most recent first
  next      : Nat                             -- first never-used node index
  nodes     : List (String × Nat)             -- attrs["nodes"]
  phaseConf : List (String × PhaseConf ν)     -- attrs["phase_conf"]
  groups    : List (String × String)          -- attrs["groups"]
  rails     : List (String × String)          -- attrs["rails"]
  pnames    : List (Nat × List String)        -- attrs["pnames"], keyed by node index, never pruned
  phases    : List (String × ν)               -- attrs["phases"]

/-- `parent : str | list` of `add_comp` -/
inductive ParentArg where
  | one (p : String)
  | many (ps : List String)
  deriving DecidableEq, Repr, Inhabited

/-- `phase_conf : dict | list` of `set_comp_phases`; `bad` = any other type -/
inductive PConfArg (ν : Type) where
  | conf (pc : PhaseConf ν)
  | bad

inductive Op (π ν : Type) where
  | addSource (c : π) (group rail : String)
  | addComp (parent : ParentArg) (c : π) (group rail : String)
  | changeComp (name : String) (c : π) (group rail : String)
  | delComp (name : String) (delChilds : Bool)
  | setSysPhases (ph : List (String × ν))
  | setCompPhases (name : String) (pc : PConfArg ν)

section
variable {π ν : Type} [CompLike π]

abbrev kindOfC (c : π) : Kind := CompLike.kind c
abbrev nameOfC (c : π) : String := CompLike.name c

namespace Sys

/-! ### the rustworkx graph -/

def ids (s : Sys π ν) : List Nat := s.comps.map (·.1)

/-- `self._g[n]` (`none`: `IndexError`) -/
def payload? (s : Sys π ν) (n : Nat) : Option π := dget s.comps n

/-- `predecessor_indices(n)` (as a set; the order is never used) -/
def preds (s : Sys π ν) (n : Nat) : List Nat := (s.edges.filter (fun e => decide (e.2 = n))).map (·.1)

/-- `successor_indices(n)` -/
def succs (s : Sys π ν) (n : Nat) : List Nat := (s.edges.filter (fun e => decide (e.1 = n))).map (·.2)

/-- `add_node(c)` -/
def addNode (s : Sys π ν) (c : π) : Sys π ν × Nat :=
  match s.free with
  | f :: rest => ({ s with comps := s.comps ++ [(f, c)], free := rest }, f)
  | [] => ({ s with comps := s.comps ++ [(s.next, c)], next := s.next + 1 }, s.next)

/-- `add_edge(p, c, None)` with `multigraph=False` -/
def addEdge (s : Sys π ν) (p c : Nat) : Sys π ν :=
  if (p, c) ∈ s.edges then s else { s with edges := s.edges ++ [(p, c)] }

/-- `remove_node(n)` -/
def removeNode (s : Sys π ν) (n : Nat) : Sys π ν :=
  if n ∈ s.ids then
    { s with comps := s.comps.filter (fun p => decide (p.1 ≠ n)),
             edges := s.edges.filter (fun e => decide (e.1 ≠ n) && decide (e.2 ≠ n)),
             free := n :: s.free }
  else s

/-- `self._g[n] = c` -/
def setPayload (s : Sys π ν) (n : Nat) (c : π) : Sys π ν :=
  { s with comps := s.comps.map (fun p => if p.1 = n then (n, c) else p) }

end Sys

/-- one round of the reachability saturation: the not yet seen successors of the seen set -/
def newSuccs (E : List (Nat × Nat)) (S : List Nat) : List Nat :=
  (((E.filter (fun e => decide (e.1 ∈ S))).map (·.2)).filter (fun x => decide (x ∉ S))).eraseDups

def reachAux : Nat → List (Nat × Nat) → List Nat → List Nat
  | 0, _, S => S
  | k + 1, E, S =>
    let new := newSuccs E S
    if new = [] then S else reachAux k E (S ++ new)

/-- everything reachable from the set `S` (including `S`); `E.length + 1` rounds always suffice -/
def reachSet (E : List (Nat × Nat)) (S : List Nat) : List Nat := reachAux (E.length + 1) E S

namespace Sys

/-- `rx.descendants(self._g, n)` -/
def descendants (s : Sys π ν) (n : Nat) : List Nat :=
  (reachSet s.edges [n]).filter (fun x => decide (x ≠ n))

/-! ### `_get_index`, `_chk_*`, `_get_parents`, `_get_childs`, `_get_sources` -/

/-- the first key of `attrs["rails"]` whose value is `r` (`cname[0]`) -/
def railOwner (s : Sys π ν) (r : String) : Option String :=
  (s.rails.find? (fun p => decide (p.2 = r))).map (·.1)

/-- `_get_index(name)`: component name first, then (non-empty) rail name → its (first) owner; `ok none` is `-1`.
    `error "KeyError"`: the rail's owner is missing from `attrs["nodes"]`. -/
def getIndex (s : Sys π ν) (x : String) : Except String (Option Nat) :=
  match dget s.nodes x with
  | some i => .ok (some i)
  | none =>
    if x = "" then .ok none else
    match s.railOwner x with
    | none => .ok none
    | some c =>
      match dget s.nodes c with
      | some i => .ok (some i)
      | none => .error "KeyError"

/-- `_chk_parent` passes -/
def chkParent (s : Sys π ν) (p : String) : Bool :=
  decide (p ∈ dkeys s.nodes) || (decide (p ≠ "") && decide (p ∈ dvals s.rails))

/-- `_chk_comp` passes -/
def chkComp (s : Sys π ν) (x : String) : Bool := decide (x ∈ dkeys s.nodes)

/-- `_chk_name(name, rail)` passes -/
def chkName (s : Sys π ν) (name rail : String) : Bool :=
  !(decide (name ∈ dkeys s.nodes) || decide (name ∈ dvals s.rails)) &&
  (decide (rail = "") ||
    (decide (name ≠ rail) && !(decide (rail ∈ dkeys s.nodes) || decide (rail ∈ dvals s.rails))))

/-- the entries `_get_parents` computes for a node with more than one predecessor:
    `ind[i] = _get_index(pnames[n][i])` for `i < len(ind)` -/
def resolveAll (s : Sys π ν) : List String → Except String (List (Option Nat))
  | [] => .ok []
  | x :: xs =>
    match s.getIndex x with
    | .error e => .error e
    | .ok r =>
      match resolveAll s xs with
      | .error e => .error e
      | .ok l => .ok (r :: l)

/-- `_get_parents()[n]`: `ok []` is the `-1` of a root; `none` entries are the `-1` of a stale name. -/
def parentsOf (s : Sys π ν) (n : Nat) : Except String (List (Option Nat)) :=
  let ps := s.preds n
  if ps.length ≤ 1 then .ok (ps.map some)
  else
    match dget s.pnames n with
    | none => .error "KeyError"
    | some pl =>
      if pl.length < ps.length then .error "IndexError"
      else s.resolveAll (pl.take ps.length)

/-- the exception `_get_parents()` itself raises, if any (first node in node order) -/
def parentsErrAux (s : Sys π ν) : List Nat → Option String
  | [] => none
  | n :: ns =>
    match s.parentsOf n with
    | .error e => some e
    | .ok _ => parentsErrAux s ns

def parentsErr (s : Sys π ν) : Option String := parentsErrAux s s.ids

/-- `len(self._get_sources())` -/
def numSources (s : Sys π ν) : Nat := (s.comps.filter (fun p => decide (kindOfC p.2 = .source))).length

/-! ### statements that can raise half way -/

abbrev Res (π ν : Type) := Sys π ν × Outcome

def fail (s : Sys π ν) (cls : String) : Res π ν := (s, .raised cls)

/-- sequencing: stop at the first statement that raised -/
def andThen (r : Res π ν) (f : Sys π ν → Res π ν) : Res π ν :=
  match r.2 with
  | .ok => f r.1
  | .raised _ => r

/-- the four `del [self._g.attrs[..][name]]` lines, in source order nodes, phase_conf, groups, rails -/
def delRegs (s : Sys π ν) (x : String) : Res π ν :=
  if x ∉ dkeys s.nodes then fail s "KeyError" else
  let s1 := { s with nodes := ddel s.nodes x }
  if x ∉ dkeys s1.phaseConf then fail s1 "KeyError" else
  let s2 := { s1 with phaseConf := ddel s1.phaseConf x }
  if x ∉ dkeys s2.groups then fail s2 "KeyError" else
  let s3 := { s2 with groups := ddel s2.groups x }
  if x ∉ dkeys s3.rails then fail s3 "KeyError" else
  ({ s3 with rails := ddel s3.rails x }, .ok)

/-- `rail` as stored: dropped (with a warning) for loads -/
def effRail (c : π) (rail : String) : String :=
  if (kindOfC c).ctype = .LOAD ∧ rail ≠ "" then "" else rail

/-! ### `add_source` -/

def addSource (s : Sys π ν) (c : π) (group rail : String) : Res π ν :=
  if !s.chkName (nameOfC c) rail then fail s "ValueError" else
  if kindOfC c ≠ .source then fail s "ValueError" else
  let (s1, cidx) := s.addNode c
  ({ s1 with nodes := dset s1.nodes (nameOfC c) cidx,
             phaseConf := dset s1.phaseConf (nameOfC c) (.table []),
             groups := dset s1.groups (nameOfC c) group,
             rails := dset s1.rails (nameOfC c) rail,
             pnames := dset s1.pnames cidx [] }, .ok)

/-! ### `add_comp` -/

/-- `for p in plist: pidx += [_get_index(p)]; if ctype not in self._g[pidx[-1]]._child_types: raise` -/
def resolveParents (s : Sys π ν) (c : π) : List String → Except String (List Nat)
  | [] => .ok []
  | p :: ps =>
    match s.getIndex p with
    | .error e => .error e
    | .ok none => .error "OverflowError"
    | .ok (some i) =>
      match s.payload? i with
      | none => .error "IndexError"
      | some pc =>
        if !(kindOfC pc).acceptsChild (kindOfC c).ctype then .error "ValueError"
        else
          match resolveParents s c ps with
          | .error e => .error e
          | .ok l => .ok (i :: l)

/-- `for key in attrs["nodes"]: if self._g[attrs["nodes"][key]]._component_type.name == "PMUX": raise` -/
def muxScan (s : Sys π ν) : List (String × Nat) → Option String
  | [] => none
  | (_, i) :: t =>
    match s.payload? i with
    | none => some "IndexError"
    | some pc => if kindOfC pc = .pmux then some "ValueError" else muxScan s t

def addEdges (s : Sys π ν) (cidx : Nat) : List Nat → Sys π ν
  | [] => s
  | p :: ps => addEdges (s.addEdge p cidx) cidx ps

/-- exception raised while evaluating `_get_index(p)` for every entry of every `pnames` list in `d` -/
def refsErr (s : Sys π ν) : List (Nat × List String) → Option String
  | [] => none
  | (_, pl) :: t =>
    match s.resolveAll pl with
    | .error e => some e
    | .ok _ => refsErr s t

/-- `_get_index(p) == eidx` (evaluated before the edit; call sites have checked that it does not raise) -/
def refersTo (s : Sys π ν) (eidx : Nat) (p : String) : Bool :=
  match s.getIndex p with
  | .ok (some i) => decide (i = eidx)
  | _ => false

def addComp (s : Sys π ν) (parent : ParentArg) (c : π) (group rail : String) : Res π ν :=
  -- check that parent(s) are valid
  let plist? : Except String (List String) :=
    match parent with
    | .many ps =>
      if ps = [] then .error "ValueError"
      else if ¬ ps.Nodup then .error "ValueError"
      else if (kindOfC c).ctype ≠ .PMUX then .error "ValueError"
      else if !ps.all s.chkParent then .error "ValueError"
      else
        -- `len(parent) > len(set([self._get_index(p) for p in parent]))`
        match s.resolveAll ps with
        | .error e => .error e
        | .ok rl => if ¬ rl.Nodup then .error "ValueError" else .ok ps
    | .one p => if s.chkParent p then .ok [p] else .error "ValueError"
  match plist? with
  | .error e => fail s e
  | .ok plist =>
    -- check that component name is unique
    if !s.chkName (nameOfC c) rail then fail s "ValueError" else
    -- check that parent(s) allows component type as child
    match s.resolveParents c plist with
    | .error e => fail s e
    | .ok pidx =>
      -- can only have one pmux
      match (if (kindOfC c).ctype = .PMUX then s.muxScan s.nodes else none) with
      | some e => fail s e
      | none =>
        match pidx with
        | [] => fail s "IndexError"          -- `pidx[0]` (unreachable: an empty parent list is rejected above)
        | p0 :: prest =>
          let (s1, cidx) := s.addNode c                         -- add_child(pidx[0], comp, None)
          let s2 := { s1 with edges := s1.edges ++ [(p0, cidx)] }
          let s3 := { s2 with nodes := dset s2.nodes (nameOfC c) cidx,
                              phaseConf := dset s2.phaseConf (nameOfC c) (.table []),
                              groups := dset s2.groups (nameOfC c) group,
                              pnames := dset s2.pnames cidx plist,
                              rails := dset s2.rails (nameOfC c) (effRail c rail) }
          (s3.addEdges cidx prest, .ok)

/-! ### `change_comp` -/

/-- `for c in successor_indices(eidx): if not self._g[c]._component_type in comp._child_types: raise` -/
def kidsScan (s : Sys π ν) (c : π) : List Nat → Option String
  | [] => none
  | k :: ks =>
    match s.payload? k with
    | none => some "IndexError"
    | some kc => if !(kindOfC c).acceptsChild (kindOfC kc).ctype then some "ValueError" else kidsScan s c ks

def changeComp (s : Sys π ν) (x : String) (c : π) (group rail : String) : Res π ν :=
  if !s.chkComp x then fail s "ValueError" else
  -- name changes: `_chk_name`; name kept: the new rail (unless it is the current one) must be unused
  let nameChk : Option String :=
    if x ≠ nameOfC c then (if !s.chkName (nameOfC c) rail then some "ValueError" else none)
    else if rail = "" then none
    else
      match dget s.rails x with
      | none => some "KeyError"
      | some cur =>
        if rail = cur then none
        else if rail = x then some "ValueError"
        else if rail ∈ dkeys s.nodes ∨ rail ∈ dvals s.rails then some "ValueError" else none
  match nameChk with
  | some e => fail s e
  | none =>
  match s.getIndex x with
  | .error e => fail s e
  | .ok none => fail s "OverflowError"
  | .ok (some eidx) =>
    match s.payload? eidx with
    | none => fail s "IndexError"
    | some old =>
      if (kindOfC old).ctype = .SOURCE ∧ kindOfC c ≠ .source then fail s "ValueError" else
      if (kindOfC old).ctype = .PMUX ∧ kindOfC c ≠ .pmux then fail s "ValueError" else
      -- can only have one pmux (`_get_pmux() != -1`)
      if (kindOfC c).ctype = .PMUX ∧ (kindOfC old).ctype ≠ .PMUX ∧
          (s.comps.any fun p => decide (kindOfC p.2 = .pmux)) = true then fail s "ValueError" else
      match s.parentsErr with
      | some e => fail s e
      | none =>
        match s.parentsOf eidx with
        | .error e => fail s e
        | .ok pe =>
          let chk : Option String :=
            match pe with
            | [] => none
            | none :: _ => some "OverflowError"          -- self._g[-1]
            | some p0 :: _ =>
              match s.payload? p0 with
              | none => some "IndexError"
              | some pc => if !(kindOfC pc).acceptsChild (kindOfC c).ctype then some "ValueError" else none
          match chk with
          | some e => fail s e
          | none =>
            -- the new component must accept the existing children
            match s.kidsScan c (s.succs eidx) with
            | some e => fail s e
            | none =>
            -- refs: every recorded input name (all of `pnames`) that resolves to this component
            match s.refsErr s.pnames with
            | some e => fail s e
            | none =>
            let s1 := s.setPayload eidx c
            -- `del nodes[name]` cannot fail (`_chk_comp`); the three others can
            let s2 := { s1 with nodes := dset (ddel s1.nodes x) (nameOfC c) eidx }
            if x ∉ dkeys s2.phaseConf then fail s2 "KeyError" else
            let s3 := { s2 with phaseConf := dset (ddel s2.phaseConf x) (nameOfC c) (.table []) }
            if x ∉ dkeys s3.groups then fail s3 "KeyError" else
            let s4 := { s3 with groups := dset (ddel s3.groups x) (nameOfC c) group }
            if x ∉ dkeys s4.rails then fail s4 "KeyError" else
            let s5 := { s4 with rails := dset (ddel s4.rails x) (nameOfC c) (effRail c rail) }
            -- `for k, i in refs: pnames[k][i] = comp name`
            ({ s5 with pnames := s5.pnames.map fun (kp : Nat × List String) =>
                  (kp.1, kp.2.map fun p => if s.refersTo eidx p then nameOfC c else p) }, .ok)

/-! ### `del_comp` -/

/-- the body of `for c in rx.descendants(self._g, eidx):` -/
def delDescendants (s : Sys π ν) : List Nat → Res π ν
  | [] => (s, .ok)
  | c :: cs =>
    match s.payload? c with
    | none => fail s "IndexError"
    | some pc =>
      andThen (s.delRegs (nameOfC pc)) fun s1 => delDescendants (s1.removeNode c) cs

/-- `for c in childs[eidx]: self._g.add_edge(parents[eidx][0], c, None)`.
    `add_edge` raises `IndexError` for an endpoint that is not in the graph and (PyDAG, `check_cycle=True`)
    `DAGWouldCycle` when the child already reaches the parent. -/
def relink (s : Sys π ν) (p0 : Nat) : List Nat → Res π ν
  | [] => (s, .ok)
  | c :: cs =>
    if p0 ∉ s.ids ∨ c ∉ s.ids then fail s "IndexError"
    else if p0 = c ∨ p0 ∈ s.descendants c then fail s "DAGWouldCycle"
    else relink (s.addEdge p0 c) p0 cs

/-- exception of `refs = [(c, i) for c in childs[eidx] for i, p in enumerate(pnames[c]) if _get_index(p) == eidx]` -/
def childRefsErr (s : Sys π ν) : List Nat → Option String
  | [] => none
  | c :: cs =>
    match dget s.pnames c with
    | none => some "KeyError"
    | some pl =>
      match s.resolveAll pl with
      | .error e => some e
      | .ok _ => childRefsErr s cs

/-- `seen, plist = [], []; for p in pnames[c]: if _get_index(p) not in seen: seen += [..]; plist += [p]` -/
def dedupe (s : Sys π ν) : List String → List (Option Nat) → Except String (List String)
  | [], _ => .ok []
  | p :: ps, seen =>
    match s.getIndex p with
    | .error e => .error e
    | .ok r =>
      if r ∈ seen then dedupe s ps seen
      else
        match dedupe s ps (seen ++ [r]) with
        | .error e => .error e
        | .ok l => .ok (p :: l)

/-- the final `for c in childs[eidx]:` loop that de-duplicates each child's recorded inputs -/
def dedupeChilds (s : Sys π ν) : List Nat → Res π ν
  | [] => (s, .ok)
  | c :: cs =>
    match dget s.pnames c with
    | none => fail s "KeyError"
    | some pl =>
      match s.dedupe pl [] with
      | .error e => fail s e
      | .ok pl' => dedupeChilds { s with pnames := dset s.pnames c pl' } cs

/-- rewrite the recorded input names of the nodes `ks` -/
def mapPnames (s : Sys π ν) (ks : List Nat) (f : String → String) : Sys π ν :=
  { s with pnames := s.pnames.map fun (kp : Nat × List String) =>
      if kp.1 ∈ ks then (kp.1, kp.2.map f) else kp }

def delComp (s : Sys π ν) (x : String) (delChilds : Bool) : Res π ν :=
  match dget s.nodes x with
  | none => fail s "ValueError"
  | some eidx =>
    match s.parentsErr with
    | some e => fail s e
    | none =>
      if eidx ∉ s.ids then fail s "IndexError" else          -- stale index (approximation: always IndexError)
      match s.parentsOf eidx with
      | .error e => fail s e
      | .ok pe =>
        if pe = [] ∧ !delChilds then fail s "ValueError" else
        if pe = [] ∧ s.numSources < 2 then fail s "ValueError" else
        let childs := s.succs eidx
        -- refs: recorded input names of the children that resolve to this component
        match (if !delChilds then s.childRefsErr childs else none) with
        | some e => fail s e
        | none =>
        let r1 : Res π ν := if delChilds then s.delDescendants (s.descendants eidx) else (s, .ok)
        andThen r1 fun s1 =>
          andThen ((s1.removeNode eidx).delRegs x) fun s2 =>
            if delChilds then (s2, .ok) else
            match childs, pe with
            | [], _ => (s2, .ok)
            | _ :: _, [] => (s2, .ok)                            -- unreachable: `pe = []` was rejected above
            | _ :: _, none :: _ => fail s2 "OverflowError"      -- add_edge(-1, c)
            | _ :: _, some p0 :: _ =>
              andThen (s2.relink p0 childs) fun s3 =>
                -- pname = self._g[parents[eidx][0]]._params["name"]
                match s3.payload? p0 with
                | none => fail s3 "IndexError"
                | some pc0 =>
                  -- `for c, i in refs: pnames[c][i] = pname`
                  let s4 := s3.mapPnames childs fun p => if s.refersTo eidx p then nameOfC pc0 else p
                  s4.dedupeChilds childs

/-! ### `set_sys_phases`, `set_comp_phases` -/

def setSysPhases (s : Sys π ν) (ph : List (String × ν)) : Res π ν :=
  if ph.length < 2 ∧ ph ≠ [] then fail s "ValueError" else
  if "N/A" ∈ dkeys ph then fail s "ValueError" else
  ({ s with phases := ph }, .ok)

/-- the configuration is a list (`isinstance(phase_conf, list)`) -/
def _root_.SysLoss.PhaseConf.isNames {ν : Type} : PhaseConf ν → Bool
  | .names _ => true
  | .table _ => false

def setCompPhases (s : Sys π ν) (x : String) (pc : PConfArg ν) : Res π ν :=
  match dget s.nodes x with
  | none => fail s "ValueError"
  | some cidx =>
    match pc with
    | .bad => fail s "ValueError"
    | .conf conf =>
      match s.payload? cidx with
      | none => fail s "IndexError"
      | some c =>
        if kindOfC c = .rloss ∨ kindOfC c = .vloss then fail s "ValueError" else
        -- a load takes a dict of per-phase values; a list is rejected (upstream fix of finding F37)
        if (kindOfC c).ctype = .LOAD ∧ conf.isNames = true then fail s "ValueError" else
        ({ s with phaseConf := dset s.phaseConf x conf }, .ok)

/-! ### constructor and the step function -/

/-- `System(name, source, group=, rail=)`; `none`: `ValueError`, no object -/
def init (name : String) (src : π) (group rail : String) : Option (Sys π ν) :=
  if kindOfC src ≠ .source then none else
  if rail ≠ "" ∧ rail = nameOfC src then none else
  some { name := name, comps := [(0, src)], edges := [], free := [], next := 1,
         nodes := [(nameOfC src, 0)], phaseConf := [(nameOfC src, .table [])],
         groups := [(nameOfC src, group)], rails := [(nameOfC src, rail)],
         pnames := [(0, [])], phases := [] }

def step (s : Sys π ν) : Op π ν → Res π ν
  | .addSource c g r => s.addSource c g r
  | .addComp p c g r => s.addComp p c g r
  | .changeComp x c g r => s.changeComp x c g r
  | .delComp x d => s.delComp x d
  | .setSysPhases ph => s.setSysPhases ph
  | .setCompPhases x pc => s.setCompPhases x pc

/-- the state after a history (rejected calls included) -/
def run (s : Sys π ν) : List (Op π ν) → Sys π ν
  | [] => s
  | op :: ops => run (s.step op).1 ops

/-- the outcomes of a history -/
def outcomes (s : Sys π ν) : List (Op π ν) → List Outcome
  | [] => []
  | op :: ops => (s.step op).2 :: outcomes (s.step op).1 ops

end Sys
end
end SysLoss
