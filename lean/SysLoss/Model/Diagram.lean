/-
  Model/Diagram — what `diagram._diag` hands to pydot, as plain data (property C19).

  Python counterparts (`/repo/src/sysloss/diagram.py`):
    defConf, defGradient          ↔ `_DEF_CONF`, `_DEF_GRADIENT`
    aget / aset / aupd            ↔ `d[k]`, `d[k] = v`, `for key in o: d[key] = o[key]` on attribute dicts
    effConf                       ↔ `copy.deepcopy(_DEF_CONF) if config == {} else copy.deepcopy(config)`
    nodeConf                      ↔ the first half of `add_node`: default → class name → component name
    wloss / maxOf / prepLoss      ↔ `_prep_loss`  (duration-weighted mean loss, mix = loss / max)
    clamp01 / gchan / gcolor      ↔ `_gcolor`     (mix clamped to [0, 1]; `mpl.colors.to_hex`: `format(round(val*255), "02x")`)
    quoteId / dotLex / renderedId ↔ `_q(name)` and Graphviz' reading of the quoted identifier
    freshScale                    ↔ `sname = "Scale"; while sname in nodes: sname += "_"`
    expOf / niceSel / niceFloat   ↔ `_nice_float` (`"{:e}"` exponent, `round(x, nd)`, float `str`)
    diag                          ↔ `_diag` up to (not including) the call of Graphviz

  The numeric part of the heat map (weighted mean, mix) is polymorphic in the carrier like the rest of the
  model.  Colour rounding and SI formatting need `floor`, so they are defined on exact rationals (`Rat`);
  a Python float is a dyadic rational, and `"{:e}"`, `round(x, nd)` and `repr` are correctly rounded
  (round-half-even on the exact binary value), so the rational model describes them exactly **except** that
  the Python first rounds the products `f * 1e12`, `f / 1e3`, `(1-mix)*c1 + mix*c2`, `val*255`, … to a float.
  That can only matter within ~1e-16 (relative) of a rounding tie; the harness falls back to a numeric
  comparison there (see harness/props/c19.py).

  Everything here is structurally recursive (fuel where a search is needed), so `decide +kernel` can evaluate
  it for the non-vacuity examples.  No Mathlib.
-/
import SysLoss.Model.Num
import SysLoss.Model.Comp

namespace SysLoss
namespace Diagram

deriving instance DecidableEq for Except

/-! ### attribute dictionaries (association lists in insertion order; the last binding of a key is the value) -/

abbrev Attrs := List (String × String)

/-- `d.get(k)` -/
def aget : Attrs → String → Option String
  | [], _ => none
  | (k', v) :: t, k =>
    match aget t k with
    | some w => some w
    | none => if k' = k then some v else none

/-- `k in d` -/
def ahas (d : Attrs) (k : String) : Bool := d.any (fun kv => kv.1 == k)

/-- `d[k] = v`: an existing key keeps its position, a new key is appended -/
def aset (d : Attrs) (k v : String) : Attrs :=
  if ahas d k then d.map (fun kv => if kv.1 == k then (k, v) else kv) else d ++ [(k, v)]

/-- `for key in o: d[key] = o[key]` -/
def aupd (d o : Attrs) : Attrs := o.foldl (fun d kv => aset d kv.1 kv.2) d

/-- a dict of attribute dicts (`config["node"]`, `config["cluster"]`) -/
abbrev Sect := List (String × Attrs)

def sget : Sect → String → Option Attrs
  | [], _ => none
  | (k', v) :: t, k =>
    match sget t k with
    | some w => some w
    | none => if k' = k then some v else none

/-- The caller's `config` argument.  A missing top-level key is `none`; `other` lists unknown top-level keys
    (they only matter for `config == {}`). -/
structure Config where
  graph : Option Attrs := none
  cluster : Option Sect := none
  node : Option Sect := none
  edge : Option Attrs := none
  other : List String := []
  deriving Repr, DecidableEq, Inhabited

def Config.isEmpty (c : Config) : Bool :=
  c.graph.isNone && c.cluster.isNone && c.node.isNone && c.edge.isNone && c.other.isEmpty

def defGraphConf : Attrs :=
  [("rankdir", "TB"), ("ranksep", "0.3 equally"), ("splines", "line"), ("nodesep", "0.3"),
   ("overlap", "scale"), ("dpi", "120"), ("fontname", "arial"), ("fontcolor", "black")]
def defClusterConf : Sect :=
  [("default", [("rank", "same"), ("fillcolor", "white"), ("style", "filled"), ("penwidth", "1.5"),
                ("fontname", "arial"), ("fontcolor", "black")])]
def defNodeConf : Sect :=
  [("default", [("fillcolor", "gray95"), ("style", "filled"), ("shape", "box"), ("penwidth", "1.5"),
                ("fontname", "arial"), ("fontcolor", "black")])]
def defEdgeConf : Attrs :=
  [("arrowhead", "none"), ("headport", "center"), ("tailport", "center"), ("color", "black")]

/-- `_DEF_CONF` -/
def defConf : Config :=
  { graph := some defGraphConf, cluster := some defClusterConf, node := some defNodeConf, edge := some defEdgeConf }

def coldRGB : String := "#2120ff"
def warmRGB : String := "#ff1210"

/-- `_DEF_GRADIENT` -/
def defGradient : Attrs :=
  [("fillcolor", coldRGB ++ ":" ++ warmRGB), ("style", "filled"), ("gradientangle", "90"), ("shape", "record"),
   ("penwidth", ".0"), ("fontcolor", "silver"), ("fontname", "arial")]

/-- `bd_conf`: `config == {}` → defaults, else (a deep copy of) the caller's dict -/
def effConf (cfg : Config) : Config := if cfg.isEmpty then defConf else cfg

/-- first half of `add_node`: default, then the component's class name, then the component's name -/
def nodeConf (ns : Sect) (cls name : String) : Except Err Attrs :=
  match sget ns "default" with
  | none => .error (.key "default")
  | some dflt =>
    let c1 := match sget ns cls with | some o => aupd dflt o | none => dflt
    let c2 := match sget ns name with | some o => aupd c1 o | none => c1
    .ok c2

/-- cluster attributes: default, then the group's name -/
def clusterConf (cs : Sect) (g : String) : Except Err Attrs :=
  match sget cs "default" with
  | none => .error (.key "default")
  | some dflt => .ok (match sget cs g with | some o => aupd dflt o | none => dflt)

/-! ### heat map: loss per component, mix -/

section
variable {α : Type} [Add α] [Sub α] [Mul α] [Div α] [Neg α] [LT α] [DecidableLT α]
  [OfNat α 0] [OfNat α 1]

/-- what `_prep_loss` reads: the component rows of `solve()` (Type ≠ ""), `get_sys_phases()`, and the
    `Loss (W)` column per phase in row order (one list when there are no phases) -/
structure HeatIn (α : Type) where
  rows : List String
  phases : List (String × α)
  loss : List (List α)
  deriving Repr

structure HeatRow (α : Type) where
  name : String
  loss : α
  mix : α
  deriving Repr

/-- loss of row `i`: without phases the `Loss (W)` cell; with phases
    `avg[i] = (((0 + d₁·L₁[i]) + d₂·L₂[i]) + …) / (((0 + d₁) + d₂) + …)` -/
def wloss (h : HeatIn α) (i : Nat) : α :=
  if h.phases.isEmpty then (h.loss.headD []).getD i 0
  else sumL (List.zipWith (fun p l => p.2 * l.getD i 0) h.phases h.loss) / sumL (h.phases.map (·.2))

/-- `Series.max()` -/
def maxOf : List α → α
  | [] => 0
  | x :: t => t.foldl nmax x

def heatLosses (h : HeatIn α) : List α := (List.range h.rows.length).map (wloss h)

/-- `maxloss`, replaced by 1 when it is 0 -/
def mixDen (ls : List α) : α := if isZ (maxOf ls) then 1 else maxOf ls

/-- `_prep_loss`: rows (Component, Loss (W), Mix) -/
def prepLoss (h : HeatIn α) : List (HeatRow α) :=
  let ls := heatLosses h
  h.rows.zipIdx.map (fun ni => { name := ni.1, loss := wloss h ni.2, mix := wloss h ni.2 / mixDen ls })

end

/-! ### exact rounding on rationals -/

/-- Python `round(x)`: nearest integer, ties to even -/
def rhe (x : Rat) : Int :=
  let f := x.floor
  let r := x - (f : Rat)
  if r < 1/2 then f else if 1/2 < r then f + 1 else if f % 2 = 0 then f else f + 1

def p10 (n : Nat) : Rat := ((10 ^ n : Nat) : Rat)

/-- `x · 10^e` -/
def scale10 (x : Rat) (e : Int) : Rat :=
  match e with
  | .ofNat n => x * p10 n
  | .negSucc n => x / p10 (n + 1)

def log10Aux : Nat → Nat → Nat
  | 0, _ => 0
  | fuel + 1, n => if n < 10 then 0 else log10Aux fuel (n / 10) + 1

/-- `⌊log₁₀ n⌋` for `n ≥ 1` (0 for 0) -/
def natLog10 (n : Nat) : Nat := log10Aux n n

/-- `⌊log₁₀ x⌋` for `x > 0`, by comparison with powers of ten: with `x = n/d`, the candidate
    `⌊log₁₀ n⌋ − ⌊log₁₀ d⌋` is the decade or one above it -/
def decade (x : Rat) : Int :=
  let c : Int := (natLog10 x.num.natAbs : Int) - (natLog10 x.den : Int)
  if scale10 1 c ≤ x then c else c - 1

def rabs (x : Rat) : Rat := if x < 0 then -x else x

/-! ### `_gcolor` -/

/-- one channel of `(1 − mix)·c1 + mix·c2`, scaled by 255 -/
def gchan (c1 c2 : Nat) (m : Rat) : Rat := (1 - m) * (c1 : Rat) + m * (c2 : Rat)

def hexDigit (n : Nat) : Char :=
  if n < 10 then Char.ofNat (48 + n) else Char.ofNat (87 + n)

/-- `format(n, "02x")` for `0 ≤ n ≤ 255` -/
def hex2 (n : Nat) : List Char := [hexDigit (n / 16), hexDigit (n % 16)]

/-- the integer channels `round(val·255)`; `to_rgba` raises `ValueError` outside `[0, 1]` -/
def gchannels (m : Rat) : Except Err (Nat × Nat × Nat) :=
  let r := gchan 33 255 m
  let g := gchan 32 18 m
  let b := gchan 255 16 m
  if r < 0 ∨ 255 < r ∨ g < 0 ∨ 255 < g ∨ b < 0 ∨ 255 < b then
    .error (.value "RGBA values should be within 0-1 range")
  else .ok ((rhe r).toNat, (rhe g).toNat, (rhe b).toNat)

def hexColor (c : Nat × Nat × Nat) : String :=
  String.ofList ('#' :: (hex2 c.1 ++ hex2 c.2.1 ++ hex2 c.2.2))

/-- `min(max(mix, 0.0), 1.0)` -/
def clamp01 (m : Rat) : Rat := nmin (nmax m 0) 1

/-- `_gcolor(mix)` with cold `#2120ff` = (33, 32, 255) and warm `#ff1210` = (255, 18, 16); the mix is clamped to
    `[0, 1]` first (a loss that is negative by solver noise no longer makes `to_hex` raise) -/
def gcolor (m : Rat) : Except Err String := (gchannels (clamp01 m)).map hexColor

/-! ### `_nice_float` -/

/-- exponent printed by `"{:e}".format(f)`: the decade of `f` after rounding to 7 significant digits -/
def expOf (f : Rat) : Int :=
  let a := rabs f
  if a = 0 then 0
  else
    let d := decade a
    if rhe (scale10 a (6 - d)) = 10000000 then d + 1 else d

/-- branch table of `_nice_float`: SI prefix, `k` with `x = f·10^k`, digits handed to `round`;
    `none` = the `"{:.2e}"` form -/
def niceSel (pwr : Int) : Option (String × Int × Int) :=
  if pwr < -13 ∨ pwr > 7 then none
  else if pwr < -10 then some ("p", 12, 3 - (13 + pwr))
  else if pwr < -7 then some ("n", 9, 3 - (10 + pwr))
  else if pwr < -4 then some ("u", 6, 3 - (7 + pwr))
  else if pwr < -1 then some ("m", 3, 3 - (4 + pwr))
  else if pwr < 2 then some ("", 0, 3 - (1 + pwr))
  else if pwr < 5 then some ("k", -3, 5 - pwr)
  else some ("M", -6, 8 - pwr)

def natChars (n : Nat) : List Char := (toString n).toList

def stripZeros (l : List Char) : List Char := (l.reverse.dropWhile (· == '0')).reverse

/-- `str(N / 10^nd)` for a float that is the nearest double of that decimal (|value| < 1e16, `nd ≥ 1`):
    integer part, point, fractional digits without trailing zeros, at least one -/
def renderDec (N : Int) (nd : Nat) : List Char :=
  let a := N.natAbs
  let ip := a / 10 ^ nd
  let fp := a % 10 ^ nd
  let fd := natChars fp
  let frac := stripZeros (List.replicate (nd - fd.length) '0' ++ fd)
  (if N < 0 then ['-'] else []) ++ natChars ip ++ ['.'] ++ (if frac.isEmpty then ['0'] else frac)

/-- mantissa (three digits, as an integer 100…999) and exponent of `"{:.2e}".format(f)` -/
def e2Parts (f : Rat) : Int × Int :=
  let a := rabs f
  if a = 0 then (0, 0)
  else
    let d := decade a
    let m := rhe (scale10 a (2 - d))
    if m = 1000 then (100, d + 1) else (m, d)

def pad2 (n : Nat) : List Char := if n < 10 then '0' :: natChars n else natChars n

/-- `"{:.2e}".format(f)` -/
def fmtE2 (f : Rat) : List Char :=
  let (m, d) := e2Parts f
  let mn := m.natAbs
  (if f < 0 then ['-'] else []) ++ natChars (mn / 100) ++ ['.'] ++ pad2 (mn % 100) ++ ['e'] ++
    [if d < 0 then '-' else '+'] ++ pad2 d.natAbs

/-- the number `_nice_float` shows, as `N · 10^e` (`N` carries the sign): SI branch
    `N = round(f·10^k, nd)·10^nd`, `e = −(k + nd)`; otherwise the `%.2e` mantissa and exponent -/
def niceParts (f : Rat) : Int × Int :=
  match niceSel (expOf f) with
  | some (_, k, nd) => (rhe (scale10 (scale10 f k) nd), -(k + nd))
  | none => let (m, d) := e2Parts f; ((if f < 0 then -m else m), d - 2)

/-- the value shown -/
def niceVal (f : Rat) : Rat := scale10 ((niceParts f).1 : Rat) (niceParts f).2

def niceChars (f : Rat) : List Char :=
  match niceSel (expOf f) with
  | some (pfx, _, nd) => renderDec (niceParts f).1 nd.toNat ++ pfx.toList
  | none => fmtE2 f

/-- `_nice_float(f)` -/
def niceFloat (f : Rat) : String := String.ofList (niceChars f)

/-! ### the graph -/

structure CompIn where
  name : String
  kind : Kind
  group : String
  deriving Repr, DecidableEq

structure DNode where
  name : String
  attrs : Attrs
  deriving Repr, DecidableEq

structure DCluster where
  name : String
  label : String
  attrs : Attrs
  nodes : List DNode
  deriving Repr, DecidableEq

structure DEdge where
  src : String
  dst : String
  attrs : Attrs
  deriving Repr, DecidableEq

/-- the arguments of `pydot.Dot / Subgraph / Node / Edge`, in call order -/
structure DotGraph where
  name : String
  attrs : Attrs
  clusters : List DCluster
  nodes : List DNode
  scale : Option DNode
  edges : List DEdge
  deriving Repr, DecidableEq

/-- the keys of the `groups` dict built by `_diag`: non-empty group names, first occurrence first -/
def groupsOf (comps : List CompIn) : List String :=
  comps.foldl (fun gs c => if c.group = "" ∨ c.group ∈ gs then gs else gs ++ [c.group]) []

/-- which components go where: clusters (group name, members in `attrs["nodes"]` order), top level -/
def layout (comps : List CompIn) (group : Bool) : List (String × List CompIn) × List CompIn :=
  let gs := groupsOf comps
  (if group && !gs.isEmpty then gs.map (fun g => (g, comps.filter (fun c => c.group = g))) else [],
   comps.filter (fun c => c.group = "" || !group))

/-- `Except`-`mapM`, structurally -/
def mapE {ε β γ : Type} (f : β → Except ε γ) : List β → Except ε (List γ)
  | [] => .ok []
  | a :: t =>
    match f a with
    | .error e => .error e
    | .ok b =>
      match mapE f t with
      | .error e => .error e
      | .ok bs => .ok (b :: bs)

/-- heat-mode overrides of `add_node` -/
def heatNode (rows : List (HeatRow Rat)) (name : String) (conf : Attrs) : Except Err Attrs :=
  match rows.find? (fun r => r.name = name) with
  | none => .error (.other "IndexError")
  | some r =>
    match gcolor r.mix with
    | .error e => .error e
    | .ok col =>
      .ok (aset (aset (aset conf "fillcolor" col) "fontcolor" "silver") "label"
            (name ++ "\n" ++ niceFloat r.loss ++ "W"))

/-- `if "label" not in conf: conf["label"] = name` — every node carries its component's name as explicit label
    unless the configuration (or the heat map) gave it one -/
def withLabel (name : String) (conf : Attrs) : Attrs :=
  if ahas conf "label" then conf else aset conf "label" name

/-- `add_node(gr, name, bd_conf["node"], ldf)`; the node identifier handed to pydot is `_q(name)`, which Graphviz
    reads back as `name` (see `renderedId`) -/
def mkNode (node : Option Sect) (ldf : Option (List (HeatRow Rat))) (c : CompIn) : Except Err DNode :=
  match node with
  | none => .error (.key "node")
  | some ns =>
    match nodeConf ns c.kind.className c.name with
    | .error e => .error e
    | .ok conf =>
      match ldf with
      | none => .ok { name := c.name, attrs := withLabel c.name conf }
      | some rows =>
        match heatNode rows c.name conf with
        | .error e => .error e
        | .ok conf' => .ok { name := c.name, attrs := withLabel c.name conf' }

/-- one cluster: `pydot.Subgraph(_q("cluster_" + g), label=g, **cconf)` and its member nodes; the identifier is
    quoted like the node identifiers (fix c7c5e36), so Graphviz reads it back as `cluster_<g>` (`renderedId`) -/
def mkCluster (bd : Config) (ldf : Option (List (HeatRow Rat))) (gm : String × List CompIn) :
    Except Err DCluster :=
  match bd.cluster with
  | none => .error (.key "cluster")
  | some cs =>
    match clusterConf cs gm.1 with
    | .error e => .error e
    | .ok cconf =>
      if ahas cconf "label" then .error (.type "Subgraph() got multiple values for keyword argument 'label'")
      else
        match mapE (mkNode bd.node ldf) gm.2 with
        | .error e => .error e
        | .ok ns => .ok { name := "cluster_" ++ gm.1, label := gm.1, attrs := cconf, nodes := ns }

def freshFrom (names : List String) : Nat → String → String
  | 0, s => s
  | fuel + 1, s => if s ∈ names then freshFrom names fuel (s ++ "_") else s

/-- `sname = "Scale"; while sname in sys._g.attrs["nodes"]: sname += "_"` (at most one round per component) -/
def freshScale (names : List String) : String := freshFrom names names.length "Scale"

/-- the legend node -/
def mkScale (names : List String) (gconf : Attrs) (ls : List Rat) : Except Err DNode :=
  let lab := niceFloat (maxOf ls) ++ "W|  |  | 0W"
  match aget gconf "rankdir" with
  | none => .error (.key "rankdir")
  | some rd =>
    .ok { name := freshScale names,
          attrs := aset defGradient "label" (if rd = "TB" ∨ rd = "BT" then "{" ++ lab ++ "}" else lab) }

/-- `_diag` up to the Graphviz call.  `comps`: `attrs["nodes"]` in insertion order; `edges`: parent → child
    names in `edge_indices()` order; `heat`: `none` for `make_diag`, the solved losses for `make_hdiag`. -/
def diag (sysName : String) (comps : List CompIn) (edges : List (String × String)) (cfg : Config)
    (group : Bool) (heat : Option (HeatIn Rat)) : Except Err DotGraph :=
  let bd := effConf cfg
  match bd.graph with
  | none => .error (.key "graph")
  | some gconf =>
    if ahas gconf "label" then .error (.type "Dot() got multiple values for keyword argument 'label'")
    else
      let gname := sysName ++ (if heat.isSome then " - Loss heat map" else "")
      let ldf := heat.map prepLoss
      let lay := layout comps group
      match mapE (mkCluster bd ldf) lay.1 with
      | .error e => .error e
      | .ok cls =>
        match mapE (mkNode bd.node ldf) lay.2 with
        | .error e => .error e
        | .ok top =>
          match (match heat with
                 | none => (.ok none : Except Err (Option DNode))
                 | some h => (mkScale (comps.map CompIn.name) gconf (heatLosses h)).map some) with
          | .error e => .error e
          | .ok sc =>
            match (if edges.isEmpty then (.ok [] : Except Err (List DEdge))
                   else match bd.edge with
                     | none => .error (.key "edge")
                     | some ec => .ok (edges.map fun e => { src := e.1, dst := e.2, attrs := ec })) with
            | .error e => .error e
            | .ok es =>
              .ok { name := "sysLoss", attrs := ("label", gname) :: gconf, clusters := cls, nodes := top,
                    scale := sc, edges := es }

/-- what a call leaves behind: the graph (or the exception) and the caller's configuration dict afterwards.
    `_diag` only ever reads `config` and works on a deep copy, so the second component is the argument. -/
def diagRun (sysName : String) (comps : List CompIn) (edges : List (String × String)) (cfg : Config)
    (group : Bool) (heat : Option (HeatIn Rat)) : Except Err DotGraph × Config :=
  (diag sysName comps edges cfg group heat, cfg)

/-- every node name the graph declares: cluster members, top-level nodes, legend -/
def DotGraph.nodeNames (d : DotGraph) : List String :=
  (d.clusters.flatMap (fun c => c.nodes.map (·.name))) ++ d.nodes.map (·.name) ++
    d.scale.toList.map (·.name)

/-- every component node (cluster members, then top level) -/
def DotGraph.allNodes (d : DotGraph) : List DNode := d.clusters.flatMap (·.nodes) ++ d.nodes

/-! ### node identifiers: `_q(name)` and how Graphviz reads it back

`_diag` hands pydot the identifier `_q(name) = '"' + name.replace('"', '\\"') + '"'` for every node, edge
endpoint and cluster (`_q("cluster_" + g)`).  pydot passes a string that starts with `"` through untouched, and Graphviz' lexer reads a quoted
string as: `\"` → `"`, a pair `\\` stays a pair, any other character (a lone backslash, a newline, `:`, …) is
itself, the first un-escaped `"` ends it.  `renderedId` is that reading; it is the component's name again unless
the name has an odd run of backslashes directly before a `"` or at its end (`a\`, `b\"c`): DOT has no way to write
those, `dot` reports a syntax error (open finding F23f).  Not modelled: Graphviz stores identifiers that start
with `%` as anonymous nodes (`%3`); such a node is still one node per component and shows its name through the
explicit label. -/

/-- `name.replace('"', '\\"')` -/
def quoteBody : List Char → List Char
  | [] => []
  | c :: t => if c = '"' then '\\' :: '"' :: quoteBody t else c :: quoteBody t

/-- `_q(name)` -/
def quoteId (name : String) : String := String.ofList ('"' :: (quoteBody name.toList ++ ['"']))

/-- Graphviz' reading of a quoted string, from just after the opening quote; `pend` = a backslash has just been
    read and what it becomes depends on the next character.  `none` = not one complete quoted string (syntax
    error / a different parse). -/
def dotLex : Bool → List Char → Option (List Char)
  | _, [] => none
  | false, c :: t =>
    if c = '"' then (if t.isEmpty then some [] else none)
    else if c = '\\' then dotLex true t
    else (dotLex false t).map (c :: ·)
  | true, c :: t =>
    if c = '"' then (dotLex false t).map ('"' :: ·)
    else if c = '\\' then (dotLex false t).map (fun r => '\\' :: '\\' :: r)
    else (dotLex false t).map (fun r => '\\' :: c :: r)

/-- the node identifier Graphviz ends up with for a component called `name` -/
def renderedId (name : String) : Option String :=
  (dotLex false (quoteBody name.toList ++ ['"'])).map String.ofList

/-- `bsOk false l`: no odd run of backslashes directly before a `"` or at the end of `l`
    (`bsOk true l`: the same for `l` preceded by one more backslash) -/
def bsOk : Bool → List Char → Bool
  | false, [] => true
  | true, [] => false
  | false, c :: t => if c = '\\' then bsOk true t else bsOk false t
  | true, c :: t => if c = '"' then false else bsOk false t

/-- the names DOT can express -/
def nameOk (name : String) : Bool := bsOk false name.toList

def DotGraph.findNode (d : DotGraph) (n : String) : Option DNode :=
  ((d.clusters.flatMap (·.nodes)) ++ d.nodes).find? (fun x => x.name = n)

end Diagram
end SysLoss
