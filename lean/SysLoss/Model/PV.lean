/-
  Model/PV — the Python values that cross the public API as constructor arguments, `_params`
  entries, JSON / TOML document values.  `int` and `float` are kept apart because the TOML loader
  gates on the exact type and `isinstance(x, (int, float))` accepts `bool`.
-/
namespace SysLoss

inductive PV (α : Type) where
  | null
  | bool (b : Bool)
  | int (x : α)
  | float (x : α)
  | str (s : String)
  | list (l : List (PV α))
  | dict (d : List (String × PV α))
  deriving Inhabited

namespace PV
variable {α : Type}

/-- Python `type(x).__name__` -/
def tyName : PV α → String
  | .null => "NoneType" | .bool _ => "bool" | .int _ => "int" | .float _ => "float"
  | .str _ => "str" | .list _ => "list" | .dict _ => "dict"

/-- `isinstance(x, (int, float))` -/
def isNumber : PV α → Bool
  | .bool _ | .int _ | .float _ => true
  | _ => false

def isDict : PV α → Bool | .dict _ => true | _ => false
def isList : PV α → Bool | .list _ => true | _ => false

def get? (d : PV α) (k : String) : Option (PV α) :=
  match d with
  | .dict l => l.lookup k
  | _ => none

end PV
end SysLoss
