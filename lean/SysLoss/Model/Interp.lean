/-
  Model/Interp — the three interpolators of components.py (`_Interp0d`, `_Interp1d`, `_Interp2d`).

  * `Param.const c`            ↔ `_Interp0d(c)`                       (components.py:179-187)
  * `Param.tab1 xs fs`         ↔ `_Interp1d(io, row)` = `np.interp(|x|, |xs|, |fs|)`   (190-199)
  * `Param.tab2 xs ys f diag`  ↔ `_Interp2d(cur, volt, flat)`                          (202-234)
       xs = io axis, ys = vi axis, `f[r][k]` the value at `(xs[k], ys[r])` — this is what the
       constructors' flattening (`cur += io; volt += len(io)*[v]; reshape(1,-1)`) pairs up.
       scipy's `LinearNDInterpolator` triangulates the rectangular grid; every cell is cut by one of
       its two diagonals and Qhull's choice is not specified, so it is the *parameter* `diag[r][k]`
       (`true` = the diagonal through the low-low and high-high corners).  All theorems quantify over it.
  The callers always pass `(|io|, |vi|)`; the interpolators take magnitudes of the table data.
-/
import SysLoss.Model.Num
import SysLoss.Model.PV

namespace SysLoss
section
variable {α : Type} [Add α] [Sub α] [Mul α] [Div α] [Neg α] [LT α] [DecidableLT α]
  [OfNat α 0] [OfNat α 1]

inductive Param (α : Type) where
  | const (c : α)
  | tab1 (xs fs : List α)
  | tab2 (xs ys : List α) (f : List (List α)) (diag : List (List Bool))
  deriving Repr, Inhabited

/-- `np.interp(x, xp, fp)` for increasing `xp`, as a scan over consecutive knot pairs. -/
def interp1Aux : List (α × α) → α → α
  | [], _ => 0
  | [(_, f0)], _ => f0
  | (x0, f0) :: (x1, f1) :: rest, x =>
    if x < x1 then
      (if x0 < x then (f1 - f0) / (x1 - x0) * (x - x0) + f0 else f0)
    else interp1Aux ((x1, f1) :: rest) x

def interp1 (xs fs : List α) (x : α) : α :=
  interp1Aux ((xs.map nabs).zip (fs.map nabs)) (nabs x)

/-- clamp into `[lo, hi]` -/
def clamp (lo hi x : α) : α := if x < lo then lo else if hi < x then hi else x

/-- Linear interpolant on the triangle of the cell `[x0,x1]×[y0,y1]` selected by `d`;
    `s, t ∈ [0,1]` are the relative coordinates of the query inside the cell. -/
def cellVal (d : Bool) (f00 f10 f01 f11 s t : α) : α :=
  if d then
    (if s < t then f00 + t * (f01 - f00) + s * (f11 - f01)
     else f00 + s * (f10 - f00) + t * (f11 - f10))
  else
    (if 1 < s + t then f11 + (1 - s) * (f01 - f11) + (1 - t) * (f10 - f11)
     else f00 + s * (f10 - f00) + t * (f01 - f00))

/-- index of the knot interval containing `x` (`x` already clamped into the axis range):
    largest `j` with `xs[j] ≤ x`, capped at `len − 2`. -/
def findCell : List α → α → Nat
  | _ :: x1 :: x2 :: rest, x => if x < x1 then 0 else findCell (x1 :: x2 :: rest) x + 1
  | _, _ => 0

def getD2 (f : List (List α)) (r k : Nat) : α := (f.getD r []).getD k 0

/-- insertion of a row into rows sorted by axis value (the vi axis may be given in any order) -/
def insRow (p : α × List α) : List (α × List α) → List (α × List α)
  | [] => [p]
  | q :: rest => if p.1 < q.1 then p :: q :: rest else q :: insRow p rest

def sortRows (rows : List (α × List α)) : List (α × List α) := rows.foldr insRow []

/-- value inside (or on the boundary of) the table rectangle -/
def interp2In (xs ys : List α) (f : List (List α)) (diag : List (List Bool)) (x y : α) : α :=
  let k := findCell xs x
  let r := findCell ys y
  let x0 := xs.getD k 0
  let y0 := ys.getD r 0
  match xs[k+1]?, ys[r+1]? with
  | some x1, some y1 =>
    cellVal ((diag.getD r []).getD k true)
      (getD2 f r k) (getD2 f r (k+1)) (getD2 f (r+1) k) (getD2 f (r+1) (k+1))
      ((x - x0) / (x1 - x0)) ((y - y0) / (y1 - y0))
  | some x1, none =>   -- single row (not produced by the constructors, which use tab1 then)
    let s := (x - x0) / (x1 - x0)
    getD2 f r k + s * (getD2 f r (k+1) - getD2 f r k)
  | none, some y1 =>
    let t := (y - y0) / (y1 - y0)
    getD2 f r k + t * (getD2 f (r+1) k - getD2 f r k)
  | none, none => getD2 f r k

/-- `_Interp2d._interp(x, y)`: inside the hull the triangulated interpolant, outside the nine-way
    clamp of components.py:218-234, which evaluates at the nearest point of the rectangle. -/
def interp2 (xs ys : List α) (f : List (List α)) (diag : List (List Bool)) (x y : α) : α :=
  let axs := xs.map nabs
  let rows := sortRows ((ys.map nabs).zip (f.map (·.map nabs)))
  let ays := rows.map (·.1)
  let af := rows.map (·.2)
  let xmin := axs.headD 0
  let xmax := axs.getLastD 0
  let ymin := ays.headD 0
  let ymax := ays.getLastD 0
  let ev := interp2In axs ays af diag
  if x < xmin then
    (if y < ymin then ev xmin ymin else if ymax < y then ev xmin ymax else ev xmin y)
  else if xmax < x then
    (if y < ymin then ev xmax ymin else if ymax < y then ev xmax ymax else ev xmax y)
  else if y < ymin then ev x ymin
  else if ymax < y then ev x ymax
  else ev x y

/-- `self._ipr._interp(x, y)` -/
def Param.interp : Param α → α → α → α
  | .const c, _, _ => c
  | .tab1 xs fs, x, _ => interp1 xs fs x
  | .tab2 xs ys f d, x, y => interp2 xs ys f d x y

end
end SysLoss
