/-
  Model/Num — numeric primitives, polymorphic in the carrier.

  Everything numeric in the model is written against the *syntactic* core classes only, so the very
  same definitions run at `Rat` (exact evaluation in the driver), at `Float` (replay of the sweep
  loop) and are the subject of the theorems at any linearly ordered field (`Props/*`).

  Python / numpy counterparts:
    nabs   = abs            nsign = np.sign          nmin/nmax = min/max (two arguments)
    isZ x  = (abs(x) == 0.0)                          isClose = element test of np.allclose
  Only `<` is used for decisions (`a ≤ b` is `¬ b < a`, `a = 0` is `¬ a < 0 ∧ ¬ 0 < a`), so a single
  `DecidableLT` instance is enough at every carrier.
-/
namespace SysLoss
section
variable {α : Type} [Add α] [Sub α] [Mul α] [Div α] [Neg α] [LT α] [DecidableLT α]
  [OfNat α 0] [OfNat α 1]

/-- `abs` -/
def nabs (x : α) : α := if x < 0 then -x else x

/-- `abs(x) == 0.0` (no NaN in the model) -/
def isZ (x : α) : Bool := !(decide (x < 0)) && !(decide (0 < x))

/-- `np.sign` -/
def nsign (x : α) : α := if x < 0 then -1 else if 0 < x then 1 else 0

/-- Python `min(a, b)`: `a` unless `b < a`. -/
def nmin (a b : α) : α := if b < a then b else a

/-- Python `max(a, b)`: `a` unless `b > a`. -/
def nmax (a b : α) : α := if a < b then b else a

/-- `a <= b` -/
def leB (a b : α) : Bool := !(decide (b < a))

/-- `a > b` -/
def gtB (a b : α) : Bool := decide (b < a)

/-- `a == b` on numbers -/
def eqB (a b : α) : Bool := !(decide (a < b)) && !(decide (b < a))

/-- Σ over a list, left to right from 0 (Python `io = 0.0; for …: io += x`). -/
def sumL (xs : List α) : α := xs.foldl (· + ·) 0

/-- element test of `np.allclose(a, b, rtol, atol)`: `|a − b| ≤ atol + rtol·|b|` -/
def isClose (atol rtol a b : α) : Bool := leB (nabs (a - b)) (atol + rtol * nabs b)

/-- `np.allclose` on two equally long vectors -/
def allClose (atol rtol : α) (as bs : List α) : Bool :=
  (List.zipWith (isClose atol rtol) as bs).all id

end
end SysLoss
