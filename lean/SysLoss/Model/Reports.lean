/-
  Model/Reports — the configuration reports of system.py: `params()` / `limits()` (both through
  `_pars_and_limits` and `_filt_lim`, system.py:1316-1443), `phases()` (1529-1626) and `tree()` (728-768,
  `_make_rtree` 418-423), over the solver-level system `SSys` (what `_rel_update()` leaves: `_parents`,
  `_childs`, `_topo_nodes`).

  Row order is `_topo_nodes` order in all three tables.  Cells:

  * `params()`: the twelve parameter columns are filled by `_get_params(pdict)`: a key of `_params` that holds a
    dict is shown as the string `"interp"`, any other stored value is shown AS STORED (number, bool — the `loss`
    flag —, list — the list form of a PMux / Rectifier `rs`), a key that is not in `_params` stays `""`.  The cells
    are therefore Python values (`PV`), `.str ""` being the blank.  `Comp.params` is the stored `_params`.
  * `limits()` / `params(limits=True)`: ten limit columns through `_filt_lim`: `""` when the key is not in
    `_limits` or its pair equals `LIMITS_DEFAULT[key]` (Python list equality = numeric equality of both entries),
    else the stored pair.  `Option (α × α)`, `none` being the blank.  Column headers differ between the two
    reports (`"vi limit (V)"` / `"vi  (V)"`): `limitHeader`.
  * `phases()`: `None` when no system phases are defined.  Otherwise per node the list `ph_names` (one row each):
    `SLOSS` and `RECTIFIER` → `["N/A"]` (always active); SOURCE / CONVERTER / LINREG / PSWITCH / PMUX → the system phases that occur in the
    component's configuration (system order), `["N/A"]` if there are none; LOAD → the same over the KEYS of its dict
    (a LOAD that was given a list raises `AttributeError`: `'list' object has no attribute 'keys'`).
    (Before /repo commit f863daa the `if / elif` chain had no branch for RECTIFIER and a Rectifier got no row.)
    A load row shows, in the column of
    its kind (`pwr` / `rs` / `ii`, decided by which key `_params` has), the configured per-phase value, or the
    stored main parameter on an `"N/A"` row; every other cell is blank.  The Domain column follows the running
    `dname` / `ndomain` bookkeeping (domain of the first parent, a SOURCE is its own domain) and is only emitted
    when more than one SOURCE was listed (`showDomain`).
  * `tree()`: one Rich tree per source (sources in `_topo_nodes` order), children in `_childs` (rustworkx successor)
    order, a node below two parents is printed below each of them.  `treeLines` is the printed tree as
    `(depth, label)` lines (the system-name line excluded), `treeEdges` its parent → child links in print order.
    The recursion of `_make_rtree` is bounded by `hidx` levels (a tree is never deeper than it has nodes).

  An id in `_topo_nodes` without a payload cannot occur in the Python; the model skips it.
-/
import SysLoss.Model.Table
import SysLoss.Model.Ctor

namespace SysLoss
section
variable {α : Type} [Add α] [Sub α] [Mul α] [Div α] [Neg α] [LT α] [DecidableLT α]
  [OfNat α 0] [OfNat α 1] [OfNat α 2] [OfNat α 100] [OfNat α 1000000]

/-! ### `params()` / `limits()` -/

/-- the keys of `pdict` in `_pars_and_limits`, in the column order of the report -/
def paramKeys : List String :=
  ["vo", "vdrop", "rs", "rt", "eff", "ig", "iq", "ii", "iis", "pwr", "pwrs", "loss"]

/-- column header of a parameter key -/
def paramHeader (k : String) : String :=
  match k with
  | "vo" => "vo (V)" | "vdrop" => "vdrop (V)" | "rs" => "rs (Ohm)" | "rt" => "rt (°C/W)"
  | "eff" => "eff (%)" | "ig" => "ig (A)" | "iq" => "iq (A)" | "ii" => "ii (A)" | "iis" => "iis (A)"
  | "pwr" => "pwr (W)" | "pwrs" => "pwrs (W)" | _ => k

/-- unit printed in the header of a limit column -/
def limitUnit (k : String) : String :=
  match k with
  | "vi" | "vo" | "vd" => "V"
  | "ii" | "io" => "A"
  | "tr" | "tp" => "°C"
  | _ => "W"

/-- `"vi {} (V)".format(limstr)` with `limstr = "limit"` in `params(limits=True)` and `""` in `limits()` -/
def limitHeader (withParams : Bool) (k : String) : String :=
  k ++ " " ++ (if withParams then "limit" else "") ++ " (" ++ limitUnit k ++ ")"

/-- `_get_params(pdict)[k]` -/
def paramCell (ps : List (String × PV α)) (k : String) : PV α :=
  match ps.lookup k with
  | none => .str ""
  | some (.dict _) => .str "interp"
  | some v => v

/-- `_filt_lim(node, key)` -/
def filtLim (limits : List (String × (α × α))) (key : String) : Option (α × α) :=
  match limits.lookup key with
  | none => none                                    -- `_get_opt(_limits, key, "")`
  | some l =>
    if eqB l.1 (limitsDefault (α := α) key).1 && eqB l.2 (limitsDefault (α := α) key).2 then none
    else some l

/-- one row of `_pars_and_limits`; `pars` / `lims` are keyed by parameter / limit key, in column order,
    and empty when the report does not carry that block -/
structure ParamRow (α : Type) where
  name : String
  typ  : String
  pars : List (String × PV α) := []
  lims : List (String × Option (α × α)) := []

/-- one iteration of the loop of `_pars_and_limits(params, limits)` -/
def Comp.paramRow (c : Comp α) (params limits : Bool) : ParamRow α :=
  { name := c.name, typ := c.kind.ctype.name,
    pars := if params then paramKeys.map fun k => (k, paramCell c.params k) else [],
    lims := if limits then allLimitKeys.map fun k => (k, filtLim c.limits k) else [] }

/-- `_pars_and_limits(params, limits)` -/
def SSys.parsAndLimits (s : SSys α) (params limits : Bool) : List (ParamRow α) :=
  s.topo.filterMap fun n => (s.node? n).map fun nd => nd.comp.paramRow params limits

/-- `params(limits)` -/
def paramsRows (s : SSys α) (limits : Bool) : List (ParamRow α) := s.parsAndLimits true limits

/-- `limits()` -/
def limitsRows (s : SSys α) : List (ParamRow α) := s.parsAndLimits false true

/-- the column headers of the DataFrame, in order -/
def reportColumns (params limits : Bool) : List String :=
  ["Component", "Type"] ++ (if params then paramKeys.map paramHeader else [])
    ++ (if limits then allLimitKeys.map (limitHeader params) else [])

/-! ### `phases()` -/

structure PhaseRow (α : Type) where
  name   : String
  typ    : String
  domain : String
  phase  : String                 -- "Active phase"
  rs     : Option α := none
  ii     : Option α := none
  pwr    : Option α := none

structure PhasesRep (α : Type) where
  rows : List (PhaseRow α)
  showDomain : Bool               -- `src_cnt > 1`: the Domain column is part of the report

/-- what `p in phase_conf` / `phase_conf.keys()` range over -/
def PhaseConf.keys (pc : PhaseConf α) : List String :=
  match pc with
  | .names l => l
  | .table t => t.map (·.1)

/-- the system phases listed in a configuration, in system order; `["N/A"]` when there are none
    (`if len(conf) > 0: for p in phase_names: if p in conf: …;  if ph_names == []: ph_names += ["N/A"]`) -/
def activeNames (keys phaseNames : List String) : List String :=
  let l := if keys.length > 0 then phaseNames.filter fun p => keys.contains p else []
  if l.isEmpty then ["N/A"] else l

/-- `ph_names` of one node -/
def phNames (ct : CType) (pc : PhaseConf α) (phaseNames : List String) : Except Err (List String) :=
  match ct with
  | .SLOSS | .RECTIFIER => pure ["N/A"]             -- `if tname == "SLOSS" or tname == "RECTIFIER"`
  | .CONVERTER | .LINREG | .PSWITCH | .PMUX | .SOURCE => pure (activeNames pc.keys phaseNames)
  | .LOAD =>
    match pc with
    | .names _ => throw (.other "AttributeError")      -- `'list' object has no attribute 'keys'`
    | .table _ => pure (activeNames pc.keys phaseNames)

/-- `_params[k]` shown in a numeric cell -/
def paramNum (c : Comp α) (k : String) : Option α := (c.params.lookup k).bind PV.num?

/-- `self._phase_lkup[n][p]` of a load -/
def PhaseConf.value (pc : PhaseConf α) (p : String) : Option α :=
  match pc with
  | .table t => t.lookup p
  | .names _ => none

/-- the cells appended for one `p in ph_names` -/
def phaseRow (c : Comp α) (pc : PhaseConf α) (dname p : String) : Except Err (PhaseRow α) :=
  let base : PhaseRow α := { name := c.name, typ := c.kind.ctype.name, domain := dname, phase := p }
  if c.kind.ctype == .LOAD then
    let shown := fun (k : String) => if p == "N/A" then paramNum c k else pc.value p
    if (c.params.lookup "pwr").isSome then pure { base with pwr := shown "pwr" }
    else if (c.params.lookup "rs").isSome then pure { base with rs := shown "rs" }
    else if p == "N/A" && (c.params.lookup "ii").isNone then throw (.key "ii")
    else pure { base with ii := shown "ii" }
  else pure base

/-- state of the loop of `phases()`: rows so far, running `dname`, `ndomain`, `src_cnt` -/
structure PhAcc (α : Type) where
  rows  : List (PhaseRow α) := []
  dname : String := "none"
  ndom  : List (Nat × String) := []
  nsrc  : Nat := 0

/-- one iteration of `for n in self._topo_nodes` in `phases()` -/
def SSys.phasesStep (s : SSys α) (acc : PhAcc α) (n : Nat) : Except Err (PhAcc α) :=
  match s.node? n with
  | none => pure acc
  | some nd =>
    let ct := nd.comp.kind.ctype
    -- `if self._parents[n] != -1: dname = ndomain.get(self._parents[n][0], dname)`
    let d1 := match nd.parents with
      | [] => acc.dname
      | p :: _ => (acc.ndom.lookup p).getD acc.dname
    -- `if tname == "SOURCE": dname = name; src_cnt += 1`
    let d2 := if ct == .SOURCE then nd.comp.name else d1
    let k := if ct == .SOURCE then acc.nsrc + 1 else acc.nsrc
    do
      let phs ← phNames ct nd.pconf (s.phases.map (·.1))
      let rows ← phs.mapM fun p => phaseRow nd.comp nd.pconf d2 p
      pure { rows := acc.rows ++ rows, dname := d2, ndom := (n, d2) :: acc.ndom, nsrc := k }

/-- `phases()`: `none` = the Python returns `None` (no system phases) -/
def phasesRows (s : SSys α) : Except Err (Option (PhasesRep α)) :=
  if s.phases.isEmpty then pure none
  else do
    let acc ← s.topo.foldlM s.phasesStep {}
    pure (some { rows := acc.rows, showDomain := decide (acc.nsrc > 1) })

/-! ### `tree()` -/

def SSys.childsOf (s : SSys α) (n : Nat) : List Nat :=
  match s.node? n with | some nd => nd.childs | none => []

/-- the printed subtree below (and including) `n` as `(depth, label)` lines: `_make_rtree(adj, node)` -/
def SSys.treeLines (s : SSys α) : Nat → Nat → Nat → List (Nat × String)
  | 0, d, n => [(d, s.nameOf n)]
  | fuel + 1, d, n => (d, s.nameOf n) :: (s.childsOf n).flatMap (s.treeLines fuel (d + 1))

/-- the parent → child links of the printed subtree below `n`, in print order -/
def SSys.treeLinks (s : SSys α) : Nat → Nat → List (String × String)
  | 0, _ => []
  | fuel + 1, n => (s.childsOf n).flatMap fun c => (s.nameOf n, s.nameOf c) :: s.treeLinks fuel c

/-- `_get_sources()`: the sources in `_topo_nodes` order -/
def SSys.sources (s : SSys α) : List Nat :=
  s.topo.filter fun n => match s.node? n with
    | some nd => nd.comp.kind == .source
    | none => false

/-- `tree()`: the printed lines below the system-name line -/
def treeLinesAll (s : SSys α) : List (Nat × String) := s.sources.flatMap (s.treeLines s.hidx 0)

/-- `tree()`: every printed parent → child link -/
def treeEdges (s : SSys α) : List (String × String) := s.sources.flatMap (s.treeLinks s.hidx)

/-- `tree(name)`: `ValueError` for an unknown component name, else the links of the tree printed below it -/
def treeEdgesFrom (s : SSys α) (name : String) : Except Err (List (String × String)) :=
  if name == "" then pure (treeEdges s)
  else
    match (List.range s.hidx).find? fun n => match s.node? n with
        | some nd => nd.comp.name == name
        | none => false with
    | some n => pure (s.treeLinks s.hidx n)
    | none => throw (.value "Component name is not valid!")

end
end SysLoss
