/-
  Model/Table — assembly of the result table of `solve()` (system.py:929-1150) and of `rail_rep()`
  (1191-1250) from the solver's vectors `(v, i, state)`.

  Cells that the Python leaves as `""` are `none`.  Rows come out in `_topo_nodes` order followed by
  the subsystem rows (sources in the order they occur in `_topo_nodes`), the total row and — with
  more than one phase — the average row.  With fewer than two sources the Python finally drops the
  subsystem row and the Domain column; `Table.single` records that, the rows keep the information.
-/
import SysLoss.Model.Solver

namespace SysLoss
section
variable {α : Type} [Add α] [Sub α] [Mul α] [Div α] [Neg α] [LT α] [DecidableLT α]
  [OfNat α 0] [OfNat α 1] [OfNat α 2] [OfNat α 24] [OfNat α 100] [OfNat α 3600] [OfNat α 1000000]

structure Row (α : Type) where
  name    : String
  typ     : String := ""
  parent  : String := ""
  railIn  : String := ""
  domain  : String := ""
  group   : String := ""
  railOut : String := ""
  phase   : String := ""
  vin  : Option α := none
  vout : Option α := none
  iin  : Option α := none
  iout : Option α := none
  pwr  : Option α := none
  loss : Option α := none
  eff  : Option α := none
  tr   : Option α := none
  tp   : Option α := none
  ener : Option α := none
  warn : String := ""

/-- `_calc_energy(phase, pwr)` -/
def calcEnergy (phases : List (String × α)) (phase : String) (pwr : α) : α :=
  if phase == "" then pwr * 24
  else
    let tot := sumL (phases.map (·.2))
    let cycles := 24 * 3600 / tot
    ((phases.lookup phase).getD 0 / 3600) * pwr * cycles

def SSys.nameOf (s : SSys α) (n : Nat) : String :=
  match s.node? n with | some nd => nd.comp.name | none => ""

/-- `_get_parent_name(node)` -/
def SSys.parentName (s : SSys α) (n : Nat) : String :=
  match s.node? n with
  | some nd => match nd.parents with | [] => "" | p :: _ => s.nameOf p
  | none => ""

/-- the root above `n`, following first parents (`rx.ancestors` + `in_degree == 0`) -/
def SSys.rootOf (s : SSys α) : Nat → Nat → Nat
  | 0, n => n
  | fuel + 1, n =>
    match s.node? n with
    | some nd => match nd.parents with | [] => n | p :: _ => s.rootOf fuel p
    | none => n

/-- index of the first non-zero entry, 0 if none (`for i in reversed(range(len(vin))) …`) -/
def firstNonZero : List α → Nat → Nat
  | [], _ => 0
  | x :: xs, k => if !isZ x then k else
      (match xs with | [] => 0 | _ => firstNonZero xs (k+1))

/-- `_find_domain(n, domain, v)` -/
def SSys.findDomain (s : SSys α) (n : Nat) (domain : String) (v : Vec α) : String :=
  match s.node? n with
  | none => domain
  | some nd =>
    match nd.comp.kind with
    | .source => nd.comp.name
    | .pmux =>
      let idx := firstNonZero (nd.parents.map (vget v)) 0
      s.nameOf (s.rootOf s.hidx (nd.parents.getD idx 0))
    | _ => domain

def joinWarn (l : List String) : String := " ".intercalate l

/-- one iteration of the per-node loop of `solve()`; `dname` is the domain inherited from the first
    parent (for a root: the running value); returns the row and the node's own domain -/
def SSys.compRow (s : SSys α) (phase : String) (ta : α) (v i : Vec α) (st : St)
    (n : Nat) (dname : String) : Row α × String :=
  match s.node? n with
  | none => ({ name := "" }, dname)
  | some nd =>
    let c := nd.comp
    let dname' := s.findDomain n dname v
    let ph := nd.pconf.ctx phase
    let vo := vget v n
    let ii := vget i n
    let root := nd.parents.isEmpty
    let offs := if root then st.getD n [] else nd.parents.map (sget st)
    let vv := if root then [vget v n] else nd.parents.map (vget v)
    let sel : Option Nat :=          -- the parent whose voltage / name is reported
      if root then none
      else match c.priInp offs vv with
        | some k => if nd.parents.length > 1 then some (nd.parents.getD k 0) else nd.parents.head?
        | none => nd.parents.head?
    let muxSel : Bool :=
      !root && nd.parents.length > 1 && (c.priInp offs vv).isSome
    let vi := match sel with
      | none => vget v n + c.rs * ii
      | some p => vget v p
    let pn := if root then ""
      else if muxSel then s.nameOf (sel.getD 0)        -- the selected input itself
      else s.parentName n
    let io := if root then vget i n
      else if nd.childs.isEmpty then 0 else s.childCurr n i v st
    let railIn := if pn != "" then
        (match (s.nodes.toList.filterMap id).find? (fun x => x.comp.name == pn) with
         | some pd => pd.rail | none => "")
      else ""
    let r := c.solvPwrLoss vi vo ii io ta ph
    let isSrc := c.kind == .source
    let w := c.solvGetWarns vi vo ii io ta ph
    ({ name := c.name, typ := c.kind.ctype.name, parent := pn, railIn := railIn, domain := dname',
       group := nd.group, railOut := nd.rail, phase := phase,
       vin := some vi, vout := some vo, iin := some ii, iout := some io,
       pwr := some r.pwr, loss := some r.loss, eff := some r.eff,
       tr := if isSrc then none else some r.tr, tp := if isSrc then none else some r.tp,
       ener := some (calcEnergy s.phases phase r.pwr), warn := joinWarn w }, dname')

/-- all component rows of one phase.  The loop keeps `ndomain` (node ↦ its domain) and the running
    `dname`; a non-root node starts from the domain of its first parent. -/
def SSys.compRows (s : SSys α) (phase : String) (ta : α) (v i : Vec α) (st : St) : List (Row α) :=
  (s.topo.foldl (init := (([] : List (Row α)), "none", ([] : List (Nat × String)))) fun acc n =>
    let (rows, dname, nd) := acc
    let start := match s.node? n with
      | some node => (match node.parents with
          | [] => dname
          | p :: _ => (nd.lookup p).getD dname)
      | none => dname
    let (r, d) := s.compRow phase ta v i st n start
    (rows ++ [r], d, (n, d) :: nd)).1

def optSum (l : List (Option α)) : α := sumL (l.filterMap id)

/-- the per-phase table: component rows, subsystem rows, total row -/
structure PhaseTable (α : Type) where
  comps : List (Row α)
  subs  : List (Row α)
  total : Row α
  nsrc  : Nat

def SSys.phaseTable (s : SSys α) (phase : String) (ta : α) (v i : Vec α) (st : St) : PhaseTable α :=
  let comps := s.compRows phase ta v i st
  let srcRows := comps.filter (·.typ == "SOURCE")
  -- `sources` dict: keyed by the running domain at each SOURCE row (= the source's own name)
  let srcNames := (srcRows.map (·.domain)).eraseDups
  let subs := srcNames.map fun d =>
    let vin := ((srcRows.filter (·.domain == d)).getLast?).bind (·.vin)   -- later insert overwrites
    let first := (comps.filter fun r => r.domain == d && r.typ == "SOURCE").head?
    let curr := first.bind (·.iout)
    let pwr := (first.bind (·.pwr)).getD 0
    let loss := optSum ((comps.filter (·.domain == d)).map (·.loss))
    let warned := (comps.filter (·.domain == d)).any (·.warn != "")
    ({ name := "Subsystem " ++ d, phase := phase, vin := vin, iout := curr, pwr := some pwr,
       loss := some loss, eff := some (getEff pwr (pwr - loss) 100),
       ener := some (calcEnergy s.phases phase pwr),
       warn := if warned then "Yes" else "" } : Row α)
  let tpwr := optSum (subs.map (·.pwr))
  let tloss := optSum (subs.map (·.loss))
  let anyWarn := comps.any (·.warn != "") || subs.any (·.warn != "")
  let total : Row α :=
    { name := "System total", phase := phase, pwr := some tpwr, loss := some tloss,
      eff := some (getEff tpwr (tpwr - tloss) 100), ener := some (calcEnergy s.phases phase tpwr),
      iout := if srcNames.length < 2 then (subs.getLast?).bind (·.iout) else none,
      warn := if anyWarn then "Yes" else "" }
  ⟨comps, subs, total, srcNames.length⟩

/-- the "System average" row from the per-phase totals -/
def averageRow (phases : List (String × α)) (tabs : List (String × PhaseTable α)) : Row α :=
  let ts := tabs.map fun pt => (phases.lookup pt.1).getD 0
  let ttot := sumL ts
  let wavg := fun (f : PhaseTable α → α) =>
    sumL (List.zipWith (fun pt t => f pt.2 * t) tabs ts) / ttot
  let apwr := wavg fun t => t.total.pwr.getD 0
  let aloss := wavg fun t => t.total.loss.getD 0
  let aeff := wavg fun t => t.total.eff.getD 0
  let single : Bool := match tabs.getLast? with | some pt => decide (pt.2.nsrc < 2) | none => true
  let acurr := wavg fun t => ((t.subs.getLast?).bind (·.iout)).getD 0
  { name := "System average", pwr := some apwr, loss := some aloss, eff := some aeff,
    iout := if single then some acurr else none,
    ener := some (calcEnergy phases "" apwr) }

/-- `phase_list` of `solve(phase=…)` -/
def phaseList (phases : List (String × α)) (phaseArg : String) : Except Err (List String) :=
  if phaseArg != "" then
    (if (phases.map (·.1)).contains phaseArg then .ok [phaseArg]
     else .error (.value "The specified phase is not defined"))
  else if phases.isEmpty then .ok [""] else .ok (phases.map (·.1))

structure Table (α : Type) where
  phases : List (String × PhaseTable α)
  avg    : Option (Row α)

/-- assembly of the whole table from per-phase solver outputs -/
def SSys.assemble (s : SSys α) (ta : α) (outs : List (String × Vec α × Vec α × St)) : Table α :=
  let tabs := outs.map fun (ph, v, i, st) => (ph, s.phaseTable ph ta v i st)
  ⟨tabs, if outs.length > 1 then some (averageRow s.phases tabs) else none⟩

/-- `solve(vtol, itol, maxiter, phase, ta)` -/
def SSys.solve (s : SSys α) (cfg : Cfg α) (phaseArg : String) (ta : α) : Except Err (Table α) := do
  let pl ← phaseList s.phases phaseArg
  let outs ← pl.mapM fun ph => do
    let r ← s.solvePhase cfg ph
    pure (ph, r.v, r.i, r.st)
  pure (s.assemble ta outs)

/-- flags reconstructed from the voltages: a root keeps its own initial flag, every other node is
    flagged iff its output is 0 V.  (Every consumer tests `abs(v) == 0 or off`, and `off` is only
    ever set together with a 0 V output — `Props/Flags.lean`.) -/
def SSys.flagsOf (s : SSys α) (phase : String) (v : Vec α) : St :=
  ((List.range s.hidx).map fun n => match s.node? n with
    | some nd => if nd.parents.isEmpty then [nd.comp.initOff (nd.pconf.ctx phase)] else [isZ (vget v n)]
    | none => []).toArray

/-- one row of `rail_rep()` -/
structure RailRow (α : Type) where
  phase : String
  rail : String
  volt : α
  curr : α
  pwr : α
  loss : α
  eff : α
  warn : List String      -- the set of distinct non-empty member warning strings (order unspecified)

/-- `rail_rep()` from the `solve()` table: `none` = the Python falls through (returns the solve table
    when no rail column exists, `None` when the rail column exists but no rail feeds anything). -/
def railRep (t : Table α) : List (RailRow α) :=
  let all := t.phases.flatMap fun pt => pt.2.comps
  let rails := ((all.map (·.railIn)).eraseDups).filter (· != "")
  t.phases.flatMap fun pt =>
    rails.filterMap fun r =>
      let rows := pt.2.comps.filter (·.railIn == r)
      if rows.isEmpty then none        -- a rail that feeds nothing in this phase is not listed
      else
        let p := optSum (rows.map (·.pwr))
        let l := optSum (rows.map (·.loss))
        let ws : List String := (rows.map (·.warn)).eraseDups
        some { phase := pt.1, rail := r, volt := ((rows.head?).bind (·.vin)).getD 0,
               curr := optSum (rows.map (·.iin)), pwr := p, loss := l,
               eff := if isZ l then 100 else 100 * p / (p + l),
               warn := ws.filter (· != "") }

end
end SysLoss
