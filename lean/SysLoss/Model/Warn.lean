/-
  Model/Warn — limits and warnings (`LIMITS_DEFAULT`, `_get_limits`, `_get_warns`, `_solv_get_warns`).
-/
import SysLoss.Model.Comp

namespace SysLoss
section
variable {α : Type} [Add α] [Sub α] [Mul α] [Div α] [Neg α] [LT α] [DecidableLT α]
  [OfNat α 0] [OfNat α 1] [OfNat α 2] [OfNat α 100] [OfNat α 1000000]

def allLimitKeys : List String := ["vi", "vo", "vd", "ii", "io", "pi", "po", "pl", "tr", "tp"]

/-- `LIMITS_DEFAULT[key]` -/
def limitsDefault (key : String) : α × α :=
  if key == "tp" then (-(1000000 : α), 1000000) else (0, 1000000)

/-- `_get_limits()` — the limits applicable to a kind -/
def Kind.limitKeys : Kind → List String
  | .source => ["io", "po", "pl"]
  | .pload => ["vi", "ii", "tr", "tp"]
  | .iload => ["vi", "pi", "tr", "tp"]
  | .rload => ["vi", "ii", "pi", "tr", "tp"]
  | .converter => ["vi", "vo", "ii", "io", "pi", "po", "pl", "tr", "tp"]
  | _ => allLimitKeys

/-- `_get_opt(limits, key, LIMITS_DEFAULT[key])` -/
def lookupLimit (limits : List (String × (α × α))) (key : String) : α × α :=
  match limits.lookup key with
  | some l => l
  | none => limitsDefault key

/-- one iteration of the loop in `_get_warns`: is `key` out of range? -/
def outOfRange (key : String) (lim : α × α) (x : α) : Bool :=
  if key == "tp" then decide (lim.2 < x) || decide (x < lim.1)
  else decide (nabs lim.2 < nabs x) || decide (nabs x < nabs lim.1)

/-- `_get_warns(limits, checks)` as the list of tokens (the Python joins them with blanks) -/
def getWarns (limits : List (String × (α × α))) (checks : List (String × α)) : List String :=
  (checks.filter fun kv => outOfRange kv.1 (lookupLimit limits kv.1) kv.2).map (·.1)

/-- `_solv_get_warns(vi, vo, ii, io, ta, phase, phase_conf)` -/
def Comp.solvGetWarns (c : Comp α) (vi vo ii io ta : α) (ph : PhaseCtx α) : List String :=
  if (c.kind.ctype != .SOURCE && c.kind.ctype != .SLOSS) && ph.inactive then []
  else
    let r := c.solvPwrLoss vi vo ii io ta ph
    let all : List (String × α) :=
      [("vi", vi), ("vo", vo), ("vd", nabs vi - nabs vo), ("ii", ii), ("io", io),
       ("pi", r.pwr), ("po", r.pwr - r.loss), ("pl", r.loss), ("tr", r.tr), ("tp", r.tp)]
    getWarns c.limits (c.kind.limitKeys.filterMap fun k => (all.lookup k).map fun x => (k, x))

end
end SysLoss
