/-
  Model/Toml — a component from a TOML file (`_Component.from_file`, `LinReg.from_file`).

  The model starts at the value `toml.load` returns (a `PV` dict; TOML text → value is trusted) and ends
  at the constructor call (`mkComp`).  What is modelled, statement by statement:

    for key in cls._cparams["params"]:                       -- schema order
        tbl  = config[cls._cparams["name"]]                  -- KeyError when the `[kind]` table is absent
        pval = _get_opt(tbl, key, default) | _get_mand(tbl, key)      -- KeyError for a missing mandatory key
        ptype = dict if isinstance(pval, dict) else type(pval)
        if ptype not in typ: raise ValueError                 -- EXACT type: bool is not int, int is not float
        fparams[key] = pval
    fparams["limits"] = _get_opt(config, "limits", LIMITS_DEFAULT)
    return cls(name, **fparams)                               -- = `mkComp`

  `toml` (0.10.2) returns an *inline* table (`key = { … }`) as `DynamicInlineTableDict`, a subclass of
  `dict`; since the repair of finding F28 the gate reads `ptype = dict if isinstance(pval, dict) else
  type(pval)`, so every mapping counts as `dict` and the model needs no distinction.
-/
import SysLoss.Model.Ctor

namespace SysLoss

/-- the Python types a TOML value can have -/
inductive PyTy where
  | int | float | bool | str | list | dict
  deriving DecidableEq, Repr, Inhabited

def PyTy.name : PyTy → String
  | .int => "int" | .float => "float" | .bool => "bool" | .str => "str" | .list => "list" | .dict => "dict"

/-- defaults occurring in the `_cparams` tables (`RS_DEFAULT = IG_DEFAULT = … = 0.0`, `False`) -/
inductive Dflt where
  | zero | no
  deriving DecidableEq, Repr, Inhabited

/-- one entry of `_cparams["params"]` -/
structure SchemaKey where
  key : String
  typ : List PyTy
  opt : Bool
  dflt : Option Dflt := none
  deriving DecidableEq, Repr, Inhabited

private def num : List PyTy := [.int, .float]
private def mand (k : String) (t : List PyTy) : SchemaKey := { key := k, typ := t, opt := false }
private def optz (k : String) (t : List PyTy) : SchemaKey := { key := k, typ := t, opt := true, dflt := some .zero }

/-- `cls._cparams["name"]` — the TOML table the loader of a kind reads -/
def Kind.tomlName : Kind → String
  | .source => "source" | .pload => "pload" | .iload => "iload" | .rload => "rload"
  | .rloss => "rloss" | .vloss => "vloss" | .converter => "converter" | .linreg => "linreg"
  | .pswitch => "pswitch" | .pmux => "pmux" | .rectifier => "rectifier"

/-- `cls._cparams["params"]`, in dictionary order (components.py 421, 528, 623, 699, 779, 873, 1000, 1376,
    1519, 1696).  `LinReg` defines no schema of its own (it overrides `from_file`): the list given here is
    the sequence of keys its loader reads, with `typ = []` meaning "no type gate". -/
def Kind.schema : Kind → List SchemaKey
  | .source => [mand "vo" num, optz "rs" num]
  | .pload => [mand "pwr" num, optz "pwrs" num, optz "rt" num,
               { key := "loss", typ := [.bool], opt := true, dflt := some .no }]
  | .iload => [mand "ii" num, optz "iis" num, optz "rt" num,
               { key := "loss", typ := [.bool], opt := true, dflt := some .no }]
  | .rload => [mand "rs" num, optz "rt" num,
               { key := "loss", typ := [.bool], opt := true, dflt := some .no }]
  | .rloss => [mand "rs" num, optz "rt" num]
  | .vloss => [mand "vdrop" [.int, .float, .dict], optz "rt" num]
  | .converter => [mand "vo" num, mand "eff" [.float, .dict], optz "iq" num, optz "iis" num, optz "rt" num]
  | .linreg => [mand "vo" [], optz "vdrop" [], optz "iq" [], optz "ig" [], optz "iis" [], optz "rt" []]
  | .pswitch => [optz "rs" num, optz "ig" [.int, .float, .dict], optz "iis" num, optz "rt" num]
  | .pmux => [optz "rs" [.int, .float, .list], optz "ig" [.int, .float, .dict], optz "iis" num, optz "rt" num]
  | .rectifier => [mand "vdrop" [.int, .float, .dict], optz "rs" [.int, .float, .list],
                   optz "ig" [.int, .float, .dict], optz "iq" num, optz "rt" num]

/-- does the kind go through the generic loader (type gates)? -/
def Kind.genericLoader : Kind → Bool
  | .linreg => false
  | _ => true

/-- keyword parameters of `Kind.__init__` other than `name` and `limits`, with the default of the signature
    (`none` = no default: the keyword is required) -/
def Kind.ctorKeys : Kind → List (String × Option Dflt)
  | .source => [("vo", none), ("rs", some .zero)]
  | .pload => [("pwr", none), ("pwrs", some .zero), ("rt", some .zero), ("loss", some .no)]
  | .iload => [("ii", none), ("iis", some .zero), ("rt", some .zero), ("loss", some .no)]
  | .rload => [("rs", none), ("rt", some .zero), ("loss", some .no)]
  | .rloss => [("rs", none), ("rt", some .zero)]
  | .vloss => [("vdrop", none), ("rt", some .zero)]
  | .converter => [("vo", none), ("eff", none), ("iq", some .zero), ("iis", some .zero), ("rt", some .zero)]
  | .linreg => [("vo", none), ("vdrop", some .zero), ("iq", some .zero), ("ig", some .zero),
                ("iis", some .zero), ("rt", some .zero)]
  | .pswitch => [("rs", some .zero), ("ig", some .zero), ("iis", some .zero), ("rt", some .zero)]
  | .pmux => [("rs", some .zero), ("ig", some .zero), ("iis", some .zero), ("rt", some .zero)]
  | .rectifier => [("vdrop", some .zero), ("rs", some .zero), ("ig", some .zero), ("iq", some .zero),
                   ("rt", some .zero)]

def allKinds : List Kind :=
  [.source, .pload, .iload, .rload, .rloss, .vloss, .converter, .linreg, .pswitch, .pmux, .rectifier]

section
variable {α : Type} [Add α] [Sub α] [Mul α] [Div α] [Neg α] [LT α] [DecidableLT α]
  [OfNat α 0] [OfNat α 1] [OfNat α 2] [OfNat α 100] [OfNat α 1000000]

def Dflt.toPV : Dflt → PV α
  | .zero => .float 0
  | .no => .bool false

/-- `dict if isinstance(x, dict) else type(x)`; `none` = a type that is in no `typ` list (`None`) -/
def PV.pyTy? : PV α → Option PyTy
  | .null => none
  | .bool _ => some .bool
  | .int _ => some .int
  | .float _ => some .float
  | .str _ => some .str
  | .list _ => some .list
  | .dict _ => some .dict

/-- `type(pval) in typ` -/
def typeOk (x : PV α) (typ : List PyTy) : Bool :=
  match x.pyTy? with
  | some t => typ.contains t
  | none => false

/-- `key in params` followed by `params[key]`, for whatever `params` is -/
def pyLookup (params : PV α) (key : String) : Except Err (Option (PV α)) :=
  match params with
  | .dict d => .ok (d.lookup key)
  | .str s => if (s.splitOn key).length > 1 then .error (.type "string indices must be integers") else .ok none
  | .list l =>
    if l.any (fun e => match e with | .str t => t == key | _ => false)
    then .error (.type "list indices must be integers") else .ok none
  | _ => .error (.type "argument is not iterable")

/-- `_get_opt(params, key, default)` -/
def getOpt (params : PV α) (key : String) (dflt : PV α) : Except Err (PV α) := do
  match ← pyLookup params key with
  | some v => pure v
  | none => pure dflt

/-- `_get_mand(params, key)` -/
def getMand (params : PV α) (key : String) : Except Err (PV α) := do
  match ← pyLookup params key with
  | some v => pure v
  | none => throw (.key ("Parameter dict is missing entry for '" ++ key ++ "'"))

/-- `d[key]` (plain subscription of a mapping) -/
def pySub (d : PV α) (key : String) : Except Err (PV α) :=
  match d with
  | .dict l => match l.lookup key with
    | some v => .ok v
    | none => .error (.key key)
  | _ => .error (.type "not subscriptable by str")

/-- the loop of `_Component.from_file` over the remaining schema keys; `acc` = `fparams` so far -/
def loadKeys (config : PV α) (tname : String) : List SchemaKey → Args α → Except Err (Args α)
  | [], acc => .ok acc
  | sk :: rest, acc => do
    let tbl ← pySub config tname
    let pval ← if sk.opt then getOpt tbl sk.key ((sk.dflt.getD .zero).toPV) else getMand tbl sk.key
    if !(typeOk pval sk.typ) then
      throw (.value ("Parameter " ++ sk.key ++ " is not of the correct type"))
    loadKeys config tname rest (acc ++ [(sk.key, pval)])

/-- `fparams["limits"] = _get_opt(config, "limits", LIMITS_DEFAULT)`: absent → the keyword default -/
def limitsArg (config : PV α) : Args α :=
  match config with
  | .dict d => (match d.lookup "limits" with | some l => [("limits", l)] | none => [])
  | _ => []

/-- `d[k] = v` on an insertion-ordered dict: replace in place, else append -/
def dictSet {β : Type} (d : List (String × β)) (k : String) (v : β) : List (String × β) :=
  match d with
  | [] => [(k, v)]
  | (k', v') :: rest => if k' == k then (k, v) :: rest else (k', v') :: dictSet rest k v

/-- the `iq` / `ig` part of `LinReg.from_file`: a non-zero deprecated `iq` takes over (a table has its `"iq"`
    entry renamed: `ig["ig"] = ig.pop("iq")`), otherwise the file's `ig` or `IG_DEFAULT` -/
def linregFileIg (tbl : PV α) : Except Err (PV α) := do
  let iq ← getOpt tbl "iq" (.float 0)
  if nonZeroArg iq then
    match iq with
    | .dict d =>
      match d.lookup "iq" with
      | some z => pure (PV.dict (dictSet (d.filter fun kv => kv.1 != "iq") "ig" z))
      | none => throw (Err.key "iq")
    | x => pure x
  else getOpt tbl "ig" (.float 0)

/-- `LinReg.from_file` (components.py 1229-1260): no type gates, deprecated `iq` takes over `ig` -/
def linregFromToml (name : String) (config : PV α) : Except Err (Comp α) := do
  let zero : PV α := .float 0
  let v ← getMand (← pySub config "linreg") "vo"
  let vd ← getOpt (← pySub config "linreg") "vdrop" zero
  let ig ← linregFileIg (← pySub config "linreg")
  let lim := limitsArg config
  let iis ← getOpt (← pySub config "linreg") "iis" zero
  let rt ← getOpt (← pySub config "linreg") "rt" zero
  mkComp .linreg name ([("vo", v), ("vdrop", vd), ("ig", ig)] ++ lim ++ [("iis", iis), ("rt", rt)])

/-- `Kind.from_file(name, fname=f)` on the parsed file `config` -/
def fromToml (k : Kind) (name : String) (config : PV α) : Except Err (Comp α) :=
  match k with
  | .linreg => linregFromToml name config
  | _ => do
    let fp ← loadKeys config k.tomlName k.schema []
    mkComp k name (fp ++ limitsArg config)

/-- the file that holds parameters `P` and (optionally) limits `L` for kind `k` -/
def encodeToml (k : Kind) (P : Args α) (L : Option (PV α)) : PV α :=
  .dict ([(k.tomlName, .dict P)] ++ (match L with | some l => [("limits", l)] | none => []))

/-- `P ∪ defaults`: every schema key, in schema order, with the file's value or the schema default -/
def fillDefaults (k : Kind) (P : Args α) : Args α :=
  k.schema.filterMap fun sk =>
    match P.lookup sk.key with
    | some v => some (sk.key, v)
    | none => if sk.opt then some (sk.key, ((sk.dflt.getD .zero).toPV : PV α)) else none

end
end SysLoss
