/-
  Model/Persist — `System.save` and `System.from_file` (system.py 109-302, 1560-1648) on document values.

  A *system description* is what persistence is about: the components in node-insertion order (each a
  constructed `Comp`, with its ordered parent names), the system name and the four registries the
  implementation keeps as insertion-ordered dicts (`phases`, `phase_conf`, `groups`, `rails`), kept as the
  raw `PV` values that `save` dumps and `from_file` installs wholesale.

  Graph-library behaviour that the layout depends on:
   * topological order (`_get_sources`, `_get_pmux`): a parameter — the observed row order is passed in;
   * successor order / `bfs_successors`: rustworkx lists the newest edge first and runs a queue BFS with a
     visited set; every edge `p → c` is created when `c` is inserted, so "newest first" is reverse
     insertion order.  Validated on every run by comparing `save` with the file the implementation wrote.
  JSON text ⇄ value (`json.dump / json.load`) is trusted.
-/
import SysLoss.Model.Toml

namespace SysLoss
section
variable {α : Type} [Add α] [Sub α] [Mul α] [Div α] [Neg α] [LT α] [DecidableLT α]
  [OfNat α 0] [OfNat α 1] [OfNat α 2] [OfNat α 100] [OfNat α 1000000]

structure Node (α : Type) where
  comp : Comp α
  parents : List String          -- component names, in declaration (= mux priority) order

structure SysDesc (α : Type) where
  name : String
  nodes : List (Node α)          -- node insertion order
  phases : PV α
  phaseConf : PV α
  groups : PV α
  rails : PV α

def Node.name (n : Node α) : String := n.comp.name

def SysDesc.names (s : SysDesc α) : List String := s.nodes.map Node.name

def SysDesc.find? (s : SysDesc α) (name : String) : Option (Node α) :=
  s.nodes.find? fun n => n.name == name

/-- the registries as the API builds them: one entry per component in insertion order -/
def SysDesc.ofParts (name : String) (parts : List (Node α × String × String × PV α)) (phases : PV α) :
    SysDesc α :=
  { name, nodes := parts.map (·.1), phases,
    phaseConf := .dict (parts.map fun p => (p.1.name, p.2.2.2)),
    groups := .dict (parts.map fun p => (p.1.name, .str p.2.1)),
    rails := .dict (parts.map fun p =>
      (p.1.name, .str (if p.1.comp.kind.ctype == .LOAD then "" else p.2.2.1))) }

/-! ### save -/

/-- `_get_applims(idx)` -/
def applims (c : Comp α) : PV α :=
  .dict (c.kind.limitKeys.map fun k =>
    let l := lookupLimit c.limits k
    (k, .list [.float l.1, .float l.2]))

/-- `{"type": …, "params": …, "limits": …}` -/
def dumpComp (c : Comp α) : List (String × PV α) :=
  [("type", .str c.kind.ctype.name), ("params", .dict c.params), ("limits", applims c)]

/-- successors of `p`, newest edge first -/
def childrenOf (s : SysDesc α) (p : String) : List (Node α) :=
  (s.nodes.filter fun n => n.parents.contains p).reverse

/-- `rx.bfs_successors(g, root)`: `(node, successors)` for every visited node that has successors -/
def bfsAux (s : SysDesc α) : Nat → List String → List String → List (String × List (Node α))
  | 0, _, _ => []
  | _, [], _ => []
  | fuel + 1, x :: queue, seen =>
    let cs := childrenOf s x
    let fresh := (cs.map Node.name).foldl (fun acc c => if (seen ++ acc).contains c then acc else acc ++ [c]) []
    let rest := bfsAux s fuel (queue ++ fresh) (seen ++ fresh)
    if cs.isEmpty then rest else (x, cs) :: rest

def bfs (s : SysDesc α) (root : String) : List (String × List (Node α)) :=
  bfsAux s (s.nodes.length + 1) [root] [root]

/-- `rx.descendants(g, p)` -/
def descendants (s : SysDesc α) (p : String) : List String :=
  ((bfs s p).flatMap fun e => e.2.map Node.name).eraseDups

/-- one top-level block of the document: a Source, or the PMux (`isMux`), with its `childs` entries
    `(parent name, children)` in BFS order after dropping the mux and its descendants -/
structure Block (α : Type) where
  root : Node α
  isMux : Bool
  childs : List (String × List (Node α))

/-- the `childs` entries of one block: BFS from `root`, dropping `skip` (the mux and its descendants) -/
def childsOf (s : SysDesc α) (root : String) (skip : List String) : List (String × List (Node α)) :=
  (bfs s root).map fun e => (e.1, e.2.filter fun n => !skip.contains n.name)

/-- the traversal of `System.save`: one block per Source in topological order, then the PMux -/
def layoutOf (topo : List String) (s : SysDesc α) : List (Block α) :=
  let ordered := topo.filterMap s.find?
  let sources := ordered.filter fun n => n.comp.kind == .source
  let mux := ordered.find? fun n => n.comp.kind == .pmux
  let skip := match mux with
    | some m => m.name :: descendants s m.name
    | none => []
  sources.map (fun n => { root := n, isMux := false, childs := childsOf s n.name skip }) ++
    (match mux with
     | some m => [{ root := m, isMux := true, childs := childsOf s m.name [] }]
     | none => [])

/-- `cdict`: `cdict[name] = [ {type, params, limits}, … ]` per entry -/
def childsDoc (entries : List (String × List (Node α))) : PV α :=
  .dict (entries.foldl (fun acc e => dictSet acc e.1 (.list (e.2.map fun n => PV.dict (dumpComp n.comp)))) [])

def blockDoc (b : Block α) : PV α :=
  .dict (dumpComp b.root.comp ++ [("childs", childsDoc b.childs)] ++
    (if b.isMux then [("parents", .list (b.root.parents.map PV.str))] else []))

def sysBlock (ver : String) (s : SysDesc α) : PV α :=
  .dict [("name", .str s.name), ("version", .str ver), ("phases", s.phases),
    ("phase_conf", s.phaseConf), ("groups", s.groups), ("rails", s.rails)]

/-- the document of a layout: `sys[name] = block` in order, after the `"system"` entry -/
def docOf (ver : String) (s : SysDesc α) (layout : List (Block α)) : PV α :=
  .dict (layout.foldl (fun acc b => dictSet acc b.root.name (blockDoc b)) [("system", sysBlock ver s)])

/-- `System.save` as a document value; `ver = sysloss.__version__`, `topo` = observed topological order -/
def save (ver : String) (topo : List String) (s : SysDesc α) : PV α :=
  docOf ver s (layoutOf topo s)

/-! ### the layout conditions of the round-trip theorem, in executable form

  `Props/C12.roundtrip_partial` assumes that the layout lists every component once, parents first
  (`LayoutOK` in Proofs/Persist.lean).  The Boolean versions below are what the driver evaluates on every
  generated system; `layoutOKb_sound` (Proofs/Persist.lean) shows they imply the hypothesis. -/

def hasDupS : List String → Bool
  | [] => false
  | a :: rest => rest.contains a || hasDupS rest

def childOKb (seen : List (Node α)) (p : String) (n : Node α) : Bool :=
  n.comp.kind != .source && n.comp.kind != .pmux && n.parents == [p] &&
  seen.any (fun pn => pn.name == p) &&
  seen.all (fun pn => pn.name != p || pn.comp.kind.ctype != .LOAD) &&
  !(seen.map Node.name).contains n.name && n.name != ""

def childsOKb : List (Node α) → String → List (Node α) → Bool
  | _, _, [] => true
  | seen, p, n :: rest => childOKb seen p n && childsOKb (seen ++ [n]) p rest

def entriesOKb : List (Node α) → List (String × List (Node α)) → Bool
  | _, [] => true
  | seen, e :: rest => childsOKb seen e.1 e.2 && entriesOKb (seen ++ e.2) rest

def blockOKb (seen : List (Node α)) (b : Block α) : Bool :=
  !(seen.map Node.name).contains b.root.name && b.root.name != "" && !hasDupS (b.childs.map (·.1)) &&
  entriesOKb (seen ++ [b.root]) b.childs &&
  (if b.isMux then
    b.root.comp.kind == .pmux && !b.root.parents.isEmpty && !hasDupS b.root.parents &&
    b.root.parents.all (fun p => seen.any (fun pn => pn.name == p) &&
      seen.all (fun pn => pn.name != p || pn.comp.kind.ctype != .LOAD)) &&
    seen.all (fun x => x.comp.kind != .pmux)
   else b.root.comp.kind == .source && b.root.parents.isEmpty)

def layoutOKb : List (Node α) → List (Block α) → Bool
  | _, [] => true
  | seen, b :: rest => blockOKb seen b && layoutOKb (seen ++ b.root :: b.childs.flatMap (·.2)) rest

/-- all of `Saveable` that can be computed: the layout conditions, a Source first, and every component of the
    description listed exactly once (by name; the layout's nodes are taken from the description) -/
def saveableb (topo : List String) (s : SysDesc α) : Bool :=
  let L := layoutOf topo s
  let flat := L.flatMap fun b => b.root :: b.childs.flatMap (·.2)
  layoutOKb [] L && (match L.head? with | some b => !b.isMux | none => false) &&
  flat.length == s.nodes.length && s.names.all (fun n => (flat.map Node.name).contains n) &&
  !hasDupS s.names

/-! ### from_file -/

/-- `N.N.N` → numeric triple (the fragment of `packaging.version` that is modelled) -/
def parseVer (v : String) : Option (Nat × Nat × Nat) :=
  match v.splitOn "." with
  | [a, b, c] =>
    (match a.toNat?, b.toNat?, c.toNat? with
     | some x, some y, some z => some (x, y, z)
     | _, _, _ => none)
  | _ => none

/-- `version.parse(a) < version.parse(b)` on triples: lexicographic -/
def verLt (a b : Nat × Nat × Nat) : Bool :=
  a.1 < b.1 || (a.1 == b.1 && (a.2.1 < b.2.1 || (a.2.1 == b.2.1 && a.2.2 < b.2.2)))

def outside (m : String) : Err := .other ("outside-model: " ++ m)

/-- the version gate (system.py 141-148) -/
def versionGate (lib : String) (ver : PV α) : Except Err Unit :=
  match ver with
  | .str v =>
    (match parseVer lib, parseVer v with
     | some l, some f =>
       if verLt l f then .error (.value ("created by sysLoss version " ++ v ++ " - please update sysLoss"))
       else .ok ()
     | _, _ => .error (outside "version syntax"))
  | _ => .error (outside "version is not a string")

def strOf (x : PV α) : Except Err String :=
  match x with
  | .str s => .ok s
  | _ => .error (outside "name is not a string")

/-- `_chk_name` while loading: every rail is `""` at that time (`add_comp` is called without `rail`), so a name
    is taken iff it is a component name or the empty string (`name in rails.values()`) -/
def nameTaken (st : List (Node α)) (name : String) : Bool :=
  (st.map Node.name).contains name || (name == "" && !st.isEmpty)

/-- `_chk_parent` + `_get_index` while loading: by component name only (the empty string is not a rail name) -/
def resolveParent (st : List (Node α)) (p : String) : Except Err (Node α) :=
  match st.find? fun n => n.name == p with
  | some n => .ok n
  | none => .error (.value ("Parent name \"" ++ p ++ "\" not found!"))

/-- `len(parent) > len(set(parent))` -/
def hasDup : List String → Bool
  | [] => false
  | a :: rest => rest.contains a || hasDup rest

/-- `add_comp(parents, comp=c)` on the loader's state (group and rail are not passed) -/
def addComp (st : List (Node α)) (parents : List String) (isList : Bool) (c : Comp α) :
    Except Err (List (Node α)) := do
  if isList && parents.isEmpty then throw (.value "parent parameter is empty!")
  else if isList && hasDup parents then throw (.value "parent paramenter contains duplicates!")
  else if isList && c.kind.ctype != .PMUX then throw (.value "only PMux component can have multiple inputs!")
  else
    let ps ← parents.mapM (resolveParent st)
    if nameTaken st c.name then throw (.value ("Component name \"" ++ c.name ++ "\" is already used!"))
    else match ps.find? (fun p => !(p.comp.kind.acceptsChild c.kind.ctype)) with
      | some p => throw (.value ("Parent " ++ p.name ++ " does not allow child of type " ++ c.kind.ctype.name))
      | none =>
        if c.kind.ctype == .PMUX && st.any (fun n => n.comp.kind.ctype == .PMUX) then
          throw (.value "a system can only have one PMux")
        else pure (st ++ [{ comp := c, parents := ps.map Node.name }])

/-- the branch of system.py 180-286 for component type `t`: which constructor is called with which keywords
    (`none` = a `type` the loader has no branch for: silently skipped).  `cp` = `c["params"]`; the six values
    read before the branch (system.py 173-179) are passed in. -/
def childBranch (t : String) (cp : PV α) (lim : Args α) (iq ig rs iis rt : PV α) :
    Except Err (Option (Kind × Args α)) := do
  let zero : PV α := .float 0
  if t == "CONVERTER" then
    let vo ← getMand cp "vo"
    let eff ← getMand cp "eff"
    pure (some (.converter, [("vo", vo), ("eff", eff), ("iq", iq)] ++ lim ++ [("iis", iis), ("rt", rt)]))
  else if t == "LINREG" then
    let vo ← getMand cp "vo"
    let vdrop ← getOpt cp "vdrop" zero
    pure (some (.linreg, [("vo", vo), ("vdrop", vdrop), ("iq", iq), ("ig", ig)] ++ lim ++ [("iis", iis), ("rt", rt)]))
  else if t == "SLOSS" then
    if (← pyLookup cp "rs").isSome then
      let rs ← getMand cp "rs"
      pure (some (.rloss, [("rs", rs), ("rt", rt)] ++ lim))
    else
      let vdrop ← getMand cp "vdrop"
      pure (some (.vloss, [("vdrop", vdrop), ("rt", rt)] ++ lim))
  else if t == "LOAD" then
    let loss ← getOpt cp "loss" (.bool false)
    if (← pyLookup cp "pwr").isSome then
      let pwr ← getMand cp "pwr"
      let pwrs ← getOpt cp "pwrs" zero
      pure (some (.pload, [("pwr", pwr)] ++ lim ++ [("pwrs", pwrs), ("rt", rt), ("loss", loss)]))
    else if (← pyLookup cp "rs").isSome then
      let rs ← getMand cp "rs"
      pure (some (.rload, [("rs", rs), ("rt", rt)] ++ lim ++ [("loss", loss)]))
    else
      let ii ← getMand cp "ii"
      pure (some (.iload, [("ii", ii)] ++ lim ++ [("iis", iis), ("rt", rt), ("loss", loss)]))
  else if t == "PSWITCH" then
    pure (some (.pswitch, [("rs", rs), ("ig", ig)] ++ lim ++ [("iis", iis), ("rt", rt)]))
  else if t == "RECTIFIER" then
    let vdrop ← getOpt cp "vdrop" zero
    pure (some (.rectifier, [("vdrop", vdrop), ("rs", rs), ("ig", ig), ("iq", iq)] ++ lim ++ [("rt", rt)]))
  else pure none

/-- `limits = _get_opt(c, "limits", LIMITS_DEFAULT)`: absent → the keyword default -/
def blockLimits (c : PV α) : Args α :=
  match c with
  | .dict d => (match d.lookup "limits" with | some l => [("limits", l)] | none => [])
  | _ => []

/-- one element of a `childs[p]` list → the constructor call of system.py 173-286: name, kind, keywords -/
def childCall (c : PV α) : Except Err (Option (String × Kind × Args α)) := do
  let zero : PV α := .float 0
  let cp ← pySub c "params"
  let cname ← strOf (← getMand cp "name")
  let lim := blockLimits c
  let iq ← getOpt cp "iq" zero
  let ig ← getOpt cp "ig" zero
  let rs ← getOpt cp "rs" zero
  let iis ← getOpt cp "iis" zero
  let rt ← getOpt cp "rt" zero
  let ty ← pySub c "type"
  match ty with
  | .str t =>
    match ← childBranch t cp lim iq ig rs iis rt with
    | some (k, a) => pure (some (cname, k, a))
    | none => pure none
  | _ => pure none

/-- one element of a `childs[p]` list → the component (`none`: skipped) -/
def loadChild (c : PV α) : Except Err (Option (Comp α)) := do
  match ← childCall c with
  | some (n, k, a) => some <$> mkComp k n a
  | none => pure none

/-- one element of `childs[p]`: build it and attach it under `p` -/
def childStep (p : String) (st : List (Node α)) (c : PV α) : Except Err (List (Node α)) := do
  match ← loadChild c with
  | some comp => addComp st [p] false comp
  | none => pure st

/-- one `childs` entry `p: [ … ]` -/
def entryStep (st : List (Node α)) (e : String × PV α) : Except Err (List (Node α)) :=
  match e.2 with
  | .list cs => cs.foldlM (childStep e.1) st
  | _ => .error (outside "childs entry is not a list")

/-- the `childs` loop of one block -/
def loadChilds (st : List (Node α)) (childs : PV α) : Except Err (List (Node α)) :=
  match childs with
  | .dict d => d.foldlM entryStep st
  | _ => .error (outside "childs is not a dict")

/-- the component of one top-level entry after `"system"` (system.py 150-168); `first` = `e == 1`:
    the first entry becomes the Source of `System(name, source)` whatever its `type` says, later entries are
    `add_source` for a SOURCE and `add_comp(parents, PMux(…))` for anything else -/
def loadRoot (st : List (Node α)) (first : Bool) (key : String) (blk : PV α) : Except Err (List (Node α)) := do
  let zero : PV α := .float 0
  let ty ← pySub blk "type"
  let isSrc := match ty with | .str "SOURCE" => true | _ => false
  let vo ← if isSrc then getMand (← pySub blk "params") "vo" else pure zero
  let rs ← getOpt (← pySub blk "params") "rs" zero
  let lim := blockLimits blk
  if first then do
    let c ← mkComp .source key ([("vo", vo), ("rs", rs)] ++ lim)
    pure [{ comp := c, parents := [] }]
  else if isSrc then do
    let c ← mkComp .source key ([("vo", vo), ("rs", rs)] ++ lim)
    if nameTaken st key then throw (.value ("Component name \"" ++ key ++ "\" is already used!"))
    else pure (st ++ [{ comp := c, parents := [] }])
  else do
    let ig ← getOpt (← pySub blk "params") "ig" zero
    let iis ← getOpt (← pySub blk "params") "iis" zero
    let rt ← getOpt (← pySub blk "params") "rt" zero
    let par ← pySub blk "parents"
    let c ← mkComp .pmux key ([("rs", rs), ("ig", ig), ("iis", iis), ("rt", rt)] ++ lim)
    match par with
    | .list ps => addComp st (← ps.mapM strOf) true c
    | .str p => addComp st [p] false c
    | _ => throw (outside "parents is neither list nor str")

/-- one top-level entry: its component, then its `childs` (system.py 169-286) -/
def loadBlock (st : List (Node α)) (first : Bool) (key : String) (blk : PV α) : Except Err (List (Node α)) := do
  let st ← loadRoot st first key blk
  let childs ← pySub blk "childs"
  match childs with
  | .dict [] => pure st
  | _ => loadChilds st childs

/-- `if groups == {}: for key in phase_conf: groups[key] = ""` -/
def backfill (reg phaseConf : PV α) : Except Err (PV α) :=
  match reg with
  | .dict [] =>
    (match phaseConf with
     | .dict pc => .ok (.dict (pc.foldl (fun acc kv => dictSet acc kv.1 (.str "")) []))
     | _ => .error (outside "phase_conf is not a dict"))
  | r => .ok r

/-- the loop over the top-level entries after `"system"` -/
def loadBlocks (st : List (Node α)) (first : Bool) : List (String × PV α) → Except Err (List (Node α))
  | [] => pure st
  | (k, blk) :: rest => do
    let st ← loadBlock st first k blk
    loadBlocks st false rest

/-- everything after the version gate -/
def loadBody (doc : PV α) : Except Err (SysDesc α) := do
  let entries ← match doc with
    | .dict d => pure d
    | _ => throw (outside "document is not an object")
  let sysparams ← getMand doc "system"
  let sysname ← getMand sysparams "name"
  let st ← loadBlocks [] true (entries.drop 1)
  if entries.length ≤ 1 then throw (.other "UnboundLocalError")
  let phases ← getOpt sysparams "phases" (.dict [])
  let phaseConf ← getMand sysparams "phase_conf"
  let groups ← backfill (← getOpt sysparams "groups" (.dict [])) phaseConf
  let rails ← backfill (← getOpt sysparams "rails" (.dict [])) phaseConf
  pure { name := ← strOf sysname, nodes := st, phases, phaseConf, groups, rails }

/-- `System.from_file` on the parsed document; `lib = sysloss.__version__` -/
def fromFile (lib : String) (doc : PV α) : Except Err (SysDesc α) := do
  let sysparams ← getMand doc "system"
  let _ ← getMand sysparams "name"
  let ver ← getMand sysparams "version"
  versionGate lib ver
  loadBody doc

end
end SysLoss
