/-
  Model/Comp — the eleven component kinds after construction, and their three laws.

  `Comp α` is the *normalised* component (what `__init__` leaves in `_params`, `_ipr`, `_limits`);
  the constructors themselves (argument checks, sign normalisation) are `Model/Ctor.lean`.
  Each law mirrors the Python branch by branch, in the order of the source:

    solvOutpVolt  ↔ `_solv_outp_volt(vi, ii, io, phase, phase_conf, pstate)` → (vo, off-flag) or "Unstable"
    solvInpCurr   ↔ `_solv_inp_curr (vi, vo, io, phase, phase_conf, pstate)`
    solvPwrLoss   ↔ `_solv_pwr_loss (vi, vo, ii, io, ta, phase, phase_conf)`  (pstate is never passed by a caller)
    priInp        ↔ `_get_pri_inp(pstate, v)`
    initVolt / initCurr / initOff ↔ `_get_outp_voltage / _get_inp_current / _get_state`

  Phase arguments: the Python passes `(phase : str, phase_conf : dict | list)` and only ever asks
  three things of them — is the configuration non-empty, is the phase listed in it, and (loads) the
  value stored for it.  `PhaseCtx` carries exactly those three answers.
-/
import SysLoss.Model.Interp

namespace SysLoss

inductive Kind where
  | source | pload | iload | rload | rloss | vloss | converter | linreg | pswitch | pmux | rectifier
  deriving DecidableEq, Repr, Inhabited

/-- `_ComponentTypes` -/
inductive CType where
  | SOURCE | LOAD | SLOSS | CONVERTER | LINREG | PSWITCH | PMUX | RECTIFIER
  deriving DecidableEq, Repr, Inhabited

def Kind.ctype : Kind → CType
  | .source => .SOURCE
  | .pload | .iload | .rload => .LOAD
  | .rloss | .vloss => .SLOSS
  | .converter => .CONVERTER
  | .linreg => .LINREG
  | .pswitch => .PSWITCH
  | .pmux => .PMUX
  | .rectifier => .RECTIFIER

def CType.name : CType → String
  | .SOURCE => "SOURCE" | .LOAD => "LOAD" | .SLOSS => "SLOSS" | .CONVERTER => "CONVERTER"
  | .LINREG => "LINREG" | .PSWITCH => "PSWITCH" | .PMUX => "PMUX" | .RECTIFIER => "RECTIFIER"

/-- Python class name (used by the diagram's per-kind overrides) -/
def Kind.className : Kind → String
  | .source => "Source" | .pload => "PLoad" | .iload => "ILoad" | .rload => "RLoad"
  | .rloss => "RLoss" | .vloss => "VLoss" | .converter => "Converter" | .linreg => "LinReg"
  | .pswitch => "PSwitch" | .pmux => "PMux" | .rectifier => "Rectifier"

/-- `_child_types`: loads accept nothing, every other kind accepts everything but a SOURCE. -/
def Kind.acceptsChild (p : Kind) (c : CType) : Bool :=
  match p.ctype with
  | .LOAD => false
  | _ => c != .SOURCE

inductive Err where
  | unstable (comp : String)      -- ValueError("Unstable system: …")
  | value (msg : String)          -- any other ValueError
  | key (msg : String)            -- KeyError
  | type (msg : String)           -- TypeError
  | runtime (msg : String)        -- RuntimeError (no convergence)
  | other (msg : String)
  deriving Repr, DecidableEq, Inhabited

def Err.cls : Err → String
  | .unstable _ => "ValueError" | .value _ => "ValueError" | .key _ => "KeyError"
  | .type _ => "TypeError" | .runtime _ => "RuntimeError" | .other m => m

section
variable {α : Type} [Add α] [Sub α] [Mul α] [Div α] [Neg α] [LT α] [DecidableLT α]
  [OfNat α 0] [OfNat α 1] [OfNat α 2] [OfNat α 100]

/-- A constructed component: `_params` (normalised), `_ipr`, `_limits`. Unused fields are 0. -/
structure Comp (α : Type) where
  name   : String
  kind   : Kind
  vo     : α := by exact 0            -- Source, Converter, LinReg
  rs     : α := by exact 0            -- Source, RLoad, RLoss, PSwitch, PMux (scalar form), Rectifier
  rsList : Option (List α) := none    -- PMux / Rectifier list form (stored as given)
  par    : Param α                    -- `_ipr`: eff (Converter), vdrop (VLoss, diode Rectifier), ig (others)
  vdrop  : α := by exact 0            -- LinReg dropout (constant)
  iq     : α := by exact 0
  iis    : α := by exact 0
  rt     : α := by exact 0
  pwr    : α := by exact 0
  pwrs   : α := by exact 0
  ii     : α := by exact 0
  loss   : Bool := false              -- loads: count consumption as loss
  diode  : Bool := false              -- Rectifier: `_params["type"] == "diode"`
  limits : List (String × (α × α)) := []   -- `_limits` as given (only LIMITS_DEFAULT keys are ever read)
  params : List (String × PV α) := []      -- `_params` as stored (insertion order; read by params()/save())

/-- the three questions the laws ask of `(phase, phase_conf)` -/
structure PhaseCtx (α : Type) where
  hasConf : Bool      -- `bool(phase_conf)`
  listed  : Bool      -- `phase in phase_conf`
  val     : α         -- `phase_conf[phase]` (loads, only read when `listed`)

def PhaseCtx.none : PhaseCtx α := ⟨false, false, 0⟩

/-- `phase_conf and phase not in phase_conf` -/
def PhaseCtx.inactive (p : PhaseCtx α) : Bool := p.hasConf && !p.listed

/-- `_get_eff(ipwr, opwr, def_eff)` -/
def getEff (ipwr opwr deff : α) : α :=
  if 0 < ipwr then 100 * nabs (opwr / ipwr) else deff

/-- `_calc_inp_current(vo, i, pstate, 0)` -/
def calcInpCurrent (vo i : α) (off0 : Bool) : α :=
  if isZ vo || off0 then 0 else i

/-- `_get_lopt(pstate, "off", 0, False)` -/
def off0 (off : List Bool) : Bool := off.headD false

/-- PMux `_get_pri_inp(pstate, vi)`: first input that is not off and has a non-zero voltage. -/
def priInpAux : List Bool → List α → Nat → Option Nat
  | o :: os, v :: vs, k => if !o && !isZ v then some k else priInpAux os vs (k+1)
  | _, _, _ => none

def Comp.priInp (c : Comp α) (off : List Bool) (vi : List α) : Option Nat :=
  match c.kind with
  | .pmux => priInpAux off vi 0
  | _ => some 0

/-- `min(abs(vo), max(abs(vi) - vdrop, 0.0))` -/
def linregV (vo vdrop vi : α) : α := nmin (nabs vo) (nmax (nabs vi - vdrop) 0)

/-- on-resistance used by the mux for input `k` -/
def Comp.muxRs (c : Comp α) (k : Nat) : α :=
  match c.rsList with
  | some l => nabs (l.getD k 0)
  | none => c.rs

/-- value the load draws in this phase: `pwr/ii` when no configuration, the sleep value when the
    phase is not listed, else the configured value -/
def loadVal (main sleep : α) (ph : PhaseCtx α) : α :=
  if !ph.hasConf then main else if !ph.listed then sleep else ph.val

/-- `_solv_outp_volt` -/
def Comp.solvOutpVolt (c : Comp α) (vi : List α) (io : α) (ph : PhaseCtx α) (off : List Bool) :
    Except Err (α × Bool) :=
  let vi0 := vi.headD 0
  let o0 := off0 off
  match c.kind with
  | .source =>
    if ph.inactive then .ok (0, true)
    else if isZ c.vo || o0 then .ok (0, true)
    else
      let vo := c.vo - c.rs * io
      if eqB (nsign vo) (nsign c.vo) then .ok (vo, false) else .error (.unstable c.name)
  | .pload | .iload | .rload => .ok (0, o0)
  | .rloss =>
    if isZ vi0 || o0 then .ok (0, true)
    else
      let vo := vi0 - c.rs * io * nsign vi0
      if eqB (nsign vo) (nsign vi0) then .ok (vo, false) else .error (.unstable c.name)
  | .vloss =>
    if isZ vi0 || o0 then .ok (0, true)
    else
      let vo := vi0 - c.par.interp (nabs io) (nabs vi0) * nsign vi0
      if eqB (nsign vo) (nsign vi0) then .ok (vo, false) else .error (.unstable c.name)
  | .converter =>
    if isZ vi0 || o0 then .ok (0, true)
    else if ph.inactive then .ok (0, true)
    else .ok (c.vo, false)
  | .linreg =>
    if isZ vi0 || o0 then .ok (0, true)
    else
      let v := linregV c.vo c.vdrop vi0
      if ph.inactive then .ok (0, true)
      else if c.vo < 0 then .ok (-v, false) else .ok (v, false)
  | .pswitch =>
    if isZ vi0 || o0 then .ok (0, true)
    else
      let v := nabs vi0 - c.rs * io
      if ph.inactive then .ok (0, true)
      else if !(decide (0 < v)) then .error (.unstable c.name)
      else if vi0 < 0 then .ok (-v, false) else .ok (v, false)
  | .pmux =>
    match priInpAux off vi 0 with
    | none => .ok (0, true)
    | some k =>
      match (match c.rsList with
             | some l => if l.length < vi.length then none else some (nabs (l.getD k 0))
             | none => some c.rs) with
      | none => .error (.value "rs list has too few elements")
      | some r =>
        let vk := vi.getD k 0
        let v := nabs vk - r * io
        if ph.inactive then .ok (0, true)
        else if !(decide (0 < v)) then .error (.unstable c.name)
        else if vk < 0 then .ok (-v, false) else .ok (v, false)
  | .rectifier =>
    if isZ vi0 || o0 then .ok (0, true)
    else if c.diode then
      let vo := vi0 - 2 * c.par.interp (nabs io) (nabs vi0) * nsign vi0
      if eqB (nsign vo) (nsign vi0) then .ok (nabs vo, false) else .error (.unstable c.name)
    else
      match c.rsList with
      | some _ => .error (.type "can't multiply sequence by non-int of type 'float'")
      | none =>
        let v := nabs vi0 - 2 * c.rs * io
        if !(decide (0 < v)) then .error (.unstable c.name) else .ok (nabs v, false)

/-- `_solv_inp_curr` (the `vo` argument is unused by every kind) -/
def Comp.solvInpCurr (c : Comp α) (vi : List α) (io : α) (ph : PhaseCtx α) (off : List Bool) : α :=
  let vi0 := vi.headD 0
  let o0 := off0 off
  match c.kind with
  | .source => if ph.inactive then 0 else calcInpCurrent c.vo io o0
  | .pload => if isZ vi0 || o0 then 0 else loadVal c.pwr c.pwrs ph / nabs vi0
  | .iload => if isZ vi0 || o0 then 0 else nabs (loadVal c.ii c.iis ph)
  | .rload =>
    if isZ vi0 || o0 then 0
    else nabs vi0 / (if ph.hasConf && ph.listed then ph.val else c.rs)
  | .rloss | .vloss => calcInpCurrent vi0 io o0
  | .converter =>
    if isZ vi0 || isZ c.vo || o0 then 0
    else
      let ve := vi0 * c.par.interp (nabs io) (nabs vi0)
      if ph.inactive then c.iis
      else if isZ io then c.iq
      else nabs (c.vo * io / ve)
  | .linreg | .pswitch =>
    if isZ vi0 || o0 then 0
    else if ph.inactive then c.iis else io + c.par.interp (nabs io) (nabs vi0)
  | .pmux =>
    match priInpAux off vi 0 with
    | none => 0
    | some k => if ph.inactive then c.iis else io + c.par.interp (nabs io) (nabs (vi.getD k 0))
  | .rectifier =>
    if c.diode then calcInpCurrent vi0 io o0
    else calcInpCurrent vi0 (if isZ io then c.iq else io + c.par.interp (nabs io) (nabs vi0)) o0

/-- result of `_solv_pwr_loss`: (power, loss, efficiency, temperature rise, peak temperature) -/
structure PL (α : Type) where
  pwr : α
  loss : α
  eff : α
  tr : α
  tp : α

def PL.zeros (e : α) : PL α := ⟨0, 0, e, 0, 0⟩

/-- tail shared by converter / regulator / switch / mux: sleep override, thermal, efficiency -/
def finishPL (c : Comp α) (vi ii loss : α) (ph : PhaseCtx α) (ta : α) : PL α :=
  let pwr := nabs (vi * ii)
  let loss' := if ph.inactive then nabs (c.iis * vi) else loss
  let pwr' := if ph.inactive then nabs (c.iis * vi) else pwr
  let tr := loss' * c.rt
  ⟨pwr', loss', getEff pwr' (pwr' - loss') 0, tr, tr + ta⟩

/-- `_solv_pwr_loss(vi, vo, ii, io, ta, phase, phase_conf)` — `vi` is the (selected) input voltage. -/
def Comp.solvPwrLoss (c : Comp α) (vi vo ii io ta : α) (ph : PhaseCtx α) : PL α :=
  match c.kind with
  | .source =>
    if ph.inactive then PL.zeros 100
    else if isZ c.vo then PL.zeros 100
    else
      let ipwr := nabs (c.vo * io)
      let loss := c.rs * io * io
      ⟨ipwr, loss, getEff ipwr (ipwr - loss) 100, 0, 0⟩
  | .pload | .iload | .rload =>
    if isZ vi then (if c.loss then PL.zeros 0 else PL.zeros 100)
    else
      let pi := nabs (vi * ii)
      let tr := pi * c.rt
      if c.loss then ⟨0, pi, 0, tr, tr + ta⟩ else ⟨pi, 0, 100, tr, tr + ta⟩
  | .rloss =>
    let vout := vi - c.rs * io * nsign vi
    if !(eqB (nsign vout) (nsign vi)) then PL.zeros 0
    else
      let loss := nabs (vi - vout) * io
      let pwr := nabs (vi * ii)
      let tr := loss * c.rt
      ⟨pwr, loss, getEff pwr (pwr - loss) 100, tr, ta + tr⟩
  | .vloss =>
    let vout := vi - c.par.interp (nabs io) (nabs vi) * nsign vi
    if !(eqB (nsign vout) (nsign vi)) then PL.zeros 0
    else
      let loss := nabs (vi - vout) * io
      let pwr := nabs (vi * ii)
      let tr := loss * c.rt
      ⟨pwr, loss, getEff pwr (pwr - loss) 0, tr, ta + tr⟩
  | .converter =>
    if isZ vi then PL.zeros 0
    else
      let loss := if isZ io then nabs (c.iq * vi)
                  else nabs (ii * vi * (1 - c.par.interp (nabs io) (nabs vi)))
      finishPL c vi ii loss ph ta
  | .linreg =>
    if isZ vi then PL.zeros 0
    else
      let v := linregV c.vo c.vdrop vi
      let l0 := c.par.interp (nabs io) (nabs vi) * nabs vi
      let loss := if 0 < nabs io then l0 + (nabs vi - nabs v) * io else l0
      finishPL c vi ii loss ph ta
  | .pswitch | .pmux =>
    if isZ vi then PL.zeros 0
    else
      let l0 := c.par.interp (nabs io) (nabs vi) * nabs vi
      let loss := if 0 < nabs io then l0 + (nabs vi - nabs vo) * io else l0
      finishPL c vi ii loss ph ta
  | .rectifier =>
    if isZ vi then PL.zeros 0
    else if c.diode then
      let vout := vi - 2 * c.par.interp (nabs io) (nabs vi) * nsign vi
      if !(eqB (nsign vout) (nsign vi)) then PL.zeros 0
      else
        let loss := nabs (vi - vout) * io
        let pwr := nabs (vi * ii)
        let tr := loss * c.rt
        ⟨pwr, loss, getEff pwr (pwr - loss) 0, tr, ta + tr⟩
    else
      let loss := if isZ io then c.iq * nabs vi
                  else c.par.interp (nabs io) (nabs vi) * nabs vi + 2 * c.rs * (nabs io * nabs io)
      let pwr := nabs (vi * ii)
      let tr := loss * c.rt
      ⟨pwr, loss, getEff pwr (pwr - loss) 0, tr, tr + ta⟩

/-- `_get_outp_voltage(phase, phase_conf)` — initial guess of the solver -/
def Comp.initVolt (c : Comp α) (ph : PhaseCtx α) : α :=
  match c.kind with
  | .source | .converter | .linreg => if ph.inactive then 0 else c.vo
  | _ => 0

/-- `_get_inp_current(phase, phase_conf)` -/
def Comp.initCurr (c : Comp α) (ph : PhaseCtx α) : α :=
  match c.kind with
  | .iload => c.ii
  | .converter => if ph.inactive then c.iis else c.iq
  | .linreg => if ph.inactive then c.iis else c.par.interp 0 0
  | _ => 0

/-- `_get_state(phase, phase_conf)["off"][0]` -/
def Comp.initOff (c : Comp α) (ph : PhaseCtx α) : Bool :=
  match c.kind with
  | .source => isZ c.vo || ph.inactive
  | _ => false

end
end SysLoss
