/-
  Model/Batt — `System.batt_life` (system.py 1773-1885) as a state machine over a scripted battery.

  The user's two callbacks are a *script*: what `pfunc()` answers, and what the successive `dfunc(Δt, I)`
  calls answer — each either a returned `(capacity, voltage, rs)` tuple or an exception.  The solver is a
  parameter `solveI vo rs phase` = `(i[pidx], iters)` of `self._solve(phase=phase)` with the source's `_params`
  holding `vo, rs` (DEFAULT tolerances `vtol=1e-5, itol=1e-6, maxiter=10000`), or the exception `_solve` lets
  escape.  `batt_life` tests `iters > 10000` itself and raises `RuntimeError` (repair of F30, /repo aab714d).

  Statement order of the Python is kept:
    validation (`_chk_parent`, `_get_index`, `isinstance(Source)`) → save `vo_org, rs_org` → probe →
    `try:` `while bstate[0] > 0.0 and bstate[1] > cutoff:` write `vo, rs` → solve → convergence test → `deltat` →
    `dfunc` → advance phase index → conditional append → `finally:` restore `vo, rs`.
  The restore sits in a `finally` (repair of F22, /repo 366dc68): whatever leaves the loop, the Source gets its
  parameters back (`battLife.finish`).  The empty string is not a rail name (repair of F29, /repo c45789c).

  Termination: a real callback always answers, the script is finite; a script that runs out while the loop
  condition still holds ends the run with outcome `exhausted` (fuel), which the properties exclude.

  Not modelled (not observable through the API): the tqdm progress bar arithmetic (`cdelta`, `pbar`),
  `_rel_update()`.
-/
import SysLoss.Model.Comp

namespace SysLoss
namespace Batt

/-- `(capacity, voltage, rs)` as returned by both callbacks -/
structure BState (α : Type) where
  cap  : α
  volt : α
  rs   : α
  deriving Repr, DecidableEq, Inhabited

/-- one scripted callback answer -/
inductive Cb (α : Type) where
  | ret (b : BState α)
  | raise (e : Err)
  deriving Repr, Inhabited

/-- one row of the returned DataFrame: `Time (s), Capacity (Ah), Voltage (V), Resistance (Ohm)` -/
structure Row (α : Type) where
  t    : α
  cap  : α
  volt : α
  rs   : α
  deriving Repr, DecidableEq, Inhabited

def Row.state {α : Type} (r : Row α) : BState α := ⟨r.cap, r.volt, r.rs⟩

inductive Outcome where
  | ok                     -- a DataFrame is returned
  | raised (e : Err)       -- the call is left by an exception
  | exhausted              -- the script ran out (fuel) — not a behaviour of the Python
  deriving Repr, DecidableEq, Inhabited

/-- the registries `batt_life` consults: `attrs["nodes"]` (name → node, here: its kind) and
    `attrs["rails"]` (component name → rail name, `""` when none), both in insertion order -/
structure Reg where
  nodes : List (String × Kind)
  rails : List (String × String) := []
  deriving Repr, Inhabited

/-- `_chk_parent(name)`: a component name, or a non-empty rail name (a *value* of the rails dict) -/
def Reg.chkParent (r : Reg) (name : String) : Bool :=
  (r.nodes.map (·.1)).contains name || (name != "" && (r.rails.map (·.2)).contains name)

/-- `_get_index(name)`, returning the node's payload kind instead of its id:
    component name first, else (for a non-empty name) the first component whose rail is `name`; `none` = `-1` -/
def Reg.getIndex (r : Reg) (name : String) : Option (String × Kind) :=
  match r.nodes.lookup name with
  | some k => some (name, k)
  | none =>
    if name != "" then
      match r.rails.find? (fun p => p.2 == name) with
      | some (c, _) => (r.nodes.lookup c).map fun k => (c, k)
      | none => none
    else none

structure Input (α : Type) where
  reg     : Reg
  battery : String                 -- the `battery` argument
  vo      : α                      -- `_params["vo"]` of the node `battery` resolves to
  rs      : α                      -- `_params["rs"]` of that node
  cutoff  : α
  phases  : List (String × α)      -- `attrs["phases"]`, declaration order
  probe   : Cb α                   -- what `pfunc()` does
  deplete : List (Cb α)            -- what the 1st, 2nd, … `dfunc(Δt, I)` call does

structure Out (α : Type) where
  log     : List (Row α)           -- the rows of the DataFrame (meaningful when `outcome = ok`)
  calls   : List (α × α)           -- `(Δt, I)` of every `dfunc` invocation, in order (incl. one that raises)
  vo      : α                      -- `_params["vo"]` of the source after the call
  rs      : α
  outcome : Outcome
  deriving Repr

section
variable {α : Type} [Add α] [Sub α] [Mul α] [Div α] [Neg α] [LT α] [DecidableLT α]
  [OfNat α 0] [OfNat α 1] [OfNat α 10] [OfNat α 36]

/-- `bstate[0] > 0.0 and bstate[1] > cutoff` -/
def live (cutoff : α) (b : BState α) : Bool := gtB b.cap 0 && gtB b.volt cutoff

/-- `phase_list`: `[""]`, or the keys of `attrs["phases"]` when there are any -/
def phaseList (phases : List (String × α)) : List String :=
  if phases.isEmpty then [""] else phases.map (·.1)

/-- `deltat` of one loop iteration (`3.6` is written `36/10`; the same double at `Float`) -/
def deltaT (phases : List (String × α)) (cap0 i : α) (phase : String) : α :=
  if phaseList phases == [""] then (cap0 / i) * ((36 : α) / 10)
  else match phases.lookup phase with          -- `self._g.attrs["phases"][phase_list[phidx]]`
    | some d => d
    | none => 0                                -- unreachable: `phase` is a key

/-- what the depletion loop leaves behind from some iteration on -/
structure Tail (α : Type) where
  rows    : List (Row α)           -- rows appended from here on
  calls   : List (α × α)           -- deplete calls made from here on
  vo      : α                      -- the source's parameters when the loop is left
  rs      : α
  outcome : Outcome

/-- The `while` loop.  Arguments after the script: `bstate`, `phidx`, `t[-1]`, and the source's present
    `vo, rs`.  `cap0 = cap[0]` is the probed capacity. -/
def loop (cutoff cap0 : α) (phases : List (String × α)) (solveI : α → α → String → Except Err (α × Nat)) :
    List (Cb α) → BState α → Nat → α → α → α → Tail α
  | script, b, phidx, tlast, vo, rs =>
    if live cutoff b then
      -- self._g[pidx]._params["vo"] = bstate[1];  self._g[pidx]._params["rs"] = bstate[2]
      let phase := (phaseList phases).getD phidx ""
      match solveI b.volt b.rs phase with
      | .error e => ⟨[], [], b.volt, b.rs, .raised e⟩
      | .ok (i, iters) =>
        if iters > 10000 then
          ⟨[], [], b.volt, b.rs, .raised (.runtime "Steady-state not achieved")⟩
        else
        let dt := deltaT phases cap0 i phase
        match script with
        | [] => ⟨[], [], b.volt, b.rs, .exhausted⟩
        | .raise e :: _ => ⟨[], [(dt, i)], b.volt, b.rs, .raised e⟩
        | .ret b' :: rest =>
          let phidx' := (phidx + 1) % (phaseList phases).length
          if live cutoff b' then
            let r := loop cutoff cap0 phases solveI rest b' phidx' (tlast + dt) b.volt b.rs
            ⟨⟨tlast + dt, b'.cap, b'.volt, b'.rs⟩ :: r.rows, (dt, i) :: r.calls, r.vo, r.rs, r.outcome⟩
          else
            let r := loop cutoff cap0 phases solveI rest b' phidx' tlast b.volt b.rs
            ⟨r.rows, (dt, i) :: r.calls, r.vo, r.rs, r.outcome⟩
    else ⟨[], [], vo, rs, .ok⟩

/-- what follows the loop: `finally: # restore source params` runs however the loop was left -/
def battLife.finish (voOrg rsOrg : α) (row0 : Row α) (r : Tail α) : Out α :=
  ⟨row0 :: r.rows, r.calls, voOrg, rsOrg, r.outcome⟩

/-- `System.batt_life(battery, cutoff=…, pfunc=…, dfunc=…)` -/
def battLife (inp : Input α) (solveI : α → α → String → Except Err (α × Nat)) : Out α :=
  if !inp.reg.chkParent inp.battery then
    ⟨[], [], inp.vo, inp.rs, .raised (.value ("Parent name \"" ++ inp.battery ++ "\" not found!"))⟩
  else match inp.reg.getIndex inp.battery with
  | none => ⟨[], [], inp.vo, inp.rs, .raised (.other "IndexError")⟩     -- unreachable after `_chk_parent`
  | some (_, k) =>
    if k != Kind.source then ⟨[], [], inp.vo, inp.rs, .raised (.value "Battery must be a source!")⟩
    else
      -- vo_org, rs_org = …
      match inp.probe with
      | .raise e => ⟨[], [], inp.vo, inp.rs, .raised e⟩
      | .ret b0 =>
        let r := loop inp.cutoff b0.cap inp.phases solveI inp.deplete b0 0 0 inp.vo inp.rs
        battLife.finish inp.vo inp.rs ⟨0, b0.cap, b0.volt, b0.rs⟩ r

end
end Batt
end SysLoss
