/-
  Spec/Phys — "accepted, physically meaningful parameters": what property C11 promises about every
  component a constructor returns (magnitudes non-negative, 0 < eff ≤ 1, dropout below |vo|, R ≠ 0).
-/
import SysLoss.Model.Comp

namespace SysLoss
section
variable {α : Type} [Add α] [Sub α] [Mul α] [Div α] [Neg α] [LT α] [LE α] [DecidableLT α]
  [OfNat α 0] [OfNat α 1] [OfNat α 2] [OfNat α 100]

/-- every value a table / constant parameter can return is ≥ 0 -/
def Param.Nonneg (p : Param α) : Prop := ∀ x y, (0 : α) ≤ p.interp x y

structure Comp.Phys (c : Comp α) : Prop where
  rs    : (0 : α) ≤ c.rs
  rsl   : ∀ k, (0 : α) ≤ c.muxRs k      -- list form: entries are stored as given and used in magnitude
  vdrop : (0 : α) ≤ c.vdrop
  iq    : (0 : α) ≤ c.iq
  iis   : (0 : α) ≤ c.iis
  rt    : (0 : α) ≤ c.rt
  pwr   : (0 : α) ≤ c.pwr
  pwrs  : (0 : α) ≤ c.pwrs
  ii    : (0 : α) ≤ c.ii
  par   : c.par.Nonneg
  eff   : c.kind = .converter → ∀ x y, (0 : α) < c.par.interp x y ∧ c.par.interp x y ≤ 1
  drop  : c.kind = .linreg → c.vdrop < nabs c.vo
  rload : c.kind = .rload → (0 : α) < c.rs

end
end SysLoss
