/-
  Spec/Batt — the vocabulary in which the battery-life properties (C18, C17 clause 3) are stated.
  Readable counterparts of what `Model/Batt.loop` computes; no recursion over the loop itself.
-/
import SysLoss.Model.Batt

namespace SysLoss
namespace Batt

section
variable {α : Type}

/-- the states the deplete script returns before its first exception -/
def rets : List (Cb α) → List (BState α)
  | .ret b :: r => b :: rets r
  | _ => []

/-- the battery state the `k`-th solve / deplete call (counted from 0) starts from:
    the probed state for `k = 0`, else what the `(k-1)`-th deplete call returned -/
def stateBefore (p : BState α) (script : List (Cb α)) : Nat → Option (BState α)
  | 0 => some p
  | k + 1 => match script[k]? with
    | some (.ret b) => some b
    | _ => none

/-- `battery` names a Source: it is the name of one, or the (non-empty) rail name of one -/
def NamesSource (r : Reg) (name : String) : Prop :=
  ∃ c, (c, Kind.source) ∈ r.nodes ∧ (name = c ∨ (name ≠ "" ∧ (c, name) ∈ r.rails))

/-- each time is the previous one plus the matching duration: `ts[j] = (t0 if j = 0 else ts[j-1]) + ds[j]`
    (and there is a duration for every time) -/
def TimeChain [Add α] (t0 : α) : List α → List α → Prop
  | [], _ => True
  | t :: ts, d :: ds => t = t0 + d ∧ TimeChain t ts ds
  | _ :: _, [] => False

/-- every component in the rails registry is a registered node (a `System` invariant) -/
def Reg.RailsKnown (r : Reg) : Prop := ∀ p ∈ r.rails, (r.nodes.lookup p.1).isSome = true

end

section
variable {α : Type} [Add α] [Sub α] [Mul α] [Div α] [Neg α] [LT α] [DecidableLT α]
  [OfNat α 0] [OfNat α 1] [OfNat α 10] [OfNat α 36]

/-- the phase the `k`-th step is solved in: declared order, cycling; `""` without phases -/
def phaseAt (phases : List (String × α)) (k : Nat) : String :=
  match phases[k % phases.length]? with
  | some p => p.1
  | none => ""

/-- the duration handed to the `k`-th deplete call, given the solved current `i`:
    the duration of phase `k mod n`; without phases the time to draw `cap₀/1000` Ah at `i` A -/
def stepTime (phases : List (String × α)) (cap0 i : α) (k : Nat) : α :=
  match phases[k % phases.length]? with
  | some p => p.2
  | none => (cap0 / i) * ((36 : α) / 10)

/-- the loop condition as a proposition -/
def Live (cutoff : α) (b : BState α) : Prop := 0 < b.cap ∧ cutoff < b.volt

end
end Batt
end SysLoss
