/-
  Spec/Laws — the documented transfer laws of the eleven component kinds, as one short table.

  Written from the class docstrings and the statement of property C01, *not* from the solver code:
  no off-flags, no exceptions, no iteration.  Voltages carry the polarity, currents and powers are
  magnitudes, every resistance / drop / quiescent current is used in magnitude.

    specVo c vin io ph   : output voltage from (input voltage, output current)
    specIi c vin io ph   : input current  from (input voltage, output current)

  For a Source `vin` is ignored (its "input" is its own EMF `vo`); for a PMux `vin` is the voltage of
  the selected input and `rsel` its on-resistance.
-/
import SysLoss.Model.Comp

namespace SysLoss
section
variable {α : Type} [Add α] [Sub α] [Mul α] [Div α] [Neg α] [LT α] [DecidableLT α]
  [OfNat α 0] [OfNat α 1] [OfNat α 2] [OfNat α 100]

/-- documented output voltage -/
def specVo (c : Comp α) (rsel : α) (vin io : α) (ph : PhaseCtx α) : α :=
  match c.kind with
  | .source => if ph.inactive || isZ c.vo then 0 else c.vo - nsign c.vo * (nabs c.rs * io)
  | .pload | .iload | .rload => 0
  | .rloss => vin - nsign vin * (nabs c.rs * io)
  | .vloss => vin - nsign vin * c.par.interp (nabs io) (nabs vin)
  | .converter => if isZ vin || ph.inactive then 0 else c.vo
  | .linreg =>
    if isZ vin || ph.inactive then 0
    else nsign c.vo * nmin (nabs c.vo) (nmax (nabs vin - nabs c.vdrop) 0)
  | .pswitch => if isZ vin || ph.inactive then 0 else nsign vin * (nabs vin - nabs c.rs * io)
  | .pmux => if isZ vin || ph.inactive then 0 else nsign vin * (nabs vin - nabs rsel * io)
  | .rectifier =>
    if isZ vin then 0
    else if c.diode then nabs vin - 2 * c.par.interp (nabs io) (nabs vin)
    else nabs vin - 2 * (nabs c.rs * io)

/-- documented input current -/
def specIi (c : Comp α) (vin io : α) (ph : PhaseCtx α) : α :=
  match c.kind with
  | .source => if ph.inactive || isZ c.vo then 0 else io
  | .pload => if isZ vin then 0 else loadVal c.pwr c.pwrs ph / nabs vin
  | .iload => if isZ vin then 0 else nabs (loadVal c.ii c.iis ph)
  | .rload => if isZ vin then 0 else nabs vin / (if ph.hasConf && ph.listed then ph.val else c.rs)
  | .rloss | .vloss => if isZ vin then 0 else io
  | .converter =>
    if isZ vin || isZ c.vo then 0
    else if ph.inactive then nabs c.iis
    else if isZ io then nabs c.iq
    else nabs (c.vo * io / (vin * c.par.interp (nabs io) (nabs vin)))
  | .linreg | .pswitch | .pmux =>
    if isZ vin then 0
    else if ph.inactive then nabs c.iis
    else io + c.par.interp (nabs io) (nabs vin)
  | .rectifier =>
    if isZ vin then 0
    else if c.diode then io
    else if isZ io then nabs c.iq
    else io + c.par.interp (nabs io) (nabs vin)

/-- "keeps its polarity": the element's documented output has the sign of its input and does not
    exceed it in magnitude (passive series elements) -/
def keepsPolarity (vin vout : α) : Bool :=
  (eqB (nsign vout) (nsign vin) || isZ vin) && leB (nabs vout) (nabs vin)

end
end SysLoss
