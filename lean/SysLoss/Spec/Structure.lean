/-
  Spec/Structure — the name-keyed view a user has of a `System`, and what "well-formed" means (C14).

  `abs s` forgets node indices, the index allocator and `attrs["pnames"]`: what is left is, per live
  component, its object, the components feeding it (name and kind), its ordered inputs as the solver and
  `save()` see them (`_get_parents` — for a component with several inputs the names recorded at `add_comp`
  time, resolved again through `_get_index`), whether its own name still addresses it; plus the
  `groups / rails / phase_conf` dictionaries and the key set of `nodes` exactly as `save()` shows them
  (stale keys included), and the system phases.

  `WF` is the conjunction of C14's clauses; every clause is decidable, `failing` names the broken ones.
-/
import SysLoss.Model.Graph

namespace SysLoss

/-- one live component as the user sees it -/
structure AEntry (π : Type) where
  name    : String
  comp    : π
  /-- the components with a link into this one (name, kind) -/
  preds   : List (String × Kind)
  /-- ordered inputs (`_get_parents`); `none` = a recorded input name that no longer resolves (`-1`) -/
  parents : List (Option String)
  /-- `attrs["nodes"][name]` is this component -/
  addressable : Bool

structure AStruct (π ν : Type) where
  sysname   : String
  comps     : List (AEntry π)
  nodesKeys : List String
  groups    : List (String × String)
  rails     : List (String × String)
  phaseConf : List (String × PhaseConf ν)
  phases    : List (String × ν)

section
variable {π ν : Type} [CompLike π]

namespace Sys

def nameOf (s : Sys π ν) (n : Nat) : Option String := (s.payload? n).map nameOfC

def predInfo (s : Sys π ν) (n : Nat) : List (String × Kind) :=
  (s.preds n).filterMap fun q => (s.payload? q).map fun c => (nameOfC c, kindOfC c)

def absEntry (s : Sys π ν) (p : Nat × π) : AEntry π :=
  { name := nameOfC p.2
    comp := p.2
    preds := s.predInfo p.1
    parents := match s.parentsOf p.1 with
               | .ok l => l.map fun o => o.bind s.nameOf
               | .error _ => [none]
    addressable := decide (dget s.nodes (nameOfC p.2) = some p.1) }

/-- the abstraction function -/
def abs (s : Sys π ν) : AStruct π ν :=
  { sysname := s.name
    comps := s.comps.map s.absEntry
    nodesKeys := dkeys s.nodes
    groups := s.groups
    rails := s.rails
    phaseConf := s.phaseConf
    phases := s.phases }

end Sys

namespace AEntry
def kind (e : AEntry π) : Kind := kindOfC e.comp
end AEntry

namespace AStruct
variable (a : AStruct π ν)

def names : List String := a.comps.map (·.name)
/-- the rail names in use (`""` = no rail) -/
def railNames : List String := (dvals a.rails).filter (fun r => decide (r ≠ ""))

/-- same key set -/
def sameKeys (ks : List String) : Prop := (∀ x ∈ ks, x ∈ a.names) ∧ (∀ x ∈ a.names, x ∈ ks)

/-! C14, clause by clause -/
def namesDistinct : Prop := a.names.Nodup
def railsDistinct : Prop := a.railNames.Nodup
def namesRailsDisjoint : Prop := ∀ x ∈ a.names, x ∉ a.railNames
def rootsAreSources : Prop := ∀ e ∈ a.comps, (e.preds = [] ↔ e.kind = .source)
def loadsChildless : Prop := ∀ e ∈ a.comps, ∀ p ∈ e.preds, p.2.ctype ≠ .LOAD
def onlyMuxMulti : Prop := ∀ e ∈ a.comps, 1 < e.preds.length → e.kind = .pmux
def oneMux : Prop := (a.comps.filter (fun e => decide (e.kind = .pmux))).length ≤ 1
/-- every link is one `add_comp` would accept: the child's type is among the parent's `_child_types` -/
def linksAccepted : Prop := ∀ e ∈ a.comps, ∀ p ∈ e.preds, p.2.acceptsChild e.kind.ctype = true
/-- the registries have exactly the live names as keys, and each name addresses its component -/
def registriesExact : Prop :=
  a.sameKeys a.nodesKeys ∧ a.sameKeys (dkeys a.groups) ∧ a.sameKeys (dkeys a.rails) ∧
  a.sameKeys (dkeys a.phaseConf) ∧ ∀ e ∈ a.comps, e.addressable = true
/-- the recorded inputs of a multi-input component resolve to components that feed it, each of them once -/
def inputsResolve : Prop :=
  ∀ e ∈ a.comps, 1 < e.preds.length →
    (∀ x ∈ e.parents, ∃ p, x = some p ∧ p ∈ e.preds.map (·.1)) ∧ e.parents.Nodup

instance : Decidable a.namesDistinct := by unfold namesDistinct; infer_instance
instance : Decidable a.railsDistinct := by unfold railsDistinct; infer_instance
instance : Decidable a.namesRailsDisjoint := by unfold namesRailsDisjoint; infer_instance
instance : Decidable a.rootsAreSources := by unfold rootsAreSources; infer_instance
instance : Decidable a.loadsChildless := by unfold loadsChildless; infer_instance
instance : Decidable a.onlyMuxMulti := by unfold onlyMuxMulti; infer_instance
instance : Decidable a.oneMux := by unfold oneMux; infer_instance
instance : Decidable a.linksAccepted := by unfold linksAccepted; infer_instance
instance (ks : List String) : Decidable (a.sameKeys ks) := by unfold sameKeys; infer_instance
instance : Decidable a.registriesExact := by unfold registriesExact; infer_instance

instance : Decidable a.inputsResolve := by
  unfold inputsResolve
  have : ∀ (e : AEntry π) (x : Option String),
      Decidable (∃ p, x = some p ∧ p ∈ e.preds.map (·.1)) := fun e x =>
    match x with
    | none => isFalse (by simp)
    | some q => decidable_of_iff (q ∈ e.preds.map (·.1)) (by simp)
  infer_instance

/-- C14's well-formedness -/
def WF : Prop :=
  a.namesDistinct ∧ a.railsDistinct ∧ a.namesRailsDisjoint ∧ a.rootsAreSources ∧ a.loadsChildless ∧
  a.onlyMuxMulti ∧ a.oneMux ∧ a.linksAccepted ∧ a.registriesExact ∧ a.inputsResolve

instance : Decidable a.WF := by unfold WF; infer_instance

/-- names of the clauses that do not hold -/
def failing : List String :=
  [("names_distinct", decide a.namesDistinct), ("rails_distinct", decide a.railsDistinct),
   ("names_rails_disjoint", decide a.namesRailsDisjoint), ("roots_are_sources", decide a.rootsAreSources),
   ("loads_childless", decide a.loadsChildless), ("only_mux_multi_parent", decide a.onlyMuxMulti),
   ("one_mux", decide a.oneMux), ("links_accepted", decide a.linksAccepted),
   ("registries_exact", decide a.registriesExact), ("inputs_resolve", decide a.inputsResolve)].filterMap
    fun p => if p.2 then none else some p.1

end AStruct
end
end SysLoss
