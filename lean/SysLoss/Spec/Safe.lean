/-
  Spec/Safe — the (state, call) patterns for which C14 / C15 are FALSE for system.py as it stands,
  as decidable predicates.  `Safe s op` holds iff the call `op` in state `s` is none of them:

    F16  change_comp to a component that does not accept the children already attached (e.g. to a load)
    F17  change_comp with unchanged name (`_chk_name` skipped) and a rail that is in use / equals a name
    F18  change_comp that renames (or re-rails) an input of a multi-input component: `pnames` keeps the old name
    F32  change_comp of a non-mux to a PMux while another PMux exists (the single-mux rule is only in add_comp)
    F19  del_comp(x, del_childs=False) where a child of x keeps several inputs: `pnames` keeps x
    F20  del_comp(<rail name>): `_get_index` resolves the rail, the node is removed, `del nodes[name]` raises KeyError
    F21  set_comp_phases(<rail name>): stored under the rail name
    F33  System(name, source, rail=<source's own name>)  (`SafeInit`)

  `Safe15` is the part that matters for "a rejected call changes nothing" (C15): F20 only.
-/
import SysLoss.Model.Graph

namespace SysLoss
section
variable {π ν : Type} [CompLike π]

namespace Sys

/-- the recorded input names `_get_parents` consults for node `n` (none unless `n` has several predecessors) -/
def consulted (s : Sys π ν) (n : Nat) : List String :=
  if 1 < (s.preds n).length then ((dget s.pnames n).getD []).take (s.preds n).length else []

/-- the kinds of the components fed by node `t` -/
def childKinds (s : Sys π ν) (t : Nat) : List Kind :=
  (s.succs t).filterMap fun k => (s.payload? k).map kindOfC

/-- `x` is a component name, or does not resolve at all (i.e. it is not *only* a rail name) -/
def byName (s : Sys π ν) (x : String) : Prop := x ∈ dkeys s.nodes ∨ s.getIndex x = .ok none

instance (s : Sys π ν) (x : String) : Decidable (s.byName x) := by unfold byName; infer_instance

/-- F16: the new component accepts every child already attached to node `t` -/
def SafeF16 (s : Sys π ν) (t : Nat) (c : π) : Prop :=
  ∀ kk ∈ s.childKinds t, (kindOfC c).acceptsChild kk.ctype = true

/-- F17: with an unchanged name the new rail must still be unused by anything else -/
def SafeF17 (s : Sys π ν) (x : String) (c : π) (rail : String) : Prop :=
  nameOfC c = x → effRail c rail = "" ∨
    (effRail c rail ≠ x ∧ effRail c rail ∉ dkeys s.nodes ∧ effRail c rail ∉ dvals (ddel s.rails x))

/-- F18: whatever a multi-input component recorded for this input keeps resolving to it -/
def SafeF18 (s : Sys π ν) (t : Nat) (x : String) (c : π) (rail : String) : Prop :=
  ∀ m ∈ s.ids, ∀ e ∈ s.consulted m, s.getIndex e = .ok (some t) →
    (e = x → nameOfC c = x) ∧ (e ≠ x → effRail c rail = e)

/-- F32: no second PMux -/
def SafeF32 (s : Sys π ν) (t : Nat) (c : π) : Prop :=
  kindOfC c = .pmux → ∀ p ∈ s.comps, p.1 ≠ t → kindOfC p.2 ≠ .pmux

instance (s : Sys π ν) (t : Nat) (c : π) : Decidable (s.SafeF16 t c) := by unfold SafeF16; infer_instance
instance (s : Sys π ν) (x : String) (c : π) (r : String) : Decidable (s.SafeF17 x c r) := by
  unfold SafeF17; infer_instance
instance (s : Sys π ν) (t : Nat) (x : String) (c : π) (r : String) : Decidable (s.SafeF18 t x c r) := by
  unfold SafeF18; infer_instance
instance (s : Sys π ν) (t : Nat) (c : π) : Decidable (s.SafeF32 t c) := by unfold SafeF32; infer_instance

/-- the conditions on `change_comp(x, comp=c, rail=rail)` where `x` is node `t` -/
def SafeChangeAt (s : Sys π ν) (t : Nat) (x : String) (c : π) (rail : String) : Prop :=
  s.SafeF16 t c ∧ s.SafeF17 x c rail ∧ s.SafeF18 t x c rail ∧ s.SafeF32 t c

instance (s : Sys π ν) (t : Nat) (x : String) (c : π) (rail : String) :
    Decidable (s.SafeChangeAt t x c rail) := by unfold SafeChangeAt; infer_instance

def SafeChange (s : Sys π ν) (x : String) (c : π) (rail : String) : Prop :=
  match dget s.nodes x with
  | none => True
  | some t => s.SafeChangeAt t x c rail

instance (s : Sys π ν) (x : String) (c : π) (rail : String) : Decidable (s.SafeChange x c rail) := by
  unfold SafeChange; split <;> infer_instance

/-- F19: deleting node `t` without its children leaves no child with several inputs -/
def SafeRelink (s : Sys π ν) (t : Nat) : Prop :=
  ∀ c ∈ s.succs t, 1 < (s.preds c).length →
    ∀ q ∈ s.preds c, q = t ∨ (s.parentsOf t).toOption.bind List.head? = some (some q)

instance (s : Sys π ν) (t : Nat) : Decidable (s.SafeRelink t) := by unfold SafeRelink; infer_instance

def SafeDel (s : Sys π ν) (x : String) (delChilds : Bool) : Prop :=
  -- F20: addressed by component name
  s.byName x ∧
  -- F19
  (delChilds = false → match dget s.nodes x with | none => True | some t => s.SafeRelink t)

instance (s : Sys π ν) (x : String) (d : Bool) : Decidable (s.SafeDel x d) := by
  unfold SafeDel
  have : Decidable (match dget s.nodes x with | none => True | some t => s.SafeRelink t) := by
    split <;> infer_instance
  infer_instance

/-- the call is none of the patterns for which C14 fails today -/
def Safe (s : Sys π ν) : Op π ν → Prop
  | .changeComp x c _ r => s.SafeChange x c r
  | .delComp x d => s.SafeDel x d
  | .setCompPhases x _ => s.byName x
  | _ => True

instance (s : Sys π ν) (op : Op π ν) : Decidable (s.Safe op) := by
  cases op <;> unfold Safe <;> infer_instance

/-- the call is not the pattern for which C15 fails today (F20) -/
def Safe15 (s : Sys π ν) : Op π ν → Prop
  | .delComp x _ => s.byName x
  | _ => True

instance (s : Sys π ν) (op : Op π ν) : Decidable (s.Safe15 op) := by
  cases op <;> unfold Safe15 <;> infer_instance

/-- every call of the history is safe in the state it is made in -/
def SafeHist (s : Sys π ν) : List (Op π ν) → Prop
  | [] => True
  | op :: ops => s.Safe op ∧ SafeHist (s.step op).1 ops

instance : (s : Sys π ν) → (ops : List (Op π ν)) → Decidable (s.SafeHist ops)
  | _, [] => isTrue trivial
  | s, op :: ops =>
    have := instDecidableSafeHist (s.step op).1 ops
    by unfold SafeHist; infer_instance

/-- every call of the history is `Safe15` in the state it is made in -/
def Safe15Hist (s : Sys π ν) : List (Op π ν) → Prop
  | [] => True
  | op :: ops => s.Safe15 op ∧ Safe15Hist (s.step op).1 ops

instance : (s : Sys π ν) → (ops : List (Op π ν)) → Decidable (s.Safe15Hist ops)
  | _, [] => isTrue trivial
  | s, op :: ops =>
    have := instDecidableSafe15Hist (s.step op).1 ops
    by unfold Safe15Hist; infer_instance

/-- F33: the constructor does not call `_chk_name` -/
def SafeInit (src : π) (rail : String) : Prop := rail = "" ∨ rail ≠ nameOfC src

instance (src : π) (rail : String) : Decidable (SafeInit src rail) := by unfold SafeInit; infer_instance

/-- F34: `add_comp(parent=[])` raises `IndexError` (`pidx[0]`), not `ValueError` -/
def SafeErr : Op π ν → Prop
  | .addComp (.many []) _ _ _ => False
  | _ => True

/-- which known pattern(s) the call falls under (for the driver's report) -/
def unsafeWhy (s : Sys π ν) (op : Op π ν) : List String :=
  match op with
  | .changeComp x c _ r =>
    match dget s.nodes x with
    | none => []
    | some t =>
      (if decide (s.SafeF16 t c) then [] else ["F16"]) ++ (if decide (s.SafeF17 x c r) then [] else ["F17"]) ++
      (if decide (s.SafeF18 t x c r) then [] else ["F18"]) ++ (if decide (s.SafeF32 t c) then [] else ["F32"])
  | .delComp x d =>
    (if decide (s.byName x) then [] else ["F20"]) ++
    (if decide (s.SafeDel x d) || !decide (s.byName x) then [] else ["F19"])
  | .setCompPhases x _ => if decide (s.byName x) then [] else ["F21"]
  | _ => []

end Sys
end
end SysLoss
