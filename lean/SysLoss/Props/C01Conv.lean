/-
  Props/C01Conv — C01 ∘ C03: every row of a table that `solve()` actually returns obeys the documented law
  of its component *within the solver's exit tolerance* (and exactly at an exact steady state).

  This composes, for the EXISTING model definitions (`SSys.solvePhase`, `SSys.compRow`):
    C03.solvePhase_sound            what is returned is a triple on which the exit test fired,
    C16.fwdProp/backProp_pointwise  cell n of the extra sweep is `fwdAt n` / `backAt n`,
    C01.sweep_args_are_row, row_linkage, row_root   the sweeps feed the laws the row's own cells,
    C01.volt_refines_spec_partial, curr_refines_spec, C05.mux_curr   the sweeps' laws are the documented ones.

  Delivered
   1. `converged_iff` (`isClose_iff`, `allClose_get`, `allClose_iff`): the exit test, cell by cell:
      `|v n − v' n| ≤ atol + vtol·|v' n|`, `|i n − i' n| ≤ atol + itol·|i' n|` (new iterate = reference).
      `solvePhase_sizes`, `solvePhase_exit`: the returned vectors have `hidx` cells and satisfy those bounds
      against `v' = fwdProp v i st`, `i' = backProp v' i st` (NEW voltages, OLD currents, OLD flags).
   2. `solve_row_voltage_law`: listed node, single unflagged supply, `Phys`, kind ∉ {Source, PMux}:
      the row shows `(Vin, Vout, Iout)` with `|Vout − specVo(Vin, Iout)| ≤ atol + vtol·|specVo(Vin, Iout)|`.
      (Sources never have a supply in a system `_rel_update` produces; roots are treated in 5.)
   3. `solve_row_current_law`: `|Iin − specIi(Vin', Iout')| ≤ atol + itol·|specIi(Vin', Iout')|` where
      `Vin' = v' p` is the once-more-swept supply voltage, `|Vin − Vin'| ≤ atol + vtol·|Vin'|`, and
      `Iout' = ioOf … v' …` is the child-current sum under the mux selections induced by `v'`.
      `Iout' =` the row's `Iout` whenever no child is a multi-input mux (`NoMuxChild`; last conjunct, and
      `solve_row_current_law_rowIout_partial`).  NOT proved (and not true in general): the bound with the
      row's own `Vin` — that needs a Lipschitz constant of the law in `Vin`; nor with the row's `Iout` below a
      node that feeds a multi-input mux whose selection differs between `v` and `v'` (possible only when an
      input voltage is within `atol` of 0).
   4. `steady_row_exact`: at an exact fixed point both laws hold exactly at the row's own `(Vin, Iout)`.
   5. `solve_source_row_voltage_law_partial` (hypothesis `0 ≤ vo ∨ rs = 0 ∨ Io = 0`, finding F01;
      `solve_source_row_voltage_law_full_fails` is the witness Source(−12, rs 1) → ILoad(1)) and
      `solve_source_row_current_law` (no exclusion).  For a root row the law's `Io` is the children's sum
      `ioOf … r.v …`; the row's `Iout` cell is the source's own current cell `i[n]`, which the current
      theorem ties to the children's sum within `itol`.
   6. `solve_mux_row_laws` (`mux_volt_eq`, `mux_row_cells`): the mux row, any number of inputs, active or
      sleeping, with the selected input explicit (row-level selection `k` for the voltage law, the selection
      `k'` under `v'` for the current law — they may differ only if an input is within `atol` of 0 V).
  Not covered: flagged supplies (`sget st p = true`: C04 territory — the row is 0 V / 0 A), non-`Phys`
  parameters, and liveness (that `solvePhase` returns at all: C03).
-/
import SysLoss.Props.C01
import SysLoss.Props.C03
import SysLoss.Props.C05
import SysLoss.Props.C16Sweep
import Mathlib.Tactic.NormNum

set_option linter.unusedSectionVars false
set_option linter.unusedVariables false

namespace SysLoss
namespace C01
variable {α : Type} [Field α] [LinearOrder α] [IsStrictOrderedRing α]

/-! ### 1. what the exit test says, cell by cell -/

theorem isClose_iff (atol rtol a b : α) :
    isClose atol rtol a b = true ↔ |a - b| ≤ atol + rtol * |b| := by
  unfold isClose; rw [leB_iff, nabs_eq_abs, nabs_eq_abs]

/-- `np.allclose` fired ⇒ every index present in both vectors passes the element test -/
theorem allClose_get (atol rtol : α) : ∀ (as bs : List α), allClose atol rtol as bs = true →
    ∀ n (h1 : n < as.length) (h2 : n < bs.length), |as[n] - bs[n]| ≤ atol + rtol * |bs[n]| := by
  intro as
  induction as with
  | nil => intro bs _ n h1; simp at h1
  | cons a as ih =>
    intro bs h n h1 h2
    cases bs with
    | nil => simp at h2
    | cons b bs =>
      unfold allClose at h
      simp only [List.zipWith_cons_cons, List.all_cons, id_eq, Bool.and_eq_true, isClose_iff] at h
      cases n with
      | zero => simpa using h.1
      | succ m =>
        have := ih bs h.2 m (by simpa using h1) (by simpa using h2)
        simpa using this

theorem allClose_iff (atol rtol : α) : ∀ (as bs : List α), as.length = bs.length →
    (allClose atol rtol as bs = true ↔
      ∀ n (h1 : n < as.length) (h2 : n < bs.length), |as[n] - bs[n]| ≤ atol + rtol * |bs[n]|) := by
  intro as bs hl
  refine ⟨allClose_get atol rtol as bs, ?_⟩
  induction as generalizing bs with
  | nil => intro _; cases bs <;> simp [allClose]
  | cons a as ih =>
    cases bs with
    | nil => simp at hl
    | cons b bs =>
      intro h
      unfold allClose
      simp only [List.zipWith_cons_cons, List.all_cons, id_eq, Bool.and_eq_true, isClose_iff]
      refine ⟨h 0 (by simp) (by simp), ?_⟩
      have := ih bs (by simpa using hl) (fun n h1 h2 =>
        h (n + 1) (by simpa using h1) (by simpa using h2))
      simpa [allClose] using this

theorem vget_toList (v : Vec α) (n : Nat) (h : n < v.toList.length) : v.toList[n] = vget v n := by
  have h' : n < v.size := by simpa using h
  unfold vget
  simp [Array.getD_eq_getD_getElem?, h']

/-- **Exit test, cell by cell** (`allClose_iff` for the solver's vectors).  With equally long vectors the
    exit test of `_solve` fires iff every voltage cell satisfies `|v − v'| ≤ atol + vtol·|v'|` and every
    current cell `|i − i'| ≤ atol + itol·|i'|` (numpy's argument order: the *new* iterate is the reference). -/
theorem converged_iff (cfg : Cfg α) (v v' i i' : Vec α) (hv : v.size = v'.size) (hi : i.size = i'.size) :
    converged cfg v v' i i' = true ↔
      (∀ n, n < v.size → |vget v n - vget v' n| ≤ cfg.atol + cfg.vtol * |vget v' n|) ∧
      (∀ n, n < i.size → |vget i n - vget i' n| ≤ cfg.atol + cfg.itol * |vget i' n|) := by
  unfold converged
  rw [Bool.and_eq_true, allClose_iff _ _ _ _ (by simpa using hv), allClose_iff _ _ _ _ (by simpa using hi)]
  constructor
  · rintro ⟨h1, h2⟩
    refine ⟨fun n hn => ?_, fun n hn => ?_⟩
    · have := h1 n (by simpa using hn) (by simpa [← hv] using hn)
      rwa [vget_toList, vget_toList] at this
    · have := h2 n (by simpa using hn) (by simpa [← hi] using hn)
      rwa [vget_toList, vget_toList] at this
  · rintro ⟨h1, h2⟩
    refine ⟨fun n hn hn' => ?_, fun n hn hn' => ?_⟩
    · rw [vget_toList, vget_toList]; exact h1 n (by simpa using hn)
    · rw [vget_toList, vget_toList]; exact h2 n (by simpa using hn)

/-! ### 2. the returned vectors have one cell per node id -/

theorem node?_some_lt (s : SSys α) (n : Nat) (nd : SNode α) (h : s.node? n = some nd) : n < s.hidx := by
  unfold SSys.node? at h
  unfold SSys.hidx
  by_contra hlt
  rw [Array.getD_eq_getD_getElem?, Array.getElem?_eq_none (Nat.le_of_not_lt hlt)] at h
  simp at h

theorem init_sizes (s : SSys α) (phase : String) :
    (s.init phase).1.size = s.hidx ∧ (s.init phase).2.1.size = s.hidx := by
  unfold SSys.init; simp

theorem loop_sizes (s : SSys α) (cfg : Cfg α) (phase : String) :
    ∀ (fuel : Nat) (v i : Vec α) (st : St) (it : Nat) (r : SolveOut α),
      v.size = s.hidx → i.size = s.hidx → s.loop cfg phase fuel v i st it = .ok r →
      r.v.size = s.hidx ∧ r.i.size = s.hidx := by
  intro fuel
  induction fuel with
  | zero =>
    intro v i st it r hv hi h
    simp only [SSys.loop, Except.ok.injEq] at h
    subst h; exact ⟨hv, hi⟩
  | succ n ih =>
    intro v i st it r hv hi h
    unfold SSys.loop at h
    cases hf : s.fwdProp phase v i st with
    | error e => rw [hf] at h; simp [bind, Except.bind] at h
    | ok p =>
      obtain ⟨v', st'⟩ := p
      rw [hf] at h
      simp only [bind, Except.bind] at h
      by_cases hc : converged cfg v v' i (s.backProp phase v' i st) = true
      · rw [if_pos hc] at h
        simp only [Except.ok.injEq] at h
        subst h; exact ⟨hv, hi⟩
      · rw [if_neg hc] at h
        exact ih _ _ _ _ _ (C16.fwdProp_pointwise s phase v i st v' st' hf).1
          (C16.backProp_pointwise s phase v' i st).1 h

/-- whatever `solve()` returns for a phase has exactly `hidx` voltage and current cells -/
theorem solvePhase_sizes (s : SSys α) (cfg : Cfg α) (phase : String) (r : SolveOut α)
    (h : s.solvePhase cfg phase = .ok r) : r.v.size = s.hidx ∧ r.i.size = s.hidx := by
  unfold SSys.solvePhase at h
  cases hr : s.solveRaw cfg phase with
  | error e => rw [hr] at h; simp [bind, Except.bind] at h
  | ok r0 =>
    rw [hr] at h
    simp only [bind, Except.bind] at h
    split_ifs at h with hgt
    simp only [pure, Except.pure, Except.ok.injEq] at h
    subst h
    unfold SSys.solveRaw at hr
    exact loop_sizes s cfg phase _ _ _ _ _ _ (init_sizes s phase).1 (init_sizes s phase).2 hr

/-- **The exit state** of a returned phase: one more forward sweep `v'` (with flags `st'`) exists, and
    with `i' = backProp v' i st` (the back sweep reads the NEW voltages, the OLD currents and the OLD
    flags) every cell of `(v, i)` is within the solver tolerance of `(v', i')`. -/
theorem solvePhase_exit (s : SSys α) (cfg : Cfg α) (phase : String) (r : SolveOut α)
    (h : s.solvePhase cfg phase = .ok r) :
    ∃ v' st', s.fwdProp phase r.v r.i r.st = .ok (v', st') ∧ v'.size = s.hidx ∧
      (∀ n, n < s.hidx → |vget r.v n - vget v' n| ≤ cfg.atol + cfg.vtol * |vget v' n|) ∧
      (∀ n, n < s.hidx → |vget r.i n - vget (s.backProp phase v' r.i r.st) n|
          ≤ cfg.atol + cfg.itol * |vget (s.backProp phase v' r.i r.st) n|) := by
  obtain ⟨v', st', hf, hc⟩ := C03.solvePhase_sound s cfg phase r h
  obtain ⟨hs1, hs2⟩ := solvePhase_sizes s cfg phase r h
  have hv' := (C16.fwdProp_pointwise s phase _ _ _ v' st' hf).1
  have hi' := (C16.backProp_pointwise s phase v' r.i r.st).1
  rw [converged_iff cfg _ _ _ _ (by rw [hs1, hv']) (by rw [hs2, hi'])] at hc
  refine ⟨v', st', hf, hv', fun n hn => hc.1 n (by rw [hs1]; exact hn), fun n hn => hc.2 n (by rw [hs2]; exact hn)⟩

/-! ### 3. one more sweep evaluates the documented laws on the row's own cells -/

/-- the output current of node `n` as every pass computes it and as its table row shows it:
    Σ of the input currents its children draw from it (`_child_curr`), 0 for a leaf.  It depends on the
    voltage vector only through the input selection of multi-input mux children. -/
def ioOf (s : SSys α) (nd : SNode α) (n : Nat) (i v : Vec α) (st : St) : α :=
  if nd.childs.isEmpty then 0 else s.childCurr n i v st

/-- no child of `nd` is a mux with several inputs (then `ioOf` does not depend on the voltages at all) -/
def NoMuxChild (s : SSys α) (nd : SNode α) : Prop :=
  ∀ c ∈ nd.childs, ∀ cd, s.node? c = some cd → cd.comp.kind ≠ .pmux ∨ cd.parents.length ≤ 1

theorem childShare_indep (s : SSys α) (node c : Nat) (i v w : Vec α) (st : St)
    (h : ∀ cd, s.node? c = some cd → cd.comp.kind ≠ .pmux ∨ cd.parents.length ≤ 1) :
    s.childShare node i v st c = s.childShare node i w st c := by
  unfold SSys.childShare
  cases hc : s.node? c with
  | none => rfl
  | some cd =>
    simp only
    rcases h cd hc with hk | hl
    · have : ∀ (o : List Bool) (x : List α), cd.comp.priInp o x = some 0 := by
        intro o x; unfold Comp.priInp; cases hkk : cd.comp.kind <;> simp_all
      rw [this, this]
    · have hl' : ¬ cd.parents.length > 1 := by omega
      cases cd.comp.priInp (cd.parents.map (sget st)) (cd.parents.map (vget v)) <;>
        cases cd.comp.priInp (cd.parents.map (sget st)) (cd.parents.map (vget w)) <;> simp [hl']

theorem ioOf_indep (s : SSys α) (nd : SNode α) (n : Nat) (i v w : Vec α) (st : St)
    (hnode : s.node? n = some nd) (h : NoMuxChild s nd) : ioOf s nd n i v st = ioOf s nd n i w st := by
  unfold ioOf SSys.childCurr
  rw [hnode]
  simp only
  congr 2
  apply List.map_congr_left
  intro c hc
  exact childShare_indep s n c i v w st (h c hc)

/-- **Sweep cell = documented law** (single, unflagged supply; any kind but Source and PMux).
    If `v'` is the forward sweep of `(v, i, st)`, cell `n` of `v'` is the documented output voltage at the
    row's `(Vin, Iout) = (v p, ioOf … v …)`, and cell `n` of the following back sweep is the documented
    input current at `(v' p, ioOf … v' …)` — the NEW supply voltage. -/
theorem sweep_cell_is_law (s : SSys α) (ph : String) (v i : Vec α) (st : St) (v' : Vec α) (st' : St)
    (hf : s.fwdProp ph v i st = .ok (v', st'))
    (n p : Nat) (nd : SNode α) (hn : n ∈ s.topo) (hnode : s.node? n = some nd) (hpar : nd.parents = [p])
    (hlive : sget st p = false) (hphys : nd.comp.Phys) (hmux : nd.comp.kind ≠ .pmux)
    (hsrc : nd.comp.kind ≠ .source) :
    vget v' n = specVo nd.comp 0 (vget v p) (ioOf s nd n i v st) (nd.pconf.ctx ph) ∧
    vget (s.backProp ph v' i st) n
      = specIi nd.comp (vget v' p) (ioOf s nd n i v' st) (nd.pconf.ctx ph) := by
  have hlt := node?_some_lt s n nd hnode
  obtain ⟨_, _, hpt, _⟩ := C16.fwdProp_pointwise s ph v i st v' st' hf
  obtain ⟨x, b, hx, hvx, _⟩ := hpt n hn hlt
  rw [(sweep_args_are_row s ph 0 v i st n p nd hnode hpar "").1] at hx
  have hoff : off0 [sget st p] = false := by simp [off0, hlive]
  have h1 := volt_refines_spec_partial nd.comp hphys _ _ _ _ hoff hmux (fun h => absurd h hsrc) hx
  simp only [List.headD_cons] at h1
  refine ⟨by rw [hvx]; exact h1, ?_⟩
  rw [(C16.backProp_pointwise s ph v' i st).2.1 n hn hlt,
    (sweep_args_are_row s ph 0 v' i st n p nd hnode hpar "").2,
    curr_refines_spec nd.comp hphys _ _ _ _ hoff hmux]
  simp [ioOf]

/-- **C01 ∘ C03, voltage.**  Every row of a returned table whose component has a single, unflagged supply
    (any kind but Source — see `solve_source_row_voltage_law_partial` — and PMux — see `solve_mux_row_laws`)
    shows `(Vin, Vout, Iout)` with `Vout` within the solver's exit tolerance of the documented law at the
    row's own `(Vin, Iout)`:  `|Vout − specVo(Vin, Iout)| ≤ atol + vtol·|specVo(Vin, Iout)|`. -/
theorem solve_row_voltage_law (s : SSys α) (cfg : Cfg α) (ph : String) (r : SolveOut α)
    (h : s.solvePhase cfg ph = .ok r) (ta : α) (d : String)
    (n p : Nat) (nd : SNode α) (hn : n ∈ s.topo) (hnode : s.node? n = some nd) (hpar : nd.parents = [p])
    (hlive : sget r.st p = false) (hphys : nd.comp.Phys) (hmux : nd.comp.kind ≠ .pmux)
    (hsrc : nd.comp.kind ≠ .source) :
    let row := (s.compRow ph ta r.v r.i r.st n d).1
    ∃ Vin Vout Iout, row.vin = some Vin ∧ row.vout = some Vout ∧ row.iout = some Iout ∧
      |Vout - specVo nd.comp 0 Vin Iout (nd.pconf.ctx ph)|
        ≤ cfg.atol + cfg.vtol * |specVo nd.comp 0 Vin Iout (nd.pconf.ctx ph)| := by
  intro row
  obtain ⟨v', st', hf, _, hv, _⟩ := solvePhase_exit s cfg ph r h
  obtain ⟨l1, l2, _, _, l5⟩ := row_linkage s ph ta r.v r.i r.st n p nd hnode hpar d
  have hlaw := (sweep_cell_is_law s ph r.v r.i r.st v' st' hf n p nd hn hnode hpar hlive hphys hmux hsrc).1
  refine ⟨_, _, _, l1, l2, l5, ?_⟩
  have := hv n (node?_some_lt s n nd hnode)
  rw [hlaw] at this
  exact this

/-- **C01 ∘ C03, current.**  Same setting (`p < hidx`: the supply is a node id).  The row's `Iin` is within
    `atol + itol·|·|` of the documented current law evaluated at
      * `Vin' = vget v' p`, the supply voltage after one more forward sweep `v'` (NOT the row's `Vin`; the
        two differ by at most `atol + vtol·|Vin'|`), and
      * `Iout' = ioOf … v' …`, the child-current sum taken with the mux selections that `v'` induces.
    `Iout'` is the row's `Iout` whenever no child is a multi-input mux (last conjunct). -/
theorem solve_row_current_law (s : SSys α) (cfg : Cfg α) (ph : String) (r : SolveOut α)
    (h : s.solvePhase cfg ph = .ok r) (ta : α) (d : String)
    (n p : Nat) (nd : SNode α) (hn : n ∈ s.topo) (hnode : s.node? n = some nd) (hpar : nd.parents = [p])
    (hp : p < s.hidx)
    (hlive : sget r.st p = false) (hphys : nd.comp.Phys) (hmux : nd.comp.kind ≠ .pmux)
    (hsrc : nd.comp.kind ≠ .source) :
    let row := (s.compRow ph ta r.v r.i r.st n d).1
    ∃ v' st', s.fwdProp ph r.v r.i r.st = .ok (v', st') ∧
    ∃ Vin Iin Iout, row.vin = some Vin ∧ row.iin = some Iin ∧ row.iout = some Iout ∧
      |Vin - vget v' p| ≤ cfg.atol + cfg.vtol * |vget v' p| ∧
      |Iin - specIi nd.comp (vget v' p) (ioOf s nd n r.i v' r.st) (nd.pconf.ctx ph)|
        ≤ cfg.atol + cfg.itol * |specIi nd.comp (vget v' p) (ioOf s nd n r.i v' r.st) (nd.pconf.ctx ph)| ∧
      (NoMuxChild s nd → ioOf s nd n r.i v' r.st = Iout) := by
  intro row
  obtain ⟨v', st', hf, _, hv, hi⟩ := solvePhase_exit s cfg ph r h
  obtain ⟨l1, _, l3, _, l5⟩ := row_linkage s ph ta r.v r.i r.st n p nd hnode hpar d
  have hlaw := (sweep_cell_is_law s ph r.v r.i r.st v' st' hf n p nd hn hnode hpar hlive hphys hmux hsrc).2
  refine ⟨v', st', hf, _, _, _, l1, l3, l5, hv p hp, ?_, fun hno => ioOf_indep s nd n r.i v' r.v r.st hnode hno⟩
  have := hi n (node?_some_lt s n nd hnode)
  rw [hlaw] at this
  exact this

/-- the current law in terms of the row's own `Iout` — only when no child is a multi-input mux
    (otherwise the back sweep may attribute a mux child's current differently than the row does) -/
theorem solve_row_current_law_rowIout_partial (s : SSys α) (cfg : Cfg α) (ph : String) (r : SolveOut α)
    (h : s.solvePhase cfg ph = .ok r) (ta : α) (d : String)
    (n p : Nat) (nd : SNode α) (hn : n ∈ s.topo) (hnode : s.node? n = some nd) (hpar : nd.parents = [p])
    (hp : p < s.hidx)
    (hlive : sget r.st p = false) (hphys : nd.comp.Phys) (hmux : nd.comp.kind ≠ .pmux)
    (hsrc : nd.comp.kind ≠ .source) (hno : NoMuxChild s nd) :
    let row := (s.compRow ph ta r.v r.i r.st n d).1
    ∃ Vin Vin' Iin Iout, row.vin = some Vin ∧ row.iin = some Iin ∧ row.iout = some Iout ∧
      |Vin - Vin'| ≤ cfg.atol + cfg.vtol * |Vin'| ∧
      |Iin - specIi nd.comp Vin' Iout (nd.pconf.ctx ph)|
        ≤ cfg.atol + cfg.itol * |specIi nd.comp Vin' Iout (nd.pconf.ctx ph)| := by
  intro row
  obtain ⟨v', st', hf, Vin, Iin, Iout, a1, a2, a3, a4, a5, a6⟩ :=
    solve_row_current_law s cfg ph r h ta d n p nd hn hnode hpar hp hlive hphys hmux hsrc
  rw [a6 hno] at a5
  exact ⟨Vin, vget v' p, Iin, Iout, a1, a2, a3, a4, a5⟩

/-! ### 4. exact steady state -/

/-- **Exact steady state.**  If one forward and one back sweep reproduce `(v, i)` exactly, every
    single-supply row (unflagged supply; not Source, not PMux) satisfies both documented laws exactly, at
    its own `(Vin, Iout)`. -/
theorem steady_row_exact (s : SSys α) (ph : String) (ta : α) (v i : Vec α) (st st' : St) (d : String)
    (hf : s.fwdProp ph v i st = .ok (v, st')) (hb : s.backProp ph v i st = i)
    (n p : Nat) (nd : SNode α) (hn : n ∈ s.topo) (hnode : s.node? n = some nd) (hpar : nd.parents = [p])
    (hlive : sget st p = false) (hphys : nd.comp.Phys) (hmux : nd.comp.kind ≠ .pmux)
    (hsrc : nd.comp.kind ≠ .source) :
    let row := (s.compRow ph ta v i st n d).1
    ∃ Vin Vout Iin Iout, row.vin = some Vin ∧ row.vout = some Vout ∧ row.iin = some Iin ∧
      row.iout = some Iout ∧
      Vout = specVo nd.comp 0 Vin Iout (nd.pconf.ctx ph) ∧ Iin = specIi nd.comp Vin Iout (nd.pconf.ctx ph) := by
  intro row
  obtain ⟨l1, l2, l3, _, l5⟩ := row_linkage s ph ta v i st n p nd hnode hpar d
  obtain ⟨e1, e2⟩ := sweep_cell_is_law s ph v i st v st' hf n p nd hn hnode hpar hlive hphys hmux hsrc
  rw [hb] at e2
  exact ⟨_, _, _, _, l1, l2, l3, l5, e1, e2⟩

/-! ### 5. Source rows (roots) -/

theorem sweep_args_root (s : SSys α) (ph : String) (v i : Vec α) (st : St)
    (n : Nat) (nd : SNode α) (hnode : s.node? n = some nd) (hpar : nd.parents = []) :
    s.fwdAt ph v i st n =
      nd.comp.solvOutpVolt [vget v n] (ioOf s nd n i v st) (nd.pconf.ctx ph) (st.getD n []) ∧
    s.backAt ph v i st n =
      nd.comp.solvInpCurr [vget v n] (ioOf s nd n i v st) (nd.pconf.ctx ph) (st.getD n []) := by
  unfold SSys.fwdAt SSys.backAt SSys.lawArgs ioOf
  simp [hnode, hpar]

/-- **Source row, voltage** (`_partial`: finding F01 excluded exactly as in `volt_refines_spec_partial`).
    A live Source row shows `Vout` within the exit tolerance of `vo − sign(vo)·|rs|·Io`, where `Io` is the
    sum of the input currents its children's rows show (`ioOf … r.v …`).  NB: the `Iout` cell of a root row
    is *not* that sum but the source's own current cell `i[n]`; see `solve_source_row_current_law` for how
    far the two can be apart.  (`specVo` ignores its `vin` argument for a Source.) -/
theorem solve_source_row_voltage_law_partial (s : SSys α) (cfg : Cfg α) (ph : String) (r : SolveOut α)
    (h : s.solvePhase cfg ph = .ok r) (ta : α) (d : String)
    (n : Nat) (nd : SNode α) (hn : n ∈ s.topo) (hnode : s.node? n = some nd) (hpar : nd.parents = [])
    (hk : nd.comp.kind = .source) (hlive : sget r.st n = false) (hphys : nd.comp.Phys)
    (hF01 : 0 ≤ nd.comp.vo ∨ nd.comp.rs = 0 ∨ ioOf s nd n r.i r.v r.st = 0) :
    let row := (s.compRow ph ta r.v r.i r.st n d).1
    let Io := ioOf s nd n r.i r.v r.st
    ∃ Vin Vout, row.vin = some Vin ∧ row.vout = some Vout ∧
      |Vout - specVo nd.comp 0 Vin Io (nd.pconf.ctx ph)|
        ≤ cfg.atol + cfg.vtol * |specVo nd.comp 0 Vin Io (nd.pconf.ctx ph)| := by
  intro row Io
  have hlt := node?_some_lt s n nd hnode
  obtain ⟨v', st', hf, _, hv, _⟩ := solvePhase_exit s cfg ph r h
  obtain ⟨l1, l2, _⟩ := row_root s ph ta r.v r.i r.st n nd hnode hpar d
  obtain ⟨_, _, hpt, _⟩ := C16.fwdProp_pointwise s ph r.v r.i r.st v' st' hf
  obtain ⟨x, b, hx, hvx, _⟩ := hpt n hn hlt
  rw [(sweep_args_root s ph r.v r.i r.st n nd hnode hpar).1] at hx
  have hmux : nd.comp.kind ≠ .pmux := by rw [hk]; decide
  have h1 := volt_refines_spec_partial nd.comp hphys _ _ _ _ hlive hmux (fun _ => hF01) hx
  have hindep : ∀ a b : α, specVo nd.comp 0 a Io (nd.pconf.ctx ph) = specVo nd.comp 0 b Io (nd.pconf.ctx ph) := by
    intro a b; unfold specVo; simp only [hk]
  refine ⟨_, _, l1, l2, ?_⟩
  have := hv n hlt
  rw [hvx, h1, hindep _ (vget r.v n + nd.comp.rs * vget r.i n)] at this
  exact this

/-- **Source row, current** (no exclusion needed).  The `Iin = Iout` cells of a live root row both show the
    source's current cell, which is within `atol + itol·|·|` of the documented `specIi` (= the children's
    sum for an active source, 0 for an inactive / 0 V one) taken at `Io' = ioOf … v' …`, the child-current
    sum under the mux selections of the once-more-swept voltages `v'` (= the row-level sum when no child
    is a multi-input mux). -/
theorem solve_source_row_current_law (s : SSys α) (cfg : Cfg α) (ph : String) (r : SolveOut α)
    (h : s.solvePhase cfg ph = .ok r) (ta : α) (d : String)
    (n : Nat) (nd : SNode α) (hn : n ∈ s.topo) (hnode : s.node? n = some nd) (hpar : nd.parents = [])
    (hk : nd.comp.kind = .source) (hlive : sget r.st n = false) (hphys : nd.comp.Phys) :
    let row := (s.compRow ph ta r.v r.i r.st n d).1
    ∃ v' st', s.fwdProp ph r.v r.i r.st = .ok (v', st') ∧
    ∃ Vin Iio, row.vin = some Vin ∧ row.iin = some Iio ∧ row.iout = some Iio ∧
      |Iio - specIi nd.comp Vin (ioOf s nd n r.i v' r.st) (nd.pconf.ctx ph)|
        ≤ cfg.atol + cfg.itol * |specIi nd.comp Vin (ioOf s nd n r.i v' r.st) (nd.pconf.ctx ph)| ∧
      (NoMuxChild s nd → ioOf s nd n r.i v' r.st = ioOf s nd n r.i r.v r.st) := by
  intro row
  have hlt := node?_some_lt s n nd hnode
  obtain ⟨v', st', hf, _, _, hi⟩ := solvePhase_exit s cfg ph r h
  obtain ⟨l1, _, l3, l4, _⟩ := row_root s ph ta r.v r.i r.st n nd hnode hpar d
  have hmux : nd.comp.kind ≠ .pmux := by rw [hk]; decide
  have hindep : ∀ (a b io : α), specIi nd.comp a io (nd.pconf.ctx ph) = specIi nd.comp b io (nd.pconf.ctx ph) := by
    intro a b io; unfold specIi; simp only [hk]
  refine ⟨v', st', hf, _, _, l1, l3, l4, ?_, fun hno => ioOf_indep s nd n r.i v' r.v r.st hnode hno⟩
  have := hi n hlt
  rw [(C16.backProp_pointwise s ph v' r.i r.st).2.1 n hn hlt,
    (sweep_args_root s ph v' r.i r.st n nd hnode hpar).2,
    curr_refines_spec nd.comp hphys _ _ _ _ hlive hmux,
    hindep _ (vget r.v n + nd.comp.rs * vget r.i n)] at this
  exact this

/-! ### 6. the mux row -/

theorem priInpAux_lt (off : List Bool) (vi : List α) (k : Nat) (h : priInpAux off vi 0 = some k) :
    k < off.length ∧ k < vi.length ∧ vi.getD k 0 ≠ 0 := by
  obtain ⟨o, x, ho, hx, _, hne⟩ := (((C05.pri_first_live off vi).1 k).mp h).1
  refine ⟨?_, ?_, ?_⟩
  · by_contra hh; rw [List.getElem?_eq_none (Nat.le_of_not_lt hh)] at ho; simp at ho
  · by_contra hh; rw [List.getElem?_eq_none (Nat.le_of_not_lt hh)] at hx; simp at hx
  · simp [List.getD, hx, hne]

theorem getD_map_of_lt {β : Type} (f : Nat → β) (l : List Nat) (k : Nat) (d : β) (h : k < l.length) :
    (l.map f).getD k d = f (l.getD k 0) := by
  simp [List.getD_eq_getElem?_getD, List.getElem?_map, List.getElem?_eq_getElem h]

/-- the mux's voltage law is the documented one at the selected input, active or not, with no sign
    condition on the current (the equation half of `C05.mux_volt`) -/
theorem mux_volt_eq (c : Comp α) (hk : c.kind = .pmux) (hrs : 0 ≤ c.rs) (vi : List α) (io : α)
    (ph : PhaseCtx α) (off : List Bool) (k : Nat) (hsel : priInpAux off vi 0 = some k)
    {v : α} {b : Bool} (h : c.solvOutpVolt vi io ph off = .ok (v, b)) :
    v = specVo c (c.muxRs k) (vi.getD k 0) io ph := by
  have hvk := (priInpAux_lt off vi k hsel).2.2
  have hz : isZ (vi.getD k 0) = false := (isZ_false_iff _).mpr hvk
  have core : ∀ (r vk : α), vk ≠ 0 →
      (if ph.inactive = true then (Except.ok (0, true) : Except Err (α × Bool))
        else if (!decide (0 < nabs vk - r * io)) = true then .error (Err.unstable c.name)
        else if vk < 0 then .ok (-(nabs vk - r * io), false) else .ok (nabs vk - r * io, false)) = .ok (v, b) →
      v = if ph.inactive = true then 0 else nsign vk * (|vk| - r * io) := by
    intro r vk hvk h
    simp only [nabs_eq_abs] at h
    split_ifs at h with h1 h2 h3
    · simp only [Except.ok.injEq, Prod.mk.injEq] at h; simp [h1, h.1.symm]
    · simp only [Except.ok.injEq, Prod.mk.injEq] at h
      rw [if_neg h1, nsign_of_neg h3, ← h.1]; ring
    · simp only [Except.ok.injEq, Prod.mk.injEq] at h
      rw [if_neg h1, nsign_of_pos (lt_of_le_of_ne (not_lt.mp h3) (Ne.symm hvk)), ← h.1]; ring
  unfold Comp.solvOutpVolt at h
  simp only [hk, hsel] at h
  unfold specVo Comp.muxRs
  simp only [hk, hz, Bool.false_or]
  generalize vi.getD k 0 = vk at *
  cases hl : c.rsList with
  | some l =>
    simp only [hl] at h ⊢
    by_cases hlen : l.length < vi.length
    · simp [hlen] at h
    · simp only [hlen, if_false] at h
      have := core _ vk hvk h
      simpa [nabs_eq_abs, abs_abs] using this
  | none =>
    simp only [hl] at h ⊢
    have := core _ vk hvk h
    simpa [nabs_eq_abs, abs_of_nonneg hrs] using this

/-- the cells of a mux row: `Vin` is the voltage of the selected input -/
theorem mux_row_cells (s : SSys α) (ph : String) (ta : α) (v i : Vec α) (st : St) (d : String)
    (n : Nat) (nd : SNode α) (hnode : s.node? n = some nd) (hk : nd.comp.kind = .pmux)
    (hne : nd.parents ≠ []) (k : Nat)
    (hsel : priInpAux (nd.parents.map (sget st)) (nd.parents.map (vget v)) 0 = some k) :
    let row := (s.compRow ph ta v i st n d).1
    row.vin = some (vget v (nd.parents.getD k 0)) ∧ row.vout = some (vget v n) ∧
    row.iin = some (vget i n) ∧ row.iout = some (ioOf s nd n i v st) ∧
    row.parent = s.nameOf (nd.parents.getD k 0) := by
  intro row
  have hr : row = (s.compRow ph ta v i st n d).1 := rfl
  have hklt : k < nd.parents.length := by simpa using (priInpAux_lt _ _ k hsel).1
  have hemp : nd.parents.isEmpty = false := by
    cases hp : nd.parents with
    | nil => exact absurd hp hne
    | cons a l => rfl
  unfold SSys.compRow Comp.priInp at hr
  simp only [hnode, hk, hemp, hsel, Bool.false_eq_true, if_false, Bool.not_false, Bool.true_and,
    Option.isSome_some, Bool.and_true] at hr
  by_cases hmany : nd.parents.length > 1
  · simp only [hmany, if_true, decide_true, Option.getD_some] at hr
    simp [hr, ioOf]
  · cases hp : nd.parents with
    | nil => exact absurd hp hne
    | cons q l =>
      have hl : l = [] := by
        rw [hp] at hmany; simp only [List.length_cons] at hmany
        exact List.length_eq_zero_iff.mp (by omega)
      subst hl
      have hk0 : k = 0 := by rw [hp] at hklt; simpa using hklt
      subst hk0
      have hpn : s.parentName n = s.nameOf q := by unfold SSys.parentName; simp [hnode, hp]
      simp only [hp] at hr
      simp [hr, ioOf, hpn]

/-- **C01 ∘ C03 for a PMux row.**  With `k` the input the row-level selection picks (`_get_pri_inp` on the
    returned flags and voltages) the row names input `k` as parent, shows its voltage as `Vin`, and `Vout`
    is within the exit tolerance of the documented mux law `±(|Vin| − |rs_k|·Iout)` at the row's own
    `(Vin, Iout)`.  The row's `Iin` is within `atol + itol·|·|` of the documented `Io + ig` (or sleep current)
    evaluated at the input `k'` that the once-more-swept voltages `v'` select, at its new voltage, with the
    child-current sum `ioOf … v' …` (a mux has no mux child in any accepted system, so this is the row's
    `Iout` — last conjunct). -/
theorem solve_mux_row_laws (s : SSys α) (cfg : Cfg α) (ph : String) (r : SolveOut α)
    (h : s.solvePhase cfg ph = .ok r) (ta : α) (d : String)
    (n : Nat) (nd : SNode α) (hn : n ∈ s.topo) (hnode : s.node? n = some nd)
    (hk : nd.comp.kind = .pmux) (hne : nd.parents ≠ []) (hphys : nd.comp.Phys) (k : Nat)
    (hsel : priInpAux (nd.parents.map (sget r.st)) (nd.parents.map (vget r.v)) 0 = some k) :
    let row := (s.compRow ph ta r.v r.i r.st n d).1
    ∃ Vin Vout Iin Iout, row.vin = some Vin ∧ row.vout = some Vout ∧ row.iin = some Iin ∧
      row.iout = some Iout ∧ row.parent = s.nameOf (nd.parents.getD k 0) ∧
      Vin = vget r.v (nd.parents.getD k 0) ∧
      |Vout - specVo nd.comp (nd.comp.muxRs k) Vin Iout (nd.pconf.ctx ph)|
        ≤ cfg.atol + cfg.vtol * |specVo nd.comp (nd.comp.muxRs k) Vin Iout (nd.pconf.ctx ph)| ∧
      ∃ v' st', s.fwdProp ph r.v r.i r.st = .ok (v', st') ∧
        (∀ k', priInpAux (nd.parents.map (sget r.st)) (nd.parents.map (vget v')) 0 = some k' →
          |Iin - specIi nd.comp (vget v' (nd.parents.getD k' 0)) (ioOf s nd n r.i v' r.st) (nd.pconf.ctx ph)|
            ≤ cfg.atol + cfg.itol *
              |specIi nd.comp (vget v' (nd.parents.getD k' 0)) (ioOf s nd n r.i v' r.st) (nd.pconf.ctx ph)|) ∧
        (NoMuxChild s nd → ioOf s nd n r.i v' r.st = Iout) := by
  intro row
  have hlt := node?_some_lt s n nd hnode
  have hemp : nd.parents.isEmpty = false := by
    cases hp : nd.parents with
    | nil => exact absurd hp hne
    | cons a l => rfl
  obtain ⟨v', st', hf, _, hv, hi⟩ := solvePhase_exit s cfg ph r h
  obtain ⟨c1, c2, c3, c4, c5⟩ := mux_row_cells s ph ta r.v r.i r.st d n nd hnode hk hne k hsel
  obtain ⟨_, _, hpt, _⟩ := C16.fwdProp_pointwise s ph r.v r.i r.st v' st' hf
  obtain ⟨x, b, hx, hvx, _⟩ := hpt n hn hlt
  have hargs : ∀ w : Vec α, s.fwdAt ph w r.i r.st n =
        nd.comp.solvOutpVolt (nd.parents.map (vget w)) (ioOf s nd n r.i w r.st) (nd.pconf.ctx ph)
          (nd.parents.map (sget r.st)) ∧
      s.backAt ph w r.i r.st n =
        nd.comp.solvInpCurr (nd.parents.map (vget w)) (ioOf s nd n r.i w r.st) (nd.pconf.ctx ph)
          (nd.parents.map (sget r.st)) := by
    intro w
    unfold SSys.fwdAt SSys.backAt SSys.lawArgs ioOf
    simp [hnode, hemp]
  rw [(hargs r.v).1] at hx
  have hklt : k < nd.parents.length := by simpa using (priInpAux_lt _ _ k hsel).1
  have h1 := mux_volt_eq nd.comp hk hphys.rs _ _ _ _ k hsel hx
  rw [getD_map_of_lt _ _ _ _ hklt] at h1
  refine ⟨_, _, _, _, c1, c2, c3, c4, c5, rfl, ?_, v', st', hf, ?_,
    fun hno => ioOf_indep s nd n r.i v' r.v r.st hnode hno⟩
  · have := hv n hlt
    rw [hvx, h1] at this
    exact this
  · intro k' hsel'
    have hk'lt : k' < nd.parents.length := by simpa using (priInpAux_lt _ _ k' hsel').1
    have := hi n hlt
    rw [(C16.backProp_pointwise s ph v' r.i r.st).2.1 n hn hlt, (hargs v').2,
      C05.mux_curr nd.comp hk hphys.iis _ _ _ _ k' hsel', getD_map_of_lt _ _ _ _ hk'lt] at this
    exact this

/-! ### 7. non-vacuity: Source(5 V, rs 0) → LinReg(vo 3, vdrop 1/2, ig 0) → ILoad(1 A) over ℚ -/

section Examples

deriving instance DecidableEq for SolveOut

def exSrc : Comp ℚ := { name := "S", kind := .source, par := .const 0, vo := 5, rs := 0 }
def exReg : Comp ℚ := { name := "R", kind := .linreg, par := .const 0, vo := 3, vdrop := 1/2 }
def exLoad : Comp ℚ := { name := "L", kind := .iload, par := .const 0, ii := 1 }
def exN0 : SNode ℚ := { comp := exSrc, parents := [], childs := [1], pconf := .names [] }
def exN1 : SNode ℚ := { comp := exReg, parents := [0], childs := [2], pconf := .names [] }
def exN2 : SNode ℚ := { comp := exLoad, parents := [1], childs := [] }
def exSys : SSys ℚ := { nodes := #[some exN0, some exN1, some exN2], topo := [0, 1, 2] }
/-- numpy's `atol = 1e-8`, the default `vtol = itol = 1e-6`, `maxiter = 100` -/
def exCfg : Cfg ℚ := ⟨1/100000000, 1/1000000, 1/1000000, 100⟩
/-- what the model's `solvePhase` returns for it: 5 V / 3 V / 0 V, 1 A everywhere, 3 sweeps, no flags -/
def exOut : SolveOut ℚ := ⟨#[5, 3, 0], #[1, 1, 1], 3, #[[false], [false], [false]]⟩

theorem exSolve : exSys.solvePhase exCfg "" = .ok exOut := by decide +kernel

/-- the returned state is an exact fixed point of one forward and one back sweep -/
theorem exFixed : exSys.fwdProp "" exOut.v exOut.i exOut.st = .ok (exOut.v, exOut.st) ∧
    exSys.backProp "" exOut.v exOut.i exOut.st = exOut.i := by decide +kernel

theorem exSrcPhys : exSrc.Phys := by
  constructor <;> simp [exSrc, Comp.muxRs, Param.Nonneg, Param.interp]
theorem exRegPhys : exReg.Phys := by
  constructor <;> simp [exReg, Comp.muxRs, Param.Nonneg, Param.interp]
  norm_num
theorem exNoMux1 : NoMuxChild exSys exN1 := by
  intro c hc cd hcd
  have : c = 2 := by simpa [exN1] using hc
  subst this
  have : cd = exN2 := by
    have h2 : exSys.node? 2 = some exN2 := rfl
    rw [h2] at hcd; exact (Option.some.inj hcd).symm
  subst this
  exact Or.inl (by decide)

/-- `solve_row_voltage_law` applies to the LinReg row (all hypotheses hold) … -/
example := solve_row_voltage_law exSys exCfg "" exOut exSolve 25 "S" 1 0 exN1
  (by decide) rfl rfl (by decide) exRegPhys (by decide) (by decide)
/-- … and its row is (Vin, Vout, Iout) = (5, 3, 1) with `specVo = min(3, 5 − 1/2) = 3` -/
example : let row := (exSys.compRow "" 25 exOut.v exOut.i exOut.st 1 "S").1
    row.vin = some 5 ∧ row.vout = some 3 ∧ row.iin = some 1 ∧ row.iout = some 1 ∧
    specVo exReg 0 5 1 (exN1.pconf.ctx "") = 3 ∧ specIi exReg 5 1 (exN1.pconf.ctx "") = 1 := by
  decide +kernel

example := solve_row_current_law exSys exCfg "" exOut exSolve 25 "S" 1 0 exN1
  (by decide) rfl rfl (by decide) (by decide) exRegPhys (by decide) (by decide)
example := solve_row_current_law_rowIout_partial exSys exCfg "" exOut exSolve 25 "S" 1 0 exN1
  (by decide) rfl rfl (by decide) (by decide) exRegPhys (by decide) (by decide) exNoMux1
example := steady_row_exact exSys "" 25 exOut.v exOut.i exOut.st exOut.st "S" exFixed.1 exFixed.2 1 0 exN1
  (by decide) rfl rfl (by decide) exRegPhys (by decide) (by decide)
example := solve_source_row_voltage_law_partial exSys exCfg "" exOut exSolve 25 "none" 0 exN0
  (by decide) rfl rfl rfl (by decide) exSrcPhys (Or.inl (by decide))
example := solve_source_row_current_law exSys exCfg "" exOut exSolve 25 "none" 0 exN0
  (by decide) rfl rfl rfl (by decide) exSrcPhys
example : converged exCfg exOut.v exOut.v exOut.i exOut.i = true ∧ exOut.v.size = exOut.v.size := by
  decide +kernel

/-! mux: Source A(5 V), Source B(4 V) → PMux(rs 1/2) → ILoad(1 A): input 0 is selected, Vout = 5 − 1/2 -/

def mxA : Comp ℚ := { name := "A", kind := .source, par := .const 0, vo := 5, rs := 0 }
def mxB : Comp ℚ := { name := "B", kind := .source, par := .const 0, vo := 4, rs := 0 }
def mxM : Comp ℚ := { name := "M", kind := .pmux, par := .const 0, rs := 1/2 }
def mxN2 : SNode ℚ := { comp := mxM, parents := [0, 1], childs := [3], pconf := .names [] }
def mxSys : SSys ℚ :=
  { nodes := #[some { comp := mxA, parents := [], childs := [2], pconf := .names [] },
               some { comp := mxB, parents := [], childs := [2], pconf := .names [] },
               some mxN2,
               some { comp := exLoad, parents := [2], childs := [] }],
    topo := [0, 1, 2, 3] }
def mxOut : SolveOut ℚ := ⟨#[5, 4, 9/2, 0], #[1, 0, 1, 1], 3, #[[false], [false], [false], [false]]⟩
theorem mxSolve : mxSys.solvePhase exCfg "" = .ok mxOut := by decide +kernel
theorem mxPhys : mxM.Phys := by
  constructor <;> simp [mxM, Comp.muxRs, Param.Nonneg, Param.interp]

example := solve_mux_row_laws mxSys exCfg "" mxOut mxSolve 25 "A" 2 mxN2
  (by decide) rfl rfl (by decide) mxPhys 0 (by decide +kernel)

/-! the Source clause without the F01 exclusion fails on the code as it stands (finding F01, test-pinned):
    Source(−12 V, rs 1) → ILoad(1 A) returns `Vout = −13`, the documented law gives −11 -/

def f01Src : Comp ℚ := { name := "S", kind := .source, par := .const 0, vo := -12, rs := 1 }
def f01N0 : SNode ℚ := { comp := f01Src, parents := [], childs := [1], pconf := .names [] }
def f01Sys : SSys ℚ :=
  { nodes := #[some f01N0, some { comp := exLoad, parents := [0], childs := [] }], topo := [0, 1] }
def f01Out : SolveOut ℚ := ⟨#[-13, 0], #[1, 1], 2, #[[false], [false]]⟩
theorem f01Solve : f01Sys.solvePhase exCfg "" = .ok f01Out := by decide +kernel
theorem f01Phys : f01Src.Phys := by
  constructor <;> simp [f01Src, Comp.muxRs, Param.Nonneg, Param.interp]

/-- `solve_source_row_voltage_law_partial` without its hypothesis `hF01` (over ℚ) -/
def solve_source_row_voltage_law_full : Prop :=
  ∀ (s : SSys ℚ) (cfg : Cfg ℚ) (ph : String) (r : SolveOut ℚ), s.solvePhase cfg ph = .ok r →
    ∀ (ta : ℚ) (d : String) (n : Nat) (nd : SNode ℚ), n ∈ s.topo → s.node? n = some nd → nd.parents = [] →
      nd.comp.kind = .source → sget r.st n = false → nd.comp.Phys →
      ∃ Vin Vout, (s.compRow ph ta r.v r.i r.st n d).1.vin = some Vin ∧
        (s.compRow ph ta r.v r.i r.st n d).1.vout = some Vout ∧
        |Vout - specVo nd.comp 0 Vin (ioOf s nd n r.i r.v r.st) (nd.pconf.ctx ph)|
          ≤ cfg.atol + cfg.vtol * |specVo nd.comp 0 Vin (ioOf s nd n r.i r.v r.st) (nd.pconf.ctx ph)|

theorem solve_source_row_voltage_law_full_fails : ¬ solve_source_row_voltage_law_full := by
  intro h
  obtain ⟨Vin, Vout, h1, h2, h3⟩ :=
    h f01Sys exCfg "" f01Out f01Solve 25 "none" 0 f01N0 (by decide) rfl rfl rfl (by decide) f01Phys
  have e1 : (f01Sys.compRow "" 25 f01Out.v f01Out.i f01Out.st 0 "none").1.vin = some (-12) := by decide +kernel
  have e2 : (f01Sys.compRow "" 25 f01Out.v f01Out.i f01Out.st 0 "none").1.vout = some (-13) := by decide +kernel
  rw [e1] at h1; rw [e2] at h2
  have hVin : Vin = -12 := (Option.some.inj h1).symm
  have hVout : Vout = -13 := (Option.some.inj h2).symm
  subst hVin; subst hVout
  have e3 : specVo f01N0.comp 0 (-12) (ioOf f01Sys f01N0 0 f01Out.i f01Out.v f01Out.st) (f01N0.pconf.ctx "") = -11 := by
    decide +kernel
  rw [e3] at h3
  norm_num [exCfg] at h3

end Examples

end C01
end SysLoss
