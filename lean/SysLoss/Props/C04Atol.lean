/-
  Props/C04Atol — property C04 at a TOLERANCE exit of the solver (finding F38).

  Props/C04 and Props/C04Tree prove the C04 statement ("a component on a dead supply is at exactly 0 V / 0 A /
  0 W; an inactive converter / regulator / switch / mux on a live supply draws exactly its sleep current")
  for exact steady states and for the solver's iterates down to depth `iters − 1`.  What `solve()` returns is a
  tolerance exit of `SSys.loop`: the PREVIOUS iterate `(v, i)` of a sweep that changed every cell by at most
  `atol + rtol·|new|`  (`np.allclose(old, new)`: the relative part is taken on the NEW value — `isClose`).

  1. `f38_dead_supply_witness`    Source(0 V) → ILoad(5e-10 A), default tolerances (vtol = itol = 1e-6,
                                  atol = 1e-8, maxiter 10000): `solvePhase` returns after ONE sweep, the load's
                                  row has Iin = 5e-10, so "all cells 0" is FALSE of the model (as of the
                                  implementation); with `atol := 0` the same system returns Iin = 0 (2 sweeps).
  2. `f38_sleep_current_witness`  Source(5 V) → PSwitch(iis = 4e-9, active in phase "on" only), phase "off":
                                  the switch's row has Iin = 0 while its Power cell is 4e-9·5 = 2e-8; with
                                  `atol := 0` Iin = 4e-9 (3 sweeps).
     `f38_sleep_converter_witness` the system named in the task / in `F38-C04-ATOL-SLEEP`
                                  (Source(5 V) → Converter(vo 3.3, eff 0.9, iis 4e-9, phase "on" only), phase
                                  "off").  NOTE: here the converter's OWN row is right (Iin = 4e-9, Power 2e-8:
                                  a converter's initial guess is already `iis`); what is wrong is the SOURCE row:
                                  Iout = 0, Power = 0 although its only child draws 4e-9 A (the source's cell is
                                  the initial guess).  With `atol := 0` the source row shows 4e-9 A / 2e-8 W.
                                  Model and implementation agree on all of this (checked against /repo).
  3. `tolerance_exit_bound`       FULL: whatever `solvePhase` returns, one more forward and backward sweep exist
                                  and change every cell `n < hidx` by at most `atol + vtol·|v' n|` resp.
                                  `atol + itol·|i' n|` (`converged_pointwise`, `convergedAt_bound`: the same for
                                  any triple on which the exit test fired).
     `dead_cell_within_atol`      FULL for what it states: a single-supply node `n` (not Source, not PMux) whose
                                  supply `p` the NEXT sweep finds dead has `|v n| ≤ atol` (if `v p = 0` or `p` is
                                  flagged off in the returned state) and `|i n| ≤ atol` (if `v' p = 0` or `p`
                                  flagged).  No relative part is left (the new value is exactly 0), so the bound
                                  is `atol`, sharper than `atol/(1 − itol)`.
     `dead_below_source_within_atol`  the same with purely structural hypotheses: `n` hangs directly below a
                                  structurally dead element (`C04.AlwaysDead`, e.g. a 0 V / inactive Source).
     `sleep_current_within_atol`  an inactive converter / regulator / switch whose supply the next sweep finds
                                  live and unflagged: `|i n − iis| ≤ atol + itol·|iis|`.
     NOT covered: nodes two or more levels below the dead element.  There the next sweep need not find the
     supply dead (`v' p` is only within `atol` of 0, and a converter / regulator regulates from ANY non-zero
     input), and no bound holds: see `deep_not_bounded_witness` (Source(0 V) → PSwitch →
     Converter(vo = 5e-9) → Converter(3.3 V) → ILoad(1 A) returns the load at 3.3 V / 1 A / 3.3 W after one sweep,
     in the model and in the implementation alike).
  4. `atol_zero_exact`            with `atol = vtol = itol = 0` whatever `solvePhase` returns is an exact fixed
                                  point of the two sweeps; `atol_zero_dead_rows`: hence `C04.dead_rows` applies.
-/
import SysLoss.Props.C03
import SysLoss.Props.C04Tree
import Mathlib.Algebra.Order.Ring.Rat
import Mathlib.Algebra.Field.Rat
import Mathlib.Tactic.NormNum

set_option linter.unusedSectionVars false
set_option linter.unusedVariables false

namespace SysLoss
namespace C04A
open C04
variable {α : Type} [Field α] [LinearOrder α] [IsStrictOrderedRing α]

/-! ### 0. `np.allclose` pointwise; sizes of the iterates -/

theorem vget_eq_getElem (a : Vec α) (n : Nat) (h : n < a.size) : vget a n = a[n] := by
  unfold vget
  simp [Array.getD_eq_getD_getElem?, h]

/-- `np.allclose(a, b)` holds cell by cell on the common index range -/
theorem allClose_pointwise (atol rtol : α) (a b : Vec α)
    (h : allClose atol rtol a.toList b.toList = true) (n : Nat) (ha : n < a.size) (hb : n < b.size) :
    |vget a n - vget b n| ≤ atol + rtol * |vget b n| := by
  unfold allClose at h
  rw [List.all_eq_true] at h
  have hm : isClose atol rtol a[n] b[n] ∈ List.zipWith (isClose atol rtol) a.toList b.toList := by
    rw [List.mem_iff_getElem]
    exact ⟨n, by simp [ha, hb], by simp⟩
  have := h _ hm
  simp only [id_eq, isClose, leB_iff, nabs_eq_abs] at this
  rw [vget_eq_getElem a n ha, vget_eq_getElem b n hb]
  exact this

/-- the exit test, cell by cell -/
theorem converged_pointwise (cfg : Cfg α) (v v' i i' : Vec α) (h : converged cfg v v' i i' = true) :
    (∀ n, n < v.size → n < v'.size → |vget v n - vget v' n| ≤ cfg.atol + cfg.vtol * |vget v' n|) ∧
    (∀ n, n < i.size → n < i'.size → |vget i n - vget i' n| ≤ cfg.atol + cfg.itol * |vget i' n|) := by
  unfold converged at h
  rw [Bool.and_eq_true] at h
  exact ⟨fun n a b => allClose_pointwise _ _ v v' h.1 n a b, fun n a b => allClose_pointwise _ _ i i' h.2 n a b⟩

theorem init_sizes (s : SSys α) (phase : String) :
    (s.init phase).1.size = s.hidx ∧ (s.init phase).2.1.size = s.hidx := by
  unfold SSys.init
  simp

/-- every iterate of the loop has `hidx` cells -/
theorem loop_sizes (s : SSys α) (cfg : Cfg α) (phase : String) :
    ∀ (fuel : Nat) (v i : Vec α) (st : St) (it : Nat) (r : SolveOut α),
      v.size = s.hidx → i.size = s.hidx → s.loop cfg phase fuel v i st it = .ok r →
      r.v.size = s.hidx ∧ r.i.size = s.hidx := by
  intro fuel
  induction fuel with
  | zero =>
    intro v i st it r hv hi h
    simp only [SSys.loop, Except.ok.injEq] at h
    subst h; exact ⟨hv, hi⟩
  | succ n ih =>
    intro v i st it r hv hi h
    unfold SSys.loop at h
    cases hf : s.fwdProp phase v i st with
    | error e => rw [hf] at h; simp [bind, Except.bind] at h
    | ok p =>
      obtain ⟨v', st'⟩ := p
      rw [hf] at h
      simp only [bind, Except.bind] at h
      split_ifs at h with hc
      · simp only [Except.ok.injEq] at h
        subst h; exact ⟨hv, hi⟩
      · exact ih _ _ _ _ _ (C16.fwdProp_pointwise s phase v i st v' st' hf).1
          (C16.backProp_pointwise s phase v' i st).1 h

theorem solvePhase_sizes (s : SSys α) (cfg : Cfg α) (phase : String) (r : SolveOut α)
    (h : s.solvePhase cfg phase = .ok r) : r.v.size = s.hidx ∧ r.i.size = s.hidx := by
  unfold SSys.solvePhase at h
  cases hr : s.solveRaw cfg phase with
  | error e => rw [hr] at h; simp [bind, Except.bind] at h
  | ok r0 =>
    rw [hr] at h
    simp only [bind, Except.bind] at h
    split_ifs at h with hgt
    simp only [pure, Except.pure, Except.ok.injEq] at h
    subst h
    unfold SSys.solveRaw at hr
    exact loop_sizes s cfg phase _ _ _ _ _ _ (init_sizes s phase).1 (init_sizes s phase).2 hr

/-! ### 3. The statement that replaces exactness -/

/-- any triple on which the exit test fired (`C03.ConvergedAt`, the conclusion of `C03.loop_spec`): the next
    sweep moves every cell by at most `atol + rtol·|new value|` -/
theorem convergedAt_bound (s : SSys α) (cfg : Cfg α) (phase : String) (v i : Vec α) (st : St)
    (h : C03.ConvergedAt s cfg phase v i st) :
    ∃ v' st', s.fwdProp phase v i st = .ok (v', st') ∧
      (∀ n, n < v.size → n < s.hidx → |vget v n - vget v' n| ≤ cfg.atol + cfg.vtol * |vget v' n|) ∧
      (∀ n, n < i.size → n < s.hidx →
        |vget i n - vget (s.backProp phase v' i st) n| ≤
          cfg.atol + cfg.itol * |vget (s.backProp phase v' i st) n|) := by
  obtain ⟨v', st', hf, hc⟩ := h
  obtain ⟨h1, h2⟩ := converged_pointwise cfg _ _ _ _ hc
  have sv := (C16.fwdProp_pointwise s phase v i st v' st' hf).1
  have si := (C16.backProp_pointwise s phase v' i st).1
  exact ⟨v', st', hf, fun n a b => h1 n a (by rw [sv]; exact b), fun n a b => h2 n a (by rw [si]; exact b)⟩

/-- **Tolerance exit.**  Whatever `solve()` returns for a phase (a return of `solvePhase` is always an exit by
    the convergence test, never by `maxiter`): the next forward sweep `v'` and backward sweep `i'` exist and
    differ from the returned vectors, in every cell, by at most `atol + vtol·|v' n|` resp. `atol + itol·|i' n|`. -/
theorem tolerance_exit_bound (s : SSys α) (cfg : Cfg α) (phase : String) (r : SolveOut α)
    (h : s.solvePhase cfg phase = .ok r) :
    ∃ v' st', s.fwdProp phase r.v r.i r.st = .ok (v', st') ∧
      ∀ n, n < s.hidx →
        |vget r.v n - vget v' n| ≤ cfg.atol + cfg.vtol * |vget v' n| ∧
        |vget r.i n - vget (s.backProp phase v' r.i r.st) n| ≤
          cfg.atol + cfg.itol * |vget (s.backProp phase v' r.i r.st) n| := by
  obtain ⟨v', st', hf, h1, h2⟩ := convergedAt_bound s cfg phase r.v r.i r.st (C03.solvePhase_sound s cfg phase r h)
  obtain ⟨sv, si⟩ := solvePhase_sizes s cfg phase r h
  exact ⟨v', st', hf, fun n hn => ⟨h1 n (by rw [sv]; exact hn) hn, h2 n (by rw [si]; exact hn) hn⟩⟩

/-- **A dead component's reported cells are within `atol` of 0 — never more.**  `n` is a single-supply
    component (not a Source, not a PMux) fed from `p`; `(v', _)` is the forward sweep that confirmed convergence.
    If that sweep finds `p` dead (0 V in the returned `v`, or flagged off) then `|v n| ≤ atol`; if the backward
    sweep finds `p` dead (0 V in `v'`, or flagged off) then `|i n| ≤ atol`. -/
theorem dead_cell_within_atol (s : SSys α) (cfg : Cfg α) (phase : String) (r : SolveOut α)
    (h : s.solvePhase cfg phase = .ok r) (n p : Nat) (hsingle : Single s n p) :
    ∃ v' st', s.fwdProp phase r.v r.i r.st = .ok (v', st') ∧
      (vget r.v p = 0 ∨ sget r.st p = true → |vget r.v n| ≤ cfg.atol) ∧
      (vget v' p = 0 ∨ sget r.st p = true → |vget r.i n| ≤ cfg.atol) := by
  obtain ⟨v', st', hf, hb⟩ := tolerance_exit_bound s cfg phase r h
  obtain ⟨nd, hn, hnode, hpar, hs, hm⟩ := hsingle
  obtain ⟨bv, bi⟩ := hb n (lt_hidx_of_node s n nd hnode)
  refine ⟨v', st', hf, fun hd => ?_, fun hd => ?_⟩
  · have h0 := (fwd_dead_single s phase r.v r.i r.st v' st' hf n p nd hn hnode hpar hs hm hd).1
    rw [h0] at bv
    simpa using bv
  · have h0 := back_dead_single s phase v' r.i r.st n p nd hn hnode hpar hs hm hd
    rw [h0] at bi
    simpa using bi

/-- The same with structural hypotheses only: `n` hangs directly below an element `d` that is dead for a
    structural reason (`AlwaysDead`: a 0 V or phase-inactive Source — `C04.alwaysDead_source`) and that the
    returned vector shows at 0 V (which `_sys_init` and every sweep guarantee: `C04.dead_after_k_sweeps` at
    depth 0).  Then `|v n| ≤ atol` and `|i n| ≤ atol`. -/
theorem dead_below_source_within_atol (s : SSys α) (cfg : Cfg α) (phase : String) (r : SolveOut α)
    (h : s.solvePhase cfg phase = .ok r) (n d : Nat) (hsingle : Single s n d)
    (hd : AlwaysDead s phase d) (hdt : d ∈ s.topo) (hdb : d < s.hidx) (hd0 : vget r.v d = 0) :
    |vget r.v n| ≤ cfg.atol ∧ |vget r.i n| ≤ cfg.atol := by
  obtain ⟨v', st', hf, hv, hi⟩ := dead_cell_within_atol s cfg phase r h n d hsingle
  refine ⟨hv (Or.inl hd0), hi (Or.inl ?_)⟩
  obtain ⟨_, _, h3, _⟩ := C16.fwdProp_pointwise s phase r.v r.i r.st v' st' hf
  obtain ⟨x, b, hx, hxv, _⟩ := h3 d hdt hdb
  rw [hxv]; exact hd _ _ _ _ _ hx

/-- **An inactive sleeper's reported current is within `atol + itol·|iis|` of its sleep current.**  `n` is a
    converter (`vo ≠ 0`) / linear regulator / switch, inactive in this phase, fed from `p`, and the backward
    sweep that confirmed convergence finds `p` live (`v' p ≠ 0`) and not flagged off. -/
theorem sleep_current_within_atol (s : SSys α) (cfg : Cfg α) (phase : String) (r : SolveOut α)
    (h : s.solvePhase cfg phase = .ok r) (n p : Nat) (nd : SNode α)
    (hn : n ∈ s.topo) (hnode : s.node? n = some nd) (hpar : nd.parents = [p])
    (hk : nd.comp.kind = .converter ∨ nd.comp.kind = .linreg ∨ nd.comp.kind = .pswitch)
    (hvo : nd.comp.vo ≠ 0 ∨ nd.comp.kind ≠ .converter)
    (hina : (nd.pconf.ctx phase).inactive = true) :
    ∃ v' st', s.fwdProp phase r.v r.i r.st = .ok (v', st') ∧
      (vget v' p ≠ 0 → sget r.st p = false →
        |vget r.i n - nd.comp.iis| ≤ cfg.atol + cfg.itol * |nd.comp.iis|) := by
  obtain ⟨v', st', hf, hb⟩ := tolerance_exit_bound s cfg phase r h
  have hlt := lt_hidx_of_node s n nd hnode
  obtain ⟨_, bi⟩ := hb n hlt
  refine ⟨v', st', hf, fun hlive hoff => ?_⟩
  obtain ⟨_, b2, _⟩ := C16.backProp_pointwise s phase v' r.i r.st
  have hi : vget (s.backProp phase v' r.i r.st) n = nd.comp.iis := by
    rw [b2 n hn hlt]
    unfold SSys.backAt
    simp only [hnode, SSys.lawArgs, hpar, List.isEmpty_cons, Bool.false_eq_true, if_false, List.map_cons,
      List.map_nil]
    exact (sleep_current nd.comp hk hvo [vget v' p] _ _ [sget r.st p] (by simpa using hlive)
      (by simpa [off0] using hoff) hina).2
  rw [hi] at bi
  exact bi

/-! ### 4. Zero tolerances: a convergence exit is an exact fixed point -/

theorem vec_ext (a b : Vec α) (hs : a.size = b.size) (h : ∀ n, n < a.size → vget a n = vget b n) : a = b := by
  apply Array.ext hs
  intro n h1 h2
  have := h n h1
  rwa [vget_eq_getElem a n h1, vget_eq_getElem b n h2] at this

/-- **Exactness at zero tolerance.**  With `atol = vtol = itol = 0` whatever `solve()` returns for a phase is
    reproduced exactly by one more forward and one more backward sweep. -/
theorem atol_zero_exact (s : SSys α) (cfg : Cfg α) (phase : String) (r : SolveOut α)
    (ha : cfg.atol = 0) (hv : cfg.vtol = 0) (hi : cfg.itol = 0)
    (h : s.solvePhase cfg phase = .ok r) :
    ∃ st', s.fwdProp phase r.v r.i r.st = .ok (r.v, st') ∧ s.backProp phase r.v r.i r.st = r.i := by
  obtain ⟨v', st', hf, hb⟩ := tolerance_exit_bound s cfg phase r h
  obtain ⟨sv, si⟩ := solvePhase_sizes s cfg phase r h
  have sv' := (C16.fwdProp_pointwise s phase r.v r.i r.st v' st' hf).1
  have e1 : r.v = v' := by
    apply vec_ext _ _ (by rw [sv, sv'])
    intro n hn
    have := (hb n (by rw [← sv]; exact hn)).1
    rw [ha, hv, zero_mul, add_zero] at this
    exact sub_eq_zero.mp (abs_nonpos_iff.mp this)
  subst e1
  have si' := (C16.backProp_pointwise s phase r.v r.i r.st).1
  have e2 : r.i = s.backProp phase r.v r.i r.st := by
    apply vec_ext _ _ (by rw [si, si'])
    intro n hn
    have := (hb n (by rw [← si]; exact hn)).2
    rw [ha, hi, zero_mul, add_zero] at this
    exact sub_eq_zero.mp (abs_nonpos_iff.mp this)
  exact ⟨st', hf, e2.symm⟩

/-- … so the exact statement `C04.dead_rows` applies to what `solve()` returns: every node below an element at
    0 V has an all-zero row. -/
theorem atol_zero_dead_rows (s : SSys α) (cfg : Cfg α) (phase : String) (ta : α) (r : SolveOut α)
    (ha : cfg.atol = 0) (hv : cfg.vtol = 0) (hi : cfg.itol = 0)
    (h : s.solvePhase cfg phase = .ok r)
    (d : Nat) (hdead : vget r.v d = 0) (n : Nat) (hbel : Below s r.v d n) (hch : ChildsOK s n) (dom : String) :
    (s.compRow phase ta r.v r.i r.st n dom).1.vin = some 0 ∧
    (s.compRow phase ta r.v r.i r.st n dom).1.vout = some 0 ∧
    (s.compRow phase ta r.v r.i r.st n dom).1.iin = some 0 ∧
    (s.compRow phase ta r.v r.i r.st n dom).1.iout = some 0 ∧
    (s.compRow phase ta r.v r.i r.st n dom).1.pwr = some 0 ∧
    (s.compRow phase ta r.v r.i r.st n dom).1.loss = some 0 := by
  obtain ⟨st', hf, hb⟩ := atol_zero_exact s cfg phase r ha hv hi h
  exact dead_rows_of_sweeps s phase ta r.v r.i r.st st' hf hb d hdead n hbel hch dom

/-! ### 1, 2. The witnesses of finding F38 (concrete systems over ℚ) -/
namespace Wit

def mkC (name : String) (k : Kind) : Comp ℚ := { name := name, kind := k, par := .const 0 }

/-- the implementation's defaults: `solve(vtol=1e-6, itol=1e-6, maxiter=10000)`, numpy's `atol = 1e-8` -/
def cfgD : Cfg ℚ := ⟨1/100000000, 1/1000000, 1/1000000, 10000⟩
/-- the same without the absolute tolerance -/
def cfgA0 : Cfg ℚ := { cfgD with atol := 0 }
/-- no tolerance at all -/
def cfg00 : Cfg ℚ := ⟨0, 0, 0, 10000⟩

/-- Source(vo = 0) → ILoad(ii = 5e-10) -/
def sysDead : SSys ℚ where
  nodes := #[
    some { comp := { mkC "S" .source with vo := 0 }, parents := [], childs := [1] },
    some { comp := { mkC "L" .iload with ii := 5/10000000000 }, parents := [0], childs := [] } ]
  topo := [0, 1]

/-- Source(5 V) → PSwitch(iis = 4e-9, active in phase "on" only); phases on / off -/
def sysSleepSw : SSys ℚ where
  nodes := #[
    some { comp := { mkC "S" .source with vo := 5 }, parents := [], childs := [1] },
    some { comp := { mkC "W" .pswitch with iis := 4/1000000000 },
           parents := [0], childs := [], pconf := .names ["on"] } ]
  topo := [0, 1]
  phases := [("on", 1), ("off", 1)]

/-- Source(5 V) → Converter(vo = 3.3, eff = 0.9, iis = 4e-9, active in phase "on" only); phases on / off -/
def sysSleepConv : SSys ℚ where
  nodes := #[
    some { comp := { mkC "S" .source with vo := 5 }, parents := [], childs := [1] },
    some { comp := { mkC "C" .converter with vo := 33/10, par := .const (9/10), iis := 4/1000000000 },
           parents := [0], childs := [], pconf := .names ["on"] } ]
  topo := [0, 1]
  phases := [("on", 1), ("off", 1)]

/-- Source(0 V) → PSwitch → Converter(vo = 5e-9) → Converter(vo = 3.3) → ILoad(1 A) -/
def sysDeep : SSys ℚ where
  nodes := #[
    some { comp := { mkC "S" .source with vo := 0 }, parents := [], childs := [1] },
    some { comp := mkC "W" .pswitch, parents := [0], childs := [2] },
    some { comp := { mkC "C1" .converter with vo := 5/1000000000, par := .const (9/10) },
           parents := [1], childs := [3] },
    some { comp := { mkC "C2" .converter with vo := 33/10, par := .const (9/10) },
           parents := [2], childs := [4] },
    some { comp := { mkC "L" .iload with ii := 1 }, parents := [3], childs := [] } ]
  topo := [0, 1, 2, 3, 4]

/-- the cells `(Vin, Vout, Iin, Iout, Power, Loss)` of the row `solve()` reports for node `n` -/
def cells (s : SSys ℚ) (cfg : Cfg ℚ) (phase : String) (n : Nat) (dom : String) :
    Option (Nat × List (Option ℚ)) :=
  match s.solvePhase cfg phase with
  | .ok r =>
    let row := (s.compRow phase 25 r.v r.i r.st n dom).1
    some (r.iters, [row.vin, row.vout, row.iin, row.iout, row.pwr, row.loss])
  | .error _ => none

end Wit
open Wit

/-- **F38, first face.**  Source(0 V) → ILoad(5e-10 A) with the implementation's default tolerances: the solver
    returns after ONE sweep and the load's row shows Iin = 5e-10 A (the initial guess) on a 0 V supply —
    the exact-zero clause of C04 is false of the model at a tolerance exit, exactly as of the implementation.
    Without the absolute tolerance the same system takes two sweeps and the row is all zero. -/
theorem f38_dead_supply_witness :
    cells sysDead cfgD "" 1 "S" =
      some (1, [some 0, some 0, some (5/10000000000), some 0, some 0, some 0]) ∧
    ¬ (∃ k, cells sysDead cfgD "" 1 "S" = some (k, [some 0, some 0, some 0, some 0, some 0, some 0])) ∧
    cells sysDead cfgA0 "" 1 "S" = some (2, [some 0, some 0, some 0, some 0, some 0, some 0]) := by
  have h1 : cells sysDead cfgD "" 1 "S" =
      some (1, [some 0, some 0, some (5/10000000000), some 0, some 0, some 0]) := by decide +kernel
  refine ⟨h1, ?_, by decide +kernel⟩
  rintro ⟨k, hk⟩
  rw [h1] at hk
  norm_num at hk

/-- **F38, second face.**  Source(5 V) → PSwitch(iis = 4e-9 A, active in phase "on" only), phase "off", default
    tolerances: one sweep; the switch's row shows Iin = 0 although Vin = 5 V and its Power / Loss cells are
    `4e-9 · 5 = 2e-8` W.  Without the absolute tolerance: three sweeps, Iin = 4e-9 A. -/
theorem f38_sleep_current_witness :
    cells sysSleepSw cfgD "off" 1 "S" =
      some (1, [some 5, some 0, some 0, some 0, some (2/100000000), some (2/100000000)]) ∧
    cells sysSleepSw cfgA0 "off" 1 "S" =
      some (3, [some 5, some 0, some (4/1000000000), some 0, some (2/100000000), some (2/100000000)]) := by
  constructor <;> decide +kernel

/-- The system quoted in `F38-C04-ATOL-SLEEP` (a sleeping Converter instead of a switch).  The converter's own
    row is right already at the default tolerances (Iin = 4e-9: a converter's initial guess is its sleep
    current); the row of the SOURCE is not: Iout = 0, Power = 0 while its only child draws 4e-9 A.
    Without the absolute tolerance the source row shows Iout = 4e-9 A, Power = 2e-8 W. -/
theorem f38_sleep_converter_witness :
    cells sysSleepConv cfgD "off" 1 "S" =
      some (1, [some 5, some 0, some (4/1000000000), some 0, some (2/100000000), some (2/100000000)]) ∧
    cells sysSleepConv cfgD "off" 0 "S" = some (1, [some 5, some 5, some 0, some 0, some 0, some 0]) ∧
    cells sysSleepConv cfgA0 "off" 0 "S" =
      some (2, [some 5, some 5, some (4/1000000000), some (4/1000000000), some (2/100000000), some 0]) := by
  refine ⟨?_, ?_, ?_⟩ <;> decide +kernel

/-- **Why the bounds stop one level below the dead element** (a third face of F38, reproduced on the
    implementation).  Source(0 V) → PSwitch → Converter(vo = 5e-9 V) → Converter(3.3 V) → ILoad(1 A), default
    tolerances: ONE sweep; the load four levels below the 0 V source is reported at Vin = 3.3 V drawing 1 A
    (3.3 W), the second converter at Vout = 3.3 V, Iout = 1 A.  (The first converter's initial guess, 5e-9 V,
    is non-zero and not flagged, so the second converter regulates from it; the sweep corrects the first
    converter to 0 V — a change below `atol` — and nothing else moves.)  Without the absolute tolerance: three
    sweeps, all rows zero. -/
theorem deep_not_bounded_witness :
    cells sysDeep cfgD "" 4 "S" = some (1, [some (33/10), some 0, some 1, some 0, some (33/10), some 0]) ∧
    cells sysDeep cfgD "" 3 "S" =
      some (1, [some (5/1000000000), some (33/10), some 0, some 1, some 0, some 0]) ∧
    cells sysDeep cfgA0 "" 4 "S" = some (3, [some 0, some 0, some 0, some 0, some 0, some 0]) := by
  refine ⟨?_, ?_, ?_⟩ <;> decide +kernel

/-! ### Non-vacuity of 3 and 4 on the witnesses -/

-- `tolerance_exit_bound`, `dead_cell_within_atol`, `dead_below_source_within_atol`: hypotheses hold on `sysDead`
example : ∃ r, sysDead.solvePhase cfgD "" = .ok r ∧ Single sysDead 1 0 ∧ AlwaysDead sysDead "" 0 ∧
    vget r.v 0 = 0 ∧ vget r.i 1 ≠ 0 ∧ |vget r.v 1| ≤ cfgD.atol ∧ |vget r.i 1| ≤ cfgD.atol := by
  have hok : (match sysDead.solvePhase cfgD "" with | .ok _ => true | .error _ => false) = true := by
    decide +kernel
  cases hr : sysDead.solvePhase cfgD "" with
  | error e => rw [hr] at hok; cases hok
  | ok r =>
    have hs : Single sysDead 1 0 := ⟨_, by decide, rfl, rfl, by decide, by decide⟩
    have hd := (alwaysDead_source sysDead "" 0 _ rfl rfl (Or.inl rfl)).1
    have h0 : vget r.v 0 = 0 ∧ vget r.i 1 ≠ 0 := by
      have : (match sysDead.solvePhase cfgD "" with
        | .ok r => decide (vget r.v 0 = 0 ∧ vget r.i 1 ≠ 0) | .error _ => false) = true := by decide +kernel
      rw [hr] at this
      exact of_decide_eq_true this
    obtain ⟨a, b⟩ := dead_below_source_within_atol sysDead cfgD "" r hr 1 0 hs hd (by decide) (by decide) h0.1
    exact ⟨r, rfl, hs, hd, h0.1, h0.2, a, b⟩

-- `sleep_current_within_atol`: hypotheses hold on `sysSleepSw`, phase "off" (reported 0, sleep current 4e-9)
example : ∃ r, sysSleepSw.solvePhase cfgD "off" = .ok r ∧ vget r.i 1 = 0 ∧
    |vget r.i 1 - 4/1000000000| ≤ cfgD.atol + cfgD.itol * |(4/1000000000 : ℚ)| := by
  have hok : (match sysSleepSw.solvePhase cfgD "off" with | .ok _ => true | .error _ => false) = true := by
    decide +kernel
  cases hr : sysSleepSw.solvePhase cfgD "off" with
  | error e => rw [hr] at hok; cases hok
  | ok r =>
    obtain ⟨v', st', hf, hb⟩ := sleep_current_within_atol sysSleepSw cfgD "off" r hr 1 0 _ (by decide) rfl rfl
      (Or.inr (Or.inr rfl)) (Or.inr (by decide)) (by decide)
    have h0 : vget r.i 1 = 0 ∧ sget r.st 0 = false ∧
        (∀ v' st', sysSleepSw.fwdProp "off" r.v r.i r.st = .ok (v', st') → vget v' 0 ≠ 0) := by
      have : (match sysSleepSw.solvePhase cfgD "off" with
        | .ok r => decide (vget r.i 1 = 0 ∧ sget r.st 0 = false) &&
            (match sysSleepSw.fwdProp "off" r.v r.i r.st with
              | .ok (v', _) => decide (vget v' 0 ≠ 0) | .error _ => true)
        | .error _ => false) = true := by decide +kernel
      rw [hr] at this
      rw [Bool.and_eq_true] at this
      obtain ⟨t1, t2⟩ := this
      have t1' := of_decide_eq_true t1
      refine ⟨t1'.1, t1'.2, fun v' st' hf' => ?_⟩
      rw [hf'] at t2
      exact of_decide_eq_true t2
    exact ⟨r, rfl, h0.1, hb (h0.2.2 v' st' hf) h0.2.1⟩

-- `atol_zero_exact`, `atol_zero_dead_rows`: `sysDead` with all tolerances 0 returns, and the load's row is zero
example : ∃ r, sysDead.solvePhase cfg00 "" = .ok r ∧
    (sysDead.compRow "" 25 r.v r.i r.st 1 "S").1.iin = some 0 := by
  have hok : (match sysDead.solvePhase cfg00 "" with | .ok _ => true | .error _ => false) = true := by
    decide +kernel
  cases hr : sysDead.solvePhase cfg00 "" with
  | error e => rw [hr] at hok; cases hok
  | ok r =>
    have h0 : vget r.v 0 = 0 := by
      have : (match sysDead.solvePhase cfg00 "" with
        | .ok r => decide (vget r.v 0 = 0) | .error _ => false) = true := by decide +kernel
      rw [hr] at this
      exact of_decide_eq_true this
    exact ⟨r, rfl, (atol_zero_dead_rows sysDead cfg00 "" 25 r rfl rfl rfl hr 0 h0 1
      (Below.child ⟨_, by decide, rfl, rfl, by decide, by decide⟩)
      (childsOK_of_b _ _ (by decide)) "S").2.2.1⟩

end C04A
end SysLoss
