/-
  Props/C03Const — C03, liveness clause, third class: CURRENT-dependent drops with voltage-independent
  currents.  (First class, current-independent voltage laws: `Props/C03Live.lean`; second, star contraction:
  `Props/C03Contract.lean`.)

  Class: single-supply trees (`SingleSupplyTree`: no PMux, every non-root has exactly one parent, roots are
  Sources, rank functions `depth` / `height` ≤ `D` given as data) whose non-root nodes are
    ILoad                      (|Iin| constant: `nabs (loadVal ii iis phase)`),
    RLoss(rs), VLoss(vdrop: const OR any table with an upper bound), diode Rectifier (same)      Iin = Io,
    LinReg, PSwitch(rs), MOSFET Rectifier(rs, scalar) with a ground current that does not read the voltage
                               (`VIndep par`: `const g` or a 1-D table over `io`)                 Iin = Io + g(Io),
  under Sources(vo, rs).  Series resistances `rs ≥ 0` are ARBITRARY — the drops depend on the current, the
  voltage iteration is not finite-settling in the sense of C03Live.  No PLoad / RLoad / Converter / PMux
  (`EdgeOK` is `False` for them).

  Certificate (`ConstCert s ph lo im`, checkable by `norm_num` on the description): `lo n > 0` is a lower bound
  on the magnitude of any non-zero voltage node `n` outputs, `im n ≥ 0` an upper bound on its input current;
  per node (`EdgeOK` / `RootOK`), with `imo = Σ_{children} im`:
     rs ≥ 0,  lo n ≤ lo(parent) − rs·imo   (RLoss, PSwitch; `2·rs` for the MOSFET bridge; `|vo| − rs·imo` for a Source)
     lo n ≤ lo(parent) − dmax              (VLoss; `2·dmax` diode bridge),   lo n ≤ min |vo| (lo(parent) − vdrop)  (LinReg)
     imo (+ gmax) ≤ im n,   |ii| ≤ im n and ii ≤ im n (ILoad),   component active in the phase (non-loads),
     every node listed in `topo`, every parent holds a non-load node; a negative Source only with rs = 0 (F01).

  Delivered (all about the existing `SSys.fwdProp / backProp / loop / solvePhase / init`):
   * `inv_all`, `inv_of_iterate`, `const_noraise`   EVERY iterate of the pass from `init` exists (no guard fires,
         ever) and satisfies `CInv`: voltages 0 or ≥ `lo`, currents ≤ `im`, and every non-load node that is a
         root or has depth ≤ k is live (non-zero, unflagged) in iterate k.  The invariant that works is the pair
         of one-sided bounds — no monotonicity of the currents is needed (and none holds: see below).
   * `all_live`                phase A: from iterate `D` on every non-load node is live
   * `curr_settle`             phase B: after `k ≥ D + j` passes two consecutive passes agree on the currents of
                               all nodes of height ≤ j (leaves first)
   * `volt_settle`             phase C: after `k ≥ D + H + 1 + j` passes they agree on voltage and flag of all
                               roots and all nodes of depth ≤ j
   * `const_eventually_fixed_height_partial` / `const_eventually_fixed_partial`
                               iterate `2D + H + 2` (resp. `3D + 2`) is an EXACT fixed point of the pass
   * `constant_current_settling_height_partial` / `constant_current_settling_partial`
                               `maxiter ≥ 2D + H + 3` (resp. `3D + 3`), tolerances ≥ 0 ⟹ `solvePhase = .ok r`,
                               `r.iters` ≤ that bound, `ConvergedAt` — never RuntimeError, never "Unstable system"
   * `constant_current_settling_full` / `_full_fails`   the class WITHOUT the certificate is not live:
                               Source(1 V, 10 Ω) → ILoad(1 A) raises.

  Why `3D + 2` and not `height + depth + 2`: the initial guess is NOT live.  `_get_outp_voltage` is 0 for every
  RLoss / VLoss / PSwitch / Rectifier (and for loads), so in the first pass every node below such an element
  reads 0 V, outputs `(0, off)` and draws 0 A (an ILoad two levels below a series element starts at `ii`, drops
  to 0, and comes back): liveness spreads one level per pass from the root (phase A, `D` passes) before the
  leaves-first settling of the currents can start.  On a chain Source → RLoss × (D−1) → ILoad the source current
  is final only at iterate `2D` and the last voltage at `3D − 1`, so the bound is tight up to an additive constant.

  Why `_partial`: (1) single-supply trees only (no PMux); (2) the class above — no PLoad, RLoad, Converter, no
  ground-current table that reads the voltage (2-D `ig`); (3) everything active in the phase (no dead or
  sleeping sub-tree: `pc.inactive = false` for all non-loads; loads may use their phase table); (4) the margin
  certificate, which is sufficient, not necessary (it bounds the worst case `rs · Σ im`).
-/
import SysLoss.Props.C03Live
import Mathlib.Algebra.Order.BigOperators.Group.List

set_option linter.unusedSectionVars false
set_option linter.unusedVariables false

namespace SysLoss
namespace C03
variable {α : Type} [Field α] [LinearOrder α] [IsStrictOrderedRing α]

/-! ### 1. the class and its certificate -/

/-- a tabulated / constant parameter that does not read its voltage argument (`const`, `tab1`) -/
def VIndep (p : Param α) : Prop := ∀ x y y', p.interp x y = p.interp x y'

theorem vindep_const (g : α) : VIndep (Param.const g) := fun _ _ _ => rfl
theorem vindep_tab1 (xs fs : List α) : VIndep (Param.tab1 xs fs) := fun _ _ _ => rfl

/-- What a non-root node `n` (component `c`, phase context `pc`) needs.
    `lop` / `lon` : lower bounds on the non-zero |V| of the parent / of `n`;
    `imo` : upper bound on the output current of `n` (sum of the children's bounds);
    `imn` : upper bound on the input current of `n`. -/
def EdgeOK (c : Comp α) (pc : PhaseCtx α) (lop lon imo imn : α) : Prop :=
  match c.kind with
  | .iload => nabs (loadVal c.ii c.iis pc) ≤ imn ∧ c.ii ≤ imn
  | .rloss => 0 < lon ∧ 0 ≤ c.rs ∧ lon ≤ lop - c.rs * imo ∧ imo ≤ imn
  | .vloss => 0 < lon ∧ (∃ d, (∀ x y, c.par.interp x y ≤ d) ∧ lon ≤ lop - d) ∧ imo ≤ imn
  | .linreg => 0 < lon ∧ pc.inactive = false ∧ lon ≤ min |c.vo| (lop - c.vdrop) ∧ VIndep c.par ∧
      ∃ g, (∀ x y, c.par.interp x y ≤ g) ∧ imo + g ≤ imn
  | .pswitch => 0 < lon ∧ pc.inactive = false ∧ 0 ≤ c.rs ∧ lon ≤ lop - c.rs * imo ∧ VIndep c.par ∧
      ∃ g, (∀ x y, c.par.interp x y ≤ g) ∧ imo + g ≤ imn
  | .rectifier =>
    if c.diode = true then
      0 < lon ∧ (∃ d, (∀ x y, c.par.interp x y ≤ d) ∧ lon ≤ lop - 2 * d) ∧ imo ≤ imn
    else
      0 < lon ∧ c.rsList = none ∧ 0 ≤ c.rs ∧ lon ≤ lop - 2 * c.rs * imo ∧ VIndep c.par ∧ c.iq ≤ imn ∧
        ∃ g, (∀ x y, c.par.interp x y ≤ g) ∧ imo + g ≤ imn
  | _ => False

/-- What a root `Source` needs (a negative EMF only with `rs = 0`: see finding F01). -/
def RootOK (c : Comp α) (pc : PhaseCtx α) (lon imo imn : α) : Prop :=
  pc.inactive = false ∧ 0 < lon ∧ 0 ≤ c.rs ∧ lon ≤ |c.vo| - c.rs * imo ∧ (c.vo < 0 → c.rs = 0) ∧ imo ≤ imn

/-! ### 2. component lemmas -/

theorem edge_volt (c : Comp α) (pc : PhaseCtx α) (lop lon imo imn : α)
    (h : EdgeOK c pc lop lon imo imn) (vi : List α) (io : α) (off : List Bool)
    (ha : vi.headD 0 = 0 ∨ lop ≤ |vi.headD 0|) (hio : io ≤ imo) :
    ∃ x b', c.solvOutpVolt vi io pc off = .ok (x, b') ∧
      ((x = 0 ∧ (c.kind = .iload ∨ vi.headD 0 = 0 ∨ off0 off = true)) ∨ (lon ≤ |x| ∧ 0 < lon ∧ b' = false)) := by
  unfold EdgeOK at h
  unfold Comp.solvOutpVolt
  generalize vi.headD 0 = a at ha ⊢
  generalize off0 off = b at ⊢
  cases hk : c.kind <;> simp only [hk] at h ⊢
  · exact ⟨0, b, rfl, Or.inl ⟨rfl, Or.inl (by simp)⟩⟩
  · -- rloss
    obtain ⟨h0, hrs, hlo, _⟩ := h
    by_cases hz : (isZ a || b) = true
    · rw [if_pos hz]; exact ⟨0, true, rfl, Or.inl ⟨rfl, Or.inr (by simpa using hz)⟩⟩
    · rw [if_neg hz]
      have hne : a ≠ 0 := by intro e; apply hz; simp [e]
      have hl : lop ≤ |a| := ha.resolve_left hne
      have hm : c.rs * io ≤ c.rs * imo := mul_le_mul_of_nonneg_left hio hrs
      rcases lt_or_gt_of_ne hne with hneg | hpos
      · rw [nsign_of_neg hneg]
        rw [abs_of_neg hneg] at hl
        have hvo : a - c.rs * io * -1 < 0 := by linarith
        rw [if_pos ((eqB_iff _ _).mpr (by rw [nsign_of_neg hvo]))]
        exact ⟨_, false, rfl, Or.inr ⟨by rw [abs_of_neg hvo]; linarith, h0, rfl⟩⟩
      · rw [nsign_of_pos hpos]
        rw [abs_of_pos hpos] at hl
        have hvo : 0 < a - c.rs * io * 1 := by linarith
        rw [if_pos ((eqB_iff _ _).mpr (by rw [nsign_of_pos hvo]))]
        exact ⟨_, false, rfl, Or.inr ⟨by rw [abs_of_pos hvo]; linarith, h0, rfl⟩⟩
  · -- vloss
    obtain ⟨h0, ⟨d, hd, hlo⟩, _⟩ := h
    by_cases hz : (isZ a || b) = true
    · rw [if_pos hz]; exact ⟨0, true, rfl, Or.inl ⟨rfl, Or.inr (by simpa using hz)⟩⟩
    · rw [if_neg hz]
      have hne : a ≠ 0 := by intro e; apply hz; simp [e]
      have hl : lop ≤ |a| := ha.resolve_left hne
      have hm := hd (nabs io) (nabs a)
      rcases lt_or_gt_of_ne hne with hneg | hpos
      · rw [nsign_of_neg hneg]
        rw [abs_of_neg hneg] at hl
        have hvo : a - c.par.interp (nabs io) (nabs a) * -1 < 0 := by linarith
        rw [if_pos ((eqB_iff _ _).mpr (by rw [nsign_of_neg hvo]))]
        exact ⟨_, false, rfl, Or.inr ⟨by rw [abs_of_neg hvo]; linarith, h0, rfl⟩⟩
      · rw [nsign_of_pos hpos]
        rw [abs_of_pos hpos] at hl
        have hvo : 0 < a - c.par.interp (nabs io) (nabs a) * 1 := by linarith
        rw [if_pos ((eqB_iff _ _).mpr (by rw [nsign_of_pos hvo]))]
        exact ⟨_, false, rfl, Or.inr ⟨by rw [abs_of_pos hvo]; linarith, h0, rfl⟩⟩
  · -- linreg
    obtain ⟨h0, hact, hlo, _⟩ := h
    by_cases hz : (isZ a || b) = true
    · rw [if_pos hz]; exact ⟨0, true, rfl, Or.inl ⟨rfl, Or.inr (by simpa using hz)⟩⟩
    · rw [if_neg hz]
      have hne : a ≠ 0 := by intro e; apply hz; simp [e]
      have hl : lop ≤ |a| := ha.resolve_left hne
      have hv : lon ≤ linregV c.vo c.vdrop a := by
        unfold linregV
        simp only [nmin_eq_min, nmax_eq_max, nabs_eq_abs]
        exact le_trans hlo (min_le_min le_rfl (le_trans (by linarith) (le_max_left _ _)))
      have hv0 : 0 ≤ linregV c.vo c.vdrop a := le_trans h0.le hv
      simp only [hact, Bool.false_eq_true, if_false]
      split_ifs
      · exact ⟨_, false, rfl, Or.inr ⟨by rw [abs_neg, abs_of_nonneg hv0]; exact hv, h0, rfl⟩⟩
      · exact ⟨_, false, rfl, Or.inr ⟨by rw [abs_of_nonneg hv0]; exact hv, h0, rfl⟩⟩
  · -- pswitch
    obtain ⟨h0, hact, hrs, hlo, _⟩ := h
    by_cases hz : (isZ a || b) = true
    · rw [if_pos hz]; exact ⟨0, true, rfl, Or.inl ⟨rfl, Or.inr (by simpa using hz)⟩⟩
    · rw [if_neg hz]
      have hne : a ≠ 0 := by intro e; apply hz; simp [e]
      have hl : lop ≤ |a| := ha.resolve_left hne
      have hm : c.rs * io ≤ c.rs * imo := mul_le_mul_of_nonneg_left hio hrs
      have hpos : 0 < |a| - c.rs * io := by linarith
      simp only [hact, Bool.false_eq_true, if_false, nabs_eq_abs, hpos, decide_true, Bool.not_true]
      split_ifs
      · exact ⟨_, false, rfl, Or.inr ⟨by rw [abs_neg, abs_of_pos hpos]; linarith, h0, rfl⟩⟩
      · exact ⟨_, false, rfl, Or.inr ⟨by rw [abs_of_pos hpos]; linarith, h0, rfl⟩⟩
  · -- rectifier
    by_cases hz : (isZ a || b) = true
    · rw [if_pos hz]; exact ⟨0, true, rfl, Or.inl ⟨rfl, Or.inr (by simpa using hz)⟩⟩
    · rw [if_neg hz]
      have hne : a ≠ 0 := by intro e; apply hz; simp [e]
      have hl : lop ≤ |a| := ha.resolve_left hne
      by_cases hdi : c.diode = true
      · rw [if_pos hdi] at h ⊢
        obtain ⟨h0, ⟨d, hd, hlo⟩, _⟩ := h
        have hm := hd (nabs io) (nabs a)
        rcases lt_or_gt_of_ne hne with hneg | hpos
        · rw [nsign_of_neg hneg]
          rw [abs_of_neg hneg] at hl
          have hvo : a - 2 * c.par.interp (nabs io) (nabs a) * -1 < 0 := by linarith
          rw [if_pos ((eqB_iff _ _).mpr (by rw [nsign_of_neg hvo]))]
          exact ⟨_, false, rfl, Or.inr ⟨by rw [nabs_eq_abs, abs_abs, abs_of_neg hvo]; linarith, h0, rfl⟩⟩
        · rw [nsign_of_pos hpos]
          rw [abs_of_pos hpos] at hl
          have hvo : 0 < a - 2 * c.par.interp (nabs io) (nabs a) * 1 := by linarith
          rw [if_pos ((eqB_iff _ _).mpr (by rw [nsign_of_pos hvo]))]
          exact ⟨_, false, rfl, Or.inr ⟨by rw [nabs_eq_abs, abs_abs, abs_of_pos hvo]; linarith, h0, rfl⟩⟩
      · rw [if_neg hdi] at h
        obtain ⟨h0, hrl, hrs, hlo, _⟩ := h
        have hm : c.rs * io ≤ c.rs * imo := mul_le_mul_of_nonneg_left hio hrs
        have hpos : 0 < |a| - 2 * c.rs * io := by linarith
        simp only [hdi, Bool.false_eq_true, if_false, hrl, nabs_eq_abs, hpos, decide_true, Bool.not_true]
        exact ⟨_, false, rfl, Or.inr ⟨by rw [abs_abs, abs_of_pos hpos]; linarith, h0, rfl⟩⟩

/-- the input current of a node of the class never exceeds its bound (whatever the voltages and flags) -/
theorem edge_curr_le (c : Comp α) (pc : PhaseCtx α) (lop lon imo imn : α)
    (h : EdgeOK c pc lop lon imo imn) (h0 : 0 ≤ imn) (vi : List α) (io : α) (off : List Bool)
    (hio : io ≤ imo) : c.solvInpCurr vi io pc off ≤ imn := by
  unfold EdgeOK at h
  unfold Comp.solvInpCurr calcInpCurrent
  generalize vi.headD 0 = a
  generalize off0 off = b
  cases hk : c.kind <;> simp only [hk] at h ⊢
  · split_ifs
    · exact h0
    · exact h.1
  · split_ifs
    · exact h0
    · linarith [h.2.2.2]
  · split_ifs
    · exact h0
    · linarith [h.2.2]
  · obtain ⟨_, hact, _, _, g, hg, hle⟩ := h
    simp only [hact, Bool.false_eq_true, if_false]
    split_ifs
    · exact h0
    · linarith [hg (nabs io) (nabs a)]
  · obtain ⟨_, hact, _, _, _, g, hg, hle⟩ := h
    simp only [hact, Bool.false_eq_true, if_false]
    split_ifs
    · exact h0
    · linarith [hg (nabs io) (nabs a)]
  · by_cases hdi : c.diode = true
    · rw [if_pos hdi] at h
      simp only [hdi, if_true]
      split_ifs
      · exact h0
      · linarith [h.2.2]
    · rw [if_neg hdi] at h
      obtain ⟨_, _, _, _, _, hiq, g, hg, hle⟩ := h
      simp only [hdi, Bool.false_eq_true, if_false]
      split_ifs
      · exact h0
      · exact hiq
      · linarith [hg (nabs io) (nabs a)]

/-- with a live supply (non-zero, unflagged) the input current does not depend on the supply voltage -/
theorem edge_curr_congr (c : Comp α) (pc : PhaseCtx α) (lop lon imo imn : α)
    (h : EdgeOK c pc lop lon imo imn) (vi vi' : List α) (io : α) (off off' : List Bool)
    (ha : vi.headD 0 ≠ 0) (ha' : vi'.headD 0 ≠ 0) (hb : off0 off = false) (hb' : off0 off' = false) :
    c.solvInpCurr vi io pc off = c.solvInpCurr vi' io pc off' := by
  unfold EdgeOK at h
  unfold Comp.solvInpCurr calcInpCurrent
  rw [hb, hb']
  generalize vi.headD 0 = a at ha ⊢
  generalize vi'.headD 0 = a' at ha' ⊢
  have hz : isZ a = false := (isZ_false_iff a).mpr ha
  have hz' : isZ a' = false := (isZ_false_iff a').mpr ha'
  cases hk : c.kind <;> simp only [hk] at h ⊢ <;> simp only [hz, hz', Bool.or_false, Bool.false_eq_true, if_false]
  · rw [h.2.2.2.1 (nabs io) (nabs a) (nabs a')]
  · rw [h.2.2.2.2.1 (nabs io) (nabs a) (nabs a')]
  · by_cases hdi : c.diode = true
    · simp only [hdi, if_true]
    · rw [if_neg hdi] at h
      simp only [hdi, Bool.false_eq_true, if_false]
      rw [h.2.2.2.2.1 (nabs io) (nabs a) (nabs a')]

/-- the solver's initial guess respects the bounds -/
theorem edge_init (c : Comp α) (pc : PhaseCtx α) (lop lon imo imn : α)
    (h : EdgeOK c pc lop lon imo imn) (h0 : 0 ≤ imn) (hio : 0 ≤ imo) :
    (c.initVolt pc = 0 ∨ lon ≤ |c.initVolt pc|) ∧ c.initCurr pc ≤ imn := by
  unfold EdgeOK at h
  unfold Comp.initVolt Comp.initCurr
  cases hk : c.kind <;> simp only [hk] at h ⊢
  · exact ⟨Or.inl (by first | rfl | trivial), h.2⟩
  · exact ⟨Or.inl (by first | rfl | trivial), h0⟩
  · exact ⟨Or.inl (by first | rfl | trivial), h0⟩
  · obtain ⟨_, hact, hlo, _, g, hg, hle⟩ := h
    simp only [hact, Bool.false_eq_true, if_false]
    exact ⟨Or.inr (le_trans hlo (min_le_left _ _)), by linarith [hg 0 0]⟩
  · exact ⟨Or.inl (by first | rfl | trivial), h0⟩
  · exact ⟨Or.inl (by first | rfl | trivial), h0⟩

/-! root `Source` -/

theorem root_volt (c : Comp α) (pc : PhaseCtx α) (lon imo imn : α) (hk : c.kind = .source)
    (h : RootOK c pc lon imo imn) (hio0 : 0 ≤ imo) (vi : List α) (io : α) (off : List Bool)
    (hb : off0 off = false) (hio : io ≤ imo) :
    ∃ x, c.solvOutpVolt vi io pc off = .ok (x, false) ∧ lon ≤ |x| ∧ x ≠ 0 := by
  obtain ⟨hact, h0, hrs, hlo, hneg, _⟩ := h
  unfold Comp.solvOutpVolt
  simp only [hk, hact, hb, Bool.false_eq_true, if_false, Bool.or_false]
  have hm : c.rs * io ≤ c.rs * imo := mul_le_mul_of_nonneg_left hio hrs
  have hm0 : 0 ≤ c.rs * imo := mul_nonneg hrs hio0
  rcases lt_trichotomy c.vo 0 with hv | hv | hv
  · have hr := hneg hv
    have hz : isZ c.vo = false := (isZ_false_iff _).mpr (ne_of_lt hv)
    simp only [hz, Bool.false_eq_true, if_false, hr, zero_mul, sub_zero,
      (eqB_iff (nsign c.vo) (nsign c.vo)).mpr rfl, if_true]
    rw [hr, zero_mul, sub_zero] at hlo
    exact ⟨_, rfl, hlo, ne_of_lt hv⟩
  · rw [hv, abs_zero] at hlo; linarith
  · have hz : isZ c.vo = false := (isZ_false_iff _).mpr (ne_of_gt hv)
    rw [abs_of_pos hv] at hlo
    have hvo : 0 < c.vo - c.rs * io := by linarith
    simp only [hz, Bool.false_eq_true, if_false]
    rw [if_pos ((eqB_iff _ _).mpr (by rw [nsign_of_pos hvo, nsign_of_pos hv]))]
    exact ⟨_, rfl, by rw [abs_of_pos hvo]; linarith, ne_of_gt hvo⟩

theorem root_curr_le (c : Comp α) (pc : PhaseCtx α) (lon imo imn : α) (hk : c.kind = .source)
    (h : RootOK c pc lon imo imn) (hio0 : 0 ≤ imo) (vi : List α) (io : α) (off : List Bool)
    (hio : io ≤ imo) : c.solvInpCurr vi io pc off ≤ imn := by
  obtain ⟨hact, h0, hrs, hlo, hneg, hle⟩ := h
  unfold Comp.solvInpCurr calcInpCurrent
  simp only [hk, hact, Bool.false_eq_true, if_false]
  split_ifs <;> linarith

/-- a `Source` reads of its arguments only the load current and its own flag -/
theorem source_congr (c : Comp α) (pc : PhaseCtx α) (hk : c.kind = .source) (vi vi' : List α) (io : α)
    (off off' : List Bool) (hb : off0 off = off0 off') :
    c.solvOutpVolt vi io pc off = c.solvOutpVolt vi' io pc off' ∧
    c.solvInpCurr vi io pc off = c.solvInpCurr vi' io pc off' := by
  unfold Comp.solvOutpVolt Comp.solvInpCurr
  simp only [hk, hb, and_self]

theorem root_init (c : Comp α) (pc : PhaseCtx α) (lon imo imn : α) (hk : c.kind = .source)
    (h : RootOK c pc lon imo imn) (hio0 : 0 ≤ imo) :
    lon ≤ |c.initVolt pc| ∧ c.initVolt pc ≠ 0 ∧ c.initCurr pc ≤ imn ∧ c.initOff pc = false := by
  obtain ⟨hact, h0, hrs, hlo, hneg, hle⟩ := h
  have hm0 : 0 ≤ c.rs * imo := mul_nonneg hrs hio0
  have hpos : 0 < |c.vo| := by linarith
  have hne : c.vo ≠ 0 := abs_pos.mp hpos
  unfold Comp.initVolt Comp.initCurr Comp.initOff
  simp only [hk, hact, Bool.false_eq_true, if_false, Bool.or_false]
  exact ⟨by linarith, hne, by linarith, (isZ_false_iff _).mpr hne⟩

/-! ### 3. what a pass hands to a law on a single-supply tree -/

/-- the load current handed to the laws of node `nd`: the sum of the children's input currents -/
def ioS (s : SSys α) (nd : SNode α) (i : Vec α) : α :=
  if nd.childs.isEmpty then 0
  else sumL (nd.childs.map fun c => match s.node? c with | none => 0 | some _ => vget i c)

theorem childShare_tree (s : SSys α) (depth height : Nat → Nat) (D : Nat)
    (hT : SingleSupplyTree s depth height D) (n : Nat) (i v : Vec α) (st : St) (c : Nat) :
    s.childShare n i v st c = match s.node? c with | none => 0 | some _ => vget i c := by
  unfold SSys.childShare
  cases hc : s.node? c with
  | none => rfl
  | some cd =>
    have hpri : cd.comp.priInp (cd.parents.map (sget st)) (cd.parents.map (vget v)) = some 0 := by
      unfold Comp.priInp
      cases hk : cd.comp.kind <;> simp only []
      exact absurd hk (hT.no_mux c cd hc)
    simp only [hpri]
    rcases hT.parent c cd hc with hp | ⟨p, hp, _⟩ <;> simp [hp]

theorem io_eq (s : SSys α) (depth height : Nat → Nat) (D : Nat)
    (hT : SingleSupplyTree s depth height D) (n : Nat) (nd : SNode α) (hn : s.node? n = some nd)
    (i v : Vec α) (st : St) :
    (if nd.childs.isEmpty then 0 else s.childCurr n i v st) = ioS s nd i := by
  unfold ioS SSys.childCurr
  simp only [hn]
  congr 2
  apply List.map_congr_left
  intro c _
  exact childShare_tree s depth height D hT n i v st c

theorem fwdAt_nonroot (s : SSys α) (ph : String) (depth height : Nat → Nat) (D : Nat)
    (hT : SingleSupplyTree s depth height D) (n p : Nat) (nd : SNode α) (hn : s.node? n = some nd)
    (hp : nd.parents = [p]) (v i : Vec α) (st : St) :
    s.fwdAt ph v i st n =
      nd.comp.solvOutpVolt [vget v p] (ioS s nd i) (nd.pconf.ctx ph) [sget st p] := by
  unfold SSys.fwdAt SSys.lawArgs
  simp only [hn, hp, List.isEmpty_cons, Bool.false_eq_true, if_false, List.map_cons, List.map_nil]
  rw [io_eq s depth height D hT n nd hn]

theorem fwdAt_root_cc (s : SSys α) (ph : String) (depth height : Nat → Nat) (D : Nat)
    (hT : SingleSupplyTree s depth height D) (n : Nat) (nd : SNode α) (hn : s.node? n = some nd)
    (hp : nd.parents = []) (v i : Vec α) (st : St) :
    s.fwdAt ph v i st n =
      nd.comp.solvOutpVolt [vget v n] (ioS s nd i) (nd.pconf.ctx ph) (st.getD n []) := by
  unfold SSys.fwdAt SSys.lawArgs
  simp only [hn, hp, List.isEmpty_nil, if_true]
  rw [io_eq s depth height D hT n nd hn]

theorem backAt_nonroot (s : SSys α) (ph : String) (depth height : Nat → Nat) (D : Nat)
    (hT : SingleSupplyTree s depth height D) (n p : Nat) (nd : SNode α) (hn : s.node? n = some nd)
    (hp : nd.parents = [p]) (v i : Vec α) (st : St) :
    s.backAt ph v i st n =
      nd.comp.solvInpCurr [vget v p] (ioS s nd i) (nd.pconf.ctx ph) [sget st p] := by
  unfold SSys.backAt SSys.lawArgs
  simp only [hn, hp, List.isEmpty_cons, Bool.false_eq_true, if_false, List.map_cons, List.map_nil]
  rw [io_eq s depth height D hT n nd hn]

theorem backAt_root_cc (s : SSys α) (ph : String) (depth height : Nat → Nat) (D : Nat)
    (hT : SingleSupplyTree s depth height D) (n : Nat) (nd : SNode α) (hn : s.node? n = some nd)
    (hp : nd.parents = []) (v i : Vec α) (st : St) :
    s.backAt ph v i st n =
      nd.comp.solvInpCurr [vget v n] (ioS s nd i) (nd.pconf.ctx ph) (st.getD n []) := by
  unfold SSys.backAt SSys.lawArgs
  simp only [hn, hp, List.isEmpty_nil, if_true]
  rw [io_eq s depth height D hT n nd hn]

theorem imo_nonneg (im : Nat → α) (h0 : ∀ n, 0 ≤ im n) (l : List Nat) : 0 ≤ sumL (l.map im) := by
  rw [sumL_eq_sum]
  apply List.sum_nonneg
  intro x hx
  obtain ⟨c, _, rfl⟩ := List.mem_map.mp hx
  exact h0 c

theorem ioS_le (s : SSys α) (nd : SNode α) (i : Vec α) (im : Nat → α) (h0 : ∀ n, 0 ≤ im n)
    (hi : ∀ n, vget i n ≤ im n) : ioS s nd i ≤ sumL (nd.childs.map im) := by
  unfold ioS
  split_ifs with he
  · exact imo_nonneg im h0 _
  · rw [sumL_eq_sum, sumL_eq_sum]
    apply List.sum_le_sum
    intro c _
    cases s.node? c with
    | none => exact h0 c
    | some _ => exact hi c

theorem ioS_congr (s : SSys α) (nd : SNode α) (i i' : Vec α)
    (h : ∀ c, c ∈ nd.childs → vget i c = vget i' c) : ioS s nd i = ioS s nd i' := by
  unfold ioS
  congr 2
  apply List.map_congr_left
  intro c hc
  rw [h c hc]

/-! ### 4. the certificate and the invariant of the iterates -/

/-- **The checkable certificate.**  `lo n > 0` bounds from below the magnitude of every non-zero voltage node
    `n` can output, `im n ≥ 0` bounds from above its input current; the worst-case drop `rs · Σ im(children)`
    (or the worst-case tabulated drop) of every series element stays below the bound of its supply. -/
structure ConstCert (s : SSys α) (ph : String) (lo im : Nat → α) : Prop where
  im_nonneg : ∀ n, 0 ≤ im n
  listed : ∀ n nd, s.node? n = some nd → n ∈ s.topo
  root : ∀ n nd, s.node? n = some nd → nd.parents = [] →
    RootOK nd.comp (nd.pconf.ctx ph) (lo n) (sumL (nd.childs.map im)) (im n)
  inner : ∀ n nd p, s.node? n = some nd → nd.parents = [p] →
    (∃ pd, s.node? p = some pd ∧ pd.comp.kind ≠ .iload) ∧
    EdgeOK nd.comp (nd.pconf.ctx ph) (lo p) (lo n) (sumL (nd.childs.map im)) (im n)

/-- node `n` is live in `X`: non-zero voltage, flag not set -/
def Live (X : Vec α × Vec α × St) (n : Nat) : Prop := vget X.1 n ≠ 0 ∧ sget X.2.2 n = false

/-- the invariant of the `k`-th iterate: voltage and current bounds, and every non-load node that is a root
    or at depth ≤ `k` is live -/
structure CInv (s : SSys α) (depth : Nat → Nat) (lo im : Nat → α) (k : Nat) (X : Vec α × Vec α × St) :
    Prop where
  volt : ∀ n, vget X.1 n = 0 ∨ lo n ≤ |vget X.1 n|
  curr : ∀ n, vget X.2.1 n ≤ im n
  live : ∀ n nd, s.node? n = some nd → nd.comp.kind ≠ .iload → (nd.parents = [] ∨ depth n ≤ k) → Live X n

theorem cell_fwd (s : SSys α) (ph : String) (depth height : Nat → Nat) (D : Nat)
    (hT : SingleSupplyTree s depth height D) (lo im : Nat → α) (hC : ConstCert s ph lo im)
    (k : Nat) (X : Vec α × Vec α × St) (hX : CInv s depth lo im k X) (n : Nat) :
    ∃ x b, s.fwdAt ph X.1 X.2.1 X.2.2 n = .ok (x, b) ∧ (x = 0 ∨ lo n ≤ |x|) ∧
      (∀ nd, s.node? n = some nd → nd.comp.kind ≠ .iload → (nd.parents = [] ∨ depth n ≤ k + 1) →
        x ≠ 0 ∧ b = false) := by
  obtain ⟨v, i, st⟩ := X
  cases hn : s.node? n with
  | none =>
    refine ⟨0, false, ?_, Or.inl rfl, fun nd h => by simp at h⟩
    unfold SSys.fwdAt; simp only [hn]
  | some nd =>
    have hio : ioS s nd i ≤ sumL (nd.childs.map im) := ioS_le s nd i im hC.im_nonneg hX.curr
    rcases hT.parent n nd hn with hp | ⟨p, hp, hdp⟩
    · have hk := hT.root_source n nd hn hp
      have hl : Live (v, i, st) n := hX.live n nd hn (by rw [hk]; decide) (Or.inl hp)
      obtain ⟨x, e, h1, h2⟩ := root_volt nd.comp (nd.pconf.ctx ph) (lo n) _ (im n) hk (hC.root n nd hn hp)
        (imo_nonneg im hC.im_nonneg _) [vget v n] (ioS s nd i) (st.getD n []) hl.2 hio
      refine ⟨x, false, ?_, Or.inr h1, fun _ _ _ _ => ⟨h2, rfl⟩⟩
      rw [fwdAt_root_cc s ph depth height D hT n nd hn hp]; exact e
    · obtain ⟨⟨pd, hpd, hpk⟩, hE⟩ := hC.inner n nd p hn hp
      obtain ⟨x, b, e, h1⟩ := edge_volt nd.comp (nd.pconf.ctx ph) (lo p) (lo n) _ (im n) hE
        [vget v p] (ioS s nd i) [sget st p] (hX.volt p) hio
      refine ⟨x, b, ?_, ?_, ?_⟩
      · rw [fwdAt_nonroot s ph depth height D hT n p nd hn hp]; exact e
      · rcases h1 with h1 | h1
        · exact Or.inl h1.1
        · exact Or.inr h1.1
      · intro nd' hnd' hk hd
        simp only [Option.some.injEq] at hnd'
        subst hnd'
        rcases h1 with ⟨_, h1⟩ | ⟨h1, h0, hb⟩
        · exfalso
          have hl : Live (v, i, st) p := hX.live p pd hpd hpk (Or.inr (by
            rcases hd with hd | hd
            · rw [hp] at hd; simp at hd
            · omega))
          rcases h1 with h1 | h1 | h1
          · exact hk h1
          · exact hl.1 h1
          · have := hl.2
            simp only [off0, List.headD_cons] at h1
            rw [h1] at this; simp at this
        · refine ⟨?_, hb⟩
          intro e0
          rw [e0, abs_zero] at h1
          linarith

theorem cell_back (s : SSys α) (ph : String) (depth height : Nat → Nat) (D : Nat)
    (hT : SingleSupplyTree s depth height D) (lo im : Nat → α) (hC : ConstCert s ph lo im)
    (i : Vec α) (hi : ∀ n, vget i n ≤ im n) (v : Vec α) (st : St) (n : Nat) :
    s.backAt ph v i st n ≤ im n := by
  cases hn : s.node? n with
  | none =>
    have : s.backAt ph v i st n = 0 := by unfold SSys.backAt; simp only [hn]
    rw [this]; exact hC.im_nonneg n
  | some nd =>
    have hio : ioS s nd i ≤ sumL (nd.childs.map im) := ioS_le s nd i im hC.im_nonneg hi
    rcases hT.parent n nd hn with hp | ⟨p, hp, hdp⟩
    · rw [backAt_root_cc s ph depth height D hT n nd hn hp]
      exact root_curr_le nd.comp _ (lo n) _ (im n) (hT.root_source n nd hn hp) (hC.root n nd hn hp)
        (imo_nonneg im hC.im_nonneg _) _ _ _ hio
    · rw [backAt_nonroot s ph depth height D hT n p nd hn hp]
      exact edge_curr_le nd.comp _ (lo p) (lo n) _ (im n) (hC.inner n nd p hn hp).2 (hC.im_nonneg n) _ _ _ hio

/-- the invariant is preserved by a pass, and the pass exists (no guard fires) -/
theorem inv_step (s : SSys α) (ph : String) (depth height : Nat → Nat) (D : Nat)
    (hT : SingleSupplyTree s depth height D) (lo im : Nat → α) (hC : ConstCert s ph lo im)
    (k : Nat) (X : Vec α × Vec α × St) (hX : CInv s depth lo im k X) :
    ∃ Y, sweep s ph X = .ok Y ∧ CInv s depth lo im (k + 1) Y := by
  obtain ⟨Y, hY⟩ := sweep_ok_of_cells s ph X (fun n _ => by
    obtain ⟨x, b, e, _⟩ := cell_fwd s ph depth height D hT lo im hC k X hX n
    exact ⟨(x, b), e⟩)
  refine ⟨Y, hY, ?_⟩
  obtain ⟨vX, iX, sX⟩ := X
  obtain ⟨vY, iY, sY⟩ := Y
  obtain ⟨_, _, _, y1, y2, y3, y4⟩ := sweep_cells s ph hT.topo_lt _ _ _ _ _ _ hY
  refine ⟨fun n => ?_, fun n => ?_, fun n nd hn hk hd => ?_⟩
  · show vget vY n = 0 ∨ lo n ≤ |vget vY n|
    by_cases hn : n ∈ s.topo
    · obtain ⟨x, b, e1, e2, _⟩ := y1 n hn
      obtain ⟨x', b', f1, f2, _⟩ := cell_fwd s ph depth height D hT lo im hC k _ hX n
      rw [e1] at f1
      simp only [Except.ok.injEq, Prod.mk.injEq] at f1
      rw [e2, f1.1]; exact f2
    · left; exact (y2 n hn).1
  · show vget iY n ≤ im n
    by_cases hn : n ∈ s.topo
    · rw [y3 n hn]
      exact cell_back s ph depth height D hT lo im hC iX hX.curr vY sX n
    · rw [y4 n hn]; exact hC.im_nonneg n
  · have hnt := hC.listed n nd hn
    obtain ⟨x, b, e1, e2, e3⟩ := y1 n hnt
    obtain ⟨x', b', f1, _, f3⟩ := cell_fwd s ph depth height D hT lo im hC k _ hX n
    rw [e1] at f1
    simp only [Except.ok.injEq, Prod.mk.injEq] at f1
    obtain ⟨g1, g2⟩ := f3 nd hn hk hd
    refine ⟨?_, ?_⟩
    · show vget vY n ≠ 0
      rw [e2, f1.1]; exact g1
    · show sget sY n = false
      unfold sget; rw [e3, f1.2, g2]; rfl

theorem node_lt (s : SSys α) (n : Nat) (nd : SNode α) (h : s.node? n = some nd) : n < s.hidx := by
  unfold SSys.node? at h
  unfold SSys.hidx
  by_contra hlt
  simp [Array.getD_eq_getD_getElem?, Array.getElem?_eq_none (Nat.le_of_not_lt hlt)] at h

theorem init_iget_cc (s : SSys α) (ph : String) (n : Nat) :
    vget (s.init ph).2.1 n = if n < s.hidx then
      (match s.node? n with | some nd => nd.comp.initCurr (nd.pconf.ctx ph) | none => 0) else 0 := by
  unfold SSys.init vget
  simp only [Array.getD_eq_getD_getElem?, List.getElem?_toArray, List.getElem?_map]
  by_cases h : n < s.hidx
  · simp [h]; rfl
  · simp [h]

theorem init_sget (s : SSys α) (ph : String) (n : Nat) :
    (s.init ph).2.2.getD n [] = if n < s.hidx then
      (match s.node? n with
       | some nd =>
         if nd.parents.isEmpty then [nd.comp.initOff (nd.pconf.ctx ph)]
         else nd.parents.map fun m => match s.node? m with
           | some md => md.comp.initOff (md.pconf.ctx ph) | none => false
       | none => []) else [] := by
  unfold SSys.init
  simp only [Array.getD_eq_getD_getElem?, List.getElem?_toArray, List.getElem?_map]
  by_cases h : n < s.hidx
  · simp [h]
    cases s.node? n <;> rfl
  · simp [h]

theorem inv_init (s : SSys α) (ph : String) (depth height : Nat → Nat) (D : Nat)
    (hT : SingleSupplyTree s depth height D) (lo im : Nat → α) (hC : ConstCert s ph lo im) :
    CInv s depth lo im 0 (s.init ph) := by
  refine ⟨fun n => ?_, fun n => ?_, fun n nd hn hk hd => ?_⟩
  · rw [init_vget]
    by_cases h : n < s.hidx
    · rw [if_pos h]
      cases hn : s.node? n with
      | none => left; rfl
      | some nd =>
        simp only
        rcases hT.parent n nd hn with hp | ⟨p, hp, _⟩
        · exact Or.inr (root_init nd.comp _ (lo n) _ (im n) (hT.root_source n nd hn hp) (hC.root n nd hn hp)
            (imo_nonneg im hC.im_nonneg _)).1
        · exact (edge_init nd.comp _ (lo p) (lo n) _ (im n) (hC.inner n nd p hn hp).2 (hC.im_nonneg n)
            (imo_nonneg im hC.im_nonneg _)).1
    · rw [if_neg h]; left; rfl
  · rw [init_iget_cc]
    by_cases h : n < s.hidx
    · rw [if_pos h]
      cases hn : s.node? n with
      | none => exact hC.im_nonneg n
      | some nd =>
        simp only
        rcases hT.parent n nd hn with hp | ⟨p, hp, _⟩
        · exact (root_init nd.comp _ (lo n) _ (im n) (hT.root_source n nd hn hp) (hC.root n nd hn hp)
            (imo_nonneg im hC.im_nonneg _)).2.2.1
        · exact (edge_init nd.comp _ (lo p) (lo n) _ (im n) (hC.inner n nd p hn hp).2 (hC.im_nonneg n)
            (imo_nonneg im hC.im_nonneg _)).2
    · rw [if_neg h]; exact hC.im_nonneg n
  · have hp : nd.parents = [] := by
      rcases hT.parent n nd hn with hp | ⟨p, hp, hdp⟩
      · exact hp
      · rcases hd with hd | hd
        · exact hd
        · omega
    obtain ⟨_, r2, _, r4⟩ := root_init nd.comp _ (lo n) _ (im n) (hT.root_source n nd hn hp)
      (hC.root n nd hn hp) (imo_nonneg im hC.im_nonneg _)
    have hlt := node_lt s n nd hn
    refine ⟨?_, ?_⟩
    · show vget (s.init ph).1 n ≠ 0
      rw [init_vget, if_pos hlt, hn]; exact r2
    · show sget (s.init ph).2.2 n = false
      unfold sget
      rw [init_sget, if_pos hlt, hn]
      simp only [hp, List.isEmpty_nil, if_true, List.headD_cons]
      exact r4

/-- every iterate from the initial guess exists and satisfies the invariant -/
theorem inv_all (s : SSys α) (ph : String) (depth height : Nat → Nat) (D : Nat)
    (hT : SingleSupplyTree s depth height D) (lo im : Nat → α) (hC : ConstCert s ph lo im) :
    ∀ k, ∃ X, sweepN s ph k (s.init ph) = .ok X ∧ CInv s depth lo im k X := by
  intro k
  induction k with
  | zero => exact ⟨_, rfl, inv_init s ph depth height D hT lo im hC⟩
  | succ k ih =>
    obtain ⟨X, hX, hI⟩ := ih
    obtain ⟨Y, hY, hJ⟩ := inv_step s ph depth height D hT lo im hC k X hI
    exact ⟨Y, (sweepN_succ_ok s ph k _ Y).mpr ⟨X, hX, hY⟩, hJ⟩

theorem inv_of_iterate (s : SSys α) (ph : String) (depth height : Nat → Nat) (D : Nat)
    (hT : SingleSupplyTree s depth height D) (lo im : Nat → α) (hC : ConstCert s ph lo im)
    (k : Nat) (X : Vec α × Vec α × St) (hX : sweepN s ph k (s.init ph) = .ok X) :
    CInv s depth lo im k X := by
  obtain ⟨X', hX', hI⟩ := inv_all s ph depth height D hT lo im hC k
  rw [hX] at hX'
  simp only [Except.ok.injEq] at hX'
  rw [hX']; exact hI

/-! ### 5. phase A: after `D` passes every non-load node is live, and stays live -/

theorem all_live (s : SSys α) (ph : String) (depth height : Nat → Nat) (D : Nat)
    (hT : SingleSupplyTree s depth height D) (lo im : Nat → α) (hC : ConstCert s ph lo im)
    (k : Nat) (hk : D ≤ k) (X : Vec α × Vec α × St) (hX : sweepN s ph k (s.init ph) = .ok X) :
    ∀ n nd, s.node? n = some nd → nd.comp.kind ≠ .iload → Live X n := by
  intro n nd hn hkind
  exact (inv_of_iterate s ph depth height D hT lo im hC k X hX).live n nd hn hkind
    (Or.inr (le_trans (hT.depth_le n nd hn) hk))

/-! ### 6. phase B: with every supply live, the currents settle level by level from the leaves -/

/-- backward cell with live supplies: a function of the children's currents only -/
theorem backAt_live_congr (s : SSys α) (ph : String) (depth height : Nat → Nat) (D : Nat)
    (hT : SingleSupplyTree s depth height D) (lo im : Nat → α) (hC : ConstCert s ph lo im) (n : Nat)
    (v v' i i' : Vec α) (st st' : St)
    (hv : ∀ m md, s.node? m = some md → md.comp.kind ≠ .iload → vget v m ≠ 0)
    (hv' : ∀ m md, s.node? m = some md → md.comp.kind ≠ .iload → vget v' m ≠ 0)
    (hs : ∀ m md, s.node? m = some md → md.comp.kind ≠ .iload → sget st m = false)
    (hs' : ∀ m md, s.node? m = some md → md.comp.kind ≠ .iload → sget st' m = false)
    (hi : ∀ nd, s.node? n = some nd → ∀ c, c ∈ nd.childs → vget i c = vget i' c) :
    s.backAt ph v i st n = s.backAt ph v' i' st' n := by
  cases hn : s.node? n with
  | none => unfold SSys.backAt; simp only [hn]
  | some nd =>
    have hio := ioS_congr s nd i i' (hi nd hn)
    rcases hT.parent n nd hn with hp | ⟨p, hp, hdp⟩
    · have hk := hT.root_source n nd hn hp
      have hkl : nd.comp.kind ≠ .iload := by rw [hk]; decide
      rw [backAt_root_cc s ph depth height D hT n nd hn hp, backAt_root_cc s ph depth height D hT n nd hn hp, hio]
      refine (source_congr nd.comp _ hk _ _ _ _ _ ?_).2
      have h1 : off0 (st.getD n []) = false := hs n nd hn hkl
      have h2 : off0 (st'.getD n []) = false := hs' n nd hn hkl
      rw [h1, h2]
    · obtain ⟨⟨pd, hpd, hpk⟩, hE⟩ := hC.inner n nd p hn hp
      rw [backAt_nonroot s ph depth height D hT n p nd hn hp,
        backAt_nonroot s ph depth height D hT n p nd hn hp, hio]
      exact edge_curr_congr nd.comp _ (lo p) (lo n) _ (im n) hE _ _ _ _ _
        (hv p pd hpd hpk) (hv' p pd hpd hpk) (hs p pd hpd hpk) (hs' p pd hpd hpk)

/-- **currents settle**: two consecutive passes taken after `k ≥ D + j` earlier ones write the same current
    into every cell of height ≤ `j` -/
theorem curr_settle (s : SSys α) (ph : String) (depth height : Nat → Nat) (D : Nat)
    (hT : SingleSupplyTree s depth height D) (lo im : Nat → α) (hC : ConstCert s ph lo im) :
    ∀ (j k : Nat), D + j ≤ k → ∀ (W Y Z : Vec α × Vec α × St),
      sweepN s ph k (s.init ph) = .ok W → sweep s ph W = .ok Y → sweep s ph Y = .ok Z →
      ∀ n, (∀ nd, s.node? n = some nd → height n ≤ j) → vget Z.2.1 n = vget Y.2.1 n := by
  intro j
  induction j with
  | zero =>
    intro k hk W Y Z hW hY hZ n hh
    have hY' : sweepN s ph (k + 1) (s.init ph) = .ok Y := (sweepN_succ_ok s ph k _ Y).mpr ⟨W, hW, hY⟩
    have hZ' : sweepN s ph (k + 2) (s.init ph) = .ok Z := (sweepN_succ_ok s ph (k + 1) _ Z).mpr ⟨Y, hY', hZ⟩
    have lW := all_live s ph depth height D hT lo im hC k (by omega) W hW
    have lY := all_live s ph depth height D hT lo im hC (k + 1) (by omega) Y hY'
    have lZ := all_live s ph depth height D hT lo im hC (k + 2) (by omega) Z hZ'
    obtain ⟨vW, iW, sW⟩ := W
    obtain ⟨vY, iY, sY⟩ := Y
    obtain ⟨vZ, iZ, sZ⟩ := Z
    obtain ⟨_, _, _, _, _, y3, y4⟩ := sweep_cells s ph hT.topo_lt _ _ _ _ _ _ hY
    obtain ⟨_, _, _, _, _, z3, z4⟩ := sweep_cells s ph hT.topo_lt _ _ _ _ _ _ hZ
    show vget iZ n = vget iY n
    by_cases hn : n ∈ s.topo
    · rw [z3 n hn, y3 n hn]
      apply backAt_live_congr s ph depth height D hT lo im hC n
      · exact fun m md h1 h2 => (lZ m md h1 h2).1
      · exact fun m md h1 h2 => (lY m md h1 h2).1
      · exact fun m md h1 h2 => (lY m md h1 h2).2
      · exact fun m md h1 h2 => (lW m md h1 h2).2
      · intro nd hnd c hc
        have := hT.child n nd hnd c hc
        have := hh nd hnd
        omega
    · rw [z4 n hn, y4 n hn]
  | succ j ih =>
    intro k hk W Y Z hW hY hZ n hh
    obtain ⟨k', rfl⟩ : ∃ k', k = k' + 1 := ⟨k - 1, by omega⟩
    obtain ⟨W0, hW0, hW0W⟩ := (sweepN_succ_ok s ph k' _ W).mp hW
    have IH := ih k' (by omega) W0 W Y hW0 hW0W hY
    have hY' : sweepN s ph (k' + 2) (s.init ph) = .ok Y := (sweepN_succ_ok s ph (k' + 1) _ Y).mpr ⟨W, hW, hY⟩
    have hZ' : sweepN s ph (k' + 3) (s.init ph) = .ok Z := (sweepN_succ_ok s ph (k' + 2) _ Z).mpr ⟨Y, hY', hZ⟩
    have lW := all_live s ph depth height D hT lo im hC (k' + 1) (by omega) W hW
    have lY := all_live s ph depth height D hT lo im hC (k' + 2) (by omega) Y hY'
    have lZ := all_live s ph depth height D hT lo im hC (k' + 3) (by omega) Z hZ'
    obtain ⟨vW, iW, sW⟩ := W
    obtain ⟨vY, iY, sY⟩ := Y
    obtain ⟨vZ, iZ, sZ⟩ := Z
    obtain ⟨_, _, _, _, _, y3, y4⟩ := sweep_cells s ph hT.topo_lt _ _ _ _ _ _ hY
    obtain ⟨_, _, _, _, _, z3, z4⟩ := sweep_cells s ph hT.topo_lt _ _ _ _ _ _ hZ
    show vget iZ n = vget iY n
    by_cases hn : n ∈ s.topo
    · rw [z3 n hn, y3 n hn]
      apply backAt_live_congr s ph depth height D hT lo im hC n
      · exact fun m md h1 h2 => (lZ m md h1 h2).1
      · exact fun m md h1 h2 => (lY m md h1 h2).1
      · exact fun m md h1 h2 => (lY m md h1 h2).2
      · exact fun m md h1 h2 => (lW m md h1 h2).2
      · intro nd hnd c hc
        have h1 := hT.child n nd hnd c hc
        have h2 := hh nd hnd
        exact IH c (fun _ _ => by omega)
    · rw [z4 n hn, y4 n hn]

/-! ### 7. phase C: with the currents final, the voltages settle level by level from the root -/

/-- forward cell: a function of the supply's voltage and flag and of the children's currents -/
theorem fwdAt_tree_congr (s : SSys α) (ph : String) (depth height : Nat → Nat) (D : Nat)
    (hT : SingleSupplyTree s depth height D) (n : Nat) (v v' i i' : Vec α) (st st' : St)
    (hroot : ∀ nd, s.node? n = some nd → nd.parents = [] → sget st n = sget st' n)
    (hpar : ∀ nd p, s.node? n = some nd → nd.parents = [p] →
      vget v p = vget v' p ∧ sget st p = sget st' p)
    (hi : ∀ nd, s.node? n = some nd → ∀ c, c ∈ nd.childs → vget i c = vget i' c) :
    s.fwdAt ph v i st n = s.fwdAt ph v' i' st' n := by
  cases hn : s.node? n with
  | none => unfold SSys.fwdAt; simp only [hn]
  | some nd =>
    have hio := ioS_congr s nd i i' (hi nd hn)
    rcases hT.parent n nd hn with hp | ⟨p, hp, hdp⟩
    · have hk := hT.root_source n nd hn hp
      rw [fwdAt_root_cc s ph depth height D hT n nd hn hp, fwdAt_root_cc s ph depth height D hT n nd hn hp, hio]
      exact (source_congr nd.comp _ hk _ _ _ _ _ (hroot nd hn hp)).1
    · obtain ⟨e1, e2⟩ := hpar nd p hn hp
      rw [fwdAt_nonroot s ph depth height D hT n p nd hn hp,
        fwdAt_nonroot s ph depth height D hT n p nd hn hp, hio, e1, e2]

/-- **voltages settle** (`H` bounds the heights): two consecutive passes taken after `k ≥ D + H + 1 + j` earlier
    ones write the same voltage and flag into every root cell and every cell of depth ≤ `j` -/
theorem volt_settle (s : SSys α) (ph : String) (depth height : Nat → Nat) (D : Nat)
    (hT : SingleSupplyTree s depth height D) (lo im : Nat → α) (hC : ConstCert s ph lo im)
    (H : Nat) (hH : ∀ n nd, s.node? n = some nd → height n ≤ H) :
    ∀ (j k : Nat), D + H + 1 + j ≤ k → ∀ (W Y Z : Vec α × Vec α × St),
      sweepN s ph k (s.init ph) = .ok W → sweep s ph W = .ok Y → sweep s ph Y = .ok Z →
      ∀ n, (∀ nd, s.node? n = some nd → nd.parents = [] ∨ depth n ≤ j) →
        vget Z.1 n = vget Y.1 n ∧ Z.2.2.getD n [] = Y.2.2.getD n [] := by
  intro j
  induction j with
  | zero =>
    intro k hk W Y Z hW hY hZ n hd
    obtain ⟨k', rfl⟩ : ∃ k', k = k' + 1 := ⟨k - 1, by omega⟩
    obtain ⟨W0, hW0, hW0W⟩ := (sweepN_succ_ok s ph k' _ W).mp hW
    have hcur := curr_settle s ph depth height D hT lo im hC H k' (by omega) W0 W Y hW0 hW0W hY
    have hY' : sweepN s ph (k' + 2) (s.init ph) = .ok Y := (sweepN_succ_ok s ph (k' + 1) _ Y).mpr ⟨W, hW, hY⟩
    have lW := (inv_of_iterate s ph depth height D hT lo im hC _ W hW).live
    have lY := (inv_of_iterate s ph depth height D hT lo im hC _ Y hY').live
    obtain ⟨vW, iW, sW⟩ := W
    obtain ⟨vY, iY, sY⟩ := Y
    obtain ⟨vZ, iZ, sZ⟩ := Z
    obtain ⟨_, _, _, y1, y2, _, _⟩ := sweep_cells s ph hT.topo_lt _ _ _ _ _ _ hY
    obtain ⟨_, _, _, z1, z2, _, _⟩ := sweep_cells s ph hT.topo_lt _ _ _ _ _ _ hZ
    by_cases hn : n ∈ s.topo
    · obtain ⟨x1, b1, e1, e2, e3⟩ := y1 n hn
      obtain ⟨x2, b2, f1, f2, f3⟩ := z1 n hn
      have key : s.fwdAt ph vY iY sY n = s.fwdAt ph vW iW sW n := by
        apply fwdAt_tree_congr s ph depth height D hT n
        · intro nd hnd hp
          have hkl : nd.comp.kind ≠ .iload := by rw [hT.root_source n nd hnd hp]; decide
          have h1 : sget sY n = false := (lY n nd hnd hkl (Or.inl hp)).2
          have h2 : sget sW n = false := (lW n nd hnd hkl (Or.inl hp)).2
          rw [h1, h2]
        · intro nd p hnd hp
          exfalso
          rcases hT.parent n nd hnd with hp' | ⟨p', hp', hdp⟩
          · rw [hp] at hp'; simp at hp'
          · rcases hd nd hnd with h | h
            · rw [hp] at h; simp at h
            · omega
        · intro nd hnd c hc
          exact hcur c (fun cd hcd => hH c cd hcd)
      rw [key, e1] at f1
      simp only [Except.ok.injEq, Prod.mk.injEq] at f1
      exact ⟨by show vget vZ n = vget vY n; rw [f2, e2, f1.1],
             by show sZ.getD n [] = sY.getD n []; rw [f3, e3, f1.2]⟩
    · exact ⟨by show vget vZ n = vget vY n; rw [(z2 n hn).1, (y2 n hn).1],
             by show sZ.getD n [] = sY.getD n []; rw [(z2 n hn).2, (y2 n hn).2]⟩
  | succ j ih =>
    intro k hk W Y Z hW hY hZ n hd
    obtain ⟨k', rfl⟩ : ∃ k', k = k' + 1 := ⟨k - 1, by omega⟩
    obtain ⟨W0, hW0, hW0W⟩ := (sweepN_succ_ok s ph k' _ W).mp hW
    have IH := ih k' (by omega) W0 W Y hW0 hW0W hY
    have hcur := curr_settle s ph depth height D hT lo im hC H k' (by omega) W0 W Y hW0 hW0W hY
    have hY' : sweepN s ph (k' + 2) (s.init ph) = .ok Y := (sweepN_succ_ok s ph (k' + 1) _ Y).mpr ⟨W, hW, hY⟩
    have lW := (inv_of_iterate s ph depth height D hT lo im hC _ W hW).live
    have lY := (inv_of_iterate s ph depth height D hT lo im hC _ Y hY').live
    obtain ⟨vW, iW, sW⟩ := W
    obtain ⟨vY, iY, sY⟩ := Y
    obtain ⟨vZ, iZ, sZ⟩ := Z
    obtain ⟨_, _, _, y1, y2, _, _⟩ := sweep_cells s ph hT.topo_lt _ _ _ _ _ _ hY
    obtain ⟨_, _, _, z1, z2, _, _⟩ := sweep_cells s ph hT.topo_lt _ _ _ _ _ _ hZ
    by_cases hn : n ∈ s.topo
    · obtain ⟨x1, b1, e1, e2, e3⟩ := y1 n hn
      obtain ⟨x2, b2, f1, f2, f3⟩ := z1 n hn
      have key : s.fwdAt ph vY iY sY n = s.fwdAt ph vW iW sW n := by
        apply fwdAt_tree_congr s ph depth height D hT n
        · intro nd hnd hp
          have hkl : nd.comp.kind ≠ .iload := by rw [hT.root_source n nd hnd hp]; decide
          have h1 : sget sY n = false := (lY n nd hnd hkl (Or.inl hp)).2
          have h2 : sget sW n = false := (lW n nd hnd hkl (Or.inl hp)).2
          rw [h1, h2]
        · intro nd p hnd hp
          have hdp : depth p ≤ j := by
            rcases hT.parent n nd hnd with hp' | ⟨p', hp', hdp⟩
            · rw [hp] at hp'; simp at hp'
            · rw [hp] at hp'
              simp only [List.cons.injEq, and_true] at hp'
              subst hp'
              rcases hd nd hnd with h | h
              · rw [hp] at h; simp at h
              · omega
          obtain ⟨g1, g2⟩ := IH p (fun _ _ => Or.inr hdp)
          simp only at g1 g2
          exact ⟨g1, by unfold sget; rw [g2]⟩
        · intro nd hnd c hc
          exact hcur c (fun cd hcd => hH c cd hcd)
      rw [key, e1] at f1
      simp only [Except.ok.injEq, Prod.mk.injEq] at f1
      exact ⟨by show vget vZ n = vget vY n; rw [f2, e2, f1.1],
             by show sZ.getD n [] = sY.getD n []; rw [f3, e3, f1.2]⟩
    · exact ⟨by show vget vZ n = vget vY n; rw [(z2 n hn).1, (y2 n hn).1],
             by show sZ.getD n [] = sY.getD n []; rw [(z2 n hn).2, (y2 n hn).2]⟩

/-! ### 8. the `(3D+2)`-th iterate is an exact fixed point; `solve()` returns -/

/-- no guard fires, ever: every iterate of the pass from the initial guess exists -/
theorem const_noraise (s : SSys α) (ph : String) (depth height : Nat → Nat) (D : Nat)
    (hT : SingleSupplyTree s depth height D) (lo im : Nat → α) (hC : ConstCert s ph lo im) (k : Nat) :
    ∃ X, sweepN s ph k (s.init ph) = .ok X :=
  let ⟨X, hX, _⟩ := inv_all s ph depth height D hT lo im hC k
  ⟨X, hX⟩

/-- iterate `2D + H + 2` (`H` bounds the heights) exists and is reproduced exactly (voltages, currents, flags)
    by the next pass -/
theorem const_eventually_fixed_height_partial (s : SSys α) (ph : String) (depth height : Nat → Nat) (D : Nat)
    (hT : SingleSupplyTree s depth height D) (lo im : Nat → α) (hC : ConstCert s ph lo im)
    (H : Nat) (hH : ∀ n nd, s.node? n = some nd → height n ≤ H) :
    ∃ y, sweepN s ph (2 * D + H + 2) (s.init ph) = .ok y ∧ sweep s ph y = .ok y := by
  obtain ⟨Z, hZ⟩ := const_noraise s ph depth height D hT lo im hC (2 * D + H + 3)
  obtain ⟨Y, hY, hYZ⟩ := (sweepN_succ_ok s ph (2 * D + H + 2) _ Z).mp hZ
  obtain ⟨W, hW, hWY⟩ := (sweepN_succ_ok s ph (2 * D + H + 1) _ Y).mp hY
  refine ⟨Y, hY, ?_⟩
  have hv := volt_settle s ph depth height D hT lo im hC H hH D (2 * D + H + 1) (by omega) W Y Z hW hWY hYZ
  have hi := curr_settle s ph depth height D hT lo im hC H (2 * D + H + 1) (by omega) W Y Z hW hWY hYZ
  obtain ⟨vW, iW, sW⟩ := W
  obtain ⟨vY, iY, sY⟩ := Y
  obtain ⟨vZ, iZ, sZ⟩ := Z
  obtain ⟨a1, a2, a3, _⟩ := sweep_cells s ph hT.topo_lt _ _ _ _ _ _ hWY
  obtain ⟨b1, b2, b3, _⟩ := sweep_cells s ph hT.topo_lt _ _ _ _ _ _ hYZ
  simp only at hv hi
  have hall : ∀ n, ∀ nd, s.node? n = some nd → nd.parents = [] ∨ depth n ≤ D :=
    fun n nd hnd => Or.inr (hT.depth_le n nd hnd)
  have e1 : vZ = vY := array_ext_getD 0 _ _ (by rw [a1, b1]) (fun n => (hv n (hall n)).1)
  have e2 : iZ = iY := array_ext_getD 0 _ _ (by rw [a2, b2]) (fun n => hi n (fun nd hnd => hH n nd hnd))
  have e3 : sZ = sY := array_ext_getD [] _ _ (by rw [a3, b3]) (fun n => (hv n (hall n)).2)
  rw [hYZ, e1, e2, e3]

/-- iterate `3D + 2` exists and is an exact fixed point (`H := D`) -/
theorem const_eventually_fixed_partial (s : SSys α) (ph : String) (depth height : Nat → Nat) (D : Nat)
    (hT : SingleSupplyTree s depth height D) (lo im : Nat → α) (hC : ConstCert s ph lo im) :
    ∃ y, sweepN s ph (3 * D + 2) (s.init ph) = .ok y ∧ sweep s ph y = .ok y := by
  have h := const_eventually_fixed_height_partial s ph depth height D hT lo im hC D hT.height_le
  rw [show 2 * D + D + 2 = 3 * D + 2 by omega] at h
  exact h

/-- **`constant_current_settling_height_partial`** — the count with separate bounds `D` on the depths and `H`
    on the heights: `D` passes until every supply is live, `H + 1` more until the currents are final, `D + 1`
    more until the voltages are: `solve()` returns within `2D + H + 3` passes if `maxiter ≥ 2D + H + 3`. -/
theorem constant_current_settling_height_partial (s : SSys α) (cfg : Cfg α) (ph : String)
    (depth height : Nat → Nat) (D : Nat) (hT : SingleSupplyTree s depth height D)
    (lo im : Nat → α) (hC : ConstCert s ph lo im)
    (H : Nat) (hH : ∀ n nd, s.node? n = some nd → height n ≤ H)
    (hat : 0 ≤ cfg.atol) (hv : 0 ≤ cfg.vtol) (hi : 0 ≤ cfg.itol) (hm : 2 * D + H + 3 ≤ cfg.maxiter) :
    ∃ r, s.solvePhase cfg ph = .ok r ∧ r.iters ≤ 2 * D + H + 3 ∧ ConvergedAt s cfg ph r.v r.i r.st := by
  obtain ⟨y, hy, hfix⟩ := const_eventually_fixed_height_partial s ph depth height D hT lo im hC H hH
  obtain ⟨r, hr, hle⟩ := loop_returns_if_eventually_fixed s cfg ph hat hv hi (2 * D + H + 2) y hy hfix
    (by omega)
  exact ⟨r, hr, by omega, solvePhase_sound s cfg ph r hr⟩

/-- **`constant_current_settling_partial`.**  Single-supply tree without `PMux` of depth and height ≤ `D`
    whose components are ILoads, RLoss / VLoss / Rectifier, LinReg / PSwitch with a voltage-independent
    ground current, under Sources — series resistances arbitrary — with a certificate `ConstCert s ph lo im`
    (worst-case drops stay below what is left of the supply; everything active in this phase);
    tolerances non-negative; `maxiter ≥ 3D + 3`.  Then no guard ever fires, the iterate `3D + 2` of the pass
    is an exact fixed point, and `solve()` returns for this phase — neither `RuntimeError` nor "Unstable
    system" — within `3D + 3` passes, on a triple on which the exit test fired. -/
theorem constant_current_settling_partial (s : SSys α) (cfg : Cfg α) (ph : String)
    (depth height : Nat → Nat) (D : Nat) (hT : SingleSupplyTree s depth height D)
    (lo im : Nat → α) (hC : ConstCert s ph lo im)
    (hat : 0 ≤ cfg.atol) (hv : 0 ≤ cfg.vtol) (hi : 0 ≤ cfg.itol) (hm : 3 * D + 3 ≤ cfg.maxiter) :
    ∃ r, s.solvePhase cfg ph = .ok r ∧ r.iters ≤ 3 * D + 3 ∧ ConvergedAt s cfg ph r.v r.i r.st := by
  obtain ⟨y, hy, hfix⟩ := const_eventually_fixed_partial s ph depth height D hT lo im hC
  obtain ⟨r, hr, hle⟩ := loop_returns_if_eventually_fixed s cfg ph hat hv hi (3 * D + 2) y hy hfix (by omega)
  exact ⟨r, hr, by omega, solvePhase_sound s cfg ph r hr⟩

/-! ### 9. non-vacuity

  chain: Source(12 V, 0.5 Ω) → RLoss(1 Ω) → LinReg(5 V, dropout 1 V, ig 1 mA) → ILoad(0.2 A) over ℚ -/

def ccSrc : Comp ℚ := { name := "S", kind := .source, par := .const 0, vo := 12, rs := 1/2 }
def ccRl : Comp ℚ := { name := "R", kind := .rloss, par := .const 0, rs := 1 }
def ccReg : Comp ℚ := { name := "U", kind := .linreg, par := .const (1/1000), vo := 5, vdrop := 1 }
def ccLoad : Comp ℚ := { name := "L", kind := .iload, par := .const 0, ii := 1/5 }

def ccSys : SSys ℚ :=
  { nodes := #[some ⟨ccSrc, [], [1], .table [], "", ""⟩, some ⟨ccRl, [0], [2], .table [], "", ""⟩,
               some ⟨ccReg, [1], [3], .table [], "", ""⟩, some ⟨ccLoad, [2], [], .table [], "", ""⟩],
    topo := [0, 1, 2, 3] }

theorem ccNode (n : Nat) (nd : SNode ℚ) (h : ccSys.node? n = some nd) :
    (n = 0 ∧ nd.comp = ccSrc ∧ nd.parents = [] ∧ nd.childs = [1] ∧ nd.pconf.ctx "" = ⟨false, false, 0⟩) ∨
    (n = 1 ∧ nd.comp = ccRl ∧ nd.parents = [0] ∧ nd.childs = [2] ∧ nd.pconf.ctx "" = ⟨false, false, 0⟩) ∨
    (n = 2 ∧ nd.comp = ccReg ∧ nd.parents = [1] ∧ nd.childs = [3] ∧ nd.pconf.ctx "" = ⟨false, false, 0⟩) ∨
    (n = 3 ∧ nd.comp = ccLoad ∧ nd.parents = [2] ∧ nd.childs = [] ∧ nd.pconf.ctx "" = ⟨false, false, 0⟩) := by
  match n with
  | 0 => simp [SSys.node?, ccSys] at h; subst h; simp [PhaseConf.ctx]
  | 1 => simp [SSys.node?, ccSys] at h; subst h; simp [PhaseConf.ctx]
  | 2 => simp [SSys.node?, ccSys] at h; subst h; simp [PhaseConf.ctx]
  | 3 => simp [SSys.node?, ccSys] at h; subst h; simp [PhaseConf.ctx]
  | n + 4 => simp [SSys.node?, ccSys] at h

def ccDepth (n : Nat) : Nat := n
def ccHeight (n : Nat) : Nat := 3 - n
/-- lower bounds on the live voltages: 11 V, 10 V, 5 V (true values 11.8995, 11.6985, 5) -/
def ccLo : Nat → ℚ := fun n => if n = 0 then 11 else if n = 1 then 10 else if n = 2 then 5 else 0
/-- upper bounds on the input currents: 0.201 A down to the regulator, 0.2 A into the load -/
def ccIm : Nat → ℚ := fun n => if n = 3 then 1/5 else 201/1000

theorem ccTree : SingleSupplyTree ccSys ccDepth ccHeight 3 where
  topo_lt := by decide
  no_mux := by
    intro n nd h
    rcases ccNode n nd h with ⟨_, hc, _⟩ | ⟨_, hc, _⟩ | ⟨_, hc, _⟩ | ⟨_, hc, _⟩ <;> rw [hc] <;> decide
  root_source := by
    intro n nd h hp
    rcases ccNode n nd h with ⟨_, hc, _⟩ | ⟨_, _, hq, _⟩ | ⟨_, _, hq, _⟩ | ⟨_, _, hq, _⟩
    · rw [hc]; rfl
    · rw [hq] at hp; simp at hp
    · rw [hq] at hp; simp at hp
    · rw [hq] at hp; simp at hp
  parent := by
    intro n nd h
    rcases ccNode n nd h with ⟨rfl, _, hq, _⟩ | ⟨rfl, _, hq, _⟩ | ⟨rfl, _, hq, _⟩ | ⟨rfl, _, hq, _⟩
    · left; exact hq
    · right; exact ⟨0, hq, rfl⟩
    · right; exact ⟨1, hq, rfl⟩
    · right; exact ⟨2, hq, rfl⟩
  child := by
    intro n nd h c hc
    rcases ccNode n nd h with ⟨rfl, _, _, hq, _⟩ | ⟨rfl, _, _, hq, _⟩ | ⟨rfl, _, _, hq, _⟩ | ⟨rfl, _, _, hq, _⟩ <;>
      rw [hq] at hc <;> simp at hc <;> subst hc <;> decide
  depth_le := by
    intro n nd h
    rcases ccNode n nd h with ⟨rfl, _⟩ | ⟨rfl, _⟩ | ⟨rfl, _⟩ | ⟨rfl, _⟩ <;> decide
  height_le := by
    intro n nd h
    rcases ccNode n nd h with ⟨rfl, _⟩ | ⟨rfl, _⟩ | ⟨rfl, _⟩ | ⟨rfl, _⟩ <;> decide

theorem ccCert : ConstCert ccSys "" ccLo ccIm where
  im_nonneg := by intro n; unfold ccIm; split_ifs <;> norm_num
  listed := by
    intro n nd h
    rcases ccNode n nd h with ⟨rfl, _⟩ | ⟨rfl, _⟩ | ⟨rfl, _⟩ | ⟨rfl, _⟩ <;> decide
  root := by
    intro n nd h hp
    rcases ccNode n nd h with ⟨rfl, hc, _, hch, hx⟩ | ⟨_, _, hq, _⟩ | ⟨_, _, hq, _⟩ | ⟨_, _, hq, _⟩
    · rw [hc, hch, hx]
      norm_num [RootOK, ccSrc, ccLo, ccIm, sumL, PhaseCtx.inactive]
    · rw [hq] at hp; simp at hp
    · rw [hq] at hp; simp at hp
    · rw [hq] at hp; simp at hp
  inner := by
    intro n nd p h hp
    rcases ccNode n nd h with ⟨rfl, _, hq, _⟩ | ⟨rfl, hc, hq, hch, hx⟩ | ⟨rfl, hc, hq, hch, hx⟩ |
      ⟨rfl, hc, hq, hch, hx⟩
    · rw [hq] at hp; simp at hp
    · rw [hq] at hp; simp at hp; subst hp
      refine ⟨⟨_, rfl, by decide⟩, ?_⟩
      rw [hc, hch, hx]
      norm_num [EdgeOK, ccRl, ccLo, ccIm, sumL]
    · rw [hq] at hp; simp at hp; subst hp
      refine ⟨⟨_, rfl, by decide⟩, ?_⟩
      rw [hc, hch, hx]
      simp only [EdgeOK, ccReg]
      refine ⟨by norm_num [ccLo], rfl, by norm_num [ccLo], vindep_const _, 1/1000,
        fun _ _ => le_refl _, by norm_num [ccIm, sumL]⟩
    · rw [hq] at hp; simp at hp; subst hp
      refine ⟨⟨_, rfl, by decide⟩, ?_⟩
      rw [hc, hch, hx]
      norm_num [EdgeOK, ccLoad, ccIm, loadVal]

def ccCfg : Cfg ℚ := ⟨1/100000000, 1/100000, 1/1000000, 10000⟩

/-- the main theorem applies: `solve()` returns on the chain within 12 passes -/
example : ∃ r, ccSys.solvePhase ccCfg "" = .ok r ∧ r.iters ≤ 12 ∧ ConvergedAt ccSys ccCfg "" r.v r.i r.st :=
  constant_current_settling_partial ccSys ccCfg "" ccDepth ccHeight 3 ccTree ccLo ccIm ccCert
    (by norm_num [ccCfg]) (by norm_num [ccCfg]) (by norm_num [ccCfg]) (by norm_num [ccCfg])

/-- … and its 11th iterate exists and is an exact fixed point -/
example : ∃ y, sweepN ccSys "" 11 (ccSys.init "") = .ok y ∧ sweep ccSys "" y = .ok y :=
  const_eventually_fixed_partial ccSys "" ccDepth ccHeight 3 ccTree ccLo ccIm ccCert

/-! a 2-branch tree:  Source(12 V, 0.5 Ω) ─┬─ RLoss(1 Ω) ── ILoad(0.2 A)
                                          └─ PSwitch(0.1 Ω, ig 1 mA) ── ILoad(0.3 A) -/

def ctSw : Comp ℚ := { name := "W", kind := .pswitch, par := .const (1/1000), rs := 1/10 }
def ctLoad2 : Comp ℚ := { name := "M", kind := .iload, par := .const 0, ii := 3/10 }

def ctSys : SSys ℚ :=
  { nodes := #[some ⟨ccSrc, [], [1, 2], .table [], "", ""⟩, some ⟨ccRl, [0], [3], .table [], "", ""⟩,
               some ⟨ctSw, [0], [4], .table [], "", ""⟩, some ⟨ccLoad, [1], [], .table [], "", ""⟩,
               some ⟨ctLoad2, [2], [], .table [], "", ""⟩],
    topo := [0, 1, 2, 3, 4] }

theorem ctNode (n : Nat) (nd : SNode ℚ) (h : ctSys.node? n = some nd) :
    (n = 0 ∧ nd.comp = ccSrc ∧ nd.parents = [] ∧ nd.childs = [1, 2] ∧ nd.pconf.ctx "" = ⟨false, false, 0⟩) ∨
    (n = 1 ∧ nd.comp = ccRl ∧ nd.parents = [0] ∧ nd.childs = [3] ∧ nd.pconf.ctx "" = ⟨false, false, 0⟩) ∨
    (n = 2 ∧ nd.comp = ctSw ∧ nd.parents = [0] ∧ nd.childs = [4] ∧ nd.pconf.ctx "" = ⟨false, false, 0⟩) ∨
    (n = 3 ∧ nd.comp = ccLoad ∧ nd.parents = [1] ∧ nd.childs = [] ∧ nd.pconf.ctx "" = ⟨false, false, 0⟩) ∨
    (n = 4 ∧ nd.comp = ctLoad2 ∧ nd.parents = [2] ∧ nd.childs = [] ∧ nd.pconf.ctx "" = ⟨false, false, 0⟩) := by
  match n with
  | 0 => simp [SSys.node?, ctSys] at h; subst h; simp [PhaseConf.ctx]
  | 1 => simp [SSys.node?, ctSys] at h; subst h; simp [PhaseConf.ctx]
  | 2 => simp [SSys.node?, ctSys] at h; subst h; simp [PhaseConf.ctx]
  | 3 => simp [SSys.node?, ctSys] at h; subst h; simp [PhaseConf.ctx]
  | 4 => simp [SSys.node?, ctSys] at h; subst h; simp [PhaseConf.ctx]
  | n + 5 => simp [SSys.node?, ctSys] at h

def ctDepth (n : Nat) : Nat := if n = 0 then 0 else if n ≤ 2 then 1 else 2
def ctHeight (n : Nat) : Nat := if n = 0 then 2 else if n ≤ 2 then 1 else 0
def ctLo : Nat → ℚ := fun n => if n = 0 then 11 else if n ≤ 2 then 10 else 0
def ctIm : Nat → ℚ := fun n =>
  if n = 0 then 501/1000 else if n = 1 then 1/5 else if n = 2 then 301/1000 else if n = 3 then 1/5 else 3/10

theorem ctTree : SingleSupplyTree ctSys ctDepth ctHeight 2 where
  topo_lt := by decide
  no_mux := by
    intro n nd h
    rcases ctNode n nd h with ⟨_, hc, _⟩ | ⟨_, hc, _⟩ | ⟨_, hc, _⟩ | ⟨_, hc, _⟩ | ⟨_, hc, _⟩ <;>
      rw [hc] <;> decide
  root_source := by
    intro n nd h hp
    rcases ctNode n nd h with ⟨_, hc, _⟩ | ⟨_, _, hq, _⟩ | ⟨_, _, hq, _⟩ | ⟨_, _, hq, _⟩ | ⟨_, _, hq, _⟩
    · rw [hc]; rfl
    · rw [hq] at hp; simp at hp
    · rw [hq] at hp; simp at hp
    · rw [hq] at hp; simp at hp
    · rw [hq] at hp; simp at hp
  parent := by
    intro n nd h
    rcases ctNode n nd h with ⟨rfl, _, hq, _⟩ | ⟨rfl, _, hq, _⟩ | ⟨rfl, _, hq, _⟩ | ⟨rfl, _, hq, _⟩ |
      ⟨rfl, _, hq, _⟩
    · left; exact hq
    · right; exact ⟨0, hq, rfl⟩
    · right; exact ⟨0, hq, rfl⟩
    · right; exact ⟨1, hq, rfl⟩
    · right; exact ⟨2, hq, rfl⟩
  child := by
    intro n nd h c hc
    rcases ctNode n nd h with ⟨rfl, _, _, hq, _⟩ | ⟨rfl, _, _, hq, _⟩ | ⟨rfl, _, _, hq, _⟩ |
      ⟨rfl, _, _, hq, _⟩ | ⟨rfl, _, _, hq, _⟩ <;> rw [hq] at hc <;> simp at hc
    · rcases hc with rfl | rfl <;> decide
    · subst hc; decide
    · subst hc; decide
  depth_le := by
    intro n nd h
    rcases ctNode n nd h with ⟨rfl, _⟩ | ⟨rfl, _⟩ | ⟨rfl, _⟩ | ⟨rfl, _⟩ | ⟨rfl, _⟩ <;> decide
  height_le := by
    intro n nd h
    rcases ctNode n nd h with ⟨rfl, _⟩ | ⟨rfl, _⟩ | ⟨rfl, _⟩ | ⟨rfl, _⟩ | ⟨rfl, _⟩ <;> decide

theorem ctCert : ConstCert ctSys "" ctLo ctIm where
  im_nonneg := by intro n; unfold ctIm; split_ifs <;> norm_num
  listed := by
    intro n nd h
    rcases ctNode n nd h with ⟨rfl, _⟩ | ⟨rfl, _⟩ | ⟨rfl, _⟩ | ⟨rfl, _⟩ | ⟨rfl, _⟩ <;> decide
  root := by
    intro n nd h hp
    rcases ctNode n nd h with ⟨rfl, hc, _, hch, hx⟩ | ⟨_, _, hq, _⟩ | ⟨_, _, hq, _⟩ | ⟨_, _, hq, _⟩ |
      ⟨_, _, hq, _⟩
    · rw [hc, hch, hx]
      norm_num [RootOK, ccSrc, ctLo, ctIm, sumL, PhaseCtx.inactive]
    · rw [hq] at hp; simp at hp
    · rw [hq] at hp; simp at hp
    · rw [hq] at hp; simp at hp
    · rw [hq] at hp; simp at hp
  inner := by
    intro n nd p h hp
    rcases ctNode n nd h with ⟨rfl, _, hq, _⟩ | ⟨rfl, hc, hq, hch, hx⟩ | ⟨rfl, hc, hq, hch, hx⟩ |
      ⟨rfl, hc, hq, hch, hx⟩ | ⟨rfl, hc, hq, hch, hx⟩
    · rw [hq] at hp; simp at hp
    · rw [hq] at hp; simp at hp; subst hp
      refine ⟨⟨_, rfl, by decide⟩, ?_⟩
      rw [hc, hch, hx]
      norm_num [EdgeOK, ccRl, ctLo, ctIm, sumL]
    · rw [hq] at hp; simp at hp; subst hp
      refine ⟨⟨_, rfl, by decide⟩, ?_⟩
      rw [hc, hch, hx]
      simp only [EdgeOK, ctSw]
      refine ⟨by norm_num [ctLo], rfl, by norm_num, by norm_num [ctLo, ctIm, sumL], vindep_const _, 1/1000,
        fun _ _ => le_refl _, by norm_num [ctIm, sumL]⟩
    · rw [hq] at hp; simp at hp; subst hp
      refine ⟨⟨_, rfl, by decide⟩, ?_⟩
      rw [hc, hch, hx]
      norm_num [EdgeOK, ccLoad, ctIm, loadVal]
    · rw [hq] at hp; simp at hp; subst hp
      refine ⟨⟨_, rfl, by decide⟩, ?_⟩
      rw [hc, hch, hx]
      norm_num [EdgeOK, ctLoad2, ctIm, loadVal]

example : ∃ r, ctSys.solvePhase ccCfg "" = .ok r ∧ r.iters ≤ 9 ∧ ConvergedAt ctSys ccCfg "" r.v r.i r.st :=
  constant_current_settling_partial ctSys ccCfg "" ctDepth ctHeight 2 ctTree ctLo ctIm ctCert
    (by norm_num [ccCfg]) (by norm_num [ccCfg]) (by norm_num [ccCfg]) (by norm_num [ccCfg])

/-- the invariant is about something: every iterate of the tree exists, keeps its voltages above the
    certificate's bounds and its currents below them -/
example (k : Nat) : ∃ X, sweepN ctSys "" k (ctSys.init "") = .ok X ∧ CInv ctSys ctDepth ctLo ctIm k X :=
  inv_all ctSys "" ctDepth ctHeight 2 ctTree ctLo ctIm ctCert k

/-! ### 10. the certificate cannot be dropped

  The class alone (kinds and voltage-independent ground currents, no margin) does not give liveness:
  an overloaded source raises "Unstable system". -/

/-- the kinds of the class, without any margin -/
def ConstKind (c : Comp α) : Prop :=
  match c.kind with
  | .source | .iload | .rloss | .vloss => True
  | .linreg | .pswitch => VIndep c.par
  | .rectifier => c.diode = true ∨ (c.rsList = none ∧ VIndep c.par)
  | _ => False

/-- a certified system is in the class -/
theorem constKind_of_cert (s : SSys α) (ph : String) (depth height : Nat → Nat) (D : Nat)
    (hT : SingleSupplyTree s depth height D) (lo im : Nat → α) (hC : ConstCert s ph lo im)
    (n : Nat) (nd : SNode α) (hn : s.node? n = some nd) : ConstKind nd.comp := by
  rcases hT.parent n nd hn with hp | ⟨p, hp, _⟩
  · unfold ConstKind; rw [hT.root_source n nd hn hp]; trivial
  · have hE := (hC.inner n nd p hn hp).2
    unfold EdgeOK at hE
    unfold ConstKind
    cases hk : nd.comp.kind <;> simp only [hk] at hE ⊢
    · exact hE.2.2.2.1
    · exact hE.2.2.2.2.1
    · by_cases hd : nd.comp.diode = true
      · exact Or.inl hd
      · rw [if_neg hd] at hE; exact Or.inr ⟨hE.2.1, hE.2.2.2.2.1⟩

/-- **Not true** (see `constant_current_settling_full_fails`): liveness for the whole class, no certificate. -/
def constant_current_settling_full : Prop :=
  ∀ (s : SSys ℚ) (ph : String) (depth height : Nat → Nat) (D : Nat), SingleSupplyTree s depth height D →
    (∀ n nd, s.node? n = some nd → n ∈ s.topo ∧ ConstKind nd.comp) →
    ∃ r, s.solvePhase defaultCfg ph = .ok r

/-- Source(1 V, 10 Ω) → ILoad(1 A) -/
def ovSrc : Comp ℚ := { name := "S", kind := .source, par := .const 0, vo := 1, rs := 10 }
def ovLoad : Comp ℚ := { name := "L", kind := .iload, par := .const 0, ii := 1 }
def ovSys : SSys ℚ :=
  { nodes := #[some ⟨ovSrc, [], [1], .table [], "", ""⟩, some ⟨ovLoad, [0], [], .table [], "", ""⟩],
    topo := [0, 1] }

def isErr {β : Type} : Except Err β → Bool
  | .error _ => true
  | .ok _ => false

theorem ovNode (n : Nat) (nd : SNode ℚ) (h : ovSys.node? n = some nd) :
    (n = 0 ∧ nd.comp = ovSrc ∧ nd.parents = [] ∧ nd.childs = [1]) ∨
    (n = 1 ∧ nd.comp = ovLoad ∧ nd.parents = [0] ∧ nd.childs = []) := by
  match n with
  | 0 => simp [SSys.node?, ovSys] at h; subst h; simp
  | 1 => simp [SSys.node?, ovSys] at h; subst h; simp
  | n + 2 => simp [SSys.node?, ovSys] at h

theorem constant_current_settling_full_fails : ¬ constant_current_settling_full := by
  intro hfull
  have hT : SingleSupplyTree ovSys (fun n => n) (fun n => 1 - n) 1 :=
    { topo_lt := by decide
      no_mux := by
        intro n nd h
        rcases ovNode n nd h with ⟨_, hc, _⟩ | ⟨_, hc, _⟩ <;> rw [hc] <;> decide
      root_source := by
        intro n nd h hp
        rcases ovNode n nd h with ⟨_, hc, _⟩ | ⟨_, _, hq, _⟩
        · rw [hc]; rfl
        · rw [hq] at hp; simp at hp
      parent := by
        intro n nd h
        rcases ovNode n nd h with ⟨rfl, _, hq, _⟩ | ⟨rfl, _, hq, _⟩
        · left; exact hq
        · right; exact ⟨0, hq, rfl⟩
      child := by
        intro n nd h c hc
        rcases ovNode n nd h with ⟨rfl, _, _, hq⟩ | ⟨rfl, _, _, hq⟩ <;> rw [hq] at hc <;> simp at hc
        subst hc; decide
      depth_le := by
        intro n nd h
        rcases ovNode n nd h with ⟨rfl, _⟩ | ⟨rfl, _⟩ <;> decide
      height_le := by
        intro n nd h
        rcases ovNode n nd h with ⟨rfl, _⟩ | ⟨rfl, _⟩ <;> decide }
  obtain ⟨r, hr⟩ := hfull ovSys "" _ _ 1 hT (by
    intro n nd h
    rcases ovNode n nd h with ⟨rfl, hc, _⟩ | ⟨rfl, hc, _⟩ <;> rw [hc] <;>
      exact ⟨by decide, by simp [ConstKind, ovSrc, ovLoad]⟩)
  have : isErr (ovSys.solvePhase defaultCfg "") = true := by decide +kernel
  rw [hr] at this
  simp [isErr] at this

end C03
end SysLoss
