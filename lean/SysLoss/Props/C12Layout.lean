/-
  Props/C12Layout — the layout hypothesis of the save()/from_file() round trip (`Props/C12.roundtrip_partial`:
  `Saveable` = `LayoutOK` + a Source block first + every component listed once) is PROVED for every
  well-formed description, so the rustworkx traversal (`bfsAux`, `childrenOf`, `descendants`, `layoutOf` in
  Model/Persist.lean) is no longer an assumption of the round trip.

  Subject: the existing definitions `layoutOf`, `bfs`/`bfsAux` (with its fuel `nodes.length + 1`), `descendants`,
  `childsOf`, `save`, `fromFile`; `LayoutOK`, `flatLayout` (Proofs/Persist.lean); `Saveable`, `SysEquiv` (Props/C12).

   `DescWF topo s`
        what the loader's `add_comp`/`add_source` enforce (and C14's well-formedness gives), on a description:
        components built by their constructors; names non-empty and pairwise distinct (`_chk_name`; the empty
        string counts as taken while loading); at least one component; `topo` is a permutation of the names in
        which every parent precedes its child (hence no cycle); every parent is a component (`_chk_parent`);
        parent lists without duplicates; no parent ⇔ Source; only a PMux has more than one parent; at most one
        PMux; a load has no child (`_child_types`; a Source is never a child because it has no parent).
        Rail names play no role: the loader resolves parents by component name only.  All fields but `built` are
        decidable (`by decide` on a concrete description).
   1. `saveable_of_wf`          DescWF → version parses → groups/rails registries non-empty → `Saveable`.
      `layout_of_wf`            the three layout facts on their own: `LayoutOK [] (layoutOf topo s)`, the flattened
                                layout is a permutation of `s.nodes`, the first block is a Source block.
      `saveable_of_wf_nomux`    the PMux-free case stated on its own (all blocks are Source blocks).
   2. `roundtrip_wf_partial`    DescWF → … → no Source/PMux is named "system" → `from_file(save(s))` succeeds and is
                                `SysEquiv` to `s`.  Partial ONLY through the reserved name (finding F15):
      `C12_wf_full`, `wf_full_fails_reserved_name`   the statement without that hypothesis is false (a well-formed
                                system whose Source is called "system").
   Ingredients, each for arbitrary fuel unless said otherwise:
      `bfsAux_inv`        keys of a run are distinct, every entry carries all successors of its key;
      `bfsAux_complete`, `bfs_entry`, `bfs_closed`   with the fuel of `bfs` every visited name that has successors
                          gets its entry: the visited set is closed under successors (fuel sufficiency);
      `entriesOK_bfsAux`  the entries of a run, with the mux subtree dropped, pass `add_comp` in the order written
                          (parent loaded before, name fresh, single parent, parent not a load);
      `reach_unique`      a component outside the mux subtree is below exactly one Source (no block lists it twice);
      `srcBlocks_complete` every component outside the mux subtree is listed in a Source block (induction along `topo`);
      `muxBlock_ok`       the PMux block comes after all its inputs and lists exactly the mux's descendants.
   Not covered: nothing of `Saveable` is left assumed.  The version string must still parse (`parseVer`), and the
   registries must be non-empty (an empty `groups`/`rails` is back-filled by the loader, changing the value).
   Non-vacuity: `eSys` (two Sources, a PMux fed from both trees, six further components): `eSys_wf` by `decide`,
   the round trip by the theorem, and layout / loader output evaluated by `decide +kernel`.
-/
import SysLoss.Props.C12
import Mathlib.Data.List.Dedup
import Mathlib.Data.List.Perm.Basic

set_option linter.unusedSectionVars false
set_option linter.unusedVariables false
set_option linter.unusedSimpArgs false

namespace SysLoss
namespace C12
variable {α : Type} [Field α] [LinearOrder α] [IsStrictOrderedRing α]

/-! ### successors -/

theorem mem_childrenOf (s : SysDesc α) (p : String) (n : Node α) :
    n ∈ childrenOf s p ↔ n ∈ s.nodes ∧ p ∈ n.parents := by
  simp [childrenOf]

theorem childrenOf_names_nodup (s : SysDesc α) (p : String) (h : s.names.Nodup) :
    ((childrenOf s p).map Node.name).Nodup := by
  unfold childrenOf
  rw [List.map_reverse, List.nodup_reverse]
  exact h.sublist (List.filter_sublist.map _)

/-- the nodes of a description are determined by their names -/
theorem node_ext_of_nodup (s : SysDesc α) (h : s.names.Nodup) {a b : Node α} (ha : a ∈ s.nodes)
    (hb : b ∈ s.nodes) (e : a.name = b.name) : a = b :=
  List.inj_on_of_nodup_map h ha hb e

/-! ### the queue step of `bfsAux` -/

/-- the successors not seen before, first occurrence kept -/
def freshOf (seen l : List String) : List String :=
  l.foldl (fun acc c => if (seen ++ acc).contains c then acc else acc ++ [c]) []

theorem fresh_fold_mem (seen l acc : List String) (c : String) :
    c ∈ l.foldl (fun acc c => if (seen ++ acc).contains c then acc else acc ++ [c]) acc ↔
      c ∈ acc ∨ (c ∈ l ∧ c ∉ seen) := by
  induction l generalizing acc with
  | nil => simp
  | cons a rest ih =>
    simp only [List.foldl_cons, ih]
    by_cases h : (seen ++ acc).contains a = true
    · simp only [h, if_true]
      simp only [List.contains_eq_mem, List.mem_append, decide_eq_true_eq] at h
      constructor
      · rintro (h1 | ⟨h1, h2⟩)
        · exact Or.inl h1
        · exact Or.inr ⟨by simp [h1], h2⟩
      · rintro (h1 | ⟨h1, h2⟩)
        · exact Or.inl h1
        · rcases List.mem_cons.mp h1 with e | h1
          · subst e
            rcases h with h | h
            · exact absurd h h2
            · exact Or.inl h
          · exact Or.inr ⟨h1, h2⟩
    · simp only [h, Bool.false_eq_true, if_false]
      simp only [List.contains_eq_mem, List.mem_append, decide_eq_true_eq, not_or] at h
      constructor
      · rintro (h1 | ⟨h1, h2⟩)
        · rcases List.mem_append.mp h1 with h1 | h1
          · exact Or.inl h1
          · simp only [List.mem_singleton] at h1
            subst h1
            exact Or.inr ⟨by simp, h.1⟩
        · exact Or.inr ⟨by simp [h1], h2⟩
      · rintro (h1 | ⟨h1, h2⟩)
        · exact Or.inl (by simp [h1])
        · rcases List.mem_cons.mp h1 with e | h1
          · subst e; exact Or.inl (by simp)
          · exact Or.inr ⟨h1, h2⟩

theorem fresh_fold_nodup (seen l acc : List String) (h : acc.Nodup) :
    (l.foldl (fun acc c => if (seen ++ acc).contains c then acc else acc ++ [c]) acc).Nodup := by
  induction l generalizing acc with
  | nil => simpa using h
  | cons a rest ih =>
    simp only [List.foldl_cons]
    apply ih
    by_cases h' : (seen ++ acc).contains a = true
    · simpa only [h', if_true] using h
    · simp only [h', Bool.false_eq_true, if_false]
      simp only [List.contains_eq_mem, List.mem_append, decide_eq_true_eq, not_or] at h'
      exact List.Nodup.append h (by simp) (by simpa using h'.2)

theorem mem_freshOf (seen l : List String) (c : String) : c ∈ freshOf seen l ↔ c ∈ l ∧ c ∉ seen := by
  unfold freshOf
  rw [fresh_fold_mem]
  simp

theorem freshOf_nodup (seen l : List String) : (freshOf seen l).Nodup :=
  fresh_fold_nodup seen l [] List.nodup_nil

theorem bfsAux_zero (s : SysDesc α) (q seen : List String) : bfsAux s 0 q seen = [] := rfl

theorem bfsAux_nil (s : SysDesc α) (fuel : Nat) (seen : List String) : bfsAux s fuel [] seen = [] := by
  cases fuel <;> rfl

theorem bfsAux_cons (s : SysDesc α) (fuel : Nat) (x : String) (q seen : List String) :
    bfsAux s (fuel + 1) (x :: q) seen =
      if (childrenOf s x).isEmpty then
        bfsAux s fuel (q ++ freshOf seen ((childrenOf s x).map Node.name))
          (seen ++ freshOf seen ((childrenOf s x).map Node.name))
      else (x, childrenOf s x) ::
        bfsAux s fuel (q ++ freshOf seen ((childrenOf s x).map Node.name))
          (seen ++ freshOf seen ((childrenOf s x).map Node.name)) := rfl


/-! ### what every `bfsAux` run lists -/

/-- the names listed as successors in a run -/
def listed (E : List (String × List (Node α))) : List String := E.flatMap fun e => e.2.map Node.name

/-- keys are distinct, every key satisfies any property that holds on the queue and is inherited by successors,
    and every entry carries all the successors of its key (any fuel) -/
theorem bfsAux_inv (s : SysDesc α) (P : String → Prop)
    (hP : ∀ n ∈ s.nodes, ∀ p ∈ n.parents, P p → P n.name) :
    ∀ (fuel : Nat) (queue seen : List String), queue.Nodup → (∀ q ∈ queue, q ∈ seen) → (∀ q ∈ queue, P q) →
      ((bfsAux s fuel queue seen).map (·.1)).Nodup ∧
      ∀ e ∈ bfsAux s fuel queue seen, (e.1 ∈ queue ∨ e.1 ∉ seen) ∧ P e.1 ∧ e.2 = childrenOf s e.1 := by
  intro fuel
  induction fuel with
  | zero => intro q seen _ _ _; simp [bfsAux_zero]
  | succ fuel ih =>
    intro queue seen hnd hsub hPq
    cases queue with
    | nil => simp [bfsAux_nil]
    | cons x q =>
      have hx : x ∈ seen := hsub x (by simp)
      have hxq : x ∉ q := (List.nodup_cons.mp hnd).1
      have hfrm := mem_freshOf seen ((childrenOf s x).map Node.name)
      generalize hfr : freshOf seen ((childrenOf s x).map Node.name) = fr at hfrm
      have hnd' : (q ++ fr).Nodup := by
        refine List.Nodup.append (List.nodup_cons.mp hnd).2 (hfr ▸ freshOf_nodup _ _) ?_
        intro a ha hb
        exact ((hfrm a).mp hb).2 (hsub a (by simp [ha]))
      have hsub' : ∀ y ∈ q ++ fr, y ∈ seen ++ fr := by
        intro y hy
        rcases List.mem_append.mp hy with h | h
        · exact List.mem_append.mpr (Or.inl (hsub y (by simp [h])))
        · exact List.mem_append.mpr (Or.inr h)
      have hP' : ∀ y ∈ q ++ fr, P y := by
        intro y hy
        rcases List.mem_append.mp hy with h | h
        · exact hPq y (by simp [h])
        · obtain ⟨n, hn, rfl⟩ := List.mem_map.mp ((hfrm y).mp h).1
          obtain ⟨hn1, hn2⟩ := (mem_childrenOf s x n).mp hn
          exact hP n hn1 x hn2 (hPq x (by simp))
      obtain ⟨k1, k2⟩ := ih (q ++ fr) (seen ++ fr) hnd' hsub' hP'
      have hxk : x ∉ (bfsAux s fuel (q ++ fr) (seen ++ fr)).map (·.1) := by
        intro hm
        obtain ⟨e, he, rfl⟩ := List.mem_map.mp hm
        rcases (k2 e he).1 with h | h
        · rcases List.mem_append.mp h with h | h
          · exact hxq h
          · exact ((hfrm _).mp h).2 hx
        · exact h (List.mem_append.mpr (Or.inl hx))
      have k2' : ∀ e ∈ bfsAux s fuel (q ++ fr) (seen ++ fr),
          (e.1 ∈ x :: q ∨ e.1 ∉ seen) ∧ P e.1 ∧ e.2 = childrenOf s e.1 := by
        intro e he
        obtain ⟨a, b, c⟩ := k2 e he
        refine ⟨?_, b, c⟩
        rcases a with a | a
        · rcases List.mem_append.mp a with a | a
          · exact Or.inl (by simp [a])
          · exact Or.inr ((hfrm _).mp a).2
        · exact Or.inr fun hh => a (List.mem_append.mpr (Or.inl hh))
      rw [bfsAux_cons, hfr]
      split
      · exact ⟨k1, k2'⟩
      · refine ⟨?_, ?_⟩
        · simp only [List.map_cons, List.nodup_cons]
          exact ⟨hxk, k1⟩
        · intro e he
          rcases List.mem_cons.mp he with rfl | he
          · exact ⟨Or.inl (by simp), hPq x (by simp), rfl⟩
          · exact k2' e he

/-- with fuel for every name not yet dequeued, every dequeued or listed name that has successors gets its entry -/
theorem bfsAux_complete (s : SysDesc α) :
    ∀ (fuel : Nat) (queue seen U : List String), queue.Nodup → (∀ q ∈ queue, q ∈ seen) → U.Nodup →
      U.length ≤ fuel → (∀ q ∈ queue, q ∈ U) → (∀ c ∈ s.names, c ∈ seen ∨ c ∈ U) →
      ∀ y, (y ∈ queue ∨ (y ∈ listed (bfsAux s fuel queue seen) ∧ y ∉ seen)) → childrenOf s y ≠ [] →
        (y, childrenOf s y) ∈ bfsAux s fuel queue seen := by
  intro fuel
  induction fuel with
  | zero =>
    intro queue seen U _ _ _ hlen hqU _ y hy _
    have hU : U = [] := List.length_eq_zero_iff.mp (Nat.le_zero.mp hlen)
    subst hU
    rcases hy with h | h
    · exact absurd (hqU y h) (by simp)
    · simp [bfsAux_zero, listed] at h
  | succ fuel ih =>
    intro queue seen U hnd hsub hUnd hlen hqU hall y hy hne
    cases queue with
    | nil =>
      rcases hy with h | h
      · simp at h
      · simp [bfsAux_nil, listed] at h
    | cons x q =>
      have hx : x ∈ seen := hsub x (by simp)
      have hxq : x ∉ q := (List.nodup_cons.mp hnd).1
      have hxU : x ∈ U := hqU x (by simp)
      have hfrm := mem_freshOf seen ((childrenOf s x).map Node.name)
      generalize hfr : freshOf seen ((childrenOf s x).map Node.name) = fr at hfrm
      have hnd' : (q ++ fr).Nodup := by
        refine List.Nodup.append (List.nodup_cons.mp hnd).2 (hfr ▸ freshOf_nodup _ _) ?_
        intro a ha hb
        exact ((hfrm a).mp hb).2 (hsub a (by simp [ha]))
      have hsub' : ∀ y ∈ q ++ fr, y ∈ seen ++ fr := by
        intro y hy
        rcases List.mem_append.mp hy with h | h
        · exact List.mem_append.mpr (Or.inl (hsub y (by simp [h])))
        · exact List.mem_append.mpr (Or.inr h)
      have hlen' : (U.erase x).length ≤ fuel := by
        rw [List.length_erase_of_mem hxU]; omega
      have hfrn : ∀ c ∈ fr, c ∈ s.names := by
        intro c hc
        obtain ⟨n, hn, rfl⟩ := List.mem_map.mp ((hfrm c).mp hc).1
        exact List.mem_map_of_mem ((mem_childrenOf s x n).mp hn).1
      have hqU' : ∀ y ∈ q ++ fr, y ∈ U.erase x := by
        intro y hy
        rcases List.mem_append.mp hy with h | h
        · have : y ≠ x := fun e => hxq (e ▸ h)
          exact (List.mem_erase_of_ne this).mpr (hqU y (by simp [h]))
        · have hys : y ∉ seen := ((hfrm y).mp h).2
          have : y ≠ x := fun e => hys (e ▸ hx)
          rcases hall y (hfrn y h) with h1 | h1
          · exact absurd h1 hys
          · exact (List.mem_erase_of_ne this).mpr h1
      have hall' : ∀ c ∈ s.names, c ∈ seen ++ fr ∨ c ∈ U.erase x := by
        intro c hc
        by_cases hcs : c ∈ seen
        · exact Or.inl (List.mem_append.mpr (Or.inl hcs))
        · rcases hall c hc with h1 | h1
          · exact absurd h1 hcs
          · have : c ≠ x := fun e => hcs (e ▸ hx)
            exact Or.inr ((List.mem_erase_of_ne this).mpr h1)
      have key := ih (q ++ fr) (seen ++ fr) (U.erase x) hnd' hsub' (hUnd.erase x) hlen' hqU' hall'
      -- a name listed later and not seen now is in the new queue or still unseen
      have later : ∀ y, y ∈ listed (bfsAux s fuel (q ++ fr) (seen ++ fr)) → y ∉ seen → childrenOf s y ≠ [] →
          (y, childrenOf s y) ∈ bfsAux s fuel (q ++ fr) (seen ++ fr) := by
        intro y h1 h2 h3
        by_cases hyf : y ∈ fr
        · exact key y (Or.inl (List.mem_append.mpr (Or.inr hyf))) h3
        · refine key y (Or.inr ⟨h1, ?_⟩) h3
          intro hh
          rcases List.mem_append.mp hh with hh | hh
          · exact h2 hh
          · exact hyf hh
      rw [bfsAux_cons, hfr] at hy ⊢
      by_cases hemp : (childrenOf s x).isEmpty = true
      · simp only [hemp, if_true] at hy ⊢
        rcases hy with h | ⟨h1, h2⟩
        · rcases List.mem_cons.mp h with rfl | h
          · exact absurd (List.isEmpty_iff.mp hemp) hne
          · exact key y (Or.inl (List.mem_append.mpr (Or.inl h))) hne
        · exact later y h1 h2 hne
      · simp only [hemp, Bool.false_eq_true, if_false] at hy ⊢
        rcases hy with h | ⟨h1, h2⟩
        · rcases List.mem_cons.mp h with rfl | h
          · exact List.mem_cons_self
          · exact List.mem_cons_of_mem _ (key y (Or.inl (List.mem_append.mpr (Or.inl h))) hne)
        · apply List.mem_cons_of_mem
          simp only [listed, List.flatMap_cons, List.mem_append] at h1
          rcases h1 with h1 | h1
          · have : y ∈ fr := (hfrm y).mpr ⟨h1, h2⟩
            exact key y (Or.inl (List.mem_append.mpr (Or.inr this))) hne
          · exact later y h1 h2 hne

/-- the fuel of `bfs` is sufficient: every visited name with successors has its entry -/
theorem bfs_entry (s : SysDesc α) (r y : String) (hy : y = r ∨ y ∈ listed (bfs s r))
    (hne : childrenOf s y ≠ []) : (y, childrenOf s y) ∈ bfs s r := by
  unfold bfs at hy ⊢
  refine bfsAux_complete s _ [r] [r] (r :: s.names).dedup (by simp) (by simp) (List.nodup_dedup _) ?_ ?_ ?_ y ?_ hne
  · have := (List.dedup_sublist (r :: s.names)).length_le
    have e : s.names.length = s.nodes.length := by simp [SysDesc.names]
    rw [List.length_cons, e] at this
    exact this
  · simp
  · intro c hc
    exact Or.inr (List.mem_dedup.mpr (by simp [hc]))
  · by_cases e : y = r
    · exact Or.inl (by simp [e])
    · rcases hy with h | h
      · exact absurd h e
      · exact Or.inr ⟨h, by simpa using e⟩

/-- the visited set is closed under successors -/
theorem bfs_closed (s : SysDesc α) (r y : String) (hy : y = r ∨ y ∈ listed (bfs s r)) (n : Node α)
    (hn : n ∈ s.nodes) (hp : y ∈ n.parents) : n.name ∈ listed (bfs s r) := by
  have hc : n ∈ childrenOf s y := (mem_childrenOf s y n).mpr ⟨hn, hp⟩
  have := bfs_entry s r y hy (List.ne_nil_of_mem hc)
  simp only [listed, List.mem_flatMap, List.mem_map]
  exact ⟨_, this, n, hc, rfl⟩


/-! ### well-formed descriptions -/

/-- what the loader's `add_comp` / `add_source` enforce on every system it accepts (and C14's well-formedness
    gives), at the level of a description; `topo` is a topological order of the names -/
structure DescWF (topo : List String) (s : SysDesc α) : Prop where
  /-- every component was made by its constructor -/
  built : ∀ n ∈ s.nodes, Built n.comp
  /-- `_chk_name` while loading: the empty string counts as taken -/
  named : ∀ n ∈ s.nodes, n.name ≠ ""
  /-- `_chk_name`: names are pairwise distinct -/
  nodup : s.names.Nodup
  /-- a system has its first Source -/
  nonempty : s.nodes ≠ []
  /-- `topo` lists every name once … -/
  topoPerm : topo.Perm s.names
  /-- … every node after its parents (so there is no cycle) -/
  topoOrder : ∀ n ∈ s.nodes, ∀ p ∈ n.parents, topo.idxOf p < topo.idxOf n.name
  /-- `_chk_parent`: every parent is a component -/
  parentsExist : ∀ n ∈ s.nodes, ∀ p ∈ n.parents, p ∈ s.names
  /-- `len(parent) > len(set(parent))` is refused -/
  parentsNodup : ∀ n ∈ s.nodes, n.parents.Nodup
  /-- exactly the Sources have no parent (`add_source` / `add_comp` with a non-empty parent) -/
  sourceIff : ∀ n ∈ s.nodes, (n.comp.kind = .source ↔ n.parents = [])
  /-- "only PMux component can have multiple inputs" -/
  single : ∀ n ∈ s.nodes, n.comp.kind ≠ .pmux → n.parents.length ≤ 1
  /-- "a system can only have one PMux" -/
  oneMux : ∀ n ∈ s.nodes, ∀ m ∈ s.nodes, n.comp.kind = .pmux → m.comp.kind = .pmux → n.name = m.name
  /-- `_child_types`: a load accepts no child (a Source is never a child: `sourceIff`) -/
  loadsLeaf : ∀ n ∈ s.nodes, ∀ p ∈ n.parents, ∀ pn ∈ s.nodes, pn.name = p → pn.comp.kind.ctype ≠ .LOAD

/-- `x` is `r` or a descendant of `r` -/
inductive Reach (s : SysDesc α) (r : String) : String → Prop
  | refl : Reach s r r
  | step (p x : String) (n : Node α) : Reach s r p → n ∈ s.nodes → p ∈ n.parents → x = n.name → Reach s r x

section wf
variable {topo : List String} {s : SysDesc α}

theorem DescWF.parents_eq (h : DescWF topo s) {n : Node α} (hn : n ∈ s.nodes) (hk : n.comp.kind ≠ .pmux)
    {p : String} (hp : p ∈ n.parents) : n.parents = [p] := by
  have h1 := h.single n hn hk
  cases hps : n.parents with
  | nil => rw [hps] at hp; simp at hp
  | cons a rest =>
    rw [hps] at hp h1
    cases rest with
    | nil => simp at hp; rw [hp]
    | cons b r => simp at h1

theorem DescWF.not_source (h : DescWF topo s) {n : Node α} (hn : n ∈ s.nodes) {p : String}
    (hp : p ∈ n.parents) : n.comp.kind ≠ .source := by
  intro e
  rw [(h.sourceIff n hn).mp e] at hp
  simp at hp

theorem DescWF.ext (h : DescWF topo s) {a b : Node α} (ha : a ∈ s.nodes) (hb : b ∈ s.nodes)
    (e : a.name = b.name) : a = b := node_ext_of_nodup s h.nodup ha hb e

theorem reach_idx (h : DescWF topo s) {r x : String} (hr : Reach s r x) : topo.idxOf r ≤ topo.idxOf x := by
  induction hr with
  | refl => exact le_refl _
  | step p x n _ hn hp hx ih =>
    subst hx
    exact le_of_lt (lt_of_le_of_lt ih (h.topoOrder n hn p hp))

/-- no cycle through a node: a parent of `m` is not `m` or below it -/
theorem not_reach_parent (h : DescWF topo s) {m : Node α} (hm : m ∈ s.nodes) {p : String}
    (hp : p ∈ m.parents) : ¬ Reach s m.name p := by
  intro hr
  have h1 := reach_idx h hr
  have h2 := h.topoOrder m hm p hp
  omega

/-- nothing but itself reaches a Source -/
theorem reach_source (h : DescWF topo s) {r : Node α} (hr : r ∈ s.nodes) (hk : r.comp.kind = .source)
    {a : String} (ha : Reach s a r.name) : a = r.name := by
  cases ha with
  | refl => rfl
  | step p x n _ hn hp hx =>
    have := h.ext hr hn hx
    subst this
    exact absurd hk (h.not_source hn hp)

/-- what is listed from `r` is below `r` -/
theorem reach_of_bfs (s : SysDesc α) (r : String) :
    ∀ e ∈ bfs s r, Reach s r e.1 ∧ e.2 = childrenOf s e.1 := by
  have := (bfsAux_inv s (Reach s r) (fun n hn p hp hr => Reach.step p _ n hr hn hp rfl)
    (s.nodes.length + 1) [r] [r] (by simp) (by simp) (by simp [Reach.refl])).2
  intro e he
  exact (this e he).2

theorem bfs_keys_nodup (s : SysDesc α) (r : String) : ((bfs s r).map (·.1)).Nodup :=
  (bfsAux_inv s (fun _ => True) (fun _ _ _ _ _ => trivial)
    (s.nodes.length + 1) [r] [r] (by simp) (by simp) (by simp)).1

theorem listed_iff (s : SysDesc α) (r x : String) :
    x ∈ listed (bfs s r) ↔ ∃ e ∈ bfs s r, ∃ n ∈ s.nodes, e.1 ∈ n.parents ∧ n.name = x := by
  simp only [listed, List.mem_flatMap, List.mem_map]
  constructor
  · rintro ⟨e, he, n, hn, rfl⟩
    rw [(reach_of_bfs s r e he).2] at hn
    obtain ⟨h1, h2⟩ := (mem_childrenOf s e.1 n).mp hn
    exact ⟨e, he, n, h1, h2, rfl⟩
  · rintro ⟨e, he, n, hn, hp, rfl⟩
    refine ⟨e, he, n, ?_, rfl⟩
    rw [(reach_of_bfs s r e he).2]
    exact (mem_childrenOf s e.1 n).mpr ⟨hn, hp⟩

theorem reach_of_listed (s : SysDesc α) (r x : String) (hx : x ∈ listed (bfs s r)) : Reach s r x := by
  obtain ⟨e, he, n, hn, hp, rfl⟩ := (listed_iff s r x).mp hx
  exact Reach.step e.1 _ n (reach_of_bfs s r e he).1 hn hp rfl

theorem listed_of_reach (s : SysDesc α) (r x : String) (hx : Reach s r x) : x = r ∨ x ∈ listed (bfs s r) := by
  induction hx with
  | refl => exact Or.inl rfl
  | step p x n _ hn hp hx ih =>
    subst hx
    exact Or.inr (bfs_closed s r p ih n hn hp)

/-! ### one block: the entries of a traversal are loadable in the order listed -/

theorem childsOK_of (seen : List (Node α)) (p : String) (cs : List (Node α))
    (hb : ∀ n ∈ cs, Built n.comp ∧ n.comp.kind ≠ .source ∧ n.comp.kind ≠ .pmux ∧ n.parents = [p] ∧ n.name ≠ "")
    (hp : ∃ pn ∈ seen, pn.name = p)
    (hacc : ∀ pn ∈ seen ++ cs, pn.name = p → pn.comp.kind.ctype ≠ .LOAD)
    (hfresh : ∀ n ∈ cs, n.name ∉ seen.map Node.name)
    (hnd : (cs.map Node.name).Nodup) : ChildsOK seen p cs := by
  induction cs generalizing seen with
  | nil => trivial
  | cons a rest ih =>
    obtain ⟨b1, b2, b3, b4, b5⟩ := hb a (by simp)
    simp only [List.map_cons, List.nodup_cons] at hnd
    refine ⟨{ built := b1, notSource := b2, notMux := b3, parents := b4, parentLoaded := hp,
              parentAccepts := fun pn hpn e => hacc pn (by simp [hpn]) e,
              fresh := hfresh a (by simp), named := b5 }, ?_⟩
    apply ih
    · intro n hn; exact hb n (by simp [hn])
    · obtain ⟨pn, h1, h2⟩ := hp; exact ⟨pn, by simp [h1], h2⟩
    · intro pn hpn; exact hacc pn (by simpa using hpn)
    · intro n hn
      simp only [List.map_append, List.map_cons, List.map_nil, List.mem_append, List.mem_singleton, not_or]
      refine ⟨hfresh n (by simp [hn]), ?_⟩
      intro e
      exact hnd.1 (e ▸ List.mem_map_of_mem hn)
    · exact hnd.2

/-- **the traversal is loadable** (any fuel): with `L` loaded, the unskipped queue loaded and marked `G`, and the
    unskipped children of everything not yet dequeued still unloaded, the entries of the run pass `add_comp` in
    the order written.  `skip` is closed under successors; `G` (inherited by unskipped successors) carries what
    makes a successor a single-parent non-mux node. -/
theorem entriesOK_bfsAux (h : DescWF topo s) (skip : List String) (G : String → Prop)
    (hskip : ∀ n ∈ s.nodes, ∀ p ∈ n.parents, p ∈ skip → n.name ∈ skip)
    (hG : ∀ n ∈ s.nodes, ∀ p ∈ n.parents, p ∉ skip → G p → n.name ∉ skip → n.comp.kind ≠ .pmux ∧ G n.name) :
    ∀ (fuel : Nat) (queue seenN : List String) (L : List (Node α)),
      queue.Nodup → (∀ q ∈ queue, q ∈ seenN) →
      (∀ q ∈ queue, q ∉ skip → G q ∧ q ∈ L.map Node.name) →
      (∀ n ∈ s.nodes, n.name ∉ skip → ∀ p ∈ n.parents, p ∉ skip → G p → (p ∈ queue ∨ p ∉ seenN) →
        n.name ∉ L.map Node.name) →
      (∀ n ∈ L, n ∈ s.nodes) →
      EntriesOK L ((bfsAux s fuel queue seenN).map fun e => (e.1, e.2.filter fun n => !skip.contains n.name)) := by
  intro fuel
  induction fuel with
  | zero => intro q seen L _ _ _ _ _; simp [bfsAux_zero, EntriesOK]
  | succ fuel ih =>
    intro queue seen L hnd hsub hI1 hI2 hI3
    cases queue with
    | nil => simp [bfsAux_nil, EntriesOK]
    | cons x q =>
      have hx : x ∈ seen := hsub x (by simp)
      have hxq : x ∉ q := (List.nodup_cons.mp hnd).1
      have hfrm := mem_freshOf seen ((childrenOf s x).map Node.name)
      generalize hfr : freshOf seen ((childrenOf s x).map Node.name) = fr at hfrm
      have hnd' : (q ++ fr).Nodup := by
        refine List.Nodup.append (List.nodup_cons.mp hnd).2 (hfr ▸ freshOf_nodup _ _) ?_
        intro a ha hb
        exact ((hfrm a).mp hb).2 (hsub a (by simp [ha]))
      have hsub' : ∀ y ∈ q ++ fr, y ∈ seen ++ fr := by
        intro y hy
        rcases List.mem_append.mp hy with h | h
        · exact List.mem_append.mpr (Or.inl (hsub y (by simp [h])))
        · exact List.mem_append.mpr (Or.inr h)
      -- the children written for `x`
      generalize hcs : (childrenOf s x).filter (fun n => !skip.contains n.name) = cs
      have hcsm : ∀ n, n ∈ cs ↔ n ∈ s.nodes ∧ x ∈ n.parents ∧ n.name ∉ skip := by
        intro n
        rw [← hcs]
        simp [mem_childrenOf, and_assoc]
      have hcsnd : (cs.map Node.name).Nodup := by
        rw [← hcs]
        exact (childrenOf_names_nodup s x h.nodup).sublist (List.filter_sublist.map _)
      -- a name of the new queue or not yet seen was not `x`
      have hpx : ∀ p, (p ∈ q ++ fr ∨ p ∉ seen ++ fr) → p ≠ x ∧ (p ∈ x :: q ∨ p ∉ seen) := by
        intro p hp
        rcases hp with hp | hp
        · rcases List.mem_append.mp hp with hp | hp
          · exact ⟨fun e => hxq (e ▸ hp), Or.inl (by simp [hp])⟩
          · have := ((hfrm p).mp hp).2
            exact ⟨fun e => this (e ▸ hx), Or.inr this⟩
        · have : p ∉ seen := fun hh => hp (List.mem_append.mpr (Or.inl hh))
          exact ⟨fun e => this (e ▸ hx), Or.inr this⟩
      have hI3' : ∀ n ∈ L ++ cs, n ∈ s.nodes := by
        intro n hn
        rcases List.mem_append.mp hn with hn | hn
        · exact hI3 n hn
        · exact ((hcsm n).mp hn).1
      have hI2' : ∀ n ∈ s.nodes, n.name ∉ skip → ∀ p ∈ n.parents, p ∉ skip → G p → (p ∈ q ++ fr ∨ p ∉ seen ++ fr) →
          n.name ∉ (L ++ cs).map Node.name := by
        intro n hn hns p hp hps hGp hpq
        obtain ⟨hne, hold⟩ := hpx p hpq
        have h1 := hI2 n hn hns p hp hps hGp hold
        simp only [List.map_append, List.mem_append, not_or]
        refine ⟨h1, ?_⟩
        intro hm
        obtain ⟨n', hn', e⟩ := List.mem_map.mp hm
        obtain ⟨c1, c2, c3⟩ := (hcsm n').mp hn'
        have : n' = n := h.ext c1 hn e
        subst this
        have hk := (hG n' hn p hp hps hGp hns).1
        rw [h.parents_eq hn hk hp] at c2
        simp at c2
        exact hne c2.symm
      have step : ChildsOK L x cs ∧ EntriesOK (L ++ cs)
          ((bfsAux s fuel (q ++ fr) (seen ++ fr)).map fun e => (e.1, e.2.filter fun n => !skip.contains n.name)) := by
        by_cases hxs : x ∈ skip
        · -- everything below a skipped name is skipped
          have hnil : cs = [] := by
            apply List.eq_nil_iff_forall_not_mem.mpr
            intro n hn
            obtain ⟨c1, c2, c3⟩ := (hcsm n).mp hn
            exact c3 (hskip n c1 x c2 hxs)
          subst hnil
          refine ⟨trivial, ?_⟩
          apply ih (q ++ fr) (seen ++ fr) (L ++ []) hnd' hsub' ?_ hI2' hI3'
          intro y hy hys
          rcases List.mem_append.mp hy with hy | hy
          · simpa using hI1 y (by simp [hy]) hys
          · obtain ⟨n, hn, rfl⟩ := List.mem_map.mp ((hfrm y).mp hy).1
            obtain ⟨c1, c2⟩ := (mem_childrenOf s x n).mp hn
            exact absurd (hskip n c1 x c2 hxs) hys
        · obtain ⟨hGx, hxL⟩ := hI1 x (by simp) hxs
          refine ⟨?_, ?_⟩
          · by_cases hnil : cs = []
            · rw [hnil]; trivial
            obtain ⟨n0, hn0⟩ := List.exists_mem_of_ne_nil cs hnil
            obtain ⟨d1, d2, d3⟩ := (hcsm n0).mp hn0
            apply childsOK_of
            · intro n hn
              obtain ⟨c1, c2, c3⟩ := (hcsm n).mp hn
              have hk := (hG n c1 x c2 hxs hGx c3).1
              exact ⟨h.built n c1, h.not_source c1 c2, hk, h.parents_eq c1 hk c2, h.named n c1⟩
            · obtain ⟨pn, hpn, e⟩ := List.mem_map.mp hxL
              exact ⟨pn, hpn, e⟩
            · intro pn hpn e
              exact h.loadsLeaf n0 d1 x d2 pn (hI3' pn hpn) e
            · intro n hn
              obtain ⟨c1, c2, c3⟩ := (hcsm n).mp hn
              exact hI2 n c1 c3 x c2 hxs hGx (Or.inl (by simp))
            · exact hcsnd
          · apply ih (q ++ fr) (seen ++ fr) (L ++ cs) hnd' hsub' ?_ hI2' hI3'
            intro y hy hys
            rcases List.mem_append.mp hy with hy | hy
            · obtain ⟨g1, g2⟩ := hI1 y (by simp [hy]) hys
              exact ⟨g1, by simp only [List.map_append, List.mem_append]; exact Or.inl g2⟩
            · obtain ⟨n, hn, rfl⟩ := List.mem_map.mp ((hfrm _).mp hy).1
              obtain ⟨c1, c2⟩ := (mem_childrenOf s x n).mp hn
              refine ⟨(hG n c1 x c2 hxs hGx hys).2, ?_⟩
              simp only [List.map_append, List.mem_append]
              exact Or.inr (List.mem_map_of_mem ((hcsm n).mpr ⟨c1, c2, hys⟩))
      rw [bfsAux_cons, hfr]
      by_cases hemp : (childrenOf s x).isEmpty = true
      · simp only [hemp, if_true]
        have : cs = [] := by rw [← hcs, List.isEmpty_iff.mp hemp]; rfl
        rw [this, List.append_nil] at step
        exact step.2
      · simp only [hemp, Bool.false_eq_true, if_false, List.map_cons, hcs]
        exact step


/-! ### the blocks of `layoutOf` -/

def srcBlock (s : SysDesc α) (skip : List String) (n : Node α) : Block α :=
  { root := n, isMux := false, childs := childsOf s n.name skip }

def muxBlock (s : SysDesc α) (m : Node α) : Block α :=
  { root := m, isMux := true, childs := childsOf s m.name [] }

/-- what the source blocks need of the names dropped from them (the mux and everything below it) -/
structure SkipOK (s : SysDesc α) (skip : List String) : Prop where
  closed : ∀ n ∈ s.nodes, ∀ p ∈ n.parents, p ∈ skip → n.name ∈ skip
  noMux : ∀ n ∈ s.nodes, n.name ∉ skip → n.comp.kind ≠ .pmux
  noSrc : ∀ n ∈ s.nodes, n.comp.kind = .source → n.name ∉ skip

/-- an unskipped name is below one Source only -/
theorem reach_unique (h : DescWF topo s) {skip : List String} (hs : SkipOK s skip) {a b : Node α}
    (ha : a ∈ s.nodes) (hak : a.comp.kind = .source) (hb : b ∈ s.nodes) (hbk : b.comp.kind = .source) :
    ∀ x, Reach s a.name x → Reach s b.name x → x ∉ skip → a.name = b.name := by
  intro x h1
  induction h1 with
  | refl => intro h2 _; exact (reach_source h ha hak h2).symm
  | step p x n _ hn hp hxe ih =>
    intro h2 hx
    subst hxe
    have hk : n.comp.kind ≠ .pmux := hs.noMux n hn hx
    have hps : p ∉ skip := fun hh => hx (hs.closed n hn p hp hh)
    generalize hy : n.name = y at h2
    cases h2 with
    | refl =>
      have := h.ext hn hb hy
      subst this
      exact absurd hbk (h.not_source hn hp)
    | step p' x' n' hr' hn' hp' hx' =>
      have := h.ext hn hn' (hy.trans hx')
      subst this
      rw [h.parents_eq hn hk hp] at hp'
      simp only [List.mem_singleton] at hp'
      subst hp'
      exact ih hr' hps

theorem mem_srcBlock_nodes (s : SysDesc α) (skip : List String) (r x : Node α) :
    x ∈ (srcBlock s skip r).nodes ↔
      x = r ∨ ∃ e ∈ bfs s r.name, x ∈ e.2 ∧ x.name ∉ skip := by
  simp only [Block.nodes, srcBlock, childsOf, List.mem_cons, List.mem_flatMap, List.mem_map]
  constructor
  · rintro (h | ⟨e', ⟨e, he, rfl⟩, hx⟩)
    · exact Or.inl h
    · simp only [List.mem_filter, Bool.not_eq_true', List.contains_eq_mem, decide_eq_false_iff_not] at hx
      exact Or.inr ⟨e, he, hx.1, hx.2⟩
  · rintro (h | ⟨e, he, h1, h2⟩)
    · exact Or.inl h
    · refine Or.inr ⟨_, ⟨e, he, rfl⟩, ?_⟩
      simp only [List.mem_filter, Bool.not_eq_true', List.contains_eq_mem, decide_eq_false_iff_not]
      exact ⟨h1, h2⟩

theorem srcBlock_nodes (h : DescWF topo s) {skip : List String} (hs : SkipOK s skip) {r : Node α}
    (hr : r ∈ s.nodes) (hk : r.comp.kind = .source) :
    ∀ x ∈ (srcBlock s skip r).nodes, x ∈ s.nodes ∧ x.name ∉ skip ∧ Reach s r.name x.name := by
  intro x hx
  rcases (mem_srcBlock_nodes s skip r x).mp hx with rfl | ⟨e, he, h1, h2⟩
  · exact ⟨hr, hs.noSrc x hr hk, Reach.refl⟩
  · obtain ⟨g1, g2⟩ := reach_of_bfs s r.name e he
    rw [g2] at h1
    obtain ⟨c1, c2⟩ := (mem_childrenOf s e.1 x).mp h1
    exact ⟨c1, h2, Reach.step e.1 _ x g1 c1 c2 rfl⟩

theorem childsOf_keys (s : SysDesc α) (r : String) (skip : List String) :
    ((childsOf s r skip).map (·.1)).Nodup := by
  have : (childsOf s r skip).map (·.1) = (bfs s r).map (·.1) := by
    simp [childsOf, List.map_map, Function.comp_def]
  rw [this]
  exact bfs_keys_nodup s r

/-- a Source block is loadable after blocks of other Sources -/
theorem srcBlock_ok (h : DescWF topo s) {skip : List String} (hs : SkipOK s skip) (prev seen : List (Node α))
    {r : Node α} (hr : r ∈ s.nodes) (hk : r.comp.kind = .source)
    (hprev : ∀ a ∈ prev, a ∈ s.nodes ∧ a.comp.kind = .source)
    (hrp : ∀ a ∈ prev, r.name ≠ a.name)
    (hseen : ∀ x ∈ seen, x ∈ s.nodes ∧ x.name ∉ skip ∧ ∃ a ∈ prev, Reach s a.name x.name) :
    SourceBlockOK seen (srcBlock s skip r) := by
  refine { built := h.built r hr, isSource := hk, notMux := rfl, noParents := (h.sourceIff r hr).mp hk,
           fresh := ?_, named := h.named r hr, keys := childsOf_keys s r.name skip, entries := ?_ }
  · intro hm
    obtain ⟨x, hx, e⟩ := List.mem_map.mp hm
    obtain ⟨x1, x2, a, ha, x3⟩ := hseen x hx
    have : x = r := h.ext x1 hr e
    subst this
    exact hrp a ha (reach_source h hr hk x3).symm
  · show EntriesOK (seen ++ [r]) (childsOf s r.name skip)
    unfold childsOf bfs
    apply entriesOK_bfsAux h skip (Reach s r.name) hs.closed
    · intro n hn p hp hps hGp hns
      exact ⟨hs.noMux n hn hns, Reach.step p _ n hGp hn hp rfl⟩
    · simp
    · simp
    · intro q hq _
      simp only [List.mem_singleton] at hq
      subst hq
      exact ⟨Reach.refl, by simp⟩
    · intro n hn hns p hp hps hGp _ hm
      have hrn : Reach s r.name n.name := Reach.step p _ n hGp hn hp rfl
      obtain ⟨x, hx, e⟩ := List.mem_map.mp hm
      rcases List.mem_append.mp hx with hx | hx
      · obtain ⟨x1, x2, a, ha, x3⟩ := hseen x hx
        have : x = n := h.ext x1 hn e
        subst this
        obtain ⟨a1, a2⟩ := hprev a ha
        exact hrp a ha (reach_unique h hs hr hk a1 a2 _ hrn x3 hns)
      · simp only [List.mem_singleton] at hx
        subst hx
        have : x = n := h.ext hr hn e
        subst this
        exact h.not_source hn hp hk
    · intro n hn
      rcases List.mem_append.mp hn with hn | hn
      · exact (hseen n hn).1
      · simp only [List.mem_singleton] at hn
        subst hn
        exact hr

theorem srcBlocks_ok (h : DescWF topo s) {skip : List String} (hs : SkipOK s skip) :
    ∀ (rs prev seen : List (Node α)),
      (∀ r ∈ rs, r ∈ s.nodes ∧ r.comp.kind = .source) →
      (∀ a ∈ prev, a ∈ s.nodes ∧ a.comp.kind = .source) →
      (rs.map Node.name).Nodup → (∀ r ∈ rs, ∀ a ∈ prev, r.name ≠ a.name) →
      (∀ x ∈ seen, x ∈ s.nodes ∧ x.name ∉ skip ∧ ∃ a ∈ prev, Reach s a.name x.name) →
      LayoutOK seen (rs.map (srcBlock s skip)) := by
  intro rs
  induction rs with
  | nil => intro _ _ _ _ _ _ _; trivial
  | cons r rs ih =>
    intro prev seen hrs hprev hnd hdis hseen
    obtain ⟨hr, hk⟩ := hrs r (by simp)
    simp only [List.map_cons, List.nodup_cons] at hnd
    refine ⟨?_, ?_⟩
    · have : (srcBlock s skip r).isMux = false := rfl
      simp only [this, Bool.false_eq_true, if_false]
      exact srcBlock_ok h hs prev seen hr hk hprev (hdis r (by simp)) hseen
    · apply ih (r :: prev) _ (fun x hx => hrs x (by simp [hx]))
      · intro a ha
        rcases List.mem_cons.mp ha with rfl | ha
        · exact ⟨hr, hk⟩
        · exact hprev a ha
      · exact hnd.2
      · intro x hx a ha
        rcases List.mem_cons.mp ha with rfl | ha
        · intro e
          exact hnd.1 (e ▸ List.mem_map_of_mem hx)
        · exact hdis x (by simp [hx]) a ha
      · intro x hx
        rcases List.mem_append.mp hx with hx | hx
        · obtain ⟨x1, x2, a, ha, x3⟩ := hseen x hx
          exact ⟨x1, x2, a, by simp [ha], x3⟩
        · obtain ⟨x1, x2, x3⟩ := srcBlock_nodes h hs hr hk x hx
          exact ⟨x1, x2, r, by simp, x3⟩

/-- the names dropped from the Source blocks when there is a PMux `m` -/
theorem skipOK_mux (h : DescWF topo s) {m : Node α} (hm : m ∈ s.nodes) (hk : m.comp.kind = .pmux) :
    SkipOK s (m.name :: descendants s m.name) := by
  have hd : ∀ x, x ∈ descendants s m.name ↔ x ∈ listed (bfs s m.name) := by
    intro x; unfold descendants listed; exact List.mem_eraseDups
  refine ⟨?_, ?_, ?_⟩
  · intro n hn p hp hps
    refine List.mem_cons_of_mem _ ((hd _).mpr (bfs_closed s m.name p ?_ n hn hp))
    rcases List.mem_cons.mp hps with e | e
    · exact Or.inl e
    · exact Or.inr ((hd _).mp e)
  · intro n hn hns hkn
    exact hns (by rw [h.oneMux n hn m hm hkn hk]; simp)
  · intro n hn hkn hns
    rcases List.mem_cons.mp hns with e | e
    · have := h.ext hn hm e
      subst this
      rw [hk] at hkn
      cases hkn
    · obtain ⟨e', _, n', hn', hp', e2⟩ := (listed_iff s m.name n.name).mp ((hd _).mp e)
      have := h.ext hn' hn e2
      subst this
      exact h.not_source hn' hp' hkn

/-- the PMux block is loadable after everything that is not the mux or below it -/
theorem muxBlock_ok (h : DescWF topo s) {m : Node α} (hm : m ∈ s.nodes) (hk : m.comp.kind = .pmux)
    (seen : List (Node α))
    (hseen : ∀ x ∈ seen, x ∈ s.nodes ∧ x.name ∉ m.name :: descendants s m.name)
    (hall : ∀ n ∈ s.nodes, n.name ∉ m.name :: descendants s m.name → n ∈ seen) :
    MuxBlockOK seen (muxBlock s m) := by
  have hd : ∀ x, x ∈ descendants s m.name ↔ x ∈ listed (bfs s m.name) := by
    intro x; unfold descendants listed; exact List.mem_eraseDups
  have hskipR : ∀ x, Reach s m.name x → x ∈ m.name :: descendants s m.name := by
    intro x hx
    rcases listed_of_reach s m.name x hx with e | e
    · simp [e]
    · exact List.mem_cons_of_mem _ ((hd x).mpr e)
  have hne : m.parents ≠ [] := by
    intro e
    have := (h.sourceIff m hm).mpr e
    rw [hk] at this
    cases this
  refine { built := h.built m hm, isPMux := hk, isMux := rfl, fresh := ?_, named := h.named m hm,
           keys := childsOf_keys s m.name [], entries := ?_, parentsNonempty := hne,
           parentsNodup := h.parentsNodup m hm, parentsLoaded := ?_, parentsAccept := ?_, onlyMux := ?_ }
  · intro hmm
    obtain ⟨x, hx, e⟩ := List.mem_map.mp hmm
    apply (hseen x hx).2
    have : x.name = m.name := e
    rw [this]
    simp
  · show EntriesOK (seen ++ [m]) (childsOf s m.name [])
    unfold childsOf bfs
    apply entriesOK_bfsAux h [] (Reach s m.name) (by simp)
    · intro n hn p hp _ hGp _
      refine ⟨?_, Reach.step p _ n hGp hn hp rfl⟩
      intro hkn
      have := h.ext hn hm (h.oneMux n hn m hm hkn hk)
      subst this
      exact not_reach_parent h hn hp hGp
    · simp
    · simp
    · intro q hq _
      simp only [List.mem_singleton] at hq
      subst hq
      exact ⟨Reach.refl, by simp⟩
    · intro n hn _ p hp _ hGp _ hmm
      have hrn : Reach s m.name n.name := Reach.step p _ n hGp hn hp rfl
      obtain ⟨x, hx, e⟩ := List.mem_map.mp hmm
      rcases List.mem_append.mp hx with hx | hx
      · have : x = n := h.ext (hseen x hx).1 hn e
        subst this
        exact (hseen x hx).2 (hskipR _ hrn)
      · simp only [List.mem_singleton] at hx
        subst hx
        have : x = n := h.ext hm hn e
        subst this
        exact not_reach_parent h hn hp hGp
    · intro n hn
      rcases List.mem_append.mp hn with hn | hn
      · exact (hseen n hn).1
      · simp only [List.mem_singleton] at hn
        subst hn
        exact hm
  · intro p hp
    obtain ⟨pn, hpn, e⟩ := List.mem_map.mp (h.parentsExist m hm p hp)
    refine ⟨pn, hall pn hpn ?_, e⟩
    intro hps
    have e' : pn.name = p := e
    rw [e'] at hps
    rcases List.mem_cons.mp hps with e1 | e1
    · exact not_reach_parent h hm hp (e1 ▸ Reach.refl)
    · exact not_reach_parent h hm hp (reach_of_listed s m.name p ((hd p).mp e1))
  · intro p hp pn hpn e
    exact h.loadsLeaf m hm p hp pn (hseen pn hpn).1 e
  · intro x hx hkx
    apply (hseen x hx).2
    rw [h.oneMux x (hseen x hx).1 m hm hkx hk]
    simp


/-! ### every component is listed, once -/

theorem mem_flat_map (f : Node α → Block α) (rs : List (Node α)) (x : Node α) :
    x ∈ flatLayout (rs.map f) ↔ ∃ r ∈ rs, x ∈ (f r).nodes := by
  simp [flatLayout, List.mem_flatMap]

theorem mem_muxBlock_nodes (s : SysDesc α) (m x : Node α) :
    x ∈ (muxBlock s m).nodes ↔ x = m ∨ ∃ e ∈ bfs s m.name, x ∈ e.2 := by
  simp only [Block.nodes, muxBlock, childsOf, List.mem_cons, List.mem_flatMap, List.mem_map]
  constructor
  · rintro (h | ⟨e', ⟨e, he, rfl⟩, hx⟩)
    · exact Or.inl h
    · simp only [List.mem_filter] at hx
      exact Or.inr ⟨e, he, hx.1⟩
  · rintro (h | ⟨e, he, h1⟩)
    · exact Or.inl h
    · refine Or.inr ⟨_, ⟨e, he, rfl⟩, ?_⟩
      simp only [List.mem_filter]
      exact ⟨h1, by simp⟩

/-- every component that is not dropped is in the block of some Source (induction along `topo`) -/
theorem srcBlocks_complete (h : DescWF topo s) {skip : List String} (hs : SkipOK s skip) (srcs : List (Node α))
    (hsrcs : ∀ n ∈ s.nodes, n.comp.kind = .source → n ∈ srcs) :
    ∀ (k : Nat), ∀ n ∈ s.nodes, topo.idxOf n.name < k → n.name ∉ skip →
      n ∈ flatLayout (srcs.map (srcBlock s skip)) := by
  intro k
  induction k with
  | zero => intro n _ hk; omega
  | succ k ih =>
    intro n hn hk hns
    rw [mem_flat_map]
    by_cases hp : n.parents = []
    · exact ⟨n, hsrcs n hn ((h.sourceIff n hn).mpr hp), (mem_srcBlock_nodes s skip n n).mpr (Or.inl rfl)⟩
    · obtain ⟨p, hpm⟩ := List.exists_mem_of_ne_nil _ hp
      obtain ⟨pn, hpn, e⟩ := List.mem_map.mp (h.parentsExist n hn p hpm)
      have e' : pn.name = p := e
      have hlt := h.topoOrder n hn p hpm
      have hpns : pn.name ∉ skip := by
        rw [e']
        exact fun hh => hns (hs.closed n hn p hpm hh)
      have := ih pn hpn (by rw [e']; omega) hpns
      rw [mem_flat_map] at this
      obtain ⟨r, hr, hx⟩ := this
      refine ⟨r, hr, ?_⟩
      have hc : n ∈ childrenOf s p := (mem_childrenOf s p n).mpr ⟨hn, hpm⟩
      have hvis : p = r.name ∨ p ∈ listed (bfs s r.name) := by
        rcases (mem_srcBlock_nodes s skip r pn).mp hx with rfl | ⟨e1, he1, h1, _⟩
        · exact Or.inl e'.symm
        · refine Or.inr ?_
          rw [← e']
          simp only [listed, List.mem_flatMap, List.mem_map]
          exact ⟨e1, he1, pn, h1, rfl⟩
      have hent := bfs_entry s r.name p hvis (List.ne_nil_of_mem hc)
      exact (mem_srcBlock_nodes s skip r n).mpr (Or.inr ⟨_, hent, hc, hns⟩)

theorem nodup_snoc (seen : List (Node α)) (n : Node α) (h1 : (seen.map Node.name).Nodup)
    (h2 : n.name ∉ seen.map Node.name) : ((seen ++ [n]).map Node.name).Nodup := by
  rw [List.map_append]
  refine List.Nodup.append h1 (by simp) ?_
  intro a ha hb
  simp only [List.map_cons, List.map_nil, List.mem_singleton] at hb
  subst hb
  exact h2 ha

theorem childsOK_nodup (seen : List (Node α)) (p : String) (cs : List (Node α)) (h : ChildsOK seen p cs)
    (hnd : (seen.map Node.name).Nodup) : ((seen ++ cs).map Node.name).Nodup := by
  induction cs generalizing seen with
  | nil => simpa using hnd
  | cons a rest ih =>
    obtain ⟨h1, h2⟩ := h
    have := ih (seen ++ [a]) h2 (nodup_snoc seen a hnd h1.fresh)
    simpa using this

theorem entriesOK_nodup (seen : List (Node α)) (es : List (String × List (Node α))) (h : EntriesOK seen es)
    (hnd : (seen.map Node.name).Nodup) : ((seen ++ es.flatMap (·.2)).map Node.name).Nodup := by
  induction es generalizing seen with
  | nil => simpa using hnd
  | cons e rest ih =>
    obtain ⟨h1, h2⟩ := h
    have := ih (seen ++ e.2) h2 (childsOK_nodup seen e.1 e.2 h1 hnd)
    simpa using this

theorem layoutOK_nodup (seen : List (Node α)) (L : List (Block α)) (h : LayoutOK seen L)
    (hnd : (seen.map Node.name).Nodup) : ((seen ++ flatLayout L).map Node.name).Nodup := by
  induction L generalizing seen with
  | nil => simpa [flatLayout] using hnd
  | cons b rest ih =>
    obtain ⟨h1, h2⟩ := h
    have hb : ((seen ++ b.nodes).map Node.name).Nodup := by
      have hfe : b.root.name ∉ seen.map Node.name ∧ EntriesOK (seen ++ [b.root]) b.childs := by
        cases hm : b.isMux <;> rw [hm] at h1
        · exact ⟨h1.fresh, h1.entries⟩
        · exact ⟨h1.fresh, h1.entries⟩
      have := entriesOK_nodup _ _ hfe.2 (nodup_snoc seen b.root hnd hfe.1)
      simpa [Block.nodes] using this
    have := ih (seen ++ b.nodes) h2 hb
    simpa [flatLayout] using this

theorem layoutOK_append (seen : List (Node α)) (L1 L2 : List (Block α)) (h1 : LayoutOK seen L1)
    (h2 : LayoutOK (seen ++ flatLayout L1) L2) : LayoutOK seen (L1 ++ L2) := by
  induction L1 generalizing seen with
  | nil => simpa [flatLayout] using h2
  | cons b rest ih =>
    obtain ⟨g1, g2⟩ := h1
    refine ⟨g1, ih _ g2 ?_⟩
    simpa [flatLayout] using h2

theorem find_by_name (l : List (Node α)) (hnd : (l.map Node.name).Nodup) (n : Node α) (hn : n ∈ l) :
    l.find? (fun x => x.name == n.name) = some n := by
  induction l with
  | nil => simp at hn
  | cons a rest ih =>
    simp only [List.map_cons, List.nodup_cons] at hnd
    rcases List.mem_cons.mp hn with rfl | hn'
    · simp [List.find?_cons]
    · have : a.name ≠ n.name := fun e => hnd.1 (e ▸ List.mem_map_of_mem hn')
      have hb : (a.name == n.name) = false := by simpa using this
      simp only [List.find?_cons, hb]
      exact ih hnd.2 hn'

/-- `topo`, read as components, is the node list in another order -/
theorem ordered_perm (h : DescWF topo s) : (topo.filterMap s.find?).Perm s.nodes := by
  have h1 : (topo.filterMap s.find?).Perm (s.names.filterMap s.find?) := h.topoPerm.filterMap _
  have h2 : s.names.filterMap s.find? = s.nodes := by
    unfold SysDesc.names
    rw [List.filterMap_map]
    calc s.nodes.filterMap (s.find? ∘ Node.name) = s.nodes.filterMap some :=
          List.filterMap_congr (fun n hn => find_by_name s.nodes h.nodup n hn)
      _ = s.nodes := List.filterMap_some
  rw [h2] at h1
  exact h1

/-- the component first in `topo` is a Source -/
theorem exists_source (h : DescWF topo s) : ∃ n ∈ s.nodes, n.comp.kind = .source := by
  have hlen := h.topoPerm.length_eq
  cases htopo : topo with
  | nil =>
    rw [htopo] at hlen
    have : s.nodes = [] := by
      have : s.nodes.length = 0 := by simpa [SysDesc.names] using hlen.symm
      exact List.length_eq_zero_iff.mp this
    exact absurd this h.nonempty
  | cons t rest =>
    have ht : t ∈ s.names := h.topoPerm.subset (by rw [htopo]; simp)
    obtain ⟨n, hn, e⟩ := List.mem_map.mp ht
    refine ⟨n, hn, (h.sourceIff n hn).mpr ?_⟩
    apply List.eq_nil_iff_forall_not_mem.mpr
    intro p hp
    have := h.topoOrder n hn p hp
    have e' : n.name = t := e
    rw [e', htopo, List.idxOf_cons_self] at this
    omega

/-- the Source blocks for any admissible `skip` -/
theorem srcLayout (h : DescWF topo s) {skip : List String} (hs : SkipOK s skip) (srcs : List (Node α))
    (h1 : ∀ r ∈ srcs, r ∈ s.nodes ∧ r.comp.kind = .source)
    (h2 : ∀ n ∈ s.nodes, n.comp.kind = .source → n ∈ srcs) (hnd : (srcs.map Node.name).Nodup) :
    LayoutOK [] (srcs.map (srcBlock s skip)) ∧
    (∀ x ∈ flatLayout (srcs.map (srcBlock s skip)), x ∈ s.nodes ∧ x.name ∉ skip) ∧
    (∀ n ∈ s.nodes, n.name ∉ skip → n ∈ flatLayout (srcs.map (srcBlock s skip))) := by
  refine ⟨srcBlocks_ok h hs srcs [] [] h1 (by simp) hnd (by simp) (by simp), ?_, ?_⟩
  · intro x hx
    obtain ⟨r, hr, hxr⟩ := (mem_flat_map _ _ _).mp hx
    obtain ⟨a, b, _⟩ := srcBlock_nodes h hs (h1 r hr).1 (h1 r hr).2 x hxr
    exact ⟨a, b⟩
  · intro n hn hns
    exact srcBlocks_complete h hs srcs h2 (topo.idxOf n.name + 1) n hn (by omega) hns

/-- **the layout of a well-formed description**: loadable block by block, a Source block first, every
    component listed exactly once -/
theorem layout_of_wf (h : DescWF topo s) :
    LayoutOK [] (layoutOf topo s) ∧ (flatLayout (layoutOf topo s)).Perm s.nodes ∧
      ∃ b rest, layoutOf topo s = b :: rest ∧ b.isMux = false := by
  have hperm := ordered_perm h
  have hmem : ∀ n, n ∈ topo.filterMap s.find? ↔ n ∈ s.nodes := fun n => hperm.mem_iff
  generalize hsrcs : (topo.filterMap s.find?).filter (fun n => n.comp.kind == .source) = srcs
  have h1 : ∀ r ∈ srcs, r ∈ s.nodes ∧ r.comp.kind = .source := by
    intro r hr
    rw [← hsrcs, List.mem_filter] at hr
    exact ⟨(hmem r).mp hr.1, by simpa using hr.2⟩
  have h2 : ∀ n ∈ s.nodes, n.comp.kind = .source → n ∈ srcs := by
    intro n hn hk
    rw [← hsrcs, List.mem_filter]
    exact ⟨(hmem n).mpr hn, by simpa using hk⟩
  have hnd : (srcs.map Node.name).Nodup := by
    have : ((topo.filterMap s.find?).map Node.name).Nodup := ((hperm.map Node.name).nodup_iff).mpr h.nodup
    rw [← hsrcs]
    exact this.sublist (List.filter_sublist.map _)
  have hne : srcs ≠ [] := by
    obtain ⟨n, hn, hk⟩ := exists_source h
    exact List.ne_nil_of_mem (h2 n hn hk)
  have hnodesnd : s.nodes.Nodup := List.Nodup.of_map _ h.nodup
  -- the common conclusion once the layout is known to be loadable and to list exactly the nodes
  have finish : ∀ L : List (Block α), layoutOf topo s = L → LayoutOK [] L → (∀ x, x ∈ flatLayout L ↔ x ∈ s.nodes) →
      (∃ b rest, L = b :: rest ∧ b.isMux = false) →
      LayoutOK [] (layoutOf topo s) ∧ (flatLayout (layoutOf topo s)).Perm s.nodes ∧
        ∃ b rest, layoutOf topo s = b :: rest ∧ b.isMux = false := by
    intro L hL hok hiff hhead
    rw [hL]
    refine ⟨hok, ?_, hhead⟩
    have := layoutOK_nodup [] L hok (by simp)
    simp only [List.nil_append] at this
    exact (List.perm_ext_iff_of_nodup (List.Nodup.of_map _ this) hnodesnd).mpr hiff
  cases hmux : (topo.filterMap s.find?).find? (fun n => n.comp.kind == .pmux) with
  | none =>
    have hs : SkipOK s [] := by
      refine ⟨by simp, ?_, by simp⟩
      intro n hn _ hk
      have := List.find?_eq_none.mp hmux n ((hmem n).mpr hn)
      simp [hk] at this
    obtain ⟨a1, a2, a3⟩ := srcLayout h hs srcs h1 h2 hnd
    have hL : layoutOf topo s = srcs.map (srcBlock s []) := by
      unfold layoutOf
      simp only [hmux, hsrcs, List.append_nil]
      rfl
    apply finish _ hL a1
    · intro x
      exact ⟨fun hx => (a2 x hx).1, fun hx => a3 x hx (by simp)⟩
    · cases hsr : srcs with
      | nil => exact absurd hsr hne
      | cons r rest => exact ⟨_, _, rfl, rfl⟩
  | some m =>
    have hm : m ∈ s.nodes := (hmem m).mp (List.mem_of_find?_eq_some hmux)
    have hk : m.comp.kind = .pmux := by simpa using List.find?_some hmux
    have hs := skipOK_mux h hm hk
    obtain ⟨a1, a2, a3⟩ := srcLayout h hs srcs h1 h2 hnd
    have hL : layoutOf topo s = srcs.map (srcBlock s (m.name :: descendants s m.name)) ++ [muxBlock s m] := by
      unfold layoutOf
      simp only [hmux, hsrcs]
      rfl
    have hmb : MuxBlockOK (flatLayout (srcs.map (srcBlock s (m.name :: descendants s m.name)))) (muxBlock s m) :=
      muxBlock_ok h hm hk _ a2 a3
    apply finish _ hL
    · apply layoutOK_append _ _ _ a1
      simp only [List.nil_append]
      refine ⟨?_, trivial⟩
      have : (muxBlock s m).isMux = true := rfl
      simp only [this, if_true]
      exact hmb
    · intro x
      have hd : ∀ y, y ∈ descendants s m.name ↔ y ∈ listed (bfs s m.name) := by
        intro y; unfold descendants listed; exact List.mem_eraseDups
      simp only [flatLayout, List.flatMap_append, List.flatMap_cons, List.flatMap_nil, List.append_nil,
        List.mem_append]
      constructor
      · rintro (hx | hx)
        · exact (a2 x hx).1
        · rcases (mem_muxBlock_nodes s m x).mp hx with rfl | ⟨e, he, hxe⟩
          · exact hm
          · rw [(reach_of_bfs s m.name e he).2] at hxe
            exact ((mem_childrenOf s e.1 x).mp hxe).1
      · intro hx
        by_cases hxs : x.name ∈ m.name :: descendants s m.name
        · right
          rw [mem_muxBlock_nodes]
          rcases List.mem_cons.mp hxs with e | e
          · exact Or.inl (h.ext hx hm e)
          · obtain ⟨e', he', n', hn', hp', e2⟩ := (listed_iff s m.name x.name).mp ((hd _).mp e)
            have := h.ext hn' hx e2
            subst this
            refine Or.inr ⟨e', he', ?_⟩
            rw [(reach_of_bfs s m.name e' he').2]
            exact (mem_childrenOf s e'.1 n').mpr ⟨hn', hp'⟩
        · exact Or.inl (a3 x hx hxs)
    · cases hsr : srcs with
      | nil => exact absurd hsr hne
      | cons r rest => exact ⟨_, _, rfl, rfl⟩

/-! ### the theorems -/

/-- **a well-formed description is saveable**: the `LayoutOK` / `Perm` hypotheses of `roundtrip_partial` hold -/
theorem saveable_of_wf (ver : String) (topo : List String) (s : SysDesc α) (h : DescWF topo s)
    (hv : (parseVer ver).isSome = true) (hg : s.groups ≠ .dict []) (hr : s.rails ≠ .dict []) :
    Saveable ver topo s := by
  obtain ⟨a1, a2, b, rest, a3, a4⟩ := layout_of_wf h
  refine { version := hv, layout := a1, sourceFirst := ?_, nonempty := ?_, complete := a2, groups := hg, rails := hr }
  · intro b' hb'
    rw [a3] at hb'
    simp only [List.head?_cons, Option.some.injEq] at hb'
    rw [← hb']
    exact a4
  · rw [a3]; simp

theorem layout_root_kinds (seen : List (Node α)) (L : List (Block α)) (h : LayoutOK seen L) :
    ∀ b ∈ L, b.root.comp.kind = .source ∨ b.root.comp.kind = .pmux := by
  induction L generalizing seen with
  | nil => simp
  | cons b rest ih =>
    obtain ⟨h1, h2⟩ := h
    intro c hc
    rcases List.mem_cons.mp hc with rfl | hc
    · cases hm : c.isMux <;> rw [hm] at h1
      · exact Or.inl h1.isSource
      · exact Or.inr h1.isPMux
    · exact ih _ h2 c hc

/-- **round trip of a well-formed description**; partial only through the reserved name (finding F15):
    no top-level block — a Source or the PMux — is called "system" -/
theorem roundtrip_wf_partial (ver : String) (topo : List String) (s : SysDesc α) (h : DescWF topo s)
    (hv : (parseVer ver).isSome = true) (hg : s.groups ≠ .dict []) (hr : s.rails ≠ .dict [])
    (hres : ∀ n ∈ s.nodes, n.comp.kind = .source ∨ n.comp.kind = .pmux → n.name ≠ "system") :
    ∃ s', fromFile ver (save ver topo s) = .ok s' ∧ SysEquiv s' s := by
  have hsv := saveable_of_wf ver topo s h hv hg hr
  refine roundtrip_partial ver topo s hsv ?_
  intro b hb
  refine hres b.root ?_ (layout_root_kinds [] _ hsv.layout b hb)
  apply hsv.complete.subset
  simp only [flatLayout, List.mem_flatMap]
  exact ⟨b, hb, by simp [Block.nodes]⟩

/-- a description without PMux: the same, stated on its own (the skip set is empty, one tree per Source) -/
theorem saveable_of_wf_nomux (ver : String) (topo : List String) (s : SysDesc α) (h : DescWF topo s)
    (hno : ∀ n ∈ s.nodes, n.comp.kind ≠ .pmux)
    (hv : (parseVer ver).isSome = true) (hg : s.groups ≠ .dict []) (hr : s.rails ≠ .dict []) :
    Saveable ver topo s ∧ ∀ b ∈ layoutOf topo s, b.isMux = false := by
  refine ⟨saveable_of_wf ver topo s h hv hg hr, ?_⟩
  intro b hb
  have hmem : ∀ n, n ∈ topo.filterMap s.find? ↔ n ∈ s.nodes := fun n => (ordered_perm h).mem_iff
  have hmux : (topo.filterMap s.find?).find? (fun n => n.comp.kind == .pmux) = none := by
    rw [List.find?_eq_none]
    intro n hn
    simpa using hno n ((hmem n).mp hn)
  unfold layoutOf at hb
  simp only [hmux, List.append_nil, List.mem_map] at hb
  obtain ⟨n, _, rfl⟩ := hb
  rfl

end wf


/-! ### non-vacuity: two Sources, a PMux fed from both trees, six further components -/

def eLoad (n : String) : Comp ℚ :=
  { name := n, kind := Kind.iload, ii := 1, par := Param.const 0,
    params := [("name", PV.str n), ("ii", PV.float 1), ("iis", PV.float 0), ("rt", PV.float 0),
               ("loss", PV.bool false)] }
def eLoss (n : String) : Comp ℚ :=
  { name := n, kind := Kind.rloss, rs := 1, par := Param.const 0,
    params := [("name", PV.str n), ("rs", PV.float 1), ("rt", PV.float 0)] }
def eMux (n : String) : Comp ℚ :=
  { name := n, kind := Kind.pmux, par := Param.const 0,
    params := [("name", PV.str n), ("rs", PV.float 0), ("ig", PV.float 0), ("iis", PV.float 0), ("rt", PV.float 0)] }

theorem eLoad_built (n : String) : Built (eLoad n) :=
  ⟨[("ii", .float 1)], by
    simp [mkComp, req, arg, List.lookup, absArg, numArg, PV.num?, checkLimits, eLoad, truthy, bind, Except.bind,
      pure, Except.pure]⟩
theorem eLoss_built (n : String) : Built (eLoss n) :=
  ⟨[("rs", .float 1)], by
    simp [mkComp, req, arg, List.lookup, absArg, numArg, PV.num?, checkLimits, eLoss, bind, Except.bind,
      pure, Except.pure]⟩
theorem eMux_built (n : String) : Built (eMux n) :=
  ⟨[], by
    simp [mkComp, req, arg, List.lookup, absArg, numArg, PV.num?, checkLimits, eMux, mkRsMux, mkIg, stripDiag, bind,
      Except.bind, pure, Except.pure]⟩

/-- `S1 → A → {M, LA}`, `S1 → L1`, `S2 → B → M`, `M → C → LC`, `M → LM` (insertion order as listed) -/
def eSys : SysDesc ℚ :=
  SysDesc.ofParts "e"
    [(⟨wSrc "S1", []⟩, "", "", .dict []), (⟨eLoss "A", ["S1"]⟩, "", "", .dict []),
     (⟨wSrc "S2", []⟩, "", "", .dict []), (⟨eLoss "B", ["S2"]⟩, "", "", .dict []),
     (⟨eMux "M", ["A", "B"]⟩, "", "", .dict []), (⟨eLoss "C", ["M"]⟩, "", "", .dict []),
     (⟨eLoad "LC", ["C"]⟩, "", "", .dict []), (⟨eLoad "LM", ["M"]⟩, "", "", .dict []),
     (⟨eLoad "LA", ["A"]⟩, "", "", .dict []), (⟨eLoad "L1", ["S1"]⟩, "", "", .dict [])] (.dict [])

def eTopo : List String := ["S2", "B", "S1", "L1", "A", "LA", "M", "LM", "C", "LC"]

theorem eSys_wf : DescWF eTopo eSys where
  built := by
    intro n hn
    simp only [eSys, SysDesc.ofParts, List.map_cons, List.map_nil, List.mem_cons, List.not_mem_nil, or_false] at hn
    rcases hn with rfl | rfl | rfl | rfl | rfl | rfl | rfl | rfl | rfl | rfl
    · exact wSrc_built _
    · exact eLoss_built _
    · exact wSrc_built _
    · exact eLoss_built _
    · exact eMux_built _
    · exact eLoss_built _
    · exact eLoad_built _
    · exact eLoad_built _
    · exact eLoad_built _
    · exact eLoad_built _
  named := by decide
  nodup := by decide
  nonempty := by simp [eSys, SysDesc.ofParts]
  topoPerm := by decide
  topoOrder := by decide
  parentsExist := by decide
  parentsNodup := by decide
  sourceIff := by decide
  single := by decide
  oneMux := by decide
  loadsLeaf := by decide

/-- non-vacuity of `saveable_of_wf` -/
example (ver : String) (hv : (parseVer ver).isSome = true) : Saveable ver eTopo eSys :=
  saveable_of_wf ver eTopo eSys eSys_wf hv (by simp [eSys, SysDesc.ofParts]) (by simp [eSys, SysDesc.ofParts])

/-- non-vacuity of `roundtrip_wf_partial` -/
example (ver : String) (hv : (parseVer ver).isSome = true) :
    ∃ s', fromFile ver (save ver eTopo eSys) = .ok s' ∧ SysEquiv s' eSys :=
  roundtrip_wf_partial ver eTopo eSys eSys_wf hv (by simp [eSys, SysDesc.ofParts]) (by simp [eSys, SysDesc.ofParts])
    (by decide)

/-- the layout of the example, evaluated: a block per Source in `topo` order with the mux subtree emptied
    (the entries `M: []`, `C: []` are what `save` writes), then the PMux block -/
example : (layoutOf eTopo eSys).map (fun b => (b.root.name, b.isMux, b.childs.map fun e => (e.1, e.2.map Node.name))) =
    [("S2", false, [("S2", ["B"]), ("B", []), ("M", []), ("C", [])]),
     ("S1", false, [("S1", ["L1", "A"]), ("A", ["LA"]), ("M", []), ("C", [])]),
     ("M", true, [("M", ["LM", "C"]), ("C", ["LC"])])] := by decide +kernel

/-- the loader on the saved document of the example, evaluated (behind the version gate): every component back
    under its ordered parents, in the order of the layout -/
example : (loadBody (save "1.0.0" eTopo eSys)).toOption.map (·.nodes.map fun n => (n.name, n.comp.kind, n.parents)) =
    some [("S2", .source, []), ("B", .rloss, ["S2"]), ("S1", .source, []), ("L1", .iload, ["S1"]),
      ("A", .rloss, ["S1"]), ("LA", .iload, ["A"]), ("M", .pmux, ["A", "B"]), ("LM", .iload, ["M"]),
      ("C", .rloss, ["M"]), ("LC", .iload, ["C"])] := by decide +kernel

/-- non-vacuity of `saveable_of_wf_nomux`: the two-component system of Props/C12 -/
theorem wSys_wf (n : String) (h1 : n ≠ "L") (h0 : n ≠ "") : DescWF [n, "L"] (wSys n) where
  built := by
    intro x hx
    simp only [wSys, SysDesc.ofParts, List.map_cons, List.map_nil, List.mem_cons, List.not_mem_nil, or_false] at hx
    rcases hx with rfl | rfl
    · exact wSrc_built _
    · exact wLoad_built
  named := by simp [wSys, SysDesc.ofParts, Node.name, wSrc, wLoad, h0]
  nodup := by simp [wSys, SysDesc.ofParts, SysDesc.names, Node.name, wSrc, wLoad, h1]
  nonempty := by simp [wSys, SysDesc.ofParts]
  topoPerm := by simp [wSys, SysDesc.ofParts, SysDesc.names, Node.name, wSrc, wLoad]
  topoOrder := by
    have : ¬ "L" = n := fun e => h1 e.symm
    have e1 : (n == "L") = false := by simpa using h1
    simp [wSys, SysDesc.ofParts, Node.name, wSrc, wLoad, List.idxOf_cons, this, e1]
  parentsExist := by simp [wSys, SysDesc.ofParts, SysDesc.names, Node.name, wSrc, wLoad]
  parentsNodup := by simp [wSys, SysDesc.ofParts]
  sourceIff := by simp [wSys, SysDesc.ofParts, wSrc, wLoad]
  single := by simp [wSys, SysDesc.ofParts]
  oneMux := by simp [wSys, SysDesc.ofParts, wSrc, wLoad]
  loadsLeaf := by
    have : ¬ "L" = n := fun e => h1 e.symm
    simp [wSys, SysDesc.ofParts, Node.name, wSrc, wLoad, Kind.ctype, this]

example (ver : String) (hv : (parseVer ver).isSome = true) :
    Saveable ver ["S", "L"] (wSys "S") ∧ ∀ b ∈ layoutOf ["S", "L"] (wSys "S"), b.isMux = false :=
  saveable_of_wf_nomux ver _ _ (wSys_wf "S" (by decide) (by decide))
    (by simp [wSys, SysDesc.ofParts, wSrc, wLoad]) hv (by simp [wSys, SysDesc.ofParts]) (by simp [wSys, SysDesc.ofParts])

/-! ### the reserved name is the only exclusion left (finding F15) -/

/-- the full-strength statement for well-formed descriptions: no reserved-name hypothesis -/
def C12_wf_full (ver : String) : Prop :=
  ∀ (topo : List String) (s : SysDesc ℚ), DescWF topo s → s.groups ≠ .dict [] → s.rails ≠ .dict [] →
    ∃ s', fromFile ver (save ver topo s) = .ok s' ∧ SysEquiv s' s

/-- it is false for the code as it stands: a well-formed system whose Source is called "system" -/
theorem wf_full_fails_reserved_name (ver : String) (hv : (parseVer ver).isSome = true) : ¬ C12_wf_full ver := by
  intro hfull
  obtain ⟨s', hs', _⟩ := hfull ["system", "L"] (wSys "system") (wSys_wf "system" (by decide) (by decide))
    (by simp [wSys, SysDesc.ofParts]) (by simp [wSys, SysDesc.ofParts])
  have hl := wLayout "system" (by decide)
  have := reserved_name_fails ver ["system", "L"] (wSys "system")
    ⟨⟨wSrc "system", []⟩, false, [("system", [⟨wLoad, ["system"]⟩])]⟩ (by rw [hl]; simp) rfl (by rw [hl]; simp)
  rw [this] at hs'
  cases hs'

end C12
end SysLoss
