/-
  Props/C12 — save() / System.from_file() round-trips the whole system; newer-version files are refused.

  Subject: `save`, `fromFile` (Model/Persist.lean) and the constructors `mkComp` (Model/Ctor.lean), at any
  linearly ordered field (`Rat` in the driver is an instance).

   1. `reload_comp`, `reload_source`, `reload_pmux`
        every component a constructor can build, dumped (`type` / `params` / applicable `limits`) and run
        through the loader's branch for its type, comes back equivalent (`CompEquiv`): same kind, name, every
        normalised parameter, interpolation data (tables), rectifier mode, stored `_params`, applicable limits.
        All 11 kinds — the diode Rectifier included since finding F14 was repaired (`vdrop` is passed on).
   2. `roundtrip_partial`
        a description whose layout (`layoutOf`: blocks per Source in topological order, then the PMux, children
        in BFS order) lists every component once with its parent loaded first (`LayoutOK`, `Perm`) and whose
        top-level names are not `"system"` reloads to an equivalent description: same components under the same
        ordered parents, same name, phases, phase configurations, groups, rails.
        `LayoutOK` is the part that depends on rustworkx's BFS (a parameter of the model): it is an explicit
        hypothesis here, evaluated by the harness's correspondence run on every generated system.
      `C12_full` / `full_fails_reserved_name`
        the same statement without the reserved-name hypothesis is FALSE for the code as it stands (finding F15):
        a Source named "system" overwrites the system block and `from_file` raises KeyError.
      `nonapplicable_limits_dropped`
        limits on keys that do not apply to the kind are not written (finding F29-C12-LIMITS); `CompEquiv`
        therefore speaks of applicable limits only, as the property does.
   3. `version_gate_newer`, `version_gate_not_newer`, `save_version_accepted`, `verLt_strict_total`.
-/
import SysLoss.Proofs.Persist

set_option linter.unusedSectionVars false
set_option linter.unusedVariables false
set_option linter.unusedSimpArgs false

namespace SysLoss
namespace C12
variable {α : Type} [Field α] [LinearOrder α] [IsStrictOrderedRing α]

/-! ### 1. one component -/

/-- every non-top-level kind: dump, then the loader's branch for the dumped `type` -/
theorem reload_comp (c : Comp α) (hb : Built c) (h1 : c.kind ≠ .source) (h2 : c.kind ≠ .pmux) :
    ∃ c', loadChild (.dict (dumpComp c)) = .ok (some c') ∧ CompEquiv c' c :=
  ⟨reloaded c, reload_child c hb h1 h2, reloaded_equiv c⟩

/-- a Source block (top level), alone in a document position: `System(name, Source(…))` / `add_source` -/
theorem reload_source (c : Comp α) (hb : Built c) (hk : c.kind = .source) (hn : c.name ≠ "") (first : Bool) :
    ∃ c', loadBlock [] first c.name (blockDoc { root := { comp := c, parents := [] }, isMux := false, childs := [] }) =
        .ok [{ comp := c', parents := [] }] ∧ CompEquiv c' c := by
  refine ⟨reloaded c, ?_, reloaded_equiv c⟩
  have := loadBlock_source (α := α) [] { root := { comp := c, parents := [] }, isMux := false, childs := [] } first
    (fun _ => rfl)
    { built := hb, isSource := hk, notMux := rfl, noParents := rfl, fresh := by simp, named := hn,
      keys := by simp, entries := trivial }
  simpa [rl, Node.name] using this

/-- the PMux block on parents that are loaded and accept it -/
theorem reload_pmux (seen : List (Node α)) (b : Block α) (h : MuxBlockOK seen b) :
    ∃ st, loadBlock (seen.map rl) false b.root.name (blockDoc b) = .ok st ∧
      List.Forall₂ (fun n' n => CompEquiv n'.comp n.comp ∧ n'.parents = n.parents) st
        (seen ++ b.root :: b.childs.flatMap (·.2)) := by
  refine ⟨_, loadBlock_mux seen b h, ?_⟩
  rw [List.forall₂_map_left_iff]
  exact List.forall₂_same.mpr fun n _ => ⟨reloaded_equiv n.comp, rfl⟩

/-! ### 2. the whole system -/

/-- node for node: equivalent component under the same ordered parents (mux inputs keep their priority) -/
def NodeEquiv (n' n : Node α) : Prop := CompEquiv n'.comp n.comp ∧ n'.parents = n.parents

/-- the reloaded description is the original one up to the order in which the components were inserted -/
structure SysEquiv (s' s : SysDesc α) : Prop where
  name : s'.name = s.name
  phases : s'.phases = s.phases
  phaseConf : s'.phaseConf = s.phaseConf
  groups : s'.groups = s.groups
  rails : s'.rails = s.rails
  nodes : ∃ l, l.Perm s.nodes ∧ List.Forall₂ NodeEquiv s'.nodes l

/-- the hypotheses of the round trip other than the reserved name -/
structure Saveable (ver : String) (topo : List String) (s : SysDesc α) : Prop where
  version : (parseVer ver).isSome = true
  layout : LayoutOK [] (layoutOf topo s)
  sourceFirst : ∀ b, (layoutOf topo s).head? = some b → b.isMux = false
  nonempty : layoutOf topo s ≠ []
  complete : (flatLayout (layoutOf topo s)).Perm s.nodes
  groups : s.groups ≠ .dict []
  rails : s.rails ≠ .dict []

theorem verLt_irrefl (t : Nat × Nat × Nat) : verLt t t = false := by
  simp [verLt]

theorem versionGate_self (ver : String) (h : (parseVer ver).isSome = true) :
    versionGate ver (.str ver : PV α) = .ok () := by
  obtain ⟨t, ht⟩ := Option.isSome_iff_exists.mp h
  simp [versionGate, ht, verLt_irrefl]

/-- **round trip**, with the reserved-name exclusion of finding F15 as an explicit hypothesis -/
theorem roundtrip_partial (ver : String) (topo : List String) (s : SysDesc α) (h : Saveable ver topo s)
    (hres : ∀ b ∈ layoutOf topo s, b.root.name ≠ "system") :
    ∃ s', fromFile ver (save ver topo s) = .ok s' ∧ SysEquiv s' s := by
  obtain ⟨hn, _⟩ := layout_roots_fresh [] _ h.layout
  have hdoc := docOf_eq ver s (layoutOf topo s) hn hres
  have hblocks := loadBlocks_ok [] (layoutOf topo s) true (fun _ => rfl) (fun _ => h.sourceFirst) h.layout
  simp only [List.map_nil, List.nil_append] at hblocks
  have hlen : ¬ (layoutDoc (layoutOf topo s)).length + 1 ≤ 1 := by
    have : (layoutOf topo s).length ≠ 0 := fun e => h.nonempty (List.length_eq_zero_iff.mp e)
    simp only [layoutDoc, List.length_map]
    omega
  refine ⟨{ name := s.name, nodes := (flatLayout (layoutOf topo s)).map rl, phases := s.phases,
            phaseConf := s.phaseConf, groups := s.groups, rails := s.rails }, ?_, ?_⟩
  · have e1 : getMand (save ver topo s) "system" = .ok (sysBlock ver s) := by
      rw [save, hdoc]; exact getMand_dict_some _ _ _ (by simp [List.lookup])
    have e2 : getMand (sysBlock ver s) "name" = .ok (.str s.name) :=
      getMand_dict_some _ _ _ (by simp [List.lookup])
    have e3 : getMand (sysBlock ver s) "version" = .ok (.str ver) :=
      getMand_dict_some _ _ _ (by simp [List.lookup])
    have e4 : getMand (sysBlock ver s) "phase_conf" = .ok s.phaseConf :=
      getMand_dict_some _ _ _ (by simp [List.lookup])
    have e5 : getOpt (sysBlock ver s) "phases" (.dict []) = .ok s.phases := by
      unfold sysBlock; rw [getOpt_dict]; simp [List.lookup]
    have e6 : getOpt (sysBlock ver s) "groups" (.dict []) = .ok s.groups := by
      unfold sysBlock; rw [getOpt_dict]; simp [List.lookup]
    have e7 : getOpt (sysBlock ver s) "rails" (.dict []) = .ok s.rails := by
      unfold sysBlock; rw [getOpt_dict]; simp [List.lookup]
    simp only [fromFile, e1, e2, e3, versionGate_self ver h.version, ex_bind_ok, bind, Except.bind]
    simp only [loadBody, e1, e2, ex_bind_ok, bind, Except.bind, pure, Except.pure]
    rw [save, hdoc]
    simp only [List.drop_one, List.tail_cons, hblocks, List.length_cons, if_neg hlen, e4, e5, e6, e7,
      backfill_nonempty _ _ h.groups, backfill_nonempty _ _ h.rails, strOf]
  · refine ⟨rfl, rfl, rfl, rfl, rfl, flatLayout (layoutOf topo s), h.complete, ?_⟩
    rw [List.forall₂_map_left_iff]
    exact List.forall₂_same.mpr fun n _ => ⟨reloaded_equiv n.comp, rfl⟩

/-! #### the reserved name (finding F15) -/

theorem lookup_dictSet_self {β : Type} (l : List (String × β)) (k : String) (v : β) :
    (dictSet l k v).lookup k = some v := by
  induction l with
  | nil => simp [dictSet, List.lookup]
  | cons p rest ih =>
    obtain ⟨a, b⟩ := p
    by_cases hak : a = k
    · subst hak; simp [dictSet, List.lookup]
    · have h1 : (a == k) = false := by simpa using hak
      have h2 : (k == a) = false := by simpa using (Ne.symm hak)
      simp [dictSet, h1, List.lookup, h2, ih]

theorem lookup_dictSet_ne {β : Type} (l : List (String × β)) (k k' : String) (v : β) (h : k ≠ k') :
    (dictSet l k' v).lookup k = l.lookup k := by
  induction l with
  | nil =>
    have : (k == k') = false := by simpa using h
    simp [dictSet, List.lookup, this]
  | cons p rest ih =>
    obtain ⟨a, b⟩ := p
    by_cases hak : a = k'
    · subst hak
      have : (k == a) = false := by simpa using h
      simp [dictSet, List.lookup, this]
    · have h1 : (a == k') = false := by simpa using hak
      simp only [dictSet, h1, Bool.false_eq_true, if_false, List.lookup]
      cases (k == a) <;> simp [ih]

theorem lookup_foldl_dictSet {β γ : Type} (L : List γ) (key : γ → String) (val : γ → β)
    (acc : List (String × β)) (k : String) (hn : (L.map key).Nodup) (x : γ) (hx : x ∈ L) (hk : key x = k) :
    (L.foldl (fun acc y => dictSet acc (key y) (val y)) acc).lookup k = some (val x) := by
  induction L generalizing acc with
  | nil => simp at hx
  | cons y rest ih =>
    simp only [List.map_cons, List.nodup_cons] at hn
    simp only [List.foldl_cons]
    rcases List.mem_cons.mp hx with e | hr
    · subst e
      -- no later element has this key: the entry set now survives
      have hrest : ∀ (acc : List (String × β)), acc.lookup k = some (val x) →
          (rest.foldl (fun acc y => dictSet acc (key y) (val y)) acc).lookup k = some (val x) := by
        have hnone : ∀ z ∈ rest, key z ≠ k := by
          intro z hz e
          exact hn.1 (by rw [hk, ← e]; exact List.mem_map_of_mem (f := key) hz)
        clear ih hx hn
        induction rest with
        | nil => intro acc h; simpa using h
        | cons z rest' ih' =>
          intro acc h
          simp only [List.foldl_cons]
          apply ih' (fun w hw => hnone w (by simp [hw]))
          rw [lookup_dictSet_ne _ _ _ _ (Ne.symm (hnone z (by simp)))]
          exact h
      apply hrest
      rw [← hk]
      exact lookup_dictSet_self _ _ _
    · exact ih _ hn.2 hr

/-- a top-level block named `"system"` replaces the system block of the document: `from_file` then finds no
    `name` entry and raises `KeyError` -/
theorem reserved_name_fails (ver : String) (topo : List String) (s : SysDesc α) (b : Block α)
    (hb : b ∈ layoutOf topo s) (hname : b.root.name = "system")
    (hn : ((layoutOf topo s).map fun b => b.root.name).Nodup) :
    fromFile ver (save ver topo s) = .error (.key "Parameter dict is missing entry for 'name'") := by
  have hl : getMand (save ver topo s) "system" = .ok (blockDoc b) := by
    unfold save docOf
    apply getMand_dict_some
    exact lookup_foldl_dictSet (layoutOf topo s) (fun b => b.root.name) blockDoc _ "system" hn b hb hname
  have hno : getMand (blockDoc b) "name" = .error (.key "Parameter dict is missing entry for 'name'") := by
    cases hm : b.isMux <;>
      simp [getMand, pyLookup, blockDoc, dumpComp, List.lookup, hm, bind, Except.bind, throw, throwThe,
        MonadExceptOf.throw]
  simp only [fromFile, hl, hno, ex_bind_ok, bind, Except.bind]

/-- the full-strength statement: every saveable description round-trips — no reserved-name exclusion -/
def C12_full (ver : String) : Prop :=
  ∀ (topo : List String) (s : SysDesc ℚ), Saveable ver topo s →
    ∃ s', fromFile ver (save ver topo s) = .ok s' ∧ SysEquiv s' s

/-! #### concrete witnesses -/

def wSrc (n : String) : Comp ℚ :=
  { name := n, kind := Kind.source, vo := 5, par := Param.const 0,
    params := [("name", PV.str n), ("vo", PV.float 5), ("rs", PV.float 0), ("rt", PV.float 0)] }
def wLoad : Comp ℚ :=
  { name := "L", kind := Kind.iload, ii := 1, par := Param.const 0,
    params := [("name", PV.str "L"), ("ii", PV.float 1), ("iis", PV.float 0), ("rt", PV.float 0),
               ("loss", PV.bool false)] }
theorem wSrc_built (n : String) : Built (wSrc n) :=
  ⟨[("vo", .float 5)], by
    simp [mkComp, req, arg, List.lookup, absArg, numArg, PV.num?, checkLimits, wSrc, bind, Except.bind, pure,
      Except.pure]⟩
theorem wLoad_built : Built wLoad :=
  ⟨[("ii", .float 1)], by
    simp [mkComp, req, arg, List.lookup, absArg, numArg, PV.num?, checkLimits, wLoad, truthy, bind, Except.bind,
      pure, Except.pure]⟩
def wSys (n : String) : SysDesc ℚ :=
  SysDesc.ofParts "w" [(⟨wSrc n, []⟩, "", "", .dict []), (⟨wLoad, [n]⟩, "", "", .dict [])] (.dict [])
theorem wLayout (n : String) (h1 : n ≠ "L") :
    layoutOf [n, "L"] (wSys n) = [⟨⟨wSrc n, []⟩, false, [(n, [⟨wLoad, [n]⟩])]⟩] := by
  have e1 : (n == "L") = false := by simpa using h1
  have e2 : ("L" == n) = false := by simpa using (Ne.symm h1)
  have k1 : (Kind.iload == Kind.pmux) = false := by decide
  have k2 : (Kind.source == Kind.pmux) = false := by decide
  have k3 : (Kind.iload == Kind.source) = false := by decide
  have k4 : (Kind.source == Kind.source) = true := by decide
  have h2 : ¬ "L" = n := fun e => h1 e.symm
  simp [h1, h2, k1, k2, k3, k4, layoutOf, wSys, SysDesc.ofParts, SysDesc.find?, childsOf, bfs, bfsAux, childrenOf, descendants, Node.name,
    wSrc, wLoad, List.find?, List.filterMap, List.filter, e1, e2, List.eraseDups]

theorem wSaveable (ver n : String) (hv : (parseVer ver).isSome = true) (h1 : n ≠ "L") (h0 : n ≠ "") :
    Saveable ver [n, "L"] (wSys n) := by
  have hl := wLayout n h1
  refine { version := hv, layout := ?_, sourceFirst := ?_, nonempty := ?_, complete := ?_, groups := ?_, rails := ?_ }
  · rw [hl]
    refine ⟨?_, trivial⟩
    simp only [Bool.false_eq_true, if_false]
    refine { built := wSrc_built n, isSource := rfl, notMux := rfl, noParents := rfl, fresh := by simp,
             named := h0, keys := by simp, entries := ⟨⟨?_, trivial⟩, trivial⟩ }
    exact { built := wLoad_built, notSource := by simp [wLoad], notMux := by simp [wLoad], parents := rfl,
            parentLoaded := ⟨⟨wSrc n, []⟩, by simp, rfl⟩,
            parentAccepts := by intro pn hpn _; simp at hpn; subst hpn; simp [wSrc, Kind.ctype],
            fresh := by simp [Node.name, wLoad, wSrc]; exact fun e => h1 e.symm,
            named := by simp [Node.name, wLoad] }
  · intro b hb; rw [hl] at hb; simp at hb; subst hb; rfl
  · rw [hl]; simp
  · rw [hl]; simp [flatLayout, Block.nodes, wSys, SysDesc.ofParts]
  · simp [wSys, SysDesc.ofParts]
  · simp [wSys, SysDesc.ofParts]

/-- non-vacuity of `roundtrip_partial`: a Source with one load, saved and reloaded -/
example (ver : String) (hv : (parseVer ver).isSome = true) :
    ∃ s', fromFile ver (save ver ["S", "L"] (wSys "S")) = .ok s' ∧ SysEquiv s' (wSys "S") :=
  roundtrip_partial ver ["S", "L"] (wSys "S") (wSaveable ver "S" hv (by decide) (by decide))
    (by intro b hb; rw [wLayout "S" (by decide)] at hb; simp at hb; subst hb; simp [Node.name, wSrc])

/-- **finding F15**: the same system with its Source named "system" is saveable, and `from_file` of its own
    document raises KeyError — the full-strength statement fails for every library version -/
theorem full_fails_reserved_name (ver : String) (hv : (parseVer ver).isSome = true) : ¬ C12_full ver := by
  intro hfull
  obtain ⟨s', hs', _⟩ := hfull ["system", "L"] (wSys "system") (wSaveable ver "system" hv (by decide) (by decide))
  have hl := wLayout "system" (by decide)
  have := reserved_name_fails ver ["system", "L"] (wSys "system") ⟨⟨wSrc "system", []⟩, false, [("system", [⟨wLoad, ["system"]⟩])]⟩
    (by rw [hl]; simp) rfl (by rw [hl]; simp)
  rw [this] at hs'
  cases hs'

/-- what the saved document of the current library version does at the gate: it is accepted -/
theorem save_version_accepted (ver : String) (topo : List String) (s : SysDesc α)
    (h : (parseVer ver).isSome = true) (hn : ((layoutOf topo s).map fun b => b.root.name).Nodup)
    (hres : ∀ b ∈ layoutOf topo s, b.root.name ≠ "system") :
    fromFile ver (save ver topo s) = loadBody (save ver topo s) := by
  have hdoc := docOf_eq ver s (layoutOf topo s) hn hres
  have e1 : getMand (save ver topo s) "system" = .ok (sysBlock ver s) := by
    rw [save, hdoc]; exact getMand_dict_some _ _ _ (by simp [List.lookup])
  have e2 : getMand (sysBlock ver s) "name" = .ok (.str s.name) :=
    getMand_dict_some _ _ _ (by simp [List.lookup])
  have e3 : getMand (sysBlock ver s) "version" = .ok (.str ver) :=
    getMand_dict_some _ _ _ (by simp [List.lookup])
  simp only [fromFile, e1, e2, e3, versionGate_self ver h, ex_bind_ok, bind, Except.bind]

/-- limits on keys that do not apply to the kind are gone after the round trip (finding F29-C12-LIMITS):
    `save` writes `_get_applims` only -/
theorem nonapplicable_limits_dropped (c : Comp α) (key : String) (h : key ∉ c.kind.limitKeys) :
    (reloaded c).limits.lookup key = none := by
  show (c.kind.limitKeys.map fun k => (k, lookupLimit c.limits k)).lookup key = none
  generalize c.kind.limitKeys = ks at h
  induction ks with
  | nil => rfl
  | cons a rest ih =>
    simp only [List.mem_cons, not_or] at h
    have : (key == a) = false := by simpa using h.1
    simp [List.lookup, this, ih h.2]

/-- finding F29-C12-LIMITS on a concrete component: a `vi` limit given to a Source is not there after the reload -/
example : (reloaded ({ wSrc "S" with limits := [("vi", (1, 2))] } : Comp ℚ)).limits.lookup "vi" = none :=
  nonapplicable_limits_dropped _ "vi" (by simp [wSrc, Kind.limitKeys])

/-- the layout hypothesis in the executable form the driver evaluates on every generated system -/
theorem layout_conditions_sound (seen : List (Node α)) (L : List (Block α))
    (hb : ∀ n ∈ flatLayout L, Built n.comp) (h : layoutOKb seen L = true) : LayoutOK seen L :=
  layoutOKb_sound hb h

/-! ### 3. the version gate -/

/-- the header every saved document has -/
def HasHeader (doc : PV α) (name ver : PV α) : Prop :=
  ∃ sp, getMand doc "system" = .ok sp ∧ getMand sp "name" = .ok name ∧ getMand sp "version" = .ok ver

/-- a document written by a newer library (N.N.N order) is refused with `ValueError` -/
theorem version_gate_newer (lib v : String) (doc : PV α) (name : PV α) (l f : Nat × Nat × Nat)
    (hh : HasHeader doc name (.str v)) (hl : parseVer lib = some l) (hf : parseVer v = some f)
    (hlt : verLt l f = true) :
    ∃ m, fromFile lib doc = .error (.value m) := by
  obtain ⟨sp, e1, e2, e3⟩ := hh
  refine ⟨"created by sysLoss version " ++ v ++ " - please update sysLoss", ?_⟩
  simp only [fromFile, e1, e2, e3, ex_bind_ok, bind, Except.bind, versionGate, hl, hf, hlt, if_true]

/-- a document of the same or an older version passes the gate: the result is the loader's own -/
theorem version_gate_not_newer (lib v : String) (doc : PV α) (name : PV α) (l f : Nat × Nat × Nat)
    (hh : HasHeader doc name (.str v)) (hl : parseVer lib = some l) (hf : parseVer v = some f)
    (hlt : verLt l f = false) :
    fromFile lib doc = loadBody doc := by
  obtain ⟨sp, e1, e2, e3⟩ := hh
  simp only [fromFile, e1, e2, e3, ex_bind_ok, bind, Except.bind, versionGate, hl, hf, hlt, Bool.false_eq_true,
    if_false]

/-- `verLt` is the strict lexicographic order on numeric triples: irreflexive, transitive, total -/
theorem verLt_strict_total :
    (∀ a, verLt a a = false) ∧
    (∀ a b c, verLt a b = true → verLt b c = true → verLt a c = true) ∧
    (∀ a b, verLt a b = true ∨ a = b ∨ verLt b a = true) := by
  refine ⟨verLt_irrefl, ?_, ?_⟩
  · rintro ⟨a1, a2, a3⟩ ⟨b1, b2, b3⟩ ⟨c1, c2, c3⟩ h1 h2
    simp only [verLt, Bool.or_eq_true, decide_eq_true_eq, Bool.and_eq_true, beq_iff_eq] at h1 h2 ⊢
    omega
  · rintro ⟨a1, a2, a3⟩ ⟨b1, b2, b3⟩
    simp only [verLt, Bool.or_eq_true, decide_eq_true_eq, Bool.and_eq_true, beq_iff_eq, Prod.mk.injEq]
    omega

end C12
end SysLoss
