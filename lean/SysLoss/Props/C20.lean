/-
  Props/C20 — PCB trace and plane resistance follow the documented formulas.

  The subject of every theorem is the text that `tools/gen_utils.py` generated from
  `/repo/src/sysloss/utils.py` on this run (`SysLoss.Gen.traceRes`, `SysLoss.Gen.planeRes`, their keyword
  defaults and the module constants) — not a hand-written model.  Carrier: any linearly ordered field
  (so characteristic 0); lengths in millimetres, `rho` in Ω·m, result in Ω.

    trace_formula   R = ρ·L/A·(1 + tcr·(temp − 20)),  L = l/1000 m,  A = ((w1+w2)/2·t)/10⁶ m²
    plane_formula   R = (ρ/(t/1000))·(l/w)·(1 + tcr·(temp − 20))
    corollaries     proportional to length and ρ, inversely proportional to thickness and (mean) width,
                    affine in temperature, symmetric in w1/w2, trace(W,W,L,t) = plane(W,L,t)
    defaults        rho = 1.724e-8, temp = 20, tcr = 0.00386

  Only the two `*_formula` theorems and the defaults look inside the generated definitions (`utils_unfold`,
  then `field_simp; ring`), so they survive renamed temporaries, reordered assignments and algebraically
  equivalent rewrites of the Python; the corollaries are consequences of the formulas.
-/
import SysLoss.Gen.Utils
import Mathlib.Algebra.Order.Field.Basic
import Mathlib.Tactic.Ring
import Mathlib.Tactic.FieldSimp
import Mathlib.Tactic.NormNum
import Mathlib.Tactic.Positivity

set_option linter.unusedSectionVars false
set_option linter.unusedVariables false

namespace SysLoss
namespace C20
open SysLoss.Gen

variable {α : Type} [Field α] [LinearOrder α] [IsStrictOrderedRing α]

/-- unfold the generated definitions (and their `let`s) -/
macro "utils_unfold" : tactic =>
  `(tactic| simp only [traceRes, planeRes, RHO, TCR,
      traceRes.default_rho, traceRes.default_temp, traceRes.default_tcr,
      planeRes.default_rho, planeRes.default_temp, planeRes.default_tcr])

/-- close a field identity whose denominators are positive by the hypotheses in context -/
macro "utils_field" : tactic =>
  `(tactic| (utils_unfold; first | (field_simp; ring) | (field_simp; done) | ring))

/-! ### the documented formulas -/

/-- `trace_res` is ρ·L/A·(1 + tcr·(temp−20)) in SI units: `L = l/1000` metres and the trapezoid cross-section
    `A = (w1+w2)/2·t` mm² `= …/10⁶` m². -/
theorem trace_formula (w1 w2 l t rho temp tcr : α) (hw1 : 0 < w1) (hw2 : 0 < w2) (ht : 0 < t) :
    traceRes w1 w2 l t rho temp tcr
      = rho * (l / 1000) / (((w1 + w2) / 2 * t) / 1000000) * (1 + tcr * (temp - 20)) := by
  have hw : w1 + w2 ≠ 0 := (add_pos hw1 hw2).ne'
  have hw' : w1 * t + w2 * t ≠ 0 := (add_pos (mul_pos hw1 ht) (mul_pos hw2 ht)).ne'
  have hw'' : t * w1 + t * w2 ≠ 0 := (add_pos (mul_pos ht hw1) (mul_pos ht hw2)).ne'
  have ht' : t ≠ 0 := ht.ne'
  utils_field

/-- `plane_res` is (ρ/t)·(l/w)·(1 + tcr·(temp−20)) with the thickness `t/1000` in metres. -/
theorem plane_formula (w l t rho temp tcr : α) (hw : 0 < w) (ht : 0 < t) :
    planeRes w l t rho temp tcr = (rho / (t / 1000)) * (l / w) * (1 + tcr * (temp - 20)) := by
  have hw' : w ≠ 0 := hw.ne'
  have ht' : t ≠ 0 := ht.ne'
  utils_field

/-! ### corollaries — trace -/

/-- proportional to length -/
theorem trace_prop_length (w1 w2 l t rho temp tcr k : α) (hw1 : 0 < w1) (hw2 : 0 < w2) (ht : 0 < t) :
    traceRes w1 w2 (k * l) t rho temp tcr = k * traceRes w1 w2 l t rho temp tcr := by
  rw [trace_formula _ _ _ _ _ _ _ hw1 hw2 ht, trace_formula _ _ _ _ _ _ _ hw1 hw2 ht]; ring

/-- proportional to resistivity -/
theorem trace_prop_rho (w1 w2 l t rho temp tcr k : α) (hw1 : 0 < w1) (hw2 : 0 < w2) (ht : 0 < t) :
    traceRes w1 w2 l t (k * rho) temp tcr = k * traceRes w1 w2 l t rho temp tcr := by
  rw [trace_formula _ _ _ _ _ _ _ hw1 hw2 ht, trace_formula _ _ _ _ _ _ _ hw1 hw2 ht]; ring

/-- inversely proportional to thickness -/
theorem trace_inv_thickness (w1 w2 l t rho temp tcr k : α) (hw1 : 0 < w1) (hw2 : 0 < w2) (ht : 0 < t)
    (hk : 0 < k) :
    traceRes w1 w2 l (k * t) rho temp tcr = traceRes w1 w2 l t rho temp tcr / k := by
  rw [trace_formula _ _ _ _ _ _ _ hw1 hw2 (mul_pos hk ht), trace_formula _ _ _ _ _ _ _ hw1 hw2 ht]
  have := hk.ne'; have := ht.ne'; have := (add_pos hw1 hw2).ne'
  field_simp

/-- inversely proportional to `w1 + w2` (so to the mean width), and dependent on the widths only through it -/
theorem trace_inv_width (w1 w2 v1 v2 l t rho temp tcr k : α) (hw1 : 0 < w1) (hw2 : 0 < w2)
    (hv1 : 0 < v1) (hv2 : 0 < v2) (ht : 0 < t) (hk : 0 < k) (h : w1 + w2 = k * (v1 + v2)) :
    traceRes w1 w2 l t rho temp tcr = traceRes v1 v2 l t rho temp tcr / k := by
  rw [trace_formula _ _ _ _ _ _ _ hw1 hw2 ht, trace_formula _ _ _ _ _ _ _ hv1 hv2 ht, h]
  have := hk.ne'; have := ht.ne'; have := (add_pos hv1 hv2).ne'
  field_simp

/-- affine in temperature: `R(temp) = R(20)·(1 + tcr·(temp − 20))` -/
theorem trace_affine_temp (w1 w2 l t rho temp tcr : α) (hw1 : 0 < w1) (hw2 : 0 < w2) (ht : 0 < t) :
    traceRes w1 w2 l t rho temp tcr = traceRes w1 w2 l t rho 20 tcr * (1 + tcr * (temp - 20)) := by
  rw [trace_formula _ _ _ _ _ _ _ hw1 hw2 ht, trace_formula _ _ _ _ _ _ _ hw1 hw2 ht]; ring

/-- symmetric in the two widths -/
theorem trace_symm (w1 w2 l t rho temp tcr : α) (hw1 : 0 < w1) (hw2 : 0 < w2) (ht : 0 < t) :
    traceRes w1 w2 l t rho temp tcr = traceRes w2 w1 l t rho temp tcr := by
  rw [trace_formula _ _ _ _ _ _ _ hw1 hw2 ht, trace_formula _ _ _ _ _ _ _ hw2 hw1 ht, add_comm w1 w2]

/-! ### corollaries — plane -/

/-- proportional to length -/
theorem plane_prop_length (w l t rho temp tcr k : α) (hw : 0 < w) (ht : 0 < t) :
    planeRes w (k * l) t rho temp tcr = k * planeRes w l t rho temp tcr := by
  rw [plane_formula _ _ _ _ _ _ hw ht, plane_formula _ _ _ _ _ _ hw ht]; ring

/-- proportional to resistivity -/
theorem plane_prop_rho (w l t rho temp tcr k : α) (hw : 0 < w) (ht : 0 < t) :
    planeRes w l t (k * rho) temp tcr = k * planeRes w l t rho temp tcr := by
  rw [plane_formula _ _ _ _ _ _ hw ht, plane_formula _ _ _ _ _ _ hw ht]; ring

/-- inversely proportional to thickness -/
theorem plane_inv_thickness (w l t rho temp tcr k : α) (hw : 0 < w) (ht : 0 < t) (hk : 0 < k) :
    planeRes w l (k * t) rho temp tcr = planeRes w l t rho temp tcr / k := by
  rw [plane_formula _ _ _ _ _ _ hw (mul_pos hk ht), plane_formula _ _ _ _ _ _ hw ht]
  have := hk.ne'; have := ht.ne'; have := hw.ne'
  field_simp

/-- inversely proportional to width -/
theorem plane_inv_width (w l t rho temp tcr k : α) (hw : 0 < w) (ht : 0 < t) (hk : 0 < k) :
    planeRes (k * w) l t rho temp tcr = planeRes w l t rho temp tcr / k := by
  rw [plane_formula _ _ _ _ _ _ (mul_pos hk hw) ht, plane_formula _ _ _ _ _ _ hw ht]
  have := hk.ne'; have := ht.ne'; have := hw.ne'
  field_simp

/-- affine in temperature: `R(temp) = R(20)·(1 + tcr·(temp − 20))` -/
theorem plane_affine_temp (w l t rho temp tcr : α) (hw : 0 < w) (ht : 0 < t) :
    planeRes w l t rho temp tcr = planeRes w l t rho 20 tcr * (1 + tcr * (temp - 20)) := by
  rw [plane_formula _ _ _ _ _ _ hw ht, plane_formula _ _ _ _ _ _ hw ht]; ring

/-! ### trace = plane -/

/-- a rectangular trace is a plane: `trace_res(w1=W, w2=W, l_mm=L, t)` = `plane_res(w=W, l=L, t)` -/
theorem trace_eq_plane (W L t rho temp tcr : α) (hW : 0 < W) (ht : 0 < t) :
    traceRes W W L t rho temp tcr = planeRes W L t rho temp tcr := by
  rw [trace_formula _ _ _ _ _ _ _ hW hW ht, plane_formula _ _ _ _ _ _ hW ht]
  have := hW.ne'; have := ht.ne'
  field_simp
  ring

/-! ### keyword defaults -/

/-- the defaults of both functions are the documented constants: copper at 20 °C,
    `rho = 1.724e-8` Ω·m, `tcr = 0.00386` /°C -/
theorem defaults :
    (RHO : α) = 1724 / 100000000000 ∧ (TCR : α) = 386 / 100000 ∧
    (traceRes.default_rho : α) = 1724 / 100000000000 ∧ (traceRes.default_temp : α) = 20 ∧
    (traceRes.default_tcr : α) = 386 / 100000 ∧
    (planeRes.default_rho : α) = 1724 / 100000000000 ∧ (planeRes.default_temp : α) = 20 ∧
    (planeRes.default_tcr : α) = 386 / 100000 := by
  refine ⟨?_, ?_, ?_, ?_, ?_, ?_, ?_, ?_⟩ <;> utils_unfold <;> norm_num

/-! ### non-vacuity: every statement instantiated on concrete rationals (hypotheses satisfiable, both sides
    evaluate to the same non-zero number) -/

section examples
/-- docstring example `trace_res(w1_mm=1, w2_mm=1, l_mm=15, t_mm=35e-3)` -/
example : traceRes (1 : ℚ) 1 15 (35 / 1000) traceRes.default_rho traceRes.default_temp traceRes.default_tcr
    = 1293 / 175000 := by
  rw [trace_formula _ _ _ _ _ _ _ (by norm_num) (by norm_num) (by norm_num)]
  rw [(defaults (α := ℚ)).2.2.1, (defaults (α := ℚ)).2.2.2.1, (defaults (α := ℚ)).2.2.2.2.1]; norm_num

example : traceRes (7 / 10 : ℚ) (3 / 5) 9 (7 / 100) (1 / 50000000) 50 (1 / 250) = 36 / 9100 * (28 / 25) := by
  rw [trace_formula _ _ _ _ _ _ _ (by norm_num) (by norm_num) (by norm_num)]; norm_num

/-- docstring example `plane_res(w=25, l=80, t_mm=35e-3)` at 50 °C -/
example : planeRes (25 : ℚ) 80 (35 / 1000) planeRes.default_rho 50 planeRes.default_tcr
    = 343507 / 195312500 := by
  rw [plane_formula _ _ _ _ _ _ (by norm_num) (by norm_num)]
  rw [(defaults (α := ℚ)).2.2.2.2.2.1, (defaults (α := ℚ)).2.2.2.2.2.2.2]; norm_num

example : traceRes (1 : ℚ) 2 (3 * 5) 4 5 6 7 = 3 * traceRes (1 : ℚ) 2 5 4 5 6 7 ∧ traceRes (1 : ℚ) 2 5 4 5 6 7 ≠ 0 := by
  refine ⟨trace_prop_length _ _ _ _ _ _ _ _ (by norm_num) (by norm_num) (by norm_num), ?_⟩
  rw [trace_formula _ _ _ _ _ _ _ (by norm_num) (by norm_num) (by norm_num)]; norm_num

example : traceRes (1 : ℚ) 2 5 4 (3 * 5) 6 7 = 3 * traceRes (1 : ℚ) 2 5 4 5 6 7 :=
  trace_prop_rho _ _ _ _ _ _ _ _ (by norm_num) (by norm_num) (by norm_num)

example : traceRes (1 : ℚ) 2 5 (3 * 4) 5 6 7 = traceRes (1 : ℚ) 2 5 4 5 6 7 / 3 :=
  trace_inv_thickness _ _ _ _ _ _ _ _ (by norm_num) (by norm_num) (by norm_num) (by norm_num)

example : traceRes (5 : ℚ) 4 5 4 5 6 7 = traceRes (1 : ℚ) 2 5 4 5 6 7 / 3 :=
  trace_inv_width _ _ _ _ _ _ _ _ _ _ (by norm_num) (by norm_num) (by norm_num) (by norm_num) (by norm_num)
    (by norm_num) (by norm_num)

example : traceRes (1 : ℚ) 2 5 4 5 45 (1 / 100) = traceRes (1 : ℚ) 2 5 4 5 20 (1 / 100) * (5 / 4) := by
  rw [trace_affine_temp _ _ _ _ _ _ _ (by norm_num) (by norm_num) (by norm_num)]; norm_num

example : traceRes (1 : ℚ) 2 5 4 5 6 7 = traceRes (2 : ℚ) 1 5 4 5 6 7 :=
  trace_symm _ _ _ _ _ _ _ (by norm_num) (by norm_num) (by norm_num)

example : planeRes (2 : ℚ) (3 * 5) 4 5 6 7 = 3 * planeRes (2 : ℚ) 5 4 5 6 7 ∧ planeRes (2 : ℚ) 5 4 5 6 7 ≠ 0 := by
  refine ⟨plane_prop_length _ _ _ _ _ _ _ (by norm_num) (by norm_num), ?_⟩
  rw [plane_formula _ _ _ _ _ _ (by norm_num) (by norm_num)]; norm_num

example : planeRes (2 : ℚ) 5 4 (3 * 5) 6 7 = 3 * planeRes (2 : ℚ) 5 4 5 6 7 :=
  plane_prop_rho _ _ _ _ _ _ _ (by norm_num) (by norm_num)

example : planeRes (2 : ℚ) 5 (3 * 4) 5 6 7 = planeRes (2 : ℚ) 5 4 5 6 7 / 3 :=
  plane_inv_thickness _ _ _ _ _ _ _ (by norm_num) (by norm_num) (by norm_num)

example : planeRes (3 * 2 : ℚ) 5 4 5 6 7 = planeRes (2 : ℚ) 5 4 5 6 7 / 3 :=
  plane_inv_width _ _ _ _ _ _ _ (by norm_num) (by norm_num) (by norm_num)

example : planeRes (2 : ℚ) 5 4 5 45 (1 / 100) = planeRes (2 : ℚ) 5 4 5 20 (1 / 100) * (5 / 4) := by
  rw [plane_affine_temp _ _ _ _ _ _ (by norm_num) (by norm_num)]; norm_num

example : traceRes (2 : ℚ) 2 5 4 5 6 7 = planeRes (2 : ℚ) 5 4 5 6 7 ∧ planeRes (2 : ℚ) 5 4 5 6 7 = -303125 :=  by
  refine ⟨trace_eq_plane _ _ _ _ _ _ (by norm_num) (by norm_num), ?_⟩
  rw [plane_formula _ _ _ _ _ _ (by norm_num) (by norm_num)]; norm_num

example : (RHO : ℚ) = 1724 / 100000000000 ∧ (TCR : ℚ) = 386 / 100000 := ⟨defaults.1, defaults.2.1⟩
end examples

end C20
end SysLoss
