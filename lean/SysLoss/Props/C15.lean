/-
  Props/C15 — a rejected edit leaves the system untouched.

    reject_noop_partial           from a well-formed state, a call that raises leaves the model state LITERALLY unchanged
                                  (graph, index allocator, all six registries) — unless it is del_comp(<rail name>) (F20)
    error_class_partial           … and the exception is ValueError — unless it is add_comp(parent=[]) (F34: IndexError)
    reject_then_continue_partial  a history with a rejected call runs exactly like the history without it
    reject_noop_full_fails        F20 witness: del_comp("R") on S → B(rail R) removes B, then raises KeyError
    error_class_full_fails        F34 witness
    safe15_nonvacuous             the hypotheses hold along a non-trivial history with seven rejected calls
-/
import SysLoss.Proofs.Reject
import SysLoss.Props.C14

set_option linter.unusedSectionVars false
set_option linter.unusedVariables false

namespace SysLoss
namespace C15
section
variable {π ν : Type} [CompLike π]

/-- C15 (1) -/
theorem reject_noop_partial {s : Sys π ν} (hs : Sane s) (hw : s.abs.WF) (op : Op π ν) (hsafe : s.Safe15 op)
    {e : String} (h : (s.step op).2 = .raised e) : (s.step op).1 = s :=
  (reject_step hs (wfr_of_wf_abs hs hw) op hsafe e h).1

/-- C15 (3) -/
theorem error_class_partial {s : Sys π ν} (hs : Sane s) (hw : s.abs.WF) (op : Op π ν) (hsafe : s.Safe15 op)
    (herr : Sys.SafeErr op) {e : String} (h : (s.step op).2 = .raised e) : e = "ValueError" :=
  (reject_step hs (wfr_of_wf_abs hs hw) op hsafe e h).2 herr

theorem run_append (s : Sys π ν) (a b : List (Op π ν)) : s.run (a ++ b) = (s.run a).run b := by
  induction a generalizing s with
  | nil => rfl
  | cons op a ih => exact ih _

theorem outcomes_append (s : Sys π ν) (a b : List (Op π ν)) :
    s.outcomes (a ++ b) = s.outcomes a ++ (s.run a).outcomes b := by
  induction a generalizing s with
  | nil => rfl
  | cons op a ih => simp [Sys.outcomes, Sys.run, ih]

/-- C15 (2): if the call `op`, made after the (C14-safe) history `h₁`, raises, then the rest `h₂` of the history
    runs exactly as if `op` had never been made: same final state, same outcomes -/
theorem reject_then_continue_partial {s : Sys π ν} (hs : Sane s) (hw : s.abs.WF) (h₁ h₂ : List (Op π ν))
    (op : Op π ν) (hsafe₁ : s.SafeHist h₁) (hsafe : (s.run h₁).Safe15 op) {e : String}
    (h : ((s.run h₁).step op).2 = .raised e) :
    s.run (h₁ ++ op :: h₂) = s.run (h₁ ++ h₂) ∧
    (s.run (h₁ ++ [op])).outcomes h₂ = (s.run h₁).outcomes h₂ := by
  have hs1 := C14.sane_run hs h₁
  have hw1 := C14.wf_reachable_partial hs hw h₁ hsafe₁
  have hno := reject_noop_partial hs1 hw1 op hsafe h
  constructor
  · rw [run_append, run_append]
    show ((s.run h₁).step op).1.run h₂ = _
    rw [hno]
  · rw [run_append]
    show (((s.run h₁).step op).1).outcomes h₂ = _
    rw [hno]

end

/-! ### the full statements fail for the code as it stands -/

open C14 (S s0 src conv pload mux s0_sane)

/-- C15 (1) at full strength -/
def reject_noop_full : Prop :=
  ∀ (s : S) (op : Op PComp String) (e : String), Sane s → s.abs.WF → (s.step op).2 = .raised e → (s.step op).1 = s

/-- C15 (3) at full strength -/
def error_class_full : Prop :=
  ∀ (s : S) (op : Op PComp String) (e : String), Sane s → s.abs.WF → (s.step op).2 = .raised e → e = "ValueError"

/-- the F20 state: S → B, B's output is rail "R" -/
def sR : S := s0.run [.addComp (.one "S") (conv "B") "" "R"]

theorem sR_facts : sR.abs.WF ∧ (sR.step (.delComp "R" true)).2 = .raised "KeyError" ∧
    (sR.step (.delComp "R" true)).1.comps.length = 1 ∧ sR.comps.length = 2 ∧
    dkeys (sR.step (.delComp "R" true)).1.nodes = ["S", "B"] := by decide

/-- F20: `del_comp("R")` removes node B, then raises -/
theorem reject_noop_full_fails : ¬ reject_noop_full := by
  intro h
  have := h sR (.delComp "R" true) "KeyError" (C14.sane_run s0_sane _) sR_facts.1 sR_facts.2.1
  have h2 := congrArg (fun s => s.comps.length) this
  simp only [sR_facts.2.2.1, sR_facts.2.2.2.1] at h2
  exact absurd h2 (by decide)

/-- F20 and F34: `KeyError` resp. `IndexError` escape -/
theorem error_class_full_fails : ¬ error_class_full := by
  intro h
  have := h s0 (.addComp (.many []) (mux "M") "" "") "IndexError" s0_sane (by decide) (by decide)
  exact absurd this (by decide)

/-! ### non-vacuity -/

def demo : List (Op PComp String) :=
  [ .addComp (.one "S") (conv "B") "g" "rB",
    .addComp (.one "rB") (pload "L") "" "",
    .addComp (.one "L") (pload "X") "" "",                  -- rejected: a load takes no children
    .addSource (src "B") "" "",                             -- rejected: name in use
    .addSource (src "T") "" "rB",                           -- rejected: rail in use
    .changeComp "rB" (conv "C") "" "",                      -- rejected: change_comp wants a component name
    .changeComp "B" (src "B") "" "",                        -- rejected: not a source
    .delComp "S" true,                                      -- rejected: last source
    .setSysPhases [("only", "1.0")],                        -- rejected: fewer than two phases
    .setCompPhases "L" .bad,                                -- rejected: neither dict nor list
    .delComp "nosuch" false,                                -- rejected: unknown
    .addComp (.one "B") (pload "L2") "" "" ]

theorem safe15_nonvacuous :
    s0.SafeHist demo ∧ s0.Safe15Hist demo ∧
    (s0.outcomes demo).count (.raised "ValueError") = 9 ∧ (s0.run demo).comps.length = 4 := by
  decide

/-- the theorem applies: dropping the first rejected call changes nothing downstream -/
example : s0.run demo = s0.run (demo.take 2 ++ demo.drop 3) :=
  (reject_then_continue_partial (e := "ValueError") s0_sane (C14.wf_init_partial C14.s0_init (by decide))
    (demo.take 2) (demo.drop 3) (.addComp (.one "L") (pload "X") "" "") (by decide) (by decide) (by decide)).1

end C15
end SysLoss
