/-
  Props/C15 — a rejected edit leaves the system untouched.

    reject_noop           from a well-formed state, a call (any of the six editing / configuration methods, any arguments)
                          that raises leaves the model state LITERALLY unchanged: graph, index allocator, all six registries
    error_class           … and the exception is ValueError
    reject_then_continue  hence a history with a rejected call runs exactly like the history without it
    reject_nonvacuous     a history with fourteen rejected calls of every cause in the property's list, evaluated in the kernel
    regression_F20        del_comp(<rail name>) — which used to delete the rail's owner and then raise KeyError — is a
                          clean ValueError now

  Full strength (after the fixes 8700dfc, 594aa7c, 8226650 in /repo): no hypothesis on the call.  The hypotheses
  `Legal s` (the state is one the Python data structures can be in) and `WF (abs s)` hold for every reachable state
  (`C14.legal_run`, `C14.wf_always`), see `reject_noop_reachable`.
-/
import SysLoss.Props.C14

set_option linter.unusedSectionVars false
set_option linter.unusedVariables false

namespace SysLoss
namespace C15
section
variable {π ν : Type} [CompLike π]

/-- C15 (1) -/
theorem reject_noop {s : Sys π ν} (hl : Legal s) (hw : s.abs.WF) (op : Op π ν) {e : String}
    (h : (s.step op).2 = .raised e) : (s.step op).1 = s :=
  (reject_step hl (wfr_of_wf_abs hl.sane hw) op e h).1

/-- C15 (3) -/
theorem error_class {s : Sys π ν} (hl : Legal s) (hw : s.abs.WF) (op : Op π ν) {e : String}
    (h : (s.step op).2 = .raised e) : e = "ValueError" :=
  (reject_step hl (wfr_of_wf_abs hl.sane hw) op e h).2

/-- C15 (1) for every state a `System` can reach -/
theorem reject_noop_reachable {name : String} {src : π} {g r : String} {s : Sys π ν}
    (h0 : Sys.init name src g r = some s) (hist : List (Op π ν)) (op : Op π ν) {e : String}
    (h : ((s.run hist).step op).2 = .raised e) : ((s.run hist).step op).1 = s.run hist ∧ e = "ValueError" :=
  ⟨reject_noop (C14.legal_run (C14.legal_init h0) hist) (C14.wf_always h0 hist) op h,
   error_class (C14.legal_run (C14.legal_init h0) hist) (C14.wf_always h0 hist) op h⟩

theorem run_append (s : Sys π ν) (a b : List (Op π ν)) : s.run (a ++ b) = (s.run a).run b := by
  induction a generalizing s with
  | nil => rfl
  | cons op a ih => exact ih _

/-- C15 (2): if the call `op`, made after the history `h₁`, raises, then the rest `h₂` of the history runs exactly as
    if `op` had never been made: same final state, same outcomes -/
theorem reject_then_continue {s : Sys π ν} (hl : Legal s) (hw : s.abs.WF) (h₁ h₂ : List (Op π ν))
    (op : Op π ν) {e : String} (h : ((s.run h₁).step op).2 = .raised e) :
    s.run (h₁ ++ op :: h₂) = s.run (h₁ ++ h₂) ∧
    (s.run (h₁ ++ [op])).outcomes h₂ = (s.run h₁).outcomes h₂ := by
  have hl1 := C14.legal_run hl h₁
  have hw1 := C14.wf_reachable hl hw h₁
  have hno := reject_noop hl1 hw1 op h
  constructor
  · rw [run_append, run_append]
    show ((s.run h₁).step op).1.run h₂ = _
    rw [hno]
  · rw [run_append]
    show (((s.run h₁).step op).1).outcomes h₂ = _
    rw [hno]

end

/-! ### kernel-evaluated instances -/

open C14 (S s0 src conv pload mux s0_legal s0_init)

def rloss (n : String) : PComp := { name := n, kind := .rloss }

def demo : List (Op PComp String) :=
  [ .addComp (.one "S") (conv "B") "g" "rB",
    .addComp (.one "rB") (pload "L") "" "",
    .addComp (.one "B") (rloss "R") "" "",
    .addComp (.one "L") (pload "X") "" "",                  -- rejected: a load takes no children
    .addComp (.one "zz") (pload "X") "" "",                 -- rejected: unknown parent
    .addComp (.many []) (mux "M") "" "",                    -- rejected: empty parent list
    .addComp (.many ["B", "rB"]) (mux "M") "" "",           -- rejected: the same parent twice
    .addSource (src "B") "" "",                             -- rejected: name in use
    .addSource (src "T") "" "rB",                           -- rejected: rail in use
    .addSource (conv "T") "" "",                            -- rejected: not a source
    .changeComp "rB" (conv "C") "" "",                      -- rejected: change_comp wants a component name
    .changeComp "B" (src "B") "" "",                        -- rejected: not a source
    .changeComp "B" (pload "B") "" "",                      -- rejected: a load cannot carry B's children
    .delComp "S" true,                                      -- rejected: last source
    .delComp "rB" true,                                     -- rejected: a rail is not a component
    .setSysPhases [("only", "1.0")],                        -- rejected: fewer than two phases
    .setCompPhases "L" .bad,                                -- rejected: neither dict nor list
    .setCompPhases "R" (.conf (.names ["a"])),              -- rejected: loss components have no phases
    .delComp "nosuch" false,                                -- rejected: unknown
    .addComp (.one "B") (pload "L2") "" "" ]

theorem reject_nonvacuous :
    (s0.outcomes demo).count (.raised "ValueError") = 16 ∧ (s0.run demo).comps.length = 5 ∧
    s0.run demo = s0.run [demo[0], demo[1], demo[2], demo[19]] := by
  refine ⟨by decide, by decide, ?_⟩
  rfl

/-- the theorem applies: dropping the first rejected call changes nothing downstream -/
example : s0.run demo = s0.run (demo.take 3 ++ demo.drop 4) :=
  (reject_then_continue (e := "ValueError") s0_legal (C14.wf_init s0_init)
    (demo.take 3) (demo.drop 4) (.addComp (.one "L") (pload "X") "" "") (by decide)).1

/-- F20 (fixed by 8700dfc): `del_comp("R")` on S → B(rail R) is rejected and nothing is removed -/
theorem regression_F20 :
    let s := s0.run [.addComp (.one "S") (conv "B") "" "R"]
    (s.step (.delComp "R" true)).2 = .raised "ValueError" ∧ (s.step (.delComp "R" true)).1.comps.length = 2 := by
  decide

end C15
end SysLoss
