/-
  Props/C09Table — property C09 at the level of the `solve()` table.

  `Props/C09.lean` characterises `Comp.solvGetWarns c vi vo ii io ta ph` for ARBITRARY arguments.  Here the
  statement is about the assembled ROW `r := (s.compRow ph ta v i st n d).1` of a live node and about
  the row's OWN cells, and about the Subsystem / System total rows of `s.phaseTable`.

   * `tokens`, `tokens_joinWarn`  : the Warnings cell is the blank-joined token list; `tokens` (defined
                                    here on `String.toList`: split at every ' ', drop empty pieces) gives
                                    the tokens back whenever they are non-empty and blank-free, which
                                    the ten two-letter keys are (`limitKey_clean`, `tokens_solvGetWarns`).
   * `rowQuantity`                : the ten documented quantities computed FROM THE ROW'S CELLS
                                    (vi = Vin, vo = Vout, vd = |Vin| − |Vout|, ii = Iin, io = Iout, pi = Power,
                                    po = Power − Loss, pl = Loss, tr, tp; a blank cell gives `none`).
   * `row_warn_iff`               : token `k` is in the Warnings cell of the row  ⟺  `k` is applicable to the
                                    kind ∧ the component is not silenced in this phase ∧ the row's own
                                    quantity for `k` is `outOfRange` w.r.t. `lookupLimit c.limits k`.
                                    FULL strength: every `SSys`, every live node, every `(v, i, st)`, every
                                    inherited domain, every key string.  (Source rows have blank tr / tp
                                    cells; those keys are not applicable to a Source, so both sides are
                                    false — no side condition needed.)
   * `row_warn_iff_cells`         : the same with the cells named (`r.vin = some Vin`, …) and the
                                    mathematical reading `Outside` of `outOfRange`.
   * `row_cells_some`             : the cells of a live row are non-blank (tr / tp: unless Source).
   * `row_warn_default`           : a key absent from `c.limits` is judged against `limitsDefault`
                                    (magnitude above 1e6; tp: above 1e6 or below −1e6).
   * `row_no_warn_inside`         : all applicable quantities inside their (inclusive) limits ⇒ cell "".
     `row_warn_empty_iff`         : cell "" ⟺ no token; `row_warn_ne_iff`: cell ≠ "" ⟺ some token.
     `row_silent_no_warn`         : a silenced component (phase configuration not listing the phase,
                                    not a Source / series loss) has a blank cell.
   * `comps_rows`, `comps_rows_of_topo` : the component rows of `phaseTable` are exactly the `compRow`s of
                                    the nodes of `_topo_nodes` (for some inherited domain, on which the
                                    Warnings cell and the quantities do not depend: `compRow_warn_indep`).
   * `subsystem_warn_iff`         : the Subsystem row of source `d` says "Yes" iff a component row with
                                    Domain `d` has a non-empty Warnings cell, "" otherwise.
   * `total_warn_iff`             : System total says "Yes" iff some component row has a non-empty
                                    Warnings cell, "" otherwise (the `subs.any` disjunct of `anyWarn` is
                                    subsumed).
   * `total_warn_iff_nodes`       : end to end — System total says "Yes" iff some live node of
                                    `_topo_nodes`, not silenced, has an applicable key whose row quantity
                                    is out of range.

  Nothing here is `_partial`.  Not covered (by design, it is C07's subject): WHICH rows carry Domain `d`
  (`C07.domain_table`); `subsystem_warn_iff` speaks about the Domain cells as they are.
-/
import SysLoss.Proofs.Basic
import SysLoss.Model.Table
import SysLoss.Proofs.Domain
import SysLoss.Props.C09
import SysLoss.Props.C07

set_option linter.unusedSectionVars false
set_option linter.unusedVariables false

namespace SysLoss
namespace C09
variable {α : Type} [Field α] [LinearOrder α] [IsStrictOrderedRing α]

/-! ### 1. blank-separated tokens -/

/-- split a character list at every blank (empty pieces kept) -/
def splitBlank : List Char → List (List Char)
  | [] => [[]]
  | c :: cs =>
    if c = ' ' then [] :: splitBlank cs
    else match splitBlank cs with
      | [] => [[c]]
      | t :: ts => (c :: t) :: ts

/-- the blank-separated tokens of a cell (Python: `cell.split()`) -/
def tokens (s : String) : List String :=
  ((splitBlank s.toList).filter fun t => !t.isEmpty).map String.ofList

theorem splitBlank_clean (t : List Char) (ht : ' ' ∉ t) : splitBlank t = [t] := by
  induction t with
  | nil => rfl
  | cons c cs ih =>
    simp only [List.mem_cons, not_or] at ht
    have hc : c ≠ ' ' := fun e => ht.1 e.symm
    simp [splitBlank, hc, ih ht.2]

theorem splitBlank_clean_append (t rest : List Char) (ht : ' ' ∉ t) :
    splitBlank (t ++ ' ' :: rest) = t :: splitBlank rest := by
  induction t with
  | nil => simp [splitBlank]
  | cons c cs ih =>
    simp only [List.mem_cons, not_or] at ht
    have hc : c ≠ ' ' := fun e => ht.1 e.symm
    simp [splitBlank, hc, ih ht.2]

theorem splitBlank_intercalate (L : List (List Char)) (hne : L ≠ []) (hL : ∀ t ∈ L, ' ' ∉ t) :
    splitBlank ([' '].intercalate L) = L := by
  induction L with
  | nil => exact absurd rfl hne
  | cons a rest ih =>
    cases rest with
    | nil => simpa using splitBlank_clean a (hL a (by simp))
    | cons b rest' =>
      rw [List.intercalate_cons_cons, List.append_assoc, List.singleton_append,
        splitBlank_clean_append a _ (hL a (by simp)),
        ih (by simp) (fun t ht => hL t (List.mem_cons_of_mem _ ht))]

/-- **Join / split round trip.**  Splitting the blank-joined cell gives the token list back, for
    tokens that are non-empty and contain no blank. -/
theorem tokens_joinWarn (l : List String) (hl : ∀ t ∈ l, t ≠ "" ∧ ' ' ∉ t.toList) :
    tokens (joinWarn l) = l := by
  unfold tokens joinWarn
  rw [String.toList_intercalate]
  have hsp : " ".toList = [' '] := by simp
  rw [hsp]
  by_cases hne : l = []
  · subst hne; simp [splitBlank]
  · rw [splitBlank_intercalate (l.map String.toList) (by simpa using hne)
      (by intro t ht; obtain ⟨u, hu, rfl⟩ := List.mem_map.mp ht; exact (hl u hu).2)]
    have hfil : (l.map String.toList).filter (fun t => !t.isEmpty) = l.map String.toList := by
      rw [List.filter_eq_self]
      intro t ht
      obtain ⟨u, hu, rfl⟩ := List.mem_map.mp ht
      have : u.toList ≠ [] := by
        intro e
        apply (hl u hu).1
        rw [← String.toList_inj]; simpa using e
      simpa using this
    rw [hfil, List.map_map]
    conv_rhs => rw [← List.map_id l]
    apply List.map_congr_left
    intro u _
    simp [String.ofList_toList]

/-- the ten limit keys are non-empty and blank-free -/
theorem limitKey_clean (k : String) (hk : k ∈ allLimitKeys) : k ≠ "" ∧ ' ' ∉ k.toList := by
  simp only [allLimitKeys, List.mem_cons, List.not_mem_nil, or_false] at hk
  rcases hk with rfl | rfl | rfl | rfl | rfl | rfl | rfl | rfl | rfl | rfl <;> decide

theorem limitKeys_sub (kd : Kind) (k : String) (hk : k ∈ kd.limitKeys) : k ∈ allLimitKeys := by
  cases kd <;>
    simp only [Kind.limitKeys, allLimitKeys, List.mem_cons, List.not_mem_nil, or_false] at hk ⊢ <;>
    grind

/-- whatever `_solv_get_warns` returns, joining and splitting gives it back -/
theorem tokens_solvGetWarns (c : Comp α) (vi vo ii io ta : α) (ph : PhaseCtx α) :
    tokens (joinWarn (c.solvGetWarns vi vo ii io ta ph)) = c.solvGetWarns vi vo ii io ta ph :=
  tokens_joinWarn _ fun t ht =>
    limitKey_clean t (limitKeys_sub _ t (warn_applicable c vi vo ii io ta ph t ht))

/-! ### 2. the row and its own cells -/

/-- the ten documented quantities, computed from the cells of a row (`none`: a cell is blank) -/
def rowQuantity (r : Row α) (key : String) : Option α :=
  match key with
  | "vi" => r.vin | "vo" => r.vout
  | "vd" => r.vin.bind fun a => r.vout.map fun b => |a| - |b|
  | "ii" => r.iin | "io" => r.iout
  | "pi" => r.pwr
  | "po" => r.pwr.bind fun p => r.loss.map fun l => p - l
  | "pl" => r.loss
  | "tr" => r.tr | "tp" => r.tp
  | _ => none

/-- "silent in this phase": not a Source, not a series loss, and the phase configuration of the node is
    non-empty and does not list the phase -/
def Silent (nd : SNode α) (phase : String) : Prop :=
  (nd.comp.kind.ctype ≠ .SOURCE ∧ nd.comp.kind.ctype ≠ .SLOSS) ∧ (nd.pconf.ctx phase).inactive = true

/-- "inside [min, max]" (inclusive): by magnitude, the peak temperature by signed value -/
def Inside (key : String) (lim : α × α) (x : α) : Prop :=
  if key = "tp" then lim.1 ≤ x ∧ x ≤ lim.2 else |lim.1| ≤ |x| ∧ |x| ≤ |lim.2|

theorem inside_iff_not_outside (key : String) (lim : α × α) (x : α) :
    Inside key lim x ↔ ¬ Outside key lim x := by
  unfold Inside Outside
  by_cases hk : key = "tp"
  · simp only [hk, if_true, not_or, not_lt]; exact and_comm
  · simp only [hk, if_false, not_or, not_lt]; exact and_comm

/-- what `compRow` puts into the cells of a live node: the arguments handed to `_solv_pwr_loss` /
    `_solv_get_warns` are the row's own Vin, Vout, Iin, Iout -/
theorem compRow_cells (s : SSys α) (phase : String) (ta : α) (v i : Vec α) (st : St) (n : Nat)
    (nd : SNode α) (hnode : s.node? n = some nd) (d : String) :
    ∃ vi vo ii io : α,
      let r := (s.compRow phase ta v i st n d).1
      let pl := nd.comp.solvPwrLoss vi vo ii io ta (nd.pconf.ctx phase)
      r.vin = some vi ∧ r.vout = some vo ∧ r.iin = some ii ∧ r.iout = some io ∧
      r.pwr = some pl.pwr ∧ r.loss = some pl.loss ∧
      r.tr = (if nd.comp.kind = .source then none else some pl.tr) ∧
      r.tp = (if nd.comp.kind = .source then none else some pl.tp) ∧
      r.warn = joinWarn (nd.comp.solvGetWarns vi vo ii io ta (nd.pconf.ctx phase)) := by
  unfold SSys.compRow
  simp only [hnode]
  refine ⟨_, _, _, _, rfl, rfl, rfl, rfl, rfl, rfl, ?_, ?_, rfl⟩ <;>
    by_cases hk : nd.comp.kind = .source <;> simp [hk]

/-- the cells of a live row are filled (tr / tp: unless the row is a Source) -/
theorem row_cells_some (s : SSys α) (phase : String) (ta : α) (v i : Vec α) (st : St) (n : Nat)
    (nd : SNode α) (hnode : s.node? n = some nd) (d : String) :
    let r := (s.compRow phase ta v i st n d).1
    (∃ Vin Vout Iin Iout P L, r.vin = some Vin ∧ r.vout = some Vout ∧ r.iin = some Iin ∧
        r.iout = some Iout ∧ r.pwr = some P ∧ r.loss = some L) ∧
    (nd.comp.kind ≠ .source → ∃ Tr Tp, r.tr = some Tr ∧ r.tp = some Tp) ∧
    (nd.comp.kind = .source → r.tr = none ∧ r.tp = none) := by
  obtain ⟨vi, vo, ii, io, h1, h2, h3, h4, h5, h6, h7, h8, _⟩ := compRow_cells s phase ta v i st n nd hnode d
  refine ⟨⟨_, _, _, _, _, _, h1, h2, h3, h4, h5, h6⟩, ?_, ?_⟩
  · intro hk; exact ⟨_, _, by rw [h7, if_neg hk], by rw [h8, if_neg hk]⟩
  · intro hk; exact ⟨by rw [h7, if_pos hk], by rw [h8, if_pos hk]⟩

/-- for an applicable key the quantity read off the row is the quantity `_solv_get_warns` checked -/
theorem rowQuantity_eq (s : SSys α) (phase : String) (ta : α) (v i : Vec α) (st : St) (n : Nat)
    (nd : SNode α) (hnode : s.node? n = some nd) (d : String) :
    ∃ vi vo ii io : α,
      (s.compRow phase ta v i st n d).1.warn =
        joinWarn (nd.comp.solvGetWarns vi vo ii io ta (nd.pconf.ctx phase)) ∧
      ∀ k ∈ nd.comp.kind.limitKeys,
        rowQuantity (s.compRow phase ta v i st n d).1 k = quantity nd.comp vi vo ii io ta (nd.pconf.ctx phase) k := by
  obtain ⟨vi, vo, ii, io, h1, h2, h3, h4, h5, h6, h7, h8, h9⟩ := compRow_cells s phase ta v i st n nd hnode d
  refine ⟨vi, vo, ii, io, h9, ?_⟩
  intro k hk
  by_cases hsrc : nd.comp.kind = .source
  · rw [hsrc] at hk
    simp only [Kind.limitKeys, List.mem_cons, List.not_mem_nil, or_false] at hk
    rcases hk with rfl | rfl | rfl <;> simp [rowQuantity, quantity, h4, h5, h6]
  · rw [if_neg hsrc] at h7 h8
    unfold rowQuantity quantity
    split <;> simp_all

/-- **Warnings of a table row, exactly.**  For a live node of any system, any solver vectors and any
    inherited domain: token `k` is among the blank-separated tokens of the row's Warnings cell iff `k`
    is a limit applicable to the component's kind, the component is not silenced in this phase, and the
    quantity for `k` computed from the row's own cells is out of the configured (or default) range. -/
theorem row_warn_iff (s : SSys α) (phase : String) (ta : α) (v i : Vec α) (st : St) (n : Nat)
    (nd : SNode α) (hnode : s.node? n = some nd) (d : String) (k : String) :
    let r := (s.compRow phase ta v i st n d).1
    k ∈ tokens r.warn ↔
      k ∈ nd.comp.kind.limitKeys ∧ ¬ Silent nd phase ∧
      ∃ x, rowQuantity r k = some x ∧ outOfRange k (lookupLimit nd.comp.limits k) x = true := by
  intro r
  obtain ⟨vi, vo, ii, io, hw, hq⟩ := rowQuantity_eq s phase ta v i st n nd hnode d
  show k ∈ tokens (s.compRow phase ta v i st n d).1.warn ↔ _
  rw [hw, tokens_solvGetWarns]
  by_cases hsil : Silent nd phase
  · rw [inactive_no_warn nd.comp vi vo ii io ta _ hsil.1 hsil.2]
    constructor
    · intro h; cases h
    · rintro ⟨_, h, _⟩; exact absurd hsil h
  · rw [warn_iff nd.comp vi vo ii io ta _ k hsil]
    constructor
    · rintro ⟨hk, x, hx, ho⟩
      exact ⟨hk, hsil, x, by rw [← hx]; exact hq k hk, (outOfRange_iff _ _ _).mpr ho⟩
    · rintro ⟨hk, _, x, hx, ho⟩
      exact ⟨hk, x, by rw [← hx]; exact (hq k hk).symm, (outOfRange_iff _ _ _).mp ho⟩

/-- the quantity of key `k` from named cell values -/
def cellQuantity (Vin Vout Iin Iout P L : α) (Tr Tp : Option α) (key : String) : Option α :=
  match key with
  | "vi" => some Vin | "vo" => some Vout | "vd" => some (|Vin| - |Vout|)
  | "ii" => some Iin | "io" => some Iout
  | "pi" => some P | "po" => some (P - L) | "pl" => some L
  | "tr" => Tr | "tp" => Tp
  | _ => none

/-- `row_warn_iff` with the cells named and `outOfRange` read mathematically (`Outside`):
    `|x| > |max| ∨ |x| < |min|`, for `tp`: `x > max ∨ x < min`. -/
theorem row_warn_iff_cells (s : SSys α) (phase : String) (ta : α) (v i : Vec α) (st : St) (n : Nat)
    (nd : SNode α) (hnode : s.node? n = some nd) (d : String) (k : String)
    (Vin Vout Iin Iout P L : α)
    (hvin : (s.compRow phase ta v i st n d).1.vin = some Vin)
    (hvout : (s.compRow phase ta v i st n d).1.vout = some Vout)
    (hiin : (s.compRow phase ta v i st n d).1.iin = some Iin)
    (hiout : (s.compRow phase ta v i st n d).1.iout = some Iout)
    (hpwr : (s.compRow phase ta v i st n d).1.pwr = some P)
    (hloss : (s.compRow phase ta v i st n d).1.loss = some L) :
    let r := (s.compRow phase ta v i st n d).1
    k ∈ tokens r.warn ↔
      k ∈ nd.comp.kind.limitKeys ∧ ¬ Silent nd phase ∧
      ∃ x, cellQuantity Vin Vout Iin Iout P L r.tr r.tp k = some x ∧
        Outside k (lookupLimit nd.comp.limits k) x := by
  intro r
  have hqq : rowQuantity r k = cellQuantity Vin Vout Iin Iout P L r.tr r.tp k := by
    unfold rowQuantity cellQuantity
    split <;> simp [r, hvin, hvout, hiin, hiout, hpwr, hloss]
  rw [show _ ↔ _ from row_warn_iff s phase ta v i st n nd hnode d k]
  show _ ∧ _ ∧ (∃ x, rowQuantity r k = some x ∧ _) ↔ _
  rw [hqq]
  simp only [outOfRange_iff]

/-- **Defaults.**  A key absent from the component's `limits` is judged against `LIMITS_DEFAULT`:
    it warns iff the magnitude exceeds 1e6 (the lower default 0 can never be undercut); the peak
    temperature iff it is above 1e6 or below −1e6. -/
theorem row_warn_default (s : SSys α) (phase : String) (ta : α) (v i : Vec α) (st : St) (n : Nat)
    (nd : SNode α) (hnode : s.node? n = some nd) (d : String) (k : String)
    (habs : nd.comp.limits.lookup k = none) :
    let r := (s.compRow phase ta v i st n d).1
    lookupLimit nd.comp.limits k = limitsDefault k ∧
    (k ∈ tokens r.warn ↔
      k ∈ nd.comp.kind.limitKeys ∧ ¬ Silent nd phase ∧
      ∃ x, rowQuantity r k = some x ∧
        (if k = "tp" then (1000000 < x ∨ x < -1000000) else 1000000 < |x|)) := by
  intro r
  have hdef : lookupLimit nd.comp.limits k = limitsDefault k := by
    unfold lookupLimit; rw [habs]
  refine ⟨hdef, ?_⟩
  rw [show _ ↔ _ from row_warn_iff s phase ta v i st n nd hnode d k]
  have hrange : ∀ x : α, outOfRange k (lookupLimit nd.comp.limits k) x = true ↔
      (if k = "tp" then (1000000 < x ∨ x < -1000000) else 1000000 < |x|) := by
    intro x
    rw [outOfRange_iff, default_limits _ _ habs]
    unfold Outside
    by_cases hk : k = "tp"
    · simp [hk]
    · simp only [hk, if_false, abs_zero]
      have h6 : |(1000000 : α)| = 1000000 := abs_of_pos (by norm_num)
      rw [h6]
      constructor
      · rintro (h | h)
        · exact h
        · exact absurd h (not_lt.mpr (abs_nonneg x))
      · intro h; exact Or.inl h
  simp only [hrange]
  exact Iff.rfl

/-- the Warnings cell is blank iff it has no token -/
theorem row_warn_empty_iff (s : SSys α) (phase : String) (ta : α) (v i : Vec α) (st : St) (n : Nat)
    (nd : SNode α) (hnode : s.node? n = some nd) (d : String) :
    (s.compRow phase ta v i st n d).1.warn = "" ↔ tokens (s.compRow phase ta v i st n d).1.warn = [] := by
  obtain ⟨vi, vo, ii, io, hw, _⟩ := rowQuantity_eq s phase ta v i st n nd hnode d
  constructor
  · intro h; rw [h]; decide
  · intro h
    rw [hw, tokens_solvGetWarns] at h
    rw [hw, h]; rfl

/-- the Warnings cell is non-blank iff some key is listed in it -/
theorem row_warn_ne_iff (s : SSys α) (phase : String) (ta : α) (v i : Vec α) (st : St) (n : Nat)
    (nd : SNode α) (hnode : s.node? n = some nd) (d : String) :
    (s.compRow phase ta v i st n d).1.warn ≠ "" ↔ ∃ k, k ∈ tokens (s.compRow phase ta v i st n d).1.warn := by
  rw [Ne, row_warn_empty_iff s phase ta v i st n nd hnode d]
  cases tokens (s.compRow phase ta v i st n d).1.warn with
  | nil => simp
  | cons a l => simp

/-- **No warning inside the limits.**  If every applicable quantity of the row lies within its
    limits (inclusive; by magnitude, `tp` by signed value), the Warnings cell is blank. -/
theorem row_no_warn_inside (s : SSys α) (phase : String) (ta : α) (v i : Vec α) (st : St) (n : Nat)
    (nd : SNode α) (hnode : s.node? n = some nd) (d : String)
    (hin : ∀ k ∈ nd.comp.kind.limitKeys, ∀ x, rowQuantity (s.compRow phase ta v i st n d).1 k = some x →
        Inside k (lookupLimit nd.comp.limits k) x) :
    (s.compRow phase ta v i st n d).1.warn = "" := by
  rw [row_warn_empty_iff s phase ta v i st n nd hnode d, List.eq_nil_iff_forall_not_mem]
  intro k hk
  obtain ⟨hkey, _, x, hx, ho⟩ := (row_warn_iff s phase ta v i st n nd hnode d k).mp hk
  exact (inside_iff_not_outside _ _ _).mp (hin k hkey x hx) ((outOfRange_iff _ _ _).mp ho)

/-- a silenced component has a blank Warnings cell -/
theorem row_silent_no_warn (s : SSys α) (phase : String) (ta : α) (v i : Vec α) (st : St) (n : Nat)
    (nd : SNode α) (hnode : s.node? n = some nd) (d : String) (hsil : Silent nd phase) :
    (s.compRow phase ta v i st n d).1.warn = "" := by
  rw [row_warn_empty_iff s phase ta v i st n nd hnode d, List.eq_nil_iff_forall_not_mem]
  intro k hk
  exact ((row_warn_iff s phase ta v i st n nd hnode d k).mp hk).2.1 hsil

/-! ### 3. the aggregate rows of `phaseTable` -/

/-- the Warnings cell and the quantities of a row do not depend on the inherited domain -/
theorem compRow_warn_indep (s : SSys α) (phase : String) (ta : α) (v i : Vec α) (st : St) (n : Nat)
    (d d' : String) :
    (s.compRow phase ta v i st n d).1.warn = (s.compRow phase ta v i st n d').1.warn ∧
    ∀ k, rowQuantity (s.compRow phase ta v i st n d).1 k = rowQuantity (s.compRow phase ta v i st n d').1 k := by
  unfold SSys.compRow
  cases s.node? n with
  | none => exact ⟨rfl, fun _ => rfl⟩
  | some nd => exact ⟨rfl, fun _ => rfl⟩

theorem foldl_rowStep_mem (s : SSys α) (phase : String) (ta : α) (v i : Vec α) (st : St)
    (l : List Nat) (acc : List (Row α) × String × List (Nat × String)) (r : Row α)
    (hr : r ∈ (l.foldl (rowStep s phase ta v i st) acc).1) :
    r ∈ acc.1 ∨ ∃ n ∈ l, ∃ d, r = (s.compRow phase ta v i st n d).1 := by
  induction l generalizing acc with
  | nil => exact Or.inl hr
  | cons a rest ih =>
    simp only [List.foldl_cons] at hr
    rcases ih _ hr with h | ⟨m, hm, d, rfl⟩
    · simp only [rowStep, List.mem_append, List.mem_singleton] at h
      rcases h with h | h
      · exact Or.inl h
      · exact Or.inr ⟨a, by simp, _, h⟩
    · exact Or.inr ⟨m, List.mem_cons_of_mem _ hm, d, rfl⟩

/-- every component row of the table is the `compRow` of a node of `_topo_nodes` … -/
theorem comps_rows (s : SSys α) (phase : String) (ta : α) (v i : Vec α) (st : St) (r : Row α)
    (hr : r ∈ (s.phaseTable phase ta v i st).comps) :
    ∃ n ∈ s.topo, ∃ d, r = (s.compRow phase ta v i st n d).1 := by
  have hr' : r ∈ s.compRows phase ta v i st := hr
  rw [compRows_eq_foldl] at hr'
  rcases foldl_rowStep_mem s phase ta v i st _ _ r hr' with h | ⟨m, hm, d, rfl⟩
  · cases h
  · exact ⟨m, hm, d, rfl⟩

theorem foldl_rowStep_of_mem (s : SSys α) (phase : String) (ta : α) (v i : Vec α) (st : St)
    (l : List Nat) (acc : List (Row α) × String × List (Nat × String)) :
    (∀ r ∈ acc.1, r ∈ (l.foldl (rowStep s phase ta v i st) acc).1) ∧
    ∀ n ∈ l, ∃ d, (s.compRow phase ta v i st n d).1 ∈ (l.foldl (rowStep s phase ta v i st) acc).1 := by
  induction l generalizing acc with
  | nil => simp
  | cons a rest ih =>
    simp only [List.foldl_cons]
    obtain ⟨h1, h2⟩ := ih (rowStep s phase ta v i st acc a)
    refine ⟨fun r hr => h1 r (by simp only [rowStep, List.mem_append]; exact Or.inl hr), ?_⟩
    intro m hm
    rcases List.mem_cons.mp hm with rfl | hm'
    · exact ⟨_, h1 _ (by simp only [rowStep, List.mem_append, List.mem_singleton]; exact Or.inr rfl)⟩
    · exact h2 m hm'

/-- … and every node of `_topo_nodes` has its `compRow` (for some inherited domain) in the table -/
theorem comps_rows_of_topo (s : SSys α) (phase : String) (ta : α) (v i : Vec α) (st : St) (n : Nat)
    (hn : n ∈ s.topo) :
    ∃ d, (s.compRow phase ta v i st n d).1 ∈ (s.phaseTable phase ta v i st).comps := by
  obtain ⟨d, hd⟩ := (foldl_rowStep_of_mem s phase ta v i st s.topo ([], "none", [])).2 n hn
  refine ⟨d, ?_⟩
  show _ ∈ s.compRows phase ta v i st
  rw [compRows_eq_foldl]; exact hd

/-- **Subsystem roll-up.**  Each Subsystem row belongs to a source `d` (the Domain of a SOURCE row);
    it says "Yes" iff some component row with Domain `d` has a non-empty Warnings cell, and is blank
    otherwise. -/
theorem subsystem_warn_iff (s : SSys α) (phase : String) (ta : α) (v i : Vec α) (st : St) (sub : Row α)
    (h : sub ∈ (s.phaseTable phase ta v i st).subs) :
    let T := s.phaseTable phase ta v i st
    ∃ d, d ∈ (T.comps.filter (·.typ == "SOURCE")).map (·.domain) ∧ sub.name = "Subsystem " ++ d ∧
      (sub.warn = "Yes" ↔ ∃ r ∈ T.comps, r.domain = d ∧ r.warn ≠ "") ∧
      (sub.warn = "Yes" ∨ sub.warn = "") := by
  intro T
  obtain ⟨d, hd, hname, _, _, _, _, hw⟩ := C07.subs_spec s phase ta v i st sub h
  refine ⟨d, hd, hname, hw, ?_⟩
  unfold SSys.phaseTable at h
  simp only [List.mem_map] at h
  obtain ⟨d', _, rfl⟩ := h
  show (if _ then "Yes" else "") = "Yes" ∨ (if _ then "Yes" else "") = ""
  split_ifs
  · exact Or.inl rfl
  · exact Or.inr rfl

/-- **System total roll-up.**  "Yes" iff some component row has a non-empty Warnings cell (the
    Subsystem rows add nothing: they warn only when one of their component rows does), blank otherwise. -/
theorem total_warn_iff (s : SSys α) (phase : String) (ta : α) (v i : Vec α) (st : St) :
    let T := s.phaseTable phase ta v i st
    (T.total.warn = "Yes" ↔ ∃ r ∈ T.comps, r.warn ≠ "") ∧ (T.total.warn = "Yes" ∨ T.total.warn = "") := by
  intro T
  have hsub : ∀ sub ∈ T.subs, sub.warn ≠ "" → ∃ r ∈ T.comps, r.warn ≠ "" := by
    intro sub hs hne
    obtain ⟨d, _, _, hw, hyn⟩ := subsystem_warn_iff s phase ta v i st sub hs
    rcases hyn with hy | hn
    · obtain ⟨r, hr, _, hrw⟩ := hw.mp hy
      exact ⟨r, hr, hrw⟩
    · exact absurd hn hne
  have hany : (T.comps.any (·.warn != "") || T.subs.any (·.warn != "")) = true ↔ ∃ r ∈ T.comps, r.warn ≠ "" := by
    simp only [Bool.or_eq_true, List.any_eq_true, bne_iff_ne, ne_eq]
    constructor
    · rintro (⟨r, hr, hw⟩ | ⟨sub, hs, hw⟩)
      · exact ⟨r, hr, hw⟩
      · exact hsub sub hs hw
    · rintro ⟨r, hr, hw⟩; exact Or.inl ⟨r, hr, hw⟩
  have htot : T.total.warn =
      if (T.comps.any (·.warn != "") || T.subs.any (·.warn != "")) = true then "Yes" else "" := rfl
  rw [htot]
  by_cases hW : (T.comps.any (·.warn != "") || T.subs.any (·.warn != "")) = true
  · rw [if_pos hW]; exact ⟨⟨fun _ => hany.mp hW, fun _ => rfl⟩, Or.inl rfl⟩
  · rw [if_neg hW]
    refine ⟨⟨fun h => absurd h (by decide), fun h => absurd (hany.mpr h) hW⟩, Or.inr rfl⟩

/-- **System total, end to end.**  "Yes" iff some live node of `_topo_nodes` that is not silenced in
    the phase has an applicable limit key whose quantity — read off the node's own row — is out of the
    configured or default range. -/
theorem total_warn_iff_nodes (s : SSys α) (phase : String) (ta : α) (v i : Vec α) (st : St) :
    (s.phaseTable phase ta v i st).total.warn = "Yes" ↔
      ∃ n ∈ s.topo, ∃ nd, s.node? n = some nd ∧ ¬ Silent nd phase ∧
        ∃ k ∈ nd.comp.kind.limitKeys, ∃ x,
          rowQuantity (s.compRow phase ta v i st n "").1 k = some x ∧
          outOfRange k (lookupLimit nd.comp.limits k) x = true := by
  rw [(total_warn_iff s phase ta v i st).1]
  constructor
  · rintro ⟨r, hr, hw⟩
    obtain ⟨n, hn, d, rfl⟩ := comps_rows s phase ta v i st r hr
    cases hnode : s.node? n with
    | none =>
      exfalso; apply hw
      unfold SSys.compRow; simp [hnode]
    | some nd =>
      obtain ⟨k, hk⟩ := (row_warn_ne_iff s phase ta v i st n nd hnode d).mp hw
      obtain ⟨hkey, hsil, x, hx, ho⟩ := (row_warn_iff s phase ta v i st n nd hnode d k).mp hk
      exact ⟨n, hn, nd, hnode, hsil, k, hkey, x,
        by rw [← hx]; exact (compRow_warn_indep s phase ta v i st n "" d).2 k, ho⟩
  · rintro ⟨n, hn, nd, hnode, hsil, k, hkey, x, hx, ho⟩
    obtain ⟨d, hd⟩ := comps_rows_of_topo s phase ta v i st n hn
    refine ⟨_, hd, ?_⟩
    rw [row_warn_ne_iff s phase ta v i st n nd hnode d]
    refine ⟨k, (row_warn_iff s phase ta v i st n nd hnode d k).mpr ⟨hkey, hsil, x, ?_, ho⟩⟩
    rw [← hx]; exact (compRow_warn_indep s phase ta v i st n d "").2 k

/-! ### 4. non-vacuity: Source(12 V) → LinReg(5 V, io limited to [0, 0.05]) → ILoad(0.1 A) over ℚ -/

section Examples

def tSrc : Comp ℚ := { name := "S", kind := .source, par := .const 0, vo := 12, rs := 0 }
def tReg : Comp ℚ := { name := "R", kind := .linreg, par := .const 0, vo := 5, limits := [("io", (0, 1/20))] }
def tLoad : Comp ℚ := { name := "L", kind := .iload, par := .const 0, ii := 1/10 }
def tN0 : SNode ℚ := { comp := tSrc, parents := [], childs := [1], pconf := .names [] }
def tN1 : SNode ℚ := { comp := tReg, parents := [0], childs := [2], pconf := .names [] }
def tN2 : SNode ℚ := { comp := tLoad, parents := [1], childs := [] }
def tSys : SSys ℚ := { nodes := #[some tN0, some tN1, some tN2], topo := [0, 1, 2] }
def tCfg : Cfg ℚ := ⟨1/100000000, 1/1000000, 1/1000000, 100⟩
def tV : Vec ℚ := #[12, 5, 0]
def tI : Vec ℚ := #[1/10, 1/10, 1/10]
def tSt : St := #[[false], [false], [false]]

/-- the vectors are what the model's solver returns for this system -/
example : (tSys.solvePhase tCfg "").map (fun r => (r.v, r.i, r.st)) = .ok (tV, tI, tSt) := by
  decide +kernel

/-- the LinReg row: cells 12 V / 5 V / 0.1 A / 0.1 A / 1.2 W / 0.7 W, Warnings cell exactly "io" -/
example : let r := (tSys.compRow "" 25 tV tI tSt 1 "S").1
    r.vin = some 12 ∧ r.vout = some 5 ∧ r.iin = some (1/10) ∧ r.iout = some (1/10) ∧
    r.pwr = some (6/5) ∧ r.loss = some (7/10) ∧ r.warn = "io" ∧ tokens r.warn = ["io"] := by
  decide +kernel

/-- `row_warn_iff` right to left on that row: io is applicable to a LinReg, the regulator has no phase
    configuration, and the row's Iout 0.1 lies outside [0, 0.05] -/
example : "io" ∈ tokens (tSys.compRow "" 25 tV tI tSt 1 "S").1.warn :=
  (row_warn_iff tSys "" 25 tV tI tSt 1 tN1 rfl "S" "io").mpr
    ⟨by decide, by unfold Silent; decide, 1/10, by decide +kernel, by decide +kernel⟩

/-- `row_warn_default` on that row: `vi` is not configured, the default applies, 12 V ≤ 1e6: no token -/
example : "vi" ∉ tokens (tSys.compRow "" 25 tV tI tSt 1 "S").1.warn := by
  intro h
  obtain ⟨_, _, x, hx, ho⟩ := ((row_warn_default tSys "" 25 tV tI tSt 1 tN1 rfl "S" "vi" (by decide)).2).mp h
  have hx' : x = 12 := by
    have : rowQuantity (tSys.compRow "" 25 tV tI tSt 1 "S").1 "vi" = some 12 := by decide +kernel
    rw [this] at hx; exact (Option.some.inj hx).symm
  subst hx'
  norm_num at ho

/-- `row_no_warn_inside` applies to the Source row (io = 0.1, po = 1.2, pl = 0 within the defaults) … -/
example : (tSys.compRow "" 25 tV tI tSt 0 "none").1.warn = "" := by
  apply row_no_warn_inside tSys "" 25 tV tI tSt 0 tN0 rfl "none"
  intro k hk x hx
  have hk' : k = "io" ∨ k = "po" ∨ k = "pl" := by simpa [tN0, tSrc, Kind.limitKeys] using hk
  have hio : rowQuantity (tSys.compRow "" 25 tV tI tSt 0 "none").1 "io" = some (1/10) := by decide +kernel
  have hpo : rowQuantity (tSys.compRow "" 25 tV tI tSt 0 "none").1 "po" = some (6/5) := by decide +kernel
  have hpl : rowQuantity (tSys.compRow "" 25 tV tI tSt 0 "none").1 "pl" = some 0 := by decide +kernel
  rcases hk' with rfl | rfl | rfl
  · rw [hio] at hx; obtain rfl := Option.some.inj hx
    simp [Inside, lookupLimit, limitsDefault, tN0, tSrc]; norm_num [abs_le]
  · rw [hpo] at hx; obtain rfl := Option.some.inj hx
    simp [Inside, lookupLimit, limitsDefault, tN0, tSrc]; norm_num [abs_le]
  · rw [hpl] at hx; obtain rfl := Option.some.inj hx
    simp [Inside, lookupLimit, limitsDefault, tN0, tSrc]

/-- … the table has one Subsystem row, it says "Yes" (the LinReg row of Domain "S" warns), and so does
    System total -/
example : ((tSys.phaseTable "" 25 tV tI tSt).subs.map (·.warn)) = ["Yes"] ∧
    (tSys.phaseTable "" 25 tV tI tSt).total.warn = "Yes" ∧
    ((tSys.phaseTable "" 25 tV tI tSt).comps.map (fun r => (r.domain, r.warn))) =
      [("S", ""), ("S", "io"), ("S", "")] := by
  decide +kernel

/-- `total_warn_iff_nodes` right to left, with the LinReg as the witness -/
example : (tSys.phaseTable "" 25 tV tI tSt).total.warn = "Yes" :=
  (total_warn_iff_nodes tSys "" 25 tV tI tSt).mpr
    ⟨1, by decide, tN1, rfl, by unfold Silent; decide, "io", by decide, 1/10, by decide +kernel, by decide +kernel⟩

end Examples

end C09
end SysLoss
