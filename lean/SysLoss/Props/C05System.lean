/-
  Props/C05System — property C05 END TO END, phrased with the cells of the assembled table.

  `Props/C05` proves the selection law (`pri_first_live`), one sweep's bookkeeping (`mux_current_attribution`)
  and one row (`mux_row_reports_selected`).  This file is about a WHOLE well-formed system `s`, a phase, a state
  `(v, i, st)` and the table `T := s.phaseTable phase ta v i st` the model assembles from it.  Everything is
  read off `T` through

    rowN s T n         the component row of `T` that carries the name of node `n` (`find?` by the Name cell)
    cell s T f n       the numeric cell `f` (`·.vin`, `·.vout`, `·.iin`, `·.iout`, …) of that row
    LiveRow s T st p   input `p` is live: the Vout cell of its row is a non-zero number ∧ `p` is not flagged off in
                       `st` — exactly the two things `_get_pri_inp` looks at (`liveRow_iff`)
    Reports s T m p    the row of `m` names the row of `p`: Parent = Name of `p`'s row, Rail in = Rail out of `p`'s
                       row (blank when `p`'s name is blank — `solve()` tests `pn != ""`), Vin = Vout of `p`'s row
    otherKidsIin s T m p   Σ Iin cells of the rows of the children of `p` other than `m`

  Structural hypotheses: `C02.TreeWF s`, `C07.NamesDistinct s` (rows are found by name) and, for the current
  statements, `C07.OneMux s` — all three proved for the solver view of every reachable `System` by
  `C14S.reachable_structure`.  `Steady` is `C02.Steady` (exact fixed point of both sweeps, a flag only on 0 V).

   0. `rowN_eq`, `rowN_unique`, `row_of_node`, `cell_vout`, `cell_iin`, `cell_iout_eq_ioOf` : under `TreeWF` and
      `NamesDistinct` every live node has exactly one row in `T`, it is the `compRow` of that node, its Name /
      Rail out / Vout / Iin cells are the node's name / rail / `v n` / `i n`, and in a steady state its Iout cell is
      the current its children draw from it (sources included, dead sources included).
   1. `selected_is_first_live` : if input `p_j` is live and no earlier input is, the mux row reports `p_j`
      (`Reports`): Parent, Rail in, Vin.  Needs NO steady state — true for any `(v, i, st)`; one-input muxes included.
   2. `mux_current_goes_to_selected` : steady state, `p_j` the first live input: Iout(p_j) = Iin(mux) + Σ Iin of
      p_j's other children, and for every other input Iout(p_q) = Σ Iin of its other children.
      `input_iout` is the unified form.  `mux_current_conserved` : Σ_inputs (Iout − Σ other children's Iin) =
      Iin(mux) — in EVERY steady state, live input or not.
   3. `no_live_input_all_zero` : no live input ⇒ the mux row and the row of every node below the mux through
      single-supply components (`C04.Depth s m n k`, any depth) shows Vin = Vout = Iin = Iout = Power = Loss = 0, and
      every input's Iout is the sum over its other children only.  (`C04.dead_rows` composed with the table lookup.)
      `no_live_input_descendants_zero` : the same for EVERY descendant of the mux along the child lists (`Under`;
      `depth_of_under`: with one PMux all of them hang on single-supply links).
      `no_live_reports_first_declared` : the dead mux row then names the FIRST declared input (Parent / Rail in /
      Vin of that input, whose Vout cell is 0) — what `solve()` prints; the property text is silent about it.
   4. `selection_monotone` : two states / tables (of the same or of two systems with the same mux input list): if
      the inputs before `j` are dead in `T`, input `j` is dead in `T'`, every other input is live in `T'` iff it is in
      `T`, and `j'` is the next live input after `j` in `T`, then the mux row of `T'` reports `p_j'` — fail-over goes to
      the next live input in declaration order.  This is `selected_is_first_live` applied to the second table.
      NOT done: the version in which the second system is literally "the first with one source voltage set to 0"
      (would need transporting `TreeWF` along a payload update; skipped as the task allows).
   5. `mux_row_power_identity` : the mux row has Power = |Vin·Iin|, Loss = Power − |Vout·Iout|, Loss ≥ 0.
      Additional hypotheses (not structural): accepted parameters `Comp.Phys` for every component (this contains
      `rs ≥ 0`) and non-negative phase values `PhaseValOK` — both needed to know the currents are ≥ 0
      (`C02.steady_currents_nonneg`).  None of the exclusions of `CompsOK` (F01, 0 V converter) is needed.

  Nothing here is `_partial`.  What is NOT covered: tolerance-converged (inexact) states; systems with several
  PMuxes for item 2/3b (the solver view does not exclude them, `System` does: `OneMux`); the Domain cell (C07).

  Non-vacuity (`Ex`): S1 (0 V), S2 (10 V), converter C (5 V, 50 %, active by day) on S2, PMux M (1 Ω) over
  [S1, C, S2], ILoad L (1 A) below M.  "day": M runs from C (second input, the first is dead); "night": C sleeps,
  M fails over to S2; "off": S2 is off too, everything below is 0.  All states are exact and kernel-checked.
-/
import SysLoss.Props.C14Solver

set_option linter.unusedSectionVars false
set_option linter.unusedVariables false
set_option linter.unusedSimpArgs false
set_option linter.unnecessarySeqFocus false
set_option linter.unusedTactic false

namespace SysLoss
namespace C05S
open C02 C07
variable {α : Type} [Field α] [LinearOrder α] [IsStrictOrderedRing α]

/-! ### 0. lists -/

theorem find_row (l : List Nat) (f : Nat → Row α) (nm : Nat → String)
    (hname : ∀ a ∈ l, (f a).name = nm a) (hinj : ∀ a ∈ l, ∀ b ∈ l, nm a = nm b → a = b)
    (n : Nat) (hn : n ∈ l) : (l.map f).find? (fun r => r.name == nm n) = some (f n) := by
  induction l with
  | nil => cases hn
  | cons a l' ih =>
    rw [List.map_cons, List.find?_cons]
    by_cases ha : a = n
    · subst ha
      have : ((f a).name == nm a) = true := by rw [hname a (by simp)]; simp
      rw [this]
    · have hne : ((f a).name == nm n) = false := by
        rw [hname a (by simp)]
        simp only [beq_eq_false_iff_ne, ne_eq]
        intro e
        exact ha (hinj a (by simp) n hn e)
      rw [hne]
      have hn' : n ∈ l' := by
        rcases List.mem_cons.mp hn with h | h
        · exact absurd h.symm ha
        · exact h
      exact ih (fun b hb => hname b (by simp [hb]))
        (fun b hb c hc => hinj b (by simp [hb]) c (by simp [hc])) hn'

theorem sum_split_mem (l : List Nat) (hl : l.Nodup) (m : Nat) (hm : m ∈ l) (f : Nat → α) :
    (l.map f).sum = f m + ((l.filter (· != m)).map f).sum := by
  induction l with
  | nil => cases hm
  | cons a l' ih =>
    have hnd := List.nodup_cons.mp hl
    by_cases ha : a = m
    · subst ha
      have hfil : (a :: l').filter (· != a) = l' := by
        rw [List.filter_cons]
        simp only [bne_self_eq_false, Bool.false_eq_true, if_false]
        apply List.filter_eq_self.mpr
        intro b hb
        simp only [bne_iff_ne, ne_eq]
        intro e; subst e; exact hnd.1 hb
      rw [hfil]; simp
    · have hm' : m ∈ l' := by
        rcases List.mem_cons.mp hm with h | h
        · exact absurd h.symm ha
        · exact h
      have hfil : (a :: l').filter (· != m) = a :: l'.filter (· != m) := by
        rw [List.filter_cons]
        have : (a != m) = true := by simpa using ha
        simp [this]
      rw [hfil, List.map_cons, List.sum_cons, List.map_cons, List.sum_cons, ih hnd.2 hm']
      ring

theorem sum_ite_mem_nat (l : List Nat) (hl : l.Nodup) (p : Nat) (hp : p ∈ l) (x : α) :
    (l.map fun q => if p = q then x else 0).sum = x := by
  rw [sum_split_mem l hl p hp]
  simp only [if_true]
  have : ((l.filter (· != p)).map fun q => if p = q then x else (0 : α)).sum = 0 := by
    apply List.sum_eq_zero
    intro y hy
    obtain ⟨q, hq, rfl⟩ := List.mem_map.mp hy
    have := (List.mem_filter.mp hq).2
    simp only [bne_iff_ne, ne_eq] at this
    rw [if_neg (fun e => this e.symm)]
  rw [this, add_zero]

/-! ### 1. the row of a node in the assembled table -/

/-- the component row of `T` that carries the name of node `n` -/
def rowN (s : SSys α) (T : PhaseTable α) (n : Nat) : Option (Row α) :=
  T.comps.find? (fun r => r.name == s.nameOf n)

/-- a numeric cell of the row of node `n` (0 only if the row or the cell is missing — `cell_some`: they are not) -/
def cell (s : SSys α) (T : PhaseTable α) (f : Row α → Option α) (n : Nat) : α :=
  ((rowN s T n).bind f).getD 0

theorem htopo_of (s : SSys α) (hwf : TreeWF s) : ∀ n, n ∈ s.topo ↔ ∃ nd, s.node? n = some nd := by
  intro n
  rw [hwf.live n]
  exact Option.isSome_iff_exists

theorem compRow_name (s : SSys α) (ph : String) (ta : α) (v i : Vec α) (st : St) (n : Nat) (nd : SNode α)
    (hn : s.node? n = some nd) (d : String) :
    (s.compRow ph ta v i st n d).1.name = s.nameOf n ∧ (s.compRow ph ta v i st n d).1.name = nd.comp.name ∧
    (s.compRow ph ta v i st n d).1.railOut = nd.rail := by
  unfold SSys.compRow SSys.nameOf
  simp only [hn]
  exact ⟨trivial, trivial, trivial⟩

/-- **the row of a live node exists and is its `compRow`** (for some inherited domain, which only the Domain
    cell shows) -/
theorem rowN_eq (s : SSys α) (hwf : TreeWF s) (hnames : NamesDistinct s)
    (ph : String) (ta : α) (v i : Vec α) (st : St) (n : Nat) (nd : SNode α) (hn : s.node? n = some nd) :
    ∃ d, rowN s (s.phaseTable ph ta v i st) n = some (s.compRow ph ta v i st n d).1 := by
  have htopo := htopo_of s hwf
  obtain ⟨D, hrows, _⟩ := C16R.compRows_spec htopo (tableWF_of s hwf hnames) ph ta v i st
  refine ⟨C16R.startD s D n, ?_⟩
  have hT : (s.phaseTable ph ta v i st).comps = s.compRows ph ta v i st := rfl
  unfold rowN
  rw [hT, hrows]
  apply find_row s.topo (fun n => (s.compRow ph ta v i st n (C16R.startD s D n)).1) s.nameOf
  · intro a ha
    obtain ⟨ad, had⟩ := (htopo a).mp ha
    exact (compRow_name s ph ta v i st a ad had _).1
  · intro a ha b hb e
    obtain ⟨ad, had⟩ := (htopo a).mp ha
    obtain ⟨bd, hbd⟩ := (htopo b).mp hb
    apply hnames a b ad bd had hbd
    unfold SSys.nameOf at e
    simpa [had, hbd] using e
  · exact (htopo n).mpr ⟨nd, hn⟩

/-- … and it is the only row of the table with that name -/
theorem rowN_unique (s : SSys α) (hwf : TreeWF s) (hnames : NamesDistinct s)
    (ph : String) (ta : α) (v i : Vec α) (st : St) (n : Nat) (nd : SNode α) (hn : s.node? n = some nd)
    (r : Row α) (hr : r ∈ (s.phaseTable ph ta v i st).comps) (hname : r.name = nd.comp.name) :
    rowN s (s.phaseTable ph ta v i st) n = some r := by
  have htopo := htopo_of s hwf
  obtain ⟨D, hrows, _⟩ := C16R.compRows_spec htopo (tableWF_of s hwf hnames) ph ta v i st
  have hT : (s.phaseTable ph ta v i st).comps = s.compRows ph ta v i st := rfl
  rw [hT, hrows] at hr
  obtain ⟨a, ha, rfl⟩ := List.mem_map.mp hr
  obtain ⟨ad, had⟩ := (htopo a).mp ha
  have e : a = n := by
    apply hnames a n ad nd had hn
    rw [← (compRow_name s ph ta v i st a ad had _).2.1, hname]
  subst e
  unfold rowN
  rw [hT, hrows]
  apply find_row s.topo (fun n => (s.compRow ph ta v i st n (C16R.startD s D n)).1) s.nameOf
  · intro a ha
    obtain ⟨ad, had⟩ := (htopo a).mp ha
    exact (compRow_name s ph ta v i st a ad had _).1
  · intro a ha b hb e
    obtain ⟨ad, had⟩ := (htopo a).mp ha
    obtain ⟨bd, hbd⟩ := (htopo b).mp hb
    apply hnames a b ad bd had hbd
    unfold SSys.nameOf at e
    simpa [had, hbd] using e
  · exact ha

/-- what the row of a live node shows, whatever the rest of the system does: Name, Rail out, Vout = `v n`,
    Iin = `i n`; the other numeric cells are filled -/
theorem row_of_node (s : SSys α) (hwf : TreeWF s) (hnames : NamesDistinct s)
    (ph : String) (ta : α) (v i : Vec α) (st : St) (n : Nat) (nd : SNode α) (hn : s.node? n = some nd) :
    ∃ r, rowN s (s.phaseTable ph ta v i st) n = some r ∧ r ∈ (s.phaseTable ph ta v i st).comps ∧
      r.name = nd.comp.name ∧ r.railOut = nd.rail ∧ r.vout = some (vget v n) ∧ r.iin = some (vget i n) ∧
      (∃ x, r.vin = some x) ∧ (∃ x, r.iout = some x) ∧ (∃ x, r.pwr = some x) ∧ (∃ x, r.loss = some x) := by
  obtain ⟨d, hd⟩ := rowN_eq s hwf hnames ph ta v i st n nd hn
  obtain ⟨VI, IO, c1, c2, c3, c4, c5, c6, _, _⟩ := compRow_consistent s ph ta v i st n nd hn d
  obtain ⟨_, n2, n3⟩ := compRow_name s ph ta v i st n nd hn d
  refine ⟨_, hd, ?_, n2, n3, c2, c3, ⟨_, c1⟩, ⟨_, c4⟩, ⟨_, c5⟩, ⟨_, c6⟩⟩
  unfold rowN at hd
  exact List.mem_of_find?_eq_some hd

theorem cell_vout (s : SSys α) (hwf : TreeWF s) (hnames : NamesDistinct s)
    (ph : String) (ta : α) (v i : Vec α) (st : St) (n : Nat) (nd : SNode α) (hn : s.node? n = some nd) :
    cell s (s.phaseTable ph ta v i st) (·.vout) n = vget v n := by
  obtain ⟨r, hr, _, _, _, c, _⟩ := row_of_node s hwf hnames ph ta v i st n nd hn
  unfold cell; rw [hr]; simp [c]

theorem cell_iin (s : SSys α) (hwf : TreeWF s) (hnames : NamesDistinct s)
    (ph : String) (ta : α) (v i : Vec α) (st : St) (n : Nat) (nd : SNode α) (hn : s.node? n = some nd) :
    cell s (s.phaseTable ph ta v i st) (·.iin) n = vget i n := by
  obtain ⟨r, hr, _, _, _, _, c, _⟩ := row_of_node s hwf hnames ph ta v i st n nd hn
  unfold cell; rw [hr]; simp [c]

/-- the Vin / Vout / Iin / Iout / Power / Loss cells of the row of a live node are numbers (so `cell` never falls
    back on its default) -/
theorem cell_some (s : SSys α) (hwf : TreeWF s) (hnames : NamesDistinct s)
    (ph : String) (ta : α) (v i : Vec α) (st : St) (n : Nat) (nd : SNode α) (hn : s.node? n = some nd) :
    ∃ r, rowN s (s.phaseTable ph ta v i st) n = some r ∧
      r.vin = some (cell s (s.phaseTable ph ta v i st) (·.vin) n) ∧
      r.vout = some (cell s (s.phaseTable ph ta v i st) (·.vout) n) ∧
      r.iin = some (cell s (s.phaseTable ph ta v i st) (·.iin) n) ∧
      r.iout = some (cell s (s.phaseTable ph ta v i st) (·.iout) n) ∧
      r.pwr = some (cell s (s.phaseTable ph ta v i st) (·.pwr) n) ∧
      r.loss = some (cell s (s.phaseTable ph ta v i st) (·.loss) n) := by
  obtain ⟨r, hr, _, _, _, c2, c3, ⟨x1, c1⟩, ⟨x4, c4⟩, ⟨x5, c5⟩, ⟨x6, c6⟩⟩ :=
    row_of_node s hwf hnames ph ta v i st n nd hn
  refine ⟨r, hr, ?_, ?_, ?_, ?_, ?_, ?_⟩ <;> (unfold cell; rw [hr]; simp [c1, c2, c3, c4, c5, c6])

/-! ### 2. liveness of an input, read off the table -/

/-- input `p` is live: the Vout cell of its row is a non-zero number, and `p` is not flagged off -/
def LiveRow (s : SSys α) (T : PhaseTable α) (st : St) (p : Nat) : Prop :=
  (∃ r x, rowN s T p = some r ∧ r.vout = some x ∧ x ≠ 0) ∧ sget st p = false

/-- the row of `m` names the row of `p` as its supply: Parent, Rail in, Vin -/
def Reports (s : SSys α) (T : PhaseTable α) (m p : Nat) : Prop :=
  ∃ rm rp x, rowN s T m = some rm ∧ rowN s T p = some rp ∧ rm.parent = rp.name ∧
    rm.railIn = (if rp.name = "" then "" else rp.railOut) ∧ rp.vout = some x ∧ rm.vin = some x

/-- `LiveRow` is exactly what `_get_pri_inp` tests on the solver's vectors -/
theorem liveRow_iff (s : SSys α) (hwf : TreeWF s) (hnames : NamesDistinct s)
    (ph : String) (ta : α) (v i : Vec α) (st : St) (p : Nat) (pd : SNode α) (hp : s.node? p = some pd) :
    LiveRow s (s.phaseTable ph ta v i st) st p ↔ (sget st p = false ∧ vget v p ≠ 0) := by
  obtain ⟨r, hr, _, _, _, c, _⟩ := row_of_node s hwf hnames ph ta v i st p pd hp
  unfold LiveRow
  constructor
  · rintro ⟨⟨r', x, h1, h2, h3⟩, h4⟩
    rw [hr] at h1
    cases h1
    rw [c] at h2
    cases h2
    exact ⟨h4, h3⟩
  · rintro ⟨h4, h3⟩
    exact ⟨⟨r, _, hr, c, h3⟩, h4⟩

/-- with the flag invariant of a steady state, live = "Vout cell is not 0" -/
theorem liveRow_iff_vout (s : SSys α) (hwf : TreeWF s) (hnames : NamesDistinct s)
    (ph : String) (ta : α) (v i : Vec α) (st : St) (hst : Steady s ph v i st)
    (p : Nat) (pd : SNode α) (hp : s.node? p = some pd) :
    LiveRow s (s.phaseTable ph ta v i st) st p ↔ cell s (s.phaseTable ph ta v i st) (·.vout) p ≠ 0 := by
  rw [liveRow_iff s hwf hnames ph ta v i st p pd hp, cell_vout s hwf hnames ph ta v i st p pd hp]
  constructor
  · exact fun h => h.2
  · intro h
    refine ⟨?_, h⟩
    cases hf : sget st p with
    | false => rfl
    | true => exact absurd (hst.flag p hf) h

/-- `C05.Live` on the lists the solver builds for the mux = `LiveRow` of the input at that index -/
theorem live_index_iff (s : SSys α) (hwf : TreeWF s) (hnames : NamesDistinct s)
    (ph : String) (ta : α) (v i : Vec α) (st : St) (m : Nat) (md : SNode α) (hm : s.node? m = some md) (j : Nat) :
    C05.Live (md.parents.map (sget st)) (md.parents.map (vget v)) j ↔
      ∃ p, md.parents[j]? = some p ∧ LiveRow s (s.phaseTable ph ta v i st) st p := by
  unfold C05.Live
  constructor
  · rintro ⟨o, x, h1, h2, h3, h4⟩
    rw [List.getElem?_map] at h1 h2
    obtain ⟨p, hp, rfl⟩ := Option.map_eq_some_iff.mp h1
    obtain ⟨p', hp', rfl⟩ := Option.map_eq_some_iff.mp h2
    rw [hp] at hp'
    cases hp'
    obtain ⟨pd, hpd⟩ := Option.isSome_iff_exists.mp (hwf.parLive m md hm p (List.mem_of_getElem? hp))
    exact ⟨p, hp, (liveRow_iff s hwf hnames ph ta v i st p pd hpd).mpr ⟨h3, h4⟩⟩
  · rintro ⟨p, hp, hl⟩
    obtain ⟨pd, hpd⟩ := Option.isSome_iff_exists.mp (hwf.parLive m md hm p (List.mem_of_getElem? hp))
    obtain ⟨h3, h4⟩ := (liveRow_iff s hwf hnames ph ta v i st p pd hpd).mp hl
    exact ⟨sget st p, vget v p, by rw [List.getElem?_map, hp]; rfl, by rw [List.getElem?_map, hp]; rfl, h3, h4⟩

/-- the first live input in the table is the input `_get_pri_inp` selects -/
theorem pri_of_first_live (s : SSys α) (hwf : TreeWF s) (hnames : NamesDistinct s)
    (ph : String) (ta : α) (v i : Vec α) (st : St) (m : Nat) (md : SNode α) (hm : s.node? m = some md)
    (j p : Nat) (hj : md.parents[j]? = some p) (hlive : LiveRow s (s.phaseTable ph ta v i st) st p)
    (hfirst : ∀ q pq, q < j → md.parents[q]? = some pq → ¬ LiveRow s (s.phaseTable ph ta v i st) st pq) :
    priInpAux (md.parents.map (sget st)) (md.parents.map (vget v)) 0 = some j := by
  apply ((C05.pri_first_live _ _).1 j).mpr
  refine ⟨(live_index_iff s hwf hnames ph ta v i st m md hm j).mpr ⟨p, hj, hlive⟩, ?_⟩
  intro q hq hl
  obtain ⟨pq, hpq, hlq⟩ := (live_index_iff s hwf hnames ph ta v i st m md hm q).mp hl
  exact hfirst q pq hq hpq hlq

theorem pri_none_of_no_live (s : SSys α) (hwf : TreeWF s) (hnames : NamesDistinct s)
    (ph : String) (ta : α) (v i : Vec α) (st : St) (m : Nat) (md : SNode α) (hm : s.node? m = some md)
    (hnone : ∀ p ∈ md.parents, ¬ LiveRow s (s.phaseTable ph ta v i st) st p) :
    priInpAux (md.parents.map (sget st)) (md.parents.map (vget v)) 0 = none := by
  apply (C05.pri_first_live _ _).2.mpr
  intro j hl
  obtain ⟨p, hp, hlp⟩ := (live_index_iff s hwf hnames ph ta v i st m md hm j).mp hl
  exact hnone p (List.mem_of_getElem? hp) hlp

/-! ### 3. the mux row names the selected input -/

/-- the row `compRow` builds for a PMux whose priority scan returns `k` -/
theorem mux_compRow_sel (s : SSys α) (hw : C16R.TableWF s) (ph : String) (ta : α) (v i : Vec α) (st : St)
    (m : Nat) (md : SNode α) (hm : s.node? m = some md) (hk : md.comp.kind = .pmux) (k : Nat)
    (hsel : priInpAux (md.parents.map (sget st)) (md.parents.map (vget v)) 0 = some k)
    (p : Nat) (pd : SNode α) (hp : md.parents[k]? = some p) (hpd : s.node? p = some pd) (d : String) :
    (s.compRow ph ta v i st m d).1.parent = pd.comp.name ∧
    (s.compRow ph ta v i st m d).1.railIn = (if pd.comp.name = "" then "" else pd.rail) ∧
    (s.compRow ph ta v i st m d).1.vin = some (vget v p) := by
  have hne : md.parents.isEmpty = false := by
    cases hpp : md.parents with
    | nil => rw [hpp] at hp; simp at hp
    | cons a l => rfl
  have hgetD : md.parents.getD k 0 = p := by simp [List.getD, hp]
  have hpri : md.comp.priInp (md.parents.map (sget st)) (md.parents.map (vget v)) = some k := by
    unfold Comp.priInp; simp only [hk]; exact hsel
  have hselOf : C16R.selOf md m v st = some p := by
    unfold C16R.selOf
    simp only [hne, Bool.false_eq_true, if_false, hpri]
    by_cases hlen : md.parents.length > 1
    · simp only [hlen, if_true, hgetD]
    · simp only [hlen, if_false]
      cases hpp : md.parents with
      | nil => rw [hpp] at hp; simp at hp
      | cons a l =>
        cases l with
        | nil =>
          rw [hpp] at hp
          cases k with
          | zero => simpa using hp
          | succ k' => simp at hp
        | cons b l' => rw [hpp] at hlen; simp at hlen
  have hpn : C16R.pnOf s md m v st = pd.comp.name := by
    have hname : s.nameOf p = pd.comp.name := by unfold SSys.nameOf; simp only [hpd]
    unfold C16R.pnOf
    simp only [hne, Bool.false_eq_true, if_false]
    by_cases hms : C16R.muxSelOf md m v st = true
    · simp only [hms, if_true, hselOf, Option.getD_some, hname]
    · simp only [hms, Bool.false_eq_true, if_false]
      -- then the mux has one input
      have hlen : ¬ md.parents.length > 1 := by
        intro hlen
        apply hms
        unfold C16R.muxSelOf
        simp only [hne, Bool.false_eq_true, if_false, hpri, hlen]
        rfl
      cases hpp : md.parents with
      | nil => rw [hpp] at hp; simp at hp
      | cons a l =>
        cases l with
        | nil =>
          rw [hpp] at hp
          cases k with
          | zero =>
            simp only [List.getElem?_cons_zero, Option.some.injEq] at hp
            unfold SSys.parentName
            simp only [hm, hpp, hp, hname]
          | succ k' => simp at hp
        | cons b l' => rw [hpp] at hlen; simp at hlen
  rw [C16R.compRow_eq s ph ta v i st hm d]
  simp only [C16R.mkRow, hpn]
  refine ⟨trivial, ?_, ?_⟩
  · unfold C16R.railInOf
    by_cases he : pd.comp.name = ""
    · simp [he]
    · have : (pd.comp.name != "") = true := by simpa using he
      simp only [this, if_true, C16R.find?_name hw hpd, he, if_false]
  · unfold C16R.viOf
    rw [hselOf]

/-- **(1) The mux row reports the first live input.**  For ANY vectors `(v, i, st)`: if input `p_j` of the PMux `m`
    is live in the table (`LiveRow`) and no input before it is, then the row of `m` shows the Name of `p_j`'s row as
    Parent, its Rail out as Rail in (blank if the name is blank) and its Vout cell as Vin. -/
theorem selected_is_first_live (s : SSys α) (hwf : TreeWF s) (hnames : NamesDistinct s)
    (ph : String) (ta : α) (v i : Vec α) (st : St) (m : Nat) (md : SNode α) (hm : s.node? m = some md)
    (hk : md.comp.kind = .pmux) (j p : Nat) (hj : md.parents[j]? = some p)
    (hlive : LiveRow s (s.phaseTable ph ta v i st) st p)
    (hfirst : ∀ q pq, q < j → md.parents[q]? = some pq → ¬ LiveRow s (s.phaseTable ph ta v i st) st pq) :
    Reports s (s.phaseTable ph ta v i st) m p := by
  have hsel := pri_of_first_live s hwf hnames ph ta v i st m md hm j p hj hlive hfirst
  obtain ⟨pd, hpd⟩ := Option.isSome_iff_exists.mp (hwf.parLive m md hm p (List.mem_of_getElem? hj))
  obtain ⟨d, hd⟩ := rowN_eq s hwf hnames ph ta v i st m md hm
  obtain ⟨rp, hrp, _, n2, n3, c2, _⟩ := row_of_node s hwf hnames ph ta v i st p pd hpd
  obtain ⟨e1, e2, e3⟩ := mux_compRow_sel s (tableWF_of s hwf hnames) ph ta v i st m md hm hk j hsel p pd hj hpd d
  exact ⟨_, rp, vget v p, hd, hrp, by rw [e1, n2], by rw [e2, n2, n3], c2, e3⟩

/-! ### 4. currents in a steady state -/

theorem steady4 {s : SSys α} {ph : String} {v i : Vec α} {st : St} (hst : Steady s ph v i st) :
    C04.Steady s ph v i st := by
  obtain ⟨st', hf⟩ := hst.fwd
  exact C04.steady_of_sweeps s ph v i st st' hf hst.back

/-- a Source in a local steady state delivers what is drawn from it, unless it is dead (then 0 A at 0 V) -/
theorem source_curr (c : Comp α) (hk : c.kind = .source) (vold io : α) (ph : PhaseCtx α) (off : List Bool)
    (vn ii : α) (b' : Bool) (hfwd : c.solvOutpVolt [vold] io ph off = .ok (vn, b'))
    (hback : c.solvInpCurr [vold] io ph off = ii) : ii = io ∨ (ii = 0 ∧ vn = 0) := by
  unfold Comp.solvOutpVolt at hfwd
  unfold Comp.solvInpCurr calcInpCurrent at hback
  simp only [hk] at hfwd hback
  cases hina : ph.inactive with
  | true =>
    simp only [hina, if_true, Except.ok.injEq, Prod.mk.injEq] at hfwd hback
    exact Or.inr ⟨hback.symm, hfwd.1.symm⟩
  | false =>
    simp only [hina, Bool.false_eq_true, if_false] at hfwd hback
    by_cases hd : (isZ c.vo || off0 off) = true
    · simp only [hd, if_true, Except.ok.injEq, Prod.mk.injEq] at hfwd hback
      exact Or.inr ⟨hback.symm, hfwd.1.symm⟩
    · simp only [hd, Bool.false_eq_true, if_false] at hback
      exact Or.inl hback.symm

/-- **Iout cell = what the children draw**, for every live node of a steady state — a Source row shows its own
    current, which is that sum when the source is alive and 0 = that sum when it is dead -/
theorem iout_eq_ioOf (s : SSys α) (hwf : TreeWF s) (ph : String) (ta : α) (v i : Vec α) (st : St)
    (hst : Steady s ph v i st) (n : Nat) (nd : SNode α) (hn : s.node? n = some nd) (d : String) :
    (s.compRow ph ta v i st n d).1.iout = some (ioOf s nd n v i st) := by
  by_cases hpar : nd.parents = []
  · obtain ⟨_, _, _, _, c5, _⟩ := compRow_root s ph ta v i st n nd hn hpar d
    rw [c5]
    congr 1
    have hsrc := (hwf.rootSrc n nd hn).mp hpar
    obtain ⟨⟨b, hf⟩, hbk⟩ := steady_cell s ph v i st hwf.bound hst n (mem_of_node s hwf n nd hn)
    unfold SSys.fwdAt SSys.lawArgs at hf
    unfold SSys.backAt SSys.lawArgs at hbk
    simp only [hn, hpar, List.isEmpty_nil, if_true] at hf hbk
    rcases source_curr nd.comp hsrc _ _ _ _ _ _ b hf hbk with h | ⟨h1, h2⟩
    · exact h
    · rw [h1]
      symm
      unfold ioOf
      split_ifs
      · rfl
      · exact C04.childCurr_dead s ph v i st (steady4 hst) n h2 (C14S.childsOK_of_treeWF hwf n)
  · obtain ⟨VI, IO, _, _, _, c4, _, _, _, c8⟩ := compRow_consistent s ph ta v i st n nd hn d
    rw [c4, c8 hpar]

theorem cell_iout_eq_ioOf (s : SSys α) (hwf : TreeWF s) (hnames : NamesDistinct s)
    (ph : String) (ta : α) (v i : Vec α) (st : St) (hst : Steady s ph v i st)
    (n : Nat) (nd : SNode α) (hn : s.node? n = some nd) :
    cell s (s.phaseTable ph ta v i st) (·.iout) n = ioOf s nd n v i st := by
  obtain ⟨d, hd⟩ := rowN_eq s hwf hnames ph ta v i st n nd hn
  unfold cell
  rw [hd]
  simp [iout_eq_ioOf s hwf ph ta v i st hst n nd hn d]

/-- a child of `p` other than the (one) PMux `m` is fed by `p` alone: its whole input current counts -/
theorem share_other (s : SSys α) (hwf : TreeWF s) (h1 : OneMux s) (i v : Vec α) (st : St)
    (m : Nat) (md : SNode α) (hm : s.node? m = some md) (hk : md.comp.kind = .pmux)
    (p : Nat) (pd : SNode α) (hp : s.node? p = some pd) (c : Nat) (hc : c ∈ pd.childs) (hcm : c ≠ m) :
    s.childShare p i v st c = vget i c := by
  obtain ⟨cd, hcd⟩ := Option.isSome_iff_exists.mp (hwf.chLive p pd hp c hc)
  have hin : p ∈ cd.parents := (hwf.link p c pd cd hp hcd).mp hc
  have hck : cd.comp.kind ≠ .pmux := fun e => hcm (h1 c m cd md hcd hm e hk)
  rcases parents_cases' s hwf c cd hcd hck with h0 | ⟨q, hq⟩
  · rw [h0] at hin; cases hin
  · rw [hq] at hin
    simp only [List.mem_singleton] at hin
    subst hin
    exact C05.single_parent_share s i v st c cd hcd p hq p

/-- the mux's contribution to the output current of its input `pq`, when the scan selects index `k` -/
theorem share_mux_some (s : SSys α) (i v : Vec α) (st : St) (m : Nat) (md : SNode α) (hm : s.node? m = some md)
    (hk : md.comp.kind = .pmux) (k : Nat)
    (hsel : priInpAux (md.parents.map (sget st)) (md.parents.map (vget v)) 0 = some k)
    (pq : Nat) (hpq : pq ∈ md.parents) :
    s.childShare pq i v st m = if md.parents.getD k 0 = pq then vget i m else 0 := by
  by_cases hlen : md.parents.length > 1
  · exact C05.mux_current_attribution s i v st m md hm hk hlen k hsel pq
  · cases hpp : md.parents with
    | nil => rw [hpp] at hpq; cases hpq
    | cons a l =>
      cases l with
      | nil =>
        rw [hpp] at hpq
        simp only [List.mem_singleton] at hpq
        subst hpq
        obtain ⟨hlt, _, _, _⟩ := pri_some_spec _ _ k hsel
        rw [hpp] at hlt
        simp only [List.map_cons, List.map_nil, List.length_cons, List.length_nil] at hlt
        have hk0 : k = 0 := by omega
        subst hk0
        rw [C05.single_parent_share s i v st m md hm pq hpp pq]
        simp
      | cons b l' => rw [hpp] at hlen; simp at hlen

/-- … and when no input is live (then the mux draws nothing in a steady state) -/
theorem mux_dead_curr (s : SSys α) (hwf : TreeWF s) (ph : String) (v i : Vec α) (st : St)
    (hst : Steady s ph v i st) (m : Nat) (md : SNode α) (hm : s.node? m = some md) (hk : md.comp.kind = .pmux)
    (hsel : priInpAux (md.parents.map (sget st)) (md.parents.map (vget v)) 0 = none) :
    vget v m = 0 ∧ vget i m = 0 := by
  obtain ⟨⟨b, hf⟩, hbk⟩ := steady_cell s ph v i st hwf.bound hst m (mem_of_node s hwf m md hm)
  have hne : md.parents.isEmpty = false := by
    cases hpp : md.parents with
    | nil => exact absurd hpp (mux_parents_ne s hwf m md hm hk)
    | cons a l => rfl
  unfold SSys.fwdAt SSys.lawArgs at hf
  unfold SSys.backAt SSys.lawArgs at hbk
  simp only [hm, hne, Bool.false_eq_true, if_false] at hf hbk
  obtain ⟨h1, h2⟩ := C04.mux_no_live md.comp hk (md.parents.map (vget v))
    (if md.childs.isEmpty then 0 else s.childCurr m i v st) (md.pconf.ctx ph) (md.parents.map (sget st)) hsel
  rw [h1] at hf
  simp only [Except.ok.injEq, Prod.mk.injEq] at hf
  exact ⟨hf.1.symm, by rw [← hbk, h2]⟩

theorem share_mux_none (s : SSys α) (i v : Vec α) (st : St) (m : Nat) (md : SNode α) (hm : s.node? m = some md)
    (hk : md.comp.kind = .pmux)
    (hsel : priInpAux (md.parents.map (sget st)) (md.parents.map (vget v)) 0 = none) (pq : Nat) :
    s.childShare pq i v st m = vget i m := by
  unfold SSys.childShare Comp.priInp
  simp only [hm, hk, hsel]

/-- output current of a mux input = the mux's share + the input currents of its other children -/
theorem input_ioOf (s : SSys α) (hwf : TreeWF s) (h1 : OneMux s) (v i : Vec α) (st : St)
    (m : Nat) (md : SNode α) (hm : s.node? m = some md) (hk : md.comp.kind = .pmux)
    (pq : Nat) (pqd : SNode α) (hpq : pq ∈ md.parents) (hpqd : s.node? pq = some pqd) :
    ioOf s pqd pq v i st = s.childShare pq i v st m + ((pqd.childs.filter (· != m)).map (vget i)).sum := by
  have hmc : m ∈ pqd.childs := (hwf.link pq m pqd md hpqd hm).mpr hpq
  rw [ioOf_eq_sum s pqd pq hpqd, sum_split_mem pqd.childs (hwf.chNodup pq pqd hpqd) m hmc]
  congr 1
  congr 1
  apply List.map_congr_left
  intro c hc
  obtain ⟨hc1, hc2⟩ := List.mem_filter.mp hc
  exact share_other s hwf h1 i v st m md hm hk pq pqd hpqd c hc1 (by simpa using hc2)

/-- Σ Iin cells of the rows of the children of `p` other than `m` -/
def otherKidsIin (s : SSys α) (T : PhaseTable α) (m p : Nat) : α :=
  match s.node? p with
  | some pd => ((pd.childs.filter (· != m)).map (cell s T (·.iin))).sum
  | none => 0

theorem otherKidsIin_eq (s : SSys α) (hwf : TreeWF s) (hnames : NamesDistinct s)
    (ph : String) (ta : α) (v i : Vec α) (st : St) (m p : Nat) (pd : SNode α) (hp : s.node? p = some pd) :
    otherKidsIin s (s.phaseTable ph ta v i st) m p = ((pd.childs.filter (· != m)).map (vget i)).sum := by
  unfold otherKidsIin
  simp only [hp]
  congr 1
  apply List.map_congr_left
  intro c hc
  obtain ⟨cd, hcd⟩ := Option.isSome_iff_exists.mp (hwf.chLive p pd hp c (List.mem_filter.mp hc).1)
  exact cell_iin s hwf hnames ph ta v i st c cd hcd

/-- **Iout of a mux input, unified.**  Steady state, `p_j` the first live input of the PMux `m`: for every input
    `pq` of the mux, Iout(pq) = (Iin(mux) if `pq` is `p_j`, else 0) + Σ Iin of `pq`'s other children. -/
theorem input_iout (s : SSys α) (hwf : TreeWF s) (hnames : NamesDistinct s) (h1 : OneMux s)
    (ph : String) (ta : α) (v i : Vec α) (st : St) (hst : Steady s ph v i st)
    (m : Nat) (md : SNode α) (hm : s.node? m = some md) (hk : md.comp.kind = .pmux)
    (j p : Nat) (hj : md.parents[j]? = some p) (hlive : LiveRow s (s.phaseTable ph ta v i st) st p)
    (hfirst : ∀ q pq, q < j → md.parents[q]? = some pq → ¬ LiveRow s (s.phaseTable ph ta v i st) st pq)
    (pq : Nat) (hpq : pq ∈ md.parents) :
    cell s (s.phaseTable ph ta v i st) (·.iout) pq =
      (if p = pq then cell s (s.phaseTable ph ta v i st) (·.iin) m else 0)
        + otherKidsIin s (s.phaseTable ph ta v i st) m pq := by
  have hsel := pri_of_first_live s hwf hnames ph ta v i st m md hm j p hj hlive hfirst
  obtain ⟨pqd, hpqd⟩ := Option.isSome_iff_exists.mp (hwf.parLive m md hm pq hpq)
  have hgetD : md.parents.getD j 0 = p := by simp [List.getD, hj]
  rw [cell_iout_eq_ioOf s hwf hnames ph ta v i st hst pq pqd hpqd,
    otherKidsIin_eq s hwf hnames ph ta v i st m pq pqd hpqd, cell_iin s hwf hnames ph ta v i st m md hm,
    input_ioOf s hwf h1 v i st m md hm hk pq pqd hpq hpqd, share_mux_some s i v st m md hm hk j hsel pq hpq, hgetD]

/-- **(2) The mux's input current goes to the selected input only.**  Steady state, `p_j` the first live input:
    Iout(p_j) = Iin(mux) + Σ Iin of p_j's other children; every other input `pq`: Iout(pq) = Σ Iin of its other
    children (the mux contributes nothing). -/
theorem mux_current_goes_to_selected (s : SSys α) (hwf : TreeWF s) (hnames : NamesDistinct s) (h1 : OneMux s)
    (ph : String) (ta : α) (v i : Vec α) (st : St) (hst : Steady s ph v i st)
    (m : Nat) (md : SNode α) (hm : s.node? m = some md) (hk : md.comp.kind = .pmux)
    (j p : Nat) (hj : md.parents[j]? = some p) (hlive : LiveRow s (s.phaseTable ph ta v i st) st p)
    (hfirst : ∀ q pq, q < j → md.parents[q]? = some pq → ¬ LiveRow s (s.phaseTable ph ta v i st) st pq) :
    cell s (s.phaseTable ph ta v i st) (·.iout) p =
      cell s (s.phaseTable ph ta v i st) (·.iin) m + otherKidsIin s (s.phaseTable ph ta v i st) m p ∧
    ∀ q pq, q ≠ j → md.parents[q]? = some pq →
      cell s (s.phaseTable ph ta v i st) (·.iout) pq = otherKidsIin s (s.phaseTable ph ta v i st) m pq := by
  have key := input_iout s hwf hnames h1 ph ta v i st hst m md hm hk j p hj hlive hfirst
  constructor
  · have := key p (List.mem_of_getElem? hj)
    simpa using this
  · intro q pq hq hpq
    have hne : p ≠ pq := by
      intro e
      subst e
      have hnd := hwf.parNodup m md hm
      have hjl : j < md.parents.length := by
        by_contra hh; rw [List.getElem?_eq_none (by omega)] at hj; cases hj
      have hql : q < md.parents.length := by
        by_contra hh; rw [List.getElem?_eq_none (by omega)] at hpq; cases hpq
      rw [List.getElem?_eq_getElem hjl] at hj
      rw [List.getElem?_eq_getElem hql] at hpq
      have := (List.Nodup.getElem_inj_iff hnd).mp ((Option.some.inj hj).trans (Option.some.inj hpq).symm)
      exact hq this.symm
    have := key pq (List.mem_of_getElem? hpq)
    rw [if_neg hne, zero_add] at this
    exact this

/-- Σ over the inputs of the mux's share = the mux's input current, in every steady state -/
theorem shares_sum (s : SSys α) (hwf : TreeWF s) (ph : String) (v i : Vec α) (st : St)
    (hst : Steady s ph v i st) (m : Nat) (md : SNode α) (hm : s.node? m = some md) (hk : md.comp.kind = .pmux) :
    (md.parents.map fun pq => s.childShare pq i v st m).sum = vget i m := by
  cases hsel : priInpAux (md.parents.map (sget st)) (md.parents.map (vget v)) 0 with
  | none =>
    obtain ⟨_, hi0⟩ := mux_dead_curr s hwf ph v i st hst m md hm hk hsel
    rw [hi0]
    apply List.sum_eq_zero
    intro x hx
    obtain ⟨pq, _, rfl⟩ := List.mem_map.mp hx
    rw [share_mux_none s i v st m md hm hk hsel pq, hi0]
  | some k =>
    obtain ⟨hlt, _, _, _⟩ := pri_some_spec _ _ k hsel
    rw [List.length_map] at hlt
    have hmem := getD_mem_of_lt md.parents k hlt
    rw [← sum_ite_mem_nat md.parents (hwf.parNodup m md hm) (md.parents.getD k 0) hmem (vget i m)]
    congr 1
    apply List.map_congr_left
    intro pq hpq
    exact share_mux_some s i v st m md hm hk k hsel pq hpq

/-- **(2′) The mux's input current is conserved over its inputs**: in EVERY steady state (live input or not),
    Σ over the inputs of (Iout − Σ Iin of the input's other children) = Iin of the mux row. -/
theorem mux_current_conserved (s : SSys α) (hwf : TreeWF s) (hnames : NamesDistinct s) (h1 : OneMux s)
    (ph : String) (ta : α) (v i : Vec α) (st : St) (hst : Steady s ph v i st)
    (m : Nat) (md : SNode α) (hm : s.node? m = some md) (hk : md.comp.kind = .pmux) :
    (md.parents.map fun pq => cell s (s.phaseTable ph ta v i st) (·.iout) pq
        - otherKidsIin s (s.phaseTable ph ta v i st) m pq).sum
      = cell s (s.phaseTable ph ta v i st) (·.iin) m := by
  rw [cell_iin s hwf hnames ph ta v i st m md hm, ← shares_sum s hwf ph v i st hst m md hm hk]
  congr 1
  apply List.map_congr_left
  intro pq hpq
  obtain ⟨pqd, hpqd⟩ := Option.isSome_iff_exists.mp (hwf.parLive m md hm pq hpq)
  rw [cell_iout_eq_ioOf s hwf hnames ph ta v i st hst pq pqd hpqd,
    otherKidsIin_eq s hwf hnames ph ta v i st m pq pqd hpqd,
    input_ioOf s hwf h1 v i st m md hm hk pq pqd hpq hpqd]
  ring

/-! ### 5. no live input -/

/-- a node `k` single-supply levels below `m` is `m` itself or below whatever `m` is below -/
theorem depth_below (s : SSys α) (v : Vec α) (d m : Nat) (hb : C04.Below s v d m) :
    ∀ n k, C04.Depth s m n k → n = m ∨ C04.Below s v d n := by
  intro n k h
  induction h with
  | top => exact Or.inl rfl
  | down hs _ ih =>
    rcases ih with e | hb'
    · subst e; exact Or.inr (C04.Below.step hs hb)
    · exact Or.inr (C04.Below.step hs hb')

/-- **(3) No live input ⇒ everything from the mux down is zero, and no input sees the mux.**  Steady state in
    which no input of the PMux `m` is live in the table.  Then (a) the row of `m` and of every node `n` that lies any
    number `k` of single-supply levels below `m` (`C04.Depth s m n k`; `k = 0` is the mux itself) shows
    Vin = Vout = Iin = Iout = Power = Loss = 0, and (b) the Iout cell of every input is the sum of the Iin cells of
    its other children. -/
theorem no_live_input_all_zero (s : SSys α) (hwf : TreeWF s) (hnames : NamesDistinct s) (h1 : OneMux s)
    (ph : String) (ta : α) (v i : Vec α) (st : St) (hst : Steady s ph v i st)
    (m : Nat) (md : SNode α) (hm : s.node? m = some md) (hk : md.comp.kind = .pmux)
    (hnone : ∀ p ∈ md.parents, ¬ LiveRow s (s.phaseTable ph ta v i st) st p) :
    (∀ n k, C04.Depth s m n k → ∃ r, rowN s (s.phaseTable ph ta v i st) n = some r ∧
        r.vin = some 0 ∧ r.vout = some 0 ∧ r.iin = some 0 ∧ r.iout = some 0 ∧ r.pwr = some 0 ∧ r.loss = some 0) ∧
    (∀ pq ∈ md.parents,
        cell s (s.phaseTable ph ta v i st) (·.iout) pq = otherKidsIin s (s.phaseTable ph ta v i st) m pq) := by
  have hsel := pri_none_of_no_live s hwf hnames ph ta v i st m md hm hnone
  have hall : ∀ p ∈ md.parents, vget v p = 0 := by
    intro p hp
    obtain ⟨pd, hpd⟩ := Option.isSome_iff_exists.mp (hwf.parLive m md hm p hp)
    have := hnone p hp
    rw [liveRow_iff s hwf hnames ph ta v i st p pd hpd] at this
    cases hf : sget st p with
    | true => exact hst.flag p hf
    | false =>
      by_contra hne
      exact this ⟨hf, hne⟩
  constructor
  · cases hpp : md.parents with
    | nil => exact absurd hpp (mux_parents_ne s hwf m md hm hk)
    | cons a l =>
      have ha : a ∈ md.parents := by rw [hpp]; simp
      have hbm : C04.Below s v a m :=
        C04.Below.mux_of_or (mem_of_node s hwf m md hm) hm hk ha (Or.inl rfl)
          (fun p hp => Or.inr (Or.inr (hall p hp)))
      intro n k hd
      have hbn : C04.Below s v a n := by
        rcases depth_below s v a m hbm n k hd with e | h
        · rw [e]; exact hbm
        · exact h
      obtain ⟨nd, hnd, _⟩ := C04.Below.node_facts s ph v i st (steady4 hst) a (hall a ha) n hbn
      obtain ⟨d, hd'⟩ := rowN_eq s hwf hnames ph ta v i st n nd hnd
      exact ⟨_, hd', C04.dead_rows s ph ta v i st (steady4 hst) a (hall a ha) n hbn
        (C14S.childsOK_of_treeWF hwf n) d⟩
  · intro pq hpq
    obtain ⟨pqd, hpqd⟩ := Option.isSome_iff_exists.mp (hwf.parLive m md hm pq hpq)
    rw [cell_iout_eq_ioOf s hwf hnames ph ta v i st hst pq pqd hpqd,
      otherKidsIin_eq s hwf hnames ph ta v i st m pq pqd hpqd,
      input_ioOf s hwf h1 v i st m md hm hk pq pqd hpq hpqd, share_mux_none s i v st m md hm hk hsel pq,
      (mux_dead_curr s hwf ph v i st hst m md hm hk hsel).2, zero_add]

/-- `n` is `m` or a descendant of `m` along the child lists -/
inductive Under (s : SSys α) (m : Nat) : Nat → Prop
  | top : Under s m m
  | kid {p c : Nat} {pd : SNode α} : Under s m p → s.node? p = some pd → c ∈ pd.childs → Under s m c

theorem under_idx (s : SSys α) (hwf : TreeWF s) (m n : Nat) (h : Under s m n) :
    s.topo.idxOf m ≤ s.topo.idxOf n := by
  induction h with
  | top => exact le_refl _
  | kid _ hpd hc ih => exact le_of_lt (lt_of_le_of_lt ih (hwf.order _ _ _ hpd hc))

/-- in a well-formed tree with one PMux, everything under the mux hangs on single-supply links: the descendants
    of `m` are exactly the nodes at some `C04.Depth` below it -/
theorem depth_of_under (s : SSys α) (hwf : TreeWF s) (h1 : OneMux s)
    (m : Nat) (md : SNode α) (hm : s.node? m = some md) (hk : md.comp.kind = .pmux) (n : Nat) (h : Under s m n) :
    ∃ k, C04.Depth s m n k := by
  induction h with
  | top => exact ⟨0, C04.Depth.top⟩
  | @kid p c pd hu hpd hc ih =>
    obtain ⟨k, hk'⟩ := ih
    obtain ⟨cd, hcd⟩ := Option.isSome_iff_exists.mp (hwf.chLive p pd hpd c hc)
    have hin : p ∈ cd.parents := (hwf.link p c pd cd hpd hcd).mp hc
    have hnm : cd.comp.kind ≠ .pmux := by
      intro e
      have hcm : c = m := h1 c m cd md hcd hm e hk
      have h1' := under_idx s hwf m p hu
      have h2' := hwf.order p c pd hpd hc
      rw [hcm] at h2'
      omega
    have hns : cd.comp.kind ≠ .source := by
      intro e
      rw [(hwf.rootSrc c cd hcd).mpr e] at hin
      cases hin
    have hpar : cd.parents = [p] := by
      rcases parents_cases' s hwf c cd hcd hnm with h0 | ⟨q, hq⟩
      · rw [h0] at hin; cases hin
      · rw [hq] at hin
        simp only [List.mem_singleton] at hin
        rw [hq, hin]
    exact ⟨k + 1, C04.Depth.down ⟨cd, mem_of_node s hwf c cd hcd, hcd, hpar, hns, hnm⟩ hk'⟩

/-- **(3, all descendants).**  With no live input, the row of the mux and of EVERY descendant of the mux is all
    zero. -/
theorem no_live_input_descendants_zero (s : SSys α) (hwf : TreeWF s) (hnames : NamesDistinct s) (h1 : OneMux s)
    (ph : String) (ta : α) (v i : Vec α) (st : St) (hst : Steady s ph v i st)
    (m : Nat) (md : SNode α) (hm : s.node? m = some md) (hk : md.comp.kind = .pmux)
    (hnone : ∀ p ∈ md.parents, ¬ LiveRow s (s.phaseTable ph ta v i st) st p) (n : Nat) (hn : Under s m n) :
    ∃ r, rowN s (s.phaseTable ph ta v i st) n = some r ∧
      r.vin = some 0 ∧ r.vout = some 0 ∧ r.iin = some 0 ∧ r.iout = some 0 ∧ r.pwr = some 0 ∧ r.loss = some 0 := by
  obtain ⟨k, hd⟩ := depth_of_under s hwf h1 m md hm hk n hn
  exact (no_live_input_all_zero s hwf hnames h1 ph ta v i st hst m md hm hk hnone).1 n k hd

/-- what the mux row names when no input is live: the FIRST declared input (whose Vout cell is then 0) -/
theorem no_live_reports_first_declared (s : SSys α) (hwf : TreeWF s) (hnames : NamesDistinct s)
    (ph : String) (ta : α) (v i : Vec α) (st : St) (m : Nat) (md : SNode α) (hm : s.node? m = some md)
    (hk : md.comp.kind = .pmux)
    (hnone : ∀ p ∈ md.parents, ¬ LiveRow s (s.phaseTable ph ta v i st) st p)
    (a : Nat) (rest : List Nat) (hpar : md.parents = a :: rest) :
    Reports s (s.phaseTable ph ta v i st) m a := by
  have hsel := pri_none_of_no_live s hwf hnames ph ta v i st m md hm hnone
  have ha : a ∈ md.parents := by rw [hpar]; simp
  obtain ⟨ad, had⟩ := Option.isSome_iff_exists.mp (hwf.parLive m md hm a ha)
  obtain ⟨d, hd⟩ := rowN_eq s hwf hnames ph ta v i st m md hm
  obtain ⟨rp, hrp, _, n2, n3, c2, _⟩ := row_of_node s hwf hnames ph ta v i st a ad had
  have hne : md.parents.isEmpty = false := by rw [hpar]; rfl
  have hpri : md.comp.priInp (md.parents.map (sget st)) (md.parents.map (vget v)) = none := by
    unfold Comp.priInp; simp only [hk]; exact hsel
  have hselOf : C16R.selOf md m v st = some a := by
    unfold C16R.selOf
    simp only [hne, Bool.false_eq_true, if_false, hpri]
    rw [hpar]; rfl
  have hms : C16R.muxSelOf md m v st = false := by
    unfold C16R.muxSelOf
    simp only [hne, Bool.false_eq_true, if_false, hpri, Option.isSome_none, Bool.and_false]
  have hname : s.nameOf a = ad.comp.name := by unfold SSys.nameOf; simp only [had]
  have hpn : C16R.pnOf s md m v st = ad.comp.name := by
    unfold C16R.pnOf
    simp only [hne, Bool.false_eq_true, if_false, hms]
    unfold SSys.parentName
    simp only [hm]
    rw [hpar]
    exact hname
  refine ⟨_, rp, vget v a, hd, hrp, ?_, ?_, c2, ?_⟩
  · rw [C16R.compRow_eq s ph ta v i st hm d]
    simp only [C16R.mkRow, hpn, n2]
  · rw [C16R.compRow_eq s ph ta v i st hm d]
    simp only [C16R.mkRow, hpn, n2, n3]
    unfold C16R.railInOf
    by_cases he : ad.comp.name = ""
    · simp [he]
    · have : (ad.comp.name != "") = true := by simpa using he
      simp only [this, if_true, C16R.find?_name (tableWF_of s hwf hnames) had, he, if_false]
  · rw [C16R.compRow_eq s ph ta v i st hm d]
    simp only [C16R.mkRow]
    unfold C16R.viOf
    rw [hselOf]

/-! ### 6. fail-over goes to the next live input -/

/-- **(4) Selection is monotone.**  `T` and `T'` are the tables of two states (of one system in two phases, or of
    two systems — e.g. the second with a source at 0 V) whose PMux `m` has the same input list.  If the inputs
    before `j` are dead in `T` (so `j`, if live, is the selected one there), input `j` is dead in `T'`, every other
    input is live in `T'` exactly when it is in `T`, and `j'` is the next live input after `j` in `T`, then the
    mux row of `T'` reports `p_j'`. -/
theorem selection_monotone (s : SSys α) (T : PhaseTable α) (st : St)
    (s' : SSys α) (hwf' : TreeWF s') (hnames' : NamesDistinct s')
    (ph' : String) (ta' : α) (v' i' : Vec α) (st' : St)
    (m : Nat) (md' : SNode α) (hm' : s'.node? m = some md') (hk' : md'.comp.kind = .pmux)
    (j p : Nat) (hj : md'.parents[j]? = some p)
    (hfirst : ∀ q pq, q < j → md'.parents[q]? = some pq → ¬ LiveRow s T st pq)
    (hdead : ¬ LiveRow s' (s'.phaseTable ph' ta' v' i' st') st' p)
    (hsame : ∀ q pq, q ≠ j → md'.parents[q]? = some pq →
      (LiveRow s' (s'.phaseTable ph' ta' v' i' st') st' pq ↔ LiveRow s T st pq))
    (j' p' : Nat) (hjj : j < j') (hj' : md'.parents[j']? = some p') (hlive' : LiveRow s T st p')
    (hbetween : ∀ q pq, j < q → q < j' → md'.parents[q]? = some pq → ¬ LiveRow s T st pq) :
    Reports s' (s'.phaseTable ph' ta' v' i' st') m p' := by
  apply selected_is_first_live s' hwf' hnames' ph' ta' v' i' st' m md' hm' hk' j' p' hj'
    ((hsame j' p' (Nat.ne_of_gt hjj) hj').mpr hlive')
  intro q pq hq hpq
  rcases Nat.lt_trichotomy q j with h | h | h
  · exact fun hl => hfirst q pq h hpq ((hsame q pq (Nat.ne_of_lt h) hpq).mp hl)
  · subst h
    rw [hj] at hpq
    cases hpq
    exact hdead
  · exact fun hl => hbetween q pq h hq hpq ((hsame q pq (Nat.ne_of_gt h) hpq).mp hl)

/-! ### 7. the power identity of the mux row -/

/-- **(5) Power identity of the mux row.**  Steady state, accepted parameters (`Comp.Phys`: in particular
    `rs ≥ 0`), non-negative phase values: the row of the PMux has
    Power = |Vin·Iin|, Loss = Power − |Vout·Iout|, Loss ≥ 0 (and Iin, Iout ≥ 0). -/
theorem mux_row_power_identity (s : SSys α) (hwf : TreeWF s) (hnames : NamesDistinct s)
    (hphys : ∀ n nd, s.node? n = some nd → nd.comp.Phys)
    (ph : String) (hpv : ∀ n nd, s.node? n = some nd → PhaseValOK (nd.pconf.ctx ph))
    (ta : α) (v i : Vec α) (st : St) (hst : Steady s ph v i st)
    (m : Nat) (md : SNode α) (hm : s.node? m = some md) (hk : md.comp.kind = .pmux) :
    ∃ rm P L Vi Vo Ii Io, rowN s (s.phaseTable ph ta v i st) m = some rm ∧
      rm.pwr = some P ∧ rm.loss = some L ∧ rm.vin = some Vi ∧ rm.vout = some Vo ∧ rm.iin = some Ii ∧
      rm.iout = some Io ∧ P = |Vi * Ii| ∧ L = P - |Vo * Io| ∧ 0 ≤ L ∧ 0 ≤ Ii ∧ 0 ≤ Io := by
  have hi := steady_currents_nonneg s hwf hphys ph hpv v i st hst.back
  have hpne := mux_parents_ne s hwf m md hm hk
  obtain ⟨d, hd⟩ := rowN_eq s hwf hnames ph ta v i st m md hm
  obtain ⟨P, L, Vi, Vo, Ii, Io, e1, e2, e3, e4, e5, e6, f1, f2⟩ :=
    row_power_identity_mux s ph ta v i st hwf.bound hst hi m md (mem_of_node s hwf m md hm) hm hk hpne
      (hphys m md hm) d
  obtain ⟨VI, IO, _, _, c3, c4, _, _, _, c8⟩ := compRow_consistent s ph ta v i st m md hm d
  have hIi : 0 ≤ Ii := by
    rw [c3] at e5
    cases e5
    exact hi m
  have hIo : 0 ≤ Io := by
    rw [c4, c8 hpne] at e6
    cases e6
    exact ioOf_nonneg s md m hm v i st hi
  have hmem : (s.compRow ph ta v i st m d).1 ∈ s.compRows ph ta v i st := by
    have : (s.phaseTable ph ta v i st).comps = s.compRows ph ta v i st := rfl
    rw [← this]
    unfold rowN at hd
    exact List.mem_of_find?_eq_some hd
  obtain ⟨P', L', g1, g2, _, hL⟩ := rows_loss_nonneg s hwf hphys ph hpv ta v i st hst _ hmem
  rw [e2] at g2
  cases g2
  refine ⟨_, P, L, Vi, Vo, Ii, Io, hd, e1, e2, e3, e4, e5, e6, ?_, ?_, hL, hIi, hIo⟩
  · rw [f2, abs_mul, abs_of_nonneg hIi]
  · rw [abs_mul, abs_of_nonneg hIo, ← f1]; ring

/-! ### non-vacuity
    S1 (0 V, rail "BAT"), S2 (10 V, rail "USB", listed for "day" and "night"), Converter C on S2 (5 V, 50 %, rail "5V",
    listed for "day"), PMux M (1 Ω, rail "SYS") over [S1, C, S2], ILoad L (1 A) below M.
      day   : S1 dead, M runs from C:   V = [0, 10, 5, 4, 0], I = [0, 1, 1, 1, 1]
      night : C sleeps, M runs from S2: V = [0, 10, 0, 9, 0], I = [0, 1, 0, 1, 1]
      off   : S2 off as well:           all 0 -/
namespace Ex

def cS1 : Comp ℚ := { name := "S1", kind := .source, par := .const 0, vo := 0 }
def cS2 : Comp ℚ := { name := "S2", kind := .source, par := .const 0, vo := 10 }
def cC : Comp ℚ := { name := "C", kind := .converter, par := .const (1/2), vo := 5 }
def cM : Comp ℚ := { name := "M", kind := .pmux, par := .const 0, rs := 1 }
def cL : Comp ℚ := { name := "L", kind := .iload, par := .const 0, ii := 1 }
def n0 : SNode ℚ := { comp := cS1, parents := [], childs := [3], pconf := .names [], rail := "BAT" }
def n1 : SNode ℚ := { comp := cS2, parents := [], childs := [2, 3], pconf := .names ["day", "night"], rail := "USB" }
def n2 : SNode ℚ := { comp := cC, parents := [1], childs := [3], pconf := .names ["day"], rail := "5V" }
def n3 : SNode ℚ := { comp := cM, parents := [0, 2, 1], childs := [4], pconf := .names [], rail := "SYS" }
def n4 : SNode ℚ := { comp := cL, parents := [3], childs := [] }
def sys : SSys ℚ :=
  { nodes := #[some n0, some n1, some n2, some n3, some n4], topo := [1, 0, 2, 3, 4],
    phases := [("day", 3600), ("night", 3600), ("off", 3600)] }

def dV : Vec ℚ := #[0, 10, 5, 4, 0]
def dI : Vec ℚ := #[0, 1, 1, 1, 1]
def dSt : St := #[[true], [false], [false], [false], [false]]
def nV : Vec ℚ := #[0, 10, 0, 9, 0]
def nI : Vec ℚ := #[0, 1, 0, 1, 1]
def nSt : St := #[[true], [false], [true], [false], [false]]
def oV : Vec ℚ := #[0, 0, 0, 0, 0]
def oSt : St := #[[true], [true], [true], [true], [true]]

theorem nodes (n : Nat) (nd : SNode ℚ) (h : sys.node? n = some nd) :
    (n = 0 ∧ nd = n0) ∨ (n = 1 ∧ nd = n1) ∨ (n = 2 ∧ nd = n2) ∨ (n = 3 ∧ nd = n3) ∨ (n = 4 ∧ nd = n4) := by
  rcases n with _ | _ | _ | _ | _ | n
  · have h2 : sys.node? 0 = some n0 := rfl
    rw [h2] at h; exact Or.inl ⟨rfl, (Option.some.inj h).symm⟩
  · have h2 : sys.node? 1 = some n1 := rfl
    rw [h2] at h; exact Or.inr (Or.inl ⟨rfl, (Option.some.inj h).symm⟩)
  · have h2 : sys.node? 2 = some n2 := rfl
    rw [h2] at h; exact Or.inr (Or.inr (Or.inl ⟨rfl, (Option.some.inj h).symm⟩))
  · have h2 : sys.node? 3 = some n3 := rfl
    rw [h2] at h; exact Or.inr (Or.inr (Or.inr (Or.inl ⟨rfl, (Option.some.inj h).symm⟩)))
  · have h2 : sys.node? 4 = some n4 := rfl
    rw [h2] at h; exact Or.inr (Or.inr (Or.inr (Or.inr ⟨rfl, (Option.some.inj h).symm⟩)))
  · have h2 : sys.node? (n + 5) = none := by simp [SSys.node?, sys]
    rw [h2] at h; cases h

theorem wf : TreeWF sys where
  nodup := by decide
  live := by
    intro n
    rcases n with _ | _ | _ | _ | _ | n
    · decide
    · decide
    · decide
    · decide
    · decide
    · have h2 : sys.node? (n + 5) = none := by simp [SSys.node?, sys]
      rw [h2]; simp [sys]
  bound := by decide
  order := by
    intro p c pd h hc
    rcases nodes p pd h with ⟨rfl, rfl⟩ | ⟨rfl, rfl⟩ | ⟨rfl, rfl⟩ | ⟨rfl, rfl⟩ | ⟨rfl, rfl⟩ <;>
      simp [n0, n1, n2, n3, n4] at hc <;> (try rcases hc with rfl | rfl) <;> (try subst hc) <;> decide
  parLive := by
    intro n nd h p hp
    rcases nodes n nd h with ⟨rfl, rfl⟩ | ⟨rfl, rfl⟩ | ⟨rfl, rfl⟩ | ⟨rfl, rfl⟩ | ⟨rfl, rfl⟩ <;>
      simp [n0, n1, n2, n3, n4] at hp <;> (try rcases hp with rfl | rfl | rfl) <;> (try subst hp) <;> rfl
  chLive := by
    intro n nd h c hc
    rcases nodes n nd h with ⟨rfl, rfl⟩ | ⟨rfl, rfl⟩ | ⟨rfl, rfl⟩ | ⟨rfl, rfl⟩ | ⟨rfl, rfl⟩ <;>
      simp [n0, n1, n2, n3, n4] at hc <;> (try rcases hc with rfl | rfl) <;> (try subst hc) <;> rfl
  link := by
    intro p c pd cd hp hc
    rcases nodes p pd hp with ⟨rfl, rfl⟩ | ⟨rfl, rfl⟩ | ⟨rfl, rfl⟩ | ⟨rfl, rfl⟩ | ⟨rfl, rfl⟩ <;>
      rcases nodes c cd hc with ⟨rfl, rfl⟩ | ⟨rfl, rfl⟩ | ⟨rfl, rfl⟩ | ⟨rfl, rfl⟩ | ⟨rfl, rfl⟩ <;>
      simp [n0, n1, n2, n3, n4]
  chNodup := by
    intro n nd h
    rcases nodes n nd h with ⟨rfl, rfl⟩ | ⟨rfl, rfl⟩ | ⟨rfl, rfl⟩ | ⟨rfl, rfl⟩ | ⟨rfl, rfl⟩ <;>
      simp [n0, n1, n2, n3, n4]
  parNodup := by
    intro n nd h
    rcases nodes n nd h with ⟨rfl, rfl⟩ | ⟨rfl, rfl⟩ | ⟨rfl, rfl⟩ | ⟨rfl, rfl⟩ | ⟨rfl, rfl⟩ <;>
      simp [n0, n1, n2, n3, n4]
  rootSrc := by
    intro n nd h
    rcases nodes n nd h with ⟨rfl, rfl⟩ | ⟨rfl, rfl⟩ | ⟨rfl, rfl⟩ | ⟨rfl, rfl⟩ | ⟨rfl, rfl⟩ <;>
      simp [n0, n1, n2, n3, n4, cS1, cS2, cC, cM, cL]
  muxOnly := by
    intro n nd h hl
    rcases nodes n nd h with ⟨rfl, rfl⟩ | ⟨rfl, rfl⟩ | ⟨rfl, rfl⟩ | ⟨rfl, rfl⟩ | ⟨rfl, rfl⟩ <;>
      simp [n0, n1, n2, n3, n4, cM] at hl ⊢
  loadLeaf := by
    intro n nd h hl
    rcases nodes n nd h with ⟨rfl, rfl⟩ | ⟨rfl, rfl⟩ | ⟨rfl, rfl⟩ | ⟨rfl, rfl⟩ | ⟨rfl, rfl⟩ <;>
      simp [n0, n1, n2, n3, n4, cS1, cS2, cC, cM, cL, Kind.ctype] at hl ⊢

theorem names : NamesDistinct sys := by
  intro n m nd md hn hm e
  rcases nodes n nd hn with ⟨rfl, rfl⟩ | ⟨rfl, rfl⟩ | ⟨rfl, rfl⟩ | ⟨rfl, rfl⟩ | ⟨rfl, rfl⟩ <;>
    rcases nodes m md hm with ⟨rfl, rfl⟩ | ⟨rfl, rfl⟩ | ⟨rfl, rfl⟩ | ⟨rfl, rfl⟩ | ⟨rfl, rfl⟩ <;>
    first | rfl | (exfalso; revert e; decide)

theorem oneMux : OneMux sys := by
  intro n m nd md hn hm e1 e2
  rcases nodes n nd hn with ⟨rfl, rfl⟩ | ⟨rfl, rfl⟩ | ⟨rfl, rfl⟩ | ⟨rfl, rfl⟩ | ⟨rfl, rfl⟩ <;>
    rcases nodes m md hm with ⟨rfl, rfl⟩ | ⟨rfl, rfl⟩ | ⟨rfl, rfl⟩ | ⟨rfl, rfl⟩ | ⟨rfl, rfl⟩ <;>
    first | rfl | (exfalso; revert e1; decide) | (exfalso; revert e2; decide)

theorem phys : ∀ n nd, sys.node? n = some nd → nd.comp.Phys := by
  intro n nd h
  rcases nodes n nd h with ⟨rfl, rfl⟩ | ⟨rfl, rfl⟩ | ⟨rfl, rfl⟩ | ⟨rfl, rfl⟩ | ⟨rfl, rfl⟩ <;>
    constructor <;>
    simp [n0, n1, n2, n3, n4, cS1, cS2, cC, cM, cL, Comp.muxRs, Param.Nonneg, Param.interp] <;> norm_num

theorem pv (ph : String) : ∀ n nd, sys.node? n = some nd → PhaseValOK (nd.pconf.ctx ph) := by
  intro n nd h
  rcases nodes n nd h with ⟨rfl, rfl⟩ | ⟨rfl, rfl⟩ | ⟨rfl, rfl⟩ | ⟨rfl, rfl⟩ | ⟨rfl, rfl⟩ <;>
    simp [PhaseValOK, PhaseConf.ctx, n0, n1, n2, n3, n4]

theorem flagOK (st : St) (v : Vec ℚ) (h : ∀ n, n < 5 → sget st n = true → vget v n = 0) (hsz : st.size = 5) :
    ∀ n, sget st n = true → vget v n = 0 := by
  intro n hn
  by_cases hlt : n < 5
  · exact h n hlt hn
  · exfalso
    unfold sget at hn
    simp [Array.getD_eq_getD_getElem?, Array.getElem?_eq_none (by omega : st.size ≤ n)] at hn

theorem dSteady : Steady sys "day" dV dI dSt where
  fwd := ⟨dSt, by decide +kernel⟩
  back := by decide +kernel
  flag := flagOK dSt dV (by decide +kernel) rfl

theorem nSteady : Steady sys "night" nV nI nSt where
  fwd := ⟨nSt, by decide +kernel⟩
  back := by decide +kernel
  flag := flagOK nSt nV (by decide +kernel) rfl

theorem oSteady : Steady sys "off" oV oV oSt where
  fwd := ⟨oSt, by decide +kernel⟩
  back := by decide +kernel
  flag := flagOK oSt oV (by decide +kernel) rfl

/-- index facts about the input list `[S1, C, S2]` of the mux -/
theorem inputs (q pq : Nat) (h : n3.parents[q]? = some pq) : (q = 0 ∧ pq = 0) ∨ (q = 1 ∧ pq = 2) ∨ (q = 2 ∧ pq = 1) := by
  rcases q with _ | _ | _ | q
  · simp [n3] at h; subst h; exact Or.inl ⟨rfl, rfl⟩
  · simp [n3] at h; subst h; exact Or.inr (Or.inl ⟨rfl, rfl⟩)
  · simp [n3] at h; subst h; exact Or.inr (Or.inr ⟨rfl, rfl⟩)
  · simp [n3] at h

theorem live (ph : String) (v i : Vec ℚ) (st : St) (p : Nat) (pd : SNode ℚ) (hp : sys.node? p = some pd) :
    LiveRow sys (sys.phaseTable ph 25 v i st) st p ↔ (sget st p = false ∧ vget v p ≠ 0) :=
  liveRow_iff sys wf names ph 25 v i st p pd hp

/-- by day the converter (second input) is live, the first input (S1, 0 V) is not -/
theorem dLive : LiveRow sys (sys.phaseTable "day" 25 dV dI dSt) dSt 2 ∧
    ¬ LiveRow sys (sys.phaseTable "day" 25 dV dI dSt) dSt 0 ∧
    LiveRow sys (sys.phaseTable "day" 25 dV dI dSt) dSt 1 := by
  refine ⟨(live _ _ _ _ 2 n2 rfl).mpr (by decide +kernel), ?_, (live _ _ _ _ 1 n1 rfl).mpr (by decide +kernel)⟩
  rw [live _ _ _ _ 0 n0 rfl]
  decide +kernel

theorem dFirst : ∀ q pq, q < 1 → n3.parents[q]? = some pq →
    ¬ LiveRow sys (sys.phaseTable "day" 25 dV dI dSt) dSt pq := by
  intro q pq hq h
  rcases inputs q pq h with ⟨rfl, rfl⟩ | ⟨rfl, rfl⟩ | ⟨rfl, rfl⟩
  · exact dLive.2.1
  · omega
  · omega

/-- (1) by day the mux row names the converter, its rail and its output voltage … -/
example : Reports sys (sys.phaseTable "day" 25 dV dI dSt) 3 2 :=
  selected_is_first_live sys wf names "day" 25 dV dI dSt 3 n3 rfl rfl 1 2 rfl dLive.1 dFirst

/-- … concretely: Parent "C", Rail in "5V", Vin 5 V (and not the first declared input "S1" / "BAT" / 0 V) -/
example : (rowN sys (sys.phaseTable "day" 25 dV dI dSt) 3).map (fun r => (r.parent, r.railIn, r.vin))
    = some ("C", "5V", some 5) := by decide +kernel

/-- (2) by day the converter delivers the mux current, the two sources see none of it -/
example :
    cell sys (sys.phaseTable "day" 25 dV dI dSt) (·.iout) 2 =
      cell sys (sys.phaseTable "day" 25 dV dI dSt) (·.iin) 3 + otherKidsIin sys (sys.phaseTable "day" 25 dV dI dSt) 3 2 ∧
    ∀ q pq, q ≠ 1 → n3.parents[q]? = some pq →
      cell sys (sys.phaseTable "day" 25 dV dI dSt) (·.iout) pq = otherKidsIin sys (sys.phaseTable "day" 25 dV dI dSt) 3 pq :=
  mux_current_goes_to_selected sys wf names oneMux "day" 25 dV dI dSt dSteady 3 n3 rfl rfl 1 2 rfl dLive.1 dFirst

example :
    cell sys (sys.phaseTable "day" 25 dV dI dSt) (·.iin) 3 = 1 ∧
    cell sys (sys.phaseTable "day" 25 dV dI dSt) (·.iout) 2 = 1 ∧
    otherKidsIin sys (sys.phaseTable "day" 25 dV dI dSt) 3 2 = 0 ∧
    cell sys (sys.phaseTable "day" 25 dV dI dSt) (·.iout) 1 = 1 ∧
    otherKidsIin sys (sys.phaseTable "day" 25 dV dI dSt) 3 1 = 1 ∧
    cell sys (sys.phaseTable "day" 25 dV dI dSt) (·.iout) 0 = 0 := by decide +kernel

/-- (2′) conservation, by day and in the dead phase -/
example :
    (n3.parents.map fun pq => cell sys (sys.phaseTable "day" 25 dV dI dSt) (·.iout) pq
        - otherKidsIin sys (sys.phaseTable "day" 25 dV dI dSt) 3 pq).sum
      = cell sys (sys.phaseTable "day" 25 dV dI dSt) (·.iin) 3 :=
  mux_current_conserved sys wf names oneMux "day" 25 dV dI dSt dSteady 3 n3 rfl rfl

/-- (3) phase "off": no input is live, the mux row and the load row are all zero -/
theorem oNone : ∀ p ∈ n3.parents, ¬ LiveRow sys (sys.phaseTable "off" 25 oV oV oSt) oSt p := by
  intro p hp
  have hp' : p = 0 ∨ p = 2 ∨ p = 1 := by simpa [n3] using hp
  rcases hp' with rfl | rfl | rfl
  · rw [live _ _ _ _ 0 n0 rfl]; decide +kernel
  · rw [live _ _ _ _ 2 n2 rfl]; decide +kernel
  · rw [live _ _ _ _ 1 n1 rfl]; decide +kernel

theorem depthL : C04.Depth sys 3 4 1 :=
  C04.Depth.down ⟨n4, by decide, rfl, rfl, by decide, by decide⟩ C04.Depth.top

example : ∃ r, rowN sys (sys.phaseTable "off" 25 oV oV oSt) 4 = some r ∧
    r.vin = some 0 ∧ r.vout = some 0 ∧ r.iin = some 0 ∧ r.iout = some 0 ∧ r.pwr = some 0 ∧ r.loss = some 0 :=
  (no_live_input_all_zero sys wf names oneMux "off" 25 oV oV oSt oSteady 3 n3 rfl rfl oNone).1 4 1 depthL

example : ∃ r, rowN sys (sys.phaseTable "off" 25 oV oV oSt) 3 = some r ∧
    r.vin = some 0 ∧ r.vout = some 0 ∧ r.iin = some 0 ∧ r.iout = some 0 ∧ r.pwr = some 0 ∧ r.loss = some 0 :=
  (no_live_input_all_zero sys wf names oneMux "off" 25 oV oV oSt oSteady 3 n3 rfl rfl oNone).1 3 0 C04.Depth.top

example : ∃ r, rowN sys (sys.phaseTable "off" 25 oV oV oSt) 4 = some r ∧
    r.vin = some 0 ∧ r.vout = some 0 ∧ r.iin = some 0 ∧ r.iout = some 0 ∧ r.pwr = some 0 ∧ r.loss = some 0 :=
  no_live_input_descendants_zero sys wf names oneMux "off" 25 oV oV oSt oSteady 3 n3 rfl rfl oNone 4
    (Under.kid (pd := n3) Under.top rfl (by decide))

/-- with no live input the row names the first declared input, S1 -/
example : Reports sys (sys.phaseTable "off" 25 oV oV oSt) 3 0 :=
  no_live_reports_first_declared sys wf names "off" 25 oV oV oSt 3 n3 rfl rfl oNone 0 [2, 1] rfl

/-- (4) at night the converter (selected by day) is dead, S1 is as dead and S2 as live as by day: the mux row
    reports S2, the next live input -/
example : Reports sys (sys.phaseTable "night" 25 nV nI nSt) 3 1 := by
  apply selection_monotone sys (sys.phaseTable "day" 25 dV dI dSt) dSt sys wf names "night" 25 nV nI nSt
    3 n3 rfl rfl 1 2 rfl dFirst ?_ ?_ 2 1 (by omega) rfl dLive.2.2 ?_
  · rw [live _ _ _ _ 2 n2 rfl]; decide +kernel
  · intro q pq hq h
    rcases inputs q pq h with ⟨rfl, rfl⟩ | ⟨rfl, rfl⟩ | ⟨rfl, rfl⟩
    · rw [live _ _ _ _ 0 n0 rfl, live _ _ _ _ 0 n0 rfl]; decide +kernel
    · exact absurd rfl hq
    · rw [live _ _ _ _ 1 n1 rfl, live _ _ _ _ 1 n1 rfl]; decide +kernel
  · intro q pq h1 h2 _
    omega

example : (rowN sys (sys.phaseTable "night" 25 nV nI nSt) 3).map (fun r => (r.parent, r.railIn, r.vin))
    = some ("S2", "USB", some 10) := by decide +kernel

/-- (5) the mux row by day: Power 5 W = |5 V · 1 A|, Loss 1 W = 5 W − |4 V · 1 A| -/
example : ∃ rm P L Vi Vo Ii Io, rowN sys (sys.phaseTable "day" 25 dV dI dSt) 3 = some rm ∧
    rm.pwr = some P ∧ rm.loss = some L ∧ rm.vin = some Vi ∧ rm.vout = some Vo ∧ rm.iin = some Ii ∧
    rm.iout = some Io ∧ P = |Vi * Ii| ∧ L = P - |Vo * Io| ∧ 0 ≤ L ∧ 0 ≤ Ii ∧ 0 ≤ Io :=
  mux_row_power_identity sys wf names phys "day" (pv "day") 25 dV dI dSt dSteady 3 n3 rfl rfl

example : (rowN sys (sys.phaseTable "day" 25 dV dI dSt) 3).map (fun r => (r.pwr, r.loss, r.vout, r.iout))
    = some (some 5, some 1, some 4, some 1) := by decide +kernel

/-- every live node has its row, and only one: e.g. the row named "M" -/
example : ∃ r, rowN sys (sys.phaseTable "day" 25 dV dI dSt) 3 = some r ∧ r.name = "M" ∧ r.railOut = "SYS" := by
  obtain ⟨r, h1, _, h2, h3, _⟩ := row_of_node sys wf names "day" 25 dV dI dSt 3 n3 rfl
  exact ⟨r, h1, h2, h3⟩

end Ex

end C05S
end SysLoss
